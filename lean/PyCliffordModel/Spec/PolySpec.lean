import PyCliffordModel.Spec.Ket
import PyCliffordModel.Model.Poly
/-!
# Spec/PolySpec — what a Pauli polynomial denotes: its coefficient function

A polynomial `Σ_k c_k · i^{p_k} σ[g_k]` (terms may repeat strings and carry phases) denotes the operator whose
coefficient on the Pauli string `g` is `coef a g = Σ_{k : g_k = g} c_k i^{p_k}`. Pauli strings are linearly independent
matrices (textbook), so two polynomials denote the same matrix iff their coefficient functions agree, and
`Tr = 2^N · coef(identity)`. All arithmetic statements of C15 are statements about `coef`.
-/
namespace PC

/-- coefficient of the string `g` in the operator denoted by `a` -/
def coef (a : Poly) (g : PStr) : Cx :=
  a.foldl (fun acc t => if t.1.g = g then acc.add (t.2.mul (Cx.ipow t.1.p)) else acc) Cx.zero

/-- the coefficient survives `reduce` iff its modulus exceeds the tolerance -/
def keep (c : Cx) (tolNum tolDen : Nat) : Cx := if c.norm2 > tolSq tolNum tolDen then c else Cx.zero

end PC
