import PyCliffordModel.Model.Kernels
/-!
# Spec/Ket — what a Pauli operator *is*: a monomial matrix, given by its action on scaled basis kets

`σ[(x,z)] = i^{xz} X^x Z^z` on one qubit sends `|b⟩` to `i^{xz+2zb} |b⊕x⟩`; on `N` qubits phases add and
bits concatenate (this is the Kronecker product of monomial matrices). A scaled ket is `(k, b)` = `i^k |b⟩`.
The operator `i^p σ[g]` acts by `act`. The matrix product of two operators is the composition of their
actions, and two operators on `N` qubits are the same matrix iff their actions agree on every ket.
`pauliMat` grounds the one-qubit action in the textbook 2×2 matrices over the Gaussian integers.
-/
namespace PC

abbrev Ket := List Bool

/-- one-qubit action: phase exponent picked up and the new bit -/
def actQ (q : Q) (b : Bool) : Int × Bool := (b2i q.1 * b2i q.2 + 2 * b2i q.2 * b2i b, b != q.1)

def actS : PStr → Ket → Int × Ket
  | q :: qs, b :: bs =>
      let r := actQ q b
      let rs := actS qs bs
      (r.1 + rs.1, r.2 :: rs.2)
  | _, _ => (0, [])

/-- action of `i^p σ[g]` on the scaled ket `i^k |b⟩` (exponent kept in `[0,4)`) -/
def act (P : Pauli) (k : Int × Ket) : Int × Ket :=
  let r := actS P.g k.2
  ((k.1 + P.p + r.1) % 4, r.2)

/-- Gaussian integers `a + b i` as pairs, and `i^k` -/
def ipowG (k : Int) : Int × Int :=
  match k % 4 with
  | 0 => (1, 0) | 1 => (0, 1) | 2 => (-1, 0) | _ => (0, -1)

/-- the textbook matrices `I, X, Y, Z` (entry `[row][col]`, Gaussian integers), indexed by `(x,z)` -/
def pauliMat : Q → Bool → Bool → Int × Int
  | (false, false), r, c => if r == c then (1, 0) else (0, 0)                       -- I
  | (true, false), r, c => if r != c then (1, 0) else (0, 0)                        -- X = [[0,1],[1,0]]
  | (true, true), r, c => if r == c then (0, 0) else if r then (0, 1) else (0, -1)  -- Y = [[0,-i],[i,0]]
  | (false, true), r, c => if r != c then (0, 0) else if r then (-1, 0) else (1, 0) -- Z = diag(1,-1)

/-- the matrix of the action `actQ q`: column `c` has the single entry `i^{phase}` in row `c ⊕ x` -/
def actMat (q : Q) (r c : Bool) : Int × Int :=
  let a := actQ q c
  if r == a.2 then ipowG a.1 else (0, 0)

/-- same operator up to the representation of the phase modulo 4 -/
def PEq (a b : Pauli) : Prop := a.g = b.g ∧ a.p % 4 = b.p % 4

end PC
