import PyCliffordModel.Spec.Maps
/-!
# Spec/Tableau — the tableau invariant and the stabilizer group of a state

`TabInv st n`: `2n` rows on `n` qubits, `0 ≤ r ≤ n`, every row anticommutes with its partner row (index `± n`)
and with no other row, and the active stabilizers (rows `[r, n)`) are Hermitian. Only the phases of active
stabilizer rows carry meaning (the code moves strings, not phases, of the other rows).
The state denoted is `ρ = 2^{-r} ∏_{a ∈ [r,n)} (1 + S_a)/2`; its stabilizer group is the set of products of
active rows. Under `TabInv` the active rows are independent and `−1` is not in the group, so `ρ` is a
positive operator of trace one and rank `2^r` (textbook; not formalised).
-/
namespace PC

def TabInv (st : State) (n : Nat) : Prop :=
  st.rows.length = 2 * n ∧ st.r ≤ n ∧ (∀ R ∈ st.rows, R.g.length = n) ∧
  (∀ i j, i < 2 * n → j < 2 * n →
     acq (rowAt st.rows i).g (rowAt st.rows j).g = if i + n = j ∨ j + n = i then 1 else 0) ∧
  (∀ i, st.r ≤ i → i < n → (rowAt st.rows i).p % 2 = 0)

/-- all phases Hermitian (what the constructors produce; kept by rotations and maps) -/
def AllHerm (T : List Pauli) : Prop := ∀ R ∈ T, R.p % 2 = 0

/-- membership in the signed stabilizer group: a product of active rows selected by `c` -/
def InGroup (st : State) (P : Pauli) : Prop :=
  ∃ c : List Bool, c.length = st.active.length ∧ PEq (combine st.N c st.active) P

end PC
