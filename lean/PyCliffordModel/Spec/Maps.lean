import PyCliffordModel.Spec.Ket
import PyCliffordModel.Model.Stab
/-!
# Spec/Maps — what a valid Clifford map is, and GF(2) matrix products

A Clifford map on `n` qubits lists the images of `X_0, Z_0, X_1, Z_1, …`. It is *valid* when the images
satisfy the canonical commutation relations (images of `X_k` and `Z_k` anticommute, all other pairs commute)
and are Hermitian (phase `0` or `2`); these are exactly the tables of `P ↦ U† P U` for a unitary `U`.
-/
namespace PC

def ValidMap (M : List Pauli) (n : Nat) : Prop :=
  M.length = 2 * n ∧ (∀ R ∈ M, R.g.length = n ∧ R.p % 2 = 0) ∧
  ∀ i j, i < 2 * n → j < 2 * n →
    acq (rowAt M i).g (rowAt M j).g = if i / 2 = j / 2 ∧ i ≠ j then 1 else 0

/-- the generator embedded among identity wires: `G` scattered into the identity string through `m` -/
def embedGen (m : List Bool) (N : Nat) (G : Pauli) : Pauli := ⟨scatter m (idStr N) G.g, G.p⟩

/-- `Σ_k a[k] ∧ b[k]` over GF(2) -/
def dotB : List Bool → List Bool → Bool
  | a :: as, b :: bs => (a && b) != dotB as bs
  | _, _ => false
def colB (B : BMat) (j : Nat) : List Bool := B.map fun row => row.getD j false
/-- matrix product over GF(2); `m` = number of columns of `B` -/
def bmul (A B : BMat) (m : Nat) : BMat := A.map fun row => (List.range m).map fun j => dotB row (colB B j)
def bident (n : Nat) : BMat := (List.range n).map fun i => unitRow n i
def IsSquare (A : BMat) (n : Nat) : Prop := A.length = n ∧ ∀ row ∈ A, row.length = n

end PC
