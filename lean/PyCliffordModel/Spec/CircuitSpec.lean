import PyCliffordModel.Spec.Maps
import PyCliffordModel.Model.Circuit
/-!
# Spec/CircuitSpec — what a deterministic gate does, and the sequential meaning of a gate program

`gateAct g N P` is the action of the deterministic gate `g` on one operator of an `N`-qubit register: the rotation by
its generator, or the transformation by its forward map, applied on its qubits (through the boolean mask of its
qubit set, as the code does) and leaving all other qubits alone. `seqAct prog N` applies the gates of a program
one at a time in the order they were added: this is the meaning a circuit must have, however its gates are packed
into layers, copied, composed or compiled.
-/
namespace PC

/-- boolean mask of a qubit set (what `utils.mask(qubits, N)` returns for in-range, non-negative indices) -/
def maskOf (qubits : List Nat) (N : Nat) : List Bool := (List.range N).map fun i => qubits.contains i

/-- a deterministic gate given by a generator or a forward map, well-formed for `N` qubits -/
def Gate.WF (g : Gate) (N : Nat) : Prop :=
  g.qubits ≠ [] ∧ (∀ q ∈ g.qubits, q < N) ∧ g.qubits.Nodup ∧
  ((∃ G, g.gen = some G ∧ G.g.length = g.n ∧ G.p % 2 = 0) ∨
   (g.gen = none ∧ ∃ M, g.fmap = some M ∧ ValidMap M g.n))

/-- the forward action of a deterministic gate on one operator -/
def gateAct (g : Gate) (N : Nat) (P : Pauli) : Pauli :=
  match g.gen with
  | some G => rotateMasked G (maskOf g.qubits N) P
  | none =>
    match g.fmap with
    | some M => transformMasked M (maskOf g.qubits N) P
    | none => P

/-- the backward action: rotation by the negated generator / transformation by the inverse map -/
def gateActInv (g : Gate) (N : Nat) (P : Pauli) : Pauli :=
  match g.gen with
  | some G => rotateMasked (neg G) (maskOf g.qubits N) P
  | none =>
    match g.fmap with
    | some M => match inverse M with
      | some B => transformMasked B (maskOf g.qubits N) P
      | none => P
    | none => P

/-- gates applied one at a time in program order -/
def seqAct (prog : List Gate) (N : Nat) (P : Pauli) : Pauli := prog.foldl (fun Q g => gateAct g N Q) P
/-- the inverse: inverse gates in reverse program order -/
def seqActInv (prog : List Gate) (N : Nat) (P : Pauli) : Pauli := prog.foldr (fun g Q => gateActInv g N Q) P

/-- build a circuit by `take`-ing the gates of a program in order (`CliffordCircuit(N)` then `circ.take(g)` …) -/
def buildCirc (N : Nat) (prog : List Gate) : Except Err Circ := prog.foldlM (fun c g => c.take g) { N := N }

/-- row-wise equality up to the representation of phases mod 4 -/
def RowsPEq' (A B : List Pauli) : Prop := A.length = B.length ∧ ∀ i, i < A.length → PEq (rowAt A i) (rowAt B i)

end PC
