import PyCliffordModel.Spec.PolySpec
import PyCliffordModel.Spec.Rank
/-!
# Spec/Reduced — the reduced density matrix of a region, on Pauli expansions

Non-identity Pauli matrices are traceless and `Tr 1 = 2` (textbook), so the partial trace over the qubits outside a region `R`
acts on a Pauli expansion term by term: `Tr_{R^c} (σ_R ⊗ σ_{R^c}) = 2^{|R^c|} σ_R` if `σ_{R^c}` is the identity string, and `0`
otherwise. `ptrace a m` is that operation on a polynomial (`m` = boolean mask of the region).
-/
namespace PC

/-- partial trace over the qubits outside the mask `m` -/
def ptrace (a : Poly) (m : List Bool) : Poly :=
  let nm := m.map (!·)
  (a.filter fun t => !(anyBit (gather nm t.1.g))).map fun t =>
    ((⟨gather m t.1.g, t.1.p⟩ : Pauli), (⟨(2 : Rat) ^ maskCount nm, 0⟩ : Cx).mul t.2)

end PC
