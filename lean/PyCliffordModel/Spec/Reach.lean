import PyCliffordModel.Spec.CircuitSpec
import PyCliffordModel.Spec.Tableau
/-!
# Spec/Reach — histories of public state-changing operations

`StOp` lists the public operations that change a stabilizer state; `applyOp` is their model; `Reachable` is the set of
states obtained from a constructor by any finite history (with any coins / requested outcomes).
-/
namespace PC

inductive StOp
  | rotate (G : Pauli)                                  -- `rotate_by(G)`
  | rotateMasked (G : Pauli) (m : List Bool)            -- `rotate_by(G, mask)`
  | transform (M : List Pauli)                          -- `transform_by(map)`
  | transformMasked (M : List Pauli) (m : List Bool)    -- `transform_by(map, mask)`
  | gate (g : Gate)                                     -- a deterministic gate applied forward
  | measure (obs : List Pauli) (coins : List Bool)      -- `measure(obs)` with this sequence of coins
  | postselect (P : Pauli) (res : Nat)                  -- `postselect(P, res)`
  | copy                                                -- continue on a copy

/-- the operation is admissible on `n` qubits (what the public API requires of its arguments) -/
def StOp.Ok (n : Nat) : StOp → Prop
  | .rotate G => G.g.length = n ∧ G.p % 2 = 0
  | .rotateMasked G m => m.length = n ∧ maskCount m = G.g.length ∧ G.p % 2 = 0
  | .transform M => ValidMap M n
  | .transformMasked M m => m.length = n ∧ ValidMap M (maskCount m)
  | .gate g => g.WF n
  | .measure obs _ => ∀ o ∈ obs, o.g.length = n ∧ o.p % 2 = 0
  | .postselect P res => P.g.length = n ∧ P.p % 2 = 0 ∧ res < 2
  | .copy => True

/-- the model of one operation; `none` = the implementation raises (e.g. post-selection on a mixed state, too few coins) -/
def applyOp (n : Nat) (st : State) : StOp → Option State
  | .rotate G => some ⟨st.rows.map (rotate G), st.r⟩
  | .rotateMasked G m => some ⟨st.rows.map (rotateMasked G m), st.r⟩
  | .transform M => some ⟨st.rows.map (transform M), st.r⟩
  | .transformMasked M m => some ⟨st.rows.map (transformMasked M m), st.r⟩
  | .gate g => some ⟨st.rows.map (gateAct g n), st.r⟩
  | .measure obs coins => match measure st obs coins with
    | .ok (st', _, _, _) => some st'
    | .error _ => none
  | .postselect P res => match postselect st P res with
    | .ok (st', _) => some st'
    | .error _ => none
  | .copy => some st

def applyOps (n : Nat) : State → List StOp → Option State
  | st, [] => some st
  | st, op :: ops => match applyOp n st op with
    | some st' => applyOps n st' ops
    | none => none

end PC
