import PyCliffordModel.Spec.Tableau
/-!
# Spec/Rank — what the GF(2) rank means, and the entropy of a region

For a binary matrix `A` with `m` rows, the combinations `c ∈ {0,1}^m` with `c·A = 0` form a subspace of size
`2^(m − rank A)`. This is the form in which the rank enters the entropy: the stabilizer-group elements supported
inside a region `R` are the combinations of generators that vanish on the complement, so their number is
`2^(L − rank(generators restricted to the complement))`, and the von Neumann entropy of the reduced state of a
stabilizer state is `|R| − log2 #{group elements supported in R}` (textbook; not formalised).
-/
namespace PC

/-- `c·A` over GF(2): xor of the rows of `A` selected by `c`; `nc` = number of columns -/
def vecMat (c : List Bool) (A : BMat) (nc : Nat) : List Bool :=
  (List.range nc).map fun j => dotB c (colB A j)

def isZeroVec (v : List Bool) : Bool := v.all (· == false)

/-- number of combinations of the rows of `A` that vanish -/
def kernelCount (A : BMat) (nc : Nat) : Nat :=
  ((allBits A.length).filter fun c => isZeroVec (vecMat c A nc)).length

def IsMat (A : BMat) (nr nc : Nat) : Prop := A.length = nr ∧ ∀ row ∈ A, row.length = nc

/-- region entropy of a stabilizer group with generators `gs` (independent, `L` of them) on `N` qubits:
    `|R| − log2 #{products of generators supported in R}`, where a product is supported in `R` iff its restriction to
    the complement vanishes -/
def supportedCount (gs : List PStr) (m : List Bool) : Nat :=
  let nm := m.map (!·)
  kernelCount (gs.map fun g => flat (gather nm g)) (2 * maskCount nm)

end PC
