import PyCliffordModel.Properties.C12d
/-! helper lemmas for `Properties/C06e.lean`

Layout:
* §1 multiplying a polynomial by one term translates its coefficient function (`coef_map_left`, `coef_map_right`);
* §2 `P a P` and `P a` for the two-term projector `P = (1 + (−1)^out O)/2` and any polynomial `a` (`proj_coef`, `left_coef`);
* §3 the density polynomial translated by a Pauli operator (`trans_in`, `trans_out`), commutation inside the group;
* §4 strings of the group after a random-outcome measurement (`pivotState_strings`);
* §5 the statements of `C06e.lean`.
-/
namespace PC
namespace Pj
open Ms Dn

/-! ## §1 translation by one term -/

theorem xorS_left_iff (r y g : PStr) (n : Nat) (hr : r.length = n) (hy : y.length = n) (hg : g.length = n) :
    xorS r y = g ↔ y = xorS r g := by
  constructor
  · intro e; rw [← e, xorS_cancel_left r y (hr.trans hy.symm)]
  · intro e; rw [e, xorS_cancel_left r g (hr.trans hg.symm)]

theorem xorS_right_iff (r x g : PStr) (n : Nat) (hr : r.length = n) (hx : x.length = n) (hg : g.length = n) :
    xorS x r = g ↔ x = xorS g r := by
  constructor
  · intro e; rw [← e, xorS_cancel_right x r (hx.trans hr.symm)]
  · intro e; rw [e, xorS_cancel_right g r (hg.trans hr.symm)]

theorem termVal_pos (t : Term) (g : PStr) (h : t.1.g = g) : termVal t g = t.2.mul (Cx.ipow t.1.p) := if_pos h
theorem termVal_neg (t : Term) (g : PStr) (h : t.1.g ≠ g) : termVal t g = Cx.zero := if_neg h

/-- `(c·d) · i^((p + q + k) % 4) = (c · i^(p + k)) · (d · i^q)` -/
theorem phase_split (c d : Cx) (p q k : Int) :
    (c.mul d).mul (Cx.ipow ((p + q + k) % 4)) = (c.mul (Cx.ipow (p + k))).mul (d.mul (Cx.ipow q)) := by
  rw [Cx.ipow_mod, show p + q + k = (p + k) + q by omega, Cx.ipow_add]
  simp only [Cx.mul_assoc]
  congr 1
  simp only [Cx.mul_left_comm, Cx.mul_comm]

/-- left multiplication by the term `(R, c)`: the coefficient at `g` is read at `R.g ⊕ g` -/
theorem coef_map_left (a : Poly) (R : Pauli) (c : Cx) (g : PStr) (n : Nat) (ha : ∀ t ∈ a, t.1.g.length = n)
    (hR : R.g.length = n) (hg : g.length = n) :
    coef (a.map fun y => (mul R y.1, c.mul y.2)) g
      = (c.mul (Cx.ipow (R.p + ipow R.g (xorS R.g g)))).mul (coef a (xorS R.g g)) := by
  induction a with
  | nil => simp [coef_nil, Cx.mul_zero]
  | cons y a ih =>
    rw [List.map_cons, coef_cons, coef_cons, ih (fun t ht => ha t (List.mem_cons_of_mem _ ht)), Cx.mul_add]
    congr 1
    have hy := ha y List.mem_cons_self
    by_cases e : y.1.g = xorS R.g g
    · have e1 : (mul R y.1, c.mul y.2).1.g = g := (xorS_left_iff R.g y.1.g g n hR hy hg).2 e
      rw [termVal_pos _ _ e1, termVal_pos _ _ e]
      show (c.mul y.2).mul (Cx.ipow ((R.p + y.1.p + ipow R.g y.1.g) % 4)) = _
      rw [e]
      exact phase_split c y.2 R.p y.1.p _
    · have e1 : (mul R y.1, c.mul y.2).1.g ≠ g := fun e' => e ((xorS_left_iff R.g y.1.g g n hR hy hg).1 e')
      rw [termVal_neg _ _ e1, termVal_neg _ _ e, Cx.mul_zero]

/-- right multiplication by the term `(R, c)` -/
theorem coef_map_right (a : Poly) (R : Pauli) (c : Cx) (g : PStr) (n : Nat) (ha : ∀ t ∈ a, t.1.g.length = n)
    (hR : R.g.length = n) (hg : g.length = n) :
    coef (a.map fun x => (mul x.1 R, x.2.mul c)) g
      = (c.mul (Cx.ipow (R.p + ipow (xorS g R.g) R.g))).mul (coef a (xorS g R.g)) := by
  induction a with
  | nil => simp [coef_nil, Cx.mul_zero]
  | cons x a ih =>
    rw [List.map_cons, coef_cons, coef_cons, ih (fun t ht => ha t (List.mem_cons_of_mem _ ht)), Cx.mul_add]
    congr 1
    have hx := ha x List.mem_cons_self
    by_cases e : x.1.g = xorS g R.g
    · have e1 : (mul x.1 R, x.2.mul c).1.g = g := (xorS_right_iff R.g x.1.g g n hR hx hg).2 e
      rw [termVal_pos _ _ e1, termVal_pos _ _ e]
      show (x.2.mul c).mul (Cx.ipow ((x.1.p + R.p + ipow x.1.g R.g) % 4)) = _
      rw [e, Cx.mul_comm x.2 c,
        show x.1.p + R.p + ipow (xorS g R.g) R.g = R.p + x.1.p + ipow (xorS g R.g) R.g by omega]
      exact phase_split c x.2 R.p x.1.p _
    · have e1 : (mul x.1 R, x.2.mul c).1.g ≠ g := fun e' => e ((xorS_right_iff R.g x.1.g g n hR hx hg).1 e')
      rw [termVal_neg _ _ e1, termVal_neg _ _ e, Cx.mul_zero]

/-- a coefficient at a string of the wrong length vanishes -/
theorem coef_of_length_ne (a : Poly) (g : PStr) (n : Nat) (ha : ∀ t ∈ a, t.1.g.length = n) (hg : g.length ≠ n) :
    coef a g = Cx.zero := by
  induction a with
  | nil => rfl
  | cons t a ih =>
    rw [coef_cons, ih (fun t ht => ha t (List.mem_cons_of_mem _ ht)), Cx.add_zero]
    exact termVal_neg _ _ (fun e => hg (by rw [← e]; exact ha t List.mem_cons_self))

theorem length_map_left (a : Poly) (R : Pauli) (c : Cx) (n : Nat) (ha : ∀ t ∈ a, t.1.g.length = n) (hR : R.g.length = n) :
    ∀ t ∈ (a.map fun y => (mul R y.1, c.mul y.2)), t.1.g.length = n := by
  intro t ht
  obtain ⟨y, hy, rfl⟩ := List.mem_map.1 ht
  show (mul R y.1).g.length = n
  rw [length_mul _ _ (hR.trans (ha y hy).symm)]; exact hR

theorem length_map_right (a : Poly) (R : Pauli) (c : Cx) (n : Nat) (ha : ∀ t ∈ a, t.1.g.length = n) (hR : R.g.length = n) :
    ∀ t ∈ (a.map fun x => (mul x.1 R, x.2.mul c)), t.1.g.length = n := by
  intro t ht
  obtain ⟨y, hy, rfl⟩ := List.mem_map.1 ht
  show (mul y.1 R).g.length = n
  rw [length_mul _ _ ((ha y hy).trans hR.symm)]; exact ha y hy

/-! ## §2 the two-term projector -/

def half : Cx := ⟨1 / 2, 0⟩
/-- the coefficient `(−1)^out / 2` of the observable in the projector -/
def sgn (out : Int) : Cx := if out = 0 then ⟨1 / 2, 0⟩ else ⟨-(1 / 2), 0⟩

/-- the projector as a term list (the definition of `projPoly` in `C06e.lean`, which imports this file) -/
def proj (O : Pauli) (out : Int) : Poly := [(⟨idStr O.g.length, 0⟩, half), (O, sgn out)]

theorem matmul_proj_left (O : Pauli) (out : Int) (a : Poly) :
    polyMatmul (proj O out) a
      = (a.map fun y => (mul ⟨idStr O.g.length, 0⟩ y.1, half.mul y.2)) ++ (a.map fun y => (mul O y.1, (sgn out).mul y.2)) := by
  unfold proj
  rw [polyMatmul_cons, polyMatmul_cons, polyMatmul_nil, List.append_nil]

theorem coef_id_left (a : Poly) (c : Cx) (g : PStr) (n : Nat) (ha : ∀ t ∈ a, t.1.g.length = n) (hg : g.length = n) :
    coef (a.map fun y => (mul ⟨idStr n, 0⟩ y.1, c.mul y.2)) g = c.mul (coef a g) := by
  rw [coef_map_left a ⟨idStr n, 0⟩ c g n ha (length_idStr n) hg]
  simp only
  rw [← hg, xorS_idStr_left, ipow_idStr_left]
  show (c.mul Cx.one).mul _ = _
  rw [Cx.mul_one]

theorem coef_id_right (a : Poly) (c : Cx) (g : PStr) (n : Nat) (ha : ∀ t ∈ a, t.1.g.length = n) (hg : g.length = n) :
    coef (a.map fun x => (mul x.1 ⟨idStr n, 0⟩, x.2.mul c)) g = c.mul (coef a g) := by
  rw [coef_map_right a ⟨idStr n, 0⟩ c g n ha (length_idStr n) hg]
  simp only
  rw [← hg, xorS_idStr_right, ipow_idStr_right]
  show (c.mul Cx.one).mul _ = _
  rw [Cx.mul_one]

/-- `P a`, coefficientwise -/
theorem left_coef (a : Poly) (O : Pauli) (out : Int) (g : PStr) (n : Nat) (ha : ∀ t ∈ a, t.1.g.length = n)
    (hO : O.g.length = n) (hg : g.length = n) :
    coef (polyMatmul (proj O out) a) g
      = (half.mul (coef a g)).add
          (((sgn out).mul (Cx.ipow (O.p + ipow O.g (xorS O.g g)))).mul (coef a (xorS O.g g))) := by
  rw [matmul_proj_left, coef_append, hO, coef_id_left a half g n ha hg, coef_map_left a O (sgn out) g n ha hO hg]

theorem length_proj_left (a : Poly) (O : Pauli) (out : Int) (n : Nat) (ha : ∀ t ∈ a, t.1.g.length = n)
    (hO : O.g.length = n) : ∀ t ∈ polyMatmul (proj O out) a, t.1.g.length = n := by
  rw [matmul_proj_left, hO]
  intro t ht
  rcases List.mem_append.1 ht with ht | ht
  · exact length_map_left a _ _ n ha (length_idStr n) t ht
  · exact length_map_left a _ _ n ha hO t ht

/-- `a P`, coefficientwise -/
theorem right_coef (a : Poly) (O : Pauli) (out : Int) (g : PStr) (n : Nat) (ha : ∀ t ∈ a, t.1.g.length = n)
    (hO : O.g.length = n) (hg : g.length = n) :
    coef (polyMatmul a (proj O out)) g
      = (half.mul (coef a g)).add
          (((sgn out).mul (Cx.ipow (O.p + ipow (xorS g O.g) O.g))).mul (coef a (xorS g O.g))) := by
  unfold proj
  rw [show [((⟨idStr O.g.length, 0⟩ : Pauli), half), (O, sgn out)] = [((⟨idStr O.g.length, 0⟩ : Pauli), half)] ++ [(O, sgn out)] from rfl,
    coef_polyMatmul_append_right, matmul_single_right, matmul_single_right, hO,
    coef_id_right a half g n ha hg, coef_map_right a O (sgn out) g n ha hO hg]

theorem length_proj_both (a : Poly) (O : Pauli) (out : Int) (n : Nat) (ha : ∀ t ∈ a, t.1.g.length = n)
    (hO : O.g.length = n) : ∀ t ∈ polyMatmul (polyMatmul (proj O out) a) (proj O out), t.1.g.length = n := by
  have hX := length_proj_left a O out n ha hO
  generalize polyMatmul (proj O out) a = X at hX
  unfold proj
  rw [show [((⟨idStr O.g.length, 0⟩ : Pauli), half), (O, sgn out)] = [((⟨idStr O.g.length, 0⟩ : Pauli), half)] ++ [(O, sgn out)] from rfl]
  intro t ht
  induction X with
  | nil => simp [polyMatmul_nil] at ht
  | cons x X ih =>
    rw [polyMatmul_cons] at ht
    rcases List.mem_append.1 ht with ht | ht
    · obtain ⟨y, hy, rfl⟩ := List.mem_map.1 ht
      have hx := hX x List.mem_cons_self
      show (mul x.1 y.1).g.length = n
      have hyl : y.1.g.length = n := by
        rcases List.mem_append.1 hy with hy | hy
        · rw [List.mem_singleton.1 hy, hO]; exact length_idStr n
        · rw [List.mem_singleton.1 hy]; exact hO
      rw [length_mul _ _ (hx.trans hyl.symm)]; exact hx
    · exact ih (fun t ht => hX t (List.mem_cons_of_mem _ ht)) ht

theorem sandwich_comm (u v W W3 : Cx) (h : W.mul W3 = Cx.one) :
    (half.mul ((half.mul u).add ((half.mul W).mul v))).add ((half.mul W).mul ((half.mul v).add ((half.mul W3).mul u)))
      = half.mul (u.add (W.mul v)) := by
  have h1 := congrArg Cx.re h
  have h2 := congrArg Cx.im h
  simp only [Cx.mul, Cx.one] at h1 h2
  apply Cx.ext' <;> simp only [Cx.mul, Cx.add, half] <;> grind

theorem sandwich_anti (u v W W2 W3 : Cx) (h2 : W2 = W.neg) (h : W2.mul W3 = Cx.one.neg) :
    (half.mul ((half.mul u).add ((half.mul W).mul v))).add ((half.mul W2).mul ((half.mul v).add ((half.mul W3).mul u)))
      = Cx.zero := by
  subst h2
  have h1 := congrArg Cx.re h
  have h2 := congrArg Cx.im h
  simp only [Cx.mul, Cx.one, Cx.neg] at h1 h2
  apply Cx.ext' <;> simp only [Cx.mul, Cx.add, half, Cx.neg, Cx.zero] <;> grind

theorem sgn_ipow (out : Int) (hout : out = 0 ∨ out = 1) (k : Int) :
    (sgn out).mul (Cx.ipow k) = half.mul (Cx.ipow (2 * out + k)) := by
  rcases hout with rfl | rfl
  · simp [sgn, half]
  · rw [Cx.ipow_add]
    show (sgn 1).mul _ = half.mul ((Cx.ipow 2).mul _)
    rw [ipow_two]
    apply Cx.ext' <;> simp [Cx.mul, sgn, half] <;> grind

theorem ipow_add_two (k : Int) : Cx.ipow (k + 2) = (Cx.ipow k).neg := by
  rw [Cx.ipow_add, ipow_two]
  apply Cx.ext' <;> simp only [Cx.mul, Cx.neg] <;> grind

/-- the three phases of the sandwich `P a P` -/
theorem sandwich_phases (O g : PStr) (n : Nat) (hO : O.length = n) (hg : g.length = n) :
    (ipow O g + ipow O (xorS O g)) % 4 = 0 ∧
    ipow (xorS O g) O = (ipow O (xorS O g) + 2 * acq g O) % 4 := by
  have hc := ipow_cocycle O O g rfl (hO.trans hg.symm)
  rw [ipow_self, xorS_self, ipow_idStr_left] at hc
  have hs := ipow_swap (xorS O g) O
  rw [acq_xorS_left O g O (hO.trans hg.symm), acq_self] at hs
  have := acq_range g O
  refine ⟨by omega, by omega⟩

/-- `P a P`, coefficientwise, before the phases are simplified -/
theorem proj_coef_raw (a : Poly) (O : Pauli) (out : Int) (g : PStr) (n : Nat) (ha : ∀ t ∈ a, t.1.g.length = n)
    (hO : O.g.length = n) (hg : g.length = n) :
    coef (polyMatmul (polyMatmul (proj O out) a) (proj O out)) g
      = (half.mul ((half.mul (coef a g)).add
            (((sgn out).mul (Cx.ipow (O.p + ipow O.g (xorS O.g g)))).mul (coef a (xorS O.g g))))).add
          (((sgn out).mul (Cx.ipow (O.p + ipow (xorS O.g g) O.g))).mul
            ((half.mul (coef a (xorS O.g g))).add
              (((sgn out).mul (Cx.ipow (O.p + ipow O.g g))).mul (coef a g)))) := by
  have hl : (xorS g O.g).length = n := by rw [length_xorS_eq _ _ (hg.trans hO.symm)]; exact hg
  rw [right_coef _ O out g n (length_proj_left a O out n ha hO) hO hg,
    left_coef a O out g n ha hO hg, left_coef a O out (xorS g O.g) n ha hO hl,
    xorS_comm g O.g, xorS_cancel_left O.g g (hO.trans hg.symm)]

/-- `P a P`, coefficientwise: `½ (a + (−1)^out O·a)` on strings commuting with `O`, zero on the others -/
theorem proj_coef (a : Poly) (O : Pauli) (out : Int) (g : PStr) (n : Nat) (ha : ∀ t ∈ a, t.1.g.length = n)
    (hO : O.g.length = n) (hp : O.p % 2 = 0) (hg : g.length = n) (hout : out = 0 ∨ out = 1) :
    coef (polyMatmul (polyMatmul (proj O out) a) (proj O out)) g
      = if acq g O.g = 0 then
          half.mul ((coef a g).add ((Cx.ipow (2 * out + (O.p + ipow O.g (xorS O.g g)))).mul (coef a (xorS O.g g))))
        else Cx.zero := by
  obtain ⟨p1, p2⟩ := sandwich_phases O.g g n hO hg
  rw [proj_coef_raw a O out g n ha hO hg, sgn_ipow out hout, sgn_ipow out hout, sgn_ipow out hout]
  have hb := acq_range g O.g
  by_cases hc : acq g O.g = 0
  · rw [if_pos hc]
    rw [hc] at p2
    rw [Cx.ipow_congr (show (2 * out + (O.p + ipow (xorS O.g g) O.g)) % 4
        = (2 * out + (O.p + ipow O.g (xorS O.g g))) % 4 by omega)]
    apply sandwich_comm
    rw [← Cx.ipow_add]
    exact Cx.ipow_of_mod_zero (by omega)
  · rw [if_neg hc]
    have hc1 : acq g O.g = 1 := by omega
    rw [hc1] at p2
    apply sandwich_anti _ _ _ _ _ ?h2 ?h
    case h2 => rw [← ipow_add_two]; exact Cx.ipow_congr (by omega)
    case h =>
      rw [← Cx.ipow_add, Cx.ipow_congr (show (2 * out + (O.p + ipow (xorS O.g g) O.g) + (2 * out + (O.p + ipow O.g g))) % 4
        = 2 % 4 by omega), ipow_two]
      apply Cx.ext' <;> simp [Cx.one, Cx.neg]

/-! ## §3 the density polynomial, translated -/

theorem density_length (st : State) (n : Nat) (h : TabInv st n) : ∀ t ∈ densityPoly st, t.1.g.length = n := by
  intro t ht
  rw [densityPoly_eq] at ht
  obtain ⟨R, hR, rfl⟩ := List.mem_map.1 ht
  exact inGroup_length st n h ((complete_rows st n h).2.1 R hR)

/-- two stabilizers commute -/
theorem inGroup_comm (st : State) (n : Nat) (h : TabInv st n) {P Q : Pauli} (hP : InGroup st P) (hQ : InGroup st Q) :
    acq P.g Q.g = 0 := by
  obtain ⟨eg, ep⟩ := mul_comm_acq P Q
  have hu := inGroup_phase_unique st n h (inGroup_mul h hP hQ) (inGroup_mul h hQ hP) eg
  have := acq_range P.g Q.g
  have := mul_p_range Q P
  omega

/-- the observable with the sign of the outcome `out`: `(−1)^out O` -/
def sO (O : Pauli) (out : Int) : Pauli := ⟨O.g, O.p + 2 * out⟩

/-- `((−1)^out O · ρ)(g)` when `O.g ⊕ g` is the string of the stabilizer `Q` -/
theorem trans_in (st : State) (n : Nat) (O : Pauli) (out : Int) (Q : Pauli) (g : PStr) (h : TabInv st n)
    (hQ : InGroup st Q) (e : Q.g = xorS O.g g) :
    (Cx.ipow (2 * out + (O.p + ipow O.g (xorS O.g g)))).mul (coef (densityPoly st) (xorS O.g g))
      = (Cx.ipow (mul (sO O out) Q).p).mul ⟨1 / (2 : Rat) ^ n, 0⟩ := by
  rw [← e, density_coef_in st n Q h hQ, ← Cx.mul_assoc, ← Cx.ipow_add]
  congr 1
  apply Cx.ipow_congr
  simp only [mul_p, sO]
  omega

/-- neither `O` nor `−O` is a stabilizer: no stabilizer has the string of `O` -/
theorem no_string (st : State) (n : Nat) (O : Pauli) (h : TabInv st n) (hp : O.p % 2 = 0)
    (hno : ∀ b : Int, ¬ InGroup st ⟨O.g, O.p + 2 * b⟩) : ∀ Q : Pauli, InGroup st Q → Q.g ≠ O.g := by
  intro Q hQ e
  have hev := inGroup_even st n h hQ
  exact hno ((Q.p - O.p) / 2) (inGroup_congr hQ ⟨e, by simp only; omega⟩)

/-- translation by a stabilizer `±O` keeps the set of strings outside the group -/
theorem shift_out (st : State) (n : Nat) (R : Pauli) (g : PStr) (h : TabInv st n) (hR : InGroup st R) (hg : g.length = n)
    (hout : ∀ P : Pauli, InGroup st P → P.g ≠ g) : ∀ Q : Pauli, InGroup st Q → Q.g ≠ xorS R.g g := by
  intro Q hQ e
  apply hout (mul R Q) (inGroup_mul h hR hQ)
  rw [mul_g, e]
  exact xorS_cancel_left R.g g ((inGroup_length st n h hR).trans hg.symm)

theorem half_double (X : Cx) : half.mul (X.add X) = X := by
  apply Cx.ext' <;> simp only [Cx.mul, Cx.add, half] <;> grind

theorem half_cancel (w s : Cx) : half.mul ((w.mul s).add (w.neg.mul s)) = Cx.zero := by
  apply Cx.ext' <;> simp only [Cx.mul, Cx.add, Cx.neg, half, Cx.zero] <;> grind

theorem half_zero_zero (w : Cx) : half.mul (Cx.zero.add (w.mul Cx.zero)) = Cx.zero := by
  rw [Cx.mul_zero, Cx.add_zero, Cx.mul_zero]

/-! ## §4 strings of the group after a random-outcome measurement -/

/-- the string is, up to the observable, the string of a former stabilizer -/
def OldStr (st : State) (obs : PStr) (A : Pauli) : Prop :=
  ∃ P : Pauli, InGroup st P ∧ (A.g = P.g ∨ A.g = xorS obs P.g)

theorem oldStr_mul (st : State) (n : Nat) (obs : PStr) (h : TabInv st n) (ho : obs.length = n) (A R : Pauli)
    (hA : OldStr st obs A) (hR : InGroup st R ∨ R.g = obs) : OldStr st obs (mul A R) := by
  obtain ⟨P, hP, hAg⟩ := hA
  have hPl := inGroup_length st n h hP
  rcases hR with hR | hR
  · refine ⟨mul P R, inGroup_mul h hP hR, ?_⟩
    rcases hAg with e | e
    · left; simp only [mul_g, e]
    · right; simp only [mul_g, e, xorS_assoc]
  · refine ⟨P, hP, ?_⟩
    rcases hAg with e | e
    · right; rw [mul_g, e, hR, xorS_comm]
    · left; rw [mul_g, e, hR, xorS_comm obs P.g, xorS_cancel_right P.g obs (hPl.trans ho.symm)]

theorem combineAux_oldStr (st : State) (n : Nat) (obs : PStr) (h : TabInv st n) (ho : obs.length = n) :
    ∀ (rows : List Pauli) (c : List Bool) (acc : Pauli), OldStr st obs acc →
    (∀ k, k < rows.length → c.getD k false = true → InGroup st (rowAt rows k) ∨ (rowAt rows k).g = obs) →
    OldStr st obs (combineAux c rows acc) := by
  intro rows
  induction rows with
  | nil => intro c acc ha _; rw [Tr.combineAux_nil_right]; exact ha
  | cons R rs ih =>
    intro c acc ha hr
    cases c with
    | nil => rw [Tr.combineAux_nil_left]; exact ha
    | cons b cs =>
      rw [Tr.combineAux_cons]
      apply ih cs
      · cases b with
        | false => simpa using ha
        | true =>
          rw [if_pos rfl]
          have := hr 0 (by simp) (by simp)
          rw [rowAt_cons_zero] at this
          exact oldStr_mul st n obs h ho acc R ha this
      · intro k hk hck
        have := hr (k + 1) (by simp; omega) (by simpa using hck)
        rwa [rowAt_cons_succ] at this

/-- **every stabilizer of the post-measurement state has the string of a former stabilizer, possibly times the observable** -/
theorem pivotState_strings (st : State) (n : Nat) (obs : PStr) (p : Nat) (c : Int) (h : TabInv st n)
    (ho : obs.length = n) (hk : PivotOK st n obs p) (hc : c % 2 = 0) (Q : Pauli)
    (hQ : InGroup (pivotState st obs true p c) Q) : OldStr st obs Q := by
  have h' := pivotState_inv st n obs p c h ho hk hc
  have s1 := (pivotState_spec st n obs p c h hk.lt).1
  have hlen' := St.length_active _ n h'
  have hN' := St.tabInv_N _ n h'
  obtain ⟨c', hc', e'⟩ := hQ
  have key : OldStr st obs (combine (pivotState st obs true p c).N c' (pivotState st obs true p c).active) := by
    unfold combine
    apply combineAux_oldStr st n obs h ho
    · exact ⟨⟨idStr n, 0⟩, inGroup_one st n h, Or.inl (by rw [hN'])⟩
    · intro k hk1 _
      rw [hlen', s1] at hk1
      have hrow := St.rowAt_active _ n h' k (by rw [s1]; exact hk1)
      rw [hrow, s1]
      by_cases e : installRank n st.r p + k = installSlot n st.r p
      · right; rw [e, pivotState_slot st n obs p c h hk.lt]
      · left; exact pivotState_row_old st n obs p c h hk _ (by omega) (by omega) e
  obtain ⟨P, hP, hg⟩ := key
  exact ⟨P, hP, by rw [← e'.1]; exact hg⟩


/-! ## §5 the projection postulate -/

/-- the sandwich vanishes at strings of the wrong length, as does every density polynomial -/
theorem sandwich_wrong_length (st : State) (n : Nat) (O : Pauli) (out : Int) (g : PStr) (h : TabInv st n)
    (ho : O.g.length = n) (hg : g.length ≠ n) :
    coef (polyMatmul (polyMatmul (proj O out) (densityPoly st)) (proj O out)) g = Cx.zero :=
  coef_of_length_ne _ g n (length_proj_both _ O out n (density_length st n h) ho) hg

theorem density_wrong_length (st : State) (n : Nat) (g : PStr) (h : TabInv st n) (hg : g.length ≠ n) :
    coef (densityPoly st) g = Cx.zero :=
  coef_of_length_ne _ g n (density_length st n h) hg

/-- **determined outcome**: `P ρ P = ρ` -/
theorem det_projection (st : State) (n : Nat) (O : Pauli) (out : Int) (g : PStr) (h : TabInv st n)
    (ho : O.g.length = n) (hp : O.p % 2 = 0) (hout : out = 0 ∨ out = 1) (hin : InGroup st (sO O out)) :
    coef (polyMatmul (polyMatmul (proj O out) (densityPoly st)) (proj O out)) g = coef (densityPoly st) g := by
  by_cases hg : g.length = n
  · rw [proj_coef _ O out g n (density_length st n h) ho hp hg hout]
    by_cases hc : acq g O.g = 0
    · rw [if_pos hc]
      by_cases hex : ∃ P : Pauli, InGroup st P ∧ P.g = g
      · obtain ⟨P, hP, rfl⟩ := hex
        have hQ := inGroup_mul h hin hP
        rw [trans_in st n O out (mul (sO O out) P) P.g h hQ rfl, density_coef_in st n P h hP,
          Cx.ipow_congr (mul_mul_cancel (sO O out) P (inGroup_even st n h hin) (ho.trans hg.symm)).2]
        exact half_double _
      · have hne : ∀ P : Pauli, InGroup st P → P.g ≠ g := fun P hP e => hex ⟨P, hP, e⟩
        rw [density_coef_out st n g h hne,
          density_coef_out st n (xorS O.g g) h (shift_out st n (sO O out) g h hin hg hne)]
        exact half_zero_zero _
    · rw [if_neg hc]
      symm
      apply density_coef_out st n g h
      intro P hP e
      apply hc
      rw [← e]
      exact inGroup_comm st n h hP (Q := sO O out) hin
  · rw [sandwich_wrong_length st n O out g h ho hg, density_wrong_length st n g h hg]

/-- **determined outcome, other projector**: `P' ρ P' = 0` -/
theorem det_other (st : State) (n : Nat) (O : Pauli) (out : Int) (g : PStr) (h : TabInv st n)
    (ho : O.g.length = n) (hp : O.p % 2 = 0) (hout : out = 0 ∨ out = 1) (hin : InGroup st (sO O out)) :
    coef (polyMatmul (polyMatmul (proj O (1 - out)) (densityPoly st)) (proj O (1 - out))) g = Cx.zero := by
  have hout' : 1 - out = 0 ∨ 1 - out = 1 := by omega
  by_cases hg : g.length = n
  · rw [proj_coef _ O (1 - out) g n (density_length st n h) ho hp hg hout']
    by_cases hc : acq g O.g = 0
    · rw [if_pos hc]
      by_cases hex : ∃ P : Pauli, InGroup st P ∧ P.g = g
      · obtain ⟨P, hP, rfl⟩ := hex
        have hQ := inGroup_mul h hin hP
        have hcancel := (mul_mul_cancel (sO O out) P (inGroup_even st n h hin) (ho.trans hg.symm)).2
        have hph : (mul (sO O (1 - out)) (mul (sO O out) P)).p % 4 = (P.p + 2) % 4 := by
          simp only [mul_p, sO] at hcancel ⊢
          omega
        rw [trans_in st n O (1 - out) (mul (sO O out) P) P.g h hQ rfl, density_coef_in st n P h hP,
          Cx.ipow_congr hph, ipow_add_two]
        exact half_cancel _ _
      · have hne : ∀ P : Pauli, InGroup st P → P.g ≠ g := fun P hP e => hex ⟨P, hP, e⟩
        rw [density_coef_out st n g h hne,
          density_coef_out st n (xorS O.g g) h (shift_out st n (sO O out) g h hin hg hne)]
        exact half_zero_zero _
    · rw [if_neg hc]
  · exact sandwich_wrong_length st n O (1 - out) g h ho hg

/-- **random outcome**: `P ρ P = ½ ρ'` -/
theorem rnd_projection (st st' : State) (n : Nat) (O : Pauli) (out : Int) (g : PStr) (h : TabInv st n) (h' : TabInv st' n)
    (ho : O.g.length = n) (hp : O.p % 2 = 0) (hout : out = 0 ∨ out = 1)
    (hno : ∀ b : Int, ¬ InGroup st ⟨O.g, O.p + 2 * b⟩) (hin : InGroup st' (sO O out))
    (hkeep : ∀ P : Pauli, InGroup st P → acq P.g O.g = 0 → InGroup st' P)
    (hstr : ∀ Q : Pauli, InGroup st' Q → OldStr st O.g Q) :
    coef (polyMatmul (polyMatmul (proj O out) (densityPoly st)) (proj O out)) g
      = half.mul (coef (densityPoly st') g) := by
  have hnos := no_string st n O h hp hno
  by_cases hg : g.length = n
  · rw [proj_coef _ O out g n (density_length st n h) ho hp hg hout]
    by_cases hc : acq g O.g = 0
    · rw [if_pos hc]
      by_cases hex : ∃ P : Pauli, InGroup st P ∧ P.g = g
      · -- the string of a former stabilizer commuting with `O`
        obtain ⟨P, hP, rfl⟩ := hex
        have hshift : ∀ Q : Pauli, InGroup st Q → Q.g ≠ xorS O.g P.g := by
          intro Q hQ e
          apply hnos (mul P Q) (inGroup_mul h hP hQ)
          rw [mul_g, e, xorS_comm O.g P.g, xorS_cancel_left P.g O.g (hg.trans ho.symm)]
        rw [density_coef_in st n P h hP, density_coef_out st n _ h hshift,
          density_coef_in st' n P h' (hkeep P hP hc), Cx.mul_zero, Cx.add_zero]
      · have hne : ∀ P : Pauli, InGroup st P → P.g ≠ g := fun P hP e => hex ⟨P, hP, e⟩
        rw [density_coef_out st n g h hne, Cx.zero_add]
        by_cases hex2 : ∃ Q : Pauli, InGroup st Q ∧ Q.g = xorS O.g g
        · -- `O` times the string of a former stabilizer commuting with `O`
          obtain ⟨Q, hQ, e⟩ := hex2
          have hQc : acq Q.g O.g = 0 := by
            rw [e, acq_xorS_left O.g g O.g (ho.trans hg.symm), acq_self, hc]; rfl
          have hQ' := inGroup_mul h' hin (hkeep Q hQ hQc)
          have eg : (mul (sO O out) Q).g = g := by
            rw [mul_g, e]; exact xorS_cancel_left O.g g (ho.trans hg.symm)
          have hval := density_coef_in st' n _ h' hQ'
          rw [eg] at hval
          rw [trans_in st n O out Q g h hQ e, hval]
        · -- neither: not the string of a new stabilizer
          have hne2 : ∀ Q : Pauli, InGroup st Q → Q.g ≠ xorS O.g g := fun Q hQ e => hex2 ⟨Q, hQ, e⟩
          have hne' : ∀ P : Pauli, InGroup st' P → P.g ≠ g := by
            intro P' hP' e
            obtain ⟨P, hP, hPg⟩ := hstr P' hP'
            rcases hPg with e1 | e1
            · exact hne P hP (e1.symm.trans e)
            · apply hne2 P hP
              rw [← e, e1, xorS_cancel_left O.g P.g (ho.trans (inGroup_length st n h hP).symm)]
          rw [density_coef_out st n _ h hne2, density_coef_out st' n g h' hne', Cx.mul_zero, Cx.mul_zero]
    · rw [if_neg hc]
      have hne' : ∀ P : Pauli, InGroup st' P → P.g ≠ g := by
        intro P hP e
        apply hc
        rw [← e]
        exact inGroup_comm st' n h' hP (Q := sO O out) hin
      rw [density_coef_out st' n g h' hne', Cx.mul_zero]
  · rw [sandwich_wrong_length st n O out g h ho hg, density_wrong_length st' n g h' hg, Cx.mul_zero]


/-! ### the Born rule -/

theorem born_arith_det (n : Nat) :
    (⟨(2 : Rat) ^ n, 0⟩ : Cx).mul ((half.mul ⟨1 / (2 : Rat) ^ n, 0⟩).add
      (half.mul (Cx.one.mul ⟨1 / (2 : Rat) ^ n, 0⟩))) = ⟨1, 0⟩ := by
  have h := two_pow_ne n
  apply Cx.ext' <;> simp only [Cx.mul, Cx.add, half, Cx.one] <;> grind

theorem born_arith_rnd (n : Nat) (w : Cx) :
    (⟨(2 : Rat) ^ n, 0⟩ : Cx).mul ((half.mul ⟨1 / (2 : Rat) ^ n, 0⟩).add
      (half.mul (w.mul Cx.zero))) = ⟨1 / 2, 0⟩ := by
  have h := two_pow_ne n
  apply Cx.ext' <;> simp only [Cx.mul, Cx.add, half, Cx.zero] <;> grind

/-- `coef (P ρ) (identity)` with the sign folded into the phase -/
theorem left_coef_id (st : State) (n : Nat) (O : Pauli) (out : Int) (h : TabInv st n) (ho : O.g.length = n)
    (hout : out = 0 ∨ out = 1) :
    coef (polyMatmul (proj O out) (densityPoly st)) (idStr n)
      = (half.mul ⟨1 / (2 : Rat) ^ n, 0⟩).add
          (half.mul ((Cx.ipow (2 * out + (O.p + ipow O.g (xorS O.g (idStr n))))).mul
            (coef (densityPoly st) (xorS O.g (idStr n))))) := by
  rw [left_coef _ O out (idStr n) n (density_length st n h) ho (length_idStr n), density_coef_id st n h,
    sgn_ipow out hout, Cx.mul_assoc]

theorem born_det (st : State) (n : Nat) (O : Pauli) (out : Int) (h : TabInv st n) (ho : O.g.length = n)
    (hout : out = 0 ∨ out = 1) (hin : InGroup st (sO O out)) :
    (⟨(2 : Rat) ^ n, 0⟩ : Cx).mul (coef (polyMatmul (proj O out) (densityPoly st)) (idStr n)) = ⟨1, 0⟩ := by
  have e : (sO O out).g = xorS O.g (idStr n) := by
    show O.g = _
    rw [← ho, xorS_idStr_right]
  have hev := inGroup_even st n h hin
  rw [left_coef_id st n O out h ho hout, trans_in st n O out (sO O out) (idStr n) h hin e,
    Cx.ipow_of_mod_zero (p := (mul (sO O out) (sO O out)).p) (by rw [mul_self]; simp only; omega)]
  exact born_arith_det n

theorem born_rnd (st : State) (n : Nat) (O : Pauli) (out : Int) (h : TabInv st n) (ho : O.g.length = n)
    (hp : O.p % 2 = 0) (hout : out = 0 ∨ out = 1) (hno : ∀ b : Int, ¬ InGroup st ⟨O.g, O.p + 2 * b⟩) :
    (⟨(2 : Rat) ^ n, 0⟩ : Cx).mul (coef (polyMatmul (proj O out) (densityPoly st)) (idStr n)) = ⟨1 / 2, 0⟩ := by
  have e : xorS O.g (idStr n) = O.g := by rw [← ho, xorS_idStr_right]
  rw [left_coef_id st n O out h ho hout, e, density_coef_out st n O.g h (no_string st n O h hp hno)]
  exact born_arith_rnd n _

/-! ### `measure1` -/

/-- the strings of the group after a random outcome -/
theorem measure1_strings (st st' : State) (n : Nat) (O : Pauli) (coin : Bool) (out : Int) (h : TabInv st n)
    (ho : O.g.length = n) (hm : measure1 st O coin = .ok (st', out, true)) :
    ∀ Q : Pauli, InGroup st' Q → OldStr st O.g Q := by
  rcases measure1_cases_inv st n O coin h ho with ⟨p, hpiv, hpl, he⟩ | ⟨_, he⟩
  · rw [he] at hm
    injection hm with hm
    injection hm with h1 _
    subst h1
    intro Q hQ
    exact pivotState_strings st n O.g p _ h ho (pivotOK_of_isMeasPivot st n O.g p h hpiv)
      (by cases coin <;> rfl) Q hQ
  · rw [he] at hm
    injection hm with hm
    injection hm with _ h2
    injection h2 with _ h3
    exact absurd h3 (by simp)

/-- the other coin gives the other outcome -/
theorem measure1_other_coin (st st' : State) (n : Nat) (O : Pauli) (coin : Bool) (out : Int) (h : TabInv st n)
    (ho : O.g.length = n) (hp : O.p % 2 = 0) (hm : measure1 st O coin = .ok (st', out, true)) :
    ∃ st'', measure1 st O (!coin) = .ok (st'', 1 - out, true) ∧ (out = 0 ∨ out = 1) := by
  rcases measure1_cases_inv st n O coin h ho with ⟨p, hpiv, hpl, he⟩ | ⟨_, he⟩
  · rw [he] at hm
    injection hm with hm
    injection hm with _ h2
    injection h2 with h2 _
    rcases measure1_cases_inv st n O (!coin) h ho with ⟨p', _, _, he'⟩ | ⟨hc, _⟩
    · have hout : out = 0 ∨ out = 1 := by
        rw [← h2]
        cases coin
        · simp only [Bool.false_eq_true, if_false]; omega
        · simp only [if_true]; omega
      have hother : ((if (!coin) = true then (2 : Int) else 0) - O.p) % 4 / 2 = 1 - out := by
        rw [← h2]
        cases coin
        · simp only [Bool.not_false, if_true, Bool.false_eq_true, if_false]; omega
        · simp only [Bool.not_true, if_true, Bool.false_eq_true, if_false]; omega
      rw [hother] at he'
      exact ⟨_, he', hout⟩
    · have := hc p hpl
      rw [hpiv.1] at this
      exact absurd this (by simp)
  · rw [he] at hm
    injection hm with hm
    injection hm with _ h2
    injection h2 with _ h3
    exact absurd h3 (by simp)


/-! ### `expect` of a polynomial -/

/-- the contribution of one term to `expectPoly` -/
def expTerm (st : State) (t : Term) : Cx := (t.2.mul (Cx.ipow t.1.p)).mul (Cx.ofInt (expect1 st ⟨t.1.g, 0⟩))

theorem expectPoly_foldl (st : State) (a : Poly) (acc : Cx) :
    a.foldl (fun acc t => acc.add ((t.2.mul (Cx.ipow t.1.p)).mul (Cx.ofInt (expect1 st ⟨t.1.g, 0⟩)))) acc
      = acc.add (expectPoly st a) := by
  induction a generalizing acc with
  | nil => simp [expectPoly, Cx.add_zero]
  | cons t a ih =>
    simp only [expectPoly, List.foldl_cons]
    rw [ih, ih (acc := Cx.zero.add _), Cx.zero_add, Cx.add_assoc]

theorem expectPoly_cons (st : State) (t : Term) (a : Poly) :
    expectPoly st (t :: a) = (expTerm st t).add (expectPoly st a) := by
  show List.foldl _ _ _ = _
  rw [List.foldl_cons, expectPoly_foldl, Cx.zero_add]
  rfl

theorem coef_matmul_nil_right (a : Poly) (g : PStr) : coef (polyMatmul a []) g = Cx.zero := by
  induction a with
  | nil => rfl
  | cons x a ih => rw [polyMatmul_cons, List.map_nil, List.nil_append, ih]

/-- the phase and the coefficient of a single right factor come out of the product -/
theorem matmul_single_phase (a : Poly) (t : Term) (g : PStr) (n : Nat) (ha : ∀ x ∈ a, x.1.g.length = n)
    (ht : t.1.g.length = n) (hg : g.length = n) :
    coef (polyMatmul a [t]) g
      = (t.2.mul (Cx.ipow t.1.p)).mul (coef (polyMatmul a [(⟨t.1.g, 0⟩, Cx.one)]) g) := by
  rw [matmul_single_right, matmul_single_right, coef_map_right a t.1 t.2 g n ha ht hg,
    coef_map_right a ⟨t.1.g, 0⟩ Cx.one g n ha ht hg, ← Cx.mul_assoc]
  congr 1
  simp only
  rw [Cx.ipow_add, Cx.ipow_add, Cx.ipow_zero, Cx.one_mul, Cx.one_mul, Cx.mul_assoc]

theorem expect_single (st : State) (n : Nat) (t : Term) (h : TabInv st n) (ht : t.1.g.length = n) :
    (⟨(2 : Rat) ^ n, 0⟩ : Cx).mul (coef (polyMatmul (densityPoly st) [t]) (idStr n)) = expTerm st t := by
  rw [matmul_single_phase _ t (idStr n) n (density_length st n h) ht (length_idStr n), Cx.mul_left_comm,
    expect_is_trace st n ⟨t.1.g, 0⟩ h ht rfl]
  rfl

theorem expectPoly_is_trace (st : State) (n : Nat) (a : Poly) (h : TabInv st n) (ha : ∀ t ∈ a, t.1.g.length = n) :
    (⟨(2 : Rat) ^ n, 0⟩ : Cx).mul (coef (polyMatmul (densityPoly st) a) (idStr n)) = expectPoly st a := by
  induction a with
  | nil => rw [coef_matmul_nil_right, Cx.mul_zero]; rfl
  | cons t a ih =>
    rw [show t :: a = [t] ++ a from rfl, coef_polyMatmul_append_right, Cx.mul_add,
      expect_single st n t h (ha t List.mem_cons_self), ih (fun t ht => ha t (List.mem_cons_of_mem _ ht))]
    exact (expectPoly_cons st t a).symm


/-! ### the statements of `C06e.lean`, for `measure1` -/

theorem measure_projection (st st' : State) (n : Nat) (O : Pauli) (coin : Bool) (out : Int) (rnd : Bool)
    (h : TabInv st n) (ho : O.g.length = n) (hp : O.p % 2 = 0)
    (hm : measure1 st O coin = .ok (st', out, rnd)) (g : PStr) :
    coef (polyMatmul (polyMatmul (proj O out) (densityPoly st)) (proj O out)) g
      = (if rnd then half else Cx.one).mul (coef (densityPoly st') g) := by
  cases rnd with
  | false =>
    obtain ⟨e, hout, hin⟩ := C06_determined st st' n O coin out h ho hp hm
    subst e
    rw [det_projection st' n O out g h ho hp hout hin]
    simp only [Bool.false_eq_true, if_false, Cx.one_mul]
  | true =>
    obtain ⟨hno, _, hout, hin, hkeep, _⟩ := C06_random st st' n O coin out h ho hp hm
    rw [rnd_projection st st' n O out g h (measure1_inv st st' n O coin out true h ho hm) ho hp hout hno hin hkeep
      (measure1_strings st st' n O coin out h ho hm)]
    simp only [if_true]

theorem measure_probability (st st' : State) (n : Nat) (O : Pauli) (coin : Bool) (out : Int) (rnd : Bool)
    (h : TabInv st n) (ho : O.g.length = n) (hp : O.p % 2 = 0)
    (hm : measure1 st O coin = .ok (st', out, rnd)) :
    (⟨(2 : Rat) ^ n, 0⟩ : Cx).mul (coef (polyMatmul (proj O out) (densityPoly st)) (idStr n))
      = if rnd then ⟨1 / 2, 0⟩ else ⟨1, 0⟩ := by
  cases rnd with
  | false =>
    obtain ⟨_, hout, hin⟩ := C06_determined st st' n O coin out h ho hp hm
    rw [born_det st n O out h ho hout hin]
    simp only [Bool.false_eq_true, if_false]
  | true =>
    obtain ⟨hno, _, hout, _, _, _⟩ := C06_random st st' n O coin out h ho hp hm
    rw [born_rnd st n O out h ho hp hout hno]
    simp only [if_true]

theorem measure_other_impossible (st st' : State) (n : Nat) (O : Pauli) (coin : Bool) (out : Int)
    (h : TabInv st n) (ho : O.g.length = n) (hp : O.p % 2 = 0)
    (hm : measure1 st O coin = .ok (st', out, false)) (g : PStr) :
    coef (polyMatmul (polyMatmul (proj O (1 - out)) (densityPoly st)) (proj O (1 - out))) g = Cx.zero := by
  obtain ⟨_, hout, hin⟩ := C06_determined st st' n O coin out h ho hp hm
  exact det_other st n O out g h ho hp hout hin


end Pj
end PC
