import PyCliffordModel.Spec.Maps
/-! # Proofs/Z2Inv — Gauss–Jordan soundness for `z2inv` -/
namespace PC

end PC
