import PyCliffordModel.Spec.Maps
/-! # Proofs/Z2Inv — Gauss–Jordan soundness for `z2inv`

Layout:
* §1 `xsum` (GF(2) finite sums) and function-level matrices `Mat := Nat → Nat → Bool` with `mmul`;
* §2 list ↔ function bridge (`BMat.get` of `xorFrom`, `swapFrom`, `elimBelow`, `elimAbove`, `bmul`, `bident`);
* §3 row operations as left multiplication by involutive matrices, the payload invariant `Pay`;
* §4 echelon invariants through the forward / backward pass;
* §5 the final statements about `z2inv` (`z2inv_left`, `z2inv_right`, `z2inv_complete`);
* §6 general facts about `bmul` (associativity, identity laws).
-/
namespace PC
namespace Z2

/-! ## §1 sums over GF(2) -/

abbrev Mat := Nat → Nat → Bool

def xsum (f : Nat → Bool) : Nat → Bool
  | 0 => false
  | n + 1 => xsum f n != f n

theorem xsum_congr (f g : Nat → Bool) (n : Nat) (h : ∀ k, k < n → f k = g k) : xsum f n = xsum g n := by
  induction n with
  | zero => rfl
  | succ n ih => simp only [xsum]; rw [ih (fun k hk => h k (by omega)), h n (by omega)]

theorem xsum_false (f : Nat → Bool) (n : Nat) (h : ∀ k, k < n → f k = false) : xsum f n = false := by
  induction n with
  | zero => rfl
  | succ n ih => simp only [xsum]; rw [ih (fun k hk => h k (by omega)), h n (by omega)]; rfl

theorem xsum_add (f g : Nat → Bool) (n : Nat) :
    xsum (fun k => f k != g k) n = (xsum f n != xsum g n) := by
  induction n with
  | zero => rfl
  | succ n ih =>
    simp only [xsum, ih]
    cases xsum f n <;> cases xsum g n <;> cases f n <;> cases g n <;> rfl

theorem xsum_mul_right (f : Nat → Bool) (b : Bool) (n : Nat) :
    xsum (fun k => f k && b) n = (xsum f n && b) := by
  induction n with
  | zero => cases b <;> rfl
  | succ n ih =>
    simp only [xsum, ih]
    cases xsum f n <;> cases f n <;> cases b <;> rfl

theorem xsum_mul_left (f : Nat → Bool) (b : Bool) (n : Nat) :
    xsum (fun k => b && f k) n = (b && xsum f n) := by
  induction n with
  | zero => cases b <;> rfl
  | succ n ih =>
    simp only [xsum, ih]
    cases xsum f n <;> cases f n <;> cases b <;> rfl

/-- `Σ_{k<n} [k = j] ∧ f k = f j` for `j < n` -/
theorem xsum_unit (f : Nat → Bool) (j n : Nat) (hj : j < n) : xsum (fun k => (k == j) && f k) n = f j := by
  induction n with
  | zero => omega
  | succ n ih =>
    simp only [xsum]
    by_cases h : j = n
    · subst h
      rw [xsum_false _ j (fun k hk => by
        have : (k == j) = false := by simp; omega
        rw [this]; rfl)]
      simp
    · have hne : (n == j) = false := by simp; omega
      rw [ih (by omega), hne]; simp

theorem xsum_unit' (f : Nat → Bool) (j n : Nat) (hj : j < n) : xsum (fun k => (j == k) && f k) n = f j := by
  rw [← xsum_unit f j n hj]
  apply xsum_congr; intro k _
  have : (j == k) = (k == j) := by
    cases h : (k == j) <;> simp at h ⊢ <;> omega
  rw [this]

theorem xsum_unit_r (f : Nat → Bool) (j n : Nat) (hj : j < n) : xsum (fun k => f k && (k == j)) n = f j := by
  rw [← xsum_unit f j n hj]
  apply xsum_congr; intro k _
  cases f k <;> cases (k == j) <;> rfl

/-- a sum with a single possibly non-zero term -/
theorem xsum_single (f : Nat → Bool) (j n : Nat) (hj : j < n) (h : ∀ k, k < n → k ≠ j → f k = false) :
    xsum f n = f j := by
  rw [← xsum_unit f j n hj]
  apply xsum_congr; intro k hk
  by_cases e : k = j
  · subst e; simp
  · rw [h k hk e]
    cases (k == j) <;> rfl

theorem xsum_shift (f : Nat → Bool) (n : Nat) :
    xsum f (n + 1) = (f 0 != xsum (fun k => f (k + 1)) n) := by
  induction n with
  | zero => simp [xsum]
  | succ n ih =>
    rw [xsum, ih]
    simp only [xsum]
    cases f 0 <;> cases xsum (fun k => f (k + 1)) n <;> cases f (n + 1) <;> rfl

theorem xsum_swap (h : Nat → Nat → Bool) (n m : Nat) :
    xsum (fun k => xsum (fun j => h k j) m) n = xsum (fun j => xsum (fun k => h k j) n) m := by
  induction n with
  | zero =>
    simp only [xsum]
    exact (xsum_false _ m (fun _ _ => rfl)).symm
  | succ n ih =>
    simp only [xsum]
    rw [ih, ← xsum_add]

/-- matrix product with inner dimension `n` (rows and columns unrestricted) -/
def mmul (n : Nat) (X Y : Mat) : Mat := fun r c => xsum (fun k => X r k && Y k c) n

def ident : Mat := fun r c => r == c

theorem mmul_assoc (b m : Nat) (X Y Z : Mat) (r c : Nat) :
    mmul m (mmul b X Y) Z r c = mmul b X (mmul m Y Z) r c := by
  simp only [mmul]
  have e1 : ∀ k, (xsum (fun j => X r j && Y j k) b && Z k c) = xsum (fun j => X r j && Y j k && Z k c) b :=
    fun k => (xsum_mul_right _ _ _).symm
  have e2 : ∀ j, (X r j && xsum (fun k => Y j k && Z k c) m) = xsum (fun k => X r j && Y j k && Z k c) m := by
    intro j
    rw [← xsum_mul_left]
    apply xsum_congr; intro k _
    cases X r j <;> cases Y j k <;> cases Z k c <;> rfl
  rw [xsum_congr _ _ m (fun k _ => e1 k), xsum_congr _ _ b (fun j _ => e2 j)]
  exact xsum_swap (fun k j => X r j && Y j k && Z k c) m b

theorem mmul_congr_left (n : Nat) (X X' Y : Mat) (r c : Nat) (h : ∀ k, k < n → X r k = X' r k) :
    mmul n X Y r c = mmul n X' Y r c := by
  simp only [mmul]; apply xsum_congr; intro k hk; rw [h k hk]

theorem mmul_congr_right (n : Nat) (X Y Y' : Mat) (r c : Nat) (h : ∀ k, k < n → Y k c = Y' k c) :
    mmul n X Y r c = mmul n X Y' r c := by
  simp only [mmul]; apply xsum_congr; intro k hk; rw [h k hk]

theorem mmul_ident_left (n : Nat) (X : Mat) (r c : Nat) (hr : r < n) : mmul n ident X r c = X r c := by
  simp only [mmul, ident]; exact xsum_unit' (fun k => X k c) r n hr

theorem mmul_ident_right (n : Nat) (X : Mat) (r c : Nat) (hc : c < n) : mmul n X ident r c = X r c := by
  simp only [mmul, ident]; exact xsum_unit_r (fun k => X r k) c n hc

/-! ## §2 list ↔ function bridge -/

def Shape (a : BMat) (nr nc : Nat) : Prop := a.length = nr ∧ ∀ j, j < nr → (a.getD j []).length = nc

theorem getD_take_drop (x y : List Bool) (i c : Nat) (h : x.length = y.length) :
    (x.take i ++ y.drop i).getD c false = if c < i then x.getD c false else y.getD c false := by
  simp only [List.getD_eq_getElem?_getD, List.getElem?_append, List.length_take, List.getElem?_take,
    List.getElem?_drop]
  by_cases h1 : c < i
  · by_cases h2 : c < x.length
    · have : c < min i x.length := by omega
      simp [h1, this]
    · have : ¬ c < min i x.length := by omega
      simp [h1, this]
      rw [List.getElem?_eq_none (by omega), List.getElem?_eq_none (by omega)]
  · have : ¬ c < min i x.length := by omega
    simp only [h1, this, if_false]
    by_cases h2 : i ≤ x.length
    · have : i + (c - min i x.length) = c := by omega
      rw [this]
    · rw [List.getElem?_eq_none (by omega), List.getElem?_eq_none (by omega)]

theorem length_xorFrom (i : Nat) (x y : List Bool) (h : x.length = y.length) :
    (xorFrom i x y).length = x.length := by
  simp [xorFrom]; omega

theorem getD_zipWith_xor (x y : List Bool) (c : Nat) (h : x.length = y.length) :
    (List.zipWith (fun a b => a != b) x y).getD c false = (x.getD c false != y.getD c false) := by
  induction x generalizing y c with
  | nil => cases y with
    | nil => simp
    | cons _ _ => simp at h
  | cons a as ih => cases y with
    | nil => simp at h
    | cons b bs =>
      cases c with
      | zero => simp
      | succ c => simpa using ih bs c (by simpa using h)

theorem getD_xorFrom (i : Nat) (x y : List Bool) (c : Nat) (h : x.length = y.length) :
    (xorFrom i x y).getD c false = (x.getD c false != (decide (i ≤ c) && y.getD c false)) := by
  induction i generalizing x y c with
  | zero => simpa [xorFrom] using getD_zipWith_xor x y c h
  | succ i ih =>
    cases x with
    | nil => cases y with
      | nil => simp [xorFrom]
      | cons _ _ => simp at h
    | cons a as => cases y with
      | nil => simp at h
      | cons b bs =>
        cases c with
        | zero => simp [xorFrom]
        | succ c =>
          have := ih as bs c (by simpa using h)
          simpa [xorFrom] using this

theorem getD_mapIdx (a : BMat) (f : Nat → List Bool → List Bool) (j : Nat) (hj : j < a.length) :
    (a.mapIdx f).getD j [] = f j (a.getD j []) := by
  simp [List.getD_eq_getElem?_getD, List.getElem?_mapIdx, List.getElem?_eq_getElem hj]

theorem getD_mapIdx_ge (a : BMat) (f : Nat → List Bool → List Bool) (j : Nat) (hj : a.length ≤ j) :
    (a.mapIdx f).getD j [] = [] := by
  simp [List.getD_eq_getElem?_getD, List.getElem?_mapIdx, List.getElem?_eq_none hj]

theorem get_ge (a : BMat) (j c : Nat) (hj : a.length ≤ j) : a.get j c = false := by
  simp [BMat.get, List.getD_eq_getElem?_getD, List.getElem?_eq_none hj]

/-- common form of `elimBelow` / `elimAbove` -/
def elimP (p : Nat → Bool) (i : Nat) (ar : List Bool) (a : BMat) : BMat :=
  a.mapIdx fun j row => if p j && row.getD i false then xorFrom i row ar else row

theorem get_elimP (p : Nat → Bool) (i : Nat) (ar : List Bool) (a : BMat) (nr nc : Nat) (hs : Shape a nr nc)
    (har : ar.length = nc) (j c : Nat) :
    (elimP p i ar a).get j c = (a.get j c != (p j && a.get j i && decide (i ≤ c) && ar.getD c false)) := by
  by_cases hj : j < a.length
  · simp only [BMat.get, elimP, getD_mapIdx _ _ _ hj]
    have hl : (a.getD j []).length = ar.length := by rw [har]; exact hs.2 j (by rw [← hs.1]; exact hj)
    cases hp : (p j && (a.getD j []).getD i false)
    · simp
    · simp only [if_true, getD_xorFrom _ _ _ _ hl]
      simp
  · have hj' : a.length ≤ j := by omega
    rw [get_ge _ _ _ (by simpa [elimP] using hj'), get_ge _ _ _ hj', get_ge _ _ _ hj']
    simp

theorem shape_elimP (p : Nat → Bool) (i : Nat) (ar : List Bool) (a : BMat) (nr nc : Nat) (hs : Shape a nr nc)
    (har : ar.length = nc) : Shape (elimP p i ar a) nr nc := by
  refine ⟨by simpa [elimP] using hs.1, fun j hj => ?_⟩
  have hj' : j < a.length := by rw [hs.1]; exact hj
  simp only [elimP, getD_mapIdx _ _ _ hj']
  split
  · rw [length_xorFrom _ _ _ (by rw [har]; exact hs.2 j hj)]; exact hs.2 j hj
  · exact hs.2 j hj

theorem elimBelow_eq (i r : Nat) (a : BMat) : elimBelow i r a = elimP (fun j => decide (r < j)) i (a.getD r []) a := rfl
theorem elimAbove_eq (i : Nat) (a : BMat) : elimAbove i a = elimP (fun j => decide (j < i)) i (a.getD i []) a := rfl

theorem getD_set2 (a : BMat) (r k : Nat) (X Y : List Bool) (hr : r < a.length) (hk : k < a.length) (j : Nat) :
    ((a.set r X).set k Y).getD j [] = if j = k then Y else if j = r then X else a.getD j [] := by
  simp only [List.getD_eq_getElem?_getD, List.getElem?_set, List.length_set]
  by_cases h1 : j = k
  · subst h1; simp [hk]
  · have h1' : ¬ k = j := fun e => h1 e.symm
    by_cases h2 : j = r
    · subst h2; simp [h1, h1', hr]
    · have h2' : ¬ r = j := fun e => h2 e.symm
      simp [h1, h1', h2, h2']

theorem get_swapFrom (i r k : Nat) (a : BMat) (nr nc : Nat) (hs : Shape a nr nc) (hr : r < nr) (hk : k < nr)
    (j c : Nat) :
    (swapFrom i r k a).get j c =
      if i ≤ c then (if j = k then a.get r c else if j = r then a.get k c else a.get j c) else a.get j c := by
  have hlr := hs.2 r hr
  have hlk := hs.2 k hk
  rw [← hs.1] at hr hk
  simp only [BMat.get, swapFrom, getD_set2 _ _ _ _ _ hr hk]
  by_cases h1 : j = k
  · subst h1
    simp only [if_true, getD_take_drop _ _ _ _ (hlk.trans hlr.symm)]
    by_cases hc : i ≤ c
    · have : ¬ c < i := by omega
      simp [hc, this]
    · have : c < i := by omega
      simp [hc, this]
  · simp only [h1, if_false]
    by_cases h2 : j = r
    · subst h2
      simp only [if_true, getD_take_drop _ _ _ _ (hlr.trans hlk.symm)]
      by_cases hc : i ≤ c
      · have : ¬ c < i := by omega
        simp [hc, this]
      · have : c < i := by omega
        simp [hc, this]
    · simp [h2]

theorem shape_swapFrom (i r k : Nat) (a : BMat) (nr nc : Nat) (hs : Shape a nr nc) (hr : r < nr) (hk : k < nr) :
    Shape (swapFrom i r k a) nr nc := by
  have hlr := hs.2 r hr
  have hlk := hs.2 k hk
  refine ⟨by simpa [swapFrom] using hs.1, fun j hj => ?_⟩
  rw [← hs.1] at hr hk
  simp only [swapFrom, getD_set2 _ _ _ _ _ hr hk]
  split
  · simp only [List.length_append, List.length_take, List.length_drop]; omega
  · split
    · simp only [List.length_append, List.length_take, List.length_drop]; omega
    · exact hs.2 j hj

theorem dotB_eq_xsum (x y : List Bool) (m : Nat) (h : x.length ≤ m) :
    dotB x y = xsum (fun k => x.getD k false && y.getD k false) m := by
  induction x generalizing y m with
  | nil => rw [xsum_false _ _ (fun k _ => by simp)]; simp [dotB]
  | cons a as ih =>
    cases y with
    | nil => rw [xsum_false _ _ (fun k _ => by simp)]; simp [dotB]
    | cons b bs =>
      cases m with
      | zero => simp at h
      | succ m =>
        rw [xsum_shift]
        simp only [dotB, List.getD_cons_zero, List.getD_cons_succ]
        rw [ih bs m (by simpa using h)]

theorem getD_colB (A : BMat) (c k : Nat) : (colB A c).getD k false = A.get k c := by
  simp only [colB, BMat.get, List.getD_eq_getElem?_getD, List.getElem?_map]
  cases A[k]? <;> simp

theorem get_bmul (A B : BMat) (m q r c : Nat) (hc : c < m) (hq : (A.getD r []).length ≤ q) :
    (bmul A B m).get r c = mmul q A.get B.get r c := by
  by_cases hr : r < A.length
  · have : (bmul A B m).getD r [] = (List.range m).map fun j => dotB (A.getD r []) (colB B j) := by
      simp [bmul, List.getD_eq_getElem?_getD, List.getElem?_map, List.getElem?_eq_getElem hr]
    simp only [BMat.get, this]
    simp only [List.getD_eq_getElem?_getD (l := List.map _ _), List.getElem?_map, List.getElem?_range hc,
      Option.map_some, Option.getD_some]
    rw [dotB_eq_xsum _ _ q hq]
    simp only [mmul, getD_colB, BMat.get]
  · have hr' : A.length ≤ r := by omega
    rw [get_ge _ _ _ (by simpa [bmul] using hr')]
    simp only [mmul]
    rw [xsum_false _ _ (fun k _ => by rw [get_ge _ _ _ hr']; rfl)]

theorem shape_bmul (A B : BMat) (m : Nat) : Shape (bmul A B m) A.length m := by
  refine ⟨by simp [bmul], fun j hj => ?_⟩
  simp [bmul, List.getD_eq_getElem?_getD, List.getElem?_map, List.getElem?_eq_getElem hj]

theorem shape_bident (n : Nat) : Shape (bident n) n n := by
  refine ⟨by simp [bident], fun j hj => ?_⟩
  simp [bident, unitRow, List.getD_eq_getElem?_getD, List.getElem?_map, List.getElem?_range hj]

theorem get_bident (n r c : Nat) (hr : r < n) (hc : c < n) : (bident n).get r c = ident r c := by
  simp only [BMat.get, bident, unitRow, ident, List.getD_eq_getElem?_getD, List.getElem?_map,
    List.getElem?_range hr, List.getElem?_range hc, Option.map_some, Option.getD_some]
  exact BEq.comm

theorem shape_of_isSquare (A : BMat) (n : Nat) (h : IsSquare A n) : Shape A n n := by
  refine ⟨h.1, fun j hj => ?_⟩
  have hj' : j < A.length := by rw [h.1]; exact hj
  have : A.getD j [] = A[j] := by simp [List.getD_eq_getElem?_getD, List.getElem?_eq_getElem hj']
  rw [this]; exact h.2 _ (List.getElem_mem hj')

theorem isSquare_of_shape (A : BMat) (n : Nat) (h : Shape A n n) : IsSquare A n := by
  refine ⟨h.1, fun row hrow => ?_⟩
  obtain ⟨j, hj, e⟩ := List.mem_iff_getElem.mp hrow
  have := h.2 j (by rw [← h.1]; exact hj)
  have e2 : A.getD j [] = A[j] := by simp [List.getD_eq_getElem?_getD, List.getElem?_eq_getElem hj]
  rw [e2, e] at this; exact this

theorem BMat_ext (X Y : BMat) (n m : Nat) (hX : Shape X n m) (hY : Shape Y n m)
    (h : ∀ r, r < n → ∀ c, c < m → X.get r c = Y.get r c) : X = Y := by
  apply List.ext_getElem (by rw [hX.1, hY.1])
  intro r h1 h2
  have eX : X.getD r [] = X[r] := by simp [List.getD_eq_getElem?_getD, List.getElem?_eq_getElem h1]
  have eY : Y.getD r [] = Y[r] := by simp [List.getD_eq_getElem?_getD, List.getElem?_eq_getElem h2]
  have hr : r < n := by rw [← hX.1]; exact h1
  have lX := hX.2 r hr
  have lY := hY.2 r hr
  rw [eX] at lX; rw [eY] at lY
  apply List.ext_getElem (by rw [lX, lY])
  intro c h3 h4
  have := h r hr c (by rw [← lX]; exact h3)
  simp only [BMat.get, eX, eY, List.getD_eq_getElem?_getD, List.getElem?_eq_getElem h3,
    List.getElem?_eq_getElem h4, Option.getD_some] at this
  exact this


/-! ## §3 row operations as involutive matrices; the payload invariant -/

/-- row-addition matrix: row `r` receives row `m` whenever `p r` -/
def addE (p : Nat → Bool) (m : Nat) : Mat := fun r k => (r == k) != (p r && (k == m))

theorem mmul_addE (n : Nat) (p : Nat → Bool) (m : Nat) (X : Mat) (r c : Nat) (hr : r < n) (hm : m < n) :
    mmul n (addE p m) X r c = (X r c != (p r && X m c)) := by
  simp only [mmul, addE]
  have e : ∀ k, (((r == k) != (p r && (k == m))) && X k c) =
      (((r == k) && X k c) != ((k == m) && (p r && X k c))) := by
    intro k; cases (r == k) <;> cases p r <;> cases (k == m) <;> cases X k c <;> rfl
  rw [xsum_congr _ _ n (fun k _ => e k), xsum_add, xsum_unit' (fun k => X k c) r n hr,
    xsum_unit (fun k => p r && X k c) m n hm]

theorem addE_invol (n : Nat) (p : Nat → Bool) (m : Nat) (hm : m < n) (hp : p m = false) (r c : Nat)
    (hr : r < n) : mmul n (addE p m) (addE p m) r c = ident r c := by
  rw [mmul_addE n p m _ r c hr hm]
  simp only [addE, ident, hp]
  have : (m == c) = (c == m) := BEq.comm
  rw [this]
  cases (r == c) <;> cases p r <;> cases (c == m) <;> rfl

def swapσ (i k j : Nat) : Nat := if j = k then i else if j = i then k else j

def swapE (i k : Nat) : Mat := fun r c => (c == swapσ i k r)

theorem swapσ_lt (n i k j : Nat) (hi : i < n) (hk : k < n) (hj : j < n) : swapσ i k j < n := by
  unfold swapσ; split
  · exact hi
  · split
    · exact hk
    · exact hj

theorem swapσ_invol (i k j : Nat) : swapσ i k (swapσ i k j) = j := by
  unfold swapσ
  by_cases h1 : j = k
  · by_cases h2 : i = k <;> simp [h1, h2]
  · by_cases h2 : j = i
    · simp [h2]
    · simp [h1, h2]

theorem mmul_swapE (n i k : Nat) (X : Mat) (r c : Nat) (hi : i < n) (hk : k < n) (hr : r < n) :
    mmul n (swapE i k) X r c = X (swapσ i k r) c := by
  simp only [mmul, swapE]
  exact xsum_unit (fun k => X k c) _ n (swapσ_lt n i k r hi hk hr)

theorem swapE_invol (n i k : Nat) (hi : i < n) (hk : k < n) (r c : Nat) (hr : r < n) :
    mmul n (swapE i k) (swapE i k) r c = ident r c := by
  rw [mmul_swapE n i k _ r c hi hk hr]
  simp only [swapE, ident, swapσ_invol]
  exact BEq.comm

/-- payload invariant: the current augmented matrix is `T·a0` with `T` left-invertible -/
def Pay (n : Nat) (a0 a : Mat) : Prop :=
  ∃ T S : Mat, (∀ r, r < n → ∀ c, c < n → mmul n S T r c = ident r c) ∧
    ∀ r, r < n → ∀ c, a r c = mmul n T a0 r c

theorem pay_init (n : Nat) (a0 : Mat) : Pay n a0 a0 :=
  ⟨ident, ident, fun r hr c _ => mmul_ident_left n ident r c hr, fun r hr c => (mmul_ident_left n a0 r c hr).symm⟩

theorem pay_rowop (n : Nat) (a0 a a' E : Mat)
    (hE : ∀ r, r < n → ∀ c, c < n → mmul n E E r c = ident r c)
    (h : ∀ r, r < n → ∀ c, a' r c = mmul n E a r c) (hp : Pay n a0 a) : Pay n a0 a' := by
  obtain ⟨T, S, hST, hT⟩ := hp
  refine ⟨mmul n E T, mmul n S E, ?_, ?_⟩
  · intro r hr c hc
    rw [mmul_assoc, ← hST r hr c hc]
    apply mmul_congr_right
    intro k hk
    rw [← mmul_assoc, mmul_congr_left n _ ident T k c (fun j hj => hE k hk j hj), mmul_ident_left n T k c hk]
  · intro r hr c
    rw [h r hr c, mmul_assoc]
    apply mmul_congr_right
    intro k hk; exact hT k hk c


/-! ## §4 echelon invariants through the forward / backward pass -/

structure Ech (n m : Nat) (a : BMat) : Prop where
  shape : Shape a n (n + n)
  diag : ∀ c, c < m → a.get c c = true
  low : ∀ c, c < m → ∀ r, c < r → r < n → a.get r c = false

theorem findPivot_some (a : BMat) (i k d k' : Nat) (h : findPivot a i k d = some k') :
    k ≤ k' ∧ k' < k + d ∧ a.get k' i = true := by
  induction d generalizing k with
  | zero => simp [findPivot] at h
  | succ d ih =>
    simp only [findPivot] at h
    by_cases hk : a.get k i = true
    · simp only [hk, if_true, Option.some.injEq] at h; subst h; exact ⟨Nat.le_refl _, by omega, hk⟩
    · simp only [hk] at h
      have := ih (k + 1) h
      exact ⟨by omega, by omega, this.2.2⟩

theorem findPivot_none (a : BMat) (i k d : Nat) (h : findPivot a i k d = none) :
    ∀ r, k ≤ r → r < k + d → a.get r i = false := by
  induction d generalizing k with
  | zero => intro r h1 h2; omega
  | succ d ih =>
    simp only [findPivot] at h
    by_cases hk : a.get k i = true
    · simp [hk] at h
    · simp only [hk] at h
      intro r h1 h2
      by_cases e : r = k
      · subst e; simpa using hk
      · exact ih (k + 1) h r (by omega) (by omega)

theorem elimBelow_step (n m : Nat) (a : BMat) (a0 : Mat) (hm : m < n) (h : Ech n m a) (hd : a.get m m = true)
    (hp : Pay n a0 a.get) : Ech n (m + 1) (elimBelow m m a) ∧ Pay n a0 (elimBelow m m a).get := by
  have hrow : (a.getD m []).length = n + n := h.shape.2 m hm
  have pm : ∀ c, c < m → a.get m c = false := fun c hc => h.low c hc m hc hm
  have full : ∀ j c, (elimBelow m m a).get j c = (a.get j c != ((decide (m < j) && a.get j m) && a.get m c)) := by
    intro j c
    rw [elimBelow_eq, get_elimP _ _ _ _ n (n + n) h.shape hrow]
    show (a.get j c != (decide (m < j) && a.get j m && decide (m ≤ c) && a.get m c)) = _
    by_cases hc : m ≤ c
    · simp [hc]
    · rw [pm c (by omega)]; simp
  refine ⟨⟨?_, ?_, ?_⟩, ?_⟩
  · rw [elimBelow_eq]; exact shape_elimP _ _ _ _ n (n + n) h.shape hrow
  · intro c hc
    rw [full]
    have : decide (m < c) = false := by simp; omega
    rw [this]
    by_cases e : c = m
    · subst e; simpa using hd
    · simpa using h.diag c (by omega)
  · intro c hc r hcr hr
    rw [full]
    by_cases e : c = m
    · subst e
      have : decide (c < r) = true := by simpa using hcr
      rw [this, hd]; cases a.get r c <;> rfl
    · rw [h.low c (by omega) r hcr hr, pm c (by omega)]; simp
  · refine pay_rowop n a0 a.get _ (addE (fun j => decide (m < j) && a.get j m) m)
      (fun r hr c _ => addE_invol n _ m hm (by simp) r c hr) (fun r hr c => ?_) hp
    rw [full, mmul_addE n _ m _ r c hr hm]

theorem swap_step (n m k : Nat) (a : BMat) (a0 : Mat) (hmk : m < k) (hk : k < n) (h : Ech n m a)
    (hp : Pay n a0 a.get) :
    Ech n m (swapFrom m m k a) ∧ Pay n a0 (swapFrom m m k a).get ∧ (swapFrom m m k a).get m m = a.get k m := by
  have hm : m < n := by omega
  have pm : ∀ c, c < m → a.get m c = false := fun c hc => h.low c hc m hc hm
  have pk : ∀ c, c < m → a.get k c = false := fun c hc => h.low c hc k (by omega) hk
  have full : ∀ j c, (swapFrom m m k a).get j c = a.get (swapσ m k j) c := by
    intro j c
    rw [get_swapFrom m m k a n (n + n) h.shape hm hk]
    unfold swapσ
    by_cases hc : m ≤ c
    · simp only [hc, if_true]
      split
      · rfl
      · split <;> rfl
    · simp only [hc, if_false]
      split
      · next e => rw [e, pm c (by omega), pk c (by omega)]
      · split
        · next e => rw [e, pm c (by omega), pk c (by omega)]
        · rfl
  refine ⟨⟨?_, ?_, ?_⟩, ?_, ?_⟩
  · exact shape_swapFrom m m k a n (n + n) h.shape hm hk
  · intro c hc
    rw [full]
    have : swapσ m k c = c := by unfold swapσ; rw [if_neg (by omega), if_neg (by omega)]
    rw [this]; exact h.diag c hc
  · intro c hc r hcr hr
    rw [full]
    unfold swapσ; split
    · exact h.low c hc m hc hm
    · split
      · exact h.low c hc k (by omega) hk
      · exact h.low c hc r hcr hr
  · refine pay_rowop n a0 a.get _ (swapE m k) (fun r hr c _ => swapE_invol n m k hm hk r c hr) (fun r hr c => ?_) hp
    rw [full, mmul_swapE n m k _ r c hm hk hr]
  · rw [full]
    have : swapσ m k m = k := by unfold swapσ; rw [if_neg (by omega), if_pos rfl]
    rw [this]


theorem fwd_inv (n : Nat) (a0 : Mat) (fuel : Nat) : ∀ (i : Nat) (a : BMat), i + fuel = n → Ech n i a →
    Pay n a0 a.get →
    (∀ a', z2invFwd n fuel i a = some a' → Ech n n a' ∧ Pay n a0 a'.get) ∧
    (z2invFwd n fuel i a = none → ∃ i' a', i' < n ∧ Ech n i' a' ∧ Pay n a0 a'.get ∧
      ∀ r, i' ≤ r → r < n → a'.get r i' = false) := by
  induction fuel with
  | zero =>
    intro i a hi h hp
    have : i = n := by omega
    subst this
    refine ⟨fun a' e => ?_, fun e => ?_⟩
    · simp only [z2invFwd, Option.some.injEq] at e; subst e; exact ⟨h, hp⟩
    · simp [z2invFwd] at e
  | succ fuel ih =>
    intro i a hi h hp
    have hin : i < n := by omega
    by_cases hd : a.get i i = true
    · have st := elimBelow_step n i a a0 hin h hd hp
      have := ih (i + 1) (elimBelow i i a) (by omega) st.1 st.2
      simp only [z2invFwd, hd, if_true]
      exact this
    · cases hf : findPivot a i (i + 1) (n - (i + 1)) with
      | none =>
        have e0 : z2invFwd n (fuel + 1) i a = none := by simp only [z2invFwd, hd, hf]; rfl
        rw [e0]
        refine ⟨fun a' e => by simp at e, fun _ => ⟨i, a, hin, h, hp, fun r h1 h2 => ?_⟩⟩
        by_cases e : r = i
        · subst e; simpa using hd
        · exact findPivot_none a i (i + 1) _ hf r (by omega) (by omega)
      | some k =>
        have e0 : z2invFwd n (fuel + 1) i a = z2invFwd n fuel (i + 1) (elimBelow i i (swapFrom i i k a)) := by
          simp only [z2invFwd, hd, hf]; rfl
        rw [e0]
        have hk := findPivot_some a i (i + 1) _ k hf
        have s1 := swap_step n i k a a0 (by omega) (by omega) h hp
        have st := elimBelow_step n i _ a0 hin s1.1 (by rw [s1.2.2]; exact hk.2.2) s1.2.1
        exact ih (i + 1) _ (by omega) st.1 st.2

structure BEch (n j : Nat) (a : BMat) : Prop where
  shape : Shape a n (n + n)
  diag : ∀ c, c < n → a.get c c = true
  low : ∀ c, c < n → ∀ r, c < r → r < n → a.get r c = false
  up : ∀ c, j < c → c < n → ∀ r, r < c → a.get r c = false

theorem elimAbove_step (n j : Nat) (a : BMat) (a0 : Mat) (hj : j + 1 < n) (h : BEch n (j + 1) a)
    (hp : Pay n a0 a.get) : BEch n j (elimAbove (j + 1) a) ∧ Pay n a0 (elimAbove (j + 1) a).get := by
  generalize hi : j + 1 = i at *
  have hrow : (a.getD i []).length = n + n := h.shape.2 i hj
  have pi : ∀ c, c < i → a.get i c = false := fun c hc => h.low c (by omega) i hc hj
  have full : ∀ r c, (elimAbove i a).get r c = (a.get r c != ((decide (r < i) && a.get r i) && a.get i c)) := by
    intro r c
    rw [elimAbove_eq, get_elimP _ _ _ _ n (n + n) h.shape hrow]
    show (a.get r c != (decide (r < i) && a.get r i && decide (i ≤ c) && a.get i c)) = _
    by_cases hc : i ≤ c
    · simp [hc]
    · rw [pi c (by omega)]; simp
  refine ⟨⟨?_, ?_, ?_, ?_⟩, ?_⟩
  · rw [elimAbove_eq]; exact shape_elimP _ _ _ _ n (n + n) h.shape hrow
  · intro c hc
    rw [full, h.diag c hc]
    by_cases e : c < i
    · rw [pi c e]; simp
    · have : decide (c < i) = false := by simpa using e
      rw [this]; rfl
  · intro c hc r hcr hr
    rw [full, h.low c hc r hcr hr]
    by_cases e : r < i
    · rw [pi c (by omega)]; simp
    · have : decide (r < i) = false := by simpa using e
      rw [this]; rfl
  · intro c hjc hc r hrc
    rw [full]
    by_cases e : c = i
    · subst e
      have : decide (r < c) = true := by simpa using hrc
      rw [this, h.diag c hc]; cases a.get r c <;> rfl
    · rw [h.up c (by omega) hc r hrc, h.up c (by omega) hc i (by omega)]; simp
  · refine pay_rowop n a0 a.get _ (addE (fun r => decide (r < i) && a.get r i) i)
      (fun r hr c _ => addE_invol n _ i hj (by simp) r c hr) (fun r hr c => ?_) hp
    rw [full, mmul_addE n _ i _ r c hr hj]

theorem bwd_inv (n : Nat) (a0 : Mat) (j : Nat) : ∀ (a : BMat), j ≤ n - 1 → BEch n j a → Pay n a0 a.get →
    BEch n 0 (z2invBwd j a) ∧ Pay n a0 (z2invBwd j a).get := by
  induction j with
  | zero => intro a _ h hp; exact ⟨h, hp⟩
  | succ j ih =>
    intro a hj h hp
    have st := elimAbove_step n j a a0 (by omega) h hp
    simp only [z2invBwd]
    exact ih _ (by omega) st.1 st.2


/-! ## §5 `z2inv` -/

/-- the augmented matrix `[A | 1]` built by `z2inv` -/
def aug (A : BMat) : BMat := A.mapIdx fun i row => row ++ unitRow A.length i

theorem shape_aug (A : BMat) (n : Nat) (hA : Shape A n n) : Shape (aug A) n (n + n) := by
  refine ⟨by simpa [aug] using hA.1, fun j hj => ?_⟩
  have hj' : j < A.length := by rw [hA.1]; exact hj
  simp only [aug, getD_mapIdx _ _ _ hj', List.length_append, hA.2 j hj, unitRow, List.length_map,
    List.length_range, hA.1]

theorem get_aug_left (A : BMat) (n : Nat) (hA : Shape A n n) (r c : Nat) (hr : r < n) (hc : c < n) :
    (aug A).get r c = A.get r c := by
  have hr' : r < A.length := by rw [hA.1]; exact hr
  have hl := hA.2 r hr
  simp only [BMat.get, aug, getD_mapIdx _ _ _ hr', List.getD_eq_getElem?_getD (l := _ ++ _)]
  rw [List.getElem?_append_left (by omega)]
  simp [List.getD_eq_getElem?_getD]

theorem get_aug_right (A : BMat) (n : Nat) (hA : Shape A n n) (r c : Nat) (hr : r < n) (hc : c < n) :
    (aug A).get r (n + c) = ident r c := by
  have hr' : r < A.length := by rw [hA.1]; exact hr
  have hl := hA.2 r hr
  simp only [BMat.get, aug, getD_mapIdx _ _ _ hr', List.getD_eq_getElem?_getD (l := _ ++ _)]
  rw [List.getElem?_append_right (by omega)]
  have : n + c - (A.getD r []).length = c := by omega
  rw [this, hA.1]
  simp only [unitRow, List.getElem?_map, List.getElem?_range hc, Option.map_some, Option.getD_some, ident]
  exact BEq.comm

theorem no_linv_of_zero_col (n i : Nat) (C L : Mat) (hi : i < n)
    (hCL : ∀ r, r < n → ∀ c, c < n → mmul n C L r c = ident r c)
    (diag : ∀ c, c < i → L c c = true) (low : ∀ c, c < i → ∀ r, c < r → r < n → L r c = false)
    (zero : ∀ r, i ≤ r → r < n → L r i = false) : False := by
  have hw : ∀ m, m ≤ i → ∀ c, c < m → C i c = false := by
    intro m
    induction m with
    | zero => intro _ c hc; omega
    | succ m ih =>
      intro hm c hc
      by_cases e : c = m
      · subst e
        have h1 := hCL i hi c (by omega)
        simp only [mmul] at h1
        rw [xsum_single _ c n (by omega) (fun k hk hne => by
          by_cases hkc : k < c
          · rw [ih (by omega) k hkc]; rfl
          · rw [low c (by omega) k (by omega) hk]; simp)] at h1
        rw [diag c (by omega)] at h1
        have : ident i c = false := by simp [ident]; omega
        rw [this] at h1
        simpa using h1
      · exact ih (by omega) c (by omega)
  have h1 := hCL i hi i hi
  simp only [mmul] at h1
  rw [xsum_false _ n (fun k hk => by
    by_cases hki : k < i
    · rw [hw i (Nat.le_refl _) k hki]; rfl
    · rw [zero k (by omega) hk]; simp)] at h1
  simp [ident] at h1


theorem z2inv_eq (A : BMat) : z2inv A =
    match z2invFwd A.length A.length 0 (aug A) with
    | none => none
    | some a => some ((z2invBwd (A.length - 1) a).map fun row => row.drop A.length) := rfl

theorem get_map_drop (a : BMat) (n r c : Nat) :
    BMat.get (a.map fun row => row.drop n) r c = a.get r (n + c) := by
  simp only [BMat.get, List.getD_eq_getElem?_getD, List.getElem?_map]
  cases a[r]? <;> simp

theorem ech_aug (A : BMat) (n : Nat) (hA : Shape A n n) : Ech n 0 (aug A) :=
  ⟨shape_aug A n hA, fun c hc => by omega, fun c hc => by omega⟩

/-- what a successful run of `z2inv` yields, at function level -/
theorem z2inv_some (A B : BMat) (n : Nat) (hA : Shape A n n) (h : z2inv A = some B) :
    Shape B n n ∧ ∃ T S : Mat, (∀ r, r < n → ∀ c, c < n → mmul n S T r c = ident r c) ∧
      (∀ r, r < n → ∀ c, c < n → B.get r c = T r c) ∧
      (∀ r, r < n → ∀ c, c < n → mmul n T A.get r c = ident r c) := by
  rw [z2inv_eq, hA.1] at h
  have f := fwd_inv n (aug A).get n 0 (aug A) (by omega) (ech_aug A n hA) (pay_init n _)
  cases hf : z2invFwd n n 0 (aug A) with
  | none => rw [hf] at h; simp at h
  | some a1 =>
    rw [hf] at h
    simp only [Option.some.injEq] at h
    obtain ⟨e1, p1⟩ := f.1 a1 hf
    have b0 : BEch n (n - 1) a1 := ⟨e1.shape, e1.diag, e1.low, fun c h1 h2 => by omega⟩
    obtain ⟨b, ⟨T, S, hST, hT⟩⟩ := bwd_inv n (aug A).get (n - 1) a1 (Nat.le_refl _) b0 p1
    have hB : ∀ r c, B.get r c = (z2invBwd (n - 1) a1).get r (n + c) := by
      intro r c; rw [← h, get_map_drop]
    refine ⟨⟨?_, ?_⟩, T, S, hST, ?_, ?_⟩
    · rw [← h, List.length_map]; exact b.shape.1
    · intro j hj
      have hj' : j < (z2invBwd (n - 1) a1).length := by rw [b.shape.1]; exact hj
      rw [← h]
      simp only [List.getD_eq_getElem?_getD, List.getElem?_map, List.getElem?_eq_getElem hj', Option.map_some,
        Option.getD_some, List.length_drop]
      have := b.shape.2 j hj
      simp only [List.getD_eq_getElem?_getD, List.getElem?_eq_getElem hj', Option.getD_some] at this
      omega
    · intro r hr c hc
      rw [hB, hT r hr]
      have : mmul n T (aug A).get r (n + c) = mmul n T ident r c := by
        simp only [mmul]; apply xsum_congr; intro k hk; rw [get_aug_right A n hA k c hk hc]
      rw [this, mmul_ident_right n T r c hc]
    · intro r hr c hc
      rw [mmul_congr_right n T _ (aug A).get r c (fun k hk => (get_aug_left A n hA k c hk hc).symm), ← hT r hr]
      simp only [ident]
      by_cases e : r = c
      · subst e; rw [b.diag r hr]; simp
      · have : (r == c) = false := by simpa using e
        rw [this]
        by_cases e2 : r < c
        · exact b.up c (by omega) hc r e2
        · exact b.low c hc r (by omega) hr

/-- entrywise form of `bmul X Y n = bident n` for square matrices -/
theorem bmul_eq_bident_iff (X Y : BMat) (n : Nat) (hX : Shape X n n) :
    bmul X Y n = bident n ↔ ∀ r, r < n → ∀ c, c < n → mmul n X.get Y.get r c = ident r c := by
  constructor
  · intro h r hr c hc
    rw [← get_bmul X Y n n r c hc (by rw [hX.2 r hr]; exact Nat.le_refl _), h, get_bident n r c hr hc]
  · intro h
    have s := shape_bmul X Y n
    rw [hX.1] at s
    apply BMat_ext _ _ n n s (shape_bident n)
    intro r hr c hc
    rw [get_bmul X Y n n r c hc (by rw [hX.2 r hr]; exact Nat.le_refl _), h r hr c hc, get_bident n r c hr hc]

theorem z2inv_left (A B : BMat) (n : Nat) (hA : IsSquare A n) (h : z2inv A = some B) :
    IsSquare B n ∧ bmul B A n = bident n := by
  obtain ⟨sB, T, S, _, hBT, hTA⟩ := z2inv_some A B n (shape_of_isSquare A n hA) h
  refine ⟨isSquare_of_shape B n sB, (bmul_eq_bident_iff B A n sB).mpr fun r hr c hc => ?_⟩
  rw [mmul_congr_left n B.get T A.get r c (fun k hk => hBT r hr k hk)]
  exact hTA r hr c hc

theorem z2inv_right (A B : BMat) (n : Nat) (hA : IsSquare A n) (h : z2inv A = some B) :
    bmul A B n = bident n := by
  have sA := shape_of_isSquare A n hA
  obtain ⟨sB, T, S, hST, hBT, hTA⟩ := z2inv_some A B n sA h
  refine (bmul_eq_bident_iff A B n sA).mpr fun r hr c hc => ?_
  have hAS : ∀ k, k < n → A.get r k = S r k := by
    intro k hk
    rw [← mmul_ident_left n A.get r k hr, ← mmul_congr_left n _ ident A.get r k (fun j hj => hST r hr j hj),
      mmul_assoc, mmul_congr_right n S _ ident r k (fun j hj => hTA j hj k hk), mmul_ident_right n S r k hk]
  rw [mmul_congr_left n A.get S B.get r c hAS, mmul_congr_right n S B.get T r c (fun k hk => hBT k hk c hc)]
  exact hST r hr c hc

theorem z2inv_complete (A : BMat) (n : Nat) (hA : IsSquare A n) (h : z2inv A = none) :
    ¬ ∃ B, IsSquare B n ∧ bmul B A n = bident n := by
  have sA := shape_of_isSquare A n hA
  rintro ⟨B, hB, hBA⟩
  have sB := shape_of_isSquare B n hB
  have hBA' := (bmul_eq_bident_iff B A n sB).mp hBA
  rw [z2inv_eq, sA.1] at h
  have f := fwd_inv n (aug A).get n 0 (aug A) (by omega) (ech_aug A n sA) (pay_init n _)
  cases hf : z2invFwd n n 0 (aug A) with
  | some a1 => rw [hf] at h; simp at h
  | none =>
    obtain ⟨i, a, hi, e, ⟨T, S, hST, hT⟩, hz⟩ := f.2 hf
    have hL : ∀ j, j < n → ∀ c, c < n → a.get j c = mmul n T A.get j c := by
      intro j hj c hc
      rw [hT j hj, mmul_congr_right n T _ A.get j c (fun k hk => get_aug_left A n sA k c hk hc)]
    refine no_linv_of_zero_col n i (mmul n B.get S) a.get hi (fun r hr c hc => ?_) e.diag e.low hz
    rw [mmul_assoc, ← hBA' r hr c hc]
    apply mmul_congr_right
    intro k hk
    rw [mmul_congr_right n S a.get (mmul n T A.get) k c (fun j hj => hL j hj c hc), ← mmul_assoc,
      mmul_congr_left n _ ident A.get k c (fun j hj => hST k hk j hj), mmul_ident_left n A.get k c hk]


/-! ## §6 general facts about `bmul` -/

theorem length_bident (n : Nat) : (bident n).length = n := by simp [bident]

/-- `1·A = A` for an `n × m` matrix -/
theorem bident_bmul (A : BMat) (n m : Nat) (hA : Shape A n m) : bmul (bident n) A m = A := by
  have s := shape_bmul (bident n) A m
  rw [length_bident] at s
  apply BMat_ext _ _ n m s hA
  intro r hr c hc
  rw [get_bmul (bident n) A m n r c hc (by rw [(shape_bident n).2 r hr]; exact Nat.le_refl _),
    mmul_congr_left n _ ident A.get r c (fun k hk => get_bident n r k hr hk), mmul_ident_left n A.get r c hr]

/-- `A·1 = A` for an `n × m` matrix -/
theorem bmul_bident (A : BMat) (n m : Nat) (hA : Shape A n m) : bmul A (bident m) m = A := by
  have s := shape_bmul A (bident m) m
  rw [hA.1] at s
  apply BMat_ext _ _ n m s hA
  intro r hr c hc
  rw [get_bmul A (bident m) m m r c hc (by rw [hA.2 r hr]; exact Nat.le_refl _),
    mmul_congr_right m A.get _ ident r c (fun k hk => get_bident m k c hk hc), mmul_ident_right m A.get r c hc]

/-- `(A·B)·C = A·(B·C)` for `A : a × b`, `B : b × m`, any `C`, result with `p` columns -/
theorem bmul_assoc (A B C : BMat) (a b m p : Nat) (hA : Shape A a b) (hB : Shape B b m) :
    bmul (bmul A B m) C p = bmul A (bmul B C p) p := by
  have s1 := shape_bmul (bmul A B m) C p
  have s2 := shape_bmul A (bmul B C p) p
  have sAB := shape_bmul A B m
  rw [hA.1] at sAB s2
  rw [sAB.1] at s1
  apply BMat_ext _ _ a p s1 s2
  intro r hr c hc
  rw [get_bmul (bmul A B m) C p m r c hc (by rw [sAB.2 r hr]; exact Nat.le_refl _),
    get_bmul A (bmul B C p) p b r c hc (by rw [hA.2 r hr]; exact Nat.le_refl _),
    mmul_congr_left m _ (mmul b A.get B.get) C.get r c (fun k hk =>
      get_bmul A B m b r k hk (by rw [hA.2 r hr]; exact Nat.le_refl _)),
    mmul_congr_right b A.get _ (mmul m B.get C.get) r c (fun k hk =>
      get_bmul B C p m k c hc (by rw [hB.2 k hk]; exact Nat.le_refl _)),
    mmul_assoc]

theorem isSquare_bmul (A B : BMat) (n : Nat) (hA : IsSquare A n) : IsSquare (bmul A B n) n := by
  apply isSquare_of_shape
  have := shape_bmul A B n
  rw [hA.1] at this; exact this

theorem isSquare_bident (n : Nat) : IsSquare (bident n) n := isSquare_of_shape _ n (shape_bident n)

end Z2

/-! square-matrix corollaries in terms of `IsSquare` -/

theorem bident_bmul_sq (A : BMat) (n : Nat) (hA : IsSquare A n) : bmul (bident n) A n = A :=
  Z2.bident_bmul A n n (Z2.shape_of_isSquare A n hA)

theorem bmul_bident_sq (A : BMat) (n : Nat) (hA : IsSquare A n) : bmul A (bident n) n = A :=
  Z2.bmul_bident A n n (Z2.shape_of_isSquare A n hA)

theorem bmul_assoc_sq (A B C : BMat) (n : Nat) (hA : IsSquare A n) (hB : IsSquare B n) :
    bmul (bmul A B n) C n = bmul A (bmul B C n) n :=
  Z2.bmul_assoc A B C n n n n (Z2.shape_of_isSquare A n hA) (Z2.shape_of_isSquare B n hB)

end PC
