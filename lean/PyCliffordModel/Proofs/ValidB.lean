import PyCliffordModel.Spec.Maps
/-! # Proofs/ValidB — a decidable checker for `ValidMap`, sound for the `Prop` -/
namespace PC

def validMapB (M : List Pauli) (n : Nat) : Bool :=
  M.length == 2 * n && M.all (fun R => R.g.length == n && R.p % 2 == 0) &&
  (List.range (2 * n)).all fun i => (List.range (2 * n)).all fun j =>
    acq (rowAt M i).g (rowAt M j).g == (if i / 2 = j / 2 ∧ i ≠ j then 1 else 0)

theorem validMapB_sound (M : List Pauli) (n : Nat) (h : validMapB M n = true) : ValidMap M n := by
  unfold validMapB at h
  simp only [Bool.and_eq_true, beq_iff_eq, List.all_eq_true, List.mem_range] at h
  obtain ⟨⟨h1, h2⟩, h3⟩ := h
  refine ⟨h1, ?_, ?_⟩
  · intro R hR
    have := h2 R hR
    exact this
  · intro i j hi hj
    exact h3 i hi j hj

end PC
