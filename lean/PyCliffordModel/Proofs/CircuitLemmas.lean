import PyCliffordModel.Proofs.Compose
import PyCliffordModel.Spec.CircuitSpec
/-! # Proofs/CircuitLemmas — helper lemmas for C09/C10 (gate locality, disjoint gates commute, the sliding rule of `take`) -/
namespace PC

end PC
