import PyCliffordModel.Proofs.Compose
import PyCliffordModel.Spec.CircuitSpec
/-! # Proofs/CircuitLemmas — helper lemmas for C09/C10 (gate locality, disjoint gates commute, the sliding rule of `take`) -/
namespace PC
namespace Ci

/-! ## a generic operation applied through a mask -/

/-- read the masked qubits, apply `f`, write them back (`rotateMasked`, `transformMasked` are instances) -/
def maskedOp (f : Pauli → Pauli) (m : List Bool) (P : Pauli) : Pauli :=
  ⟨scatter m P.g (f ⟨gather m P.g, P.p⟩).g, (f ⟨gather m P.g, P.p⟩).p⟩

theorem rotateMasked_eq_maskedOp (G : Pauli) (m : List Bool) (P : Pauli) :
    rotateMasked G m P = maskedOp (rotate G) m P := rfl
theorem transformMasked_eq_maskedOp (M : List Pauli) (m : List Bool) (P : Pauli) :
    transformMasked M m P = maskedOp (transform M) m P := rfl

/-- the string produced by `f` depends only on the input string, and the input phase is carried through additively -/
def PhaseLin (f : Pauli → Pauli) : Prop :=
  ∀ X Y : Pauli, X.g = Y.g → (f X).g = (f Y).g ∧ (f X).p % 4 = ((f Y).p + X.p - Y.p) % 4

theorem phaseLin_rotate (G : Pauli) : PhaseLin (rotate G) := fun X Y h => Tr.rotate_of_g_eq G X Y h
theorem phaseLin_transform (M : List Pauli) : PhaseLin (transform M) := fun X Y h => Tr.transform_of_g_eq M X Y h
theorem phaseLin_id : PhaseLin id := fun X Y h => ⟨h, by simp only [id]; omega⟩

theorem length_maskedOp (f : Pauli → Pauli) (m : List Bool) (P : Pauli) : (maskedOp f m P).g.length = P.g.length := by
  simp only [maskedOp]; exact length_scatter _ _ _

theorem maskedOp_id (m : List Bool) (P : Pauli) : maskedOp id m P = P := by
  simp only [maskedOp, id, scatter_gather]

theorem maskedOp_congr {f : Pauli → Pauli} (hf : PhaseLin f) (m : List Bool) {a b : Pauli} (h : PEq a b) :
    PEq (maskedOp f m a) (maskedOp f m b) := by
  obtain ⟨hg, hp⟩ := h
  have h1 := hf ⟨gather m a.g, a.p⟩ ⟨gather m b.g, b.p⟩ (by simp only [hg])
  refine ⟨?_, ?_⟩
  · simp only [maskedOp]; rw [h1.1, hg]
  · have h2 := h1.2
    simp only [maskedOp] at h2 ⊢
    omega

theorem maskedOp_g_unmasked (f : Pauli → Pauli) (m : List Bool) (P : Pauli) (i : Nat) (d : Q)
    (hi : m.getD i false = false) : (maskedOp f m P).g.getD i d = P.g.getD i d := by
  simp only [maskedOp]; exact getD_scatter_unmasked m P.g _ i d hi

/-! ## disjoint masks: reads and writes do not interfere -/

theorem gather_scatter_disj (m1 m2 : List Bool) (g x : PStr) (hd : maskDisj m1 m2 = true) :
    gather m1 (scatter m2 g x) = gather m1 g := by
  induction m1 generalizing m2 g x with
  | nil => simp only [gather_nil_left]
  | cons a as ih =>
    cases m2 with
    | nil => rw [scatter_nil_left]
    | cons b bs =>
      cases g with
      | nil => rw [scatter_nil_mid]
      | cons q qs =>
        rw [maskDisj_cons, Bool.and_eq_true] at hd
        obtain ⟨hab, hd'⟩ := hd
        cases b with
        | false =>
          rw [scatter_cons_false]
          cases a with
          | false => rw [gather_cons_false, gather_cons_false, ih bs qs x hd']
          | true => rw [gather_cons_true, gather_cons_true, ih bs qs x hd']
        | true =>
          have ha : a = false := by cases a <;> simp_all
          subst ha
          cases x with
          | nil => rw [scatter_cons_true_nil, gather_cons_false, gather_cons_false, ih bs qs [] hd']
          | cons x0 xs => rw [scatter_cons_true_cons, gather_cons_false, gather_cons_false, ih bs qs xs hd']

theorem scatter_scatter_disj (m1 m2 : List Bool) (g x y : PStr) (hd : maskDisj m1 m2 = true) :
    scatter m1 (scatter m2 g x) y = scatter m2 (scatter m1 g y) x := by
  induction m1 generalizing m2 g x y with
  | nil => simp only [scatter_nil_left]
  | cons a as ih =>
    cases m2 with
    | nil => simp only [scatter_nil_left]
    | cons b bs =>
      cases g with
      | nil => simp only [scatter_nil_mid]
      | cons q qs =>
        rw [maskDisj_cons, Bool.and_eq_true] at hd
        obtain ⟨hab, hd'⟩ := hd
        cases b with
        | false =>
          rw [scatter_cons_false]
          cases a with
          | false => rw [scatter_cons_false, scatter_cons_false, scatter_cons_false, ih bs qs x y hd']
          | true =>
            cases y with
            | nil => rw [scatter_cons_true_nil, scatter_cons_true_nil, scatter_cons_false, ih bs qs x [] hd']
            | cons y0 ys => rw [scatter_cons_true_cons, scatter_cons_true_cons, scatter_cons_false, ih bs qs x ys hd']
        | true =>
          have ha : a = false := by cases a <;> simp_all
          subst ha
          rw [scatter_cons_false]
          cases x with
          | nil => rw [scatter_cons_true_nil, scatter_cons_true_nil, scatter_cons_false, ih bs qs [] y hd']
          | cons x0 xs => rw [scatter_cons_true_cons, scatter_cons_true_cons, scatter_cons_false, ih bs qs xs y hd']

/-- **operations through disjoint masks commute** -/
theorem maskedOp_comm {f1 f2 : Pauli → Pauli} (h1 : PhaseLin f1) (h2 : PhaseLin f2) (m1 m2 : List Bool)
    (hd : maskDisj m1 m2 = true) (P : Pauli) :
    PEq (maskedOp f1 m1 (maskedOp f2 m2 P)) (maskedOp f2 m2 (maskedOp f1 m1 P)) := by
  have hd' : maskDisj m2 m1 = true := by rw [maskDisj_comm]; exact hd
  have e1 := h1 ⟨gather m1 P.g, (f2 ⟨gather m2 P.g, P.p⟩).p⟩ ⟨gather m1 P.g, P.p⟩ rfl
  have e2 := h2 ⟨gather m2 P.g, (f1 ⟨gather m1 P.g, P.p⟩).p⟩ ⟨gather m2 P.g, P.p⟩ rfl
  simp only [maskedOp]
  rw [gather_scatter_disj m1 m2 _ _ hd, gather_scatter_disj m2 m1 _ _ hd']
  refine ⟨?_, ?_⟩
  · simp only
    rw [e1.1, e2.1, scatter_scatter_disj m1 m2 _ _ _ hd]
  · have a := e1.2; have b := e2.2
    simp only at a b ⊢
    omega

/-! ## full masks -/

theorem gather_replicate_true (N : Nat) (g : PStr) (h : g.length ≤ N) : gather (List.replicate N true) g = g := by
  induction N generalizing g with
  | zero =>
    have : g = [] := List.eq_nil_of_length_eq_zero (by omega)
    subst this; rfl
  | succ N ih =>
    cases g with
    | nil => rw [gather_nil_right]
    | cons q qs =>
      rw [List.replicate_succ, gather_cons_true, ih qs (by simpa using h)]

theorem scatter_replicate_true (N : Nat) (g s : PStr) (h : g.length ≤ N) (hs : s.length = g.length) :
    scatter (List.replicate N true) g s = s := by
  induction N generalizing g s with
  | zero =>
    have hg : g = [] := List.eq_nil_of_length_eq_zero (by omega)
    subst hg
    have : s = [] := List.eq_nil_of_length_eq_zero (by simpa using hs)
    subst this; rfl
  | succ N ih =>
    cases g with
    | nil =>
      have : s = [] := List.eq_nil_of_length_eq_zero (by simpa using hs)
      subst this; rw [scatter_nil_mid]
    | cons q qs =>
      cases s with
      | nil => simp at hs
      | cons s0 ss =>
        rw [List.replicate_succ, scatter_cons_true_cons, ih qs ss (by simpa using h) (by simpa using hs)]

theorem maskedOp_full (f : Pauli → Pauli) (N : Nat) (P : Pauli) (hP : P.g.length = N) (hf : (f P).g.length = N) :
    maskedOp f (List.replicate N true) P = f P := by
  simp only [maskedOp]
  rw [gather_replicate_true N P.g (by omega)]
  show (⟨scatter (List.replicate N true) P.g (f P).g, (f P).p⟩ : Pauli) = f P
  rw [scatter_replicate_true N P.g _ (by omega) (by omega)]

theorem eq_replicate_of_maskCount (m : List Bool) (h : maskCount m = m.length) : m = List.replicate m.length true := by
  induction m with
  | nil => rfl
  | cons b ms ih =>
    cases b with
    | false =>
      rw [maskCount_cons_false] at h
      have := maskCount_le_length ms
      simp only [List.length_cons] at h; omega
    | true =>
      rw [maskCount_cons_true] at h
      have h' : maskCount ms = ms.length := by simpa using h
      rw [List.length_cons, List.replicate_succ, ← ih h']

/-! ## inverse pairs through a mask -/

theorem maskedOp_cancel (f f' : Pauli → Pauli) (k : Nat) (m : List Bool) (P : Pauli)
    (hlen : ∀ X : Pauli, X.g.length = k → (f X).g.length = k)
    (hinv : ∀ X : Pauli, X.g.length = k → PEq (f' (f X)) X)
    (hk : maskCount m = k) (hm : m.length ≤ P.g.length) :
    PEq (maskedOp f' m (maskedOp f m P)) P := by
  have hX : (gather m P.g).length = k := by rw [length_gather m P.g hm, hk]
  have hs := hlen ⟨gather m P.g, P.p⟩ hX
  have hi := hinv ⟨gather m P.g, P.p⟩ hX
  have hti : (f' (f ⟨gather m P.g, P.p⟩)).g = gather m P.g := hi.1
  simp only [maskedOp]
  rw [gather_scatter m P.g _ hm (by rw [hs, hk])]
  show PEq ⟨scatter m (scatter m P.g (f ⟨gather m P.g, P.p⟩).g) (f' (f ⟨gather m P.g, P.p⟩)).g,
    (f' (f ⟨gather m P.g, P.p⟩)).p⟩ P
  rw [hti, Tr.scatter_scatter m P.g _ _ (by rw [hX, hk]), scatter_gather]
  exact ⟨rfl, hi.2⟩


theorem length_maskOf (qs : List Nat) (N : Nat) : (maskOf qs N).length = N := by
  simp [maskOf]

theorem getD_maskOf (qs : List Nat) (N i : Nat) :
    (maskOf qs N).getD i false = (decide (i < N) && qs.contains i) := by
  unfold maskOf
  by_cases h : i < N
  · simp [List.getD_eq_getElem?_getD, h]
  · have : N ≤ i := by omega
    simp [List.getD_eq_getElem?_getD, h]

theorem getD_maskOf_not_mem (qs : List Nat) (N i : Nat) (hi : i ∉ qs) : (maskOf qs N).getD i false = false := by
  rw [getD_maskOf]
  have : qs.contains i = false := by
    cases h : qs.contains i
    · rfl
    · exact absurd (List.contains_iff_mem.1 h) hi
  rw [this, Bool.and_false]

theorem maskCount_maskOf (qs : List Nat) (N : Nat) (hn : qs.Nodup) (hq : ∀ q ∈ qs, q < N) :
    maskCount (maskOf qs N) = qs.length := by
  unfold maskCount maskOf
  rw [List.filter_map, List.length_map]
  apply List.Perm.length_eq
  rw [List.perm_ext_iff_of_nodup (List.nodup_range.sublist List.filter_sublist) hn]
  intro a
  simp only [List.mem_filter, List.mem_range, Function.comp, id, List.contains_iff_mem]
  exact ⟨fun h => h.2, fun h => ⟨hq a h, h⟩⟩

theorem maskOf_full (qs : List Nat) (N : Nat) (hn : qs.Nodup) (hq : ∀ q ∈ qs, q < N) (hl : qs.length = N) :
    maskOf qs N = List.replicate N true := by
  have h := eq_replicate_of_maskCount (maskOf qs N) (by rw [maskCount_maskOf qs N hn hq, length_maskOf, hl])
  rw [length_maskOf] at h
  exact h

theorem indep_iff (g h : Gate) : g.indep h = true ↔ ∀ q, q ∈ g.qubits → q ∉ h.qubits := by
  unfold Gate.indep
  rw [Bool.not_eq_true', ← Bool.not_eq_true, List.any_eq_true]
  constructor
  · intro H q hq hq'
    exact H ⟨q, hq, List.contains_iff_mem.2 hq'⟩
  · rintro H ⟨q, hq, hc⟩
    exact H q hq (List.contains_iff_mem.1 hc)

theorem indep_comm (g h : Gate) : g.indep h = h.indep g := by
  rw [Bool.eq_iff_iff, indep_iff, indep_iff]
  exact ⟨fun H q hq hq' => H q hq' hq, fun H q hq hq' => H q hq' hq⟩

theorem maskDisj_maskOf (g h : Gate) (N : Nat) (hd : g.indep h = true) :
    maskDisj (maskOf g.qubits N) (maskOf h.qubits N) = true := by
  rw [maskDisj_iff_getD]
  rintro i ⟨h1, h2⟩
  rw [getD_maskOf, Bool.and_eq_true] at h1 h2
  exact (indep_iff g h).1 hd i (List.contains_iff_mem.1 h1.2) (List.contains_iff_mem.1 h2.2)

/-! ## `utils.mask` -/

theorem foldl_max_lt (l : List Int) (a N : Int) (ha : a < N) (hl : ∀ x ∈ l, x < N) : l.foldl max a < N := by
  induction l generalizing a with
  | nil => exact ha
  | cons x xs ih =>
    rw [List.foldl_cons]
    apply ih
    · have := hl x (by simp)
      omega
    · intro y hy; exact hl y (by simp [hy])

theorem qMask_eq (qubits : List Nat) (N : Nat) (h0 : qubits ≠ []) (h : ∀ q ∈ qubits, q < N) :
    qMask qubits N = .ok (maskOf qubits N) := by
  cases qubits with
  | nil => exact absurd rfl h0
  | cons q0 qs =>
    unfold qMask mkMask
    simp only [List.map_cons]
    have h1 : ¬ ((qs.map Int.ofNat).foldl max (Int.ofNat q0) ≥ (N : Int)) := by
      have := foldl_max_lt (qs.map Int.ofNat) (Int.ofNat q0) N
        (by have := h q0 (by simp); simp; omega)
        (by
          intro x hx
          obtain ⟨q, hq, rfl⟩ := List.mem_map.1 hx
          have := h q (by simp [hq]); simp; omega)
      omega
    rw [if_neg h1]
    have h2 : (Int.ofNat q0 :: qs.map Int.ofNat).any (· < -(N : Int)) = false := by
      rw [← List.map_cons, Bool.eq_false_iff]
      intro hc
      rw [List.any_eq_true] at hc
      obtain ⟨x, hx, hlt⟩ := hc
      obtain ⟨q, hq, rfl⟩ := List.mem_map.1 hx
      simp at hlt; omega
    rw [h2]
    simp only [Bool.false_eq_true, if_false]
    have h3a : (if Int.ofNat q0 < 0 then Int.ofNat q0 + (N : Int) else Int.ofNat q0).toNat = q0 := by
      have : ¬ (Int.ofNat q0 < 0) := by simp
      rw [if_neg this]; simp
    have h3b : (qs.map Int.ofNat).map (fun q => Int.toNat (if q < 0 then q + (N : Int) else q)) = qs := by
      rw [List.map_map]
      conv => rhs; rw [← List.map_id qs]
      apply List.map_congr_left
      intro q _
      have : ¬ (Int.ofNat q < 0) := by simp
      simp only [Function.comp, if_neg this]; simp
    rw [h3a, h3b]
    rfl


/-! ## gates as masked operations -/

def gateFun (g : Gate) : Pauli → Pauli :=
  match g.gen with
  | some G => rotate G
  | none =>
    match g.fmap with
    | some M => transform M
    | none => id

def gateFunInv (g : Gate) : Pauli → Pauli :=
  match g.gen with
  | some G => rotate (neg G)
  | none =>
    match g.fmap with
    | some M => match inverse M with
      | some B => transform B
      | none => id
    | none => id

theorem gateAct_eq (g : Gate) (N : Nat) (P : Pauli) :
    gateAct g N P = maskedOp (gateFun g) (maskOf g.qubits N) P := by
  unfold gateAct gateFun
  cases g.gen with
  | some G => rfl
  | none =>
    cases g.fmap with
    | some M => rfl
    | none => exact (maskedOp_id _ _).symm

theorem gateActInv_eq (g : Gate) (N : Nat) (P : Pauli) :
    gateActInv g N P = maskedOp (gateFunInv g) (maskOf g.qubits N) P := by
  unfold gateActInv gateFunInv
  cases g.gen with
  | some G => rfl
  | none =>
    cases g.fmap with
    | some M =>
      dsimp only
      cases inverse M with
      | some B => rfl
      | none => exact (maskedOp_id _ _).symm
    | none => exact (maskedOp_id _ _).symm

theorem phaseLin_gateFun (g : Gate) : PhaseLin (gateFun g) := by
  unfold gateFun
  cases g.gen with
  | some G => exact phaseLin_rotate G
  | none =>
    cases g.fmap with
    | some M => exact phaseLin_transform M
    | none => exact phaseLin_id

theorem phaseLin_gateFunInv (g : Gate) : PhaseLin (gateFunInv g) := by
  unfold gateFunInv
  cases g.gen with
  | some G => exact phaseLin_rotate _
  | none =>
    cases g.fmap with
    | some M =>
      dsimp only
      cases inverse M with
      | some B => exact phaseLin_transform B
      | none => exact phaseLin_id
    | none => exact phaseLin_id

theorem length_gateAct (g : Gate) (N : Nat) (P : Pauli) : (gateAct g N P).g.length = P.g.length := by
  rw [gateAct_eq]; exact length_maskedOp _ _ _
theorem length_gateActInv (g : Gate) (N : Nat) (P : Pauli) : (gateActInv g N P).g.length = P.g.length := by
  rw [gateActInv_eq]; exact length_maskedOp _ _ _

theorem gateAct_congr (g : Gate) (N : Nat) {a b : Pauli} (h : PEq a b) : PEq (gateAct g N a) (gateAct g N b) := by
  rw [gateAct_eq, gateAct_eq]; exact maskedOp_congr (phaseLin_gateFun g) _ h
theorem gateActInv_congr (g : Gate) (N : Nat) {a b : Pauli} (h : PEq a b) :
    PEq (gateActInv g N a) (gateActInv g N b) := by
  rw [gateActInv_eq, gateActInv_eq]; exact maskedOp_congr (phaseLin_gateFunInv g) _ h

/-- gates without a common qubit commute (no well-formedness needed) -/
theorem gateAct_comm (g h : Gate) (N : Nat) (P : Pauli) (hd : g.indep h = true) :
    PEq (gateAct g N (gateAct h N P)) (gateAct h N (gateAct g N P)) := by
  simp only [gateAct_eq]
  exact maskedOp_comm (phaseLin_gateFun g) (phaseLin_gateFun h) _ _ (maskDisj_maskOf g h N hd) P

/-! ## sequences -/

theorem seqAct_nil (N : Nat) (P : Pauli) : seqAct [] N P = P := rfl
theorem seqAct_cons (g : Gate) (gs : List Gate) (N : Nat) (P : Pauli) :
    seqAct (g :: gs) N P = seqAct gs N (gateAct g N P) := rfl
theorem seqAct_append (as bs : List Gate) (N : Nat) (P : Pauli) :
    seqAct (as ++ bs) N P = seqAct bs N (seqAct as N P) := by
  unfold seqAct; rw [List.foldl_append]
theorem seqActInv_nil (N : Nat) (P : Pauli) : seqActInv [] N P = P := rfl
theorem seqActInv_cons (g : Gate) (gs : List Gate) (N : Nat) (P : Pauli) :
    seqActInv (g :: gs) N P = gateActInv g N (seqActInv gs N P) := rfl

theorem length_seqAct (gs : List Gate) (N : Nat) (P : Pauli) : (seqAct gs N P).g.length = P.g.length := by
  induction gs generalizing P with
  | nil => rfl
  | cons g gs ih => rw [seqAct_cons, ih, length_gateAct]
theorem length_seqActInv (gs : List Gate) (N : Nat) (P : Pauli) : (seqActInv gs N P).g.length = P.g.length := by
  induction gs generalizing P with
  | nil => rfl
  | cons g gs ih => rw [seqActInv_cons, length_gateActInv, ih]

theorem seqAct_congr (gs : List Gate) (N : Nat) {a b : Pauli} (h : PEq a b) : PEq (seqAct gs N a) (seqAct gs N b) := by
  induction gs generalizing a b with
  | nil => exact h
  | cons g gs ih => rw [seqAct_cons, seqAct_cons]; exact ih (gateAct_congr g N h)
theorem seqActInv_congr (gs : List Gate) (N : Nat) {a b : Pauli} (h : PEq a b) :
    PEq (seqActInv gs N a) (seqActInv gs N b) := by
  induction gs with
  | nil => exact h
  | cons g gs ih => rw [seqActInv_cons, seqActInv_cons]; exact gateActInv_congr g N ih

/-- a gate commutes past a block of gates that are all independent of it -/
theorem seqAct_bubble (g : Gate) (B : List Gate) (N : Nat) (P : Pauli) (hB : ∀ h ∈ B, h.indep g = true) :
    PEq (seqAct (g :: B) N P) (seqAct (B ++ [g]) N P) := by
  induction B generalizing P with
  | nil => exact PEq.refl _
  | cons h B ih =>
    have hB' : ∀ x ∈ B, x.indep g = true := fun x hx => hB x (by simp [hx])
    have hc : PEq (gateAct h N (gateAct g N P)) (gateAct g N (gateAct h N P)) :=
      gateAct_comm h g N P (hB h (by simp))
    show PEq (seqAct B N (gateAct h N (gateAct g N P))) (seqAct (B ++ [g]) N (gateAct h N P))
    exact (seqAct_congr B N hc).trans (ih (gateAct h N P) hB')

theorem seqAct_insert (A B : List Gate) (g : Gate) (N : Nat) (P : Pauli) (hB : ∀ h ∈ B, h.indep g = true) :
    PEq (seqAct (A ++ g :: B) N P) (seqAct ((A ++ B) ++ [g]) N P) := by
  rw [seqAct_append, List.append_assoc, seqAct_append]
  exact seqAct_bubble g B N _ hB


/-! ## backward undoes forward -/

/-- rotating by `−G` undoes rotating by `G` (Hermitian `G`); same proof as `C02_rotate_neg_cancel` -/
theorem rotate_neg_cancel (G P : Pauli) (hG : G.p % 2 = 0) (hl : G.g.length = P.g.length) :
    PEq (rotate (neg G) (rotate G P)) P ∧ PEq (rotate G (rotate (neg G) P)) P := by
  have hnl : (neg G).g.length = P.g.length := hl
  rcases acq_bit G.g P.g with h | h
  · have hn : acq (neg G).g P.g = 0 := h
    rw [rotate_of_acq_zero G P h, rotate_of_acq_zero (neg G) P hn, rotate_of_acq_zero G P h]
    exact ⟨PEq.refl _, PEq.refl _⟩
  · have hn : acq (neg G).g P.g = 1 := h
    have a := rotate_rotate_same_g G (neg G) P rfl hl h
    have b := rotate_rotate_same_g (neg G) G P rfl hnl hn
    refine ⟨⟨a.1, ?_⟩, ⟨b.1, ?_⟩⟩
    · have := a.2; simp only [neg] at this ⊢; omega
    · have := b.2; simp only [neg] at this ⊢; omega

theorem gateFun_gen (g : Gate) (G : Pauli) (h : g.gen = some G) : gateFun g = rotate G := by
  unfold gateFun; rw [h]
theorem gateFunInv_gen (g : Gate) (G : Pauli) (h : g.gen = some G) : gateFunInv g = rotate (neg G) := by
  unfold gateFunInv; rw [h]
theorem gateFun_map (g : Gate) (M : CMap) (h : g.gen = none) (hM : g.fmap = some M) : gateFun g = transform M := by
  unfold gateFun; rw [h, hM]
theorem gateFunInv_map (g : Gate) (M B : CMap) (h : g.gen = none) (hM : g.fmap = some M) (hB : inverse M = some B) :
    gateFunInv g = transform B := by
  unfold gateFunInv; rw [h, hM]; dsimp only; rw [hB]

theorem gate_inverse (g : Gate) (N : Nat) (P : Pauli) (hg : g.WF N) (hP : P.g.length = N) :
    PEq (gateActInv g N (gateAct g N P)) P ∧ PEq (gateAct g N (gateActInv g N P)) P := by
  obtain ⟨_, hq, hn, hk⟩ := hg
  have hk' : maskCount (maskOf g.qubits N) = g.n := maskCount_maskOf g.qubits N hn hq
  have hm : (maskOf g.qubits N).length ≤ P.g.length := by rw [length_maskOf, hP]; exact Nat.le_refl _
  simp only [gateAct_eq, gateActInv_eq]
  rcases hk with ⟨G, hgen, hGl, hGp⟩ | ⟨hgen, M, hM, hV⟩
  · rw [gateFun_gen g G hgen, gateFunInv_gen g G hgen]
    have hnp : (neg G).p % 2 = 0 := by simp only [neg]; omega
    constructor
    · exact maskedOp_cancel _ _ g.n _ P
        (fun X hX => by rw [length_rotate G X (hGl.trans hX.symm)]; exact hX)
        (fun X hX => (rotate_neg_cancel G X hGp (hGl.trans hX.symm)).1) hk' hm
    · exact maskedOp_cancel _ _ g.n _ P
        (fun X hX => by rw [length_rotate (neg G) X (hGl.trans hX.symm)]; exact hX)
        (fun X hX => (rotate_neg_cancel G X hGp (hGl.trans hX.symm)).2) hk' hm
  · obtain ⟨B, hB, hVB, hAB, hBA⟩ := Cp.inverse_spec M g.n hV
    rw [gateFun_map g M hgen hM, gateFunInv_map g M B hgen hM hB]
    constructor
    · exact maskedOp_cancel _ _ g.n _ P
        (fun X _ => Tr.length_transform M g.n hV.1 (fun R hR => (hV.2.1 R hR).1) X)
        (fun X hX => Cp.acts_id_of_rows M B g.n hV hVB hAB X hX) hk' hm
    · exact maskedOp_cancel _ _ g.n _ P
        (fun X _ => Tr.length_transform B g.n hVB.1 (fun R hR => (hVB.2.1 R hR).1) X)
        (fun X hX => Cp.acts_id_of_rows B M g.n hVB hV hBA X hX) hk' hm

theorem program_inverse (prog : List Gate) (N : Nat) (P : Pauli) (hw : ∀ g ∈ prog, g.WF N) (hP : P.g.length = N) :
    PEq (seqActInv prog N (seqAct prog N P)) P ∧ PEq (seqAct prog N (seqActInv prog N P)) P := by
  induction prog generalizing P with
  | nil => exact ⟨PEq.refl _, PEq.refl _⟩
  | cons g gs ih =>
    have hg := hw g (by simp)
    have hgs : ∀ x ∈ gs, x.WF N := fun x hx => hw x (by simp [hx])
    rw [seqAct_cons, seqActInv_cons, seqActInv_cons, seqAct_cons]
    constructor
    · have h1 := (ih (gateAct g N P) hgs (by rw [length_gateAct]; exact hP)).1
      exact (gateActInv_congr g N h1).trans (gate_inverse g N P hg hP).1
    · have h1 := (gate_inverse g N (seqActInv gs N P) hg (by rw [length_seqActInv]; exact hP)).2
      exact (seqAct_congr gs N h1).trans (ih P hgs hP).2

/-! ## the model's `forward`/`backward` of one gate, exactly -/

theorem gateAct_full (g : Gate) (N : Nat) (P : Pauli) (hg : g.WF N) (hN : g.n = N) (hP : P.g.length = N) :
    gateAct g N P = gateFun g P := by
  obtain ⟨_, hq, hn, hk⟩ := hg
  rw [gateAct_eq, maskOf_full g.qubits N hn hq hN]
  apply maskedOp_full _ N P hP
  rcases hk with ⟨G, hgen, hGl, hGp⟩ | ⟨hgen, M, hM, hV⟩
  · rw [gateFun_gen g G hgen, length_rotate G P (by rw [hGl, hN, hP])]; exact hP
  · rw [gateFun_map g M hgen hM, ← hN]
    exact Tr.length_transform M g.n hV.1 (fun R hR => (hV.2.1 R hR).1) P

theorem gateActInv_full_gen (g : Gate) (G : Pauli) (N : Nat) (P : Pauli) (hg : g.WF N) (hgen : g.gen = some G)
    (hN : g.n = N) (hP : P.g.length = N) : gateActInv g N P = rotate (neg G) P := by
  obtain ⟨_, hq, hn, hk⟩ := hg
  rw [gateActInv_eq, maskOf_full g.qubits N hn hq hN, gateFunInv_gen g G hgen]
  apply maskedOp_full _ N P hP
  rcases hk with ⟨G', hgen', hGl, hGp⟩ | ⟨hgen', _⟩
  · rw [hgen] at hgen'
    cases hgen'
    rw [length_rotate (neg G) P (by show G.g.length = _; rw [hGl, hN, hP])]; exact hP
  · rw [hgen] at hgen'; cases hgen'

theorem gate_forward_eq (g : Gate) (N : Nat) (rows : List Pauli) (rnd : List CMap) (hg : g.WF N)
    (hr : ∀ R ∈ rows, R.g.length = N) : g.forward N rows rnd = .ok (g, rows.map (gateAct g N), rnd) := by
  have hg' := hg
  obtain ⟨h0, hq, hn, hk⟩ := hg
  have hmask := qMask_eq g.qubits N h0 hq
  rcases hk with ⟨G, hgen, hGl, hGp⟩ | ⟨hgen, M, hM, hV⟩
  · simp only [Gate.forward, hgen]
    by_cases hN : g.n = N
    · rw [if_pos hN]
      have : rows.map (rotate G) = rows.map (gateAct g N) := by
        apply List.map_congr_left
        intro R hR
        rw [gateAct_full g N R hg' hN (hr R hR), gateFun_gen g G hgen]
      rw [this]
    · rw [if_neg hN, hmask]
      have : rows.map (rotateMasked G (maskOf g.qubits N)) = rows.map (gateAct g N) := by
        apply List.map_congr_left
        intro R _
        simp only [gateAct, hgen]
      simp only [this]
  · simp only [Gate.forward, hgen, hM]
    by_cases hN : g.n = N
    · rw [if_pos hN]
      have : rows.map (transform M) = rows.map (gateAct g N) := by
        apply List.map_congr_left
        intro R hR
        rw [gateAct_full g N R hg' hN (hr R hR), gateFun_map g M hgen hM]
      rw [this]
    · rw [if_neg hN, hmask]
      have : rows.map (transformMasked M (maskOf g.qubits N)) = rows.map (gateAct g N) := by
        apply List.map_congr_left
        intro R _
        simp only [gateAct, hgen, hM]
      simp only [this]

theorem gate_backward_eq (g : Gate) (N : Nat) (rows : List Pauli) (rnd : List CMap) (hg : g.WF N)
    (hb : g.bmap = none) (hr : ∀ R ∈ rows, R.g.length = N) :
    ∃ g', g.backward N rows rnd = .ok (g', rows.map (gateActInv g N), rnd) := by
  have hg' := hg
  obtain ⟨h0, hq, hn, hk⟩ := hg
  have hmask := qMask_eq g.qubits N h0 hq
  rcases hk with ⟨G, hgen, hGl, hGp⟩ | ⟨hgen, M, hM, hV⟩
  · refine ⟨g, ?_⟩
    simp only [Gate.backward, hgen]
    by_cases hN : g.n = N
    · rw [if_pos hN]
      have : rows.map (rotate (neg G)) = rows.map (gateActInv g N) := by
        apply List.map_congr_left
        intro R hR
        rw [gateActInv_full_gen g G N R hg' hgen hN (hr R hR)]
      rw [this]
    · rw [if_neg hN, hmask]
      have : rows.map (rotateMasked (neg G) (maskOf g.qubits N)) = rows.map (gateActInv g N) := by
        apply List.map_congr_left
        intro R _
        simp only [gateActInv, hgen]
      simp only [this]
  · obtain ⟨B, hB, -, -, -⟩ := Cp.inverse_spec M g.n hV
    refine ⟨{ g with bmap := some B }, ?_⟩
    simp only [Gate.backward, hgen, hM, hb, hB, hmask]
    have : rows.map (transformMasked B (maskOf g.qubits N)) = rows.map (gateActInv g N) := by
      apply List.map_congr_left
      intro R _
      simp only [gateActInv, hgen, hM, hB]
    rw [this]


/-! ## running a list of gates, a layer, a list of layers -/

def layerGates : Layer → List Gate
  | .gates gs _ _ => gs
  | .meas .. => []
/-- the gates of a layer list in execution order -/
def flatGates (Ls : List Layer) : List Gate := Ls.flatMap layerGates
/-- a gate layer without a compiled forward map -/
def PlainL (L : Layer) : Prop := ∃ gs b, L = .gates gs none b

theorem flatGates_nil : flatGates [] = [] := rfl
theorem flatGates_cons (L : Layer) (Ls : List Layer) : flatGates (L :: Ls) = layerGates L ++ flatGates Ls := by
  simp [flatGates]
theorem flatGates_append (As Bs : List Layer) : flatGates (As ++ Bs) = flatGates As ++ flatGates Bs := by
  simp [flatGates]
theorem flatGates_reverse_cons (L : Layer) (Ls : List Layer) :
    flatGates (L :: Ls).reverse = flatGates Ls.reverse ++ layerGates L := by
  rw [List.reverse_cons, flatGates_append, flatGates_cons, flatGates_nil, List.append_nil]

theorem gatesForward_eq (N : Nat) (gs : List Gate) (rows : List Pauli) (rnd : List CMap)
    (hw : ∀ g ∈ gs, g.WF N) (hr : ∀ R ∈ rows, R.g.length = N) :
    gatesForward N gs rows rnd = .ok (gs, rows.map (seqAct gs N), rnd) := by
  induction gs generalizing rows with
  | nil =>
    have : seqAct [] N = id := rfl
    rw [this, List.map_id]; rfl
  | cons g gs ih =>
    have hr' : ∀ R ∈ rows.map (gateAct g N), R.g.length = N := by
      intro R hR
      obtain ⟨R0, hR0, rfl⟩ := List.mem_map.1 hR
      rw [length_gateAct]; exact hr R0 hR0
    unfold gatesForward
    rw [gate_forward_eq g N rows rnd (hw g (by simp)) hr]
    dsimp only
    rw [ih (rows.map (gateAct g N)) (fun x hx => hw x (by simp [hx])) hr']
    dsimp only
    rw [List.map_map]
    rfl

theorem layersForward_eq (N : Nat) (Ls : List Layer) (rows : List Pauli) (r : Nat) (s : Bool) (coins : List Bool)
    (rnd : List CMap) (hp : ∀ L ∈ Ls, PlainL L) (hw : ∀ g ∈ flatGates Ls, g.WF N)
    (hr : ∀ R ∈ rows, R.g.length = N) :
    layersForward N Ls ⟨⟨rows, r, s⟩, coins, rnd⟩ =
      .ok (Ls, ⟨⟨rows.map (seqAct (flatGates Ls) N), r, s⟩, coins, rnd⟩, [], 0) := by
  induction Ls generalizing rows with
  | nil =>
    have : seqAct (flatGates []) N = id := rfl
    rw [this, List.map_id]; rfl
  | cons L Ls ih =>
    obtain ⟨gs, b, rfl⟩ := hp L (by simp)
    have hwg : ∀ g ∈ gs, g.WF N := fun g hg => hw g (by rw [flatGates_cons]; simp [layerGates, hg])
    have hwl : ∀ g ∈ flatGates Ls, g.WF N := fun g hg => hw g (by rw [flatGates_cons]; simp [hg])
    have hr' : ∀ R ∈ rows.map (seqAct gs N), R.g.length = N := by
      intro R hR
      obtain ⟨R0, hR0, rfl⟩ := List.mem_map.1 hR
      rw [length_seqAct]; exact hr R0 hR0
    have hL : Layer.forward N (.gates gs none b) ⟨⟨rows, r, s⟩, coins, rnd⟩ =
        .ok (.gates gs none b, ⟨⟨rows.map (seqAct gs N), r, s⟩, coins, rnd⟩) := by
      simp only [Layer.forward, gatesForward_eq N gs rows rnd hwg hr]
    unfold layersForward
    rw [hL]
    dsimp only
    rw [ih (rows.map (seqAct gs N)) (fun X hX => hp X (by simp [hX])) hwl hr']
    dsimp only
    rw [List.map_map, flatGates_cons]
    have : seqAct (flatGates Ls) N ∘ seqAct gs N = seqAct (layerGates (.gates gs none b) ++ flatGates Ls) N := by
      funext P; simp only [Function.comp, seqAct_append, layerGates]
    rw [this]

/-! ## `take`: the sliding rule -/

theorem indep_gates (L : Layer) (g : Gate) (h : L.indep g = true) :
    ∃ gs f b, L = .gates gs f b ∧ ∀ x ∈ gs, x.indep g = true := by
  cases L with
  | meas q r k => simp [Layer.indep] at h
  | gates gs f b =>
    refine ⟨gs, f, b, rfl, ?_⟩
    simpa [Layer.indep, List.all_eq_true] using h

theorem plainL_append (L : Layer) (g : Gate) (h : PlainL L) : PlainL (L.append g) := by
  obtain ⟨gs, b, rfl⟩ := h
  exact ⟨gs ++ [g], b, rfl⟩

theorem layerGates_append (L : Layer) (g : Gate) (h : L.isMeas = false) :
    layerGates (L.append g) = layerGates L ++ [g] := by
  cases L with
  | meas q r k => simp [Layer.isMeas] at h
  | gates gs f b => rfl

/-- `takeRev` puts the gate behind a block of gates that are all independent of it -/
theorem takeRev_spec (g : Gate) : ∀ (rest : List Layer) (L : Layer), L.indep g = true →
    (∀ X ∈ L :: rest, PlainL X) →
    (∀ X ∈ takeRev (L :: rest) g, PlainL X) ∧
    ∃ A B, flatGates (L :: rest).reverse = A ++ B ∧ flatGates (takeRev (L :: rest) g).reverse = A ++ g :: B ∧
      ∀ h ∈ B, h.indep g = true := by
  intro rest
  induction rest with
  | nil =>
    intro L hi hp
    obtain ⟨gs, f, b, rfl, hgs⟩ := indep_gates L g hi
    refine ⟨?_, gs, [], ?_, ?_, ?_⟩
    · intro X hX
      simp only [takeRev, List.mem_singleton] at hX
      subst hX
      exact plainL_append _ g (hp _ (by simp))
    · simp [flatGates, layerGates]
    · simp [takeRev, Layer.append, flatGates, layerGates]
    · intro h hh; simp at hh
  | cons P rest ih =>
    intro L hi hp
    obtain ⟨gs, f, b, rfl, hgs⟩ := indep_gates L g hi
    have stop : (∀ X ∈ (Layer.gates gs f b).append g :: P :: rest, PlainL X) ∧
        ∃ A B, flatGates (Layer.gates gs f b :: P :: rest).reverse = A ++ B ∧
          flatGates ((Layer.gates gs f b).append g :: P :: rest).reverse = A ++ g :: B ∧
          ∀ h ∈ B, h.indep g = true := by
      refine ⟨?_, flatGates (P :: rest).reverse ++ gs, [], ?_, ?_, ?_⟩
      · intro X hX
        rcases List.mem_cons.1 hX with rfl | hX
        · exact plainL_append _ g (hp _ (by simp))
        · exact hp X (List.mem_cons_of_mem _ hX)
      · rw [flatGates_reverse_cons]; simp [layerGates]
      · rw [flatGates_reverse_cons]; simp [layerGates, Layer.append]
      · intro h hh; simp at hh
    unfold takeRev
    by_cases hm : P.isMeas = true
    · rw [if_pos hm]; exact stop
    · rw [if_neg hm]
      by_cases hPi : P.indep g = true
      · rw [if_pos hPi]
        obtain ⟨hpl, A, B, e1, e2, hB⟩ := ih P hPi (fun X hX => hp X (List.mem_cons_of_mem _ hX))
        refine ⟨?_, A, B ++ gs, ?_, ?_, ?_⟩
        · intro X hX
          rcases List.mem_cons.1 hX with rfl | hX
          · exact hp _ (by simp)
          · exact hpl X hX
        · rw [flatGates_reverse_cons, e1]; simp [layerGates]
        · rw [flatGates_reverse_cons, e2]; simp [layerGates]
        · intro h hh
          rcases List.mem_append.1 hh with hh | hh
          · exact hB h hh
          · exact hgs h hh
      · rw [if_neg hPi]; exact stop

/-! ## the invariant of a circuit under construction -/

def Inv (N : Nat) (c : Circ) (pre : List Gate) : Prop :=
  c.N = N ∧ c.unitary = true ∧ c.fmap = none ∧ (∀ L ∈ c.layers, PlainL L) ∧
  (∀ h ∈ flatGates c.layers, h.WF N) ∧
  ∀ P : Pauli, P.g.length = N → PEq (seqAct (flatGates c.layers) N P) (seqAct pre N P)

theorem inv_init (N : Nat) : Inv N { N := N } [] := by
  refine ⟨rfl, rfl, rfl, ?_, ?_, ?_⟩
  · intro L hL
    simp only [List.mem_singleton] at hL
    exact ⟨[], none, hL⟩
  · intro h hh; simp [flatGates, layerGates] at hh
  · intro P _; exact PEq.refl _

theorem take_inv (N : Nat) (c c' : Circ) (pre : List Gate) (g : Gate) (hI : Inv N c pre) (hg : g.WF N)
    (ht : c.take g = .ok c') : Inv N c' (pre ++ [g]) := by
  obtain ⟨hN, hu, hf, hp, hw, hs⟩ := hI
  have key : ∀ (Ls : List Layer), (∀ L ∈ Ls, PlainL L) → (∀ h ∈ flatGates Ls, h.WF N) →
      (∀ P : Pauli, P.g.length = N → PEq (seqAct (flatGates Ls) N P) (seqAct (flatGates c.layers ++ [g]) N P)) →
      Inv N { c with layers := Ls } (pre ++ [g]) := by
    intro Ls h1 h2 h3
    refine ⟨hN, hu, hf, h1, h2, ?_⟩
    intro P hP
    refine (h3 P hP).trans ?_
    rw [seqAct_append, seqAct_append]
    exact gateAct_congr g N (hs P hP)
  unfold Circ.take at ht
  split at ht
  · cases ht
  · split at ht
    · cases ht
    · cases hrev : c.layers.reverse with
      | nil => rw [hrev] at ht; cases ht
      | cons L rest =>
        have hlay : c.layers = (L :: rest).reverse := by rw [← hrev, List.reverse_reverse]
        rw [hrev] at ht
        dsimp only at ht
        split at ht
        · rename_i hc
          rw [Bool.and_eq_true] at hc
          cases ht
          have hpR : ∀ X ∈ L :: rest, PlainL X := by
            intro X hX; apply hp; rw [hlay]; exact List.mem_reverse.2 hX
          obtain ⟨hpl, A, B, e1, e2, hB⟩ := takeRev_spec g rest L hc.2 hpR
          rw [← hlay] at e1
          apply key
          · intro X hX; exact hpl X (List.mem_reverse.1 hX)
          · intro h hh
            rw [e2] at hh
            rcases List.mem_append.1 hh with hh | hh
            · exact hw h (by rw [e1]; exact List.mem_append_left _ hh)
            · rcases List.mem_cons.1 hh with rfl | hh
              · exact hg
              · exact hw h (by rw [e1]; exact List.mem_append_right _ hh)
          · intro P _
            rw [e2, e1]
            exact seqAct_insert A B g N P hB
        · cases ht
          apply key
          · intro X hX
            rcases List.mem_append.1 hX with hX | hX
            · exact hp X hX
            · simp only [List.mem_singleton] at hX
              exact ⟨[g], none, hX⟩
          · intro h hh
            rw [flatGates_append] at hh
            rcases List.mem_append.1 hh with hh | hh
            · exact hw h hh
            · simp [flatGates, layerGates] at hh
              subst hh; exact hg
          · intro P _
            rw [flatGates_append]
            simp only [flatGates, layerGates, List.flatMap_cons, List.flatMap_nil, List.append_nil]
            exact PEq.refl _

theorem fold_inv (N : Nat) (gsl : List Gate) : ∀ (c0 c : Circ) (pre : List Gate), Inv N c0 pre →
    (∀ g ∈ gsl, g.WF N) → gsl.foldlM (fun c g => c.take g) c0 = .ok c → Inv N c (pre ++ gsl) := by
  induction gsl with
  | nil =>
    intro c0 c pre hI _ h
    have : c0 = c := by simpa [List.foldlM, pure, Except.pure] using h
    subst this
    rw [List.append_nil]; exact hI
  | cons g gs ih =>
    intro c0 c pre hI hw h
    rw [List.foldlM_cons] at h
    cases ht : c0.take g with
    | error e => rw [ht] at h; cases h
    | ok c1 =>
      rw [ht] at h
      have h1 := take_inv N c0 c1 pre g hI (hw g (by simp)) ht
      have := ih c1 c (pre ++ [g]) h1 (fun x hx => hw x (by simp [hx])) h
      rw [List.append_assoc] at this
      exact this

theorem rowsPEq_map (rows : List Pauli) (f f' : Pauli → Pauli) (h : ∀ R ∈ rows, PEq (f R) (f' R)) :
    RowsPEq' (rows.map f) (rows.map f') := by
  refine ⟨by simp, ?_⟩
  intro i hi
  have hi' : i < rows.length := by simpa using hi
  rw [Tr.rowAt_map f rows i hi', Tr.rowAt_map f' rows i hi']
  exact h _ (Tr.rowAt_mem rows i hi')

theorem forward_of_inv (N : Nat) (c : Circ) (pre : List Gate) (rows : List Pauli) (r : Nat) (s : Bool)
    (coins : List Bool) (rnd : List CMap) (hI : Inv N c pre) (hr : ∀ R ∈ rows, R.g.length = N) :
    ∃ c' rows', c.forward ⟨⟨rows, r, s⟩, coins, rnd⟩ = .ok (c', ⟨⟨rows', r, s⟩, coins, rnd⟩) ∧
      RowsPEq' rows' (rows.map (seqAct pre N)) := by
  obtain ⟨hN, hu, hf, hp, hw, hs⟩ := hI
  subst hN
  refine ⟨{ c with layers := c.layers }, rows.map (seqAct (flatGates c.layers) c.N), ?_, ?_⟩
  · have e := layersForward_eq c.N c.layers rows r s coins rnd hp hw hr
    unfold Circ.forward
    rw [if_pos hu]
    split
    · rename_i M hM; rw [hf] at hM; cases hM
    · rw [e]
  · exact rowsPEq_map rows _ _ (fun R hR => hs R (hr R hR))

end Ci
end PC
