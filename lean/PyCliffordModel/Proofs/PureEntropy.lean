import PyCliffordModel.Proofs.RankLemmas
import PyCliffordModel.Proofs.Tableau
/-! # Proofs/PureEntropy — the pure-state entropy formula (half the rank of the restricted anticommutation matrix) -/
namespace PC

end PC
