import PyCliffordModel.Proofs.RankLemmas
import PyCliffordModel.Proofs.Tableau
import PyCliffordModel.Proofs.Compose
import Mathlib.Data.ZMod.Basic
import Mathlib.Algebra.BigOperators.Fin
import Mathlib.SetTheory.Cardinal.Finite
import Mathlib.Data.Fintype.Card
import Mathlib.LinearAlgebra.BilinearForm.Properties
import Mathlib.LinearAlgebra.Dimension.Constructions
import Mathlib.Algebra.Module.ZMod
import Mathlib.LinearAlgebra.BilinearForm.Orthogonal
import Mathlib.LinearAlgebra.FiniteDimensional.Lemmas
import Mathlib.LinearAlgebra.Finsupp.LinearCombination
import Mathlib.Algebra.Field.ZMod
import Mathlib.FieldTheory.Finiteness
/-! # Proofs/PureEntropy — the pure-state entropy formula (half the rank of the restricted anticommutation matrix)

Layout:
* §1 (`PC.PE`) the anticommutation form splits over a region and its complement; complement symmetry of the pure
     branch (`entropy_compl`);
* §A (`PC.Symp`, Mathlib linear algebra over a field) the abstract statement: generators `(P i, Q i) ∈ W_A × W_B`,
     pairwise orthogonal for `ω_A ⊕ ω_B`, independent, `dim W_A + dim W_B = 2·#generators`; then the vectors of `W_A`
     orthogonal to all `P i` are exactly the `A`-parts of the combinations whose `B`-part vanishes
     (`map_ker_eq_orthogonal`), and the Gram matrix of any subfamily `P'` that spans `span P` modulo that radical has
     `dim ker + dim W_A = #P' + 2·dim{c | ∑ c i • Q i = 0}` (`gram_kernel_dim`; cardinality form `gram_kernel_card`);
* §2–§4 bits as `ZMod 2`, `cnt`/`kernelCount` as cardinalities of kernels (`kernelCount_eq_card`, `kernelCount_flat`,
     `kernelCount_gram`), Pauli strings as vectors `W n`, the symplectic form `omega n` (`= acq`), nondegenerate;
* §5 region/complement: a string is determined by its two restrictions; the additive splitting `splitHom`;
* §6 the counting identity `gram_count` and the entropy formula `entropy_pure`.
-/
namespace PC
namespace PE

/-! ## §1 the anticommutation form splits over a region and its complement -/

theorem map_not_not (m : List Bool) : (m.map (!·)).map (!·) = m := by
  induction m with
  | nil => rfl
  | cons b t ih => simp only [List.map_cons, ih, Bool.not_not]

/-- `acqSum` splits into the part inside the region and the part outside -/
theorem acqSum_split : ∀ (m : List Bool) (a b : PStr), a.length ≤ m.length →
    acqSum a b = acqSum (gather m a) (gather m b) + acqSum (gather (m.map (!·)) a) (gather (m.map (!·)) b)
  | [], a, b, h => by
    have : a = [] := by cases a with
      | nil => rfl
      | cons _ _ => simp at h
    subst this
    simp [acqSum_nil_left, gather_nil_left]
  | _ :: _, [], b, _ => by simp [acqSum_nil_left, gather_nil_right]
  | _ :: _, _ :: _, [], _ => by simp [acqSum_nil_right, gather_nil_right]
  | true :: ms, q :: qs, r :: rs, h => by
    have ih := acqSum_split ms qs rs (by simpa using h)
    simp only [List.map_cons, Bool.not_true, gather_cons_true, gather_cons_false, acqSum_cons, ih]
    omega
  | false :: ms, q :: qs, r :: rs, h => by
    have ih := acqSum_split ms qs rs (by simpa using h)
    simp only [List.map_cons, Bool.not_false, gather_cons_true, gather_cons_false, acqSum_cons, ih]
    omega

/-- commuting strings have equal anticommutation bits inside and outside a region -/
theorem acq_gather_compl (m : List Bool) (a b : PStr) (h : a.length ≤ m.length) (hc : acq a b = 0) :
    acq (gather m a) (gather m b) = acq (gather (m.map (!·)) a) (gather (m.map (!·)) b) := by
  unfold acq at hc ⊢
  rw [acqSum_split m a b h] at hc
  omega

theorem acqMat_map (f : PStr → PStr) (l : List PStr) :
    acqMat (l.map f) = l.map fun a => l.map fun b => acq (f a) (f b) := by
  simp only [acqMat, List.map_map]; rfl

/-- the anticommutation matrices of the restrictions to a region and to its complement coincide -/
theorem acqMat_gather_compl (m : List Bool) (l : List PStr) (hl : ∀ a ∈ l, a.length ≤ m.length)
    (hc : ∀ a ∈ l, ∀ b ∈ l, acq a b = 0) :
    acqMat (l.map (gather m)) = acqMat (l.map (gather (m.map (!·)))) := by
  rw [acqMat_map, acqMat_map]
  apply List.map_congr_left
  intro a ha
  apply List.map_congr_left
  intro b hb
  exact acq_gather_compl m a b (hl a ha) (hc a ha b hb)

/-- complement symmetry of the pure branch (only pairwise commutation is used) -/
theorem entropy_compl (gs : List PStr) (N : Nat) (m : List Bool) (hN : gs.length = N)
    (hl : ∀ g ∈ gs, g.length ≤ m.length) (hc : ∀ a ∈ gs, ∀ b ∈ gs, acq a b = 0) :
    entropy gs N m = entropy gs N (m.map (!·)) := by
  unfold entropy
  simp only [hN, if_true, map_not_not]
  have hf : (fun g => anyBit (gather (m.map (!·)) g) && anyBit (gather m g))
      = (fun g => anyBit (gather m g) && anyBit (gather (m.map (!·)) g)) := by
    funext g; exact Bool.and_comm _ _
  rw [hf]
  have hmem : ∀ a ∈ gs.filter (fun g => anyBit (gather m g) && anyBit (gather (m.map (!·)) g)), a ∈ gs :=
    fun a ha => (List.mem_filter.mp ha).1
  rw [acqMat_gather_compl m _ (fun a ha => hl a (hmem a ha)) (fun a ha b hb => hc a (hmem a ha) b (hmem b hb))]
  simp only [List.length_map]

end PE
end PC

/-! ## §A the abstract symplectic statement (Mathlib) -/

namespace PC.Symp
open Module

variable {F : Type*} [Field F]
variable {WA WB : Type*} [AddCommGroup WA] [Module F WA] [FiniteDimensional F WA]
  [AddCommGroup WB] [Module F WB] [FiniteDimensional F WB]
variable {ι ι' : Type*} [Fintype ι] [Fintype ι']

/-- the Gram map `c ↦ (∑ i, c i * ω (P' i) (P' j))_j` -/
def gramMap (ω : LinearMap.BilinForm F WA) (P' : ι' → WA) : (ι' → F) →ₗ[F] (ι' → F) where
  toFun c := fun j => ∑ i, c i * ω (P' i) (P' j)
  map_add' c d := by
    funext j
    simp only [Pi.add_apply, add_mul, Finset.sum_add_distrib]
  map_smul' a c := by
    funext j
    simp only [Pi.smul_apply, smul_eq_mul, RingHom.id_apply, Finset.mul_sum]
    apply Finset.sum_congr rfl; intros; ring

section helpers

variable {V : Type*} [AddCommGroup V] [Module F V]
variable {U : Type*} [AddCommGroup U] [Module F U]

/-- membership in the orthogonal of a span can be tested on the generators -/
lemma mem_orthogonal_span_iff (B : LinearMap.BilinForm F V) (s : Set V) (x : V) :
    x ∈ B.orthogonal (Submodule.span F s) ↔ ∀ y ∈ s, B y x = 0 := by
  rw [LinearMap.BilinForm.mem_orthogonal_iff]
  constructor
  · intro h y hy
    exact h y (Submodule.subset_span hy)
  · intro h n hn
    induction hn using Submodule.span_induction with
    | mem y hy => exact h y hy
    | zero => simp
    | add a b _ _ ha hb => simp [ha, hb]
    | smul a y _ hy => simp [hy]

/-- rank–nullity for the preimage of a submodule -/
lemma finrank_comap_eq [FiniteDimensional F U] (f : U →ₗ[F] V) (S : Submodule F V) :
    finrank F (S.comap f) = finrank F (LinearMap.ker f) + finrank F (LinearMap.range f ⊓ S : Submodule F V) := by
  have hle : LinearMap.ker f ≤ S.comap f := by
    intro x hx
    rw [Submodule.mem_comap, LinearMap.mem_ker.1 hx]
    exact S.zero_mem
  have h := LinearMap.finrank_range_add_finrank_ker (f.comp (S.comap f).subtype)
  rw [LinearMap.range_comp, Submodule.range_subtype, Submodule.map_comap_eq, LinearMap.ker_comp,
    LinearEquiv.finrank_eq (Submodule.comapSubtypeEquivOfLe hle)] at h
  omega

/-- injectivity on a submodule preserves its dimension -/
lemma finrank_map_eq_of_disjoint_ker (f : U →ₗ[F] V) (S : Submodule F U)
    (h : ∀ x ∈ S, f x = 0 → x = 0) :
    finrank F (S.map f) = finrank F S := by
  have hinj : Function.Injective (f.comp S.subtype) := by
    rw [← LinearMap.ker_eq_bot, LinearMap.ker_eq_bot']
    intro x hx
    exact Subtype.ext (h x.1 x.2 hx)
  have := LinearMap.finrank_range_of_inj hinj
  rwa [LinearMap.range_comp, Submodule.range_subtype] at this

end helpers

omit [FiniteDimensional F WA] [FiniteDimensional F WB] in
/-- Step 1: `ΦP` maps `ker ΦQ` into the orthogonal of `range ΦP`. -/
lemma map_ker_le_orthogonal
    (ωA : LinearMap.BilinForm F WA) (ωB : LinearMap.BilinForm F WB)
    (P : ι → WA) (Q : ι → WB)
    (hiso : ∀ i j, ωA (P i) (P j) + ωB (Q i) (Q j) = 0) :
    (LinearMap.ker (Fintype.linearCombination F Q)).map (Fintype.linearCombination F P)
      ≤ ωA.orthogonal (LinearMap.range (Fintype.linearCombination F P)) := by
  rintro _ ⟨c, hc, rfl⟩
  rw [Fintype.range_linearCombination, mem_orthogonal_span_iff]
  rintro _ ⟨j, rfl⟩
  have hc' : ∑ i, c i • Q i = 0 := by
    simpa [Fintype.linearCombination_apply] using hc
  have h0 : ωA (P j) (∑ i, c i • P i) + ωB (Q j) (∑ i, c i • Q i) = 0 := by
    simp only [map_sum, map_smul, smul_eq_mul, ← Finset.sum_add_distrib, ← mul_add, hiso,
      mul_zero, Finset.sum_const_zero]
  rw [hc', map_zero, add_zero] at h0
  rw [Fintype.linearCombination_apply]
  exact h0

/-- Steps 1–3: the two inequalities are equalities. -/
lemma map_ker_eq_orthogonal
    (ωA : LinearMap.BilinForm F WA) (ωB : LinearMap.BilinForm F WB)
    (hA : ωA.Nondegenerate) (hB : ωB.Nondegenerate)
    (P : ι → WA) (Q : ι → WB)
    (hdim : finrank F WA + finrank F WB = 2 * Fintype.card ι)
    (hiso : ∀ i j, ωA (P i) (P j) + ωB (Q i) (Q j) = 0)
    (hind : ∀ c : ι → F, ∑ i, c i • P i = 0 → ∑ i, c i • Q i = 0 → c = 0) :
    (LinearMap.ker (Fintype.linearCombination F Q)).map (Fintype.linearCombination F P)
        = ωA.orthogonal (LinearMap.range (Fintype.linearCombination F P)) ∧
      finrank F (LinearMap.range (Fintype.linearCombination F P))
        + finrank F (LinearMap.ker (Fintype.linearCombination F Q)) = finrank F WA ∧
      finrank F (ωA.orthogonal (LinearMap.range (Fintype.linearCombination F P)))
        = finrank F (LinearMap.ker (Fintype.linearCombination F Q)) := by
  have hiso' : ∀ i j, ωB (Q i) (Q j) + ωA (P i) (P j) = 0 := fun i j => by
    rw [add_comm]; exact hiso i j
  have leA := map_ker_le_orthogonal ωA ωB P Q hiso
  have leB := map_ker_le_orthogonal ωB ωA Q P hiso'
  have eA : finrank F ((LinearMap.ker (Fintype.linearCombination F Q)).map
      (Fintype.linearCombination F P)) = finrank F (LinearMap.ker (Fintype.linearCombination F Q)) := by
    apply finrank_map_eq_of_disjoint_ker
    intro c hc hc0
    rw [LinearMap.mem_ker] at hc
    rw [Fintype.linearCombination_apply] at hc hc0
    exact hind c hc0 hc
  have eB : finrank F ((LinearMap.ker (Fintype.linearCombination F P)).map
      (Fintype.linearCombination F Q)) = finrank F (LinearMap.ker (Fintype.linearCombination F P)) := by
    apply finrank_map_eq_of_disjoint_ker
    intro c hc hc0
    rw [LinearMap.mem_ker] at hc
    rw [Fintype.linearCombination_apply] at hc hc0
    exact hind c hc hc0
  have iA := Submodule.finrank_mono leA
  have iB := Submodule.finrank_mono leB
  have oA := LinearMap.BilinForm.finrank_orthogonal hA
    (LinearMap.range (Fintype.linearCombination F P))
  have oB := LinearMap.BilinForm.finrank_orthogonal hB
    (LinearMap.range (Fintype.linearCombination F Q))
  have rA := LinearMap.finrank_range_add_finrank_ker (Fintype.linearCombination F P)
  have rB := LinearMap.finrank_range_add_finrank_ker (Fintype.linearCombination F Q)
  rw [Module.finrank_fintype_fun_eq_card] at rA rB
  have lA := Submodule.finrank_le (LinearMap.range (Fintype.linearCombination F P))
  have lB := Submodule.finrank_le (LinearMap.range (Fintype.linearCombination F Q))
  have hz : finrank F (ωA.orthogonal (LinearMap.range (Fintype.linearCombination F P)))
        = finrank F (LinearMap.ker (Fintype.linearCombination F Q)) := by omega
  refine ⟨?_, by omega, hz⟩
  apply Submodule.eq_of_le_of_finrank_eq leA
  rw [eA, hz]

omit [FiniteDimensional F WA] in
/-- Step 6: the kernel of the Gram map is the preimage of the orthogonal of the span. -/
lemma ker_gramMap_eq (ω : LinearMap.BilinForm F WA) (hr : ω.IsRefl) (P' : ι' → WA) :
    LinearMap.ker (gramMap ω P')
      = (ω.orthogonal (LinearMap.range (Fintype.linearCombination F P'))).comap
          (Fintype.linearCombination F P') := by
  ext c
  rw [LinearMap.mem_ker, Submodule.mem_comap, Fintype.range_linearCombination,
    mem_orthogonal_span_iff, Fintype.linearCombination_apply]
  have key : ∀ j, (gramMap ω P' c) j = ω (∑ i, c i • P' i) (P' j) := by
    intro j
    simp [gramMap, map_sum, LinearMap.sum_apply]
  constructor
  · rintro h _ ⟨j, rfl⟩
    rw [hr.eq_iff, ← key, h]
    rfl
  · intro h
    funext j
    change (gramMap ω P' c) j = 0
    rw [key, hr.eq_iff]
    exact h _ ⟨j, rfl⟩

theorem gram_kernel_dim
    (ωA : LinearMap.BilinForm F WA) (ωB : LinearMap.BilinForm F WB)
    (hA : ωA.Nondegenerate) (hB : ωB.Nondegenerate)
    (hAalt : ∀ x, ωA x x = 0)
    (P : ι → WA) (Q : ι → WB) (P' : ι' → WA)
    (hdim : finrank F WA + finrank F WB = 2 * Fintype.card ι)
    (hiso : ∀ i j, ωA (P i) (P j) + ωB (Q i) (Q j) = 0)
    (hind : ∀ c : ι → F, ∑ i, c i • P i = 0 → ∑ i, c i • Q i = 0 → c = 0)
    (h1 : ∀ i', ∃ i, P' i' = P i)
    (h2 : ∀ i, (∃ i', P i = P' i') ∨ Q i = 0 ∨ P i = 0) :
    finrank F (LinearMap.ker (gramMap ωA P')) + finrank F WA
      = Fintype.card ι' + 2 * finrank F (LinearMap.ker (Fintype.linearCombination F Q)) := by
  classical
  have hAa : ωA.IsAlt := hAalt
  have hr : ωA.IsRefl := hAa.isRefl
  obtain ⟨hZ, hrk, hz⟩ := map_ker_eq_orthogonal ωA ωB hA hB P Q hdim hiso hind
  set V := LinearMap.range (Fintype.linearCombination F P) with hV
  set VT := LinearMap.range (Fintype.linearCombination F P') with hVT
  set Z := ωA.orthogonal V with hZdef
  have hZV : Z ≤ V := by
    rw [← hZ]; exact LinearMap.map_le_range
  have hVTV : VT ≤ V := by
    rw [hVT, hV, Fintype.range_linearCombination, Fintype.range_linearCombination]
    apply Submodule.span_mono
    rintro _ ⟨i', rfl⟩
    obtain ⟨i, hi⟩ := h1 i'
    exact ⟨i, hi.symm⟩
  -- Step 4
  have hsup : VT ⊔ Z = V := by
    apply le_antisymm (sup_le hVTV hZV)
    rw [hV, Fintype.range_linearCombination, Submodule.span_le]
    rintro _ ⟨i, rfl⟩
    rcases h2 i with ⟨i', hi'⟩ | hQ | hP
    · apply Submodule.mem_sup_left
      rw [hVT, Fintype.range_linearCombination, hi']
      exact Submodule.subset_span ⟨i', rfl⟩
    · apply Submodule.mem_sup_right
      rw [← hZ]
      refine ⟨Pi.single i 1, ?_, ?_⟩
      · rw [SetLike.mem_coe, LinearMap.mem_ker]
        simp [Fintype.linearCombination_apply, Pi.single_apply, hQ]
      · simp [Fintype.linearCombination_apply, Pi.single_apply]
    · rw [hP]; exact Submodule.zero_mem _
  -- Step 5
  have hinf : VT ⊓ ωA.orthogonal VT = VT ⊓ Z := by
    apply le_antisymm
    · intro x hx
      obtain ⟨hxT, hxo⟩ := Submodule.mem_inf.1 hx
      refine Submodule.mem_inf.2 ⟨hxT, ?_⟩
      rw [hZdef, LinearMap.BilinForm.mem_orthogonal_iff]
      intro n hn
      rw [← hsup] at hn
      obtain ⟨t, ht, z, hz', rfl⟩ := Submodule.mem_sup.1 hn
      rw [map_add, LinearMap.add_apply]
      have e1 : ωA t x = 0 := (LinearMap.BilinForm.mem_orthogonal_iff.1 hxo) t ht
      have e2 : ωA z x = 0 := by
        rw [hr.eq_iff]
        exact (LinearMap.BilinForm.mem_orthogonal_iff.1 hz') x (hVTV hxT)
      rw [e1, e2, add_zero]
    · exact inf_le_inf_left _ (LinearMap.BilinForm.orthogonal_le hVTV)
  -- Step 6
  have hker := ker_gramMap_eq ωA hr P'
  have hcomap := finrank_comap_eq (Fintype.linearCombination F P') (ωA.orthogonal VT)
  rw [← hker, ← hVT, hinf] at hcomap
  have rT := LinearMap.finrank_range_add_finrank_ker (Fintype.linearCombination F P')
  rw [Module.finrank_fintype_fun_eq_card, ← hVT] at rT
  -- Step 7
  have hsi := Submodule.finrank_sup_add_finrank_inf_eq VT Z
  rw [hsup] at hsi
  omega

theorem gram_kernel_card
    {WA WB : Type*} [AddCommGroup WA] [Module (ZMod 2) WA] [FiniteDimensional (ZMod 2) WA]
    [AddCommGroup WB] [Module (ZMod 2) WB] [FiniteDimensional (ZMod 2) WB]
    {ι ι' : Type*} [Fintype ι] [Fintype ι']
    (ωA : LinearMap.BilinForm (ZMod 2) WA) (ωB : LinearMap.BilinForm (ZMod 2) WB)
    (hA : ωA.Nondegenerate) (hB : ωB.Nondegenerate)
    (hAalt : ∀ x, ωA x x = 0)
    (P : ι → WA) (Q : ι → WB) (P' : ι' → WA)
    (hdim : finrank (ZMod 2) WA + finrank (ZMod 2) WB = 2 * Fintype.card ι)
    (hiso : ∀ i j, ωA (P i) (P j) + ωB (Q i) (Q j) = 0)
    (hind : ∀ c : ι → ZMod 2, ∑ i, c i • P i = 0 → ∑ i, c i • Q i = 0 → c = 0)
    (h1 : ∀ i', ∃ i, P' i' = P i)
    (h2 : ∀ i, (∃ i', P i = P' i') ∨ Q i = 0 ∨ P i = 0) :
    Nat.card {c : ι' → ZMod 2 // ∀ j, ∑ i, c i * ωA (P' i) (P' j) = 0} * 2 ^ finrank (ZMod 2) WA
      = 2 ^ Fintype.card ι' * (Nat.card {c : ι → ZMod 2 // ∑ i, c i • Q i = 0}) ^ 2 := by
  have hdimeq := gram_kernel_dim ωA ωB hA hB hAalt P Q P' hdim hiso hind h1 h2
  have e1 : Nat.card {c : ι' → ZMod 2 // ∀ j, ∑ i, c i * ωA (P' i) (P' j) = 0}
      = Nat.card (LinearMap.ker (gramMap ωA P')) := by
    apply Nat.card_congr
    apply Equiv.subtypeEquivRight
    intro c
    rw [LinearMap.mem_ker, funext_iff]
    rfl
  have e2 : Nat.card {c : ι → ZMod 2 // ∑ i, c i • Q i = 0}
      = Nat.card (LinearMap.ker (Fintype.linearCombination (ZMod 2) Q)) := by
    apply Nat.card_congr
    apply Equiv.subtypeEquivRight
    intro c
    rw [LinearMap.mem_ker, Fintype.linearCombination_apply]
  have c1 : Nat.card (LinearMap.ker (gramMap ωA P'))
      = 2 ^ finrank (ZMod 2) (LinearMap.ker (gramMap ωA P')) := by
    rw [Module.natCard_eq_pow_finrank (K := ZMod 2) (V := LinearMap.ker (gramMap ωA P')),
      Nat.card_zmod]
  have c2 : Nat.card (LinearMap.ker (Fintype.linearCombination (ZMod 2) Q))
      = 2 ^ finrank (ZMod 2) (LinearMap.ker (Fintype.linearCombination (ZMod 2) Q)) := by
    rw [Module.natCard_eq_pow_finrank (K := ZMod 2)
      (V := LinearMap.ker (Fintype.linearCombination (ZMod 2) Q)), Nat.card_zmod]
  rw [e1, e2, c1, c2, ← pow_add, hdimeq, pow_add, ← pow_mul, mul_comm 2]

end PC.Symp

namespace PC
namespace PE
open Rank Z2 Cp Tr

/-! ## §2 bits as elements of `ZMod 2`; counting over `allBits` as a cardinality -/

def b2z (b : Bool) : ZMod 2 := if b then 1 else 0
def z2b (x : ZMod 2) : Bool := decide (x = 1)

theorem b2z_and (x y : Bool) : b2z (x && y) = b2z x * b2z y := by cases x <;> cases y <;> decide
theorem b2z_xor (x y : Bool) : b2z (x != y) = b2z x + b2z y := by cases x <;> cases y <;> decide
theorem b2z_false : b2z false = 0 := rfl
theorem b2z_eq_zero (x : Bool) : b2z x = 0 ↔ x = false := by cases x <;> decide
theorem z2b_b2z (x : Bool) : z2b (b2z x) = x := by cases x <;> decide
theorem b2z_z2b (x : ZMod 2) : b2z (z2b x) = x := by revert x; decide

theorem b2z_xsum (f : Nat → Bool) (n : Nat) : b2z (xsum f n) = ∑ k : Fin n, b2z (f k) := by
  induction n with
  | zero => simp [xsum, b2z]
  | succ n ih => rw [xsum, b2z_xor, ih, Fin.sum_univ_castSucc]; rfl

/-- a `ZMod 2` vector as a bit list -/
def ofV {n : Nat} (c : Fin n → ZMod 2) : List Bool := List.ofFn fun i => z2b (c i)

theorem length_ofV {n : Nat} (c : Fin n → ZMod 2) : (ofV c).length = n := by simp [ofV]

theorem getD_ofV {n : Nat} (c : Fin n → ZMod 2) (i : Fin n) : b2z ((ofV c).getD i false) = c i := by
  simp [ofV, List.getD_eq_getElem?_getD, b2z_z2b]

/-- a bit list as a `ZMod 2` vector -/
def toV (n : Nat) (l : List Bool) : Fin n → ZMod 2 := fun i => b2z (l.getD i false)

theorem toV_ofV {n : Nat} (c : Fin n → ZMod 2) : toV n (ofV c) = c := funext fun i => getD_ofV c i

theorem ofV_toV (n : Nat) (l : List Bool) (h : l.length = n) : ofV (toV n l) = l := by
  apply List.ext_getElem (by rw [length_ofV, h])
  intro i h1 h2
  simp [ofV, toV, z2b_b2z, List.getD_eq_getElem?_getD, List.getElem?_eq_getElem h2]

theorem cnt_eq_card (n : Nat) (p : List Bool → Bool) :
    cnt n p = Nat.card {c : Fin n → ZMod 2 // p (ofV c) = true} := by
  unfold cnt
  have hnd : ((allBits n).filter p).Nodup := (nodup_allBits n).filter _
  rw [← List.toFinset_card_of_nodup hnd, ← Nat.card_eq_finsetCard]
  apply Nat.card_congr
  refine ⟨fun l => ⟨toV n l.1, ?_⟩, fun c => ⟨ofV c.1, ?_⟩, ?_, ?_⟩
  · have := l.2
    rw [List.mem_toFinset, List.mem_filter, mem_allBits] at this
    rw [ofV_toV n l.1 this.1]; exact this.2
  · rw [List.mem_toFinset, List.mem_filter, mem_allBits]
    exact ⟨length_ofV c.1, c.2⟩
  · intro l
    have := l.2
    rw [List.mem_toFinset, List.mem_filter, mem_allBits] at this
    exact Subtype.ext (ofV_toV n l.1 this.1)
  · intro c
    exact Subtype.ext (toV_ofV c.1)

/-- `kernelCount` as the cardinality of the left kernel over `ZMod 2` -/
theorem kernelCount_eq_card (A : BMat) (nr nc : Nat) (h : A.length = nr) :
    kernelCount A nc = Nat.card {c : Fin nr → ZMod 2 // ∀ j, j < nc → ∑ i, c i * b2z (A.get i j) = 0} := by
  subst h
  rw [kernelCount_eq, cnt_eq_card]
  apply Nat.card_congr
  apply Equiv.subtypeEquivRight
  intro c
  rw [kerB_iff]
  apply forall_congr'; intro j
  apply forall_congr'; intro _
  rw [← b2z_eq_zero, mmul, b2z_xsum]
  simp only [cvec, b2z_and, getD_ofV]

/-! ## §3 Pauli strings on `n` qubits as vectors; the symplectic form -/

abbrev W (n : Nat) := Fin n → ZMod 2 × ZMod 2

def toVec (n : Nat) (g : PStr) : W n :=
  fun k => (b2z (g.getD k (false, false)).1, b2z (g.getD k (false, false)).2)

def fromVec {n : Nat} (v : W n) : PStr := List.ofFn fun k => (z2b (v k).1, z2b (v k).2)

theorem length_fromVec {n : Nat} (v : W n) : (fromVec v).length = n := by simp [fromVec]

theorem toVec_fromVec {n : Nat} (v : W n) : toVec n (fromVec v) = v := by
  funext k
  simp [toVec, fromVec, List.getD_eq_getElem?_getD, b2z_z2b]

theorem fromVec_toVec (n : Nat) (g : PStr) (h : g.length = n) : fromVec (toVec n g) = g := by
  apply List.ext_getElem (by rw [length_fromVec, h])
  intro i h1 h2
  simp [fromVec, toVec, z2b_b2z, List.getD_eq_getElem?_getD, List.getElem?_eq_getElem h2]

theorem toVec_injective (n : Nat) (a b : PStr) (ha : a.length = n) (hb : b.length = n)
    (h : toVec n a = toVec n b) : a = b := by
  rw [← fromVec_toVec n a ha, ← fromVec_toVec n b hb, h]

theorem toVec_xorS (n : Nat) (a b : PStr) (h : a.length = b.length) :
    toVec n (xorS a b) = toVec n a + toVec n b := by
  funext k
  simp only [toVec, Pi.add_apply, getD_xorS a b _ h, xorQ, b2z_xor, Prod.mk_add_mk]

theorem toVec_idStr (n k : Nat) : toVec n (idStr k) = 0 := by
  funext j
  simp [toVec, idStr, List.getD_eq_getElem?_getD, List.getElem?_replicate, b2z]
  split <;> simp

theorem toVec_cons_zero (n : Nat) (q : Q) (g : PStr) : toVec (n + 1) (q :: g) 0 = (b2z q.1, b2z q.2) := rfl
theorem toVec_cons_succ (n : Nat) (q : Q) (g : PStr) (k : Fin n) :
    toVec (n + 1) (q :: g) k.succ = toVec n g k := rfl

/-- the symplectic form `∑ₖ (u_k.z v_k.x − u_k.x v_k.z)` -/
def omega (n : Nat) : LinearMap.BilinForm (ZMod 2) (W n) :=
  LinearMap.mk₂ (ZMod 2) (fun u v => ∑ k, ((u k).2 * (v k).1 - (u k).1 * (v k).2))
    (fun u u' v => by
      simp only [Pi.add_apply, Prod.fst_add, Prod.snd_add]
      rw [← Finset.sum_add_distrib]; apply Finset.sum_congr rfl; intros; ring)
    (fun a u v => by
      simp only [Pi.smul_apply, Prod.smul_fst, Prod.smul_snd, smul_eq_mul, Finset.mul_sum]
      apply Finset.sum_congr rfl; intros; ring)
    (fun u v v' => by
      simp only [Pi.add_apply, Prod.fst_add, Prod.snd_add]
      rw [← Finset.sum_add_distrib]; apply Finset.sum_congr rfl; intros; ring)
    (fun a u v => by
      simp only [Pi.smul_apply, Prod.smul_fst, Prod.smul_snd, smul_eq_mul, Finset.mul_sum]
      apply Finset.sum_congr rfl; intros; ring)

theorem omega_apply (n : Nat) (u v : W n) :
    omega n u v = ∑ k, ((u k).2 * (v k).1 - (u k).1 * (v k).2) := rfl

theorem omega_self (n : Nat) (u : W n) : omega n u u = 0 := by
  rw [omega_apply]; apply Finset.sum_eq_zero; intros; ring

theorem omega_swap (n : Nat) (u v : W n) : omega n u v = - omega n v u := by
  rw [omega_apply, omega_apply, ← Finset.sum_neg_distrib]; apply Finset.sum_congr rfl; intros; ring

theorem omega_nondegenerate (n : Nat) : (omega n).Nondegenerate := by
  have hl : ∀ u : W n, (∀ v, omega n u v = 0) → u = 0 := by
    intro u h
    funext k
    have h1 := h (Pi.single k (1, 0))
    have h2 := h (Pi.single k (0, 1))
    rw [omega_apply, Finset.sum_eq_single k (by intro j _ hj; simp [Pi.single_eq_of_ne hj]) (by simp)] at h1 h2
    simp at h1 h2
    exact Prod.ext h2 h1
  refine ⟨hl, fun v h => hl v (fun u => ?_)⟩
  rw [omega_swap, h u, neg_zero]

theorem finrank_W (n : Nat) : Module.finrank (ZMod 2) (W n) = 2 * n := by
  rw [Module.finrank_pi_fintype]
  simp [Module.finrank_prod, Module.finrank_self, Nat.mul_comm]

theorem cast_b2i (x : Bool) : ((b2i x : Int) : ZMod 2) = b2z x := by cases x <;> simp [b2i, b2z]

theorem omega_toVec : ∀ (n : Nat) (a b : PStr), a.length = n → b.length = n →
    omega n (toVec n a) (toVec n b) = ((acqSum a b : Int) : ZMod 2)
  | 0, [], [], _, _ => by simp [omega_apply, acqSum]
  | n + 1, q :: qs, r :: rs, ha, hb => by
    have ih := omega_toVec n qs rs (by simpa using ha) (by simpa using hb)
    rw [omega_apply] at ih ⊢
    rw [Fin.sum_univ_succ, acqSum_cons, Int.cast_add, ← ih]
    simp only [toVec_cons_zero, toVec_cons_succ, acqQ, Int.cast_sub, Int.cast_mul, cast_b2i]

theorem omega_toVec_acq (n : Nat) (a b : PStr) (ha : a.length = n) (hb : b.length = n) :
    omega n (toVec n a) (toVec n b) = ((acq a b : Int) : ZMod 2) := by
  rw [omega_toVec n a b ha hb, acq]
  exact (ZMod.intCast_mod _ 2).symm

theorem b2z_acq_ne (n : Nat) (a b : PStr) (ha : a.length = n) (hb : b.length = n) :
    b2z (acq a b != 0) = omega n (toVec n a) (toVec n b) := by
  rw [omega_toVec_acq n a b ha hb]
  rcases acq_bit a b with h | h <;> rw [h] <;> decide

/-! ## §4 the three kernel counts as cardinalities of kernels of linear maps -/

theorem getD_flat_even : ∀ (g : PStr) (k : Nat), (flat g).getD (2 * k) false = (g.getD k (false, false)).1
  | [], k => by simp [flat]
  | q :: qs, 0 => rfl
  | q :: qs, k + 1 => by
    rw [show 2 * (k + 1) = 2 * k + 2 from by omega, getD_flat_add_two, getD_flat_even qs k]; simp

theorem getD_flat_odd : ∀ (g : PStr) (k : Nat), (flat g).getD (2 * k + 1) false = (g.getD k (false, false)).2
  | [], k => by simp [flat]
  | q :: qs, 0 => rfl
  | q :: qs, k + 1 => by
    rw [show 2 * (k + 1) + 1 = (2 * k + 1) + 2 from by omega, getD_flat_add_two, getD_flat_odd qs k]; simp

theorem get_map_rows {α : Type} (l : List α) (d : α) (f : α → List Bool) (i j : Nat) (hi : i < l.length) :
    BMat.get (l.map f) i j = (f (l.getD i d)).getD j false := by
  simp [BMat.get, List.getD_eq_getElem?_getD, List.getElem?_eq_getElem hi]

/-- kernel count of a matrix whose rows are flattened strings -/
theorem kernelCount_flat (rows : List PStr) (f : PStr → PStr) (n : Nat) :
    kernelCount (rows.map fun g => flat (f g)) (2 * n) =
      Nat.card {c : Fin rows.length → ZMod 2 // ∑ i, c i • toVec n (f (rows.getD i [])) = 0} := by
  rw [kernelCount_eq_card _ rows.length _ (by simp)]
  apply Nat.card_congr
  apply Equiv.subtypeEquivRight
  intro c
  have hget : ∀ (i : Fin rows.length) (j : Nat),
      BMat.get (rows.map fun g => flat (f g)) i j = (flat (f (rows.getD i []))).getD j false :=
    fun i j => get_map_rows rows [] _ i j i.2
  simp only [hget]
  constructor
  · intro h
    funext k
    have h0 := h (2 * k) (by omega)
    have h1 := h (2 * k + 1) (by omega)
    simp only [getD_flat_even, getD_flat_odd] at h0 h1
    apply Prod.ext
    · simpa [toVec, Finset.sum_apply, Prod.fst_sum] using h0
    · simpa [toVec, Finset.sum_apply, Prod.snd_sum] using h1
  · intro h j hj
    have hk := congrFun h ⟨j / 2, by omega⟩
    rcases Nat.mod_two_eq_zero_or_one j with e | e
    · have : j = 2 * (j / 2) := by omega
      rw [this]
      simp only [getD_flat_even]
      simpa [toVec, Finset.sum_apply, Prod.fst_sum] using congrArg Prod.fst hk
    · have : j = 2 * (j / 2) + 1 := by omega
      rw [this]
      simp only [getD_flat_odd]
      simpa [toVec, Finset.sum_apply, Prod.snd_sum] using congrArg Prod.snd hk

/-- kernel count of the anticommutation matrix of a list of strings of length `n` -/
theorem kernelCount_gram (l : List PStr) (f : PStr → PStr) (n : Nat) (hl : ∀ g ∈ l, (f g).length = n) :
    kernelCount ((acqMat (l.map f)).map fun row => row.map (· != 0)) l.length =
      Nat.card {c : Fin l.length → ZMod 2 // ∀ j : Fin l.length,
        ∑ i, c i * omega n (toVec n (f (l.getD i []))) (toVec n (f (l.getD j []))) = 0} := by
  rw [kernelCount_eq_card _ l.length _ (by simp [acqMat])]
  apply Nat.card_congr
  apply Equiv.subtypeEquivRight
  intro c
  have hmem : ∀ i : Fin l.length, l.getD i [] ∈ l := by
    intro i
    simp [List.getD_eq_getElem?_getD]
  have hget : ∀ (i j : Fin l.length),
      b2z (BMat.get ((acqMat (l.map f)).map fun row => row.map (· != 0)) i j) =
        omega n (toVec n (f (l.getD i []))) (toVec n (f (l.getD j []))) := by
    intro i j
    rw [acqMat_map, List.map_map, get_map_rows l [] _ i j i.2]
    simp only [Function.comp, List.map_map]
    rw [List.getD_eq_getElem?_getD, List.getElem?_map, List.getElem?_eq_getElem j.2]
    simp only [Option.map_some, Option.getD_some, Function.comp]
    rw [b2z_acq_ne n _ _ (hl _ (hmem i)) (hl _ (by simp))]
    simp [List.getD_eq_getElem?_getD]
  constructor
  · intro h j
    have := h j j.2
    simpa only [hget] using this
  · intro h j hj
    have e : ∀ i : Fin l.length, b2z (BMat.get ((acqMat (l.map f)).map fun row => row.map (· != 0)) i j) =
        omega n (toVec n (f (l.getD i []))) (toVec n (f (l.getD j []))) := fun i => hget i ⟨j, hj⟩
    simp only [e]
    exact h ⟨j, hj⟩

/-! ## §5 masks: region and complement -/

theorem maskCount_add_compl (m : List Bool) : maskCount m + maskCount (m.map (!·)) = m.length := by
  induction m with
  | nil => rfl
  | cons b t ih =>
    cases b
    · simp only [List.map_cons, Bool.not_false, maskCount_cons_false, maskCount_cons_true, List.length_cons]; omega
    · simp only [List.map_cons, Bool.not_true, maskCount_cons_false, maskCount_cons_true, List.length_cons]; omega

/-- a string is determined by its restrictions to a region and to the complement -/
theorem eq_of_gather_eq : ∀ (m : List Bool) (a b : PStr), a.length = m.length → b.length = m.length →
    gather m a = gather m b → gather (m.map (!·)) a = gather (m.map (!·)) b → a = b
  | [], [], [], _, _, _, _ => rfl
  | [], _ :: _, _, h, _, _, _ => by simp at h
  | [], [], _ :: _, _, h, _, _ => by simp at h
  | _ :: _, [], _, h, _, _, _ => by simp at h
  | _ :: _, _ :: _, [], _, h, _, _ => by simp at h
  | true :: ms, q :: qs, r :: rs, ha, hb, h1, h2 => by
    simp only [List.map_cons, Bool.not_true, gather_cons_true, gather_cons_false] at h1 h2
    have ht := eq_of_gather_eq ms qs rs (by simpa using ha) (by simpa using hb) (List.cons.inj h1).2 h2
    rw [(List.cons.inj h1).1, ht]
  | false :: ms, q :: qs, r :: rs, ha, hb, h1, h2 => by
    simp only [List.map_cons, Bool.not_false, gather_cons_true, gather_cons_false] at h1 h2
    have ht := eq_of_gather_eq ms qs rs (by simpa using ha) (by simpa using hb) h1 (List.cons.inj h2).2
    rw [(List.cons.inj h2).1, ht]

theorem toVec_of_anyBit_false (n : Nat) (g : PStr) (h : anyBit g = false) : toVec n g = 0 := by
  funext k
  have hq : ∀ q ∈ g, q = (false, false) := by
    intro q hq
    have := (List.any_eq_false.mp h) q hq
    obtain ⟨x, z⟩ := q
    cases x <;> cases z <;> simp_all
  have : g.getD k (false, false) = (false, false) := by
    rw [List.getD_eq_getElem?_getD]
    cases hk : g[k]? with
    | none => rfl
    | some q => exact hq q (List.mem_of_getElem? hk)
  simp only [toVec, this, b2z]
  rfl

theorem fromVec_add {n : Nat} (u v : W n) : fromVec (u + v) = xorS (fromVec u) (fromVec v) := by
  have hl : (fromVec u).length = (fromVec v).length := by rw [length_fromVec, length_fromVec]
  apply toVec_injective n _ _ (length_fromVec _) (by rw [length_xorS_eq _ _ hl, length_fromVec])
  rw [toVec_xorS n _ _ hl, toVec_fromVec, toVec_fromVec, toVec_fromVec]

/-- a vector on all qubits, split into its parts inside and outside the region (additive) -/
def splitHom (m : List Bool) (N : Nat) (hm : m.length = N) :
    W N →+ W (maskCount m) × W (maskCount (m.map (!·))) :=
  AddMonoidHom.mk' (fun v => (toVec _ (gather m (fromVec v)), toVec _ (gather (m.map (!·)) (fromVec v))))
    (fun u v => by
      have hl : ∀ (m' : List Bool), m'.length = N →
          (gather m' (fromVec u)).length = (gather m' (fromVec v)).length := by
        intro m' hm'
        rw [length_gather _ _ (by rw [length_fromVec, hm']), length_gather _ _ (by rw [length_fromVec, hm'])]
      rw [fromVec_add, gather_xorS, gather_xorS, toVec_xorS _ _ _ (hl m hm),
        toVec_xorS _ _ _ (hl _ (by rw [List.length_map, hm]))]
      rfl)

theorem splitHom_apply (m : List Bool) (N : Nat) (hm : m.length = N) (v : W N) :
    splitHom m N hm v = (toVec _ (gather m (fromVec v)), toVec _ (gather (m.map (!·)) (fromVec v))) := rfl

theorem splitHom_toVec (m : List Bool) (N : Nat) (hm : m.length = N) (g : PStr) (hg : g.length = N) :
    splitHom m N hm (toVec N g) = (toVec _ (gather m g), toVec _ (gather (m.map (!·)) g)) := by
  rw [splitHom_apply, fromVec_toVec N g hg]

theorem splitHom_injective (m : List Bool) (N : Nat) (hm : m.length = N) :
    Function.Injective (splitHom m N hm) := by
  intro u v h
  rw [splitHom_apply, splitHom_apply] at h
  have hlen : ∀ (w : W N) (m' : List Bool), m'.length = N → (gather m' (fromVec w)).length = maskCount m' :=
    fun w m' hm' => length_gather _ _ (by rw [length_fromVec, hm'])
  have hnm : (m.map (!·)).length = N := by rw [List.length_map, hm]
  have h1 := toVec_injective _ _ _ (hlen u m hm) (hlen v m hm) (congrArg Prod.fst h)
  have h2 := toVec_injective _ _ _ (hlen u _ hnm) (hlen v _ hnm) (congrArg Prod.snd h)
  have := eq_of_gather_eq m _ _ (by rw [length_fromVec, hm]) (by rw [length_fromVec, hm]) h1 h2
  rw [← toVec_fromVec u, ← toVec_fromVec v, this]

/-- a combination of strings vanishes as soon as its parts inside and outside the region vanish -/
theorem comb_zero_of_parts (m : List Bool) (N : Nat) (hm : m.length = N) {ι : Type} [Fintype ι]
    (g : ι → PStr) (hg : ∀ i, (g i).length = N) (c : ι → ZMod 2)
    (hP : ∑ i, c i • toVec (maskCount m) (gather m (g i)) = 0)
    (hQ : ∑ i, c i • toVec (maskCount (m.map (!·))) (gather (m.map (!·)) (g i)) = 0) :
    ∑ i, c i • toVec N (g i) = 0 := by
  apply splitHom_injective m N hm
  have hlin : splitHom m N hm (∑ i, c i • toVec N (g i)) = ∑ i, c i • splitHom m N hm (toVec N (g i)) := by
    have := map_sum ((splitHom m N hm).toZModLinearMap 2) (fun i => c i • toVec N (g i)) Finset.univ
    simp only [map_smul, AddMonoidHom.coe_toZModLinearMap] at this
    exact this
  rw [hlin, map_zero]
  simp only [splitHom_toVec m N hm _ (hg _)]
  apply Prod.ext
  · simpa [Prod.fst_sum] using hP
  · simpa [Prod.snd_sum] using hQ

/-! ## §6 the counting identity and the entropy formula -/

theorem getD_mem (l : List PStr) (i : Fin l.length) : l.getD i [] ∈ l := by
  simp [List.getD_eq_getElem?_getD]

theorem exists_getD_of_mem (l : List PStr) (g : PStr) (h : g ∈ l) : ∃ i : Fin l.length, g = l.getD i [] := by
  obtain ⟨i, hi, rfl⟩ := List.getElem_of_mem h
  exact ⟨⟨i, hi⟩, by rw [List.getD_eq_getElem?_getD, List.getElem?_eq_getElem hi]; rfl⟩

/-- **the counting identity** behind the entropy formula: with `K` the anticommutation matrix of the restrictions
    of the generators that straddle the region, `#ker K · 2^(2|A|) = 2^(#rows) · (#supported)^2` -/
theorem gram_count (gs : List PStr) (N : Nat) (m : List Bool) (hN : gs.length = N)
    (hlen : ∀ g ∈ gs, g.length = N) (hc : ∀ a ∈ gs, ∀ b ∈ gs, acq a b = 0)
    (hind : kernelCount (gs.map flat) (2 * N) = 1) (hm : m.length = N)
    (across : List PStr)
    (hac : across = gs.filter fun g => anyBit (gather m g) && anyBit (gather (m.map (!·)) g)) :
    kernelCount ((acqMat (across.map (gather m))).map fun row => row.map (· != 0)) across.length
        * 2 ^ (2 * maskCount m)
      = 2 ^ across.length * (supportedCount gs m) ^ 2 := by
  have hnm : (m.map (!·)).length = N := by rw [List.length_map, hm]
  have hgA : ∀ g ∈ gs, (gather m g).length = maskCount m :=
    fun g hg => length_gather _ _ (Nat.le_of_eq (by rw [hlen g hg, hm]))
  have hgB : ∀ g ∈ gs, (gather (m.map (!·)) g).length = maskCount (m.map (!·)) :=
    fun g hg => length_gather _ _ (Nat.le_of_eq (by rw [hlen g hg, hnm]))
  have hsub : ∀ g ∈ across, g ∈ gs := fun g hg => by rw [hac] at hg; exact (List.mem_filter.mp hg).1
  have key := Symp.gram_kernel_card (omega (maskCount m)) (omega (maskCount (m.map (!·))))
    (omega_nondegenerate _) (omega_nondegenerate _) (omega_self _)
    (fun i : Fin gs.length => toVec (maskCount m) (gather m (gs.getD i [])))
    (fun i : Fin gs.length => toVec (maskCount (m.map (!·))) (gather (m.map (!·)) (gs.getD i [])))
    (fun i : Fin across.length => toVec (maskCount m) (gather m (across.getD i [])))
    (by rw [finrank_W, finrank_W, Fintype.card_fin, hN, ← hm, ← maskCount_add_compl m]; omega)
    (by
      intro i j
      have hi := getD_mem gs i
      have hj := getD_mem gs j
      rw [omega_toVec _ _ _ (hgA _ hi) (hgA _ hj), omega_toVec _ _ _ (hgB _ hi) (hgB _ hj), ← Int.cast_add,
        ← acqSum_split m _ _ (Nat.le_of_eq (by rw [hlen _ hi, hm]))]
      have := hc _ hi _ hj
      rw [acq] at this
      rw [← ZMod.intCast_mod _ 2, Nat.cast_ofNat, this]; rfl)
    (by
      intro c hP hQ
      have h0 := comb_zero_of_parts m N hm (fun i : Fin gs.length => gs.getD i [])
        (fun i => hlen _ (getD_mem gs i)) c hP hQ
      have hk := kernelCount_flat gs id N
      simp only [id] at hk
      rw [hind] at hk
      obtain ⟨hs, _⟩ := Nat.card_eq_one_iff_unique.mp hk.symm
      have := @Subsingleton.elim _ hs ⟨c, h0⟩ ⟨0, by simp⟩
      exact congrArg Subtype.val this)
    (by
      intro i'
      obtain ⟨i, hi⟩ := exists_getD_of_mem gs _ (hsub _ (getD_mem across i'))
      exact ⟨i, by rw [hi]⟩)
    (by
      intro i
      by_cases hp : (anyBit (gather m (gs.getD i [])) && anyBit (gather (m.map (!·)) (gs.getD i []))) = true
      · have : gs.getD i [] ∈ across := by rw [hac]; exact List.mem_filter.mpr ⟨getD_mem gs i, hp⟩
        obtain ⟨i', hi'⟩ := exists_getD_of_mem across _ this
        exact Or.inl ⟨i', by rw [← hi']⟩
      · rw [Bool.and_eq_true, not_and_or] at hp
        rcases hp with hp | hp
        · exact Or.inr (Or.inr (toVec_of_anyBit_false _ _ (by simpa using hp)))
        · exact Or.inr (Or.inl (toVec_of_anyBit_false _ _ (by simpa using hp))))
  rw [finrank_W, Fintype.card_fin] at key
  rw [kernelCount_gram across (gather m) (maskCount m) (fun g hg => hgA g (hsub g hg))]
  have hs : supportedCount gs m = Nat.card {c : Fin gs.length → ZMod 2 //
      ∑ i, c i • toVec (maskCount (m.map (!·))) (gather (m.map (!·)) (gs.getD i [])) = 0} :=
    kernelCount_flat gs (gather (m.map (!·))) (maskCount (m.map (!·)))
  rw [hs]
  exact key

theorem isMat_gram (l : List PStr) :
    IsMat ((acqMat l).map fun row => row.map (· != 0)) l.length l.length := by
  refine ⟨by simp [acqMat], ?_⟩
  intro row hrow
  simp only [acqMat, List.map_map, List.mem_map] at hrow
  obtain ⟨a, _, rfl⟩ := hrow
  simp

/-- **the pure branch of `stabilizer_entropy`** computes `|A| − log₂ #{group elements supported in A}` -/
theorem entropy_pure (gs : List PStr) (N : Nat) (m : List Bool) (hN : gs.length = N)
    (hlen : ∀ g ∈ gs, g.length = N) (hc : ∀ a ∈ gs, ∀ b ∈ gs, acq a b = 0)
    (hind : kernelCount (gs.map flat) (2 * N) = 1) (hm : m.length = N) :
    0 ≤ entropy gs N m ∧ supportedCount gs m * 2 ^ (entropy gs N m).toNat = 2 ^ maskCount m := by
  have hnm : (m.map (!·)).length = N := by rw [List.length_map, hm]
  have hcount := gram_count gs N m hN hlen hc hind hm _ rfl
  set across := gs.filter fun g => anyBit (gather m g) && anyBit (gather (m.map (!·)) g) with hac
  have hk := z2rank_kernel _ _ _ (isMat_gram (across.map (gather m)))
  rw [List.length_map] at hk
  have hsup : IsMat (gs.map fun g => flat (gather (m.map (!·)) g)) N (2 * maskCount (m.map (!·))) := by
    refine ⟨by rw [List.length_map, hN], ?_⟩
    intro row hrow
    obtain ⟨g, hg, rfl⟩ := List.mem_map.mp hrow
    rw [length_flat', length_gather _ _ (Nat.le_of_eq (by rw [hlen g hg, hnm]))]
  have hq := z2rank_kernel _ _ _ hsup
  have hsc : supportedCount gs m = 2 ^ (N - z2rank (gs.map fun g => flat (gather (m.map (!·)) g))
      (2 * maskCount (m.map (!·)))) := hq.2
  have hent : entropy gs N m =
      ((z2rank ((acqMat (across.map (gather m))).map fun row => row.map (· != 0)) across.length : Nat) : Int) / 2 := by
    unfold entropy
    simp only [hN, if_true, List.length_map]
    rfl
  generalize z2rank ((acqMat (across.map (gather m))).map fun row => row.map (· != 0)) across.length = r
    at hk hent hcount
  generalize z2rank (gs.map fun g => flat (gather (m.map (!·)) g)) (2 * maskCount (m.map (!·))) = rq at hq hsc
  rw [hk.2, hsc, ← Nat.pow_mul, ← Nat.pow_add, ← Nat.pow_add] at hcount
  have hexp := Nat.pow_right_injective (Nat.le_refl 2) hcount
  have hr2 : r = 2 * (maskCount m - (N - rq)) ∧ N - rq ≤ maskCount m := by
    have := hk.1
    omega
  rw [hent, hsc]
  have htn : ((r : Int) / 2).toNat = maskCount m - (N - rq) := by omega
  refine ⟨by omega, ?_⟩
  rw [htn, ← Nat.pow_add]
  congr 1
  omega

end PE
end PC
