import PyCliffordModel.Properties.C18b
import PyCliffordModel.Properties.C05b
/-! # Proofs/RccLemmas — helper lemmas for the random-circuit constructors and for running circuits of random gates -/
namespace PC
namespace Rcc

/-! ## shape of a circuit built by `take` from gates without generator or map -/

/-- a gate layer that has not been compiled -/
def RL (L : Layer) : Prop := ∃ gs, L = .gates gs none none

/-- an uncompiled unitary circuit of uncompiled gate layers -/
def Shape (N : Nat) (c : Circ) : Prop :=
  c.N = N ∧ c.unitary = true ∧ c.fmap = none ∧ c.bmap = none ∧ c.layers ≠ [] ∧ ∀ L ∈ c.layers, RL L

theorem allGates_eq (c : Circ) : c.allGates = Ci.flatGates c.layers := by
  unfold Circ.allGates Ci.flatGates
  congr 1

theorem RL_plain (L : Layer) (h : RL L) : Ci.PlainL L := by
  obtain ⟨gs, rfl⟩ := h
  exact ⟨gs, none, rfl⟩

theorem RL_append (L : Layer) (g : Gate) (h : RL L) : RL (L.append g) := by
  obtain ⟨gs, rfl⟩ := h
  exact ⟨gs ++ [g], rfl⟩

theorem takeRev_RL (g : Gate) : ∀ Ls : List Layer, (∀ X ∈ Ls, RL X) → ∀ X ∈ takeRev Ls g, RL X
  | [], _ => by
    intro X hX
    simp only [takeRev, List.mem_singleton] at hX
    exact ⟨[g], hX⟩
  | [L], h => by
    intro X hX
    simp only [takeRev, List.mem_singleton] at hX
    subst hX
    exact RL_append L g (h L (by simp))
  | L :: P :: rest, h => by
    have stop : ∀ X ∈ L.append g :: P :: rest, RL X := by
      intro X hX
      rcases List.mem_cons.1 hX with rfl | hX
      · exact RL_append L g (h L (by simp))
      · exact h X (List.mem_cons_of_mem _ hX)
    unfold takeRev
    split
    · exact stop
    · split
      · intro X hX
        rcases List.mem_cons.1 hX with rfl | hX
        · exact h X (by simp)
        · exact takeRev_RL g (P :: rest) (fun Y hY => h Y (List.mem_cons_of_mem _ hY)) X hX
      · exact stop

/-- `take` of a gate on in-range qubits succeeds, keeps the shape and inserts exactly that gate -/
theorem take_shape (N : Nat) (c : Circ) (g : Gate) (hS : Shape N c) (h0 : g.qubits ≠ [])
    (hq : ∀ q ∈ g.qubits, q < N) :
    ∃ c', c.take g = .ok c' ∧ Shape N c' ∧
      ∃ A B, Ci.flatGates c.layers = A ++ B ∧ Ci.flatGates c'.layers = A ++ g :: B := by
  obtain ⟨hN, hu, hf, hb, hl, hR⟩ := hS
  have hNpos : 0 < N := by
    cases hqs : g.qubits with
    | nil => exact absurd hqs h0
    | cons q qs => have := hq q (by rw [hqs]; simp); omega
  have h1 : g.qubits.isEmpty = false := by
    cases hqs : g.qubits with
    | nil => exact absurd hqs h0
    | cons q qs => rfl
  have h2 : ¬ (listMax g.qubits ≥ c.N) := by
    have := Dg.listMax_lt N hNpos g.qubits hq
    omega
  unfold Circ.take
  rw [h1]
  simp only [Bool.false_eq_true, if_false, if_neg h2]
  cases hrev : c.layers.reverse with
  | nil =>
    have : c.layers = [] := by simpa using hrev
    exact absurd this hl
  | cons L rest =>
    have hlay : c.layers = (L :: rest).reverse := by rw [← hrev, List.reverse_reverse]
    have hRr : ∀ X ∈ L :: rest, RL X := by
      intro X hX; apply hR; rw [hlay]; exact List.mem_reverse.2 hX
    dsimp only
    split
    · rename_i hc
      rw [Bool.and_eq_true] at hc
      obtain ⟨_, A, B, e1, e2, _⟩ := Ci.takeRev_spec g rest L hc.2 (fun X hX => RL_plain X (hRr X hX))
      rw [← hlay] at e1
      refine ⟨_, rfl, ⟨hN, hu, hf, hb, ?_, ?_⟩, A, B, e1, e2⟩
      · simp only [ne_eq, List.reverse_eq_nil_iff]
        exact Dg.takeRev_ne_nil g _
      · intro X hX
        exact takeRev_RL g (L :: rest) hRr X (List.mem_reverse.1 hX)
    · refine ⟨_, rfl, ⟨hN, hu, hf, hb, by simp, ?_⟩, Ci.flatGates c.layers, [], by simp, ?_⟩
      · intro X hX
        rcases List.mem_append.1 hX with hX | hX
        · exact hR X hX
        · simp only [List.mem_singleton] at hX
          exact ⟨[g], hX⟩
      · rw [Ci.flatGates_append]
        simp [Ci.flatGates, Ci.layerGates]

theorem fold_shape (N : Nat) : ∀ (qss : List (List Nat)) (c0 : Circ), Shape N c0 →
    (∀ qs ∈ qss, qs ≠ [] ∧ ∀ q ∈ qs, q < N) →
    ∃ c, qss.foldlM (fun (c : Circ) qs => c.take { qubits := qs }) c0 = .ok c ∧ Shape N c ∧
      (Ci.flatGates c.layers).length = (Ci.flatGates c0.layers).length + qss.length ∧
      ∀ h ∈ Ci.flatGates c.layers, h ∈ Ci.flatGates c0.layers ∨ ∃ qs ∈ qss, h = { qubits := qs } := by
  intro qss
  induction qss with
  | nil =>
    intro c0 hS _
    exact ⟨c0, rfl, hS, rfl, fun h hh => Or.inl hh⟩
  | cons qs qss ih =>
    intro c0 hS hq
    obtain ⟨h0, hlt⟩ := hq qs (by simp)
    obtain ⟨c1, ht, hS1, A, B, e0, e1⟩ := take_shape N c0 { qubits := qs } hS h0 hlt
    obtain ⟨c, hf, hSc, hlen, hmem⟩ := ih c1 hS1 (fun x hx => hq x (by simp [hx]))
    refine ⟨c, ?_, hSc, ?_, ?_⟩
    · rw [List.foldlM_cons, ht]
      exact hf
    · rw [hlen, e0, e1]
      simp only [List.length_append, List.length_cons]
      omega
    · intro h hh
      rcases hmem h hh with h1 | ⟨x, hx, rfl⟩
      · rw [e1] at h1
        rw [e0]
        rcases List.mem_append.1 h1 with h2 | h2
        · exact Or.inl (List.mem_append_left _ h2)
        · rcases List.mem_cons.1 h2 with rfl | h2
          · exact Or.inr ⟨qs, by simp, rfl⟩
          · exact Or.inl (List.mem_append_right _ h2)
      · exact Or.inr ⟨x, by simp [hx], rfl⟩

theorem shape_init (N : Nat) : Shape N { N := N } := by
  refine ⟨rfl, rfl, rfl, rfl, by simp, ?_⟩
  intro L hL
  simp only [List.mem_singleton] at hL
  exact ⟨[], hL⟩

/-- **`rccOf`**: non-empty in-range qubit lists give an uncompiled circuit with exactly one bare gate per list -/
theorem rccOf_spec (N : Nat) (qss : List (List Nat)) (hq : ∀ qs ∈ qss, qs ≠ [] ∧ ∀ q ∈ qs, q < N) :
    ∃ c, rccOf N qss = .ok c ∧ Shape N c ∧ c.allGates.length = qss.length ∧
      ∀ h ∈ c.allGates, ∃ qs ∈ qss, h = { qubits := qs } := by
  obtain ⟨c, hf, hS, hlen, hmem⟩ := fold_shape N qss { N := N } (shape_init N) hq
  refine ⟨c, hf, hS, ?_, ?_⟩
  · rw [allGates_eq, hlen]
    simp [Ci.flatGates, Ci.layerGates]
  · intro h hh
    rw [allGates_eq] at hh
    rcases hmem h hh with h1 | h1
    · simp [Ci.flatGates, Ci.layerGates] at h1
    · exact h1

/-! ## the qubit lists of the three constructors -/

theorem filter_parity_length (b : Nat) (hb : b < 2) : ∀ k : Nat,
    ((List.range (2 * k)).filter fun i => i % 2 = b).length = k
  | 0 => rfl
  | k + 1 => by
    have e : 2 * (k + 1) = (2 * k).succ.succ := by omega
    rw [e, List.range_succ, List.range_succ, List.append_assoc, List.filter_append, List.length_append,
      filter_parity_length b hb k]
    have h1 : (2 * k) % 2 = 0 := by omega
    have h2 : (2 * k).succ % 2 = 1 := by omega
    rcases (by omega : b = 0 ∨ b = 1) with rfl | rfl
    · simp [List.filter, h1, h2]
    · simp [List.filter, h1, h2]

theorem mem_brickwallPairs (N depth : Nat) (qs : List Nat) (h : qs ∈ brickwallPairs N depth) :
    ∃ i, i < N ∧ qs = [i, (i + 1) % N] := by
  unfold brickwallPairs at h
  obtain ⟨l, _, hl⟩ := List.mem_flatMap.1 h
  obtain ⟨i, hi, rfl⟩ := List.mem_map.1 hl
  exact ⟨i, List.mem_range.1 (List.mem_filter.1 hi).1, rfl⟩

theorem length_brickwallPairs (N : Nat) (hN : N % 2 = 0) : ∀ depth : Nat,
    (brickwallPairs N depth).length = depth * (N / 2)
  | 0 => by simp [brickwallPairs]
  | d + 1 => by
    have ih := length_brickwallPairs N hN d
    unfold brickwallPairs at ih ⊢
    rw [List.range_succ, List.flatMap_append, List.length_append, ih]
    have e : N = 2 * (N / 2) := by omega
    have hf : ((List.range N).filter fun i => i % 2 = d % 2).length = N / 2 := by
      conv => lhs; rw [e]
      exact filter_parity_length (d % 2) (by omega) (N / 2)
    simp only [List.flatMap_cons, List.flatMap_nil, List.append_nil, List.length_map, hf]
    rw [Nat.succ_mul]

theorem pair_props (N i : Nat) (hN : N % 2 = 0) (hi : i < N) :
    [i, (i + 1) % N] ≠ [] ∧ (∀ q ∈ [i, (i + 1) % N], q < N) ∧ [i, (i + 1) % N].Nodup := by
  have hpos : 0 < N := by omega
  have hmod : (i + 1) % N < N := Nat.mod_lt _ hpos
  have hne : i ≠ (i + 1) % N := by
    by_cases h : i + 1 < N
    · rw [Nat.mod_eq_of_lt h]; omega
    · have e : i + 1 = N := by omega
      rw [e, Nat.mod_self]; omega
  refine ⟨by simp, ?_, ?_⟩
  · intro q hq
    simp only [List.mem_cons, List.not_mem_nil, or_false] at hq
    rcases hq with rfl | rfl
    · exact hi
    · exact hmod
  · simp [hne]

/-! ## running gates that draw their map from the supply -/

/-- a bare `m`-qubit gate on `N` qubits: no generator, no maps, non-empty duplicate-free in-range qubit list -/
def RG (N m : Nat) (g : Gate) : Prop :=
  g.gen = none ∧ g.fmap = none ∧ g.bmap = none ∧ g.qubits.length = m ∧ g.qubits ≠ [] ∧ (∀ q ∈ g.qubits, q < N) ∧
    g.qubits.Nodup

theorem masked_inv (N m : Nat) (g : Gate) (M : CMap) (rows : List Pauli) (r : Nat) (hg : RG N m g)
    (hM : ValidMap M m) (h : TabInv ⟨rows, r⟩ N) :
    TabInv ⟨rows.map (transformMasked M (maskOf g.qubits N)), r⟩ N := by
  obtain ⟨_, _, _, hm, _, hq, hn⟩ := hg
  exact C05_transformMasked_inv ⟨rows, r⟩ N M _ h (Ci.length_maskOf g.qubits N)
    (by rw [Ci.maskCount_maskOf g.qubits N hn hq, hm]; exact hM)

theorem gate_forward_nil (N m : Nat) (g : Gate) (rows : List Pauli) (hg : RG N m g) :
    g.forward N rows [] = .error .coin := by
  obtain ⟨hgen, hf, hb, _⟩ := hg
  simp only [Gate.forward, hgen, hf, hb]

theorem gate_forward_cons (N m : Nat) (g : Gate) (M : CMap) (rest : List CMap) (rows : List Pauli) (r : Nat)
    (hg : RG N m g) (hM : ValidMap M m) (h : TabInv ⟨rows, r⟩ N) :
    ∃ rows', g.forward N rows (M :: rest) = .ok (g, rows', rest) ∧ TabInv ⟨rows', r⟩ N := by
  have hg' := hg
  obtain ⟨hgen, hf, hb, hm, h0, hq, hn⟩ := hg
  have hmask := Ci.qMask_eq g.qubits N h0 hq
  by_cases hN : g.n = N
  · refine ⟨rows.map (transform M), ?_, ?_⟩
    · simp only [Gate.forward, hgen, hf, hb, if_pos hN]
    · have hmN : m = N := by rw [← hm]; exact hN
      exact C05_transform_inv ⟨rows, r⟩ N M h (hmN ▸ hM)
  · refine ⟨rows.map (transformMasked M (maskOf g.qubits N)), ?_, masked_inv N m g M rows r hg' hM h⟩
    simp only [Gate.forward, hgen, hf, hb, if_neg hN, hmask]

theorem gate_backward_nil (N m : Nat) (g : Gate) (rows : List Pauli) (hg : RG N m g) :
    g.backward N rows [] = .error .coin := by
  obtain ⟨hgen, hf, hb, _⟩ := hg
  simp only [Gate.backward, hgen, hf, hb]

theorem gate_backward_cons (N m : Nat) (g : Gate) (M : CMap) (rest : List CMap) (rows : List Pauli) (r : Nat)
    (hg : RG N m g) (hM : ValidMap M m) (h : TabInv ⟨rows, r⟩ N) :
    ∃ rows', g.backward N rows (M :: rest) = .ok (g, rows', rest) ∧ TabInv ⟨rows', r⟩ N := by
  have hg' := hg
  obtain ⟨hgen, hf, hb, hm, h0, hq, hn⟩ := hg
  have hmask := Ci.qMask_eq g.qubits N h0 hq
  refine ⟨rows.map (transformMasked M (maskOf g.qubits N)), ?_, masked_inv N m g M rows r hg' hM h⟩
  simp only [Gate.backward, hgen, hf, hb, hmask]

theorem gatesForward_run (N m : Nat) : ∀ (gs : List Gate) (rows : List Pauli) (r : Nat) (rnd : List CMap),
    (∀ g ∈ gs, RG N m g) → (∀ M ∈ rnd, ValidMap M m) → gs.length ≤ rnd.length → TabInv ⟨rows, r⟩ N →
    ∃ rows', gatesForward N gs rows rnd = .ok (gs, rows', rnd.drop gs.length) ∧ TabInv ⟨rows', r⟩ N
  | [], rows, r, rnd, _, _, _, h => ⟨rows, rfl, h⟩
  | g :: gs, rows, r, [], _, _, hl, _ => by simp at hl
  | g :: gs, rows, r, M :: rest, hg, hr, hl, h => by
    obtain ⟨rows1, e1, h1⟩ := gate_forward_cons N m g M rest rows r (hg g (by simp)) (hr M (by simp)) h
    obtain ⟨rows2, e2, h2⟩ := gatesForward_run N m gs rows1 r rest (fun x hx => hg x (by simp [hx]))
      (fun x hx => hr x (by simp [hx])) (by simpa using hl) h1
    refine ⟨rows2, ?_, h2⟩
    unfold gatesForward
    rw [e1]
    dsimp only
    rw [e2]
    rfl

theorem gatesForward_short (N m : Nat) : ∀ (gs : List Gate) (rows : List Pauli) (r : Nat) (rnd : List CMap),
    (∀ g ∈ gs, RG N m g) → (∀ M ∈ rnd, ValidMap M m) → rnd.length < gs.length → TabInv ⟨rows, r⟩ N →
    gatesForward N gs rows rnd = .error .coin
  | [], rows, r, rnd, _, _, hl, _ => by simp at hl
  | g :: gs, rows, r, [], hg, _, _, _ => by
    unfold gatesForward
    rw [gate_forward_nil N m g rows (hg g (by simp))]
  | g :: gs, rows, r, M :: rest, hg, hr, hl, h => by
    obtain ⟨rows1, e1, h1⟩ := gate_forward_cons N m g M rest rows r (hg g (by simp)) (hr M (by simp)) h
    have e2 := gatesForward_short N m gs rows1 r rest (fun x hx => hg x (by simp [hx]))
      (fun x hx => hr x (by simp [hx])) (by simpa using hl) h1
    unfold gatesForward
    rw [e1]
    dsimp only
    rw [e2]

theorem gatesBackward_run (N m : Nat) : ∀ (gs : List Gate) (rows : List Pauli) (r : Nat) (rnd : List CMap),
    (∀ g ∈ gs, RG N m g) → (∀ M ∈ rnd, ValidMap M m) → gs.length ≤ rnd.length → TabInv ⟨rows, r⟩ N →
    ∃ rows', gatesBackward N gs rows rnd = .ok (gs, rows', rnd.drop gs.length) ∧ TabInv ⟨rows', r⟩ N
  | [], rows, r, rnd, _, _, _, h => ⟨rows, rfl, h⟩
  | g :: gs, rows, r, [], _, _, hl, _ => by simp at hl
  | g :: gs, rows, r, M :: rest, hg, hr, hl, h => by
    obtain ⟨rows1, e1, h1⟩ := gate_backward_cons N m g M rest rows r (hg g (by simp)) (hr M (by simp)) h
    obtain ⟨rows2, e2, h2⟩ := gatesBackward_run N m gs rows1 r rest (fun x hx => hg x (by simp [hx]))
      (fun x hx => hr x (by simp [hx])) (by simpa using hl) h1
    refine ⟨rows2, ?_, h2⟩
    unfold gatesBackward
    rw [e1]
    dsimp only
    rw [e2]
    rfl

/-! ## running uncompiled layers of such gates -/

theorem mem_drop {α} (l : List α) (k : Nat) (x : α) (h : x ∈ l.drop k) : x ∈ l := List.mem_of_mem_drop h

theorem layersForward_run (N m : Nat) (s : Bool) (coins : List Bool) : ∀ (Ls : List Layer) (rows : List Pauli) (r : Nat)
    (rnd : List CMap), (∀ L ∈ Ls, RL L) → (∀ g ∈ Ci.flatGates Ls, RG N m g) → (∀ M ∈ rnd, ValidMap M m) →
    (Ci.flatGates Ls).length ≤ rnd.length → TabInv ⟨rows, r⟩ N →
    ∃ rows', layersForward N Ls ⟨⟨rows, r, s⟩, coins, rnd⟩ =
        .ok (Ls, ⟨⟨rows', r, s⟩, coins, rnd.drop (Ci.flatGates Ls).length⟩, [], 0) ∧ TabInv ⟨rows', r⟩ N := by
  intro Ls
  induction Ls with
  | nil => intro rows r rnd _ _ _ _ h; exact ⟨rows, rfl, h⟩
  | cons L Ls ih =>
    intro rows r rnd hL hg hr hl h
    obtain ⟨gs, rfl⟩ := hL L (by simp)
    rw [Ci.flatGates_cons] at hl hg
    simp only [Ci.layerGates, List.length_append] at hl
    have hgs : ∀ g ∈ gs, RG N m g := fun g hx => hg g (List.mem_append_left _ hx)
    obtain ⟨rows1, e1, h1⟩ := gatesForward_run N m gs rows r rnd hgs hr (by omega) h
    obtain ⟨rows2, e2, h2⟩ := ih rows1 r (rnd.drop gs.length) (fun X hX => hL X (by simp [hX]))
      (fun g hx => hg g (List.mem_append_right _ hx)) (fun M hM => hr M (List.mem_of_mem_drop hM))
      (by rw [List.length_drop]; omega) h1
    refine ⟨rows2, ?_, h2⟩
    have eL : Layer.forward N (.gates gs none none) ⟨⟨rows, r, s⟩, coins, rnd⟩ =
        .ok (.gates gs none none, ⟨⟨rows1, r, s⟩, coins, rnd.drop gs.length⟩) := by
      simp only [Layer.forward, e1]
    unfold layersForward
    rw [eL]
    dsimp only
    rw [e2]
    dsimp only
    rw [Ci.flatGates_cons, List.drop_drop]
    simp only [Ci.layerGates, List.length_append]

theorem layersForward_short (N m : Nat) (s : Bool) (coins : List Bool) : ∀ (Ls : List Layer) (rows : List Pauli) (r : Nat)
    (rnd : List CMap), (∀ L ∈ Ls, RL L) → (∀ g ∈ Ci.flatGates Ls, RG N m g) → (∀ M ∈ rnd, ValidMap M m) →
    rnd.length < (Ci.flatGates Ls).length → TabInv ⟨rows, r⟩ N →
    layersForward N Ls ⟨⟨rows, r, s⟩, coins, rnd⟩ = .error .coin := by
  intro Ls
  induction Ls with
  | nil => intro rows r rnd _ _ _ hl _; simp [Ci.flatGates] at hl
  | cons L Ls ih =>
    intro rows r rnd hL hg hr hl h
    obtain ⟨gs, rfl⟩ := hL L (by simp)
    rw [Ci.flatGates_cons] at hl hg
    simp only [Ci.layerGates, List.length_append] at hl
    have hgs : ∀ g ∈ gs, RG N m g := fun g hx => hg g (List.mem_append_left _ hx)
    by_cases hc : rnd.length < gs.length
    · have e1 := gatesForward_short N m gs rows r rnd hgs hr hc h
      have eL : Layer.forward N (.gates gs none none) ⟨⟨rows, r, s⟩, coins, rnd⟩ = .error .coin := by
        simp only [Layer.forward, e1]
      unfold layersForward
      rw [eL]
    · obtain ⟨rows1, e1, h1⟩ := gatesForward_run N m gs rows r rnd hgs hr (by omega) h
      have e2 := ih rows1 r (rnd.drop gs.length) (fun X hX => hL X (by simp [hX]))
        (fun g hx => hg g (List.mem_append_right _ hx)) (fun M hM => hr M (List.mem_of_mem_drop hM))
        (by rw [List.length_drop]; omega) h1
      have eL : Layer.forward N (.gates gs none none) ⟨⟨rows, r, s⟩, coins, rnd⟩ =
          .ok (.gates gs none none, ⟨⟨rows1, r, s⟩, coins, rnd.drop gs.length⟩) := by
        simp only [Layer.forward, e1]
      unfold layersForward
      rw [eL]
      dsimp only
      rw [e2]

theorem layersBackward_run (N m : Nat) (s : Bool) (coins : List Bool) : ∀ (Ls : List Layer) (rows : List Pauli) (r : Nat)
    (rnd : List CMap) (rec : List Int), (∀ L ∈ Ls, RL L) → (∀ g ∈ Ci.flatGates Ls, RG N m g) →
    (∀ M ∈ rnd, ValidMap M m) → (Ci.flatGates Ls).length ≤ rnd.length → TabInv ⟨rows, r⟩ N →
    ∃ rows', layersBackward N Ls ⟨⟨rows, r, s⟩, coins, rnd⟩ rec =
        .ok (Ls, ⟨⟨rows', r, s⟩, coins, rnd.drop (Ci.flatGates Ls).length⟩) ∧ TabInv ⟨rows', r⟩ N := by
  intro Ls
  induction Ls with
  | nil => intro rows r rnd rec _ _ _ _ h; exact ⟨rows, rfl, h⟩
  | cons L Ls ih =>
    intro rows r rnd rec hL hg hr hl h
    obtain ⟨gs, rfl⟩ := hL L (by simp)
    rw [Ci.flatGates_cons] at hl hg
    simp only [Ci.layerGates, List.length_append] at hl
    have hgs : ∀ g ∈ gs, RG N m g := fun g hx => hg g (List.mem_append_left _ hx)
    obtain ⟨rows1, e1, h1⟩ := gatesBackward_run N m gs rows r rnd hgs hr (by omega) h
    obtain ⟨rows2, e2, h2⟩ := ih rows1 r (rnd.drop gs.length) rec (fun X hX => hL X (by simp [hX]))
      (fun g hx => hg g (List.mem_append_right _ hx)) (fun M hM => hr M (List.mem_of_mem_drop hM))
      (by rw [List.length_drop]; omega) h1
    refine ⟨rows2, ?_, h2⟩
    have eL : Layer.backward N (.gates gs none none) ⟨⟨rows, r, s⟩, coins, rnd⟩ none =
        .ok (.gates gs none none, ⟨⟨rows1, r, s⟩, coins, rnd.drop gs.length⟩) := by
      simp only [Layer.backward, e1]
    unfold layersBackward
    dsimp only
    rw [eL]
    dsimp only
    rw [e2]
    dsimp only
    rw [Ci.flatGates_cons, List.drop_drop]
    simp only [Ci.layerGates, List.length_append]

theorem flatGates_reverse_length (Ls : List Layer) : (Ci.flatGates Ls.reverse).length = (Ci.flatGates Ls).length := by
  induction Ls with
  | nil => rfl
  | cons L Ls ih =>
    rw [Ci.flatGates_reverse_cons, Ci.flatGates_cons, List.length_append, List.length_append, ih]
    omega

theorem mem_flatGates_reverse (Ls : List Layer) (g : Gate) (h : g ∈ Ci.flatGates Ls.reverse) : g ∈ Ci.flatGates Ls := by
  unfold Ci.flatGates at h ⊢
  obtain ⟨L, hL, hg⟩ := List.mem_flatMap.1 h
  exact List.mem_flatMap.2 ⟨L, List.mem_reverse.1 hL, hg⟩

/-! ## running the circuit -/

theorem circ_forward_run (N m : Nat) (c : Circ) (rows : List Pauli) (r : Nat) (s : Bool) (coins : List Bool)
    (rnd : List CMap) (hS : Shape N c) (hg : ∀ g ∈ Ci.flatGates c.layers, RG N m g) (hr : ∀ M ∈ rnd, ValidMap M m)
    (hl : (Ci.flatGates c.layers).length ≤ rnd.length) (h : TabInv ⟨rows, r⟩ N) :
    ∃ rows', c.forward ⟨⟨rows, r, s⟩, coins, rnd⟩ =
        .ok (c, ⟨⟨rows', r, s⟩, coins, rnd.drop (Ci.flatGates c.layers).length⟩) ∧ TabInv ⟨rows', r⟩ N := by
  obtain ⟨N', layers, fmap, bmap, results, nrand, unitary, numMeas⟩ := c
  obtain ⟨hN, hu, hf, hb, _, hR⟩ := hS
  simp only at hN hu hf hb hR hg hl
  subst hN hu hf hb
  obtain ⟨rows', e, h'⟩ := layersForward_run N' m s coins layers rows r rnd hR hg hr hl h
  refine ⟨rows', ?_, h'⟩
  unfold Circ.forward
  simp only [if_true]
  rw [e]

theorem circ_forward_short (N m : Nat) (c : Circ) (rows : List Pauli) (r : Nat) (s : Bool) (coins : List Bool)
    (rnd : List CMap) (hS : Shape N c) (hg : ∀ g ∈ Ci.flatGates c.layers, RG N m g) (hr : ∀ M ∈ rnd, ValidMap M m)
    (hl : rnd.length < (Ci.flatGates c.layers).length) (h : TabInv ⟨rows, r⟩ N) :
    c.forward ⟨⟨rows, r, s⟩, coins, rnd⟩ = .error .coin := by
  obtain ⟨hN, hu, hf, hb, _, hR⟩ := hS
  subst hN
  have e := layersForward_short c.N m s coins c.layers rows r rnd hR hg hr hl h
  unfold Circ.forward
  rw [if_pos hu, hf]
  dsimp only
  rw [e]

theorem circ_backward_run (N m : Nat) (c : Circ) (rows : List Pauli) (r : Nat) (s : Bool) (coins : List Bool)
    (rnd : List CMap) (hS : Shape N c) (hg : ∀ g ∈ Ci.flatGates c.layers, RG N m g) (hr : ∀ M ∈ rnd, ValidMap M m)
    (hl : (Ci.flatGates c.layers).length ≤ rnd.length) (h : TabInv ⟨rows, r⟩ N) :
    ∃ rows', c.backward ⟨⟨rows, r, s⟩, coins, rnd⟩ none =
        .ok (c, ⟨⟨rows', r, s⟩, coins, rnd.drop (Ci.flatGates c.layers).length⟩) ∧ TabInv ⟨rows', r⟩ N := by
  obtain ⟨N', layers, fmap, bmap, results, nrand, unitary, numMeas⟩ := c
  obtain ⟨hN, hu, hf, hb, _, hR⟩ := hS
  simp only at hN hu hf hb hR hg hl
  subst hN hu hf hb
  obtain ⟨rows', e, h'⟩ := layersBackward_run N' m s coins layers.reverse rows r rnd []
    (fun L hL => hR L (List.mem_reverse.1 hL)) (fun g hx => hg g (mem_flatGates_reverse _ g hx)) hr
    (by rw [flatGates_reverse_length]; exact hl) h
  refine ⟨rows', ?_, h'⟩
  unfold Circ.backward
  simp only [if_true]
  rw [e]
  dsimp only
  rw [List.reverse_reverse, flatGates_reverse_length]

end Rcc
end PC
