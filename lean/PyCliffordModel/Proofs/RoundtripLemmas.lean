import PyCliffordModel.Proofs.CompileLemmas
/-! # Proofs/RoundtripLemmas — helper lemmas for the round-trip theorems of C10 (second part)

* `backward` of an uncompiled circuit changes gates only by recording `bmap`; the circuit it returns still satisfies the
  construction invariant `Ci.Inv`, so `forward` can be run on it;
* `forward` / `backward` of a circuit that carries compiled maps;
* `forward` / `backward` over layers that each carry their own compiled maps, and what `compileLayers` puts in them. -/
namespace PC
namespace Rt
open Tr Cp Ci Cm

/-! ## `backward` only fills `bmap` -/

/-- same qubits, generator and forward map -/
def GSame (g g' : Gate) : Prop := g'.qubits = g.qubits ∧ g'.gen = g.gen ∧ g'.fmap = g.fmap

theorem gSame_refl (g : Gate) : GSame g g := ⟨rfl, rfl, rfl⟩

theorem gSame_act {g g' : Gate} (h : GSame g g') (N : Nat) : gateAct g' N = gateAct g N := by
  funext P
  obtain ⟨h1, h2, h3⟩ := h
  simp only [gateAct, h1, h2, h3]

theorem gSame_wf {g g' : Gate} (h : GSame g g') (N : Nat) (hw : g.WF N) : g'.WF N := by
  obtain ⟨h1, h2, h3⟩ := h
  unfold Gate.WF Gate.n at *
  rw [h1, h2, h3]
  exact hw

theorem gate_backward_same (g g' : Gate) (N : Nat) (rows rows' : List Pauli) (rnd rnd' : List CMap)
    (h : g.backward N rows rnd = .ok (g', rows', rnd')) : GSame g g' := by
  unfold Gate.backward at h
  cases hgen : g.gen with
  | some G =>
    simp only [hgen] at h
    split at h
    · cases h; exact gSame_refl g
    · split at h
      · cases h
      · cases h; exact gSame_refl g
  | none =>
    simp only [hgen] at h
    cases hbm : g.bmap with
    | some M =>
      simp only [hbm] at h
      split at h
      · cases h
      · cases h; exact gSame_refl g
    | none =>
      simp only [hbm] at h
      cases hfm : g.fmap with
      | none =>
        simp only [hfm] at h
        cases rnd with
        | nil => simp only at h; cases h
        | cons M rest =>
          simp only at h
          split at h
          · cases h
          · cases h; exact gSame_refl g
      | some F =>
        simp only [hfm] at h
        cases hinv : inverse F with
        | none => simp only [hinv] at h; cases h
        | some M =>
          simp only [hinv] at h
          split at h
          · cases h
          · cases h; exact ⟨rfl, hgen.symm, hfm.symm⟩

theorem gatesBackward_same (N : Nat) : ∀ (gs gs' : List Gate) (rows rows' : List Pauli) (rnd rnd' : List CMap),
    gatesBackward N gs rows rnd = .ok (gs', rows', rnd') → (∀ g ∈ gs, g.WF N) →
    (∀ g ∈ gs', g.WF N) ∧ ∀ P, seqAct gs' N P = seqAct gs N P := by
  intro gs
  induction gs with
  | nil =>
    intro gs' rows rows' rnd rnd' h _
    simp only [gatesBackward] at h
    cases h
    exact ⟨fun g hg => by simp at hg, fun _ => rfl⟩
  | cons g gs ih =>
    intro gs' rows rows' rnd rnd' h hw
    unfold gatesBackward at h
    cases hg : g.backward N rows rnd with
    | error e => rw [hg] at h; cases h
    | ok t =>
      obtain ⟨g1, rows1, rnd1⟩ := t
      rw [hg] at h
      dsimp only at h
      cases hrec : gatesBackward N gs rows1 rnd1 with
      | error e => rw [hrec] at h; cases h
      | ok t2 =>
        obtain ⟨gs1, rows2, rnd2⟩ := t2
        rw [hrec] at h
        dsimp only at h
        cases h
        have hs := gate_backward_same g g1 N rows rows1 rnd rnd1 hg
        obtain ⟨hw1, ha1⟩ := ih gs1 rows1 rows' rnd1 rnd' hrec (fun x hx => hw x (by simp [hx]))
        refine ⟨?_, ?_⟩
        · intro x hx
          rcases List.mem_cons.1 hx with rfl | hx
          · exact gSame_wf hs N (hw g (by simp))
          · exact hw1 x hx
        · intro P
          rw [seqAct_cons, seqAct_cons, gSame_act hs N, ha1]

theorem mem_flatGates_reverse (Ls : List Layer) (g : Gate) : g ∈ flatGates Ls.reverse ↔ g ∈ flatGates Ls := by
  simp only [flatGates, List.mem_flatMap, List.mem_reverse]

theorem layersBackward_same (N : Nat) : ∀ (Lr Ls' : List Layer) (x x' : Run) (rec : List Int),
    (∀ L ∈ Lr, LayerP L) → (∀ g ∈ flatGates Lr, g.WF N) →
    layersBackward N Lr x rec = .ok (Ls', x') →
    (∀ L ∈ Ls', PlainL L) ∧ (∀ g ∈ flatGates Ls', g.WF N) ∧
      ∀ P, seqAct (flatGates Ls'.reverse) N P = seqAct (flatGates Lr.reverse) N P := by
  intro Lr
  induction Lr with
  | nil =>
    intro Ls' x x' rec _ _ h
    simp only [layersBackward] at h
    cases h
    exact ⟨fun L hL => by simp at hL, fun g hg => by simp [flatGates] at hg, fun _ => rfl⟩
  | cons L Lr ih =>
    intro Ls' x x' rec hp hw h
    obtain ⟨gs, rfl, _⟩ := hp L (by simp)
    have hwg : ∀ g ∈ gs, g.WF N := fun g hg => hw g (by rw [flatGates_cons]; simp [layerGates, hg])
    have hwl : ∀ g ∈ flatGates Lr, g.WF N := fun g hg => hw g (by rw [flatGates_cons]; simp [hg])
    unfold layersBackward at h
    dsimp only at h
    cases hgb : gatesBackward N gs x.obj.rows x.rnd with
    | error e => simp only [Layer.backward, hgb] at h; cases h
    | ok t =>
      obtain ⟨gs1, rows1, rnd1⟩ := t
      simp only [Layer.backward, hgb] at h
      split at h
      · cases h
      · rename_i Ls1 x1 hrec
        cases h
        obtain ⟨hw1, ha1⟩ := gatesBackward_same N gs gs1 _ _ _ _ hgb hwg
        obtain ⟨hpl, hwr, har⟩ := ih Ls1 _ _ rec (fun X hX => hp X (by simp [hX])) hwl hrec
        refine ⟨?_, ?_, ?_⟩
        · intro X hX
          rcases List.mem_cons.1 hX with rfl | hX
          · exact ⟨gs1, none, rfl⟩
          · exact hpl X hX
        · intro g hg
          rw [flatGates_cons] at hg
          rcases List.mem_append.1 hg with hg | hg
          · exact hw1 g hg
          · exact hwr g hg
        · intro P
          rw [flatGates_reverse_cons, flatGates_reverse_cons, seqAct_append, seqAct_append, har]
          exact ha1 _

/-- the circuit returned by the uncompiled `backward` still satisfies the construction invariant -/
theorem backward_inv (N : Nat) (c c1 : Circ) (pre : List Gate) (x x1 : Run) (hI : Inv N c pre)
    (hI2 : Inv2 Gate.BmapOK c) (h : c.backward x none = .ok (c1, x1)) : Inv N c1 pre := by
  obtain ⟨hN, hu, hf, _, hw, hs⟩ := hI
  obtain ⟨hbm, hp, _⟩ := hI2
  unfold Circ.backward at h
  rw [if_pos hu] at h
  simp only [hbm] at h
  split at h
  · cases h
  · rename_i Ls x' hrec
    cases h
    rw [hN] at hrec
    obtain ⟨hpl, hwr, har⟩ := layersBackward_same N c.layers.reverse Ls x x1 [] (fun L hL => hp L (List.mem_reverse.1 hL))
      (fun g hg => hw g ((mem_flatGates_reverse _ g).1 hg)) hrec
    rw [List.reverse_reverse] at har
    refine ⟨hN, hu, hf, fun L hL => hpl L (List.mem_reverse.1 hL),
      fun g hg => hwr g ((mem_flatGates_reverse _ g).1 hg), ?_⟩
    intro P hP
    show PEq (seqAct (flatGates Ls.reverse) N P) _
    rw [har]
    exact hs P hP

/-! ## a circuit that carries compiled maps -/

theorem forward_compiled (c : Circ) (F : CMap) (x : Run) (hu : c.unitary = true) (hF : c.fmap = some F) :
    c.forward x = .ok (c, { x with obj := { x.obj with rows := x.obj.rows.map (transform F) } }) := by
  unfold Circ.forward
  rw [if_pos hu]
  simp only [hF]

theorem backward_compiled (c : Circ) (B : CMap) (x : Run) (rec : Option (List Int)) (hu : c.unitary = true)
    (hB : c.bmap = some B) :
    c.backward x rec = .ok (c, { x with obj := { x.obj with rows := x.obj.rows.map (transform B) } }) := by
  unfold Circ.backward
  rw [if_pos hu]
  simp only [hB]

theorem length_rows_map (rows : List Pauli) (f : Pauli → Pauli) (N : Nat) (hf : ∀ R ∈ rows, (f R).g.length = N) :
    ∀ R ∈ rows.map f, R.g.length = N := by
  intro R hR
  obtain ⟨R0, hR0, rfl⟩ := List.mem_map.1 hR
  exact hf R0 hR0

/-- two maps applied one after the other, row by row -/
theorem rowsPEq_map_map (rows : List Pauli) (f f' : Pauli → Pauli) (h : ∀ R ∈ rows, PEq (f' (f R)) R) :
    RowsPEq' ((rows.map f).map f') rows := by
  rw [List.map_map]
  have : RowsPEq' (rows.map (f' ∘ f)) (rows.map id) := rowsPEq_map rows _ _ h
  rwa [List.map_id] at this

/-! ## layers that carry their own compiled maps -/

/-- the compiled forward maps of the layers, first layer first -/
def fAct : List Layer → Pauli → Pauli
  | [], P => P
  | .gates _ (some f) _ :: Ls, P => fAct Ls (transform f P)
  | _ :: Ls, P => fAct Ls P

/-- the compiled backward maps of the layers, in list order (the caller passes the reversed layer list) -/
def bAct : List Layer → Pauli → Pauli
  | [], P => P
  | .gates _ _ (some b) :: Ls, P => bAct Ls (transform b P)
  | _ :: Ls, P => bAct Ls P

theorem bAct_append (As Bs : List Layer) (P : Pauli) : bAct (As ++ Bs) P = bAct Bs (bAct As P) := by
  induction As generalizing P with
  | nil => rfl
  | cons L As ih =>
    cases L with
    | meas q r k => exact ih P
    | gates gs f b =>
      cases b with
      | none => exact ih P
      | some b => exact ih _

theorem layersForward_compiled (N : Nat) (Ls : List Layer) (rows : List Pauli) (r : Nat) (s : Bool)
    (coins : List Bool) (rnd : List CMap) (hp : ∀ L ∈ Ls, ∃ gs f b, L = .gates gs (some f) b) :
    layersForward N Ls ⟨⟨rows, r, s⟩, coins, rnd⟩ = .ok (Ls, ⟨⟨rows.map (fAct Ls), r, s⟩, coins, rnd⟩, [], 0) := by
  induction Ls generalizing rows with
  | nil =>
    have : fAct [] = id := rfl
    rw [this, List.map_id]; rfl
  | cons L Ls ih =>
    obtain ⟨gs, f, b, rfl⟩ := hp L (by simp)
    unfold layersForward
    simp only [Layer.forward]
    rw [ih (rows.map (transform f)) (fun X hX => hp X (by simp [hX]))]
    dsimp only
    rw [List.map_map]
    rfl

theorem layersBackward_compiled (N : Nat) (Lr : List Layer) (rows : List Pauli) (r : Nat) (s : Bool)
    (coins : List Bool) (rnd : List CMap) (rec : List Int) (hp : ∀ L ∈ Lr, ∃ gs f b, L = .gates gs f (some b)) :
    layersBackward N Lr ⟨⟨rows, r, s⟩, coins, rnd⟩ rec = .ok (Lr, ⟨⟨rows.map (bAct Lr), r, s⟩, coins, rnd⟩) := by
  induction Lr generalizing rows with
  | nil =>
    have : bAct [] = id := rfl
    rw [this, List.map_id]; rfl
  | cons L Lr ih =>
    obtain ⟨gs, f, b, rfl⟩ := hp L (by simp)
    unfold layersBackward
    simp only [Layer.backward]
    rw [ih (rows.map (transform b)) (fun X hX => hp X (by simp [hX]))]
    dsimp only
    rw [List.map_map]
    rfl

/-- what `compileLayers` leaves in the layers: every layer carries both maps; the forward maps one after the other act as
    the gates in execution order, the backward maps (last layer first) as the inverse gates in reverse order -/
theorem compileLayers_layers (N : Nat) : ∀ (Ls Ls' : List Layer) (F0 B0 F' B' : CMap),
    (∀ L ∈ Ls, LayerP L) → (∀ g ∈ flatGates Ls, g.WF N ∧ g.BmapOK) →
    compileLayers N Ls F0 B0 = .ok (Ls', F', B') →
    (∀ L ∈ Ls', ∃ gs f b, L = .gates gs (some f) (some b)) ∧
    ∀ P : Pauli, P.g.length = N →
      PEq (fAct Ls' P) (seqAct (flatGates Ls) N P) ∧ PEq (bAct Ls'.reverse P) (seqActInv (flatGates Ls) N P) := by
  intro Ls
  induction Ls with
  | nil =>
    intro Ls' F0 B0 F' B' _ _ h
    simp only [compileLayers] at h
    cases h
    exact ⟨fun L hL => by simp at hL, fun P _ => ⟨PEq.refl _, PEq.refl _⟩⟩
  | cons L Ls ih =>
    intro Ls' F0 B0 F' B' hp hw h
    obtain ⟨gs, rfl, hpw⟩ := hp L (by simp)
    have hwg : ∀ g ∈ gs, g.WF N ∧ g.BmapOK := fun g hg => hw g (by rw [flatGates_cons]; simp [layerGates, hg])
    have hwl : ∀ g ∈ flatGates Ls, g.WF N ∧ g.BmapOK := fun g hg => hw g (by rw [flatGates_cons]; simp [hg])
    unfold compileLayers at h
    cases hcg : compileGates N gs (idMap N) (idMap N) with
    | error e => simp only [Layer.compile, hcg] at h; cases h
    | ok t =>
      obtain ⟨gs', f, b⟩ := t
      simp only [Layer.compile, hcg] at h
      obtain ⟨hVf, hVb, hact⟩ := layer_compile_sound N gs gs' f b hwg hpw hcg
      cases hrec : compileLayers N Ls (compose F0 f) (compose b B0) with
      | error e => rw [hrec] at h; cases h
      | ok t2 =>
        obtain ⟨Ls'', F'', B''⟩ := t2
        rw [hrec] at h
        cases h
        obtain ⟨hm, hrest⟩ := ih Ls'' _ _ F' B' (fun X hX => hp X (by simp [hX])) hwl hrec
        refine ⟨?_, fun P hP => ?_⟩
        · intro X hX
          rcases List.mem_cons.1 hX with rfl | hX
          · exact ⟨gs', f, b, rfl⟩
          · exact hm X hX
        · have hlf : (transform f P).g.length = N := length_transform f N hVf.1 (fun R hR => (hVf.2.1 R hR).1) P
          rw [flatGates_cons]
          show PEq (fAct Ls'' (transform f P)) (seqAct (gs ++ flatGates Ls) N P) ∧
            PEq (bAct (Layer.gates gs' (some f) (some b) :: Ls'').reverse P) (seqActInv (gs ++ flatGates Ls) N P)
          rw [seqAct_append, seqActInv_append, List.reverse_cons, bAct_append]
          constructor
          · exact (hrest _ hlf).1.trans (seqAct_congr _ N (hact P hP).1)
          · have hl : (seqActInv (flatGates Ls) N P).g.length = N := by rw [length_seqActInv]; exact hP
            show PEq (transform b (bAct Ls''.reverse P)) _
            exact (transform_congr b (hrest P hP).2).trans (hact _ hl).2

end Rt
end PC
