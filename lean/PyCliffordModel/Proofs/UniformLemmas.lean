import PyCliffordModel.Proofs.GroupLemmas
/-! # Proofs/UniformLemmas — helper lemmas for the multiplicity theorem of the random-Clifford sampler and for `Σ_b get_prob = 1` -/
namespace PC
namespace Un
open Rn

/-! ## §1 counting over product tapes -/

/-- the bit lists of width `a + b` are the concatenations of a width-`a` and a width-`b` list, in order -/
theorem allBits_add (a b : Nat) : allBits (a + b) = (allBits a).flatMap fun x => (allBits b).map (x ++ ·) := by
  induction a with
  | zero => simp [allBits]
  | succ a ih =>
    have e : a + 1 + b = (a + b) + 1 := by omega
    rw [e]
    simp only [allBits, ih, List.flatMap_append, List.map_flatMap, List.flatMap_map, List.map_map]
    rfl

/-- number of accepted tapes of width `m` -/
def cnt (m : Nat) (p : List Bool → Bool) : Nat := ((allBits m).filter p).length

theorem cnt_congr (m : Nat) (p q : List Bool → Bool) (h : ∀ c, c.length = m → p c = q c) : cnt m p = cnt m q := by
  unfold cnt
  rw [List.filter_congr (fun c hc => h c ((St.mem_allBits m c).2 hc))]

theorem filter_prod_length (M : List (List Bool)) (p p1 p2 : List Bool → Bool) :
    ∀ L : List (List Bool), (∀ x ∈ L, ∀ y ∈ M, p (x ++ y) = (p1 x && p2 y)) →
    ((L.flatMap fun x => M.map (x ++ ·)).filter p).length = (L.filter p1).length * (M.filter p2).length
  | [], _ => by simp
  | x :: L, h => by
    have ih := filter_prod_length M p p1 p2 L (fun x' hx' => h x' (by simp [hx']))
    rw [List.flatMap_cons, List.filter_append, List.length_append, ih, List.filter_map, List.length_map]
    have hx : M.filter (p ∘ fun y => x ++ y) = M.filter (fun y => p1 x && p2 y) :=
      List.filter_congr (fun y hy => h x (by simp) y hy)
    rw [hx]
    cases h1 : p1 x with
    | false => simp [h1]
    | true => simp [h1, Nat.succ_mul, Nat.add_comm]

/-- a predicate on product tapes that factors has the product count -/
theorem cnt_prod (a b : Nat) (p p1 p2 : List Bool → Bool)
    (h : ∀ x y, x.length = a → y.length = b → p (x ++ y) = (p1 x && p2 y)) :
    cnt (a + b) p = cnt a p1 * cnt b p2 := by
  unfold cnt
  rw [allBits_add]
  exact filter_prod_length _ p p1 p2 _ (fun x hx y hy => h x y ((St.mem_allBits a x).2 hx) ((St.mem_allBits b y).2 hy))

/-- exactly one tape of width `m` equals a given list of length `m` -/
theorem cnt_eq (m : Nat) (c : List Bool) (hc : c.length = m) : cnt m (fun x => x == c) = 1 := by
  unfold cnt
  rw [← List.count_eq_length_filter]
  rw [List.Nodup.count (St.nodup_allBits m), if_pos ((St.mem_allBits m c).1 hc)]

/-! ## §2 the overlap chain on a pure state: totality and the two signs of one observable -/
section Chain
open Ms

/-- the same string with the two signs: either both are ½-steps (to pure valid states), or exactly one of the two signs
    is a stabilizer (factor 1, state unchanged) and the other gives trace zero -/
theorem projTrace1_pair (st : State) (n : Nat) (g : PStr) (t : Dy) (h : TabInv st n) (hr : st.r = 0)
    (hg : g.length = n) :
    (∃ s0 s2, TabInv s0 n ∧ s0.r = 0 ∧ TabInv s2 n ∧ s2.r = 0 ∧
        projTrace1 st ⟨g, 0⟩ t = .ok (s0, ⟨t.zero, t.k + 1⟩) ∧ projTrace1 st ⟨g, 2⟩ t = .ok (s2, ⟨t.zero, t.k + 1⟩)) ∨
    (projTrace1 st ⟨g, 0⟩ t = .ok (st, t) ∧ projTrace1 st ⟨g, 2⟩ t = .ok (st, ⟨true, t.k⟩)) ∨
    (projTrace1 st ⟨g, 0⟩ t = .ok (st, ⟨true, t.k⟩) ∧ projTrace1 st ⟨g, 2⟩ t = .ok (st, t)) := by
  have hN := h.N_eq
  rcases projTrace1_cases st ⟨g, 0⟩ t with ⟨p, hp1, hp2, _, he⟩ | ⟨hc, he⟩
  · rcases projTrace1_cases st ⟨g, 2⟩ t with ⟨p', _, _, _, he'⟩ | ⟨hc', _⟩
    · left
      obtain ⟨a1, a2, _⟩ := C07_projTrace1_spec st _ n ⟨g, 0⟩ t _ h hr hg (by simp) (by simp) he
      obtain ⟨b1, b2, _⟩ := C07_projTrace1_spec st _ n ⟨g, 2⟩ t _ h hr hg (by simp) (by simp) he'
      exact ⟨_, _, a1, a2, b1, b2, he, he'⟩
    · have := hc' p hp1
      simp only at this hp2
      rw [this] at hp2; cases hp2
  · rcases projTrace1_cases st ⟨g, 2⟩ t with ⟨p', hp1', hp2', _, _⟩ | ⟨_, he'⟩
    · have := hc p' hp1'
      simp only at this hp2'
      rw [this] at hp2'; cases hp2'
    · right
      simp only at hc he he'
      rw [hN] at hc he he'
      obtain ⟨d1, d2, d3, _⟩ := det_spec st n g h hg hc
      rw [if_pos d1] at he he'
      generalize (scanAcc st.rows g n 0 st.rows ⟨idStr n, 0⟩).p = q at d2 d3 he he'
      have hq : q = 0 ∨ q = 2 := by omega
      rcases hq with rfl | rfl
      · left
        rw [if_pos rfl] at he
        rw [if_neg (by decide)] at he'
        exact ⟨he, he'⟩
      · right
        rw [if_neg (by decide)] at he
        rw [if_pos rfl] at he'
        exact ⟨he, he'⟩

/-- one step of the chain never raises on a pure valid state (signs `±1`) -/
theorem projTrace1_total (st : State) (n : Nat) (O : Pauli) (t : Dy) (h : TabInv st n) (hr : st.r = 0)
    (hl : O.g.length = n) (hp : O.p = 0 ∨ O.p = 2) :
    ∃ s' t', projTrace1 st O t = .ok (s', t') ∧ TabInv s' n ∧ s'.r = 0 := by
  obtain ⟨g, p⟩ := O
  simp only at hl hp
  rcases projTrace1_pair st n g t h hr hl with ⟨s0, s2, a1, a2, b1, b2, e0, e2⟩ | ⟨e0, e2⟩ | ⟨e0, e2⟩ <;>
    rcases hp with rfl | rfl
  · exact ⟨_, _, e0, a1, a2⟩
  · exact ⟨_, _, e2, b1, b2⟩
  · exact ⟨_, _, e0, h, hr⟩
  · exact ⟨_, _, e2, h, hr⟩
  · exact ⟨_, _, e0, h, hr⟩
  · exact ⟨_, _, e2, h, hr⟩

/-- the chain never raises on a pure valid state -/
theorem projTrace_total (n : Nat) : ∀ (obs : List Pauli) (st : State) (t : Dy), TabInv st n → st.r = 0 →
    (∀ O ∈ obs, O.g.length = n ∧ (O.p = 0 ∨ O.p = 2)) → ∃ s' t', projTrace st obs t = .ok (s', t')
  | [], st, t, _, _, _ => ⟨st, t, rfl⟩
  | o :: os, st, t, h, hr, ho => by
    obtain ⟨s1, t1, e1, h1, r1⟩ := projTrace1_total st n o t h hr (ho o (by simp)).1 (ho o (by simp)).2
    rw [Pl.projTrace_cons_ok _ _ _ _ _ _ e1]
    exact projTrace_total n os s1 t1 h1 r1 (fun O hO => ho O (by simp [hO]))

/-- the observables `± g_i` selected by the bits `c` (`true` = sign `−1`) -/
def obsOf (gs : List PStr) (c : List Bool) : List Pauli :=
  List.zipWith (fun g (b : Bool) => (⟨g, if b then 2 else 0⟩ : Pauli)) gs c

theorem obsOf_spec (n : Nat) (gs : List PStr) (c : List Bool) (hg : ∀ g ∈ gs, g.length = n) :
    ∀ O ∈ obsOf gs c, O.g.length = n ∧ (O.p = 0 ∨ O.p = 2) := by
  intro O hO
  unfold obsOf at hO
  obtain ⟨i, hi, rfl⟩ := List.mem_iff_getElem.1 hO
  simp only [List.getElem_zipWith]
  refine ⟨hg _ (List.getElem_mem _), ?_⟩
  split <;> simp

/-- value of a dyadic probability (`dyVal` of `Properties/C16b`) -/
def dv (t : Dy) : Rat := if t.zero then 0 else 1 / (2 : Rat) ^ t.k

/-- value of the chain, `0` when it raises -/
def chainVal (s : State) (obs : List Pauli) (t : Dy) : Rat :=
  match projTrace s obs t with
  | .ok (_, t') => dv t'
  | .error _ => 0

theorem dv_half (z : Bool) (k : Nat) : dv ⟨z, k + 1⟩ + dv ⟨z, k + 1⟩ = dv ⟨z, k⟩ := by
  cases z
  · simp only [dv, Bool.false_eq_true, if_false]; grind
  · simp only [dv, if_true]; grind

theorem dv_true (k : Nat) : dv ⟨true, k⟩ = 0 := by simp [dv]

theorem chainVal_cons (s s1 : State) (o : Pauli) (os : List Pauli) (t t1 : Dy)
    (h : projTrace1 s o t = .ok (s1, t1)) : chainVal s (o :: os) t = chainVal s1 os t1 := by
  unfold chainVal; rw [Pl.projTrace_cons_ok _ _ _ _ _ _ h]

/-- **summing the chain over all sign patterns of a list of strings gives back the starting value** -/
theorem chain_sum (n : Nat) : ∀ (gs : List PStr) (s : State) (t : Dy), TabInv s n → s.r = 0 →
    (∀ g ∈ gs, g.length = n) → ((allBits gs.length).map fun c => chainVal s (obsOf gs c) t).sum = dv t
  | [], s, t, _, _, _ => by
    simp only [allBits, obsOf, chainVal, projTrace, List.length_nil, List.zipWith_nil_left, List.map_cons, List.map_nil,
      List.sum_cons, List.sum_nil]
    grind
  | g :: gs, s, t, h, hr, hg => by
    have hgl := hg g (by simp)
    have hg' : ∀ g' ∈ gs, g'.length = n := fun g' hg'' => hg g' (by simp [hg''])
    have hsplit : ((allBits (g :: gs).length).map fun c => chainVal s (obsOf (g :: gs) c) t).sum =
        ((allBits gs.length).map fun c => chainVal s (⟨g, 0⟩ :: obsOf gs c) t).sum +
        ((allBits gs.length).map fun c => chainVal s (⟨g, 2⟩ :: obsOf gs c) t).sum := by
      simp only [List.length_cons, allBits, List.map_append, List.sum_append, List.map_map]
      rfl
    rw [hsplit]
    rcases projTrace1_pair s n g t h hr hgl with ⟨s0, s2, a1, a2, b1, b2, e0, e2⟩ | ⟨e0, e2⟩ | ⟨e0, e2⟩
    · simp only [chainVal_cons _ _ _ _ _ _ e0, chainVal_cons _ _ _ _ _ _ e2]
      rw [chain_sum n gs s0 _ a1 a2 hg', chain_sum n gs s2 _ b1 b2 hg']
      exact dv_half _ _
    · simp only [chainVal_cons _ _ _ _ _ _ e0, chainVal_cons _ _ _ _ _ _ e2]
      rw [chain_sum n gs s _ h hr hg', chain_sum n gs s _ h hr hg', dv_true]
      grind
    · simp only [chainVal_cons _ _ _ _ _ _ e0, chainVal_cons _ _ _ _ _ _ e2]
      rw [chain_sum n gs s _ h hr hg', chain_sum n gs s _ h hr hg', dv_true]
      grind

end Chain

/-! ## §3 `get_prob` as a chain over `± Z_k` -/

/-- the stabilizers of the readout state are `± Z_k` with the signs given by the bits -/
theorem basis_active (n : Nat) (b : List Bool) (hb : b.length = n) :
    State.active ⟨(zeroState n).rows.mapIdx fun i R =>
        if i < n then (⟨R.g, if b.getD i false then 2 else 0⟩ : Pauli) else R, 0⟩ =
      obsOf ((List.range n).map (unitZ n)) b := by
  have hlen := St.length_zeroState_rows n
  unfold State.active State.N obsOf
  simp only [List.length_mapIdx, hlen, List.drop_zero]
  have h2 : 2 * n / 2 = n := by omega
  rw [h2]
  apply List.ext_getElem
  · simp [hlen, hb]; omega
  · intro i h1 h2
    have hi : i < n := by simp at h2; omega
    have hr := St.rowAt_zeroState_lo n i hi
    rw [St.rowAt_eq, List.getElem?_eq_getElem (by rw [hlen]; omega)] at hr
    simp only [Option.getD_some] at hr
    simp only [List.getElem_take, List.getElem_mapIdx, if_pos hi, hr, List.getElem_zipWith, List.getElem_map,
      List.getElem_range]
    have : b.getD i false = b[i]'(by omega) := by simp [List.getD_eq_getElem?_getD, hb, hi]
    rw [this]

theorem state_eta (st : State) (hr : st.r = 0) : (⟨st.rows, 0⟩ : State) = st := by
  cases st; simp only at hr; subst hr; rfl

/-- **`get_prob` on a pure state is the chain over `± Z_0, …, ± Z_{n-1}`** -/
theorem getProb_eq (st : State) (n : Nat) (b : List Bool) (h : TabInv st n) (hr : st.r = 0) (hb : b.length = n) :
    getProb st b =
      match projTrace st (obsOf ((List.range n).map (unitZ n)) b) ⟨false, 0⟩ with
      | .error e => .error e
      | .ok (_, t) => .ok ⟨t.zero, t.k + 0⟩ := by
  unfold getProb expectState
  simp only [h.N_eq, hr, bne_self_eq_false, Bool.false_eq_true, if_false, basis_active n b hb, state_eta st hr]
  cases projTrace st (obsOf ((List.range n).map (unitZ n)) b) ⟨false, 0⟩ <;> rfl

/-! ## §4 `random_clifford`: tape length, the recursive step and its injectivity -/

theorem cnt_prod3 (a b c : Nat) (p p1 p2 p3 : List Bool → Bool)
    (h : ∀ x y z, x.length = a → y.length = b → z.length = c → p (x ++ (y ++ z)) = (p1 x && (p2 y && p3 z))) :
    cnt (a + (b + c)) p = cnt a p1 * (cnt b p2 * cnt c p3) := by
  rw [← cnt_prod b c (fun w => p2 (w.take b) && p3 (w.drop b)) p2 p3 (fun y z hy _ => by
    simp only [List.take_left' hy, List.drop_left' hy])]
  apply cnt_prod
  intro x w hx hw
  have e : w = w.take b ++ w.drop b := (List.take_append_drop b w).symm
  rw [e, h x _ _ hx (by rw [List.length_take]; omega) (by rw [List.length_drop]; omega), ← e]

theorem cnt_pos_exists (m : Nat) (p : List Bool → Bool) (h : cnt m p ≠ 0) : ∃ c, c.length = m ∧ p c = true := by
  unfold cnt at h
  obtain ⟨c, hc⟩ := List.exists_mem_of_length_pos (Nat.pos_of_ne_zero h)
  rw [List.mem_filter] at hc
  exact ⟨c, (St.mem_allBits m c).2 hc.1, hc.2⟩

theorem cnt_ne_zero (m : Nat) (p : List Bool → Bool) (c : List Bool) (hc : c.length = m) (hp : p c = true) :
    cnt m p ≠ 0 := by
  unfold cnt
  have : c ∈ (allBits m).filter p := List.mem_filter.2 ⟨(St.mem_allBits m c).1 hc, hp⟩
  intro h0
  rw [List.length_eq_zero_iff] at h0
  rw [h0] at this
  cases this

theorem split3 (a b c : Nat) (t : List Bool) (h : t.length = a + (b + c)) :
    ∃ x y z, x.length = a ∧ y.length = b ∧ z.length = c ∧ t = x ++ (y ++ z) := by
  refine ⟨t.take a, (t.drop a).take b, (t.drop a).drop b, ?_, ?_, ?_, ?_⟩
  · rw [List.length_take]; omega
  · rw [List.length_take, List.length_drop]; omega
  · rw [List.length_drop, List.length_drop]; omega
  · rw [List.take_append_drop, List.take_append_drop]

/-- a signless rotation is an involution on strings of its length -/
theorem rot_rot (g h : PStr) (hl : g.length = h.length) : rotateSignless g (rotateSignless g h) = h := by
  rcases acq_bit g h with h0 | h1
  · rw [rotateSignless_comm g h h0, rotateSignless_comm g h h0]
  · rw [rotateSignless_anti g h h1]
    have : acq g (xorS h g) = 1 := by
      rw [acq_xorS_right g h g hl.symm, h1, acq_self]; rfl
    rw [rotateSignless_anti _ _ this, xorS_cancel_right h g hl.symm]

/-- undoing a sequence of rotations: apply them in the reverse order -/
theorem rotS_reverse_cancel : ∀ (gs : List PStr) (h : PStr), (∀ g ∈ gs, g.length = h.length) →
    rotS gs.reverse (rotS gs h) = h
  | [], _, _ => rfl
  | g :: gs, h, hl => by
    have hg := hl g (by simp)
    have h1 := length_rotateSignless g h hg
    rw [List.reverse_cons, rotS_append, rotS_cons, rotS_cons, rotS_nil,
      rotS_reverse_cancel gs _ (fun g' hg' => by rw [h1]; exact hl g' (by simp [hg'])), rot_rot g h hg]

theorem rotS_cancel_reverse (gs : List PStr) (h : PStr) (hl : ∀ g ∈ gs, g.length = h.length) :
    rotS gs (rotS gs.reverse h) = h := by
  have := rotS_reverse_cancel gs.reverse h (fun g hg => hl g (List.mem_reverse.1 hg))
  rwa [List.reverse_reverse] at this

/-- rotating all rows generator by generator = applying the whole sequence to each row -/
theorem foldl_map_rot : ∀ (gs : List PStr) (rows : List PStr),
    gs.foldl (fun rs g => rs.map (rotateSignless g)) rows = rows.map (rotS gs)
  | [], rows => by
    have : rotS [] = id := funext fun h => rfl
    simp [this]
  | g :: gs, rows => by
    rw [List.foldl_cons, foldl_map_rot gs, List.map_map]
    rfl

theorem resample_len (n : Nat) : ∀ (fuel : Nat) (g : PStr) (tape : List Bool) (g' : PStr) (t' : List Bool),
    resample n fuel g tape = some (g', t') →
    (anyBit g = true ∧ g' = g ∧ t' = tape) ∨ (anyBit g = false ∧ t'.length + 2 * n ≤ tape.length)
  | 0, g, tape, g', t', h => by
    unfold resample at h
    split at h
    · rename_i ha
      simp only [Option.some.injEq, Prod.mk.injEq] at h
      exact Or.inl ⟨ha, h.1.symm, h.2.symm⟩
    · cases h
  | fuel + 1, g, tape, g', t', h => by
    unfold resample at h
    split at h
    · rename_i ha
      simp only [Option.some.injEq, Prod.mk.injEq] at h
      exact Or.inl ⟨ha, h.1.symm, h.2.symm⟩
    · rename_i ha
      split at h
      · cases h
      · rename_i b tape' hb
        obtain ⟨hbl, rfl⟩ := takeBits_some _ _ _ _ hb
        right
        refine ⟨by simpa using ha, ?_⟩
        rcases resample_len n fuel _ _ _ _ h with ⟨_, _, rfl⟩ | ⟨_, hle⟩
        · simp only [List.length_append]; omega
        · simp only [List.length_append]; omega

/-- first string non-identity: no resampling, the pair is read off the two halves -/
theorem randomPair_split_ok (n : Nat) (b1 b2 u : List Bool) (h1 : b1.length = 2 * n) (h2 : b2.length = 2 * n)
    (ha : anyBit (unflat b1) = true) :
    randomPair n (b1 ++ (b2 ++ u)) = some ((unflat b1, fixP (unflat b1) (unflat b2)), u) := by
  rw [randomPair_eq, takeBits_append (2 * n) b1 _ h1]
  simp only [takeBits_append (2 * n) b2 u h2, resample_of_anyBit n _ _ u ha]

/-- first string identity: resampling eats at least one more string from the rest of the tape -/
theorem randomPair_split_bad (n : Nat) (b1 b2 u : List Bool) (h1 : b1.length = 2 * n) (h2 : b2.length = 2 * n)
    (ha : anyBit (unflat b1) = false) (pr : PStr × PStr) (rest : List Bool)
    (h : randomPair n (b1 ++ (b2 ++ u)) = some (pr, rest)) : rest.length + 2 * n ≤ u.length := by
  rw [randomPair_eq, takeBits_append (2 * n) b1 _ h1] at h
  simp only [takeBits_append (2 * n) b2 u h2] at h
  split at h
  · cases h
  · rename_i g1 t3 hr
    simp only [Option.some.injEq, Prod.mk.injEq] at h
    obtain ⟨_, rfl⟩ := h
    rcases resample_len n _ _ _ _ _ hr with ⟨ha', _, _⟩ | ⟨_, hle⟩
    · rw [ha] at ha'; cases ha'
    · exact hle

theorem randomPair_len (n : Nat) (tape : List Bool) (pr : PStr × PStr) (rest : List Bool)
    (h : randomPair n tape = some (pr, rest)) : rest.length + 4 * n ≤ tape.length := by
  rw [randomPair_eq] at h
  split at h
  · cases h
  · rename_i b1 t1 hb1
    obtain ⟨l1, rfl⟩ := takeBits_some _ _ _ _ hb1
    split at h
    · cases h
    · rename_i b2 t2 hb2
      obtain ⟨l2, rfl⟩ := takeBits_some _ _ _ _ hb2
      split at h
      · cases h
      · rename_i g1 t3 hr
        simp only [Option.some.injEq, Prod.mk.injEq] at h
        obtain ⟨_, rfl⟩ := h
        simp only [List.length_append]
        rcases resample_len n _ _ _ _ _ hr with ⟨_, _, rfl⟩ | ⟨_, hle⟩ <;> omega

/-- number of tape bits `random_clifford(n)` consumes when no resampling happens (`tapeLen` of `Properties/C16b`) -/
def tlen : Nat → Nat
  | 0 => 0
  | n + 1 => 4 * (n + 1) + tlen n

/-- rows returned by one level of `random_clifford` on `n + 1` qubits (`n ≥ 1`) from the pair and the rows of the
    recursive call -/
def cliffStep (g1 g2 : PStr) (sub : List PStr) : List PStr :=
  (diagonalize2 g1 g2 0).1.reverse.foldl (fun rs g => rs.map (rotateSignless g))
    ((diagonalize2 g1 g2 0).2.1 :: (diagonalize2 g1 g2 0).2.2 :: sub.map fun r => (false, false) :: r)

def stepRows (n : Nat) (g1 g2 : PStr) (sub : List PStr) : List PStr :=
  if n = 0 then [g1, g2] else cliffStep g1 g2 sub

theorem randomClifford_succ (n : Nat) (tape : List Bool) : randomClifford (n + 1) tape =
    match randomPair (n + 1) tape with
    | none => none
    | some ((g1, g2), t) =>
      match randomClifford n t with
      | none => none
      | some (sub, t') => some (stepRows n g1 g2 sub, t') := by
  rw [randomClifford]
  cases randomPair (n + 1) tape with
  | none => rfl
  | some p =>
    obtain ⟨⟨g1, g2⟩, t⟩ := p
    simp only
    by_cases hn : n = 0
    · subst hn
      simp [randomClifford, stepRows]
    · simp only [if_neg hn, stepRows, cliffStep]
      cases randomClifford n t <;> rfl

theorem randomClifford_len : ∀ (n : Nat) (tape : List Bool) (rows : List PStr) (rest : List Bool),
    randomClifford n tape = some (rows, rest) → rest.length + tlen n ≤ tape.length
  | 0, tape, rows, rest, h => by
    simp only [randomClifford, Option.some.injEq, Prod.mk.injEq] at h
    rw [← h.2]; simp [tlen]
  | n + 1, tape, rows, rest, h => by
    rw [randomClifford_succ] at h
    split at h
    · cases h
    · rename_i g1 g2 t hp
      split at h
      · cases h
      · rename_i sub t' hs
        simp only [Option.some.injEq, Prod.mk.injEq] at h
        obtain ⟨_, rfl⟩ := h
        have a := randomPair_len _ _ _ _ hp
        have b := randomClifford_len n _ _ _ hs
        simp only [tlen]; omega

/-- rows 0 and 1 of a level are the sampled pair itself; the other rows are the lifted sub-rows rotated back -/
theorem cliffStep_eq (g1 g2 : PStr) (sub : List PStr) (hl : g1.length = g2.length) (hpos : 0 < g1.length)
    (ha : acq g1 g2 = 1) :
    cliffStep g1 g2 sub =
      g1 :: g2 :: (sub.map fun r => (false, false) :: r).map (rotS (diagonalize2 g1 g2 0).1.reverse) := by
  obtain ⟨_, _, _, _, d5, d6, d7⟩ := diag2_spec g1 g2 0 hl hpos ha
  unfold cliffStep
  rw [foldl_map_rot, List.map_cons, List.map_cons]
  congr 1
  · rw [d5]; exact rotS_reverse_cancel _ _ d7
  · congr 1
    rw [d6]; exact rotS_reverse_cancel _ _ (fun g hg => by rw [d7 g hg, hl])

theorem map_rot_cancel (gs : List PStr) (L : List PStr) (hL : ∀ r ∈ L, ∀ g ∈ gs, g.length = r.length) :
    (L.map (rotS gs.reverse)).map (rotS gs) = L := by
  rw [List.map_map]
  conv => rhs; rw [← List.map_id L]
  apply List.map_congr_left
  intro r hr
  exact rotS_cancel_reverse gs r (hL r hr)

theorem lift_injective (q : Q) (a b : List PStr) (h : (a.map fun r => q :: r) = b.map fun r => q :: r) : a = b := by
  have := congrArg (List.map List.tail) h
  simpa [List.map_map, Function.comp_def] using this

/-- **one level of `random_clifford` is injective** in (pair, rows of the recursive call) -/
theorem stepRows_inj (n : Nat) (g1 g2 h1 h2 : PStr) (sub sub' : List PStr)
    (lg1 : g1.length = n + 1) (lg2 : g2.length = n + 1) (lh1 : h1.length = n + 1) (lh2 : h2.length = n + 1)
    (ag : acq g1 g2 = 1) (ah : acq h1 h2 = 1)
    (ls : sub.length = 2 * n) (ls' : sub'.length = 2 * n)
    (rs : ∀ r ∈ sub, r.length = n) (rs' : ∀ r ∈ sub', r.length = n)
    (he : stepRows n g1 g2 sub = stepRows n h1 h2 sub') : g1 = h1 ∧ g2 = h2 ∧ sub = sub' := by
  unfold stepRows at he
  by_cases hn : n = 0
  · subst hn
    simp only [if_true, List.cons.injEq, and_true] at he
    refine ⟨he.1, he.2, ?_⟩
    rw [List.eq_nil_of_length_eq_zero ls, List.eq_nil_of_length_eq_zero ls']
  · rw [if_neg hn, if_neg hn, cliffStep_eq g1 g2 sub (lg1.trans lg2.symm) (by omega) ag,
      cliffStep_eq h1 h2 sub' (lh1.trans lh2.symm) (by omega) ah] at he
    simp only [List.cons.injEq] at he
    obtain ⟨rfl, rfl, he⟩ := he
    refine ⟨rfl, rfl, ?_⟩
    obtain ⟨_, _, _, _, _, _, d7⟩ := diag2_spec g1 g2 0 (lg1.trans lg2.symm) (by omega) ag
    have hc := congrArg (List.map (rotS (diagonalize2 g1 g2 0).1)) he
    have hlift : ∀ (S : List PStr), (∀ r ∈ S, r.length = n) →
        ∀ r ∈ (S.map fun r => ((false, false) : Q) :: r), ∀ g ∈ (diagonalize2 g1 g2 0).1, g.length = r.length := by
      intro S hS r hr g hg
      obtain ⟨r', hr', rfl⟩ := List.mem_map.1 hr
      rw [d7 g hg, lg1, List.length_cons, hS r' hr']
    rw [map_rot_cancel _ _ (hlift sub rs), map_rot_cancel _ _ (hlift sub' rs')] at hc
    exact lift_injective _ _ _ hc

/-- a tape of exactly `tlen (n+1)` bits with nothing left over: no resampling, and the result is one level on top of the
    result of the remaining `tlen n` bits -/
theorem step_char (n : Nat) (b1 b2 u : List Bool) (rows : List PStr) (h1 : b1.length = 2 * (n + 1))
    (h2 : b2.length = 2 * (n + 1)) (hu : u.length = tlen n) :
    randomClifford (n + 1) (b1 ++ (b2 ++ u)) = some (rows, []) ↔
      anyBit (unflat b1) = true ∧ ∃ sub, randomClifford n u = some (sub, []) ∧
        rows = stepRows n (unflat b1) (fixP (unflat b1) (unflat b2)) sub := by
  rw [randomClifford_succ]
  cases ha : anyBit (unflat b1) with
  | true =>
    rw [randomPair_split_ok (n + 1) b1 b2 u h1 h2 ha]
    simp only [true_and]
    cases hc : randomClifford n u with
    | none => simp
    | some p =>
      obtain ⟨sub, t'⟩ := p
      simp only [Option.some.injEq, Prod.mk.injEq]
      constructor
      · rintro ⟨rfl, rfl⟩; exact ⟨sub, ⟨rfl, rfl⟩, rfl⟩
      · rintro ⟨sub', ⟨rfl, rfl⟩, rfl⟩; exact ⟨rfl, rfl⟩
  | false =>
    simp only [Bool.false_eq_true, false_and, iff_false]
    intro h
    split at h
    · cases h
    · rename_i g1 g2 t hp
      split at h
      · cases h
      · rename_i sub t' hs
        simp only [Option.some.injEq, Prod.mk.injEq] at h
        obtain ⟨_, rfl⟩ := h
        have a := randomPair_split_bad (n + 1) b1 b2 u h1 h2 ha _ _ hp
        have b := randomClifford_len n _ _ _ hs
        simp only [List.length_nil] at b
        omega

/-- exactly two second halves complete a non-identity `g1` to the pair `(g1, g2)` -/
theorem cnt_fixP (n : Nat) (g1 g2 : PStr) (hg : g1.length = n) (hh : g2.length = n) (hne : anyBit g1 = true)
    (ha : acq g1 g2 = 1) : cnt (2 * n) (fun y => fixP g1 (unflat y) == g2) = 2 := by
  refine Eq.trans ?_ (randomPair_count n g1 g2 hg hh hne ha)
  apply cnt_congr
  intro y hy
  rw [randomPair_flat n g1 y hg hne hy]
  rw [Bool.eq_iff_iff]
  simp

/-- **multiplicity**: every output of `random_clifford(n)` on tapes of exactly `tlen n` bits (no bits left over) is
    produced by exactly `2^n` of them -/
theorem mult : ∀ (n : Nat) (rows : List PStr),
    cnt (tlen n) (fun t => randomClifford n t == some (rows, [])) = 0 ∨
    cnt (tlen n) (fun t => randomClifford n t == some (rows, [])) = 2 ^ n
  | 0, rows => by
    cases rows with
    | nil => right; rfl
    | cons r rs => left; rfl
  | n + 1, rows => by
    by_cases hz : cnt (tlen (n + 1)) (fun t => randomClifford (n + 1) t == some (rows, [])) = 0
    · exact Or.inl hz
    · right
      have e : tlen (n + 1) = 2 * (n + 1) + (2 * (n + 1) + tlen n) := by simp only [tlen]; omega
      rw [e] at hz ⊢
      obtain ⟨t0, ht0, hp0⟩ := cnt_pos_exists _ _ hz
      obtain ⟨b1, b2, u, l1, l2, l3, rfl⟩ := split3 _ _ _ t0 ht0
      rw [beq_iff_eq, step_char n b1 b2 u rows l1 l2 l3] at hp0
      obtain ⟨hne, sub0, hs0, hrows⟩ := hp0
      obtain ⟨g1, hg1⟩ : ∃ g1, g1 = unflat b1 := ⟨_, rfl⟩
      obtain ⟨g2, hg2⟩ : ∃ g2, g2 = fixP g1 (unflat b2) := ⟨_, rfl⟩
      rw [← hg1] at hne hrows
      rw [← hg2] at hrows
      have lg1 : g1.length = n + 1 := by rw [hg1]; exact Cp.length_unflat b1 (n + 1) l1
      have lx2 : (unflat b2).length = n + 1 := Cp.length_unflat b2 (n + 1) l2
      have lg2 : g2.length = n + 1 := by rw [hg2, length_fixP, lx2]
      have ag : acq g1 g2 = 1 := by rw [hg2]; exact acq_fixP g1 _ (lg1.trans lx2.symm) hne
      obtain ⟨ls0, rs0, _⟩ := randomClifford_symS n u sub0 [] hs0
      have key : ∀ x y z : List Bool, x.length = 2 * (n + 1) → y.length = 2 * (n + 1) → z.length = tlen n →
          (randomClifford (n + 1) (x ++ (y ++ z)) == some (rows, [])) =
            ((x == flat g1) && ((fixP g1 (unflat y) == g2) && (randomClifford n z == some (sub0, [])))) := by
        intro x y z hx hy hz'
        rw [Bool.eq_iff_iff]
        simp only [beq_iff_eq, Bool.and_eq_true]
        rw [step_char n x y z rows hx hy hz']
        constructor
        · rintro ⟨hax, sub, hs, hr⟩
          have lx : (unflat x).length = n + 1 := Cp.length_unflat x (n + 1) hx
          have ly : (unflat y).length = n + 1 := Cp.length_unflat y (n + 1) hy
          obtain ⟨ls, rs, _⟩ := randomClifford_symS n z sub [] hs
          obtain ⟨e1, e2, e3⟩ := stepRows_inj n g1 g2 (unflat x) (fixP (unflat x) (unflat y)) sub0 sub lg1 lg2 lx
            (by rw [length_fixP, ly]) ag (acq_fixP _ _ (lx.trans ly.symm) hax) ls0 ls rs0 rs (hrows.symm.trans hr)
          refine ⟨?_, ?_, ?_⟩
          · rw [e1, Cp.flat_unflat x (n + 1) hx]
          · rw [e1]; exact e2.symm
          · rw [hs, e3]
        · rintro ⟨rfl, hf, hq⟩
          rw [unflat_flat]
          exact ⟨hne, sub0, hq, by rw [hf]; exact hrows⟩
      rw [cnt_prod3 _ _ _ _ _ _ _ key, cnt_eq _ _ (by rw [Cp.length_flat, lg1]),
        cnt_fixP (n + 1) g1 g2 lg1 lg2 hne ag]
      have hq : cnt (tlen n) (fun z => randomClifford n z == some (sub0, [])) ≠ 0 :=
        cnt_ne_zero _ _ u l3 (by simp [hs0])
      rcases mult n sub0 with h0 | h0
      · exact absurd h0 hq
      · rw [h0, Nat.pow_succ]; omega

end Un
end PC
