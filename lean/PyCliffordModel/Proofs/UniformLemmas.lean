import PyCliffordModel.Proofs.GroupLemmas
/-! # Proofs/UniformLemmas — helper lemmas for the multiplicity theorem of the random-Clifford sampler and for `Σ_b get_prob = 1` -/
namespace PC

end PC
