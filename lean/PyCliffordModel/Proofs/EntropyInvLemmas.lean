import PyCliffordModel.Proofs.PureEntropy
import PyCliffordModel.Proofs.CircuitLemmas
import PyCliffordModel.Proofs.StateLemmas
import PyCliffordModel.Properties.C05b
import PyCliffordModel.Properties.C08
/-! # Proofs/EntropyInvLemmas — helper lemmas for C08d (the entropy depends only on the stabilizer group; it is unchanged
by gates acting entirely inside or entirely outside the region)

Layout:
* §1 list facts: `scatter` of an xor, strings that vanish on a mask;
* §2 the string of a combination as a `ZMod 2` linear combination of the strings of the rows;
* §3 additive string functions as additive maps of vectors; kernel counts as cardinalities of sets of selectors whose
     combination is sent to the identity (`kernelCount_lift`, `supportedCount_card`);
* §4 the common step: the entropy is determined by `supportedCount`;
* §5 consequences of the tableau invariant for the active strings (independence, commutation);
* §6 the string action of a gate: additive, invertible, local;
* §7 the two counting statements (`supported_gate`, `supported_group`) and the assembled theorems.
-/
namespace PC
namespace Ei
open PE Tr Cp Rank

/-! ## §1 list facts -/

theorem scatter_xorS : ∀ (m : List Bool) (a b s t : PStr), a.length = b.length → s.length = t.length →
    scatter m (xorS a b) (xorS s t) = xorS (scatter m a s) (scatter m b t)
  | [], a, b, s, t, _, _ => by simp [scatter_nil_left]
  | _ :: _, [], [], s, t, _, _ => by simp [scatter_nil_mid, xorS]
  | _ :: _, [], _ :: _, _, _, h, _ => by simp at h
  | _ :: _, _ :: _, [], _, _, h, _ => by simp at h
  | false :: ms, a :: as, b :: bs, s, t, h, hs => by
    have ih := scatter_xorS ms as bs s t (by simpa using h) hs
    simp only [xorS, scatter_cons_false, ih]
  | true :: ms, a :: as, b :: bs, [], [], h, _ => by
    have ih := scatter_xorS ms as bs [] [] (by simpa using h) rfl
    simp only [xorS] at ih ⊢
    simp only [scatter_cons_true_nil, xorS, ih]
  | true :: _, _ :: _, _ :: _, [], _ :: _, _, hs => by simp at hs
  | true :: _, _ :: _, _ :: _, _ :: _, [], _, hs => by simp at hs
  | true :: ms, a :: as, b :: bs, s :: ss, t :: ts, h, hs => by
    have ih := scatter_xorS ms as bs ss ts (by simpa using h) (by simpa using hs)
    simp only [xorS, scatter_cons_true_cons, ih]

/-- a string vanishes on a mask iff every masked qubit carries the identity -/
theorem gather_eq_idStr_iff : ∀ (m : List Bool) (s : PStr), s.length = m.length →
    (gather m s = idStr (maskCount m) ↔ ∀ i, m.getD i false = true → s.getD i (false, false) = (false, false))
  | [], [], _ => by simp [gather_nil_left, maskCount_nil, idStr]
  | [], _ :: _, h => by simp at h
  | _ :: _, [], h => by simp at h
  | false :: ms, q :: qs, h => by
    rw [gather_cons_false, maskCount_cons_false, gather_eq_idStr_iff ms qs (by simpa using h)]
    constructor
    · intro H i hi
      cases i with
      | zero => simp at hi
      | succ j => simpa using H j (by simpa using hi)
    · intro H j hj
      simpa using H (j + 1) (by simpa using hj)
  | true :: ms, q :: qs, h => by
    rw [gather_cons_true, maskCount_cons_true]
    have e : idStr (maskCount ms + 1) = (false, false) :: idStr (maskCount ms) := by simp [idStr, List.replicate_succ]
    rw [e, List.cons.injEq, gather_eq_idStr_iff ms qs (by simpa using h)]
    constructor
    · rintro ⟨hq, H⟩ i hi
      cases i with
      | zero => simpa using hq
      | succ j => simpa using H j (by simpa using hi)
    · intro H
      exact ⟨by simpa using H 0 (by simp), fun j hj => by simpa using H (j + 1) (by simpa using hj)⟩

/-! ## §2 the string of a combination as a linear combination -/

theorem toVec_combineAux (N : Nat) : ∀ (rows : List Pauli) (c : List Bool) (acc : Pauli),
    (∀ R ∈ rows, R.g.length = N) → acc.g.length = N →
    toVec N (combineAux c rows acc).g = toVec N acc.g +
      ∑ i ∈ Finset.range rows.length, b2z (c.getD i false) • toVec N ((rows.map (·.g)).getD i []) := by
  intro rows
  induction rows with
  | nil => intro c acc _ _; rw [combineAux_nil_right]; simp
  | cons R rs ih =>
    intro c acc hl ha
    have hR : R.g.length = N := hl R (by simp)
    have hrs : ∀ R' ∈ rs, R'.g.length = N := fun R' h' => hl R' (by simp [h'])
    cases c with
    | nil =>
      rw [combineAux_nil_left]
      simp [b2z]
    | cons b cs =>
      rw [combineAux_cons, List.length_cons, Finset.sum_range_succ']
      simp only [List.map_cons, List.getD_cons_succ, List.getD_cons_zero]
      cases b with
      | false =>
        rw [if_neg (by simp), ih cs acc hrs ha]
        simp [b2z]
      | true =>
        rw [if_pos rfl, ih cs (mul acc R) hrs (by rw [length_mul _ _ (ha.trans hR.symm)]; exact ha), mul_g,
          toVec_xorS N _ _ (ha.trans hR.symm)]
        simp only [b2z, if_true, one_smul]
        abel

/-- the string of the combination selected by a `ZMod 2` vector is the linear combination of the strings -/
theorem toVec_combine_ofV (N : Nat) (rows : List Pauli) (gs : List PStr) (hgs : gs = rows.map (·.g))
    (hl : ∀ R ∈ rows, R.g.length = N) (c : Fin gs.length → ZMod 2) :
    toVec N (combine N (ofV c) rows).g = ∑ i, c i • toVec N (gs.getD i []) := by
  have hL : rows.length = gs.length := by rw [hgs, List.length_map]
  unfold combine
  rw [toVec_combineAux N rows (ofV c) _ hl (length_idStr N), toVec_idStr, zero_add, hL, ← hgs,
    ← Fin.sum_univ_eq_sum_range (fun i => b2z ((ofV c).getD i false) • toVec N (gs.getD i [])) gs.length]
  apply Finset.sum_congr rfl
  intro i _
  rw [getD_ofV]

theorem length_combine (N : Nat) (c : List Bool) (rows : List Pauli) (hl : ∀ R ∈ rows, R.g.length = N) :
    (combine N c rows).g.length = N :=
  length_combineAux N c rows _ hl (length_idStr N)

/-! ## §3 additive string functions; kernel counts as cardinalities -/

/-- a string function that keeps sizes and is additive for xor, as an additive map of vectors -/
def liftHom (φ : PStr → PStr) (N K : Nat) (hlen : ∀ s, s.length = N → (φ s).length = K)
    (hadd : ∀ a b, a.length = N → b.length = N → φ (xorS a b) = xorS (φ a) (φ b)) : W N →+ W K :=
  AddMonoidHom.mk' (fun v => toVec K (φ (fromVec v))) (fun u v => by
    rw [fromVec_add, hadd _ _ (length_fromVec u) (length_fromVec v),
      toVec_xorS K _ _ (by rw [hlen _ (length_fromVec u), hlen _ (length_fromVec v)])])

theorem lift_sum (φ : PStr → PStr) (N K : Nat) (hlen : ∀ s, s.length = N → (φ s).length = K)
    (hadd : ∀ a b, a.length = N → b.length = N → φ (xorS a b) = xorS (φ a) (φ b))
    {ι : Type} [Fintype ι] (g : ι → PStr) (hg : ∀ i, (g i).length = N) (c : ι → ZMod 2) :
    toVec K (φ (fromVec (∑ i, c i • toVec N (g i)))) = ∑ i, c i • toVec K (φ (g i)) := by
  have h1 : liftHom φ N K hlen hadd (∑ i, c i • toVec N (g i)) =
      ∑ i, c i • liftHom φ N K hlen hadd (toVec N (g i)) := by
    have := map_sum ((liftHom φ N K hlen hadd).toZModLinearMap 2) (fun i => c i • toVec N (g i)) Finset.univ
    simp only [map_smul, AddMonoidHom.coe_toZModLinearMap] at this
    exact this
  have h2 : ∀ i, liftHom φ N K hlen hadd (toVec N (g i)) = toVec K (φ (g i)) := by
    intro i
    show toVec K (φ (fromVec (toVec N (g i)))) = _
    rw [fromVec_toVec N _ (hg i)]
  simp only [h2] at h1
  exact h1

/-- the number of vanishing combinations of the images `φ g` is the number of selectors whose combination is sent to
    the identity by `φ` -/
theorem kernelCount_lift (φ : PStr → PStr) (N K : Nat) (hlen : ∀ s, s.length = N → (φ s).length = K)
    (hadd : ∀ a b, a.length = N → b.length = N → φ (xorS a b) = xorS (φ a) (φ b))
    (gs : List PStr) (hg : ∀ g ∈ gs, g.length = N) :
    kernelCount (gs.map fun g => flat (φ g)) (2 * K) =
      Nat.card {c : Fin gs.length → ZMod 2 // φ (fromVec (∑ i, c i • toVec N (gs.getD i []))) = idStr K} := by
  rw [kernelCount_flat gs φ K]
  apply Nat.card_congr
  apply Equiv.subtypeEquivRight
  intro c
  rw [← lift_sum φ N K hlen hadd (fun i : Fin gs.length => gs.getD i []) (fun i => hg _ (getD_mem gs i)) c]
  constructor
  · intro h
    apply toVec_injective K _ _ (hlen _ (length_fromVec _)) (length_idStr K)
    rw [h, toVec_idStr]
  · intro h
    rw [h, toVec_idStr]

/-- the region restriction keeps sizes and is additive -/
theorem length_gather_eq (mk : List Bool) (N : Nat) (hmk : mk.length = N) (s : PStr) (hs : s.length = N) :
    (gather mk s).length = maskCount mk := length_gather mk s (by rw [hmk, hs])

theorem supportedCount_card (gs : List PStr) (N : Nat) (m : List Bool) (hm : m.length = N)
    (hg : ∀ g ∈ gs, g.length = N) :
    supportedCount gs m =
      Nat.card {c : Fin gs.length → ZMod 2 //
        gather (m.map (!·)) (fromVec (∑ i, c i • toVec N (gs.getD i []))) = idStr (maskCount (m.map (!·)))} :=
  kernelCount_lift (gather (m.map (!·))) N _
    (fun s hs => length_gather_eq _ N (by rw [List.length_map, hm]) s hs)
    (fun a b _ _ => gather_xorS _ a b) gs hg

/-! ## §4 the common step: the reported entropy is determined by `supportedCount` -/

/-- the hypotheses of the pure branch, unbundled -/
def PureHyp (gs : List PStr) (N : Nat) : Prop :=
  (∀ a ∈ gs, ∀ b ∈ gs, acq a b = 0) ∧ kernelCount (gs.map flat) (2 * N) = 1

theorem entropy_congr (gs gs' : List PStr) (N : Nat) (m : List Bool) (hm : m.length = N)
    (hL : gs.length = gs'.length) (hg : ∀ g ∈ gs, g.length = N) (hg' : ∀ g ∈ gs', g.length = N)
    (hp : gs.length = N → PureHyp gs N ∧ PureHyp gs' N)
    (hs : supportedCount gs m = supportedCount gs' m) : entropy gs N m = entropy gs' N m := by
  by_cases h : gs.length = N
  · obtain ⟨⟨hc, hi⟩, ⟨hc', hi'⟩⟩ := hp h
    obtain ⟨a1, a2⟩ := PE.entropy_pure gs N m h hg hc hi hm
    obtain ⟨b1, b2⟩ := PE.entropy_pure gs' N m (hL ▸ h) hg' hc' hi' hm
    rw [hs] at a2
    have hpos : 0 < supportedCount gs' m := by
      rcases Nat.eq_zero_or_pos (supportedCount gs' m) with h0 | h0
      · rw [h0, Nat.zero_mul] at b2
        exact absurd b2.symm (Nat.pos_iff_ne_zero.mp (Nat.pow_pos (by decide)))
      · exact h0
    have h2 := Nat.eq_of_mul_eq_mul_left hpos (a2.trans b2.symm)
    have h3 := Nat.pow_right_injective (Nat.le_refl 2) h2
    omega
  · have h' : gs'.length ≠ N := by rw [← hL]; exact h
    obtain ⟨a1, a2⟩ := C08_entropy_mixed gs N m h hg hm
    obtain ⟨b1, b2⟩ := C08_entropy_mixed gs' N m h' hg' hm
    rw [hs, b1] at a1
    have h3 := Nat.pow_right_injective (Nat.le_refl 2) a1
    omega

/-! ## §5 the active strings of a valid tableau -/

/-- the strings of the active stabilizers -/
def gsOf (st : State) : List PStr := st.active.map (·.g)

theorem length_gsOf (st : State) (n : Nat) (h : TabInv st n) : (gsOf st).length = n - st.r := by
  unfold gsOf; rw [List.length_map, St.length_active st n h]

theorem gsOf_lengths (st : State) (n : Nat) (h : TabInv st n) : ∀ g ∈ gsOf st, g.length = n := by
  intro g hg
  obtain ⟨R, hR, rfl⟩ := List.mem_map.mp hg
  exact St.active_rows_length st n h R hR

/-- independence: the linear combination of the active strings is injective in the selector -/
theorem comb_injective (st : State) (n : Nat) (h : TabInv st n) (c d : Fin (gsOf st).length → ZMod 2)
    (he : ∑ i, c i • toVec n ((gsOf st).getD i []) = ∑ i, d i • toVec n ((gsOf st).getD i [])) : c = d := by
  have hl := St.active_rows_length st n h
  rw [← toVec_combine_ofV n st.active (gsOf st) rfl hl c, ← toVec_combine_ofV n st.active (gsOf st) rfl hl d] at he
  have hg := toVec_injective n _ _ (length_combine n _ _ hl) (length_combine n _ _ hl) he
  have hN := St.tabInv_N st n h
  have := St.combine_injective st n h (ofV c) (ofV d) (by rw [length_ofV, length_gsOf st n h])
    (by rw [length_ofV, length_gsOf st n h]) (by rw [hN]; exact hg)
  rw [← toV_ofV c, ← toV_ofV d, this]

theorem gsOf_indep (st : State) (n : Nat) (h : TabInv st n) : kernelCount ((gsOf st).map flat) (2 * n) = 1 := by
  have hk := kernelCount_flat (gsOf st) id n
  simp only [id] at hk
  rw [hk]
  apply Nat.card_eq_one_iff_unique.mpr
  refine ⟨⟨fun a b => ?_⟩, ⟨⟨0, by simp⟩⟩⟩
  apply Subtype.ext
  exact comb_injective st n h a.1 b.1 (a.2.trans b.2.symm)

theorem gsOf_commute (st : State) (n : Nat) (h : TabInv st n) : ∀ a ∈ gsOf st, ∀ b ∈ gsOf st, acq a b = 0 := by
  have key : ∀ a ∈ gsOf st, ∃ k, k < n - st.r ∧ a = (rowAt st.rows (st.r + k)).g := by
    intro a ha
    obtain ⟨R, hR, rfl⟩ := List.mem_map.mp ha
    obtain ⟨k, hk, rfl⟩ := List.getElem_of_mem hR
    have hk' : k < n - st.r := by rw [← St.length_active st n h]; exact hk
    exact ⟨k, hk', by rw [← St.rowAt_active st n h k hk', rowAt_of_lt _ k hk]⟩
  intro a ha b hb
  obtain ⟨i, hi, rfl⟩ := key a ha
  obtain ⟨j, hj, rfl⟩ := key b hb
  rw [h.2.2.2.1 (st.r + i) (st.r + j) (by omega) (by omega), if_neg (by omega)]

theorem gsOf_pure (st : State) (n : Nat) (h : TabInv st n) : PureHyp (gsOf st) n :=
  ⟨gsOf_commute st n h, gsOf_indep st n h⟩

theorem entropyMask_eq (st : State) (n : Nat) (h : TabInv st n) (m : List Bool) :
    entropyMask st m = if m.isEmpty then 0 else entropy (gsOf st) n m := by
  unfold entropyMask gsOf; rw [St.tabInv_N st n h]

/-- two valid tableaux of the same rank with equal `supportedCount` report the same entropy -/
theorem entropyMask_congr (st1 st2 : State) (n : Nat) (m : List Bool) (h1 : TabInv st1 n) (h2 : TabInv st2 n)
    (hr : st1.r = st2.r) (hm : m.length = n)
    (hs : supportedCount (gsOf st1) m = supportedCount (gsOf st2) m) : entropyMask st1 m = entropyMask st2 m := by
  rw [entropyMask_eq st1 n h1, entropyMask_eq st2 n h2]
  split
  · rfl
  · exact entropy_congr _ _ n m hm (by rw [length_gsOf st1 n h1, length_gsOf st2 n h2, hr])
      (gsOf_lengths st1 n h1) (gsOf_lengths st2 n h2) (fun _ => ⟨gsOf_pure st1 n h1, gsOf_pure st2 n h2⟩) hs

/-! ## §7a the same group: the same count -/

/-- counting selectors through an injective map is counting points of its range -/
theorem card_pullback {α V : Type} (Φ : α → V) (hinj : Function.Injective Φ) (P : V → Prop) :
    Nat.card {c : α // P (Φ c)} = Nat.card {v : V // v ∈ Set.range Φ ∧ P v} := by
  apply Nat.card_congr
  refine Equiv.ofBijective (fun c => ⟨Φ c.1, ⟨c.1, rfl⟩, c.2⟩) ⟨?_, ?_⟩
  · intro a b hab
    exact Subtype.ext (hinj (congrArg Subtype.val hab))
  · rintro ⟨v, ⟨c, rfl⟩, hp⟩
    exact ⟨⟨c, hp⟩, rfl⟩

/-- every combination of the active strings of `st1` is a combination of the active strings of `st2` -/
theorem comb_range_sub (st1 st2 : State) (n : Nat) (h1 : TabInv st1 n) (h2 : TabInv st2 n)
    (hG : ∀ P : Pauli, InGroup st1 P → InGroup st2 P) (c1 : Fin (gsOf st1).length → ZMod 2) :
    ∃ c2 : Fin (gsOf st2).length → ZMod 2,
      ∑ i, c2 i • toVec n ((gsOf st2).getD i []) = ∑ i, c1 i • toVec n ((gsOf st1).getD i []) := by
  have hl1 := St.active_rows_length st1 n h1
  have hl2 := St.active_rows_length st2 n h2
  have hN1 := St.tabInv_N st1 n h1
  have hN2 := St.tabInv_N st2 n h2
  have hin : InGroup st1 (combine st1.N (ofV c1) st1.active) :=
    ⟨ofV c1, by rw [length_ofV]; unfold gsOf; rw [List.length_map], PEq.refl _⟩
  obtain ⟨d, hd, hPE⟩ := hG _ hin
  have hd' : d.length = (gsOf st2).length := by unfold gsOf; rw [List.length_map]; exact hd
  refine ⟨toV (gsOf st2).length d, ?_⟩
  rw [← toVec_combine_ofV n st2.active (gsOf st2) rfl hl2, ← toVec_combine_ofV n st1.active (gsOf st1) rfl hl1,
    ofV_toV _ d hd']
  have := hPE.1
  rw [hN1, hN2] at this
  rw [this]

theorem supported_group (st1 st2 : State) (n : Nat) (m : List Bool) (h1 : TabInv st1 n) (h2 : TabInv st2 n)
    (hm : m.length = n) (hG : ∀ P : Pauli, InGroup st1 P ↔ InGroup st2 P) :
    supportedCount (gsOf st1) m = supportedCount (gsOf st2) m := by
  rw [supportedCount_card _ n m hm (gsOf_lengths st1 n h1), supportedCount_card _ n m hm (gsOf_lengths st2 n h2)]
  rw [card_pullback (fun c : Fin (gsOf st1).length → ZMod 2 => ∑ i, c i • toVec n ((gsOf st1).getD i []))
      (fun c d he => comb_injective st1 n h1 c d he)
      (fun v => gather (m.map (!·)) (fromVec v) = idStr (maskCount (m.map (!·)))),
    card_pullback (fun c : Fin (gsOf st2).length → ZMod 2 => ∑ i, c i • toVec n ((gsOf st2).getD i []))
      (fun c d he => comb_injective st2 n h2 c d he)
      (fun v => gather (m.map (!·)) (fromVec v) = idStr (maskCount (m.map (!·))))]
  have hrange : Set.range (fun c : Fin (gsOf st1).length → ZMod 2 => ∑ i, c i • toVec n ((gsOf st1).getD i [])) =
      Set.range (fun c : Fin (gsOf st2).length → ZMod 2 => ∑ i, c i • toVec n ((gsOf st2).getD i [])) := by
    apply Set.eq_of_subset_of_subset
    · rintro v ⟨c, rfl⟩
      exact comb_range_sub st1 st2 n h1 h2 (fun P hP => (hG P).mp hP) c
    · rintro v ⟨c, rfl⟩
      exact comb_range_sub st2 st1 n h2 h1 (fun P hP => (hG P).mpr hP) c
  rw [hrange]

/-! ## §6 the string action of a gate -/

/-- the string part of the forward / backward action of a gate (it does not depend on the phase of the operand) -/
def gstr (g : Gate) (N : Nat) (s : PStr) : PStr := (gateAct g N ⟨s, 0⟩).g
def gstrInv (g : Gate) (N : Nat) (s : PStr) : PStr := (gateActInv g N ⟨s, 0⟩).g

theorem maskedOp_g {f : Pauli → Pauli} (hf : Ci.PhaseLin f) (m : List Bool) (P : Pauli) :
    (Ci.maskedOp f m P).g = (Ci.maskedOp f m ⟨P.g, 0⟩).g := by
  simp only [Ci.maskedOp]
  rw [(hf ⟨gather m P.g, P.p⟩ ⟨gather m P.g, 0⟩ rfl).1]

theorem gateAct_g (g : Gate) (N : Nat) (P : Pauli) : (gateAct g N P).g = gstr g N P.g := by
  unfold gstr; rw [Ci.gateAct_eq, Ci.gateAct_eq]; exact maskedOp_g (Ci.phaseLin_gateFun g) _ P

theorem gateActInv_g (g : Gate) (N : Nat) (P : Pauli) : (gateActInv g N P).g = gstrInv g N P.g := by
  unfold gstrInv; rw [Ci.gateActInv_eq, Ci.gateActInv_eq]; exact maskedOp_g (Ci.phaseLin_gateFunInv g) _ P

theorem length_gstr (g : Gate) (N : Nat) (s : PStr) : (gstr g N s).length = s.length := Ci.length_gateAct g N _

theorem gstr_inv (g : Gate) (N : Nat) (hg : g.WF N) (s : PStr) (hs : s.length = N) :
    gstrInv g N (gstr g N s) = s := by
  have := (Ci.gate_inverse g N ⟨s, 0⟩ hg hs).1.1
  rw [gateActInv_g] at this
  exact this

/-- what is needed of the inner operation of a masked gate: sizes, multiplicativity on strings, the identity is fixed -/
structure InnerOK (h : Pauli → Pauli) (k : Nat) : Prop where
  len : ∀ X : Pauli, X.g.length = k → (h X).g.length = k
  one : ∀ p : Int, (h ⟨idStr k, p⟩).g = idStr k

theorem innerOK_rotate (G : Pauli) (k : Nat) (hG : G.g.length = k) : InnerOK (rotate G) k where
  len := fun X hX => by rw [length_rotate G X (hG.trans hX.symm)]; exact hX
  one := fun p => by rw [rotate_of_acq_zero G ⟨idStr k, p⟩ (acq_idStr_right G.g k)]

theorem innerOK_transform (M : List Pauli) (k : Nat) (hM : ValidMap M k) : InnerOK (transform M) k where
  len := fun X _ => length_transform M k hM.1 (fun R hR => (hM.2.1 R hR).1) X
  one := fun p => by
    unfold transform combine
    simp only [combineAux_idStr, mapN_of_length M k hM.1]

/-- forward and backward inner operations of a well-formed gate -/
theorem inner_of_wf (g : Gate) (N : Nat) (hg : g.WF N) :
    InnerOK (Ci.gateFun g) (maskCount (maskOf g.qubits N)) ∧ InnerOK (Ci.gateFunInv g) (maskCount (maskOf g.qubits N)) ∧
    ∀ X Y : Pauli, X.g.length = maskCount (maskOf g.qubits N) → Y.g.length = maskCount (maskOf g.qubits N) →
      (Ci.gateFun g (mul X Y)).g = xorS (Ci.gateFun g X).g (Ci.gateFun g Y).g := by
  obtain ⟨_, hq, hn, hk⟩ := hg
  rw [Ci.maskCount_maskOf g.qubits N hn hq]
  rcases hk with ⟨G, hgen, hGl, hGp⟩ | ⟨hgen, M, hM, hV⟩
  · rw [Ci.gateFun_gen g G hgen, Ci.gateFunInv_gen g G hgen]
    refine ⟨innerOK_rotate G _ hGl, innerOK_rotate (neg G) _ hGl, fun X Y hX hY => ?_⟩
    exact (rotate_mul G X Y hGp (hGl.trans hX.symm) (hGl.trans hY.symm)).1
  · obtain ⟨B, hB, hVB, _, _⟩ := Cp.inverse_spec M g.n hV
    rw [Ci.gateFun_map g M hgen hM, Ci.gateFunInv_map g M B hgen hM hB]
    refine ⟨innerOK_transform M _ hV, innerOK_transform B _ hVB, fun X Y hX hY => ?_⟩
    exact (transform_mul M g.n hV X Y hX hY).1

/-- the string action of a well-formed gate is additive -/
theorem gstr_add (g : Gate) (N : Nat) (hg : g.WF N) (a b : PStr) (ha : a.length = N) (hb : b.length = N) :
    gstr g N (xorS a b) = xorS (gstr g N a) (gstr g N b) := by
  obtain ⟨hF, _, hmul⟩ := inner_of_wf g N hg
  have hml : (maskOf g.qubits N).length = N := Ci.length_maskOf g.qubits N
  have hga := length_gather_eq _ N hml a ha
  have hgb := length_gather_eq _ N hml b hb
  unfold gstr
  simp only [Ci.gateAct_eq, Ci.maskedOp]
  rw [gather_xorS]
  have e : (Ci.gateFun g ⟨xorS (gather (maskOf g.qubits N) a) (gather (maskOf g.qubits N) b), 0⟩).g =
      xorS (Ci.gateFun g ⟨gather (maskOf g.qubits N) a, 0⟩).g (Ci.gateFun g ⟨gather (maskOf g.qubits N) b, 0⟩).g := by
    rw [← hmul ⟨gather (maskOf g.qubits N) a, 0⟩ ⟨gather (maskOf g.qubits N) b, 0⟩ hga hgb]
    exact (Ci.phaseLin_gateFun g ⟨xorS (gather (maskOf g.qubits N) a) (gather (maskOf g.qubits N) b), 0⟩
      (mul ⟨gather (maskOf g.qubits N) a, 0⟩ ⟨gather (maskOf g.qubits N) b, 0⟩) rfl).1
  rw [e]
  exact scatter_xorS _ a b _ _ (ha.trans hb.symm) (by rw [hF.len _ hga, hF.len _ hgb])

theorem getD_not_true (m : List Bool) (i : Nat) (h : (m.map (!·)).getD i false = true) : m.getD i false = false := by
  rw [List.getD_eq_getElem?_getD, List.getElem?_map] at h
  rw [List.getD_eq_getElem?_getD]
  cases hm : m[i]? with
  | none => rfl
  | some b => rw [hm] at h; cases b <;> simp_all

theorem getD_not_of_false (m : List Bool) (i : Nat) (hi : i < m.length) (h : m.getD i false = false) :
    (m.map (!·)).getD i false = true := by
  rw [List.getD_eq_getElem?_getD, List.getElem?_map, List.getElem?_eq_getElem hi]
  rw [List.getD_eq_getElem?_getD, List.getElem?_eq_getElem hi] at h
  simpa using h

theorem mem_of_getD_maskOf (qs : List Nat) (N i : Nat) (h : (maskOf qs N).getD i false = true) : i ∈ qs ∧ i < N := by
  constructor
  · by_contra hn
    rw [Ci.getD_maskOf_not_mem qs N i hn] at h
    exact absurd h (by simp)
  · by_contra hn
    rw [List.getD_eq_getElem?_getD, List.getElem?_eq_none (by rw [Ci.length_maskOf]; omega)] at h
    exact absurd h (by simp)

/-- a gate inside the region does not change the restriction to the complement -/
theorem gstr_inside (g : Gate) (N : Nat) (m : List Bool) (hin : ∀ q ∈ g.qubits, m.getD q false = true) (s : PStr) :
    gather (m.map (!·)) (gstr g N s) = gather (m.map (!·)) s := by
  unfold gstr
  rw [Ci.gateAct_eq]
  simp only [Ci.maskedOp]
  apply Ci.gather_scatter_disj
  rw [maskDisj_iff_getD]
  rintro i ⟨h1, h2⟩
  have := getD_not_true m i h1
  rw [hin i (mem_of_getD_maskOf _ _ _ h2).1] at this
  exact absurd this (by simp)

/-- a masked operation fixing the identity fixes every string that is the identity on the mask -/
theorem maskedOp_fix (h : Pauli → Pauli) (mq : List Bool) (hI : InnerOK h (maskCount mq)) (s : PStr) (p : Int)
    (hz : gather mq s = idStr (maskCount mq)) : (Ci.maskedOp h mq ⟨s, p⟩).g = s := by
  simp only [Ci.maskedOp]
  rw [hz, hI.one, ← hz, scatter_gather]

/-- a string supported in the region vanishes on the qubits of a gate outside the region -/
theorem vanish_on_gate (g : Gate) (N : Nat) (m : List Bool) (hm : m.length = N)
    (hout : ∀ q ∈ g.qubits, m.getD q false = false) (s : PStr) (hs : s.length = N)
    (hz : gather (m.map (!·)) s = idStr (maskCount (m.map (!·)))) :
    gather (maskOf g.qubits N) s = idStr (maskCount (maskOf g.qubits N)) := by
  rw [gather_eq_idStr_iff _ s (by rw [Ci.length_maskOf, hs])]
  intro i hi
  obtain ⟨hq, hlt⟩ := mem_of_getD_maskOf _ _ _ hi
  exact (gather_eq_idStr_iff _ s (by rw [List.length_map, hm, hs])).mp hz i
    (getD_not_of_false m i (by rw [hm]; exact hlt) (hout i hq))

theorem gstr_outside (g : Gate) (N : Nat) (m : List Bool) (hg : g.WF N) (hm : m.length = N)
    (hout : ∀ q ∈ g.qubits, m.getD q false = false) (s : PStr) (hs : s.length = N)
    (hz : gather (m.map (!·)) s = idStr (maskCount (m.map (!·)))) :
    gstr g N s = s ∧ gstrInv g N s = s := by
  obtain ⟨hF, hB, _⟩ := inner_of_wf g N hg
  have hv := vanish_on_gate g N m hm hout s hs hz
  unfold gstr gstrInv
  rw [Ci.gateAct_eq, Ci.gateActInv_eq]
  exact ⟨maskedOp_fix _ _ hF s 0 hv, maskedOp_fix _ _ hB s 0 hv⟩

/-- **a gate inside or outside the region keeps the set of strings supported in the region** -/
theorem gstr_vanish_iff (g : Gate) (N : Nat) (m : List Bool) (hg : g.WF N) (hm : m.length = N)
    (hio : (∀ q ∈ g.qubits, m.getD q false = true) ∨ (∀ q ∈ g.qubits, m.getD q false = false))
    (s : PStr) (hs : s.length = N) :
    gather (m.map (!·)) (gstr g N s) = idStr (maskCount (m.map (!·))) ↔
      gather (m.map (!·)) s = idStr (maskCount (m.map (!·))) := by
  rcases hio with hin | hout
  · rw [gstr_inside g N m hin s]
  · constructor
    · intro h
      have e1 := (gstr_outside g N m hg hm hout (gstr g N s) (by rw [length_gstr, hs]) h).2
      rw [gstr_inv g N hg s hs] at e1
      rw [← e1] at h
      exact h
    · intro h
      rw [(gstr_outside g N m hg hm hout s hs h).1]
      exact h

/-! ## §7b a local gate: the same count -/

theorem supported_gate (gs : List PStr) (N : Nat) (m : List Bool) (g : Gate) (hg : g.WF N) (hm : m.length = N)
    (hio : (∀ q ∈ g.qubits, m.getD q false = true) ∨ (∀ q ∈ g.qubits, m.getD q false = false))
    (hgs : ∀ x ∈ gs, x.length = N) :
    supportedCount (gs.map (gstr g N)) m = supportedCount gs m := by
  have hnm : (m.map (!·)).length = N := by rw [List.length_map, hm]
  have e : supportedCount (gs.map (gstr g N)) m =
      kernelCount (gs.map fun x => flat (gather (m.map (!·)) (gstr g N x))) (2 * maskCount (m.map (!·))) := by
    unfold supportedCount
    simp only []
    rw [List.map_map]
    rfl
  rw [e, kernelCount_lift (fun x => gather (m.map (!·)) (gstr g N x)) N (maskCount (m.map (!·)))
      (fun s hs => length_gather_eq _ N hnm _ (by rw [length_gstr, hs]))
      (fun a b ha hb => by rw [gstr_add g N hg a b ha hb, gather_xorS]) gs hgs,
    supportedCount_card gs N m hm hgs]
  apply Nat.card_congr
  apply Equiv.subtypeEquivRight
  intro c
  exact gstr_vanish_iff g N m hg hm hio _ (length_fromVec _)

theorem gsOf_map_gate (st : State) (g : Gate) (N : Nat) :
    gsOf ⟨st.rows.map (gateAct g N), st.r⟩ = (gsOf st).map (gstr g N) := by
  unfold gsOf State.active State.N
  simp only [List.length_map, ← List.map_take, ← List.map_drop, List.map_map]
  apply List.map_congr_left
  intro R _
  exact gateAct_g g N R

theorem entropy_gate (st : State) (N : Nat) (m : List Bool) (g : Gate) (h : TabInv st N) (hm : m.length = N)
    (hg : g.WF N)
    (hio : (∀ q ∈ g.qubits, m.getD q false = true) ∨ (∀ q ∈ g.qubits, m.getD q false = false)) :
    entropyMask ⟨st.rows.map (gateAct g N), st.r⟩ m = entropyMask st m := by
  apply entropyMask_congr _ _ N m (C05_gate_inv st N g h hg) h rfl hm
  rw [gsOf_map_gate]
  exact supported_gate _ N m g hg hm hio (gsOf_lengths st N h)

end Ei
end PC
