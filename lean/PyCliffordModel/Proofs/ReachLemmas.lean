import PyCliffordModel.Proofs.TrajLemmas
import PyCliffordModel.Spec.Reach
/-! # Proofs/ReachLemmas — helper lemmas for the second part of C05 (maps, gates, histories) -/
namespace PC
namespace Rc

/-! ## a row-wise operation that keeps lengths, commutation and Hermiticity keeps the invariant -/

theorem tabInv_map (st : State) (n : Nat) (f : Pauli → Pauli) (h : TabInv st n)
    (hlen : ∀ P : Pauli, P.g.length = n → (f P).g.length = n)
    (hacq : ∀ P Q : Pauli, P.g.length = n → Q.g.length = n → acq (f P).g (f Q).g = acq P.g Q.g)
    (hp : ∀ P : Pauli, P.g.length = n → P.p % 2 = 0 → (f P).p % 2 = 0) :
    TabInv ⟨st.rows.map f, st.r⟩ n := by
  obtain ⟨hl, hr, hg, hh⟩ := (tabInv_iff st n).1 h
  rw [tabInv_iff]
  refine ⟨by simpa using hl, hr, ⟨fun i hi => ?_, fun i j hi hj => ?_⟩, fun i hi1 hi2 => ?_⟩
  · unfold gAt; simp only
    rw [rowAt_map _ _ i (by omega)]
    exact hlen _ (hg.1 i hi)
  · unfold gAt; simp only
    rw [rowAt_map _ _ i (by omega), rowAt_map _ _ j (by omega), hacq _ _ (hg.1 i hi) (hg.1 j hj)]
    exact hg.2 i j hi hj
  · simp only
    rw [rowAt_map _ _ i (by omega)]
    exact hp _ (hg.1 i (by omega)) (hh i hi1 hi2)

/-! ## commutation through a mask: the masked and the unmasked parts add up -/

theorem acqSum_scatter_scatter (m : List Bool) : ∀ (a b s t : PStr), m.length ≤ a.length → a.length = b.length →
    s.length = maskCount m → t.length = maskCount m →
    acqSum (scatter m a s) (scatter m b t) = acqSum a b - acqSum (gather m a) (gather m b) + acqSum s t := by
  induction m with
  | nil =>
    intro a b s t _ _ hs ht
    rw [maskCount_nil] at hs ht
    have hs' : s = [] := List.eq_nil_of_length_eq_zero hs
    have ht' : t = [] := List.eq_nil_of_length_eq_zero ht
    subst hs' ht'
    simp [scatter_nil_left, gather_nil_left, acqSum_nil_left]
  | cons c ms ih =>
    intro a b s t hm hab hs ht
    cases a with
    | nil => simp at hm
    | cons a0 as =>
      cases b with
      | nil => simp at hab
      | cons b0 bs =>
        have hm' : ms.length ≤ as.length := by simpa using hm
        have hab' : as.length = bs.length := by simpa using hab
        cases c with
        | false =>
          rw [maskCount_cons_false] at hs ht
          rw [scatter_cons_false, scatter_cons_false, gather_cons_false, gather_cons_false, acqSum_cons, acqSum_cons,
            ih as bs s t hm' hab' hs ht]
          omega
        | true =>
          rw [maskCount_cons_true] at hs ht
          cases s with
          | nil => simp at hs
          | cons s0 ss =>
            cases t with
            | nil => simp at ht
            | cons t0 ts =>
              have hs' : ss.length = maskCount ms := by simpa using hs
              have ht' : ts.length = maskCount ms := by simpa using ht
              rw [scatter_cons_true_cons, scatter_cons_true_cons, gather_cons_true, gather_cons_true, acqSum_cons,
                acqSum_cons, acqSum_cons, acqSum_cons, ih as bs ss ts hm' hab' hs' ht']
              omega

/-- a masked operation whose inner operation keeps commutation keeps commutation -/
theorem acq_scatter_scatter (m : List Bool) (a b s t : PStr) (hm : m.length ≤ a.length) (hab : a.length = b.length)
    (hs : s.length = maskCount m) (ht : t.length = maskCount m)
    (he : acq s t = acq (gather m a) (gather m b)) :
    acq (scatter m a s) (scatter m b t) = acq a b := by
  unfold acq at *
  rw [acqSum_scatter_scatter m a b s t hm hab hs ht]
  omega

/-! ## `transformMasked` by a valid map -/

theorem length_transformMasked (M : List Pauli) (m : List Bool) (P : Pauli) :
    (transformMasked M m P).g.length = P.g.length := by
  unfold transformMasked; simp only; rw [length_scatter]

theorem transformMasked_acq (M : List Pauli) (m : List Bool) (n : Nat) (hm : m.length = n)
    (hM : ValidMap M (maskCount m)) (P Q : Pauli) (hP : P.g.length = n) (hQ : Q.g.length = n) :
    acq (transformMasked M m P).g (transformMasked M m Q).g = acq P.g Q.g := by
  have hlr : ∀ R ∈ M, R.g.length = maskCount m := fun R hR => (hM.2.1 R hR).1
  have hgP : (gather m P.g).length = maskCount m := length_gather m P.g (by omega)
  have hgQ : (gather m Q.g).length = maskCount m := length_gather m Q.g (by omega)
  unfold transformMasked
  simp only
  apply acq_scatter_scatter m P.g Q.g _ _ (by omega) (by omega)
    (Tr.length_transform M _ hM.1 hlr _) (Tr.length_transform M _ hM.1 hlr _)
  exact Tr.transform_acq M (maskCount m) hM ⟨gather m P.g, P.p⟩ ⟨gather m Q.g, Q.p⟩ hgP hgQ

theorem transformMasked_hermitian (M : List Pauli) (m : List Bool) (n : Nat) (hm : m.length = n)
    (hM : ValidMap M (maskCount m)) (P : Pauli) (hP : P.g.length = n) (hp : P.p % 2 = 0) :
    (transformMasked M m P).p % 2 = 0 := by
  have hgP : (gather m P.g).length = maskCount m := length_gather m P.g (by omega)
  unfold transformMasked
  simp only
  exact Tr.transform_hermitian M (maskCount m) hM ⟨gather m P.g, P.p⟩ hgP hp

/-! ## `stabilizer_state`: the projection fold and the final phase assignment -/

theorem allHerm_maximallyMixed (N : Nat) : AllHerm (maximallyMixed N).rows := by
  intro R hR
  unfold maximallyMixed toState mapToState at hR
  simp only [List.mem_append, List.mem_map] at hR
  have key : ∀ k, (rowAt (idMap N) k).p % 2 = 0 := by
    intro k
    by_cases hk : k < (idMap N).length
    · rw [(Tr.idMap_rows N _ (rowAt_mem _ k hk)).2]; rfl
    · rw [rowAt_of_le _ _ (by omega)]; rfl
  rcases hR with ⟨i, _, rfl⟩ | ⟨i, _, rfl⟩
  · exact key _
  · exact key _

theorem project_inv (n : Nat) (obs : List PStr) : ∀ (st : State), TabInv st n → AllHerm st.rows →
    (∀ o ∈ obs, o.length = n) → TabInv (project st obs) n ∧ AllHerm (project st obs).rows := by
  induction obs with
  | nil => intro st h hh _; exact ⟨h, hh⟩
  | cons o os ih =>
    intro st h hh ho
    obtain ⟨h1, h2⟩ := C05_project1_inv st n o h hh (ho o (by simp))
    have := ih (project1 st o) h1 h2 (fun o' ho' => ho o' (by simp [ho']))
    simpa [project, List.foldl_cons] using this

/-- rewriting only phases, with even phases on the active rows, keeps the invariant -/
theorem tabInv_mapIdx_phase (st : State) (n : Nat) (f : Nat → Pauli → Pauli) (h : TabInv st n)
    (hg : ∀ i R, (f i R).g = R.g)
    (hp : ∀ i R, st.r ≤ i → i < n → (f i R).p % 2 = 0) :
    TabInv ⟨st.rows.mapIdx f, st.r⟩ n := by
  obtain ⟨hl, hr, hgr, _⟩ := (tabInv_iff st n).1 h
  rw [tabInv_iff]
  refine ⟨by simpa using hl, hr, GramF.congr hgr (fun k hk => ?_), fun i hi1 hi2 => ?_⟩
  · unfold gAt; simp only; rw [rowAt_mapIdx _ _ k (by omega), hg]
  · simp only; rw [rowAt_mapIdx _ _ i (by omega)]; exact hp i _ hi1 hi2

theorem rowAt_p_even (T : List Pauli) (h : ∀ s ∈ T, s.p % 2 = 0) (k : Nat) : (rowAt T k).p % 2 = 0 := by
  by_cases hk : k < T.length
  · exact h _ (rowAt_mem T k hk)
  · rw [rowAt_of_le _ _ (by omega)]; rfl

end Rc
end PC
