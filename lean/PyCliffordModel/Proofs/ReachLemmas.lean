import PyCliffordModel.Proofs.TrajLemmas
import PyCliffordModel.Spec.Reach
/-! # Proofs/ReachLemmas — helper lemmas for the second part of C05 (maps, gates, histories) -/
namespace PC

end PC
