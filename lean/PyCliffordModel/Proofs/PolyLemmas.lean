import PyCliffordModel.Proofs.Algebra
import PyCliffordModel.Spec.PolySpec
/-! # Proofs/PolyLemmas — helper lemmas for C15 (Gaussian-rational coefficients, `coef`, `reduce`) -/
namespace PC

end PC
