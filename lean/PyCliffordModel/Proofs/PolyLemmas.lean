import PyCliffordModel.Proofs.Algebra
import PyCliffordModel.Spec.PolySpec
/-! # Proofs/PolyLemmas — helper lemmas for C15 (Gaussian-rational coefficients, `coef`, `reduce`) -/
namespace PC
namespace Cx

theorem ext' {a b : Cx} (h1 : a.re = b.re) (h2 : a.im = b.im) : a = b := by
  cases a; cases b; simp_all

theorem add_comm (a b : Cx) : a.add b = b.add a := by
  apply ext' <;> simp only [add] <;> grind
theorem add_assoc (a b c : Cx) : (a.add b).add c = a.add (b.add c) := by
  apply ext' <;> simp only [add] <;> grind
theorem add_left_comm (a b c : Cx) : a.add (b.add c) = b.add (a.add c) := by
  apply ext' <;> simp only [add] <;> grind
theorem zero_add (a : Cx) : zero.add a = a := by
  apply ext' <;> simp only [add, zero] <;> grind
theorem add_zero (a : Cx) : a.add zero = a := by
  apply ext' <;> simp only [add, zero] <;> grind
theorem mul_comm (a b : Cx) : a.mul b = b.mul a := by
  apply ext' <;> simp only [mul] <;> grind
theorem mul_assoc (a b c : Cx) : (a.mul b).mul c = a.mul (b.mul c) := by
  apply ext' <;> simp only [mul] <;> grind
theorem mul_left_comm (a b c : Cx) : a.mul (b.mul c) = b.mul (a.mul c) := by
  apply ext' <;> simp only [mul] <;> grind
theorem mul_add (a b c : Cx) : a.mul (b.add c) = (a.mul b).add (a.mul c) := by
  apply ext' <;> simp only [mul, add] <;> grind
theorem add_mul (a b c : Cx) : (a.add b).mul c = (a.mul c).add (b.mul c) := by
  apply ext' <;> simp only [mul, add] <;> grind
theorem neg_add (a b : Cx) : (a.add b).neg = a.neg.add b.neg := by
  apply ext' <;> simp only [neg, add] <;> grind
theorem mul_neg (a b : Cx) : a.mul b.neg = (a.mul b).neg := by
  apply ext' <;> simp only [neg, mul] <;> grind
theorem neg_mul (a b : Cx) : a.neg.mul b = (a.mul b).neg := by
  apply ext' <;> simp only [neg, mul] <;> grind
theorem neg_zero : zero.neg = zero := by
  apply ext' <;> simp only [neg, zero] <;> grind
theorem one_mul (a : Cx) : one.mul a = a := by
  apply ext' <;> simp only [mul, one] <;> grind
theorem mul_one (a : Cx) : a.mul one = a := by
  apply ext' <;> simp only [mul, one] <;> grind
theorem zero_mul (a : Cx) : zero.mul a = zero := by
  apply ext' <;> simp only [mul, zero] <;> grind
theorem mul_zero (a : Cx) : a.mul zero = zero := by
  apply ext' <;> simp only [mul, zero] <;> grind

theorem ipow_congr {p q : Int} (h : p % 4 = q % 4) : ipow p = ipow q := by
  unfold ipow; rw [h]
theorem ipow_mod (p : Int) : ipow (p % 4) = ipow p := ipow_congr (by omega)
theorem ipow_zero : ipow 0 = one := rfl
theorem ipow_of_mod_zero {p : Int} (h : p % 4 = 0) : ipow p = one := by
  rw [← ipow_zero]; exact ipow_congr (by omega)

theorem ipow_add (p q : Int) : ipow (p + q) = (ipow p).mul (ipow q) := by
  have h : ipow (p + q) = ipow (p % 4 + q % 4) := ipow_congr (by omega)
  rw [h, ← ipow_mod p, ← ipow_mod q]
  have hp : p % 4 = 0 ∨ p % 4 = 1 ∨ p % 4 = 2 ∨ p % 4 = 3 := by omega
  have hq : q % 4 = 0 ∨ q % 4 = 1 ∨ q % 4 = 2 ∨ q % 4 = 3 := by omega
  rcases hp with hp | hp | hp | hp <;> rcases hq with hq | hq | hq | hq <;> rw [hp, hq] <;>
    apply ext' <;> simp [ipow, mul] <;> grind

end Cx

/-! ## `coef` is additive over the term list -/

/-- the contribution of one term to the coefficient of `g` -/
def termVal (t : Term) (g : PStr) : Cx := if t.1.g = g then t.2.mul (Cx.ipow t.1.p) else Cx.zero

theorem coef_foldl (a : Poly) (g : PStr) (acc : Cx) :
    a.foldl (fun acc t => if t.1.g = g then acc.add (t.2.mul (Cx.ipow t.1.p)) else acc) acc
      = acc.add (coef a g) := by
  induction a generalizing acc with
  | nil => simp [coef, Cx.add_zero]
  | cons t a ih =>
    simp only [coef, List.foldl_cons]
    rw [ih, ih (acc := if t.1.g = g then _ else _)]
    split <;> simp [Cx.add_assoc, Cx.zero_add]

theorem coef_nil (g : PStr) : coef [] g = Cx.zero := rfl
theorem coef_cons (t : Term) (a : Poly) (g : PStr) : coef (t :: a) g = (termVal t g).add (coef a g) := by
  show List.foldl _ _ _ = _
  rw [List.foldl_cons, coef_foldl]; unfold termVal
  split <;> simp [Cx.zero_add]
theorem coef_single (t : Term) (g : PStr) : coef [t] g = termVal t g := by
  rw [coef_cons, coef_nil, Cx.add_zero]

theorem coef_append (a b : Poly) (g : PStr) : coef (a ++ b) g = (coef a g).add (coef b g) := by
  induction a with
  | nil => simp [coef_nil, Cx.zero_add]
  | cons t a ih => simp [coef_cons, ih, Cx.add_assoc]

theorem coef_neg (a : Poly) (g : PStr) : coef (polyNeg a) g = (coef a g).neg := by
  induction a with
  | nil => simp [polyNeg, coef_nil, Cx.neg_zero]
  | cons t a ih =>
    simp only [polyNeg, List.map_cons] at ih ⊢
    rw [coef_cons, coef_cons, ih, Cx.neg_add]; congr 1
    unfold termVal; split <;> simp [Cx.neg_mul, Cx.neg_zero]

theorem coef_smul (c : Cx) (a : Poly) (g : PStr) : coef (polySmul c a) g = c.mul (coef a g) := by
  induction a with
  | nil => simp [polySmul, coef_nil, Cx.mul_zero]
  | cons t a ih =>
    simp only [polySmul, List.map_cons] at ih ⊢
    rw [coef_cons, coef_cons, ih, Cx.mul_add]; congr 1
    unfold termVal; split <;> simp [Cx.mul_assoc, Cx.mul_zero]


/-! ## the row order of `numpy.unique` -/

theorem ltBits_irrefl (a : List Bool) : ltBits a a = false := by
  induction a with
  | nil => rfl
  | cons x a ih => simp [ltBits, ih]

theorem ltBits_trans (a b c : List Bool) (h1 : ltBits a b = true) (h2 : ltBits b c = true) : ltBits a c = true := by
  induction a generalizing b c with
  | nil => cases b <;> cases c <;> simp_all [ltBits]
  | cons x a ih =>
    cases b with
    | nil => simp [ltBits] at h1
    | cons y b =>
      cases c with
      | nil => simp [ltBits] at h2
      | cons z c =>
        simp only [ltBits] at h1 h2 ⊢
        cases x <;> cases y <;> cases z <;> simp_all
        exact ih _ _ h1 h2
        exact ih _ _ h1 h2

theorem ltBits_total (a b : List Bool) (hne : a ≠ b) (h : ltBits a b = false) : ltBits b a = true := by
  induction a generalizing b with
  | nil => cases b <;> simp_all [ltBits]
  | cons x a ih =>
    cases b with
    | nil => simp [ltBits]
    | cons y b =>
      simp only [ltBits] at h ⊢
      cases x <;> cases y <;> simp_all

theorem flat_inj (g h : PStr) (e : flat g = flat h) : g = h := by
  induction g generalizing h with
  | nil => cases h <;> simp_all [flat]
  | cons q g ih =>
    cases h with
    | nil => simp [flat] at e
    | cons r h =>
      simp only [flat, List.cons.injEq] at e
      rw [ih h e.2.2]
      congr 1
      exact Prod.ext e.1 e.2.1


/-! ## `insertTerm` / `reduce` -/

/-- coefficient lookup in an aggregated list -/
def look : List (PStr × Cx) → PStr → Cx
  | [], _ => Cx.zero
  | (h, d) :: r, g => (if h = g then d else Cx.zero).add (look r g)

theorem look_of_not_mem (L : List (PStr × Cx)) (g : PStr) (h : g ∉ L.map Prod.fst) : look L g = Cx.zero := by
  induction L with
  | nil => rfl
  | cons x L ih =>
    obtain ⟨k, d⟩ := x
    simp only [List.map_cons, List.mem_cons, not_or] at h
    simp only [look]
    rw [if_neg (fun e => h.1 e.symm), ih h.2, Cx.zero_add]

theorem look_insertTerm (g : PStr) (c : Cx) (L : List (PStr × Cx)) (g' : PStr) :
    look (insertTerm g c L) g' = (look L g').add (if g = g' then c else Cx.zero) := by
  induction L with
  | nil => simp [insertTerm, look, Cx.zero_add, Cx.add_zero]
  | cons x L ih =>
    obtain ⟨k, d⟩ := x
    simp only [insertTerm]
    split
    · next e =>
      subst e
      simp only [look]
      split <;> simp [Cx.add_comm, Cx.add_left_comm, Cx.zero_add]
    · split
      · simp only [look]
        simp [Cx.add_comm]
      · simp only [look, ih]
        simp [Cx.add_assoc]

theorem mem_keys_insertTerm (g : PStr) (c : Cx) (L : List (PStr × Cx)) (k : PStr) :
    k ∈ (insertTerm g c L).map Prod.fst ↔ k = g ∨ k ∈ L.map Prod.fst := by
  induction L with
  | nil => simp [insertTerm]
  | cons x L ih =>
    obtain ⟨h, d⟩ := x
    simp only [insertTerm]
    split
    · next e => subst e; simp
    · split
      · simp
      · simp only [List.map_cons, List.mem_cons, ih]
        constructor <;> (intro hh; rcases hh with hh | hh | hh <;> simp [hh])

/-- keys strictly increasing for the row order of `numpy.unique` -/
def SortedKeys (L : List (PStr × Cx)) : Prop :=
  (L.map Prod.fst).Pairwise (fun x y => ltBits (flat x) (flat y) = true)

theorem SortedKeys.nodup {L : List (PStr × Cx)} (h : SortedKeys L) : (L.map Prod.fst).Nodup := by
  unfold SortedKeys at h
  refine List.Pairwise.imp ?_ h
  intro a b hab e
  subst e
  rw [ltBits_irrefl] at hab; cases hab

theorem sortedKeys_insertTerm (g : PStr) (c : Cx) (L : List (PStr × Cx)) (hL : SortedKeys L) :
    SortedKeys (insertTerm g c L) := by
  induction L with
  | nil => simp [insertTerm, SortedKeys]
  | cons x L ih =>
    obtain ⟨h, d⟩ := x
    unfold SortedKeys at hL ih ⊢
    simp only [List.map_cons, List.pairwise_cons] at hL
    simp only [insertTerm]
    split
    · simpa using hL
    · next hne =>
      split
      · next hlt =>
        simp only [List.map_cons, List.pairwise_cons, List.mem_cons]
        refine ⟨?_, hL⟩
        intro k hk
        rcases hk with rfl | hk
        · exact hlt
        · exact ltBits_trans _ _ _ hlt (hL.1 k hk)
      · next hlt =>
        simp only [List.map_cons, List.pairwise_cons, mem_keys_insertTerm]
        refine ⟨?_, ih hL.2⟩
        intro k hk
        rcases hk with rfl | hk
        · exact ltBits_total _ _ (fun e => hne (flat_inj _ _ e)) (by simpa using hlt)
        · exact hL.1 k hk

/-- the aggregation loop of `reduce` -/
def merge (a : Poly) (acc : List (PStr × Cx)) : List (PStr × Cx) :=
  a.foldl (fun acc t => insertTerm t.1.g (t.2.mul (Cx.ipow t.1.p)) acc) acc

theorem sortedKeys_merge (a : Poly) (acc : List (PStr × Cx)) (h : SortedKeys acc) : SortedKeys (merge a acc) := by
  induction a generalizing acc with
  | nil => exact h
  | cons t a ih => exact ih _ (sortedKeys_insertTerm _ _ _ h)

theorem look_merge (a : Poly) (acc : List (PStr × Cx)) (g : PStr) :
    look (merge a acc) g = (look acc g).add (coef a g) := by
  induction a generalizing acc with
  | nil => simp [merge, coef_nil, Cx.add_zero]
  | cons t a ih =>
    show look (merge a _) g = _
    rw [ih, look_insertTerm, coef_cons, Cx.add_assoc]; rfl

theorem reduce_eq (a : Poly) (tn td : Nat) :
    reduce a tn td = ((merge a []).filter fun gc => gc.2.norm2 > tolSq tn td).map fun gc => (⟨gc.1, 0⟩, gc.2) := rfl

theorem coef_emit (L : List (PStr × Cx)) (g : PStr) :
    coef (L.map fun gc => ((⟨gc.1, 0⟩ : Pauli), gc.2)) g = look L g := by
  induction L with
  | nil => rfl
  | cons x L ih =>
    obtain ⟨h, d⟩ := x
    simp only [List.map_cons, coef_cons, ih, look, termVal, Cx.ipow_zero, Cx.mul_one]

theorem look_filter (L : List (PStr × Cx)) (hL : (L.map Prod.fst).Nodup) (tn td : Nat) (g : PStr) :
    look (L.filter fun gc => gc.2.norm2 > tolSq tn td) g = keep (look L g) tn td := by
  induction L with
  | nil => simp [look, keep]
  | cons x L ih =>
    obtain ⟨h, d⟩ := x
    simp only [List.map_cons, List.nodup_cons] at hL
    by_cases e : h = g
    · subst e
      have h0 : look L h = Cx.zero := look_of_not_mem _ _ hL.1
      have h1 : look (L.filter fun gc => gc.2.norm2 > tolSq tn td) h = Cx.zero := by
        rw [ih hL.2, h0]; simp [keep]
      simp only [List.filter_cons]
      split
      · next hk =>
        simp only [look, h0, h1, Cx.add_zero, if_true, keep]
        rw [if_pos (by simpa using hk)]
      · next hk =>
        simp only [look, h0, h1, Cx.add_zero, if_true, keep]
        rw [if_neg (by simpa using hk)]
    · simp only [List.filter_cons]
      split
      · simp only [look, if_neg e, Cx.zero_add]; exact ih hL.2
      · simp only [look, if_neg e, Cx.zero_add]; exact ih hL.2

theorem reduce_spec (a : Poly) (tn td : Nat) (g : PStr) :
    ((reduce a tn td).map fun t => t.1.g).Nodup ∧ (∀ t ∈ reduce a tn td, t.1.p = 0) ∧
    coef (reduce a tn td) g = keep (coef a g) tn td := by
  have hs : SortedKeys (merge a []) := sortedKeys_merge a [] (by simp [SortedKeys])
  refine ⟨?_, ?_, ?_⟩
  · rw [reduce_eq, List.map_map]
    exact (hs.nodup.sublist ((List.filter_sublist).map Prod.fst))
  · intro t ht
    rw [reduce_eq] at ht
    simp only [List.mem_map] at ht
    obtain ⟨x, -, rfl⟩ := ht
    rfl
  · rw [reduce_eq, coef_emit, look_filter _ hs.nodup, look_merge]
    simp [look, Cx.zero_add]


/-! ## products, numbers, trace -/

theorem polyMatmul_nil (b : Poly) : polyMatmul [] b = [] := rfl
theorem polyMatmul_cons (x : Term) (a b : Poly) :
    polyMatmul (x :: a) b = b.map (fun y => (mul x.1 y.1, x.2.mul y.2)) ++ polyMatmul a b :=
  batchDot_cons Cx.mul x a b

theorem polyMatmul_append (a a' b : Poly) : polyMatmul (a ++ a') b = polyMatmul a b ++ polyMatmul a' b := by
  simp [polyMatmul, batchDot]

theorem coef_polyMatmul_append_right (a b b' : Poly) (g : PStr) :
    coef (polyMatmul a (b ++ b')) g = (coef (polyMatmul a b) g).add (coef (polyMatmul a b') g) := by
  induction a with
  | nil => simp [polyMatmul_nil, coef_nil, Cx.add_zero]
  | cons x a ih =>
    simp only [polyMatmul_cons, List.map_append, coef_append, ih]
    simp only [Cx.add_assoc]
    congr 1
    simp only [Cx.add_left_comm]

theorem mul_phase_shift (P Q : Pauli) (k : Int) :
    mul ⟨P.g, P.p + k⟩ Q = ⟨(mul P Q).g, ((mul P Q).p + k) % 4⟩ := by
  simp only [mul]; congr 1; omega

theorem matmul_phase (P Q : Pauli) (c d : Cx) (k : Int) (g : PStr) :
    coef (polyMatmul [(⟨P.g, P.p + k⟩, c)] [(Q, d)]) g = coef (polyMatmul [(P, c.mul (Cx.ipow k))] [(Q, d)]) g := by
  simp only [polyMatmul_cons, polyMatmul_nil, List.map_cons, List.map_nil, List.append_nil, coef_single,
    mul_phase_shift, termVal]
  split
  · rw [Cx.ipow_mod, Cx.ipow_add]
    simp only [Cx.mul_assoc]
    congr 1
    simp only [Cx.mul_left_comm, Cx.mul_comm]
  · rfl

theorem coef_smul_identity (c : Cx) (N : Nat) (g : PStr) :
    coef (polySmul c (polyIdentity N)) g = if g = idStr N then c else Cx.zero := by
  simp only [polySmul, polyIdentity, List.map_cons, List.map_nil, coef_single, termVal, Cx.ipow_zero, Cx.mul_one]
  by_cases e : g = idStr N
  · rw [if_pos e, if_pos e.symm]
  · rw [if_neg e, if_neg (fun e' => e e'.symm)]

theorem anyBit_eq_false_iff (g : PStr) : anyBit g = false ↔ g = idStr g.length := by
  induction g with
  | nil => simp [anyBit, idStr]
  | cons q g ih =>
    obtain ⟨x, z⟩ := q
    simp only [anyBit, List.any_cons, List.length_cons, idStr_succ, List.cons.injEq, Bool.or_eq_false_iff,
      Prod.mk.injEq] at ih ⊢
    rw [ih]

theorem traceStr_idStr (N : Nat) : traceStr (idStr N) = (2 : Rat) ^ N := by
  have h := (anyBit_eq_false_iff (idStr N)).2 (by rw [length_idStr])
  simp [traceStr, h, length_idStr]

theorem traceStr_of_ne (g : PStr) (h : g ≠ idStr g.length) : traceStr g = 0 := by
  have : anyBit g = true := by
    cases hb : anyBit g
    · exact absurd ((anyBit_eq_false_iff g).1 hb) h
    · rfl
  simp [traceStr, this]

theorem polyTrace_foldl (a : Poly) (acc : Cx) :
    a.foldl (fun acc t => acc.add (t.2.mul ⟨traceStr t.1.g, 0⟩)) acc = acc.add (polyTrace a) := by
  induction a generalizing acc with
  | nil => simp [polyTrace, Cx.add_zero]
  | cons t a ih =>
    simp only [polyTrace, List.foldl_cons]
    rw [ih, ih (acc := Cx.zero.add _), Cx.zero_add, Cx.add_assoc]

theorem polyTrace_nil : polyTrace [] = Cx.zero := rfl
theorem polyTrace_cons (t : Term) (a : Poly) :
    polyTrace (t :: a) = (t.2.mul ⟨traceStr t.1.g, 0⟩).add (polyTrace a) := by
  show List.foldl _ _ _ = _
  rw [List.foldl_cons, polyTrace_foldl, Cx.zero_add]

theorem trace_partial (a : Poly) (N : Nat) (hN : ∀ t ∈ a, t.1.g.length = N)
    (hid : ∀ t ∈ a, t.1.g = idStr N → t.1.p % 4 = 0) :
    polyTrace a = (Cx.mk ((2 : Rat) ^ N) 0).mul (coef a (idStr N)) := by
  induction a with
  | nil => simp [polyTrace_nil, coef_nil, Cx.mul_zero]
  | cons t a ih =>
    have hN' : ∀ t ∈ a, t.1.g.length = N := fun t ht => hN t (List.mem_cons_of_mem _ ht)
    have hid' : ∀ t ∈ a, t.1.g = idStr N → t.1.p % 4 = 0 := fun t ht => hid t (List.mem_cons_of_mem _ ht)
    rw [polyTrace_cons, coef_cons, Cx.mul_add, ih hN' hid']
    congr 1
    have hl := hN t List.mem_cons_self
    unfold termVal
    by_cases e : t.1.g = idStr N
    · rw [if_pos e, Cx.ipow_of_mod_zero (hid t List.mem_cons_self e), Cx.mul_one, e, traceStr_idStr, Cx.mul_comm]
    · rw [if_neg e, traceStr_of_ne _ (by rw [hl]; exact e), Cx.mul_zero]
      exact Cx.mul_zero _

end PC
