import PyCliffordModel.Properties.C14b
import PyCliffordModel.Properties.C16e
import PyCliffordModel.Properties.C10b
import PyCliffordModel.Proofs.ShadowLemmas
/-! helper lemmas for `Properties/C14c.lean` -/
namespace PC
namespace Tj4
open Cs (Sim)

/-! ## the structure of a circuit built by `buildProg` -/

/-- a layer as `take` / `measure` build it: a gate layer without compiled maps whose gates are well-formed, satisfy `Q`
    and are pairwise independent, or a measurement layer on valid qubits -/
def LOK (N : Nat) (Q : Gate → Prop) : Layer → Prop
  | .gates gs f b => f = none ∧ b = none ∧ (∀ g ∈ gs, g.WF N ∧ Q g) ∧ gs.Pairwise (fun g h => g.indep h = true)
  | .meas qs _ _ => qs ≠ [] ∧ ∀ q ∈ qs, q < N

def SInv (N : Nat) (Q : Gate → Prop) (c : Circ) : Prop :=
  c.N = N ∧ c.fmap = none ∧ c.bmap = none ∧ ∀ L ∈ c.layers, LOK N Q L

theorem sinv_init (N : Nat) (Q : Gate → Prop) : SInv N Q { N := N } := by
  refine ⟨rfl, rfl, rfl, ?_⟩
  intro L hL
  simp only [List.mem_singleton] at hL
  subst hL
  exact ⟨rfl, rfl, fun g hg => (by cases hg), List.Pairwise.nil⟩

theorem lok_append (N : Nat) (Q : Gate → Prop) (L : Layer) (g : Gate) (h : LOK N Q L) (hg : g.WF N ∧ Q g)
    (hi : L.indep g = true) : LOK N Q (L.append g) := by
  cases L with
  | meas q r k => exact h
  | gates gs f b =>
    obtain ⟨h1, h2, h3, h4⟩ := h
    refine ⟨h1, h2, ?_, ?_⟩
    · intro x hx
      rcases List.mem_append.1 hx with hx | hx
      · exact h3 x hx
      · rw [List.mem_singleton] at hx; subst hx; exact hg
    · rw [List.pairwise_append]
      refine ⟨h4, List.pairwise_singleton _ _, ?_⟩
      intro a ha b hb
      simp only [List.mem_singleton] at hb
      subst hb
      simp only [Layer.indep, List.all_eq_true] at hi
      exact hi a ha

theorem takeRev_lok (N : Nat) (Q : Gate → Prop) (g : Gate) (hg : g.WF N ∧ Q g) : ∀ (rest : List Layer) (L : Layer),
    L.indep g = true → (∀ X ∈ L :: rest, LOK N Q X) → ∀ X ∈ takeRev (L :: rest) g, LOK N Q X := by
  intro rest
  induction rest with
  | nil =>
    intro L hi hp X hX
    simp only [takeRev, List.mem_singleton] at hX
    subst hX
    exact lok_append N Q L g (hp L (by simp)) hg hi
  | cons P rest ih =>
    intro L hi hp
    have stop : ∀ X ∈ L.append g :: P :: rest, LOK N Q X := by
      intro X hX
      rcases List.mem_cons.1 hX with rfl | hX
      · exact lok_append N Q L g (hp L (by simp)) hg hi
      · exact hp X (List.mem_cons_of_mem _ hX)
    unfold takeRev
    by_cases hm : P.isMeas = true
    · rw [if_pos hm]; exact stop
    · rw [if_neg hm]
      by_cases hPi : P.indep g = true
      · rw [if_pos hPi]
        intro X hX
        rcases List.mem_cons.1 hX with rfl | hX
        · exact hp _ (by simp)
        · exact ih P hPi (fun Y hY => hp Y (List.mem_cons_of_mem _ hY)) X hX
      · rw [if_neg hPi]; exact stop

theorem take_sinv (N : Nat) (Q : Gate → Prop) (c c' : Circ) (g : Gate) (hI : SInv N Q c) (hg : g.WF N ∧ Q g)
    (ht : c.take g = .ok c') : SInv N Q c' := by
  obtain ⟨hN, hf, hbm, hp⟩ := hI
  unfold Circ.take at ht
  split at ht
  · cases ht
  · split at ht
    · cases ht
    · cases hrev : c.layers.reverse with
      | nil => rw [hrev] at ht; cases ht
      | cons L rest =>
        have hlay : c.layers = (L :: rest).reverse := by rw [← hrev, List.reverse_reverse]
        rw [hrev] at ht
        dsimp only at ht
        split at ht
        · rename_i hc
          rw [Bool.and_eq_true] at hc
          cases ht
          have hpR : ∀ X ∈ L :: rest, LOK N Q X := by
            intro X hX; apply hp; rw [hlay]; exact List.mem_reverse.2 hX
          have hpl := takeRev_lok N Q g hg rest L hc.2 hpR
          exact ⟨hN, hf, hbm, fun X hX => hpl X (List.mem_reverse.1 hX)⟩
        · cases ht
          refine ⟨hN, hf, hbm, ?_⟩
          intro X hX
          rcases List.mem_append.1 hX with hX | hX
          · exact hp X hX
          · simp only [List.mem_singleton] at hX
            subst hX
            refine ⟨rfl, rfl, ?_, List.pairwise_singleton _ _⟩
            intro x hx
            rw [List.mem_singleton] at hx; subst hx; exact hg

theorem takeMeas_sinv (N : Nat) (Q : Gate → Prop) (c c' : Circ) (qs : List Nat) (hI : SInv N Q c)
    (hq : qs ≠ [] ∧ ∀ q ∈ qs, q < N) (ht : c.takeMeas qs = .ok c') : SInv N Q c' := by
  obtain ⟨hN, hf, hbm, hp⟩ := hI
  unfold Circ.takeMeas at ht
  split at ht
  · cases ht
  · split at ht
    · cases ht
    · cases ht
      refine ⟨hN, hf, hbm, ?_⟩
      intro X hX
      rcases List.mem_append.1 hX with hX | hX
      · exact hp X hX
      · simp only [List.mem_singleton] at hX
        subst hX
        exact hq

theorem fold_sinv (N : Nat) (Q : Gate → Prop) (prog : List Item) : ∀ (c0 c : Circ), SInv N Q c0 →
    (∀ it ∈ prog, it.WF N) → (∀ g, Item.gate g ∈ prog → Q g) → prog.foldlM Tj3.progStep c0 = .ok c → SInv N Q c := by
  induction prog with
  | nil =>
    intro c0 c hI _ _ h
    have : c0 = c := by simpa [List.foldlM, pure, Except.pure] using h
    subst this
    exact hI
  | cons it prog ih =>
    intro c0 c hI hw hq h
    rw [List.foldlM_cons] at h
    cases ht : Tj3.progStep c0 it with
    | error e => rw [ht] at h; cases h
    | ok c1 =>
      rw [ht] at h
      have h1 : SInv N Q c1 := by
        cases it with
        | gate g => exact take_sinv N Q c0 c1 g hI ⟨hw (Item.gate g) (by simp), hq g (by simp)⟩ ht
        | meas qs => exact takeMeas_sinv N Q c0 c1 qs hI (hw (Item.meas qs) (by simp)) ht
      exact ih c1 c h1 (fun x hx => hw x (by simp [hx])) (fun g hg => hq g (by simp [hg])) h

theorem build_sinv (N : Nat) (Q : Gate → Prop) (prog : List Item) (c : Circ) (hw : ∀ it ∈ prog, it.WF N)
    (hq : ∀ g, Item.gate g ∈ prog → Q g) (hb : buildProg N prog = .ok c) : SInv N Q c := by
  have hb' : prog.foldlM Tj3.progStep { N := N } = .ok c := by rw [← Tj3.buildProg_eq]; exact hb
  exact fold_sinv N Q prog { N := N } c (sinv_init N Q) hw hq hb'

/-! ## compiling the layers -/

/-- a gate layer and its compiled form -/
def CompQ (N : Nat) (Q : Gate → Prop) (L' L : Layer) : Prop :=
  ∃ gs' gs F B, L' = .gates gs' (some F) (some B) ∧ L = .gates gs none none ∧
    compileGates N gs (idMap N) (idMap N) = .ok (gs', F, B) ∧ (∀ g ∈ gs, g.WF N ∧ Q g) ∧
    gs.Pairwise (fun g h => g.indep h = true)

/-- a layer of the compiled circuit and the layer it comes from -/
def LRel (N : Nat) (Q : Gate → Prop) (L' L : Layer) : Prop :=
  CompQ N Q L' L ∨ ∃ qs a b, L' = .meas qs a b ∧ L = .meas qs a b ∧ qs ≠ [] ∧ ∀ q ∈ qs, q < N

theorem cl_gates (N : Nat) (gs gs' : List Gate) (F B F0 B0 : CMap) (Ls : List Layer) (f b : Option CMap)
    (hc : compileGates N gs (idMap N) (idMap N) = .ok (gs', F, B)) :
    compileLayers N (.gates gs f b :: Ls) F0 B0 = (match compileLayers N Ls (compose F0 F) (compose B B0) with
      | .error e => .error e
      | .ok (Ls', F', B') => .ok (.gates gs' (some F) (some B) :: Ls', F', B')) := by
  rw [compileLayers]
  simp only [Layer.compile, hc]
  rfl

theorem cl_meas (N : Nat) (qs : List Nat) (a : Option (List Int)) (b : Option Nat) (F0 B0 : CMap) (Ls : List Layer) :
    compileLayers N (.meas qs a b :: Ls) F0 B0 = (match compileLayers N Ls F0 B0 with
      | .error e => .error e
      | .ok (Ls', F', B') => .ok (.meas qs a b :: Ls', F', B')) := by
  rw [compileLayers]
  simp only [Layer.compile]
  rfl

theorem compileLayers_rel (N : Nat) (Q : Gate → Prop) : ∀ (Ls : List Layer) (F0 B0 : CMap),
    (∀ L ∈ Ls, LOK N Q L) →
    ∃ Ls' F' B', compileLayers N Ls F0 B0 = .ok (Ls', F', B') ∧ List.Forall₂ (LRel N Q) Ls' Ls := by
  intro Ls
  induction Ls with
  | nil => intro F0 B0 _; exact ⟨[], F0, B0, rfl, List.Forall₂.nil⟩
  | cons L Ls ih =>
    intro F0 B0 hp
    have hpl : ∀ X ∈ Ls, LOK N Q X := fun X hX => hp X (by simp [hX])
    have hL := hp L (by simp)
    cases L with
    | gates gs f b =>
      obtain ⟨rfl, rfl, hw, hpw⟩ := hL
      obtain ⟨⟨gs', F, B⟩, hc⟩ := Cs.compileGates_wf_ok N gs (idMap N) (idMap N) (fun g hg => (hw g hg).1)
      obtain ⟨Ls', F', B', e, hrel⟩ := ih (compose F0 F) (compose B B0) hpl
      refine ⟨_, F', B', ?_, List.Forall₂.cons (Or.inl ⟨gs', gs, F, B, rfl, rfl, hc, hw, hpw⟩) hrel⟩
      rw [cl_gates N gs gs' F B F0 B0 Ls none none hc, e]
    | meas qs a b =>
      obtain ⟨Ls', F', B', e, hrel⟩ := ih F0 B0 hpl
      refine ⟨_, F', B', ?_, List.Forall₂.cons (Or.inr ⟨qs, a, b, rfl, rfl, hL.1, hL.2⟩) hrel⟩
      rw [cl_meas, e]

/-- `Circ.compile` in terms of the layer fold -/
theorem compile_unfold (c : Circ) (Ls : List Layer) (F B : CMap)
    (h : compileLayers c.N c.layers (idMap c.N) (idMap c.N) = .ok (Ls, F, B)) :
    c.compile = .ok (if c.unitary then { c with layers := Ls, fmap := some F, bmap := some B }
      else { c with layers := Ls }) := by
  unfold Circ.compile
  rw [h]
  dsimp only
  cases c.unitary <;> rfl

theorem compile_total (N : Nat) (prog : List Item) (c : Circ)
    (hw : ∀ it ∈ prog, it.WF N) (hb : buildProg N prog = .ok c) :
    ∃ cc, c.compile = .ok cc ∧ cc.N = c.N ∧ cc.unitary = c.unitary ∧ cc.results = c.results ∧ cc.nrand = c.nrand ∧
      cc.numMeas = c.numMeas ∧ cc.layers.length = c.layers.length := by
  obtain ⟨hN, _, _, hp⟩ := build_sinv N (fun _ => True) prog c hw (fun _ _ => trivial) hb
  subst hN
  obtain ⟨Ls', F', B', e, hrel⟩ := compileLayers_rel c.N (fun _ => True) c.layers (idMap c.N) (idMap c.N) hp
  refine ⟨_, compile_unfold c Ls' F' B' e, ?_⟩
  have hl := hrel.length_eq
  cases c.unitary <;> exact ⟨rfl, rfl, rfl, rfl, rfl, hl⟩

/-! ## runs related up to the representation of phases -/

/-- two runs carry the same object up to the representation of phases, the same coins and the same supply -/
def XR (x' x : Run) : Prop :=
  RowsPEq' x'.obj.rows x.obj.rows ∧ x'.obj.r = x.obj.r ∧ x'.obj.isState = x.obj.isState ∧
    x'.coins = x.coins ∧ x'.rnd = x.rnd

theorem xr_refl (x : Run) : XR x x := ⟨Tj2.rowsPEq_refl _, rfl, rfl, rfl, rfl⟩

/-- results of `layersForward`: related runs, the same record and the same count of undetermined outcomes -/
def FR (a b : List Layer × Run × List Int × Nat) : Prop := XR a.2.1 b.2.1 ∧ a.2.2 = b.2.2

theorem sim_lf_gate (L1' L1 : Layer) (a b : Except Err (List Layer × Run × List Int × Nat)) :
    Sim FR a b → Sim FR (match a with
      | .error e => .error e
      | .ok (Ls', x'', res, k) => .ok (L1' :: Ls', x'', res, k))
     (match b with
      | .error e => .error e
      | .ok (Ls', x'', res, k) => .ok (L1 :: Ls', x'', res, k)) := by
  intro h
  rcases h with ⟨e, ha, hb⟩ | ⟨⟨a1, a2, a3, a4⟩, ⟨b1, b2, b3, b4⟩, ha, hb, h1⟩
  · rw [ha, hb]; exact Or.inl ⟨e, rfl, rfl⟩
  · rw [ha, hb]; exact Or.inr ⟨_, _, rfl, rfl, h1⟩

theorem sim_lf_meas (L1' L1 : Layer) (m : List Int) (k0 : Nat) (a b : Except Err (List Layer × Run × List Int × Nat)) :
    Sim FR a b → Sim FR (match a with
      | .error e => .error e
      | .ok (Ls', x'', res, k) => .ok (L1' :: Ls', x'', m ++ res, k0 + k))
     (match b with
      | .error e => .error e
      | .ok (Ls', x'', res, k) => .ok (L1 :: Ls', x'', m ++ res, k0 + k)) := by
  intro h
  rcases h with ⟨e, ha, hb⟩ | ⟨⟨a1, a2, a3, a4⟩, ⟨b1, b2, b3, b4⟩, ha, hb, h1, h2⟩
  · rw [ha, hb]; exact Or.inl ⟨e, rfl, rfl⟩
  · rw [ha, hb]
    dsimp only at h2
    injection h2 with h3 h4
    subst h3 h4
    exact Or.inr ⟨_, _, rfl, rfl, h1, rfl⟩

theorem lf_ok_meas (N : Nat) (L : Layer) (Ls : List Layer) (x x1 : Run) (qs : List Nat) (m : List Int) (k0 : Nat)
    (h : L.forward N x = .ok (.meas qs (some m) (some k0), x1)) :
    layersForward N (L :: Ls) x = (match layersForward N Ls x1 with
      | .error e => .error e
      | .ok (Ls', x'', res, k) => .ok (.meas qs (some m) (some k0) :: Ls', x'', m ++ res, k0 + k)) := by
  rw [layersForward, h]
  dsimp only
  cases layersForward N Ls x1 with
  | error e => rfl
  | ok w => rfl

theorem gate_layer_fwd_compiled (N : Nat) (gs' : List Gate) (F B : CMap) (x' : Run) :
    Layer.forward N (.gates gs' (some F) (some B)) x' =
      .ok (.gates gs' (some F) (some B), { x' with obj := { x'.obj with rows := x'.obj.rows.map (transform F) } }) := rfl

theorem gate_layer_fwd_plain (N : Nat) (gs : List Gate) (x : Run) (hw : ∀ g ∈ gs, g.WF N)
    (hl : ∀ R ∈ x.obj.rows, R.g.length = N) :
    Layer.forward N (.gates gs none none) x =
      .ok (.gates gs none none, { x with obj := { x.obj with rows := x.obj.rows.map (seqAct gs N) } }) := by
  simp only [Layer.forward, Ci.gatesForward_eq N gs x.obj.rows x.rnd hw hl]

theorem meas_layer_fwd (N : Nat) (qs : List Nat) (a : Option (List Int)) (b : Option Nat) (x : Run)
    (hs : x.obj.isState = true) :
    Layer.forward N (.meas qs a b) x = (match measure ⟨x.obj.rows, x.obj.r⟩ (measObs N qs) x.coins with
      | .error e => .error e
      | .ok (st, outs, k, cs) =>
        .ok (.meas qs (some (outs.map fun o => if o % 2 = 0 then 1 else -1)) (some k),
             { x with obj := { x.obj with rows := st.rows, r := st.r }, coins := cs })) := by
  simp only [Layer.forward, hs, Bool.not_true, Bool.false_eq_true, if_false]
  rfl

theorem meas_layer_fwd_nonstate (N : Nat) (qs : List Nat) (a : Option (List Int)) (b : Option Nat) (x : Run)
    (hs : x.obj.isState = false) : Layer.forward N (.meas qs a b) x = .error .notImplemented := by
  simp only [Layer.forward, hs, Bool.not_false, if_true]

theorem layersForward_rel (N : Nat) (Ls' Ls : List Layer) (h : List.Forall₂ (LRel N Gate.BmapOK) Ls' Ls) :
    ∀ x' x : Run, XR x' x → TabInv ⟨x.obj.rows, x.obj.r⟩ N →
      Sim FR (layersForward N Ls' x') (layersForward N Ls x) := by
  induction h with
  | nil => intro x' x hx _; exact Or.inr ⟨_, _, rfl, rfl, hx, rfl⟩
  | @cons L' L Ls' Ls hL _ ih =>
    intro x' x hx hT
    obtain ⟨h1, h2, h3, h4, h5⟩ := hx
    have hlen : ∀ R ∈ x.obj.rows, R.g.length = N := hT.2.2.1
    rcases hL with ⟨gs', gs, F, B, rfl, rfl, hc, hw, hp⟩ | ⟨qs, a, b, rfl, rfl, _, _⟩
    · have hwf : ∀ g ∈ gs, g.WF N := fun g hg => (hw g hg).1
      obtain ⟨_, _, hact⟩ := Cm.layer_compile_sound N gs gs' F B hw hp hc
      rw [Cs.lf_ok N _ _ Ls' x' _ (gate_layer_fwd_compiled N gs' F B x') rfl,
        Cs.lf_ok N _ _ Ls x _ (gate_layer_fwd_plain N gs x hwf hlen) rfl]
      apply sim_lf_gate
      apply ih
      · exact ⟨Tj2.rowsPEq_trans (Tj2.rowsPEq_map_congr (transform F) (fun a b h => Tr.transform_congr F h) h1)
          (Ci.rowsPEq_map _ _ _ (fun R hR => (hact R (hlen R hR)).1)), h2, h3, h4, h5⟩
      · exact Tj3.tabInv_seqAct N gs ⟨x.obj.rows, x.obj.r⟩ hwf hT
    · cases hs : x.obj.isState with
      | false =>
        rw [Cs.lf_err N _ Ls' x' _ (meas_layer_fwd_nonstate N qs a b x' (h3.trans hs)),
          Cs.lf_err N _ Ls x _ (meas_layer_fwd_nonstate N qs a b x hs)]
        exact Or.inl ⟨_, rfl, rfl⟩
      | true =>
        have hm := Tj2.measure_congr N (measObs N qs) ⟨x.obj.rows, x.obj.r⟩ ⟨x'.obj.rows, x'.obj.r⟩ x.coins hT
          (Tj2.rowsPEq_symm h1) h2.symm (fun O hO => (Tj.measObs_ok N qs O hO).1)
        have e1 := meas_layer_fwd N qs a b x hs
        have e2 := meas_layer_fwd N qs a b x' (h3.trans hs)
        rw [h4] at e2
        cases hm1 : measure ⟨x.obj.rows, x.obj.r⟩ (measObs N qs) x.coins with
        | error e =>
          cases hm2 : measure ⟨x'.obj.rows, x'.obj.r⟩ (measObs N qs) x.coins with
          | error e' =>
            rw [hm1, hm2] at hm
            have hm : e = e' := hm
            subst hm
            rw [hm1] at e1
            rw [hm2] at e2
            rw [Cs.lf_err N _ Ls' x' e e2, Cs.lf_err N _ Ls x e e1]
            exact Or.inl ⟨_, rfl, rfl⟩
          | ok v =>
            obtain ⟨s, o, k, c⟩ := v
            rw [hm1, hm2] at hm
            exact False.elim hm
        | ok v =>
          obtain ⟨s1, o1, k1, c1⟩ := v
          cases hm2 : measure ⟨x'.obj.rows, x'.obj.r⟩ (measObs N qs) x.coins with
          | error e' =>
            rw [hm1, hm2] at hm
            exact False.elim hm
          | ok w =>
            obtain ⟨s2, o2, k2, c2⟩ := w
            rw [hm1, hm2] at hm
            obtain ⟨g1, g2, g3, g4, g5⟩ := hm
            subst g3 g4 g5
            rw [hm1] at e1
            rw [hm2] at e2
            rw [lf_ok_meas N _ Ls' x' _ qs _ k1 e2, lf_ok_meas N _ Ls x _ qs _ k1 e1]
            apply sim_lf_meas
            apply ih
            · exact ⟨Tj2.rowsPEq_symm g1, g2.symm, h3, rfl, h5⟩
            · exact (C05_measure_inv ⟨x.obj.rows, x.obj.r⟩ s1 N (measObs N qs) x.coins c1 o1 k1 hT
                (Tj.measObs_ok N qs) hm1).1

/-! ## post-selection does not depend on the representation of phases -/

/-- results of `postselect`: states up to the representation of phases, the same probability -/
def PR (n : Nat) (a b : State × Dy) : Prop := RowsPEq' a.1.rows b.1.rows ∧ a.1.r = b.1.r ∧ a.2 = b.2 ∧ TabInv b.1 n

theorem postselect_congr (st1 st2 : State) (n : Nat) (P : Pauli) (res : Nat) (h2 : TabInv st2 n)
    (hE : RowsPEq' st1.rows st2.rows) (hr : st1.r = st2.r) (hP : P.g.length = n) (hp : P.p % 2 = 0) (hres : res < 2) :
    Sim (PR n) (postselect st1 P res) (postselect st2 P res) := by
  have h1 : TabInv st1 n := Tj2.tabInv_congr h2 (Tj2.rowsPEq_symm hE) hr.symm
  by_cases hr0 : st1.r = 0
  · have hr0' : st2.r = 0 := hr ▸ hr0
    have hN1 := h1.N_eq
    have hN2 := h2.N_eq
    have hg := Tj2.gAt_eq hE
    rcases postselect_cases st1 P res hr0 with ⟨p, hp1, hp2, hp3, e1⟩ | ⟨hc1, e1⟩
    · rcases postselect_cases st2 P res hr0' with ⟨q, hq1, hq2, hq3, e2⟩ | ⟨hc2, e2⟩
      · have hpq : p = q := by
          by_cases hlt : p < q
          · have := hq3 p hlt; rw [← hg, hp2] at this; cases this
          · by_cases hgt : q < p
            · have := hp3 q hgt; rw [hg, hq2] at this; cases this
            · omega
        subst hpq
        obtain ⟨c1, c2⟩ := Tj2.pivotState_congr st1 st2 n P.g p ((P.p + 2 * (res : Int)) % 4) h1 hE hr
          (by rw [hN1] at hp1; omega)
        refine Or.inr ⟨_, _, e1, e2, c1, c2, rfl, ?_⟩
        exact C05_postselect_inv st2 _ n P res _ h2 hP hp hres e2
      · have := hc2 p (by rw [hN2, ← hN1]; exact hp1)
        rw [← hg, hp2] at this; cases this
    · rcases postselect_cases st2 P res hr0' with ⟨q, hq1, hq2, _, _⟩ | ⟨hc2, e2⟩
      · have := hc1 q (by rw [hN1, ← hN2]; exact hq1)
        rw [hg, hq2] at this; cases this
      · rw [hN1] at hc1 e1
        rw [hN2] at hc2 e2
        obtain ⟨d1, _, d3, _⟩ := Ms.det_spec st1 n P.g h1 hP (fun i hi => hc1 i (by omega))
        obtain ⟨f1, _, f3, _⟩ := Ms.det_spec st2 n P.g h2 hP (fun i hi => hc2 i (by omega))
        rw [if_pos d1] at e1
        rw [if_pos f1] at e2
        have hs := Tj2.scanAcc_congr st1.rows st2.rows P.g n hE st1.rows st2.rows 0 ⟨idStr n, 0⟩ ⟨idStr n, 0⟩ hE
          (PEq.refl _)
        have hpe : (scanAcc st1.rows P.g n 0 st1.rows ⟨idStr n, 0⟩).p = (scanAcc st2.rows P.g n 0 st2.rows ⟨idStr n, 0⟩).p := by
          have := hs.2
          omega
        rw [hpe] at e1
        exact Or.inr ⟨_, _, e1, e2, hE, hr, rfl, h2⟩
  · have hr0' : st2.r ≠ 0 := hr ▸ hr0
    exact Or.inl ⟨_, C14_postselect_mixed st1 P res hr0, C14_postselect_mixed st2 P res hr0'⟩

/-- one post-selection step of `measBackward` -/
def psStep (N : Nat) (s : State) (qr : Nat × Int) : Except Err State :=
  match postselect s ⟨unitZ N qr.1, 0⟩ (if qr.2 = 1 then 0 else 1) with
  | .error e => .error e
  | .ok (s', t) => if t.zero then .error .value else .ok s'

theorem measBackward_eq (N : Nat) (qs : List Nat) (rec : List Int) (st : State) :
    measBackward N qs rec st =
      if rec.length != qs.length then .error .value else (qs.zip rec).reverse.foldlM (psStep N) st := rfl

def SR (n : Nat) (a b : State) : Prop := RowsPEq' a.rows b.rows ∧ a.r = b.r ∧ TabInv b n

theorem psStep_congr (N : Nat) (s1 s2 : State) (qr : Nat × Int) (h2 : TabInv s2 N) (hE : RowsPEq' s1.rows s2.rows)
    (hr : s1.r = s2.r) : Sim (SR N) (psStep N s1 qr) (psStep N s2 qr) := by
  have hres : (if qr.2 = 1 then 0 else 1 : Nat) < 2 := by split <;> omega
  unfold psStep
  rcases postselect_congr s1 s2 N ⟨unitZ N qr.1, 0⟩ (if qr.2 = 1 then 0 else 1) h2 hE hr (length_unitZ N qr.1) rfl hres
    with ⟨e, ha, hb⟩ | ⟨⟨a1, a2⟩, ⟨b1, b2⟩, ha, hb, g1, g2, g3, g4⟩
  · rw [ha, hb]; exact Or.inl ⟨e, rfl, rfl⟩
  · rw [ha, hb]
    dsimp only at g1 g2 g3 g4 ⊢
    subst g3
    cases a2.zero with
    | true => exact Or.inl ⟨_, rfl, rfl⟩
    | false => exact Or.inr ⟨_, _, rfl, rfl, g1, g2, g4⟩

theorem foldlM_psStep_congr (N : Nat) : ∀ (l : List (Nat × Int)) (s1 s2 : State), TabInv s2 N →
    RowsPEq' s1.rows s2.rows → s1.r = s2.r → Sim (SR N) (l.foldlM (psStep N) s1) (l.foldlM (psStep N) s2) := by
  intro l
  induction l with
  | nil => intro s1 s2 h2 hE hr; exact Or.inr ⟨_, _, rfl, rfl, hE, hr, h2⟩
  | cons qr l ih =>
    intro s1 s2 h2 hE hr
    rw [List.foldlM_cons, List.foldlM_cons]
    rcases psStep_congr N s1 s2 qr h2 hE hr with ⟨e, ha, hb⟩ | ⟨a1, b1, ha, hb, g1, g2, g3⟩
    · rw [ha, hb]; exact Or.inl ⟨e, rfl, rfl⟩
    · rw [ha, hb]
      exact ih a1 b1 g3 g1 g2

theorem measBackward_congr (N : Nat) (qs : List Nat) (rec : List Int) (s1 s2 : State) (h2 : TabInv s2 N)
    (hE : RowsPEq' s1.rows s2.rows) (hr : s1.r = s2.r) :
    Sim (SR N) (measBackward N qs rec s1) (measBackward N qs rec s2) := by
  rw [measBackward_eq, measBackward_eq]
  split
  · exact Or.inl ⟨_, rfl, rfl⟩
  · exact foldlM_psStep_congr N _ s1 s2 h2 hE hr

/-! ## the layers backward -/

theorem tabInv_gateActInv (N : Nat) (g : Gate) (st : State) (hg : g.WF N) (h : TabInv st N) :
    TabInv ⟨st.rows.map (gateActInv g N), st.r⟩ N :=
  Rc.tabInv_map st N _ h (fun P hP => by rw [Ci.length_gateActInv]; exact hP)
    (fun P Q hP hQ => Sh.gateActInv_acq g N hg P Q hP hQ) (fun P hP hp => Sh.gateActInv_herm g N hg P hP hp)

theorem tabInv_fwdInv (N : Nat) (gs : List Gate) : ∀ (st : State), (∀ g ∈ gs, g.WF N) → TabInv st N →
    TabInv ⟨st.rows.map (Cm.fwdInv gs N), st.r⟩ N := by
  induction gs with
  | nil =>
    intro st _ h
    have : Cm.fwdInv [] N = id := rfl
    rw [this, List.map_id]; exact h
  | cons g gs ih =>
    intro st hw h
    have h1 := tabInv_gateActInv N g st (hw g (by simp)) h
    have := ih ⟨st.rows.map (gateActInv g N), st.r⟩ (fun x hx => hw x (by simp [hx])) h1
    simp only [List.map_map] at this
    exact this

theorem gate_layer_bwd_compiled (N : Nat) (gs' : List Gate) (F B : CMap) (x' : Run) :
    Layer.backward N (.gates gs' (some F) (some B)) x' none =
      .ok (.gates gs' (some F) (some B), { x' with obj := { x'.obj with rows := x'.obj.rows.map (transform B) } }) := rfl

theorem gate_layer_bwd_plain (N : Nat) (gs : List Gate) (x : Run) (hw : ∀ g ∈ gs, g.WF N ∧ g.BmapOK)
    (hl : ∀ R ∈ x.obj.rows, R.g.length = N) :
    ∃ gs2, Layer.backward N (.gates gs none none) x none =
      .ok (.gates gs2 none none, { x with obj := { x.obj with rows := x.obj.rows.map (Cm.fwdInv gs N) } }) := by
  obtain ⟨gs2, h⟩ := Cm.gatesBackward_eq N gs x.obj.rows x.rnd hw hl
  exact ⟨gs2, by simp only [Layer.backward, h]⟩

theorem meas_layer_bwd (N : Nat) (qs : List Nat) (a : Option (List Int)) (b : Option Nat) (x : Run) (m : List Int) :
    Layer.backward N (.meas qs a b) x (some m) = (match measBackward N qs m ⟨x.obj.rows, x.obj.r⟩ with
      | .error e => .error e
      | .ok st => .ok (.meas qs a b, { x with obj := { x.obj with rows := st.rows, r := st.r } })) := rfl

theorem lb_meas (N : Nat) (qs : List Nat) (a : Option (List Int)) (b : Option Nat) (Ls : List Layer) (x : Run)
    (rec : List Int) :
    layersBackward N (.meas qs a b :: Ls) x rec =
      (match Layer.backward N (.meas qs a b) x (some (rec.drop (rec.length - qs.length))) with
      | .error e => .error e
      | .ok (L', x') =>
        match layersBackward N Ls x' (rec.take (rec.length - qs.length)) with
        | .error e => .error e
        | .ok (Ls', x'') => .ok (L' :: Ls', x'')) := by
  rw [layersBackward]
  rfl

/-- results of `layersBackward` -/
def BR (a b : List Layer × Run) : Prop := XR a.2 b.2

theorem sim_lb_tail (L1' L1 : Layer) (a b : Except Err (List Layer × Run)) :
    Sim BR a b → Sim BR (match a with
      | .error e => .error e
      | .ok (Ls', x'') => .ok (L1' :: Ls', x''))
     (match b with
      | .error e => .error e
      | .ok (Ls', x'') => .ok (L1 :: Ls', x'')) := by
  intro h
  rcases h with ⟨e, ha, hb⟩ | ⟨⟨a1, a2⟩, ⟨b1, b2⟩, ha, hb, h1⟩
  · rw [ha, hb]; exact Or.inl ⟨e, rfl, rfl⟩
  · rw [ha, hb]; exact Or.inr ⟨_, _, rfl, rfl, h1⟩

theorem layersBackward_rel (N : Nat) (A' A : List Layer) (h : List.Forall₂ (LRel N Gate.BmapOK) A' A) :
    ∀ (rec : List Int) (x' x : Run), XR x' x → TabInv ⟨x.obj.rows, x.obj.r⟩ N →
      Sim BR (layersBackward N A' x' rec) (layersBackward N A x rec) := by
  induction h with
  | nil => intro rec x' x hx _; exact Or.inr ⟨_, _, rfl, rfl, hx⟩
  | @cons L' L A' A hL _ ih =>
    intro rec x' x hx hT
    obtain ⟨h1, h2, h3, h4, h5⟩ := hx
    have hlen : ∀ R ∈ x.obj.rows, R.g.length = N := hT.2.2.1
    rcases hL with ⟨gs', gs, F, B, rfl, rfl, hc, hw, hp⟩ | ⟨qs, a, b, rfl, rfl, _, _⟩
    · have hwf : ∀ g ∈ gs, g.WF N := fun g hg => (hw g hg).1
      obtain ⟨_, _, hact⟩ := Cm.layer_compile_sound N gs gs' F B hw hp hc
      obtain ⟨gs2, hb⟩ := gate_layer_bwd_plain N gs x hw hlen
      rw [Cs.lb_ok N _ _ A' x' _ rec rfl (gate_layer_bwd_compiled N gs' F B x'), Cs.lb_ok N _ _ A x _ rec rfl hb]
      apply sim_lb_tail
      apply ih
      · refine ⟨Tj2.rowsPEq_trans (Tj2.rowsPEq_map_congr (transform B) (fun a b h => Tr.transform_congr B h) h1)
          (Ci.rowsPEq_map _ _ _ (fun R hR => ?_)), h2, h3, h4, h5⟩
        exact (hact R (hlen R hR)).2.trans (Cm.fwdInv_eq_seqActInv gs N R hp).symm
      · exact tabInv_fwdInv N gs ⟨x.obj.rows, x.obj.r⟩ hwf hT
    · rw [lb_meas, lb_meas, meas_layer_bwd, meas_layer_bwd]
      rcases measBackward_congr N qs (rec.drop (rec.length - qs.length)) ⟨x'.obj.rows, x'.obj.r⟩ ⟨x.obj.rows, x.obj.r⟩
          hT h1 h2 with ⟨e, ha, hb⟩ | ⟨s1, s2, ha, hb, g1, g2, g3⟩
      · rw [ha, hb]; exact Or.inl ⟨e, rfl, rfl⟩
      · rw [ha, hb]
        dsimp only
        apply sim_lb_tail
        apply ih
        · exact ⟨g1, g2, h3, h4, h5⟩
        · exact g3

/-! ## programs without measurement: the circuit is a `buildCirc` -/

def itemGates : List Item → List Gate
  | [] => []
  | .gate g :: r => g :: itemGates r
  | .meas _ :: r => itemGates r

theorem nomeas_map (prog : List Item) (h : ∀ qs, Item.meas qs ∉ prog) : prog = (itemGates prog).map Item.gate := by
  induction prog with
  | nil => rfl
  | cons it prog ih =>
    cases it with
    | gate g =>
      have := ih (fun qs hq => h qs (by simp [hq]))
      simp only [itemGates, List.map_cons]
      rw [← this]
    | meas qs => exact absurd List.mem_cons_self (h qs)

theorem foldlM_gates (gs : List Gate) : ∀ c0 : Circ,
    (gs.map Item.gate).foldlM Tj3.progStep c0 = gs.foldlM (fun c g => c.take g) c0 := by
  induction gs with
  | nil => intro c0; rfl
  | cons g gs ih =>
    intro c0
    rw [List.map_cons, List.foldlM_cons, List.foldlM_cons]
    show c0.take g >>= _ = _
    congr 1
    funext c
    exact ih c

theorem unitary_case (N : Nat) (prog : List Item) (c cc : Circ)
    (hw : ∀ it ∈ prog, it.WF N) (hbm : ∀ g, Item.gate g ∈ prog → g.BmapOK) (hb : buildProg N prog = .ok c)
    (hc : c.compile = .ok cc) (hu : c.unitary = true) :
    ∃ gs F B, (∀ g ∈ gs, g.WF N) ∧ Ci.Inv N c gs ∧ Cm.Inv2 Gate.BmapOK c ∧ cc.unitary = true ∧ cc.fmap = some F ∧
      cc.bmap = some B ∧ ∀ P : Pauli, P.g.length = N →
        PEq (transform F P) (seqAct gs N P) ∧ PEq (transform B P) (seqActInv gs N P) := by
  have hb' : prog.foldlM Tj3.progStep { N := N } = .ok c := by rw [← Tj3.buildProg_eq]; exact hb
  have flags := (Tj3.fold_flags prog { N := N } c hb').2.2.2.2
  have hnm : ∀ qs, Item.meas qs ∉ prog := by
    intro qs hq
    have := flags.2 (Or.inr ⟨qs, hq⟩)
    rw [hu] at this
    cases this
  have hprog := nomeas_map prog hnm
  have hbc : buildCirc N (itemGates prog) = .ok c := by
    unfold buildCirc
    rw [← foldlM_gates, ← hprog]
    exact hb'
  have hwg : ∀ g ∈ itemGates prog, g.WF N := fun g hg =>
    hw (.gate g) (by rw [hprog]; exact List.mem_map.2 ⟨g, hg, rfl⟩)
  have hbg : ∀ g ∈ itemGates prog, g.BmapOK := fun g hg =>
    hbm g (by rw [hprog]; exact List.mem_map.2 ⟨g, hg, rfl⟩)
  obtain ⟨hI, hI2⟩ := Cm.build_inv N (itemGates prog) c Gate.BmapOK hwg hbg hbc
  obtain ⟨F, B, hF, hB, hu'⟩ := C09_compile_sets_maps N (itemGates prog) c cc hwg hbc hc
  obtain ⟨_, _, hact⟩ := C09_circuit_compile_sound N (itemGates prog) c cc F B hwg hbg hbc hc hF hB
  exact ⟨_, F, B, hwg, hI, hI2, hu', hF, hB, fun P hP => ⟨(hact P hP).1, (hact P hP).2.1⟩⟩

/-! ## the circuit level -/

theorem circ_forward_nonunitary (c : Circ) (x : Run) (hu : c.unitary = false) :
    c.forward x = (match layersForward c.N c.layers x with
      | .error e => .error e
      | .ok (Ls, x', res, k) => .ok ({ c with layers := Ls, results := c.results ++ res, nrand := c.nrand + k }, x')) := by
  unfold Circ.forward
  rw [if_neg (by simp [hu])]
  rfl

/-- the record handed to the layers by `Circuit.backward` -/
def recOf (c : Circ) (rec : Option (List Int)) : Except Err (List Int) :=
  match rec with
  | some m => if m.length != c.numMeas then .error .value else .ok m
  | none => if c.results.isEmpty then .error .value else .ok c.results

theorem circ_backward_nonunitary (c : Circ) (x : Run) (rec : Option (List Int)) (hu : c.unitary = false) :
    c.backward x rec = (match recOf c rec with
      | .error e => .error e
      | .ok m =>
        match layersBackward c.N c.layers.reverse x m with
        | .error e => .error e
        | .ok (Ls, x') => .ok ({ c with layers := Ls.reverse }, x')) := by
  unfold Circ.backward
  rw [if_neg (by simp [hu])]
  rfl

theorem circ_backward_unitary (c : Circ) (x : Run) (rec : Option (List Int)) (hu : c.unitary = true) :
    c.backward x rec = c.backward x none := by
  unfold Circ.backward
  rw [if_pos hu, if_pos hu]

/-- the compiled circuit of a program with a measurement: only the layers change -/
theorem nonunitary_case (N : Nat) (prog : List Item) (c cc : Circ)
    (hw : ∀ it ∈ prog, it.WF N) (hbm : ∀ g, Item.gate g ∈ prog → g.BmapOK) (hb : buildProg N prog = .ok c)
    (hc : c.compile = .ok cc) (hu : c.unitary = false) :
    c.N = N ∧ ∃ Ls', cc = { c with layers := Ls' } ∧ List.Forall₂ (LRel N Gate.BmapOK) Ls' c.layers := by
  obtain ⟨hN, _, _, hp⟩ := build_sinv N Gate.BmapOK prog c hw hbm hb
  subst hN
  obtain ⟨Ls', F', B', e, hrel⟩ := compileLayers_rel c.N Gate.BmapOK c.layers (idMap c.N) (idMap c.N) hp
  have h := compile_unfold c Ls' F' B' e
  rw [hc, if_neg (by simp [hu])] at h
  injection h with h
  exact ⟨rfl, Ls', h, hrel⟩

/-- results of a circuit call: related runs, and for a circuit with measurements the same record and count -/
def CFR (c : Circ) (a b : Circ × Run) : Prop :=
  XR a.2 b.2 ∧ (c.unitary = false → a.1.results = b.1.results ∧ a.1.nrand = b.1.nrand)

theorem forward_rel (N : Nat) (prog : List Item) (c cc : Circ) (x : Run)
    (hw : ∀ it ∈ prog, it.WF N) (hbm : ∀ g, Item.gate g ∈ prog → g.BmapOK) (hb : buildProg N prog = .ok c)
    (hc : c.compile = .ok cc) (hT : TabInv ⟨x.obj.rows, x.obj.r⟩ N) :
    Sim (CFR c) (cc.forward x) (c.forward x) := by
  cases hu : c.unitary with
  | false =>
    obtain ⟨hN, Ls', rfl, hrel⟩ := nonunitary_case N prog c cc hw hbm hb hc hu
    subst hN
    rw [circ_forward_nonunitary c x hu, circ_forward_nonunitary { c with layers := Ls' } x hu]
    rcases layersForward_rel c.N Ls' c.layers hrel x x (xr_refl x) hT with
      ⟨e, ha, hb⟩ | ⟨⟨a1, a2, a3, a4⟩, ⟨b1, b2, b3, b4⟩, ha, hb, h1, h2⟩
    · rw [ha, hb]; exact Or.inl ⟨e, rfl, rfl⟩
    · rw [ha, hb]
      dsimp only at h2
      injection h2 with h3 h4
      subst h3 h4
      exact Or.inr ⟨_, _, rfl, rfl, h1, fun _ => ⟨rfl, rfl⟩⟩
  | true =>
    obtain ⟨gs, F, B, hwg, hI, _, hu', hF, _, hact⟩ := unitary_case N prog c cc hw hbm hb hc hu
    have hlen : ∀ R ∈ x.obj.rows, R.g.length = N := hT.2.2.1
    obtain ⟨⟨rows, r, s⟩, coins, rnd⟩ := x
    refine Or.inr ⟨_, _, Rt.forward_compiled cc F _ hu' hF, Cm.forward_exact N c gs rows r s coins rnd hI hlen,
      ⟨?_, rfl, rfl, rfl, rfl⟩, fun h => by rw [hu] at h; cases h⟩
    show RowsPEq' (rows.map (transform F)) (rows.map (seqAct (Ci.flatGates c.layers) N))
    apply Ci.rowsPEq_map
    intro R hR
    exact (hact R (hlen R hR)).1.trans (hI.2.2.2.2.2 R (hlen R hR)).symm

theorem backward_rel (N : Nat) (prog : List Item) (c cc : Circ) (x : Run) (rec : Option (List Int))
    (hw : ∀ it ∈ prog, it.WF N) (hbm : ∀ g, Item.gate g ∈ prog → g.BmapOK) (hb : buildProg N prog = .ok c)
    (hc : c.compile = .ok cc) (hT : TabInv ⟨x.obj.rows, x.obj.r⟩ N) :
    Sim (fun a b : Circ × Run => XR a.2 b.2) (cc.backward x rec) (c.backward x rec) := by
  cases hu : c.unitary with
  | false =>
    obtain ⟨hN, Ls', rfl, hrel⟩ := nonunitary_case N prog c cc hw hbm hb hc hu
    subst hN
    rw [circ_backward_nonunitary c x rec hu, circ_backward_nonunitary { c with layers := Ls' } x rec hu]
    have hrec : recOf { c with layers := Ls' } rec = recOf c rec := rfl
    rw [hrec]
    cases recOf c rec with
    | error e => exact Or.inl ⟨e, rfl, rfl⟩
    | ok m =>
      dsimp only
      rcases layersBackward_rel c.N Ls'.reverse c.layers.reverse (List.forall₂_reverse_iff.2 hrel) m x x (xr_refl x) hT
        with ⟨e, ha, hb⟩ | ⟨⟨a1, a2⟩, ⟨b1, b2⟩, ha, hb, h1⟩
      · rw [ha, hb]; exact Or.inl ⟨e, rfl, rfl⟩
      · rw [ha, hb]; exact Or.inr ⟨_, _, rfl, rfl, h1⟩
  | true =>
    obtain ⟨gs, F, B, hwg, hI, hI2, hu', _, hB, hact⟩ := unitary_case N prog c cc hw hbm hb hc hu
    have hlen : ∀ R ∈ x.obj.rows, R.g.length = N := hT.2.2.1
    obtain ⟨⟨rows, r, s⟩, coins, rnd⟩ := x
    obtain ⟨c1, h1⟩ := Cm.backward_exact N c gs rows r s coins rnd hI hI2 hlen
    rw [circ_backward_unitary c _ rec hu]
    refine Or.inr ⟨_, _, Rt.backward_compiled cc B _ rec hu' hB, h1, ?_, rfl, rfl, rfl, rfl⟩
    show RowsPEq' (rows.map (transform B)) (rows.map (Cm.backAct c.layers.reverse N))
    apply Ci.rowsPEq_map
    intro R hR
    have hRl := hlen R hR
    have h0 := Cm.backAct_eq N c.layers.reverse (fun L hL => hI2.2.1 L (List.mem_reverse.1 hL)) R
    rw [List.reverse_reverse] at h0
    exact ((hact R hRl).2.trans (Cm.seqActInv_unique _ gs N hI.2.2.2.2.1 hwg hI.2.2.2.2.2 R hRl).symm).trans h0.symm

/-! ## the statements of `Properties/C14c.lean` -/

theorem compiled_trajectory (N : Nat) (prog : List Item) (c cc : Circ) (st : State) (coins : List Bool) (rnd : List CMap)
    (hw : ∀ it ∈ prog, it.WF N) (hbm : ∀ g, Item.gate g ∈ prog → g.BmapOK) (hb : buildProg N prog = .ok c)
    (hc : c.compile = .ok cc) (h : TabInv st N) :
    match cc.forward ⟨⟨st.rows, st.r, true⟩, coins, rnd⟩, runItems N prog st coins with
    | .ok (c', x'), .ok (st', res, k, cs) =>
        RowsPEq' x'.obj.rows st'.rows ∧ x'.obj.r = st'.r ∧ x'.coins = cs ∧ x'.rnd = rnd ∧
        (c.unitary = false → c'.results = c.results ++ res ∧ c'.nrand = c.nrand + k) ∧
        (c.unitary = true → res = [] ∧ k = 0)
    | .error _, .error _ => True
    | _, _ => False := by
  have H := C14_program_trajectory N prog c st coins rnd hw hb h
  rcases forward_rel N prog c cc ⟨⟨st.rows, st.r, true⟩, coins, rnd⟩ hw hbm hb hc h with
    ⟨e, ha, hb'⟩ | ⟨⟨c1', x1'⟩, ⟨c1, x1⟩, ha, hb', ⟨g1, g2, _, g4, g5⟩, g6⟩
  · rw [ha]
    rw [hb'] at H
    exact H
  · rw [ha]
    rw [hb'] at H
    cases hr : runItems N prog st coins with
    | error e => rw [hr] at H; exact H
    | ok v =>
      obtain ⟨st', res, k, cs⟩ := v
      rw [hr] at H
      obtain ⟨a1, a2, a3, a4, a5, a6⟩ := H
      refine ⟨Tj2.rowsPEq_trans g1 a1, g2.trans a2, g4.trans a3, g5.trans a4, fun hu => ?_, a6⟩
      obtain ⟨r1, r2⟩ := g6 hu
      obtain ⟨r3, r4⟩ := a5 hu
      exact ⟨r1.trans r3, r2.trans r4⟩

theorem compiled_backward (N : Nat) (prog : List Item) (c cc : Circ) (st : State) (coins : List Bool) (rnd : List CMap)
    (rec : Option (List Int))
    (hw : ∀ it ∈ prog, it.WF N) (hbm : ∀ g, Item.gate g ∈ prog → g.BmapOK) (hb : buildProg N prog = .ok c)
    (hc : c.compile = .ok cc) (h : TabInv st N) :
    RunRel (cc.backward ⟨⟨st.rows, st.r, true⟩, coins, rnd⟩ rec) (c.backward ⟨⟨st.rows, st.r, true⟩, coins, rnd⟩ rec) := by
  rcases backward_rel N prog c cc ⟨⟨st.rows, st.r, true⟩, coins, rnd⟩ rec hw hbm hb hc h with
    ⟨e, ha, hb'⟩ | ⟨⟨_, _⟩, ⟨_, _⟩, ha, hb', g⟩
  · rw [ha, hb']; exact rfl
  · rw [ha, hb']; exact g

end Tj4
end PC
