import PyCliffordModel.Proofs.TrajLemmas
import PyCliffordModel.Properties.C05b
import PyCliffordModel.Properties.C06
/-! # Proofs/TrajLemmas2 — helper lemmas for C14 (circuit level): measurement does not depend on the representation of
phases mod 4, stabilizers kept by a list measurement, replaying a record -/
namespace PC
namespace Tj2

open Ms

/-! ## rows up to the representation of phases -/

theorem rowsPEq_refl (A : List Pauli) : RowsPEq' A A := ⟨rfl, fun _ _ => PEq.refl _⟩

theorem rowsPEq_symm {A B : List Pauli} (h : RowsPEq' A B) : RowsPEq' B A :=
  ⟨h.1.symm, fun i hi => (h.2 i (by rw [h.1]; exact hi)).symm⟩

theorem rowsPEq_trans {A B C : List Pauli} (h1 : RowsPEq' A B) (h2 : RowsPEq' B C) : RowsPEq' A C :=
  ⟨h1.1.trans h2.1, fun i hi => (h1.2 i hi).trans (h2.2 i (by rw [← h1.1]; exact hi))⟩

theorem rowsPEq_all {A B : List Pauli} (h : RowsPEq' A B) (i : Nat) : PEq (rowAt A i) (rowAt B i) := by
  by_cases hi : i < A.length
  · exact h.2 i hi
  · rw [rowAt_of_le A i (by omega), rowAt_of_le B i (by rw [← h.1]; omega)]
    exact PEq.refl _

theorem rowsPEq_of_all {A B : List Pauli} (hl : A.length = B.length) (h : ∀ i, i < A.length → PEq (rowAt A i) (rowAt B i)) :
    RowsPEq' A B := ⟨hl, h⟩

theorem rowsPEq_cons {a b : Pauli} {A B : List Pauli} : RowsPEq' (a :: A) (b :: B) ↔ PEq a b ∧ RowsPEq' A B := by
  constructor
  · intro h
    refine ⟨?_, ?_, ?_⟩
    · have := h.2 0 (by simp)
      rwa [rowAt_cons_zero, rowAt_cons_zero] at this
    · have := h.1; simpa using this
    · intro i hi
      have := h.2 (i + 1) (by simp; omega)
      rwa [rowAt_cons_succ, rowAt_cons_succ] at this
  · rintro ⟨h0, h1⟩
    refine ⟨by simp [h1.1], ?_⟩
    intro i hi
    cases i with
    | zero => rw [rowAt_cons_zero, rowAt_cons_zero]; exact h0
    | succ i => rw [rowAt_cons_succ, rowAt_cons_succ]; exact h1.2 i (by simpa using hi)

theorem gAt_eq {A B : List Pauli} (h : RowsPEq' A B) : gAt A = gAt B := by
  funext i; exact (rowsPEq_all h i).1

theorem rowsPEq_map_congr (f : Pauli → Pauli) (hf : ∀ a b, PEq a b → PEq (f a) (f b)) {A B : List Pauli}
    (h : RowsPEq' A B) : RowsPEq' (A.map f) (B.map f) := by
  refine ⟨by simp [h.1], ?_⟩
  intro i hi
  have hi' : i < A.length := by simpa using hi
  rw [rowAt_map f A i hi', rowAt_map f B i (by rw [← h.1]; exact hi')]
  exact hf _ _ (h.2 i hi')

/-- the tableau invariant does not depend on the representation of phases -/
theorem tabInv_congr {st1 st2 : State} {n : Nat} (h : TabInv st1 n) (hE : RowsPEq' st1.rows st2.rows)
    (hr : st1.r = st2.r) : TabInv st2 n := by
  obtain ⟨h1, h2, h3, h4, h5⟩ := h
  refine ⟨by rw [← hE.1]; exact h1, by rw [← hr]; exact h2, ?_, ?_, ?_⟩
  · intro R hR
    obtain ⟨j, hj, rfl⟩ := exists_rowAt_of_mem _ R hR
    rw [← (rowsPEq_all hE j).1]
    exact h3 _ (rowAt_mem _ j (by rw [hE.1]; exact hj))
  · intro i j hi hj
    rw [← (rowsPEq_all hE i).1, ← (rowsPEq_all hE j).1]
    exact h4 i j hi hj
  · intro i hi1 hi2
    have := h5 i (by rw [hr]; exact hi1) hi2
    have e := (rowsPEq_all hE i).2
    omega

theorem N_congr {st1 st2 : State} (hE : RowsPEq' st1.rows st2.rows) : st1.N = st2.N := by
  unfold State.N; rw [hE.1]

/-! ## one observable -/

theorem scanAcc_congr (T1 T2 : List Pauli) (obs : PStr) (N : Nat) (hT : RowsPEq' T1 T2) :
    ∀ (r1 r2 : List Pauli) (j : Nat) (a1 a2 : Pauli), RowsPEq' r1 r2 → PEq a1 a2 →
      PEq (scanAcc T1 obs N j r1 a1) (scanAcc T2 obs N j r2 a2) := by
  intro r1
  induction r1 with
  | nil =>
    intro r2 j a1 a2 hr ha
    cases r2 with
    | nil => exact ha
    | cons b B => have := hr.1; simp at this
  | cons a A ih =>
    intro r2 j a1 a2 hr ha
    cases r2 with
    | nil => have := hr.1; simp at this
    | cons b B =>
      obtain ⟨h0, h1⟩ := rowsPEq_cons.1 hr
      rw [scanAcc_cons, scanAcc_cons, ← h0.1]
      apply ih B (j + 1) _ _ h1
      cases anti a.g obs with
      | false => exact ha
      | true =>
        simp only [if_true]
        exact (Tr.mul_congr_left ha _).trans (mul_congr_right _ (rowsPEq_all hT _))

theorem isMeasPivot_congr {st1 st2 : State} {obs : PStr} {p : Nat} (hE : RowsPEq' st1.rows st2.rows)
    (hr : st1.r = st2.r) (h : IsMeasPivot st1 obs p) : IsMeasPivot st2 obs p := by
  unfold IsMeasPivot at h ⊢
  rw [← gAt_eq hE, ← hr, ← N_congr hE]
  exact h

theorem isMeasPivot_unique {st : State} {obs : PStr} {p q : Nat} (hp : IsMeasPivot st obs p)
    (hq : IsMeasPivot st obs q) : p = q := by
  obtain ⟨ap, hp⟩ := hp
  obtain ⟨aq, hq⟩ := hq
  rcases hp with ⟨p1, p2, p3⟩ | ⟨p1, p2, p3⟩ <;> rcases hq with ⟨q1, q2, q3⟩ | ⟨q1, q2, q3⟩
  · by_cases h1 : p < q
    · have := q3 p p1 h1; rw [ap] at this; exact absurd this (by simp)
    · by_cases h2 : q < p
      · have := p3 q q1 h2; rw [aq] at this; exact absurd this (by simp)
      · omega
  · have := q2 p p1 p2; rw [ap] at this; exact absurd this (by simp)
  · have := p2 q q1 q2; rw [aq] at this; exact absurd this (by simp)
  · by_cases h1 : p < q
    · have := q3 p h1; rw [ap] at this; exact absurd this (by simp)
    · by_cases h2 : q < p
      · have := p3 q h2; rw [aq] at this; exact absurd this (by simp)
      · omega

theorem updRow_congr (obs : PStr) (N : Nat) (p : Nat) {rp1 rp2 : Pauli} (j : Nat) {a b : Pauli}
    (hrp : PEq rp1 rp2) (h : PEq a b) : PEq (updRow obs N true p rp1 j a) (updRow obs N true p rp2 j b) := by
  obtain ⟨g1, p1⟩ := hrp
  obtain ⟨g2, p2⟩ := h
  unfold updRow pivRow
  rw [← g2, ← g1]
  split
  · refine ⟨rfl, ?_⟩
    simp only [Bool.true_and]
    split
    · omega
    · exact p2
  · exact ⟨g2, p2⟩

/-- the state written by a random-outcome measurement, on two representations of the same tableau -/
theorem pivotState_congr (st1 st2 : State) (n : Nat) (obs : PStr) (p : Nat) (c : Int) (h1 : TabInv st1 n)
    (hE : RowsPEq' st1.rows st2.rows) (hr : st1.r = st2.r) (hp : p < n + st1.r) :
    RowsPEq' (pivotState st1 obs true p c).rows (pivotState st2 obs true p c).rows ∧
      (pivotState st1 obs true p c).r = (pivotState st2 obs true p c).r := by
  have h2 := tabInv_congr h1 hE hr
  obtain ⟨a1, a2, a3, a4⟩ := pivotState_spec st1 n obs p c h1 hp
  obtain ⟨b1, b2, b3, b4⟩ := pivotState_spec st2 n obs p c h2 (by rw [← hr]; exact hp)
  refine ⟨⟨a2.trans b2.symm, ?_⟩, by rw [a1, b1, hr]⟩
  intro k hk
  rw [a2] at hk
  refine ⟨?_, ?_⟩
  · have e1 := a3 k hk
    have e2 := b3 k hk
    unfold gAt at e1 e2
    rw [e1, e2, ← hr]
    have : gAt st1.rows = gAt st2.rows := gAt_eq hE
    unfold gAt at this
    rw [this]
  · rw [a4 k hk, b4 k hk, ← hr]
    split
    · rfl
    · exact (updRow_congr obs n p k (rowsPEq_all hE p) (rowsPEq_all hE k)).2

/-- one observable: same outcome, same flag, post-states equal up to the representation of phases -/
theorem measure1_congr (st1 st2 : State) (n : Nat) (O : Pauli) (coin : Bool) (h1 : TabInv st1 n)
    (hE : RowsPEq' st1.rows st2.rows) (hr : st1.r = st2.r) (ho : O.g.length = n) :
    ∃ s1 s2 out rnd, measure1 st1 O coin = .ok (s1, out, rnd) ∧ measure1 st2 O coin = .ok (s2, out, rnd) ∧
      RowsPEq' s1.rows s2.rows ∧ s1.r = s2.r ∧ TabInv s1 n := by
  have h2 := tabInv_congr h1 hE hr
  rcases measure1_cases_inv st1 n O coin h1 ho with ⟨p, hp, hpl, e1⟩ | ⟨hc1, e1⟩
  · rcases measure1_cases_inv st2 n O coin h2 ho with ⟨q, hq, _, e2⟩ | ⟨hc2, _⟩
    · have : p = q := isMeasPivot_unique (isMeasPivot_congr hE hr hp) hq
      subst this
      obtain ⟨c1, c2⟩ := pivotState_congr st1 st2 n O.g p (if coin then 2 else 0) h1 hE hr hpl
      refine ⟨_, _, _, _, e1, e2, c1, c2, ?_⟩
      exact pivotState_inv st1 n O.g p _ h1 ho (pivotOK_of_isMeasPivot st1 n O.g p h1 hp) (by cases coin <;> rfl)
    · have := hc2 p (by rw [← hr]; exact hpl)
      rw [← gAt_eq hE, hp.1] at this
      exact absurd this (by simp)
  · rcases measure1_cases_inv st2 n O coin h2 ho with ⟨q, hq, hql, _⟩ | ⟨_, e2⟩
    · have := hc1 q (by rw [hr]; exact hql)
      rw [gAt_eq hE, hq.1] at this
      exact absurd this (by simp)
    · have hs := scanAcc_congr st1.rows st2.rows O.g n hE st1.rows st2.rows 0 ⟨idStr n, 0⟩ ⟨idStr n, 0⟩ hE
        (PEq.refl _)
      have hout : (((scanAcc st1.rows O.g n 0 st1.rows ⟨idStr n, 0⟩).p - O.p) % 4) / 2
          = (((scanAcc st2.rows O.g n 0 st2.rows ⟨idStr n, 0⟩).p - O.p) % 4) / 2 := by
        have := hs.2
        omega
      rw [← hout] at e2
      exact ⟨_, _, _, _, e1, e2, hE, hr, h1⟩

/-! ## lists of observables -/

/-- equality of two measurement results up to the representation of phases -/
def MRel : Except Err (State × List Int × Nat × List Bool) → Except Err (State × List Int × Nat × List Bool) → Prop
  | .ok (s1, o1, k1, c1), .ok (s2, o2, k2, c2) =>
      RowsPEq' s1.rows s2.rows ∧ s1.r = s2.r ∧ o1 = o2 ∧ k1 = k2 ∧ c1 = c2
  | .error e1, .error e2 => e1 = e2
  | _, _ => False

theorem measure_congr (n : Nat) (obs : List Pauli) : ∀ (st1 st2 : State) (coins : List Bool), TabInv st1 n →
    RowsPEq' st1.rows st2.rows → st1.r = st2.r → (∀ O ∈ obs, O.g.length = n) →
    MRel (measure st1 obs coins) (measure st2 obs coins) := by
  induction obs with
  | nil =>
    intro st1 st2 coins _ hE hr _
    exact ⟨hE, hr, rfl, rfl, rfl⟩
  | cons o os ih =>
    intro st1 st2 coins h1 hE hr ho
    obtain ⟨s1, s2, out, rnd, e1, e2, hE', hr', h1'⟩ :=
      measure1_congr st1 st2 n o (coins.headD false) h1 hE hr (ho o (by simp))
    have hrec := ih s1 s2 (if rnd then coins.tail else coins) h1' hE' hr' (fun O hO => ho O (by simp [hO]))
    simp only [measure, e1, e2]
    split
    · rfl
    · revert hrec
      generalize measure s1 os (if rnd = true then coins.tail else coins) = a
      generalize measure s2 os (if rnd = true then coins.tail else coins) = b
      intro hrec
      match a, b, hrec with
      | .ok (t1, o1, k1, c1), .ok (t2, o2, k2, c2), ⟨x1, x2, x3, x4, x5⟩ =>
        subst x3 x4 x5
        exact ⟨x1, x2, rfl, rfl, rfl⟩
      | .error e1, .error e2, hrec => exact hrec

/-! ## stabilizers through a list measurement -/

/-- a stabilizer commuting with every measured observable is kept -/
theorem measure_keeps (n : Nat) (obs : List Pauli) : ∀ (st st' : State) (coins cs : List Bool) (outs : List Int)
    (k : Nat), TabInv st n → (∀ o ∈ obs, o.g.length = n ∧ o.p % 2 = 0) →
    measure st obs coins = .ok (st', outs, k, cs) →
    ∀ P : Pauli, InGroup st P → (∀ o ∈ obs, acq P.g o.g = 0) → InGroup st' P := by
  induction obs with
  | nil =>
    intro st st' coins cs outs k _ _ hm P hP _
    simp only [measure] at hm
    injection hm with hm
    injection hm with e1 _
    subst e1
    exact hP
  | cons o os ih =>
    intro st st' coins cs outs k h ho hm P hP hc
    have ho1 := ho o (by simp)
    simp only [measure] at hm
    cases h1 : measure1 st o (coins.headD false) with
    | error e => rw [h1] at hm; exact absurd hm (by simp)
    | ok res =>
      obtain ⟨st1, out, rnd⟩ := res
      rw [h1] at hm
      simp only at hm
      have i1 := measure1_inv st st1 n o _ out rnd h ho1.1 h1
      have hP1 : InGroup st1 P := by
        cases rnd with
        | false =>
          obtain ⟨e, _, _⟩ := C06_determined st st1 n o _ out h ho1.1 ho1.2 h1
          rw [e]; exact hP
        | true =>
          obtain ⟨_, _, _, _, hk, _⟩ := C06_random st st1 n o _ out h ho1.1 ho1.2 h1
          exact hk P hP (hc o (by simp))
      split at hm
      · exact absurd hm (by simp)
      · cases h2 : measure st1 os (if rnd then coins.tail else coins) with
        | error e => rw [h2] at hm; exact absurd hm (by simp)
        | ok res2 =>
          obtain ⟨st2, outs2, k2, cs2⟩ := res2
          rw [h2] at hm
          simp only at hm
          injection hm with hm
          injection hm with e1 _
          subst e1
          exact ih st1 st2 _ cs2 outs2 k2 i1 (fun o' ho' => ho o' (by simp [ho'])) h2 P hP1
            (fun o' ho' => hc o' (by simp [ho']))

/-- **after measuring pairwise commuting observables, each of them with its recorded sign is a stabilizer** -/
theorem measure_inGroup (n : Nat) (obs : List Pauli) : ∀ (st st' : State) (coins cs : List Bool) (outs : List Int)
    (k : Nat), TabInv st n → (∀ o ∈ obs, o.g.length = n ∧ o.p % 2 = 0) →
    (∀ o ∈ obs, ∀ o' ∈ obs, acq o.g o'.g = 0) →
    measure st obs coins = .ok (st', outs, k, cs) →
    ∀ x ∈ obs.zip outs, (x.2 = 0 ∨ x.2 = 1) ∧ InGroup st' ⟨x.1.g, x.1.p + 2 * x.2⟩ := by
  induction obs with
  | nil =>
    intro st st' coins cs outs k _ _ _ _ x hx
    simp at hx
  | cons o os ih =>
    intro st st' coins cs outs k h ho hcm hm x hx
    have ho1 := ho o (by simp)
    have hos : ∀ o' ∈ os, o'.g.length = n ∧ o'.p % 2 = 0 := fun o' ho' => ho o' (by simp [ho'])
    simp only [measure] at hm
    cases h1 : measure1 st o (coins.headD false) with
    | error e => rw [h1] at hm; exact absurd hm (by simp)
    | ok res =>
      obtain ⟨st1, out, rnd⟩ := res
      rw [h1] at hm
      simp only at hm
      have i1 := measure1_inv st st1 n o _ out rnd h ho1.1 h1
      have hO1 : (out = 0 ∨ out = 1) ∧ InGroup st1 ⟨o.g, o.p + 2 * out⟩ := by
        cases rnd with
        | false =>
          obtain ⟨e, hb, hin⟩ := C06_determined st st1 n o _ out h ho1.1 ho1.2 h1
          rw [e]; exact ⟨hb, hin⟩
        | true =>
          obtain ⟨_, _, hb, hin, _, _⟩ := C06_random st st1 n o _ out h ho1.1 ho1.2 h1
          exact ⟨hb, hin⟩
      split at hm
      · exact absurd hm (by simp)
      · cases h2 : measure st1 os (if rnd then coins.tail else coins) with
        | error e => rw [h2] at hm; exact absurd hm (by simp)
        | ok res2 =>
          obtain ⟨st2, outs2, k2, cs2⟩ := res2
          rw [h2] at hm
          simp only at hm
          injection hm with hm
          injection hm with e1 e2
          injection e2 with e2 _
          subst e1 e2
          rw [List.zip_cons_cons] at hx
          rcases List.mem_cons.1 hx with rfl | hx
          · refine ⟨hO1.1, ?_⟩
            exact measure_keeps n os st1 st2 _ cs2 outs2 k2 i1 hos h2 _ hO1.2
              (fun o' ho' => hcm o (by simp) o' (by simp [ho']))
          · exact ih st1 st2 _ cs2 outs2 k2 i1 hos
              (fun a ha b hb => hcm a (by simp [ha]) b (by simp [hb])) h2 x hx

/-! ## post-selecting what is already certain -/

/-- **a stabilizer `(−1)^res P` is post-selected with probability one, state unchanged** -/
theorem postselect_of_inGroup (st : State) (n : Nat) (P : Pauli) (res : Nat) (h : TabInv st n) (hr : st.r = 0)
    (hP : P.g.length = n) (hin : InGroup st ⟨P.g, P.p + 2 * (res : Int)⟩) :
    postselect st P res = .ok (st, ⟨false, 0⟩) := by
  have hN := h.N_eq
  rcases postselect_cases st P res hr with ⟨p, hp1, hp2, _, _⟩ | ⟨hc, he⟩
  · rw [hN] at hp1
    exact absurd hin (not_inGroup_of_anti st n h _ p (by omega) hp2)
  · rw [hN] at hc he
    obtain ⟨d1, _, d3, d4⟩ := det_spec st n P.g h hP (fun i hi => hc i (by omega))
    have hph := inGroup_phase_unique st n h d4 hin d1
    simp only at hph
    rw [he, if_pos d1]
    have : (scanAcc st.rows P.g n 0 st.rows ⟨idStr n, 0⟩).p = (P.p + 2 * (res : Int)) % 4 := by omega
    rw [if_pos this]

/-- replaying a record of certain outcomes leaves the state as it is -/
theorem measBackward_of_inGroup (N : Nat) (st : State) (h : TabInv st N) (hr : st.r = 0) :
    ∀ (l : List (Nat × Int)),
      (∀ qr ∈ l, InGroup st ⟨unitZ N qr.1, 0 + 2 * (((if qr.2 = 1 then 0 else 1 : Nat)) : Int)⟩) →
      l.foldlM (fun (s : State) (qr : Nat × Int) =>
        match postselect s ⟨unitZ N qr.1, 0⟩ (if qr.2 = 1 then 0 else 1) with
        | .error e => .error e
        | .ok (s', t) => if t.zero then .error .value else .ok s') st = (.ok st : Except Err State) := by
  intro l
  induction l with
  | nil => intro _; rfl
  | cons qr l ih =>
    intro hl
    rw [List.foldlM_cons]
    have := postselect_of_inGroup st N ⟨unitZ N qr.1, 0⟩ (if qr.2 = 1 then 0 else 1) h hr (length_unitZ N qr.1)
      (hl qr (by simp))
    simp only [this, bind, Except.bind]
    exact ih (fun x hx => hl x (by simp [hx]))

end Tj2
end PC
