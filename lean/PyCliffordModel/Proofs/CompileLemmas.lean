import PyCliffordModel.Proofs.CircuitLemmas
import PyCliffordModel.Proofs.StateLemmas
/-! # Proofs/CompileLemmas — helper lemmas for the compile-soundness theorems of C09/C10

Embedding one more gate (through a mask disjoint from everything embedded so far) into a layer map, the fold
`compileGates`, the fold `compileLayers`, the layer structure produced by `take`, and the uncompiled `backward`. -/
namespace PC

/-- a recorded backward map of a map gate, if any, is the inverse of its forward map. (The library only ever sets
    `backward_map` to `forward_map.inverse()`; a gate object with an unrelated backward map is not a gate.) -/
def Gate.BmapOK (g : Gate) : Prop :=
  g.gen = none → ∀ B, g.bmap = some B → ∃ M, g.fmap = some M ∧ inverse M = some B

namespace Cm
open Tr Cp Ci

/-! ## the commutation form through `scatter` -/

theorem acqSum_scatter_scatter (m : List Bool) : ∀ (g h s t : PStr), m.length ≤ g.length → m.length ≤ h.length →
    s.length = maskCount m → t.length = maskCount m →
    acqSum (scatter m g s) (scatter m h t) + acqSum (gather m g) (gather m h) = acqSum g h + acqSum s t := by
  induction m with
  | nil =>
    intro g h s t _ _ hs ht
    have : s = [] := List.eq_nil_of_length_eq_zero (by simpa [maskCount] using hs)
    subst this
    simp only [scatter_nil_left, gather_nil_left, acqSum_nil_left]
  | cons b ms ih =>
    intro g h s t hg hh hs ht
    cases g with
    | nil => simp at hg
    | cons q qs =>
      cases h with
      | nil => simp at hh
      | cons r rs =>
        have hg' : ms.length ≤ qs.length := by simpa using hg
        have hh' : ms.length ≤ rs.length := by simpa using hh
        cases b with
        | false =>
          rw [maskCount_cons_false] at hs ht
          rw [scatter_cons_false, scatter_cons_false, gather_cons_false, gather_cons_false, acqSum_cons, acqSum_cons]
          have := ih qs rs s t hg' hh' hs ht
          omega
        | true =>
          rw [maskCount_cons_true] at hs ht
          cases s with
          | nil => simp at hs
          | cons s0 ss =>
            cases t with
            | nil => simp at ht
            | cons t0 ts =>
              rw [scatter_cons_true_cons, scatter_cons_true_cons, gather_cons_true, gather_cons_true, acqSum_cons,
                acqSum_cons, acqSum_cons, acqSum_cons]
              have := ih qs rs ss ts hg' hh' (by simpa using hs) (by simpa using ht)
              omega

/-- a map applied through a mask preserves the commutation relations -/
theorem transformMasked_acq (f : List Pauli) (m : List Bool) (hf : ValidMap f (maskCount m)) (P Q : Pauli)
    (hP : m.length ≤ P.g.length) (hQ : m.length ≤ Q.g.length) :
    acq (transformMasked f m P).g (transformMasked f m Q).g = acq P.g Q.g := by
  have hfl : ∀ R ∈ f, R.g.length = maskCount m := fun R hR => (hf.2.1 R hR).1
  have l1 := length_transform f _ hf.1 hfl ⟨gather m P.g, P.p⟩
  have l2 := length_transform f _ hf.1 hfl ⟨gather m Q.g, Q.p⟩
  have h := acqSum_scatter_scatter m P.g Q.g _ _ hP hQ l1 l2
  have ha := transform_acq f _ hf ⟨gather m P.g, P.p⟩ ⟨gather m Q.g, Q.p⟩ (length_gather m P.g hP)
    (length_gather m Q.g hQ)
  simp only [transformMasked]
  unfold acq at ha ⊢
  simp only at ha
  omega

theorem length_transformMasked (f : List Pauli) (m : List Bool) (P : Pauli) :
    (transformMasked f m P).g.length = P.g.length := by
  simp only [transformMasked]; exact length_scatter _ _ _

theorem transformMasked_hermitian (f : List Pauli) (m : List Bool) (hf : ValidMap f (maskCount m)) (P : Pauli)
    (hP : m.length ≤ P.g.length) (hp : P.p % 2 = 0) : (transformMasked f m P).p % 2 = 0 := by
  simp only [transformMasked]
  exact transform_hermitian f _ hf ⟨gather m P.g, P.p⟩ (length_gather m P.g hP) hp

theorem transformMasked_congr (f : List Pauli) (m : List Bool) {a b : Pauli} (h : PEq a b) :
    PEq (transformMasked f m a) (transformMasked f m b) := by
  rw [transformMasked_eq_maskedOp, transformMasked_eq_maskedOp]
  exact maskedOp_congr (phaseLin_transform f) m h

/-! ## a list of rows that acts as a symplectic, Hermitian action is a valid map -/

theorem valid_of_act (M : List Pauli) (n : Nat) (T : Pauli → Pauli) (hlen : M.length = 2 * n)
    (hl : ∀ R ∈ M, R.g.length = n)
    (hT : ∀ P : Pauli, P.g.length = n → PEq (transform M P) (T P))
    (hacq : ∀ P Q : Pauli, P.g.length = n → Q.g.length = n → acq (T P).g (T Q).g = acq P.g Q.g)
    (hherm : ∀ P : Pauli, P.g.length = n → P.p % 2 = 0 → (T P).p % 2 = 0) : ValidMap M n := by
  have hrow : ∀ i, i < 2 * n → PEq (rowAt M i) (T (rowAt (idMap n) i)) := by
    intro i hi
    have hiM : i < M.length := by rw [hlen]; exact hi
    have lR := hl _ (rowAt_mem M i hiM)
    rcases Nat.mod_two_eq_zero_or_one i with h0 | h1
    · obtain ⟨k, rfl⟩ : ∃ k, i = 2 * k := ⟨i / 2, by omega⟩
      have hk : k < n := by omega
      rw [St.rowAt_idMap_X n k hk]
      exact (transform_unitX M n k hlen hk lR).symm.trans (hT _ (length_unitX n k))
    · obtain ⟨k, rfl⟩ : ∃ k, i = 2 * k + 1 := ⟨i / 2, by omega⟩
      have hk : k < n := by omega
      rw [St.rowAt_idMap_Z n k hk]
      exact (transform_unitZ M n k hlen hk lR).symm.trans (hT _ (length_unitZ n k))
  refine ⟨hlen, fun R hR => ⟨hl R hR, ?_⟩, fun i j hi hj => ?_⟩
  · obtain ⟨r, hr, rfl⟩ := List.getElem_of_mem hR
    have hr2 : r < 2 * n := by rw [← hlen]; exact hr
    have e := hrow r hr2
    rw [rowAt_of_lt M r hr] at e
    have hh := hherm _ (rowAt_idMap n r hr2).1 (by rw [(rowAt_idMap n r hr2).2]; rfl)
    have := e.2
    omega
  · rw [(hrow i hi).1, (hrow j hj).1, hacq _ _ (rowAt_idMap n i hi).1 (rowAt_idMap n j hj).1]
    exact Sympl_idMap n i j (by rw [length_idMap]; exact hi) (by rw [length_idMap]; exact hj)

/-! ## the action of `embed big small m`: the small map on the masked qubits, the big map on the others -/

theorem transform_embed_split (F f : List Pauli) (m : List Bool) (P : Pauli)
    (hFl : F.length = 2 * m.length) (hok : RowsOK m (mask2 m) F)
    (hf : f.length = 2 * maskCount m) (hfr : ∀ R ∈ f, R.g.length = maskCount m) (hl : P.g.length = m.length) :
    PEq (transform (embed F f m) P)
      ⟨scatter m (transform F ⟨scatter m P.g (idStr (maskCount m)), 0⟩).g (transform f ⟨gather m P.g, 0⟩).g,
        P.p + (transform f ⟨gather m P.g, 0⟩).p + (transform F ⟨scatter m P.g (idStr (maskCount m)), 0⟩).p⟩ := by
  have hE : mapN (embedRows m (mask2 m) F f) = m.length := by
    apply mapN_of_length
    rw [length_embedRows, hFl]
  have hJ0 : PEq ⟨idStr m.length, 0⟩ (J m ⟨idStr (maskCount m), 0⟩ ⟨idStr m.length, 0⟩) := by
    refine ⟨?_, rfl⟩
    show idStr m.length = scatter m (idStr m.length) (idStr (maskCount m))
    rw [scatter_idStr_idStr]
  have key := combineAux_embedRows m (mask2 m) F f (flat P.g) _ _ _ hok hfr
    (by rw [count_mask2, hf]; exact Nat.le_refl _) (length_idStr _) (length_idStr _) hJ0
  rw [selT_mask2, combineAux_selF m P.g _ _ hl] at key
  have hp0 := p0Sum_gather_add m P.g
  unfold transform combine embed
  rw [hE, mapN_of_length f _ hf, mapN_of_length F _ hFl]
  refine ⟨?_, ?_⟩
  · show (combineAux (flat P.g) (embedRows m (mask2 m) F f) ⟨idStr m.length, 0⟩).g = _
    rw [key.1]
    rfl
  · have k2 := key.2
    simp only [J] at k2
    simp only [p0] at k2 ⊢
    omega

/-- an action that does not look at, and does not write to, the qubits of `m` -/
def OffMask (m : List Bool) (A : Pauli → Pauli) : Prop :=
  ∀ (B s : PStr) (p : Int), A ⟨scatter m B s, p⟩ = ⟨scatter m (A ⟨B, p⟩).g s, (A ⟨B, p⟩).p⟩

theorem offMask_id (m : List Bool) : OffMask m id := fun _ _ _ => rfl

theorem offMask_maskedOp (f : Pauli → Pauli) (m m' : List Bool) (hd : maskDisj m' m = true) :
    OffMask m (maskedOp f m') := by
  intro B s p
  simp only [maskedOp]
  rw [gather_scatter_disj m' m B s hd, scatter_scatter_disj m' m B s _ hd]

theorem offMask_comp (m : List Bool) (A A' : Pauli → Pauli) (h : OffMask m A) (h' : OffMask m A') :
    OffMask m (fun P => A' (A P)) := by
  intro B s p
  show A' (A ⟨scatter m B s, p⟩) = _
  rw [h B s p, h' _ s _]

/-- **embedding one more gate**: if the layer map built so far acts as `A`, and `A` leaves the qubits of `m` alone,
    then after `embed` the map acts as `A` followed by the small map through the mask -/
theorem embed_acts (F f : List Pauli) (m : List Bool) (A : Pauli → Pauli)
    (hFl : F.length = 2 * m.length) (hFr : ∀ R ∈ F, R.g.length = m.length) (hok : RowsOK m (mask2 m) F)
    (hf : f.length = 2 * maskCount m) (hfr : ∀ R ∈ f, R.g.length = maskCount m)
    (hA : ∀ P : Pauli, P.g.length = m.length → PEq (transform F P) (A P)) (hoff : OffMask m A)
    (P : Pauli) (hl : P.g.length = m.length) :
    PEq (transform (embed F f m) P) (transformMasked f m (A P)) := by
  have hs := transform_embed_split F f m P hFl hok hf hfr hl
  refine hs.trans ?_
  -- the background operator
  have hPr : (scatter m P.g (idStr (maskCount m))).length = m.length := by rw [length_scatter, hl]
  have hAr := hA ⟨scatter m P.g (idStr (maskCount m)), P.p⟩ hPr
  have hFr0 := transform_of_g_eq F ⟨scatter m P.g (idStr (maskCount m)), P.p⟩
    ⟨scatter m P.g (idStr (maskCount m)), 0⟩ rfl
  have hlg : (gather m P.g).length = maskCount m := length_gather m P.g (by rw [hl]; exact Nat.le_refl _)
  -- `P` is its background with the masked part written back
  have hP : P = ⟨scatter m (scatter m P.g (idStr (maskCount m))) (gather m P.g), P.p⟩ := by
    rw [scatter_scatter m P.g _ _ hlg, scatter_gather]
  have hAP : A P = ⟨scatter m (A ⟨scatter m P.g (idStr (maskCount m)), P.p⟩).g (gather m P.g),
      (A ⟨scatter m P.g (idStr (maskCount m)), P.p⟩).p⟩ := by
    conv => lhs; rw [hP]
    exact hoff _ _ _
  have hXl : (A ⟨scatter m P.g (idStr (maskCount m)), P.p⟩).g.length = m.length := by
    rw [← hAr.1]; exact length_transform F _ hFl hFr _
  have hgA : gather m (A P).g = gather m P.g := by
    rw [hAP]; exact gather_scatter m _ _ (by rw [hXl]; exact Nat.le_refl _) hlg
  have hf0 := transform_of_g_eq f ⟨gather m P.g, (A P).p⟩ ⟨gather m P.g, 0⟩ rfl
  have hsl : (transform f ⟨gather m P.g, (A P).p⟩).g.length = maskCount m := length_transform f _ hf hfr _
  have hAPp : (A P).p = (A ⟨scatter m P.g (idStr (maskCount m)), P.p⟩).p := by rw [hAP]
  simp only [transformMasked]
  rw [hgA]
  refine ⟨?_, ?_⟩
  · have hAPg : (A P).g = scatter m (A ⟨scatter m P.g (idStr (maskCount m)), P.p⟩).g (gather m P.g) := by
      rw [hAP]
    show scatter m _ _ = scatter m (A P).g _
    rw [hAPg, scatter_scatter m _ _ _ hsl, hf0.1, ← hAr.1, hFr0.1]
  · have a := hf0.2; have b := hFr0.2; have c := hAr.2
    simp only at a b c ⊢
    omega

/-! ## the rows of `embed` -/

theorem mem_embedRows (m : List Bool) (bs : List Bool) : ∀ (Rs small : List Pauli) (R : Pauli),
    R ∈ embedRows m bs Rs small → R ∈ Rs ∨ ∃ R0 ∈ Rs, ∃ s ∈ small, R = ⟨scatter m R0.g s.g, s.p⟩ := by
  induction bs with
  | nil => intro Rs small R h; left; simpa [embedRows] using h
  | cons b bs ih =>
    intro Rs small R h
    cases Rs with
    | nil => simp [embedRows] at h
    | cons R1 Rs =>
      cases b with
      | false =>
        have e : embedRows m (false :: bs) (R1 :: Rs) small = R1 :: embedRows m bs Rs small := by simp [embedRows]
        rw [e] at h
        rcases List.mem_cons.1 h with rfl | h
        · left; simp
        · rcases ih Rs small R h with h | ⟨R0, h0, s, hs, rfl⟩
          · left; simp [h]
          · right; exact ⟨R0, by simp [h0], s, hs, rfl⟩
      | true =>
        cases small with
        | nil =>
          have e : embedRows m (true :: bs) (R1 :: Rs) [] = R1 :: embedRows m bs Rs [] := by simp [embedRows]
          rw [e] at h
          rcases List.mem_cons.1 h with rfl | h
          · left; simp
          · rcases ih Rs [] R h with h | ⟨R0, h0, s, hs, rfl⟩
            · left; simp [h]
            · right; exact ⟨R0, by simp [h0], s, hs, rfl⟩
        | cons s0 ss =>
          have e : embedRows m (true :: bs) (R1 :: Rs) (s0 :: ss) =
              ⟨scatter m R1.g s0.g, s0.p⟩ :: embedRows m bs Rs ss := by simp [embedRows]
          rw [e] at h
          rcases List.mem_cons.1 h with rfl | h
          · right; exact ⟨R1, by simp, s0, by simp, rfl⟩
          · rcases ih Rs ss R h with h | ⟨R0, h0, s, hs, rfl⟩
            · left; simp [h]
            · right; exact ⟨R0, by simp [h0], s, by simp [hs], rfl⟩

theorem length_rows_embed (F f : List Pauli) (m : List Bool) (n : Nat) (hFr : ∀ R ∈ F, R.g.length = n) :
    ∀ R ∈ embed F f m, R.g.length = n := by
  intro R hR
  rcases mem_embedRows m (mask2 m) F f R hR with h | ⟨R0, h0, s, _, rfl⟩
  · exact hFr R h
  · show (scatter m R0.g s.g).length = n
    rw [length_scatter]; exact hFr R0 h0

theorem maskDisj_mask2 (m' m : List Bool) : maskDisj (mask2 m') (mask2 m) = maskDisj m' m := by
  induction m' generalizing m with
  | nil => rfl
  | cons a as ih =>
    cases m with
    | nil => rfl
    | cons b bs =>
      rw [mask2_cons, mask2_cons, maskDisj_cons, maskDisj_cons, maskDisj_cons, ih bs]
      cases a <;> cases b <;> simp

/-- rows overwritten through `m` stay admissible for any mask `m'` that has no qubit in common with `m` -/
theorem rowsOK_embedRows (m m' : List Bool) (hd : maskDisj m' m = true) : ∀ (bs' bs : List Bool)
    (Rs small : List Pauli), maskDisj bs' bs = true → RowsOK m' bs' Rs → RowsOK m' bs' (embedRows m bs Rs small) := by
  intro bs'
  induction bs' with
  | nil =>
    intro bs Rs small _ h
    cases Rs with
    | nil => cases bs <;> simpa [embedRows] using h
    | cons R Rs => simp [RowsOK] at h
  | cons b' bs' ih =>
    intro bs Rs small hdb h
    cases Rs with
    | nil => simp [RowsOK] at h
    | cons R Rs =>
      obtain ⟨⟨hRl, hRz⟩, hrest⟩ := h
      cases bs with
      | nil =>
        have e : embedRows m [] (R :: Rs) small = R :: Rs := by simp [embedRows]
        rw [e]
        exact ⟨⟨hRl, hRz⟩, hrest⟩
      | cons b bs =>
        rw [maskDisj_cons, Bool.and_eq_true] at hdb
        obtain ⟨hbb, hdb'⟩ := hdb
        cases b with
        | false =>
          have e : embedRows m (false :: bs) (R :: Rs) small = R :: embedRows m bs Rs small := by simp [embedRows]
          rw [e]
          exact ⟨⟨hRl, hRz⟩, ih bs Rs small hdb' hrest⟩
        | true =>
          have hb' : b' = false := by cases b' <;> simp_all
          subst hb'
          cases small with
          | nil =>
            have e : embedRows m (true :: bs) (R :: Rs) [] = R :: embedRows m bs Rs [] := by simp [embedRows]
            rw [e]
            exact ⟨⟨hRl, hRz⟩, ih bs Rs [] hdb' hrest⟩
          | cons s0 ss =>
            have e : embedRows m (true :: bs) (R :: Rs) (s0 :: ss) =
                ⟨scatter m R.g s0.g, s0.p⟩ :: embedRows m bs Rs ss := by simp [embedRows]
            rw [e]
            refine ⟨⟨?_, ?_⟩, ih bs Rs ss hdb' hrest⟩
            · show (scatter m R.g s0.g).length = m'.length
              rw [length_scatter]; exact hRl
            · have hz : MaskedZero m' R.g := by simpa using hRz
              show (if false = true then _ else MaskedZero m' (scatter m R.g s0.g))
              simp only [Bool.false_eq_true, if_false]
              unfold MaskedZero at hz ⊢
              rw [gather_scatter_disj m' m R.g s0.g hd, hz]

theorem rowsOK_embed (F f : List Pauli) (m m' : List Bool) (hd : maskDisj m' m = true)
    (h : RowsOK m' (mask2 m') F) : RowsOK m' (mask2 m') (embed F f m) :=
  rowsOK_embedRows m m' hd _ _ F f (by rw [maskDisj_mask2]; exact hd) h

/-- the embedded map is valid -/
theorem embed_valid (F f : List Pauli) (m : List Bool) (A : Pauli → Pauli)
    (hF : ValidMap F m.length) (hok : RowsOK m (mask2 m) F) (hf : ValidMap f (maskCount m))
    (hA : ∀ P : Pauli, P.g.length = m.length → PEq (transform F P) (A P)) (hoff : OffMask m A) :
    ValidMap (embed F f m) m.length := by
  have hFr : ∀ R ∈ F, R.g.length = m.length := fun R hR => (hF.2.1 R hR).1
  have hfr : ∀ R ∈ f, R.g.length = maskCount m := fun R hR => (hf.2.1 R hR).1
  have hAl : ∀ P : Pauli, P.g.length = m.length → (A P).g.length = m.length := fun P hP => by
    rw [← (hA P hP).1]; exact length_transform F _ hF.1 hFr P
  apply valid_of_act (embed F f m) m.length (fun P => transformMasked f m (A P))
  · unfold embed; rw [length_embedRows, hF.1]
  · exact length_rows_embed F f m _ hFr
  · intro P hP
    exact embed_acts F f m A hF.1 hFr hok hf.1 hfr hA hoff P hP
  · intro P Q hP hQ
    show acq (transformMasked f m (A P)).g (transformMasked f m (A Q)).g = _
    rw [transformMasked_acq f m hf _ _ (by rw [hAl P hP]; exact Nat.le_refl _) (by rw [hAl Q hQ]; exact Nat.le_refl _),
      ← (hA P hP).1, ← (hA Q hQ).1, transform_acq F _ hF P Q hP hQ]
  · intro P hP hp
    apply transformMasked_hermitian f m hf _ (by rw [hAl P hP]; exact Nat.le_refl _)
    have h1 := transform_hermitian F _ hF P hP hp
    have h2 := (hA P hP).2
    omega

/-! ## embedding a list of maps through pairwise disjoint masks -/

def embedAll (F : CMap) : List (List Bool × CMap) → CMap
  | [] => F
  | x :: l => embedAll (embed F x.2 x.1) l
def actAll : List (List Bool × CMap) → Pauli → Pauli
  | [], P => P
  | x :: l, P => actAll l (transformMasked x.2 x.1 P)

theorem embedAll_sound (N : Nat) : ∀ (l : List (List Bool × CMap)) (F : CMap) (A : Pauli → Pauli),
    (∀ x ∈ l, x.1.length = N ∧ ValidMap x.2 (maskCount x.1)) →
    l.Pairwise (fun x y => maskDisj x.1 y.1 = true) →
    ValidMap F N → (∀ P : Pauli, P.g.length = N → PEq (transform F P) (A P)) →
    (∀ x ∈ l, OffMask x.1 A ∧ RowsOK x.1 (mask2 x.1) F) →
    ValidMap (embedAll F l) N ∧ ∀ P : Pauli, P.g.length = N → PEq (transform (embedAll F l) P) (actAll l (A P)) := by
  intro l
  induction l with
  | nil => intro F A _ _ hF hA _; exact ⟨hF, hA⟩
  | cons x l ih =>
    intro F A hx hp hF hA hinv
    obtain ⟨hxl, hxf⟩ := hx x (by simp)
    obtain ⟨hoff, hok⟩ := hinv x (by simp)
    subst hxl
    have hp' := List.pairwise_cons.1 hp
    have hFr : ∀ R ∈ F, R.g.length = x.1.length := fun R hR => (hF.2.1 R hR).1
    have hfr : ∀ R ∈ x.2, R.g.length = maskCount x.1 := fun R hR => (hxf.2.1 R hR).1
    have hV := embed_valid F x.2 x.1 A hF hok hxf hA hoff
    have hact := embed_acts F x.2 x.1 A hF.1 hFr hok hxf.1 hfr hA hoff
    show ValidMap (embedAll (embed F x.2 x.1) l) _ ∧ ∀ P : Pauli, P.g.length = x.1.length →
      PEq (transform (embedAll (embed F x.2 x.1) l) P) (actAll l (transformMasked x.2 x.1 (A P)))
    apply ih (embed F x.2 x.1) (fun P => transformMasked x.2 x.1 (A P))
      (fun y hy => hx y (by simp [hy])) hp'.2 hV hact
    intro y hy
    have hd : maskDisj x.1 y.1 = true := hp'.1 y hy
    have hd' : maskDisj y.1 x.1 = true := by rw [maskDisj_comm]; exact hd
    obtain ⟨hoffy, hoky⟩ := hinv y (by simp [hy])
    refine ⟨?_, rowsOK_embed F x.2 x.1 y.1 hd' hoky⟩
    apply offMask_comp y.1 A _ hoffy
    have : transformMasked x.2 x.1 = maskedOp (transform x.2) x.1 := by
      funext P; exact transformMasked_eq_maskedOp _ _ _
    rw [this]
    exact offMask_maskedOp _ y.1 x.1 hd

/-- starting from the identity map -/
theorem embedAll_idMap (N : Nat) (l : List (List Bool × CMap))
    (hx : ∀ x ∈ l, x.1.length = N ∧ ValidMap x.2 (maskCount x.1))
    (hp : l.Pairwise (fun x y => maskDisj x.1 y.1 = true)) :
    ValidMap (embedAll (idMap N) l) N ∧
      ∀ P : Pauli, P.g.length = N → PEq (transform (embedAll (idMap N) l) P) (actAll l P) := by
  apply embedAll_sound N l (idMap N) id hx hp (validMap_idMap N) (fun P hP => transform_idMap N P hP)
  intro x hxm
  refine ⟨offMask_id _, ?_⟩
  have := RowsOK_idMap x.1
  rw [(hx x hxm).1] at this
  exact this

/-! ## compiling one gate -/

theorem maskedOp_congr_fun (f f' : Pauli → Pauli) (m : List Bool) (P : Pauli)
    (h : PEq (f ⟨gather m P.g, P.p⟩) (f' ⟨gather m P.g, P.p⟩)) : PEq (maskedOp f m P) (maskedOp f' m P) := by
  refine ⟨?_, h.2⟩
  simp only [maskedOp]; rw [h.1]

/-- what `CliffordGate.compile()` produces for a well-formed gate: both maps, valid, acting as the gate and its inverse -/
theorem gate_compile_spec (g : Gate) (N : Nat) (hg : g.WF N) (hb : g.BmapOK) :
    ∃ g' f b, g.compile = .ok g' ∧ g'.fmap = some f ∧ g'.bmap = some b ∧
      ValidMap f (maskCount (maskOf g.qubits N)) ∧ ValidMap b (maskCount (maskOf g.qubits N)) ∧
      ∀ P : Pauli, P.g.length = N →
        PEq (transformMasked f (maskOf g.qubits N) P) (gateAct g N P) ∧
        PEq (transformMasked b (maskOf g.qubits N) P) (gateActInv g N P) := by
  obtain ⟨_, hq, hn, hk⟩ := hg
  have hk' : maskCount (maskOf g.qubits N) = g.n := maskCount_maskOf g.qubits N hn hq
  rw [hk']
  rcases hk with ⟨G, hgen, hGl, hGp⟩ | ⟨hgen, M, hM, hV⟩
  · have hnp : (neg G).p % 2 = 0 := by simp only [neg]; omega
    refine ⟨{ g with fmap := some (rotationMap G), bmap := some (rotationMap (neg G)) }, rotationMap G,
      rotationMap (neg G), ?_, rfl, rfl, ?_, ?_, ?_⟩
    · simp only [Gate.compile, hgen]
    · rw [← hGl]; exact rotationMap_valid G hGp
    · rw [← hGl]; exact rotationMap_valid (neg G) hnp
    · intro P hP
      have hlg : (gather (maskOf g.qubits N) P.g).length = g.n := by
        rw [length_gather _ _ (by rw [length_maskOf, hP]; exact Nat.le_refl _), hk']
      rw [gateAct_eq, gateActInv_eq, gateFun_gen g G hgen, gateFunInv_gen g G hgen, transformMasked_eq_maskedOp,
        transformMasked_eq_maskedOp]
      constructor
      · exact maskedOp_congr_fun _ _ _ _ (rotationMap_acts_as_rotate G _ hGp (by rw [hGl]; exact hlg.symm))
      · exact maskedOp_congr_fun _ _ _ _ (rotationMap_acts_as_rotate (neg G) _ hnp
          (by show G.g.length = _; rw [hGl]; exact hlg.symm))
  · obtain ⟨B, hB, hVB, -, -⟩ := inverse_spec M g.n hV
    have hact : ∀ P : Pauli, P.g.length = N →
        PEq (transformMasked M (maskOf g.qubits N) P) (gateAct g N P) ∧
        PEq (transformMasked B (maskOf g.qubits N) P) (gateActInv g N P) := by
      intro P _
      constructor
      · simp only [gateAct, hgen, hM]; exact PEq.refl _
      · simp only [gateActInv, hgen, hM, hB]; exact PEq.refl _
    cases hbm : g.bmap with
    | none =>
      refine ⟨{ g with bmap := some B }, M, B, ?_, hM, rfl, hV, hVB, hact⟩
      simp only [Gate.compile, hgen, hM, hbm, hB]
    | some B' =>
      obtain ⟨M', hM', hB'⟩ := hb hgen B' hbm
      rw [hM] at hM'
      cases hM'
      rw [hB] at hB'
      cases hB'
      refine ⟨g, M, B, ?_, hM, hbm, hV, hVB, hact⟩
      simp only [Gate.compile, hgen, hM, hbm]

/-! ## the fold of `CliffordLayer.compile` -/

/-- `x = (mask, map)` is a compiled form of the action `act g` -/
def Rel (N : Nat) (act : Gate → Pauli → Pauli) (g : Gate) (x : List Bool × CMap) : Prop :=
  x.1 = maskOf g.qubits N ∧ ValidMap x.2 (maskCount x.1) ∧
    ∀ P : Pauli, P.g.length = N → PEq (transformMasked x.2 x.1 P) (act g P)

theorem actAll_congr (l : List (List Bool × CMap)) {a b : Pauli} (h : PEq a b) : PEq (actAll l a) (actAll l b) := by
  induction l generalizing a b with
  | nil => exact h
  | cons x l ih => exact ih (transformMasked_congr x.2 x.1 h)

theorem rel_items (N : Nat) (act : Gate → Pauli → Pauli) {gs : List Gate} {l : List (List Bool × CMap)}
    (h : List.Forall₂ (Rel N act) gs l) : ∀ x ∈ l, x.1.length = N ∧ ValidMap x.2 (maskCount x.1) := by
  induction h with
  | nil => intro x hx; simp at hx
  | cons hr _ ih =>
    intro x hx
    rcases List.mem_cons.1 hx with rfl | hx
    · exact ⟨by rw [hr.1, length_maskOf], hr.2.1⟩
    · exact ih x hx

theorem rel_mask (N : Nat) (act : Gate → Pauli → Pauli) {gs : List Gate} {l : List (List Bool × CMap)}
    (h : List.Forall₂ (Rel N act) gs l) : ∀ x ∈ l, ∃ g ∈ gs, x.1 = maskOf g.qubits N := by
  induction h with
  | nil => intro x hx; simp at hx
  | cons hr _ ih =>
    intro x hx
    rcases List.mem_cons.1 hx with rfl | hx
    · exact ⟨_, by simp, hr.1⟩
    · obtain ⟨g, hg, e⟩ := ih x hx
      exact ⟨g, by simp [hg], e⟩

theorem rel_pairwise (N : Nat) (act : Gate → Pauli → Pauli) {gs : List Gate} {l : List (List Bool × CMap)}
    (h : List.Forall₂ (Rel N act) gs l) (hp : gs.Pairwise (fun g h => g.indep h = true)) :
    l.Pairwise (fun x y => maskDisj x.1 y.1 = true) := by
  induction h with
  | nil => exact List.Pairwise.nil
  | cons hr hrest ih =>
    have hp' := List.pairwise_cons.1 hp
    refine List.pairwise_cons.2 ⟨?_, ih hp'.2⟩
    intro y hy
    obtain ⟨g', hg', e⟩ := rel_mask N act hrest y hy
    rw [hr.1, e]
    exact maskDisj_maskOf _ _ N (hp'.1 g' hg')

theorem rel_actAll (N : Nat) (act : Gate → Pauli → Pauli) (hlen : ∀ g P, (act g P).g.length = P.g.length)
    {gs : List Gate} {l : List (List Bool × CMap)} (h : List.Forall₂ (Rel N act) gs l) :
    ∀ P : Pauli, P.g.length = N → PEq (actAll l P) (gs.foldl (fun Q g => act g Q) P) := by
  induction h with
  | nil => intro P _; exact PEq.refl _
  | cons hr _ ih =>
    intro P hP
    rw [List.foldl_cons]
    exact (actAll_congr _ (hr.2.2 P hP)).trans (ih _ (by rw [hlen]; exact hP))

/-- a layer map built by embedding compiled forms of pairwise independent gates into the identity map -/
theorem layer_fold (N : Nat) (act : Gate → Pauli → Pauli) (hlen : ∀ g P, (act g P).g.length = P.g.length)
    (gs : List Gate) (l : List (List Bool × CMap)) (h : List.Forall₂ (Rel N act) gs l)
    (hp : gs.Pairwise (fun g h => g.indep h = true)) :
    ValidMap (embedAll (idMap N) l) N ∧
      ∀ P : Pauli, P.g.length = N → PEq (transform (embedAll (idMap N) l) P) (gs.foldl (fun Q g => act g Q) P) := by
  obtain ⟨hV, hact⟩ := embedAll_idMap N l (rel_items N act h) (rel_pairwise N act h hp)
  exact ⟨hV, fun P hP => (hact P hP).trans (rel_actAll N act hlen h P hP)⟩

theorem compileGates_spec (N : Nat) : ∀ (gs gs' : List Gate) (F B F' B' : CMap),
    (∀ g ∈ gs, g.WF N ∧ g.BmapOK) → compileGates N gs F B = .ok (gs', F', B') →
    ∃ lf lb, F' = embedAll F lf ∧ B' = embedAll B lb ∧
      List.Forall₂ (Rel N (fun g => gateAct g N)) gs lf ∧ List.Forall₂ (Rel N (fun g => gateActInv g N)) gs lb := by
  intro gs
  induction gs with
  | nil =>
    intro gs' F B F' B' _ h
    simp only [compileGates] at h
    cases h
    exact ⟨[], [], rfl, rfl, List.Forall₂.nil, List.Forall₂.nil⟩
  | cons g gs ih =>
    intro gs' F B F' B' hw h
    obtain ⟨hg, hb⟩ := hw g (by simp)
    obtain ⟨g', f, b, hc, hf, hbm, hVf, hVb, hact⟩ := gate_compile_spec g N hg hb
    have hmask := qMask_eq g.qubits N hg.1 hg.2.1
    unfold compileGates at h
    rw [hc] at h
    simp only [hmask, hf, hbm] at h
    cases hrec : compileGates N gs (embed F f (maskOf g.qubits N)) (embed B b (maskOf g.qubits N)) with
    | error e => rw [hrec] at h; cases h
    | ok r =>
      obtain ⟨gs'', F'', B''⟩ := r
      rw [hrec] at h
      cases h
      obtain ⟨lf, lb, e1, e2, r1, r2⟩ := ih gs'' _ _ F' B' (fun x hx => hw x (by simp [hx])) hrec
      refine ⟨(maskOf g.qubits N, f) :: lf, (maskOf g.qubits N, b) :: lb, e1, e2,
        List.Forall₂.cons ⟨rfl, hVf, fun P hP => (hact P hP).1⟩ r1,
        List.Forall₂.cons ⟨rfl, hVb, fun P hP => (hact P hP).2⟩ r2⟩

/-! ## inverse gates of a layer in either order -/

theorem gateActInv_comm (g h : Gate) (N : Nat) (P : Pauli) (hd : g.indep h = true) :
    PEq (gateActInv g N (gateActInv h N P)) (gateActInv h N (gateActInv g N P)) := by
  simp only [gateActInv_eq]
  exact maskedOp_comm (phaseLin_gateFunInv g) (phaseLin_gateFunInv h) _ _ (maskDisj_maskOf g h N hd) P

/-- the inverse gates applied in list order (what `CliffordLayer.backward` and the compiled backward map do) -/
def fwdInv (gs : List Gate) (N : Nat) (P : Pauli) : Pauli := gs.foldl (fun Q g => gateActInv g N Q) P

theorem fwdInv_cons (g : Gate) (gs : List Gate) (N : Nat) (P : Pauli) :
    fwdInv (g :: gs) N P = fwdInv gs N (gateActInv g N P) := rfl

theorem length_fwdInv (gs : List Gate) (N : Nat) (P : Pauli) : (fwdInv gs N P).g.length = P.g.length := by
  induction gs generalizing P with
  | nil => rfl
  | cons g gs ih => rw [fwdInv_cons, ih, length_gateActInv]

theorem seqActInv_bubble (g : Gate) (gs : List Gate) (N : Nat) (P : Pauli) (hB : ∀ h ∈ gs, g.indep h = true) :
    PEq (seqActInv gs N (gateActInv g N P)) (gateActInv g N (seqActInv gs N P)) := by
  induction gs with
  | nil => exact PEq.refl _
  | cons h gs ih =>
    rw [seqActInv_cons, seqActInv_cons]
    refine (gateActInv_congr h N (ih fun x hx => hB x (by simp [hx]))).trans ?_
    exact (gateActInv_comm g h N _ (hB h (by simp))).symm

/-- for pairwise independent gates the order of the inverse gates is immaterial -/
theorem fwdInv_eq_seqActInv (gs : List Gate) (N : Nat) (P : Pauli)
    (hp : gs.Pairwise (fun g h => g.indep h = true)) : PEq (fwdInv gs N P) (seqActInv gs N P) := by
  induction gs generalizing P with
  | nil => exact PEq.refl _
  | cons g gs ih =>
    have hp' := List.pairwise_cons.1 hp
    rw [fwdInv_cons, seqActInv_cons]
    exact (ih _ hp'.2).trans (seqActInv_bubble g gs N P hp'.1)

/-- **compiling a layer** -/
theorem layer_compile_sound (N : Nat) (gs gs' : List Gate) (F B : CMap)
    (hw : ∀ g ∈ gs, g.WF N ∧ g.BmapOK) (hp : gs.Pairwise (fun g h => g.indep h = true))
    (hc : compileGates N gs (idMap N) (idMap N) = .ok (gs', F, B)) :
    ValidMap F N ∧ ValidMap B N ∧
    (∀ P : Pauli, P.g.length = N → PEq (transform F P) (seqAct gs N P) ∧ PEq (transform B P) (seqActInv gs N P)) := by
  obtain ⟨lf, lb, rfl, rfl, r1, r2⟩ := compileGates_spec N gs gs' _ _ F B hw hc
  obtain ⟨hV1, ha1⟩ := layer_fold N (fun g => gateAct g N) (fun g P => length_gateAct g N P) gs lf r1 hp
  obtain ⟨hV2, ha2⟩ := layer_fold N (fun g => gateActInv g N) (fun g P => length_gateActInv g N P) gs lb r2 hp
  exact ⟨hV1, hV2, fun P hP => ⟨ha1 P hP, (ha2 P hP).trans (fwdInv_eq_seqActInv gs N P hp)⟩⟩

/-! ## the fold of `CliffordCircuit.compile` -/

/-- a gate layer as `take` builds it: no compiled maps, gates pairwise independent -/
def LayerP (L : Layer) : Prop := ∃ gs, L = .gates gs none none ∧ gs.Pairwise (fun g h => g.indep h = true)

theorem seqActInv_append (as bs : List Gate) (N : Nat) (P : Pauli) :
    seqActInv (as ++ bs) N P = seqActInv as N (seqActInv bs N P) := by
  unfold seqActInv; rw [List.foldr_append]

theorem compileLayers_spec (N : Nat) : ∀ (Ls Ls' : List Layer) (F0 B0 F' B' : CMap),
    (∀ L ∈ Ls, LayerP L) → (∀ g ∈ flatGates Ls, g.WF N ∧ g.BmapOK) → ValidMap F0 N → ValidMap B0 N →
    compileLayers N Ls F0 B0 = .ok (Ls', F', B') →
    ValidMap F' N ∧ ValidMap B' N ∧ ∀ P : Pauli, P.g.length = N →
      PEq (transform F' P) (seqAct (flatGates Ls) N (transform F0 P)) ∧
      PEq (transform B' P) (transform B0 (seqActInv (flatGates Ls) N P)) := by
  intro Ls
  induction Ls with
  | nil =>
    intro Ls' F0 B0 F' B' _ _ hF hB h
    simp only [compileLayers] at h
    cases h
    exact ⟨hF, hB, fun P _ => ⟨PEq.refl _, PEq.refl _⟩⟩
  | cons L Ls ih =>
    intro Ls' F0 B0 F' B' hp hw hF hB h
    obtain ⟨gs, rfl, hpw⟩ := hp L (by simp)
    have hwg : ∀ g ∈ gs, g.WF N ∧ g.BmapOK := fun g hg => hw g (by rw [flatGates_cons]; simp [layerGates, hg])
    have hwl : ∀ g ∈ flatGates Ls, g.WF N ∧ g.BmapOK := fun g hg => hw g (by rw [flatGates_cons]; simp [hg])
    unfold compileLayers at h
    cases hcg : compileGates N gs (idMap N) (idMap N) with
    | error e => simp only [Layer.compile, hcg] at h; cases h
    | ok r =>
      obtain ⟨gs', f, b⟩ := r
      simp only [Layer.compile, hcg] at h
      obtain ⟨hVf, hVb, hact⟩ := layer_compile_sound N gs gs' f b hwg hpw hcg
      cases hrec : compileLayers N Ls (compose F0 f) (compose b B0) with
      | error e => rw [hrec] at h; cases h
      | ok r2 =>
        obtain ⟨Ls'', F'', B''⟩ := r2
        rw [hrec] at h
        cases h
        obtain ⟨hV1, hV2, hrest⟩ := ih Ls'' _ _ F' B' (fun X hX => hp X (by simp [hX])) hwl
          (compose_valid F0 f N hF hVf) (compose_valid b B0 N hVb hB) hrec
        refine ⟨hV1, hV2, fun P hP => ?_⟩
        obtain ⟨h1, h2⟩ := hrest P hP
        have hlF0 : (transform F0 P).g.length = N :=
          length_transform F0 N hF.1 (fun R hR => (hF.2.1 R hR).1) P
        rw [flatGates_cons]
        show PEq _ (seqAct (gs ++ flatGates Ls) N _) ∧ PEq _ (transform B0 (seqActInv (gs ++ flatGates Ls) N P))
        rw [seqAct_append, seqActInv_append]
        constructor
        · refine h1.trans (seqAct_congr _ N ?_)
          exact (compose_acts F0 f N hF hVf P hP).trans (hact _ hlF0).1
        · refine h2.trans ?_
          have hl : (seqActInv (flatGates Ls) N P).g.length = N := by rw [length_seqActInv]; exact hP
          exact (compose_acts b B0 N hVb hB _ hl).trans (transform_congr B0 (hact _ hl).2)

/-! ## the layers built by `take` -/

theorem layerP_plain (L : Layer) (h : LayerP L) : PlainL L := by
  obtain ⟨gs, rfl, _⟩ := h; exact ⟨gs, none, rfl⟩

theorem layerP_append (L : Layer) (g : Gate) (h : LayerP L) (hi : L.indep g = true) : LayerP (L.append g) := by
  obtain ⟨gs, rfl, hp⟩ := h
  refine ⟨gs ++ [g], rfl, ?_⟩
  rw [List.pairwise_append]
  refine ⟨hp, List.pairwise_singleton _ _, ?_⟩
  intro a ha b hb
  simp only [List.mem_singleton] at hb
  subst hb
  simp only [Layer.indep, List.all_eq_true] at hi
  exact hi a ha

theorem takeRev_layerP (g : Gate) : ∀ (rest : List Layer) (L : Layer), L.indep g = true →
    (∀ X ∈ L :: rest, LayerP X) → ∀ X ∈ takeRev (L :: rest) g, LayerP X := by
  intro rest
  induction rest with
  | nil =>
    intro L hi hp X hX
    simp only [takeRev, List.mem_singleton] at hX
    subst hX
    exact layerP_append L g (hp L (by simp)) hi
  | cons P rest ih =>
    intro L hi hp
    have stop : ∀ X ∈ L.append g :: P :: rest, LayerP X := by
      intro X hX
      rcases List.mem_cons.1 hX with rfl | hX
      · exact layerP_append L g (hp L (by simp)) hi
      · exact hp X (List.mem_cons_of_mem _ hX)
    unfold takeRev
    by_cases hm : P.isMeas = true
    · rw [if_pos hm]; exact stop
    · rw [if_neg hm]
      by_cases hPi : P.indep g = true
      · rw [if_pos hPi]
        intro X hX
        rcases List.mem_cons.1 hX with rfl | hX
        · exact hp _ (by simp)
        · exact ih P hPi (fun Y hY => hp Y (List.mem_cons_of_mem _ hY)) X hX
      · rw [if_neg hPi]; exact stop

/-- second invariant of a circuit under construction: no compiled backward map, layers as `take` builds them,
    every gate satisfies `Q` -/
def Inv2 (Q : Gate → Prop) (c : Circ) : Prop :=
  c.bmap = none ∧ (∀ L ∈ c.layers, LayerP L) ∧ ∀ h ∈ flatGates c.layers, Q h

theorem inv2_init (Q : Gate → Prop) (N : Nat) : Inv2 Q { N := N } := by
  refine ⟨rfl, ?_, ?_⟩
  · intro L hL
    simp only [List.mem_singleton] at hL
    exact ⟨[], hL, List.Pairwise.nil⟩
  · intro h hh; simp [flatGates, layerGates] at hh

theorem take_inv2 (Q : Gate → Prop) (c c' : Circ) (g : Gate) (hI : Inv2 Q c) (hg : Q g)
    (ht : c.take g = .ok c') : Inv2 Q c' := by
  obtain ⟨hbm, hp, hq⟩ := hI
  unfold Circ.take at ht
  split at ht
  · cases ht
  · split at ht
    · cases ht
    · cases hrev : c.layers.reverse with
      | nil => rw [hrev] at ht; cases ht
      | cons L rest =>
        have hlay : c.layers = (L :: rest).reverse := by rw [← hrev, List.reverse_reverse]
        rw [hrev] at ht
        dsimp only at ht
        split at ht
        · rename_i hc
          rw [Bool.and_eq_true] at hc
          cases ht
          have hpR : ∀ X ∈ L :: rest, LayerP X := by
            intro X hX; apply hp; rw [hlay]; exact List.mem_reverse.2 hX
          have hpl := takeRev_layerP g rest L hc.2 hpR
          obtain ⟨_, A, B, e1, e2, _⟩ := takeRev_spec g rest L hc.2 (fun X hX => layerP_plain X (hpR X hX))
          rw [← hlay] at e1
          refine ⟨hbm, fun X hX => hpl X (List.mem_reverse.1 hX), ?_⟩
          intro h hh
          show Q h
          change h ∈ flatGates (takeRev (L :: rest) g).reverse at hh
          rw [e2] at hh
          rcases List.mem_append.1 hh with hh | hh
          · exact hq h (by rw [e1]; exact List.mem_append_left _ hh)
          · rcases List.mem_cons.1 hh with rfl | hh
            · exact hg
            · exact hq h (by rw [e1]; exact List.mem_append_right _ hh)
        · cases ht
          refine ⟨hbm, ?_, ?_⟩
          · intro X hX
            rcases List.mem_append.1 hX with hX | hX
            · exact hp X hX
            · simp only [List.mem_singleton] at hX
              exact ⟨[g], hX, List.pairwise_singleton _ _⟩
          · intro h hh
            change h ∈ flatGates (c.layers ++ [Layer.gates [g] none none]) at hh
            rw [flatGates_append] at hh
            rcases List.mem_append.1 hh with hh | hh
            · exact hq h hh
            · simp [flatGates, layerGates] at hh
              subst hh; exact hg

theorem fold_inv2 (Q : Gate → Prop) (gsl : List Gate) : ∀ (c0 c : Circ), Inv2 Q c0 →
    (∀ g ∈ gsl, Q g) → gsl.foldlM (fun c g => c.take g) c0 = .ok c → Inv2 Q c := by
  induction gsl with
  | nil =>
    intro c0 c hI _ h
    have : c0 = c := by simpa [List.foldlM, pure, Except.pure] using h
    subst this
    exact hI
  | cons g gs ih =>
    intro c0 c hI hw h
    rw [List.foldlM_cons] at h
    cases ht : c0.take g with
    | error e => rw [ht] at h; cases h
    | ok c1 =>
      rw [ht] at h
      exact ih c1 c (take_inv2 Q c0 c1 g hI (hw g (by simp)) ht) (fun x hx => hw x (by simp [hx])) h

/-- everything known about a circuit built from a program -/
theorem build_inv (N : Nat) (prog : List Gate) (c : Circ) (Q : Gate → Prop) (hw : ∀ g ∈ prog, g.WF N)
    (hq : ∀ g ∈ prog, Q g) (hb : buildCirc N prog = .ok c) : Inv N c prog ∧ Inv2 Q c := by
  constructor
  · have := fold_inv N prog { N := N } c [] (inv_init N) hw hb
    simpa using this
  · exact fold_inv2 Q prog { N := N } c (inv2_init Q N) hq hb

/-- two programs with the same forward action have the same inverse action -/
theorem seqActInv_unique (as bs : List Gate) (N : Nat) (ha : ∀ g ∈ as, g.WF N) (hb : ∀ g ∈ bs, g.WF N)
    (h : ∀ P : Pauli, P.g.length = N → PEq (seqAct as N P) (seqAct bs N P)) (P : Pauli) (hP : P.g.length = N) :
    PEq (seqActInv as N P) (seqActInv bs N P) := by
  have hl : (seqActInv bs N P).g.length = N := by rw [length_seqActInv]; exact hP
  have h1 := (program_inverse bs N P hb hP).2
  have h2 := h (seqActInv bs N P) hl
  have h3 := (program_inverse as N (seqActInv bs N P) ha hl).1
  exact (seqActInv_congr as N (h2.trans h1)).symm.trans h3

/-! ## the uncompiled `forward` / `backward` of a circuit built by `take` -/

theorem gate_backward_eq' (g : Gate) (N : Nat) (rows : List Pauli) (rnd : List CMap) (hg : g.WF N)
    (hb : g.BmapOK) (hr : ∀ R ∈ rows, R.g.length = N) :
    ∃ g', g.backward N rows rnd = .ok (g', rows.map (gateActInv g N), rnd) := by
  cases hbm : g.bmap with
  | none => exact gate_backward_eq g N rows rnd hg hbm hr
  | some B =>
    have hg' := hg
    obtain ⟨h0, hq, hn, hk⟩ := hg
    have hmask := qMask_eq g.qubits N h0 hq
    rcases hk with ⟨G, hgen, hGl, hGp⟩ | ⟨hgen, M, hM, hV⟩
    · refine ⟨g, ?_⟩
      simp only [Gate.backward, hgen]
      by_cases hN : g.n = N
      · rw [if_pos hN]
        have : rows.map (rotate (neg G)) = rows.map (gateActInv g N) := by
          apply List.map_congr_left
          intro R hR
          rw [gateActInv_full_gen g G N R hg' hgen hN (hr R hR)]
        rw [this]
      · rw [if_neg hN, hmask]
        have : rows.map (rotateMasked (neg G) (maskOf g.qubits N)) = rows.map (gateActInv g N) := by
          apply List.map_congr_left
          intro R _
          simp only [gateActInv, hgen]
        simp only [this]
    · obtain ⟨M', hM', hB⟩ := hb hgen B hbm
      rw [hM] at hM'
      cases hM'
      refine ⟨g, ?_⟩
      simp only [Gate.backward, hgen, hbm, hmask]
      have : rows.map (transformMasked B (maskOf g.qubits N)) = rows.map (gateActInv g N) := by
        apply List.map_congr_left
        intro R _
        simp only [gateActInv, hgen, hM, hB]
      rw [this]

theorem gatesBackward_eq (N : Nat) (gs : List Gate) (rows : List Pauli) (rnd : List CMap)
    (hw : ∀ g ∈ gs, g.WF N ∧ g.BmapOK) (hr : ∀ R ∈ rows, R.g.length = N) :
    ∃ gs', gatesBackward N gs rows rnd = .ok (gs', rows.map (fwdInv gs N), rnd) := by
  induction gs generalizing rows with
  | nil =>
    have : fwdInv [] N = id := rfl
    rw [this, List.map_id]; exact ⟨[], rfl⟩
  | cons g gs ih =>
    have hr' : ∀ R ∈ rows.map (gateActInv g N), R.g.length = N := by
      intro R hR
      obtain ⟨R0, hR0, rfl⟩ := List.mem_map.1 hR
      rw [length_gateActInv]; exact hr R0 hR0
    obtain ⟨g', hg'⟩ := gate_backward_eq' g N rows rnd (hw g (by simp)).1 (hw g (by simp)).2 hr
    obtain ⟨gs', hgs'⟩ := ih (rows.map (gateActInv g N)) (fun x hx => hw x (by simp [hx])) hr'
    refine ⟨g' :: gs', ?_⟩
    unfold gatesBackward
    rw [hg']
    dsimp only
    rw [hgs']
    dsimp only
    rw [List.map_map]
    rfl

/-- the action of `backward` over the layers in reverse order: inside a layer the inverse gates in list order -/
def backAct : List Layer → Nat → Pauli → Pauli
  | [], _, P => P
  | L :: Ls, N, P => backAct Ls N (fwdInv (layerGates L) N P)

theorem layersBackward_eq (N : Nat) (Lr : List Layer) (rows : List Pauli) (r : Nat) (s : Bool) (coins : List Bool)
    (rnd : List CMap) (rec : List Int) (hp : ∀ L ∈ Lr, LayerP L) (hw : ∀ g ∈ flatGates Lr, g.WF N ∧ g.BmapOK)
    (hr : ∀ R ∈ rows, R.g.length = N) :
    ∃ Ls', layersBackward N Lr ⟨⟨rows, r, s⟩, coins, rnd⟩ rec =
      .ok (Ls', ⟨⟨rows.map (backAct Lr N), r, s⟩, coins, rnd⟩) := by
  induction Lr generalizing rows with
  | nil =>
    have : backAct [] N = id := rfl
    rw [this, List.map_id]; exact ⟨[], rfl⟩
  | cons L Ls ih =>
    obtain ⟨gs, rfl, _⟩ := hp L (by simp)
    have hwg : ∀ g ∈ gs, g.WF N ∧ g.BmapOK := fun g hg => hw g (by rw [flatGates_cons]; simp [layerGates, hg])
    have hwl : ∀ g ∈ flatGates Ls, g.WF N ∧ g.BmapOK := fun g hg => hw g (by rw [flatGates_cons]; simp [hg])
    have hr' : ∀ R ∈ rows.map (fwdInv gs N), R.g.length = N := by
      intro R hR
      obtain ⟨R0, hR0, rfl⟩ := List.mem_map.1 hR
      rw [length_fwdInv]; exact hr R0 hR0
    obtain ⟨gs', hgs'⟩ := gatesBackward_eq N gs rows rnd hwg hr
    have hL : Layer.backward N (.gates gs none none) ⟨⟨rows, r, s⟩, coins, rnd⟩ none =
        .ok (.gates gs' none none, ⟨⟨rows.map (fwdInv gs N), r, s⟩, coins, rnd⟩) := by
      simp only [Layer.backward, hgs']
    obtain ⟨Ls', hLs'⟩ := ih (rows.map (fwdInv gs N)) (fun X hX => hp X (by simp [hX])) hwl hr'
    refine ⟨.gates gs' none none :: Ls', ?_⟩
    unfold layersBackward
    dsimp only
    rw [hL]
    dsimp only
    rw [hLs']
    dsimp only
    rw [List.map_map]
    rfl

theorem backAct_eq (N : Nat) (Lr : List Layer) (hp : ∀ L ∈ Lr, LayerP L) (P : Pauli) :
    PEq (backAct Lr N P) (seqActInv (flatGates Lr.reverse) N P) := by
  induction Lr generalizing P with
  | nil => exact PEq.refl _
  | cons L Ls ih =>
    obtain ⟨gs, rfl, hpw⟩ := hp L (by simp)
    rw [flatGates_reverse_cons, seqActInv_append]
    show PEq (backAct Ls N (fwdInv gs N P)) (seqActInv (flatGates Ls.reverse) N (seqActInv gs N P))
    exact (ih (fun X hX => hp X (by simp [hX])) _).trans
      (seqActInv_congr _ N (fwdInv_eq_seqActInv gs N P hpw))

theorem forward_exact (N : Nat) (c : Circ) (pre : List Gate) (rows : List Pauli) (r : Nat) (s : Bool)
    (coins : List Bool) (rnd : List CMap) (hI : Inv N c pre) (hr : ∀ R ∈ rows, R.g.length = N) :
    c.forward ⟨⟨rows, r, s⟩, coins, rnd⟩ =
      .ok (c, ⟨⟨rows.map (seqAct (flatGates c.layers) N), r, s⟩, coins, rnd⟩) := by
  obtain ⟨hN, hu, hf, hp, hw, _⟩ := hI
  subst hN
  have e := layersForward_eq c.N c.layers rows r s coins rnd hp hw hr
  unfold Circ.forward
  rw [if_pos hu]
  split
  · rename_i M hM; rw [hf] at hM; cases hM
  · rw [e]

theorem backward_exact (N : Nat) (c : Circ) (pre : List Gate) (rows : List Pauli) (r : Nat) (s : Bool)
    (coins : List Bool) (rnd : List CMap) (hI : Inv N c pre) (hI2 : Inv2 Gate.BmapOK c)
    (hr : ∀ R ∈ rows, R.g.length = N) :
    ∃ c', c.backward ⟨⟨rows, r, s⟩, coins, rnd⟩ none =
      .ok (c', ⟨⟨rows.map (backAct c.layers.reverse N), r, s⟩, coins, rnd⟩) := by
  obtain ⟨hN, hu, _, _, hw, _⟩ := hI
  obtain ⟨hbm, hp, hq⟩ := hI2
  subst hN
  have hp' : ∀ L ∈ c.layers.reverse, LayerP L := fun L hL => hp L (List.mem_reverse.1 hL)
  have hw' : ∀ g ∈ flatGates c.layers.reverse, g.WF c.N ∧ g.BmapOK := by
    intro g hg
    have : g ∈ flatGates c.layers := by
      simp only [flatGates, List.mem_flatMap, List.mem_reverse] at hg ⊢
      exact hg
    exact ⟨hw g this, hq g this⟩
  obtain ⟨Ls', e⟩ := layersBackward_eq c.N c.layers.reverse rows r s coins rnd [] hp' hw' hr
  refine ⟨{ c with layers := Ls'.reverse }, ?_⟩
  unfold Circ.backward
  rw [if_pos hu]
  split
  · rename_i M hM; rw [hbm] at hM; cases hM
  · rw [e]

/-! ## forward maps only: no hypothesis on recorded backward maps -/

theorem gate_compile_fwd (g g' : Gate) (N : Nat) (hg : g.WF N) (hc : g.compile = .ok g') :
    ∃ f b, g'.fmap = some f ∧ g'.bmap = some b ∧ ValidMap f (maskCount (maskOf g.qubits N)) ∧
      ∀ P : Pauli, P.g.length = N → PEq (transformMasked f (maskOf g.qubits N) P) (gateAct g N P) := by
  obtain ⟨_, hq, hn, hk⟩ := hg
  have hk' : maskCount (maskOf g.qubits N) = g.n := maskCount_maskOf g.qubits N hn hq
  rw [hk']
  rcases hk with ⟨G, hgen, hGl, hGp⟩ | ⟨hgen, M, hM, hV⟩
  · simp only [Gate.compile, hgen] at hc
    cases hc
    refine ⟨rotationMap G, rotationMap (neg G), rfl, rfl, ?_, ?_⟩
    · rw [← hGl]; exact rotationMap_valid G hGp
    · intro P hP
      have hlg : (gather (maskOf g.qubits N) P.g).length = g.n := by
        rw [length_gather _ _ (by rw [length_maskOf, hP]; exact Nat.le_refl _), hk']
      rw [gateAct_eq, gateFun_gen g G hgen, transformMasked_eq_maskedOp]
      exact maskedOp_congr_fun _ _ _ _ (rotationMap_acts_as_rotate G _ hGp (by rw [hGl]; exact hlg.symm))
  · have hact : ∀ P : Pauli, P.g.length = N → PEq (transformMasked M (maskOf g.qubits N) P) (gateAct g N P) := by
      intro P _
      simp only [gateAct, hgen, hM]; exact PEq.refl _
    cases hbm : g.bmap with
    | none =>
      obtain ⟨B, hB, -, -, -⟩ := inverse_spec M g.n hV
      simp only [Gate.compile, hgen, hM, hbm, hB] at hc
      cases hc
      exact ⟨M, B, rfl, rfl, hV, hact⟩
    | some B' =>
      simp only [Gate.compile, hgen, hM, hbm] at hc
      cases hc
      exact ⟨M, B', hM, hbm, hV, hact⟩

theorem compileGates_fwd (N : Nat) : ∀ (gs gs' : List Gate) (F B F' B' : CMap),
    (∀ g ∈ gs, g.WF N) → compileGates N gs F B = .ok (gs', F', B') →
    ∃ lf, F' = embedAll F lf ∧ List.Forall₂ (Rel N (fun g => gateAct g N)) gs lf := by
  intro gs
  induction gs with
  | nil =>
    intro gs' F B F' B' _ h
    simp only [compileGates] at h
    cases h
    exact ⟨[], rfl, List.Forall₂.nil⟩
  | cons g gs ih =>
    intro gs' F B F' B' hw h
    have hg := hw g (by simp)
    have hmask := qMask_eq g.qubits N hg.1 hg.2.1
    unfold compileGates at h
    cases hc : g.compile with
    | error e => rw [hc] at h; cases h
    | ok g' =>
      obtain ⟨f, b, hf, hbm, hVf, hact⟩ := gate_compile_fwd g g' N hg hc
      rw [hc] at h
      simp only [hmask, hf, hbm] at h
      cases hrec : compileGates N gs (embed F f (maskOf g.qubits N)) (embed B b (maskOf g.qubits N)) with
      | error e => rw [hrec] at h; cases h
      | ok r =>
        obtain ⟨gs'', F'', B''⟩ := r
        rw [hrec] at h
        cases h
        obtain ⟨lf, e1, r1⟩ := ih gs'' _ _ F' B' (fun x hx => hw x (by simp [hx])) hrec
        exact ⟨(maskOf g.qubits N, f) :: lf, e1, List.Forall₂.cons ⟨rfl, hVf, hact⟩ r1⟩

theorem compileLayers_fwd (N : Nat) : ∀ (Ls Ls' : List Layer) (F0 B0 F' B' : CMap),
    (∀ L ∈ Ls, LayerP L) → (∀ g ∈ flatGates Ls, g.WF N) → ValidMap F0 N →
    compileLayers N Ls F0 B0 = .ok (Ls', F', B') →
    ValidMap F' N ∧ ∀ P : Pauli, P.g.length = N →
      PEq (transform F' P) (seqAct (flatGates Ls) N (transform F0 P)) := by
  intro Ls
  induction Ls with
  | nil =>
    intro Ls' F0 B0 F' B' _ _ hF h
    simp only [compileLayers] at h
    cases h
    exact ⟨hF, fun P _ => PEq.refl _⟩
  | cons L Ls ih =>
    intro Ls' F0 B0 F' B' hp hw hF h
    obtain ⟨gs, rfl, hpw⟩ := hp L (by simp)
    have hwg : ∀ g ∈ gs, g.WF N := fun g hg => hw g (by rw [flatGates_cons]; simp [layerGates, hg])
    have hwl : ∀ g ∈ flatGates Ls, g.WF N := fun g hg => hw g (by rw [flatGates_cons]; simp [hg])
    unfold compileLayers at h
    cases hcg : compileGates N gs (idMap N) (idMap N) with
    | error e => simp only [Layer.compile, hcg] at h; cases h
    | ok r =>
      obtain ⟨gs', f, b⟩ := r
      simp only [Layer.compile, hcg] at h
      obtain ⟨lf, rfl, r1⟩ := compileGates_fwd N gs gs' _ _ f b hwg hcg
      obtain ⟨hVf, hact⟩ := layer_fold N (fun g => gateAct g N) (fun g P => length_gateAct g N P) gs lf r1 hpw
      cases hrec : compileLayers N Ls (compose F0 (embedAll (idMap N) lf)) (compose b B0) with
      | error e => rw [hrec] at h; cases h
      | ok r2 =>
        obtain ⟨Ls'', F'', B''⟩ := r2
        rw [hrec] at h
        cases h
        obtain ⟨hV1, hrest⟩ := ih Ls'' _ _ F' B' (fun X hX => hp X (by simp [hX])) hwl
          (compose_valid F0 _ N hF hVf) hrec
        refine ⟨hV1, fun P hP => ?_⟩
        have hlF0 : (transform F0 P).g.length = N :=
          length_transform F0 N hF.1 (fun R hR => (hF.2.1 R hR).1) P
        rw [flatGates_cons]
        show PEq _ (seqAct (gs ++ flatGates Ls) N _)
        rw [seqAct_append]
        refine (hrest P hP).trans (seqAct_congr _ N ?_)
        exact (compose_acts F0 _ N hF hVf P hP).trans (hact _ hlF0)

end Cm
end PC
