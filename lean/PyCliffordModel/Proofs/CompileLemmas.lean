import PyCliffordModel.Proofs.CircuitLemmas
/-! # Proofs/CompileLemmas — helper lemmas for the compile-soundness theorems of C09/C10 -/
namespace PC

end PC
