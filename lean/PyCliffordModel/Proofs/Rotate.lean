import PyCliffordModel.Proofs.Algebra
import PyCliffordModel.Spec.Maps
/-! # Proofs/Rotate — helper lemmas for C02 (rotation), masks (`gather`/`scatter`) -/
namespace PC

end PC
