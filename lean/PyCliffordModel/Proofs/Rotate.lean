import PyCliffordModel.Proofs.Algebra
import PyCliffordModel.Spec.Maps
/-! # Proofs/Rotate — helper lemmas for C02 (rotation), masks (`gather`/`scatter`) -/
namespace PC

/-! ## identity strings longer than the other argument -/

theorem acqSum_idStr_left (a : PStr) (n : Nat) : acqSum (idStr n) a = 0 := by
  rw [acqSum_antisymm, acqSum_idStr_right]; rfl

theorem xorS_idStr_right_le (a : PStr) (n : Nat) (h : a.length ≤ n) : xorS a (idStr n) = a := by
  induction a generalizing n with
  | nil => rfl
  | cons x xs ih =>
    cases n with
    | zero => simp at h
    | succ n => rw [idStr_succ, xorS_cons, xorQ_id_right, ih n (by simpa using h)]

theorem xorS_idStr_left_le (a : PStr) (n : Nat) (h : a.length ≤ n) : xorS (idStr n) a = a := by
  rw [xorS_comm, xorS_idStr_right_le a n h]

/-! ## `rotate`: the two branches, lengths, congruence -/

theorem rotate_of_acq_zero (G P : Pauli) (h : acq G.g P.g = 0) : rotate G P = P := by
  simp [rotate, (anti_eq_false_iff _ _).2 h]

theorem rotate_of_acq_one (G P : Pauli) (h : acq G.g P.g = 1) :
    rotate G P = ⟨xorS P.g G.g, (P.p + G.p + 1 + ipow P.g G.g) % 4⟩ := by
  simp [rotate, (anti_iff _ _).2 h]

/-- the string of `rotate G P` only depends on the strings -/
theorem rotate_g (G P : Pauli) : (rotate G P).g = rotateSignless G.g P.g := by
  unfold rotate rotateSignless
  cases anti G.g P.g <;> simp

theorem length_rotate (G P : Pauli) (hl : G.g.length = P.g.length) : (rotate G P).g.length = P.g.length := by
  rcases acq_bit G.g P.g with h | h
  · rw [rotate_of_acq_zero G P h]
  · rw [rotate_of_acq_one G P h]; exact length_xorS_eq _ _ hl.symm

/-- `rotate G` respects equality up to the phase representative -/
theorem rotate_congr_PEq (G : Pauli) {a b : Pauli} (h : PEq a b) : PEq (rotate G a) (rotate G b) := by
  obtain ⟨ag, ap⟩ := a; obtain ⟨bg, bp⟩ := b
  obtain ⟨hg, hp⟩ := h
  simp only at hg hp
  subst hg
  rcases acq_bit G.g ag with h | h
  · rw [rotate_of_acq_zero G ⟨ag, ap⟩ h, rotate_of_acq_zero G ⟨ag, bp⟩ h]; exact ⟨rfl, hp⟩
  · rw [rotate_of_acq_one G ⟨ag, ap⟩ h, rotate_of_acq_one G ⟨ag, bp⟩ h]
    refine ⟨rfl, ?_⟩
    simp only
    omega

/-- `rotate` respects `PEq` in the generator as well -/
theorem rotate_congr_PEq_gen {G G' : Pauli} (h : PEq G G') (P : Pauli) : PEq (rotate G P) (rotate G' P) := by
  obtain ⟨g, p⟩ := G; obtain ⟨g', p'⟩ := G'
  obtain ⟨hg, hp⟩ := h
  simp only at hg hp
  subst hg
  rcases acq_bit g P.g with h | h
  · rw [rotate_of_acq_zero ⟨g, p⟩ P h, rotate_of_acq_zero ⟨g, p'⟩ P h]; exact PEq.refl _
  · rw [rotate_of_acq_one ⟨g, p⟩ P h, rotate_of_acq_one ⟨g, p'⟩ P h]
    refine ⟨rfl, ?_⟩
    simp only
    omega

/-! ## phase identities used by the rotation proofs -/

/-- `σ[P]σ[G]·σ[G]`: the two phases cancel -/
theorem ipow_xorS_cancel (P G : PStr) (hl : P.length = G.length) :
    (ipow P G + ipow (xorS P G) G) % 4 = 0 := by
  have h := ipow_cocycle P G G hl rfl
  rw [xorS_self, ipow_self, ipow_idStr_right] at h
  omega

theorem acq_xorS_self_right (G P : PStr) (hl : G.length = P.length) : acq G (xorS P G) = acq G P := by
  have hb := acq_bit G P
  rw [acq_xorS_right G P G hl.symm, acq_self]; omega

/-- rotating twice with generators on the same string `g` (arbitrary phases): `P` anticommuting with `g`
    comes back with the phase `p + p_G + p_G' + 2` -/
theorem rotate_rotate_same_g (G G' P : Pauli) (hg : G'.g = G.g) (hl : G.g.length = P.g.length)
    (h : acq G.g P.g = 1) :
    PEq (rotate G' (rotate G P)) ⟨P.g, P.p + G.p + G'.p + 2⟩ := by
  rw [rotate_of_acq_one G P h]
  have h2 : acq G'.g (xorS P.g G.g) = 1 := by rw [hg, acq_xorS_self_right G.g P.g hl]; exact h
  rw [rotate_of_acq_one G' _ h2]
  simp only [hg]
  refine ⟨xorS_cancel_right _ _ hl.symm, ?_⟩
  have hc := ipow_xorS_cancel P.g G.g hl.symm
  simp only
  omega

/-! ## rotations by commuting generators commute -/

theorem rotate_rotate_comm (G1 G2 P : Pauli) (h12 : acq G1.g G2.g = 0)
    (hl1 : G1.g.length = P.g.length) (hl2 : G2.g.length = P.g.length) :
    PEq (rotate G1 (rotate G2 P)) (rotate G2 (rotate G1 P)) := by
  have h21 : acq G2.g G1.g = 0 := by rw [acq_symm]; exact h12
  rcases acq_bit G1.g P.g with h1 | h1 <;> rcases acq_bit G2.g P.g with h2 | h2
  · rw [rotate_of_acq_zero G2 P h2, rotate_of_acq_zero G1 P h1, rotate_of_acq_zero G2 P h2]
    exact PEq.refl _
  · have h1' : acq G1.g (xorS P.g G2.g) = 0 := by
      rw [acq_xorS_right _ _ _ hl2.symm, h1, h12]; rfl
    rw [rotate_of_acq_zero G1 P h1, rotate_of_acq_one G2 P h2, rotate_of_acq_zero G1 _ h1']
    exact PEq.refl _
  · have h2' : acq G2.g (xorS P.g G1.g) = 0 := by
      rw [acq_xorS_right _ _ _ hl1.symm, h2, h21]; rfl
    rw [rotate_of_acq_zero G2 P h2, rotate_of_acq_one G1 P h1, rotate_of_acq_zero G2 _ h2']
    exact PEq.refl _
  · have h1' : acq G1.g (xorS P.g G2.g) = 1 := by
      rw [acq_xorS_right _ _ _ hl2.symm, h1, h12]; rfl
    have h2' : acq G2.g (xorS P.g G1.g) = 1 := by
      rw [acq_xorS_right _ _ _ hl1.symm, h2, h21]; rfl
    rw [rotate_of_acq_one G2 P h2, rotate_of_acq_one G1 P h1, rotate_of_acq_one G1 _ h1',
      rotate_of_acq_one G2 _ h2']
    refine ⟨?_, ?_⟩
    · simp only [xorS_assoc, xorS_comm G1.g G2.g]
    · have c1 := ipow_cocycle P.g G2.g G1.g hl2.symm (hl2.trans hl1.symm)
      have c2 := ipow_cocycle P.g G1.g G2.g hl1.symm (hl1.trans hl2.symm)
      have hs := ipow_swap G1.g G2.g
      rw [xorS_comm G2.g G1.g] at c1
      simp only
      omega

/-! ## masks: `gather`, `scatter`, `maskCount` -/

theorem gather_nil_left (g : PStr) : gather [] g = [] := by simp [gather]
theorem gather_nil_right (m : List Bool) : gather m [] = [] := by cases m <;> simp [gather]
theorem gather_cons_true (ms : List Bool) (q : Q) (qs : PStr) :
    gather (true :: ms) (q :: qs) = q :: gather ms qs := by simp [gather]
theorem gather_cons_false (ms : List Bool) (q : Q) (qs : PStr) :
    gather (false :: ms) (q :: qs) = gather ms qs := by simp [gather]

theorem scatter_nil_left (g s : PStr) : scatter [] g s = g := by simp [scatter]
theorem scatter_nil_mid (m : List Bool) (s : PStr) : scatter m [] s = [] := by cases m <;> simp [scatter]
theorem scatter_cons_false (ms : List Bool) (q : Q) (qs s : PStr) :
    scatter (false :: ms) (q :: qs) s = q :: scatter ms qs s := by simp [scatter]
theorem scatter_cons_true_cons (ms : List Bool) (q : Q) (qs : PStr) (s : Q) (ss : PStr) :
    scatter (true :: ms) (q :: qs) (s :: ss) = s :: scatter ms qs ss := by simp [scatter]
theorem scatter_cons_true_nil (ms : List Bool) (q : Q) (qs : PStr) :
    scatter (true :: ms) (q :: qs) [] = q :: scatter ms qs [] := by simp [scatter]

theorem maskCount_nil : maskCount [] = 0 := rfl
theorem maskCount_cons_true (ms : List Bool) : maskCount (true :: ms) = maskCount ms + 1 := by
  simp [maskCount]
theorem maskCount_cons_false (ms : List Bool) : maskCount (false :: ms) = maskCount ms := by
  simp [maskCount]
theorem maskCount_le_length (m : List Bool) : maskCount m ≤ m.length := by
  unfold maskCount; exact List.length_filter_le _ _

/-- `scatter` never changes the number of qubits -/
theorem length_scatter (m : List Bool) (g s : PStr) : (scatter m g s).length = g.length := by
  induction m generalizing g s with
  | nil => rw [scatter_nil_left]
  | cons b ms ih =>
    cases g with
    | nil => rw [scatter_nil_mid]
    | cons q qs =>
      cases b with
      | false => simp [scatter_cons_false, ih]
      | true =>
        cases s with
        | nil => simp [scatter_cons_true_nil, ih]
        | cons s0 ss => simp [scatter_cons_true_cons, ih]

/-- the gathered substring has one qubit per `true` of the mask (mask not longer than the string) -/
theorem length_gather (m : List Bool) (g : PStr) (h : m.length ≤ g.length) :
    (gather m g).length = maskCount m := by
  induction m generalizing g with
  | nil => rw [gather_nil_left]; rfl
  | cons b ms ih =>
    cases g with
    | nil => simp at h
    | cons q qs =>
      have h' : ms.length ≤ qs.length := by simpa using h
      cases b with
      | false => rw [gather_cons_false, maskCount_cons_false, ih qs h']
      | true => rw [gather_cons_true, maskCount_cons_true, List.length_cons, ih qs h']

theorem length_gather_le (m : List Bool) (g : PStr) : (gather m g).length ≤ maskCount m := by
  induction m generalizing g with
  | nil => rw [gather_nil_left]; exact Nat.le_refl _
  | cons b ms ih =>
    cases g with
    | nil => rw [gather_nil_right]; exact Nat.zero_le _
    | cons q qs =>
      have := ih qs
      cases b with
      | false => rw [gather_cons_false, maskCount_cons_false]; exact this
      | true => rw [gather_cons_true, maskCount_cons_true, List.length_cons]; omega

/-- writing back what was read changes nothing -/
theorem scatter_gather (m : List Bool) (g : PStr) : scatter m g (gather m g) = g := by
  induction m generalizing g with
  | nil => rw [scatter_nil_left]
  | cons b ms ih =>
    cases g with
    | nil => rw [scatter_nil_mid]
    | cons q qs =>
      cases b with
      | false => rw [gather_cons_false, scatter_cons_false, ih]
      | true => rw [gather_cons_true, scatter_cons_true_cons, ih]

/-- reading back what was written returns it (when the sizes fit) -/
theorem gather_scatter (m : List Bool) (g s : PStr) (hm : m.length ≤ g.length) (hs : s.length = maskCount m) :
    gather m (scatter m g s) = s := by
  induction m generalizing g s with
  | nil =>
    rw [gather_nil_left]
    cases s with
    | nil => rfl
    | cons s0 ss => simp [maskCount] at hs
  | cons b ms ih =>
    cases g with
    | nil => simp at hm
    | cons q qs =>
      have hm' : ms.length ≤ qs.length := by simpa using hm
      cases b with
      | false =>
        rw [maskCount_cons_false] at hs
        rw [scatter_cons_false, gather_cons_false, ih qs s hm' hs]
      | true =>
        rw [maskCount_cons_true] at hs
        cases s with
        | nil => simp at hs
        | cons s0 ss =>
          have hs' : ss.length = maskCount ms := by simpa using hs
          rw [scatter_cons_true_cons, gather_cons_true, ih qs ss hm' hs']

/-- `scatter` leaves every unmasked position alone -/
theorem getD_scatter_unmasked (m : List Bool) (g s : PStr) (i : Nat) (d : Q)
    (hi : m.getD i false = false) : (scatter m g s).getD i d = g.getD i d := by
  induction m generalizing g s i with
  | nil => rw [scatter_nil_left]
  | cons b ms ih =>
    cases g with
    | nil => rw [scatter_nil_mid]
    | cons q qs =>
      cases i with
      | zero =>
        have hb : b = false := by simpa using hi
        subst hb
        rw [scatter_cons_false]; rfl
      | succ j =>
        have hj : ms.getD j false = false := by simpa using hi
        cases b with
        | false => rw [scatter_cons_false]; simpa using ih qs s j hj
        | true =>
          cases s with
          | nil => rw [scatter_cons_true_nil]; simpa using ih qs [] j hj
          | cons s0 ss => rw [scatter_cons_true_cons]; simpa using ih qs ss j hj

/-- gathering through a mask from a string that was scattered through a mask with no common wire
    sees the background -/
theorem gather_idStr (m : List Bool) (n : Nat) (h : m.length ≤ n) : gather m (idStr n) = idStr (maskCount m) := by
  induction m generalizing n with
  | nil => rw [gather_nil_left]; rfl
  | cons b ms ih =>
    cases n with
    | zero => simp at h
    | succ n =>
      have h' : ms.length ≤ n := by simpa using h
      cases b with
      | false => rw [idStr_succ, gather_cons_false, maskCount_cons_false, ih n h']
      | true => rw [idStr_succ, gather_cons_true, maskCount_cons_true, idStr_succ, ih n h']

/-! ## the kernels through `scatter` with an identity background

`scatter m (idStr n) s` is `s` embedded among identity wires. For every string `g` on at most `n`
qubits the kernels only see the masked qubits of `g`. No condition on the length of `s`: missing entries
are identity in `scatter` and truncated in the kernels, extra entries are dropped by both. -/

theorem acqSum_scatter_idStr_left (m : List Bool) (n : Nat) (s g : PStr) (h : g.length ≤ n) :
    acqSum (scatter m (idStr n) s) g = acqSum s (gather m g) := by
  induction m generalizing n s g with
  | nil => rw [scatter_nil_left, gather_nil_left, acqSum_nil_right, acqSum_idStr_left]
  | cons b ms ih =>
    cases g with
    | nil => rw [gather_nil_right, acqSum_nil_right, acqSum_nil_right]
    | cons y ys =>
      cases n with
      | zero => simp at h
      | succ n =>
        have h' : ys.length ≤ n := by simpa using h
        rw [idStr_succ]
        cases b with
        | false =>
          rw [scatter_cons_false, gather_cons_false, acqSum_cons, acqQ_id_left, ih n s ys h']; omega
        | true =>
          cases s with
          | nil =>
            rw [scatter_cons_true_nil, acqSum_cons, acqQ_id_left, ih n [] ys h', acqSum_nil_left,
              acqSum_nil_left]; rfl
          | cons s0 ss =>
            rw [scatter_cons_true_cons, gather_cons_true, acqSum_cons, acqSum_cons, ih n ss ys h']

theorem acqSum_scatter_idStr_right (m : List Bool) (n : Nat) (s g : PStr) (h : g.length ≤ n) :
    acqSum g (scatter m (idStr n) s) = acqSum (gather m g) s := by
  rw [acqSum_antisymm, acqSum_scatter_idStr_left m n s g h, ← acqSum_antisymm]

theorem acq_scatter_idStr_left (m : List Bool) (n : Nat) (s g : PStr) (h : g.length ≤ n) :
    acq (scatter m (idStr n) s) g = acq s (gather m g) := by
  unfold acq; rw [acqSum_scatter_idStr_left m n s g h]

theorem acq_scatter_idStr_right (m : List Bool) (n : Nat) (s g : PStr) (h : g.length ≤ n) :
    acq g (scatter m (idStr n) s) = acq (gather m g) s := by
  unfold acq; rw [acqSum_scatter_idStr_right m n s g h]

theorem ipowSum_scatter_idStr_left (m : List Bool) (n : Nat) (s g : PStr) (h : g.length ≤ n) :
    ipowSum (scatter m (idStr n) s) g = ipowSum s (gather m g) := by
  induction m generalizing n s g with
  | nil => rw [scatter_nil_left, gather_nil_left, ipowSum_nil_right, ipowSum_idStr_left]
  | cons b ms ih =>
    cases g with
    | nil => rw [gather_nil_right, ipowSum_nil_right, ipowSum_nil_right]
    | cons y ys =>
      cases n with
      | zero => simp at h
      | succ n =>
        have h' : ys.length ≤ n := by simpa using h
        rw [idStr_succ]
        cases b with
        | false =>
          rw [scatter_cons_false, gather_cons_false, ipowSum_cons, ipowQ_id_left, ih n s ys h']; omega
        | true =>
          cases s with
          | nil =>
            rw [scatter_cons_true_nil, ipowSum_cons, ipowQ_id_left, ih n [] ys h', ipowSum_nil_left,
              ipowSum_nil_left]; rfl
          | cons s0 ss =>
            rw [scatter_cons_true_cons, gather_cons_true, ipowSum_cons, ipowSum_cons, ih n ss ys h']

theorem ipowSum_scatter_idStr_right (m : List Bool) (n : Nat) (s g : PStr) (h : g.length ≤ n) :
    ipowSum g (scatter m (idStr n) s) = ipowSum (gather m g) s := by
  induction m generalizing n s g with
  | nil => rw [scatter_nil_left, gather_nil_left, ipowSum_nil_left, ipowSum_idStr_right]
  | cons b ms ih =>
    cases g with
    | nil => rw [gather_nil_right, ipowSum_nil_left, ipowSum_nil_left]
    | cons y ys =>
      cases n with
      | zero => simp at h
      | succ n =>
        have h' : ys.length ≤ n := by simpa using h
        rw [idStr_succ]
        cases b with
        | false =>
          rw [scatter_cons_false, gather_cons_false, ipowSum_cons, ipowQ_id_right, ih n s ys h']; omega
        | true =>
          cases s with
          | nil =>
            rw [scatter_cons_true_nil, ipowSum_cons, ipowQ_id_right, ih n [] ys h', ipowSum_nil_right,
              ipowSum_nil_right]; rfl
          | cons s0 ss =>
            rw [scatter_cons_true_cons, gather_cons_true, ipowSum_cons, ipowSum_cons, ih n ss ys h']

theorem ipow_scatter_idStr_left (m : List Bool) (n : Nat) (s g : PStr) (h : g.length ≤ n) :
    ipow (scatter m (idStr n) s) g = ipow s (gather m g) := by
  unfold ipow; rw [ipowSum_scatter_idStr_left m n s g h]

theorem ipow_scatter_idStr_right (m : List Bool) (n : Nat) (s g : PStr) (h : g.length ≤ n) :
    ipow g (scatter m (idStr n) s) = ipow (gather m g) s := by
  unfold ipow; rw [ipowSum_scatter_idStr_right m n s g h]

/-- multiplying by an embedded string = multiplying the masked qubits and writing them back -/
theorem xorS_scatter_idStr_right (m : List Bool) (n : Nat) (s g : PStr) (h : g.length ≤ n) :
    xorS g (scatter m (idStr n) s) = scatter m g (xorS (gather m g) s) := by
  induction m generalizing n s g with
  | nil =>
    rw [scatter_nil_left, scatter_nil_left, xorS_idStr_right_le g n h]
  | cons b ms ih =>
    cases g with
    | nil => rw [scatter_nil_mid, xorS_nil_left]
    | cons y ys =>
      cases n with
      | zero => simp at h
      | succ n =>
        have h' : ys.length ≤ n := by simpa using h
        rw [idStr_succ]
        cases b with
        | false =>
          rw [scatter_cons_false, gather_cons_false, xorS_cons, xorQ_id_right, scatter_cons_false,
            ih n s ys h']
        | true =>
          cases s with
          | nil =>
            rw [scatter_cons_true_nil, xorS_cons, xorQ_id_right, xorS_nil_right, scatter_cons_true_nil,
              ih n [] ys h', xorS_nil_right]
          | cons s0 ss =>
            rw [scatter_cons_true_cons, gather_cons_true, xorS_cons, xorS_cons, scatter_cons_true_cons,
              ih n ss ys h']

theorem xorS_scatter_idStr_left (m : List Bool) (n : Nat) (s g : PStr) (h : g.length ≤ n) :
    xorS (scatter m (idStr n) s) g = scatter m g (xorS s (gather m g)) := by
  rw [xorS_comm, xorS_scatter_idStr_right m n s g h, xorS_comm]

/-! ## rotation is an automorphism: products and commutation relations -/

theorem rotate_acq (G P Q : Pauli) (hP : G.g.length = P.g.length) (hQ : G.g.length = Q.g.length) :
    acq (rotate G P).g (rotate G Q).g = acq P.g Q.g := by
  have hPQ := acq_bit P.g Q.g
  have hGP : acq P.g G.g = acq G.g P.g := acq_symm _ _
  rcases acq_bit G.g P.g with h1 | h1 <;> rcases acq_bit G.g Q.g with h2 | h2
  · rw [rotate_of_acq_zero G P h1, rotate_of_acq_zero G Q h2]
  · rw [rotate_of_acq_zero G P h1, rotate_of_acq_one G Q h2]
    simp only
    rw [acq_xorS_right _ _ _ hQ.symm, hGP, h1]; omega
  · rw [rotate_of_acq_one G P h1, rotate_of_acq_zero G Q h2]
    simp only
    rw [acq_xorS_left _ _ _ hP.symm, h2]; omega
  · rw [rotate_of_acq_one G P h1, rotate_of_acq_one G Q h2]
    simp only
    rw [acq_xorS_left _ _ _ hP.symm, acq_xorS_right _ _ _ hQ.symm, acq_xorS_right _ _ _ hQ.symm,
      hGP, h1, h2, acq_self]; omega

/-- rotation by a Hermitian generator is multiplicative -/
theorem rotate_mul (G P Q : Pauli) (hG : G.p % 2 = 0) (hP : G.g.length = P.g.length)
    (hQ : G.g.length = Q.g.length) :
    PEq (rotate G (mul P Q)) (mul (rotate G P) (rotate G Q)) := by
  have hPQl : P.g.length = Q.g.length := hP.symm.trans hQ
  have hacq : acq G.g (mul P Q).g = (acq G.g P.g + acq G.g Q.g) % 2 := by
    rw [mul_g, acq_xorS_right _ _ _ hPQl]
  rcases acq_bit G.g P.g with h1 | h1 <;> rcases acq_bit G.g Q.g with h2 | h2
  · rw [h1, h2] at hacq
    rw [rotate_of_acq_zero G P h1, rotate_of_acq_zero G Q h2, rotate_of_acq_zero G _ hacq]
    exact PEq.refl _
  · -- `P` commutes, `Q` anticommutes: cocycle `(P, Q, G)`
    rw [h1, h2] at hacq
    rw [rotate_of_acq_zero G P h1, rotate_of_acq_one G Q h2, rotate_of_acq_one G _ hacq]
    refine ⟨?_, ?_⟩
    · simp only [mul, xorS_assoc]
    · have c := ipow_cocycle P.g Q.g G.g hPQl hQ.symm
      simp only [mul]
      omega
  · -- `P` anticommutes, `Q` commutes: cocycles `(P, Q, G)`, `(P, G, Q)` and `σ[Q]σ[G] = σ[G]σ[Q]`
    rw [h1, h2] at hacq
    rw [rotate_of_acq_one G P h1, rotate_of_acq_zero G Q h2, rotate_of_acq_one G _ hacq]
    refine ⟨?_, ?_⟩
    · simp only [mul, xorS_assoc, xorS_comm Q.g G.g]
    · have c1 := ipow_cocycle P.g Q.g G.g hPQl hQ.symm
      have c2 := ipow_cocycle P.g G.g Q.g hP.symm hQ
      have hs := ipow_swap G.g Q.g
      rw [xorS_comm Q.g G.g] at c1
      simp only [mul]
      omega
  · -- both anticommute: `(iPG)(iQG) = -PGQG = PQGG = PQ`
    rw [h1, h2] at hacq
    rw [rotate_of_acq_one G P h1, rotate_of_acq_one G Q h2, rotate_of_acq_zero G _ hacq]
    have hQGl : Q.g.length = G.g.length := hQ.symm
    have hx : xorS G.g (xorS Q.g G.g) = Q.g := by
      rw [xorS_comm Q.g G.g, xorS_cancel_left _ _ hQ]
    refine ⟨?_, ?_⟩
    · simp only [mul]
      rw [xorS_assoc, hx]
    · have c1 := ipow_cocycle P.g G.g (xorS Q.g G.g) hP.symm
        (by rw [length_xorS_eq' _ _ hQGl])
      rw [hx] at c1
      have c2 := ipow_xorS_cancel Q.g G.g hQGl
      have hs := ipow_swap G.g (xorS Q.g G.g)
      rw [acq_xorS_self_right G.g Q.g hQ, h2] at hs
      simp only [mul]
      omega

/-! ## masked rotation = rotation by the embedded generator -/

theorem length_embedGen (m : List Bool) (N : Nat) (G : Pauli) : (embedGen m N G).g.length = N := by
  simp only [embedGen]; rw [length_scatter, length_idStr]

/-- no size hypothesis on `G` or `m` is needed: both sides truncate/pad alike -/
theorem rotateMasked_eq_rotate_embedGen (G P : Pauli) (m : List Bool) :
    rotateMasked G m P = rotate (embedGen m P.g.length G) P := by
  have hle : P.g.length ≤ P.g.length := Nat.le_refl _
  have hacq : acq (embedGen m P.g.length G).g P.g = acq G.g (gather m P.g) := by
    simp only [embedGen]; exact acq_scatter_idStr_left m _ G.g P.g hle
  unfold rotateMasked
  rcases acq_bit G.g (gather m P.g) with h | h
  · rw [rotate_of_acq_zero G ⟨gather m P.g, P.p⟩ h, rotate_of_acq_zero _ P (hacq.trans h)]
    simp only [scatter_gather]
  · rw [rotate_of_acq_one G ⟨gather m P.g, P.p⟩ h, rotate_of_acq_one _ P (hacq.trans h)]
    simp only [embedGen]
    rw [xorS_scatter_idStr_right m _ G.g P.g hle, ipow_scatter_idStr_right m _ G.g P.g hle]

theorem rotateMasked_g_unmasked (G P : Pauli) (m : List Bool) (i : Nat) (d : Q)
    (hi : m.getD i false = false) : (rotateMasked G m P).g.getD i d = P.g.getD i d := by
  simp only [rotateMasked]; exact getD_scatter_unmasked m P.g _ i d hi

theorem length_rotateMasked (G P : Pauli) (m : List Bool) : (rotateMasked G m P).g.length = P.g.length := by
  simp only [rotateMasked]; exact length_scatter _ _ _

/-! ## disjoint masks -/

/-- no position is `true` in both masks -/
def maskDisj : List Bool → List Bool → Bool
  | a :: as, b :: bs => !(a && b) && maskDisj as bs
  | _, _ => true

theorem maskDisj_cons (a : Bool) (as : List Bool) (b : Bool) (bs : List Bool) :
    maskDisj (a :: as) (b :: bs) = (!(a && b) && maskDisj as bs) := rfl

theorem maskDisj_comm (m1 m2 : List Bool) : maskDisj m1 m2 = maskDisj m2 m1 := by
  induction m1 generalizing m2 with
  | nil => cases m2 <;> rfl
  | cons a as ih =>
    cases m2 with
    | nil => rfl
    | cons b bs => rw [maskDisj_cons, maskDisj_cons, ih bs, Bool.and_comm a b]

theorem maskDisj_iff_getD (m1 m2 : List Bool) :
    maskDisj m1 m2 = true ↔ ∀ i, ¬ (m1.getD i false = true ∧ m2.getD i false = true) := by
  induction m1 generalizing m2 with
  | nil => simp [maskDisj]
  | cons a as ih =>
    cases m2 with
    | nil => simp [maskDisj]
    | cons b bs =>
      rw [maskDisj_cons, Bool.and_eq_true, ih bs]
      constructor
      · rintro ⟨h0, hr⟩ i
        cases i with
        | zero => cases a <;> cases b <;> simp_all
        | succ j => simpa using hr j
      · intro H
        refine ⟨?_, fun j => by simpa using H (j + 1)⟩
        have := H 0
        cases a <;> cases b <;> simp_all

/-- strings embedded through disjoint masks commute (`acqSum` is exactly `0`) -/
theorem acqSum_scatter_scatter_disj (m1 m2 : List Bool) (n : Nat) (s1 s2 : PStr)
    (hd : maskDisj m1 m2 = true) :
    acqSum (scatter m1 (idStr n) s1) (scatter m2 (idStr n) s2) = 0 := by
  induction m1 generalizing m2 n s1 s2 with
  | nil => rw [scatter_nil_left, acqSum_idStr_left]
  | cons a as ih =>
    cases m2 with
    | nil => rw [scatter_nil_left, acqSum_idStr_right]
    | cons b bs =>
      cases n with
      | zero => rw [idStr_zero, scatter_nil_mid, acqSum_nil_left]
      | succ n =>
        rw [maskDisj_cons, Bool.and_eq_true] at hd
        obtain ⟨hab, hd'⟩ := hd
        rw [idStr_succ]
        cases a with
        | false =>
          rw [scatter_cons_false]
          cases b with
          | false => rw [scatter_cons_false, acqSum_cons, acqQ_id_left, ih bs n s1 s2 hd']; rfl
          | true =>
            cases s2 with
            | nil => rw [scatter_cons_true_nil, acqSum_cons, acqQ_id_left, ih bs n s1 [] hd']; rfl
            | cons t ts => rw [scatter_cons_true_cons, acqSum_cons, acqQ_id_left, ih bs n s1 ts hd']; rfl
        | true =>
          have hb : b = false := by cases b <;> simp_all
          subst hb
          rw [scatter_cons_false]
          cases s1 with
          | nil => rw [scatter_cons_true_nil, acqSum_cons, acqQ_id_left, ih bs n [] s2 hd']; rfl
          | cons t ts => rw [scatter_cons_true_cons, acqSum_cons, acqQ_id_right, ih bs n ts s2 hd']; rfl

theorem acq_embedGen_disj (m1 m2 : List Bool) (N : Nat) (G1 G2 : Pauli) (hd : maskDisj m1 m2 = true) :
    acq (embedGen m1 N G1).g (embedGen m2 N G2).g = 0 := by
  simp only [embedGen, acq]; rw [acqSum_scatter_scatter_disj m1 m2 N _ _ hd]; rfl

/-- **rotations on disjoint sets of qubits commute** (any generators, any phases, any sizes) -/
theorem rotateMasked_rotateMasked_disj (G1 G2 P : Pauli) (m1 m2 : List Bool) (hd : maskDisj m1 m2 = true) :
    PEq (rotateMasked G1 m1 (rotateMasked G2 m2 P)) (rotateMasked G2 m2 (rotateMasked G1 m1 P)) := by
  have e1 : rotateMasked G1 m1 (rotateMasked G2 m2 P)
      = rotate (embedGen m1 P.g.length G1) (rotate (embedGen m2 P.g.length G2) P) := by
    rw [rotateMasked_eq_rotate_embedGen G1 _ m1, length_rotateMasked, rotateMasked_eq_rotate_embedGen G2 P m2]
  have e2 : rotateMasked G2 m2 (rotateMasked G1 m1 P)
      = rotate (embedGen m2 P.g.length G2) (rotate (embedGen m1 P.g.length G1) P) := by
    rw [rotateMasked_eq_rotate_embedGen G2 _ m2, length_rotateMasked, rotateMasked_eq_rotate_embedGen G1 P m1]
  rw [e1, e2]
  exact rotate_rotate_comm _ _ P (acq_embedGen_disj m1 m2 _ G1 G2 hd) (length_embedGen _ _ _)
    (length_embedGen _ _ _)

end PC
