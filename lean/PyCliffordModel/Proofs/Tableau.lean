import PyCliffordModel.Proofs.Rotate
import PyCliffordModel.Proofs.Z2Inv
import PyCliffordModel.Spec.Tableau
/-! # Proofs/Tableau — helper lemmas for C05 (Gram pattern under the measurement pivot update and swaps)

Layout:
* §1 `rowAt`, `gAt` and the slot operations `setG`, `setP`, `swapG` row by row;
* §2 the Gram pattern `J`, `GramF` on row functions, `TabInv` in row-function form;
* §3 function level: the pivot update `pivF` keeps the Gram pattern (`pivF_gram`), slot permutations that
  respect the pairing keep it (`GramF.comp`, `J_swp_partner`, `J_swp_two_pairs`);
* §4 the scan: `scanAux_some`, `scanAux_none_clean`, `scanAux_none_first`, `scan_pre`, `scan_first`,
  `scan_clean`, `scan_cases`, `findAnti_some`, `findAnti_none`;
* §5 `install` row by row (`install_spec`) and the combined Gram statement (`install_gram`);
* §6 `measure1`, `project1`, `postselect` row by row (`measure1_cases`, `project1_cases`, `postselect_cases`,
  `pivotState`, `IsMeasPivot`);
* §7 constructors and rotations (`idMap_valid`, `rowAt_mapToState`, `toState_inv`, `rotate_inv`);
* §8 symplectic nondegeneracy (`exists_dependency`: `m + 1` vectors with `m` coordinates over GF(2) are
  dependent; `gram_nondegenerate`);
* §9 the deterministic branch (`scanAcc_acq`, `scanAcc_g_eq_obs`, `measure1_total`).
-/
namespace PC

/-! ## §1 rows of a list, slot operations -/

/-- the string in slot `j` -/
def gAt (T : List Pauli) (j : Nat) : PStr := (rowAt T j).g

theorem rowAt_eq_getElem (T : List Pauli) (j : Nat) (h : j < T.length) : rowAt T j = T[j] := by
  simp [rowAt, List.getD_eq_getElem?_getD, List.getElem?_eq_getElem h]

theorem rowAt_of_le (T : List Pauli) (j : Nat) (h : T.length ≤ j) : rowAt T j = ⟨[], 0⟩ := by
  simp [rowAt, List.getD_eq_getElem?_getD, List.getElem?_eq_none h]

theorem rowAt_mem (T : List Pauli) (j : Nat) (h : j < T.length) : rowAt T j ∈ T := by
  rw [rowAt_eq_getElem T j h]; exact List.getElem_mem h

theorem exists_rowAt_of_mem (T : List Pauli) (R : Pauli) (h : R ∈ T) : ∃ j, j < T.length ∧ rowAt T j = R := by
  obtain ⟨i, hi, he⟩ := List.mem_iff_getElem.1 h
  exact ⟨i, hi, by rw [rowAt_eq_getElem T i hi, he]⟩

theorem rowAt_cons_zero (R : Pauli) (T : List Pauli) : rowAt (R :: T) 0 = R := rfl
theorem rowAt_cons_succ (R : Pauli) (T : List Pauli) (j : Nat) : rowAt (R :: T) (j + 1) = rowAt T j := by
  simp [rowAt]

/-- two lists of rows of the same length with the same rows are equal -/
theorem ext_rowAt (A B : List Pauli) (hl : A.length = B.length)
    (h : ∀ j, j < A.length → rowAt A j = rowAt B j) : A = B := by
  apply List.ext_getElem hl
  intro i h1 h2
  have := h i h1
  rwa [rowAt_eq_getElem A i h1, rowAt_eq_getElem B i h2] at this

theorem rowAt_map (f : Pauli → Pauli) (T : List Pauli) (j : Nat) (h : j < T.length) :
    rowAt (T.map f) j = f (rowAt T j) := by
  rw [rowAt_eq_getElem _ j (by simpa using h), rowAt_eq_getElem T j h]; simp

theorem rowAt_mapIdx (f : Nat → Pauli → Pauli) (T : List Pauli) (j : Nat) (h : j < T.length) :
    rowAt (T.mapIdx f) j = f j (rowAt T j) := by
  rw [rowAt_eq_getElem _ j (by simpa using h), rowAt_eq_getElem T j h]; simp

theorem length_setG (T : List Pauli) (i : Nat) (g : PStr) : (setG T i g).length = T.length := by
  simp [setG]
theorem length_setP (T : List Pauli) (i : Nat) (p : Int) : (setP T i p).length = T.length := by
  simp [setP]
theorem length_swapG (T : List Pauli) (i j : Nat) : (swapG T i j).length = T.length := by
  simp [swapG, length_setG]

theorem rowAt_set (T : List Pauli) (i k : Nat) (R : Pauli) (hi : i < T.length) :
    rowAt (T.set i R) k = if k = i then R else rowAt T k := by
  simp only [rowAt, List.getD_eq_getElem?_getD, List.getElem?_set]
  by_cases h : i = k
  · subst h; simp [hi]
  · have h' : ¬ k = i := fun e => h e.symm
    simp [h, h']

theorem rowAt_set_of_le (T : List Pauli) (i : Nat) (R : Pauli) (hi : T.length ≤ i) : T.set i R = T := by
  exact List.set_eq_of_length_le hi

/-- `setG` writes the string of slot `i` … -/
theorem rowAt_setG_g (T : List Pauli) (i k : Nat) (g : PStr) (hi : i < T.length) :
    (rowAt (setG T i g) k).g = if k = i then g else (rowAt T k).g := by
  unfold setG; rw [rowAt_set T i k _ hi]; split <;> rfl
/-- … and no phase -/
theorem rowAt_setG_p (T : List Pauli) (i k : Nat) (g : PStr) : (rowAt (setG T i g) k).p = (rowAt T k).p := by
  by_cases hi : i < T.length
  · unfold setG; rw [rowAt_set T i k _ hi]; split
    · next h => subst h; rfl
    · rfl
  · unfold setG; rw [rowAt_set_of_le T i _ (by omega)]

theorem gAt_setG (T : List Pauli) (i k : Nat) (g : PStr) (hi : i < T.length) :
    gAt (setG T i g) k = if k = i then g else gAt T k := rowAt_setG_g T i k g hi

/-- `setP` writes the phase of slot `i` … -/
theorem rowAt_setP_p (T : List Pauli) (i k : Nat) (p : Int) (hi : i < T.length) :
    (rowAt (setP T i p) k).p = if k = i then p else (rowAt T k).p := by
  unfold setP; rw [rowAt_set T i k _ hi]; split <;> rfl
/-- … and no string -/
theorem rowAt_setP_g (T : List Pauli) (i k : Nat) (p : Int) : (rowAt (setP T i p) k).g = (rowAt T k).g := by
  by_cases hi : i < T.length
  · unfold setP; rw [rowAt_set T i k _ hi]; split
    · next h => subst h; rfl
    · rfl
  · unfold setP; rw [rowAt_set_of_le T i _ (by omega)]

theorem gAt_setP (T : List Pauli) (i k : Nat) (p : Int) : gAt (setP T i p) k = gAt T k := rowAt_setP_g T i k p

/-- the transposition of the slots `a`, `b` -/
def swp (a b k : Nat) : Nat := if k = a then b else if k = b then a else k

theorem swp_lt (a b k m : Nat) (ha : a < m) (hb : b < m) (hk : k < m) : swp a b k < m := by
  unfold swp; split
  · exact hb
  · split
    · exact ha
    · exact hk

/-- `swapG` exchanges the strings of two slots … -/
theorem gAt_swapG (T : List Pauli) (i j k : Nat) (hi : i < T.length) (hj : j < T.length) :
    gAt (swapG T i j) k = gAt T (swp i j k) := by
  unfold swapG gAt
  simp only
  rw [rowAt_setG_g _ j k _ (by rw [length_setG]; exact hj), rowAt_setG_g _ i k _ hi]
  unfold swp
  by_cases h1 : k = j
  · subst h1
    by_cases h2 : k = i
    · subst h2; simp
    · simp [h2]
  · by_cases h2 : k = i
    · subst h2; simp [h1]
    · simp [h1, h2]
/-- … and no phases -/
theorem rowAt_swapG_p (T : List Pauli) (i j k : Nat) : (rowAt (swapG T i j) k).p = (rowAt T k).p := by
  unfold swapG; simp only; rw [rowAt_setG_p, rowAt_setG_p]

/-! ## §2 the Gram pattern -/

/-- the Gram pattern of a tableau: slot `i` anticommutes exactly with slot `i ± n` -/
def J (n i j : Nat) : Int := if i + n = j ∨ j + n = i then 1 else 0

theorem J_symm (n i j : Nat) : J n i j = J n j i := by
  unfold J; split <;> split <;> first | rfl | omega

theorem J_self (n i : Nat) (hn : 0 < n) : J n i i = 0 := by
  unfold J; split
  · omega
  · rfl

/-- a row function has `2n` rows on `n` qubits with the Gram pattern `J` -/
def GramF (n : Nat) (f : Nat → PStr) : Prop :=
  (∀ i, i < 2 * n → (f i).length = n) ∧
  ∀ i j, i < 2 * n → j < 2 * n → acq (f i) (f j) = J n i j

theorem GramF.congr {n : Nat} {f g : Nat → PStr} (h : GramF n f) (he : ∀ k, k < 2 * n → g k = f k) :
    GramF n g := by
  refine ⟨fun i hi => by rw [he i hi]; exact h.1 i hi, fun i j hi hj => ?_⟩
  rw [he i hi, he j hj]; exact h.2 i j hi hj

/-- a permutation of the slots that respects the pairing keeps the Gram pattern -/
theorem GramF.comp {n : Nat} {f : Nat → PStr} (h : GramF n f) (σ : Nat → Nat)
    (hσ : ∀ k, k < 2 * n → σ k < 2 * n)
    (hJ : ∀ i j, i < 2 * n → j < 2 * n → J n (σ i) (σ j) = J n i j) : GramF n (fun k => f (σ k)) := by
  refine ⟨fun i hi => h.1 _ (hσ i hi), fun i j hi hj => ?_⟩
  rw [h.2 _ _ (hσ i hi) (hσ j hj), hJ i j hi hj]

/-- `TabInv` in row-function form -/
theorem tabInv_iff (st : State) (n : Nat) :
    TabInv st n ↔ st.rows.length = 2 * n ∧ st.r ≤ n ∧ GramF n (gAt st.rows) ∧
      ∀ i, st.r ≤ i → i < n → (rowAt st.rows i).p % 2 = 0 := by
  constructor
  · rintro ⟨hl, hr, hlen, hg, hh⟩
    refine ⟨hl, hr, ⟨fun i hi => hlen _ (rowAt_mem _ i (by omega)), fun i j hi hj => ?_⟩, hh⟩
    exact hg i j hi hj
  · rintro ⟨hl, hr, ⟨hlen, hg⟩, hh⟩
    refine ⟨hl, hr, fun R hR => ?_, fun i j hi hj => hg i j hi hj, hh⟩
    obtain ⟨j, hj, rfl⟩ := exists_rowAt_of_mem _ R hR
    exact hlen j (by omega)

theorem TabInv.gram {st : State} {n : Nat} (h : TabInv st n) : GramF n (gAt st.rows) :=
  ((tabInv_iff st n).1 h).2.2.1

theorem TabInv.N_eq {st : State} {n : Nat} (h : TabInv st n) : st.N = n := by
  unfold State.N; rw [h.1]; omega

/-! ## §3 function level: pivot update and slot permutations -/

/-- the partner slot `(p + n) % 2n` -/
def partner (n p : Nat) : Nat := (p + n) % (2 * n)

theorem partner_of_lt (n p : Nat) (h : p < n) : partner n p = p + n := by
  unfold partner; exact Nat.mod_eq_of_lt (by omega)

theorem partner_of_ge (n p : Nat) (h1 : n ≤ p) (h2 : p < 2 * n) : partner n p = p - n := by
  unfold partner
  have : p + n = (p - n) + 2 * n := by omega
  rw [this, Nat.add_mod_right]; exact Nat.mod_eq_of_lt (by omega)

/-- linear description of the partner, for `omega` -/
theorem partner_cases (n p : Nat) (hp : p < 2 * n) :
    (p < n ∧ partner n p = p + n) ∨ (n ≤ p ∧ partner n p + n = p) := by
  by_cases h : p < n
  · exact Or.inl ⟨h, partner_of_lt n p h⟩
  · have := partner_of_ge n p (by omega) hp
    exact Or.inr ⟨by omega, by omega⟩

theorem partner_lt (n p : Nat) (hp : p < 2 * n) : partner n p < 2 * n := by
  rcases partner_cases n p hp with h | h <;> omega

theorem J_eq_one_iff (n i j : Nat) (hi : i < 2 * n) (hj : j < 2 * n) : J n i j = 1 ↔ j = partner n i := by
  rcases partner_cases n i hi with h | h <;> unfold J <;> split <;> constructor <;> intro h' <;> omega

theorem J_of_ne_partner (n i j : Nat) (hi : i < 2 * n) (hj : j < 2 * n) (h : j ≠ partner n i) : J n i j = 0 := by
  rcases partner_cases n i hi with h' | h' <;> unfold J <;> split <;> omega

theorem J_partner (n i : Nat) (hi : i < 2 * n) : J n i (partner n i) = 1 :=
  (J_eq_one_iff n i _ hi (partner_lt n i hi)).2 rfl

/-- rows after the pivot update with pivot slot `p` (either half), observable `o`:
    slot `p` holds `o`, the partner slot holds the old pivot string, every other row that anticommutes with
    `o` has the pivot string added -/
def pivF (n p : Nat) (o : PStr) (f : Nat → PStr) : Nat → PStr := fun j =>
  if j = p then o else if j = partner n p then f p
  else if anti (f j) o then xorS (f j) (f p) else f j

theorem pivF_pivot (n p : Nat) (o : PStr) (f : Nat → PStr) : pivF n p o f p = o := by simp [pivF]

theorem pivF_partner (n p : Nat) (o : PStr) (f : Nat → PStr) (hp : p < 2 * n) :
    pivF n p o f (partner n p) = f p := by
  have : partner n p ≠ p := by rcases partner_cases n p hp with h | h <;> omega
  simp [pivF, this]

theorem pivF_other (n p : Nat) (o : PStr) (f : Nat → PStr) (j : Nat) (h1 : j ≠ p) (h2 : j ≠ partner n p) :
    pivF n p o f j = if anti (f j) o then xorS (f j) (f p) else f j := by simp [pivF, h1, h2]

/-- **the pivot update keeps the Gram pattern** (pivot in either half of the tableau) -/
theorem pivF_gram (n p : Nat) (o : PStr) (f : Nat → PStr) (h : GramF n f) (hp : p < 2 * n)
    (ho : o.length = n) (hanti : acq (f p) o = 1) : GramF n (pivF n p o f) := by
  obtain ⟨hlen, hg⟩ := h
  have hn : 0 < n := by omega
  have hq := partner_lt n p hp
  have hqp : partner n p ≠ p := by rcases partner_cases n p hp with h | h <;> omega
  have hpl := hlen p hp
  -- the rows outside the pivot pair
  have key : ∀ i, i < 2 * n → i ≠ p → i ≠ partner n p →
      (pivF n p o f i).length = n ∧ acq (pivF n p o f i) o = 0 ∧ acq (pivF n p o f i) (f p) = 0 ∧
      ∀ j, j < 2 * n → j ≠ p → j ≠ partner n p → acq (pivF n p o f i) (f j) = J n i j := by
    intro i hi hip hiq
    have hil := hlen i hi
    have hipg : acq (f i) (f p) = 0 := by
      rw [hg i p hi hp, J_symm]; exact J_of_ne_partner n p i hp hi hiq
    rw [pivF_other n p o f i hip hiq]
    rcases acq_bit (f i) o with ha | ha
    · rw [(anti_eq_false_iff _ _).2 ha]
      exact ⟨hil, ha, hipg, fun j hj _ _ => hg i j hi hj⟩
    · rw [(anti_iff _ _).2 ha]
      simp only [if_true]
      refine ⟨by rw [length_xorS_eq _ _ (by omega)]; exact hil, ?_, ?_, ?_⟩
      · rw [acq_xorS_left _ _ _ (by omega), ha, hanti]; rfl
      · rw [acq_xorS_left _ _ _ (by omega), hipg, acq_self]; rfl
      · intro j hj hjp hjq
        have hpj : acq (f p) (f j) = 0 := by
          rw [hg p j hp hj]; exact J_of_ne_partner n p j hp hj hjq
        rw [acq_xorS_left _ _ _ (by omega), hpj, hg i j hi hj]
        have := hg i j hi hj
        have hb := acq_bit (f i) (f j)
        omega
  have Jp : ∀ j, j < 2 * n → j ≠ partner n p → J n p j = 0 := fun j hj' hj => J_of_ne_partner n p j hp hj' hj
  have Jq : ∀ j, j < 2 * n → j ≠ p → J n (partner n p) j = 0 := by
    intro j hj hjp
    rw [J_symm]
    rcases acq_bit (f j) (f (partner n p)) with _ | _
    all_goals
      rcases partner_cases n p hp with h | h <;> unfold J <;> split <;> omega
  refine ⟨fun i hi => ?_, fun i j hi hj => ?_⟩
  · by_cases hip : i = p
    · subst hip; rw [pivF_pivot]; exact ho
    · by_cases hiq : i = partner n p
      · subst hiq; rw [pivF_partner n p o f hp]; exact hpl
      · exact (key i hi hip hiq).1
  · by_cases hip : i = p
    · subst hip
      rw [pivF_pivot]
      by_cases hjp : j = i
      · subst hjp; rw [pivF_pivot, acq_self, J_self n j hn]
      · by_cases hjq : j = partner n i
        · subst hjq; rw [pivF_partner n i o f hp, acq_symm, hanti, J_partner n i hp]
        · rw [acq_symm, (key j hj hjp hjq).2.1, Jp j hj hjq]
    · by_cases hiq : i = partner n p
      · subst hiq
        rw [pivF_partner n p o f hp]
        by_cases hjp : j = p
        · subst hjp; rw [pivF_pivot, hanti, J_symm, J_partner n j hp]
        · by_cases hjq : j = partner n p
          · subst hjq; rw [pivF_partner n p o f hp, acq_self, J_self n _ hn]
          · rw [acq_symm, (key j hj hjp hjq).2.2.1, Jq j hj hjp]
      · have ki := key i hi hip hiq
        by_cases hjp : j = p
        · subst hjp; rw [pivF_pivot, ki.2.1, J_symm, Jp i hi hiq]
        · by_cases hjq : j = partner n p
          · subst hjq; rw [pivF_partner n p o f hp, ki.2.2.1, J_symm, Jq i hi hip]
          · rw [pivF_other n p o f j hjp hjq]
            rcases acq_bit (f j) o with ha | ha
            · rw [(anti_eq_false_iff _ _).2 ha]; exact ki.2.2.2 j hj hjp hjq
            · rw [(anti_iff _ _).2 ha]
              simp only [if_true]
              rw [acq_xorS_right _ _ _ (by rw [hlen j hj, hpl]), ki.2.2.2 j hj hjp hjq, ki.2.2.1]
              have := ki.2.2.2 j hj hjp hjq
              have hb := acq_bit (pivF n p o f i) (f j)
              omega

theorem J_bit (n i j : Nat) : J n i j = 0 ∨ J n i j = 1 := by
  unfold J; split
  · exact Or.inr rfl
  · exact Or.inl rfl

theorem partner_partner (n k : Nat) (hk : k < 2 * n) : partner n (partner n k) = k := by
  have h1 := partner_cases n k hk
  have h2 := partner_cases n _ (partner_lt n k hk)
  omega

theorem partner_inj (n i j : Nat) (hi : i < 2 * n) (hj : j < 2 * n) (h : partner n i = partner n j) : i = j := by
  rw [← partner_partner n i hi, ← partner_partner n j hj, h]

theorem swp_left (a b : Nat) : swp a b a = b := by simp [swp]
theorem swp_right (a b : Nat) : swp a b b = a := by
  unfold swp; split
  · next h => exact h
  · simp
theorem swp_other (a b k : Nat) (h1 : k ≠ a) (h2 : k ≠ b) : swp a b k = k := by simp [swp, h1, h2]

theorem swp_symm (a b k : Nat) : swp a b k = swp b a k := by
  by_cases h1 : k = a
  · subst h1; rw [swp_left, swp_right]
  · by_cases h2 : k = b
    · subst h2; rw [swp_left, swp_right]
    · rw [swp_other _ _ _ h1 h2, swp_other _ _ _ h2 h1]

theorem swp_swp (a b k : Nat) : swp a b (swp a b k) = k := by
  by_cases h1 : k = a
  · subst h1; rw [swp_left, swp_right]
  · by_cases h2 : k = b
    · subst h2; rw [swp_right, swp_left]
    · rw [swp_other _ _ _ h1 h2, swp_other _ _ _ h1 h2]

/-- transpositions of disjoint pairs commute -/
theorem swp_comm_disj (a c b d k : Nat) (h1 : a ≠ b) (h2 : a ≠ d) (h3 : c ≠ b) (h4 : c ≠ d) :
    swp a c (swp b d k) = swp b d (swp a c k) := by
  by_cases k1 : k = a
  · subst k1; rw [swp_other b d k h1 h2, swp_left, swp_other b d c h3 h4]
  · by_cases k2 : k = c
    · subst k2; rw [swp_other b d k h3 h4, swp_right, swp_other b d a h1 h2]
    · rw [swp_other a c k k1 k2]
      by_cases k3 : k = b
      · subst k3; rw [swp_left, swp_other a c d (Ne.symm h2) (Ne.symm h4)]
      · by_cases k4 : k = d
        · subst k4; rw [swp_right, swp_other a c b (Ne.symm h1) (Ne.symm h3)]
        · rw [swp_other b d k k3 k4, swp_other a c k k1 k2]

/-- the pairing conjugates a transposition into the transposition of the partners -/
theorem partner_swp (n a c k : Nat) (ha : a < 2 * n) (hc : c < 2 * n) (hk : k < 2 * n) :
    partner n (swp a c k) = swp (partner n a) (partner n c) (partner n k) := by
  by_cases k1 : k = a
  · subst k1; rw [swp_left, swp_left]
  · by_cases k2 : k = c
    · subst k2; rw [swp_right, swp_right]
    · rw [swp_other a c k k1 k2, swp_other]
      · exact fun h => k1 (partner_inj n k a hk ha h)
      · exact fun h => k2 (partner_inj n k c hk hc h)

/-- a slot permutation that commutes with the pairing keeps the pattern `J` -/
theorem J_perm (n : Nat) (σ : Nat → Nat) (hσ : ∀ k, k < 2 * n → σ k < 2 * n)
    (hinj : ∀ i j, i < 2 * n → j < 2 * n → σ i = σ j → i = j)
    (hcomm : ∀ k, k < 2 * n → partner n (σ k) = σ (partner n k))
    (i j : Nat) (hi : i < 2 * n) (hj : j < 2 * n) : J n (σ i) (σ j) = J n i j := by
  have h1 := J_eq_one_iff n (σ i) (σ j) (hσ i hi) (hσ j hj)
  have h2 := J_eq_one_iff n i j hi hj
  have h3 : σ j = partner n (σ i) ↔ j = partner n i := by
    rw [hcomm i hi]
    constructor
    · exact hinj _ _ hj (partner_lt n i hi)
    · intro h; rw [h]
  rcases J_bit n (σ i) (σ j) with a | a <;> rcases J_bit n i j with b | b
  · rw [a, b]
  · exact absurd (h1.2 (h3.2 (h2.1 b))) (by omega)
  · exact absurd (h2.2 (h3.1 (h1.1 a))) (by omega)
  · rw [a, b]

theorem J_swp_partner (n a : Nat) (ha : a < 2 * n) (i j : Nat) (hi : i < 2 * n) (hj : j < 2 * n) :
    J n (swp a (partner n a) i) (swp a (partner n a) j) = J n i j := by
  have hb := partner_lt n a ha
  apply J_perm n (swp a (partner n a)) (fun k hk => swp_lt _ _ _ _ ha hb hk) _ _ i j hi hj
  · intro x y _ _ h
    rw [← swp_swp a (partner n a) x, h, swp_swp]
  · intro k hk
    rw [partner_swp n a _ k ha hb hk, partner_partner n a ha, swp_symm]

theorem J_swp_two_pairs (n a c : Nat) (ha : a < 2 * n) (hc : c < 2 * n) (hcb : c ≠ partner n a)
    (i j : Nat) (hi : i < 2 * n) (hj : j < 2 * n) :
    J n (swp a c (swp (partner n a) (partner n c) i)) (swp a c (swp (partner n a) (partner n c) j)) = J n i j := by
  have hb := partner_lt n a ha
  have hd := partner_lt n c hc
  have h1 : a ≠ partner n a := by rcases partner_cases n a ha with h | h <;> omega
  have h4 : c ≠ partner n c := by rcases partner_cases n c hc with h | h <;> omega
  have h2 : a ≠ partner n c := fun h => hcb (by rw [h, partner_partner n c hc])
  apply J_perm n (fun k => swp a c (swp (partner n a) (partner n c) k))
    (fun k hk => swp_lt _ _ _ _ ha hc (swp_lt _ _ _ _ hb hd hk)) _ _ i j hi hj
  · intro x y _ _ h
    have h' := congrArg (swp a c) h
    simp only [swp_swp] at h'
    rw [← swp_swp (partner n a) (partner n c) x, h', swp_swp]
  · intro k hk
    rw [partner_swp n a c _ ha hc (swp_lt _ _ _ _ hb hd hk), partner_swp n _ _ k hb hd hk,
      partner_partner n a ha, partner_partner n c hc]
    exact (swp_comm_disj a c (partner n a) (partner n c) _ h1 h2 hcb h4).symm

/-! ## §4 the scan -/

theorem anti_nil_left (g : PStr) : anti [] g = false := by
  rw [anti_eq_false_iff]; unfold acq; rw [acqSum_nil_left]; rfl

theorem anti_rowAt_lt (T : List Pauli) (obs : PStr) (j : Nat) (h : anti (rowAt T j).g obs = true) :
    j < T.length := by
  by_cases hj : j < T.length
  · exact hj
  · rw [rowAt_of_le T j (by omega), anti_nil_left] at h; exact absurd h (by simp)

/-- the row the scan writes for a non-pivot row that anticommutes with the observable: the pivot string is
    added; the phase of the product is tracked for stabilizer rows when `ph` -/
def pivRow (N : Nat) (ph : Bool) (rp : Pauli) (j : Nat) (row : Pauli) : Pauli :=
  ⟨xorS row.g rp.g, if ph && j < N then (row.p + rp.p + ipow row.g rp.g) % 4 else row.p⟩

/-- what the scan does to row `j` when the pivot is `(p, rp)` -/
def updRow (obs : PStr) (N : Nat) (ph : Bool) (p : Nat) (rp : Pauli) (j : Nat) (row : Pauli) : Pauli :=
  if j ≠ p ∧ anti row.g obs = true then pivRow N ph rp j row else row

theorem updRow_pivot (obs : PStr) (N : Nat) (ph : Bool) (p : Nat) (rp row : Pauli) :
    updRow obs N ph p rp p row = row := by simp [updRow]

theorem updRow_of_comm (obs : PStr) (N : Nat) (ph : Bool) (p : Nat) (rp : Pauli) (j : Nat) (row : Pauli)
    (h : anti row.g obs = false) : updRow obs N ph p rp j row = row := by simp [updRow, h]

theorem updRow_of_anti (obs : PStr) (N : Nat) (ph : Bool) (p : Nat) (rp : Pauli) (j : Nat) (row : Pauli)
    (hj : j ≠ p) (h : anti row.g obs = true) : updRow obs N ph p rp j row = pivRow N ph rp j row := by
  simp [updRow, h, hj]

theorem updRow_g (obs : PStr) (N : Nat) (ph : Bool) (p : Nat) (rp : Pauli) (j : Nat) (row : Pauli) :
    (updRow obs N ph p rp j row).g = if j ≠ p ∧ anti row.g obs = true then xorS row.g rp.g else row.g := by
  unfold updRow; split <;> rfl

/-- without phase tracking, or outside the stabilizer half, the scan keeps the phase of the slot -/
theorem updRow_p_keep (obs : PStr) (N : Nat) (ph : Bool) (p : Nat) (rp : Pauli) (j : Nat) (row : Pauli)
    (h : ph = false ∨ N ≤ j) : (updRow obs N ph p rp j row).p = row.p := by
  unfold updRow pivRow; split
  · rcases h with h | h
    · simp [h]
    · have : ¬ j < N := by omega
      simp [this]
  · rfl

/-- a Hermitian row stays Hermitian when a commuting Hermitian pivot row is multiplied in -/
theorem updRow_p_even (obs : PStr) (N : Nat) (ph : Bool) (p : Nat) (rp : Pauli) (j : Nat) (row : Pauli)
    (h1 : row.p % 2 = 0) (h2 : rp.p % 2 = 0) (h3 : acq row.g rp.g = 0) :
    (updRow obs N ph p rp j row).p % 2 = 0 := by
  have hpar := ipow_parity row.g rp.g
  unfold updRow pivRow; split
  · simp only; split
    · omega
    · exact h1
  · exact h1

/-- `f j r₀ :: f (j+1) r₁ :: …` -/
def mapFrom (f : Nat → Pauli → Pauli) : Nat → List Pauli → List Pauli
  | _, [] => []
  | j, r :: rs => f j r :: mapFrom f (j + 1) rs

theorem length_mapFrom (f : Nat → Pauli → Pauli) (j : Nat) (l : List Pauli) :
    (mapFrom f j l).length = l.length := by
  induction l generalizing j with
  | nil => rfl
  | cons r rs ih => simp [mapFrom, ih]

theorem rowAt_mapFrom (f : Nat → Pauli → Pauli) (j : Nat) (l : List Pauli) (i : Nat) (hi : i < l.length) :
    rowAt (mapFrom f j l) i = f (j + i) (rowAt l i) := by
  induction l generalizing j i with
  | nil => simp at hi
  | cons r rs ih =>
    cases i with
    | zero => simp [mapFrom, rowAt_cons_zero]
    | succ i =>
      simp only [mapFrom, rowAt_cons_succ]
      rw [ih (j + 1) i (by simpa using hi)]
      congr 1; omega

theorem mapFrom_zero (f : Nat → Pauli → Pauli) (l : List Pauli) : mapFrom f 0 l = l.mapIdx f := by
  apply ext_rowAt
  · rw [length_mapFrom, List.length_mapIdx]
  · intro i hi
    rw [length_mapFrom] at hi
    rw [rowAt_mapFrom f 0 l i hi, rowAt_mapIdx f l i hi, Nat.zero_add]

/-- the accumulator of the scan when no pivot is found: the product of the partners `j - N` of the rows `j`
    that anticommute with the observable (also the loop of `stabilizer_expect`) -/
def scanAcc (T0 : List Pauli) (obs : PStr) (N : Nat) : Nat → List Pauli → Pauli → Pauli
  | _, [], acc => acc
  | j, row :: rest, acc =>
    scanAcc T0 obs N (j + 1) rest (if anti row.g obs then mul acc (rowAt T0 (j - N)) else acc)

/-- the scan once the pivot is known: rows are independent of each other -/
theorem scanAux_some (T0 : List Pauli) (obs : PStr) (N lim : Nat) (skip : Option Nat) (ph : Bool)
    (j : Nat) (rows : List Pauli) (p : Nat) (rp acc : Pauli) :
    scanAux T0 obs N lim skip ph j rows (some (p, rp)) acc =
      (mapFrom (fun i row => if (skip != some i) && anti row.g obs then pivRow N ph rp i row else row) j rows,
        some (p, rp), acc) := by
  induction rows generalizing j with
  | nil => rfl
  | cons row rest ih =>
    simp only [scanAux, mapFrom]
    rw [ih (j + 1)]
    split <;> rfl

/-- no pivot and no anticommuting row below `lim`: nothing is written, the partners are accumulated -/
theorem scanAux_none_clean (T0 : List Pauli) (obs : PStr) (N lim : Nat) (ph : Bool)
    (j : Nat) (rows : List Pauli) (acc : Pauli)
    (h : ∀ i, j + i < lim → anti (rowAt rows i).g obs = false) :
    scanAux T0 obs N lim none ph j rows none acc = (rows, none, scanAcc T0 obs N j rows acc) := by
  induction rows generalizing j acc with
  | nil => rfl
  | cons row rest ih =>
    have h' : ∀ i, j + 1 + i < lim → anti (rowAt rest i).g obs = false := by
      intro i hi
      have := h (i + 1) (by omega)
      rwa [rowAt_cons_succ] at this
    simp only [scanAux, scanAcc]
    by_cases ha : anti row.g obs = true
    · have hj : ¬ j < lim := by
        intro hj
        have := h 0 (by omega)
        rw [rowAt_cons_zero] at this
        rw [this] at ha; exact absurd ha (by simp)
      simp only [ha, hj]
      rw [ih (j + 1) _ h']
      simp [mul]
    · have ha' : anti row.g obs = false := by simpa using ha
      simp only [ha', Bool.and_false, Bool.false_eq_true, ↓reduceIte]
      rw [ih (j + 1) acc h']

/-- no pivot yet, first anticommuting row at offset `i0`, below `lim`: it becomes the pivot -/
theorem scanAux_none_first (T0 : List Pauli) (obs : PStr) (N lim : Nat) (ph : Bool)
    (i0 : Nat) (j : Nat) (rows : List Pauli) (acc : Pauli)
    (hlim : j + i0 < lim) (ha : anti (rowAt rows i0).g obs = true)
    (hb : ∀ i, i < i0 → anti (rowAt rows i).g obs = false) :
    scanAux T0 obs N lim none ph j rows none acc =
      (rows.take (i0 + 1) ++
        mapFrom (fun i row => if anti row.g obs then pivRow N ph (rowAt rows i0) i row else row)
          (j + i0 + 1) (rows.drop (i0 + 1)),
        some (j + i0, rowAt rows i0), acc) := by
  induction i0 generalizing j rows with
  | zero =>
    cases rows with
    | nil => rw [rowAt_of_le [] 0 (by simp), anti_nil_left] at ha; exact absurd ha (by simp)
    | cons row rest =>
      rw [rowAt_cons_zero] at ha
      have hj : j < lim := by omega
      simp only [scanAux, ha, hj, rowAt_cons_zero]
      rw [scanAux_some]
      simp
  | succ i0 ih =>
    cases rows with
    | nil => rw [rowAt_of_le [] _ (by simp), anti_nil_left] at ha; exact absurd ha (by simp)
    | cons row rest =>
      have h0 := hb 0 (by omega)
      rw [rowAt_cons_zero] at h0
      rw [rowAt_cons_succ] at ha
      simp only [scanAux, h0, rowAt_cons_succ]
      rw [ih (j + 1) rest (by omega) ha (fun i hi => by
        have := hb (i + 1) (by omega); rwa [rowAt_cons_succ] at this)]
      have e : j + 1 + i0 = j + (i0 + 1) := by omega
      simp [e]

/-- a decidable property either fails below `m` or has a first witness below `m` -/
theorem exists_first (P : Nat → Bool) (m : Nat) :
    (∀ i, i < m → P i = false) ∨ ∃ p, p < m ∧ P p = true ∧ ∀ i, i < p → P i = false := by
  induction m with
  | zero => exact Or.inl (fun i hi => absurd hi (by omega))
  | succ m ih =>
    rcases ih with h | ⟨p, hp, h1, h2⟩
    · by_cases hm : P m = true
      · exact Or.inr ⟨m, by omega, hm, h⟩
      · refine Or.inl (fun i hi => ?_)
        by_cases e : i = m
        · subst e; simpa using hm
        · exact h i (by omega)
    · exact Or.inr ⟨p, by omega, h1, h2⟩

/-- **scan with a pre-selected pivot** (`stabilizer_measure` after the pre-scan): every other row that
    anticommutes with the observable gets the pivot row multiplied in; the accumulator is untouched -/
theorem scan_pre (T : List Pauli) (obs : PStr) (N lim p : Nat) (ph : Bool) :
    scan T obs N lim (some p) ph =
      (T.mapIdx (updRow obs N ph p (rowAt T p)), some (p, rowAt T p), ⟨idStr N, 0⟩) := by
  unfold scan
  simp only [Option.map_some]
  rw [scanAux_some, ← mapFrom_zero]
  congr 2
  funext i row
  unfold updRow
  by_cases h : i = p
  · subst h; simp
  · have : ¬ p = i := fun e => h e.symm
    simp [h, this]

/-- **scan without pre-selection, first anticommuting row `p` below `lim`**: `p` is the pivot, and the rows
    are updated as in `scan_pre` -/
theorem scan_first (T : List Pauli) (obs : PStr) (N lim p : Nat) (ph : Bool)
    (hlim : p < lim) (ha : anti (rowAt T p).g obs = true)
    (hb : ∀ i, i < p → anti (rowAt T i).g obs = false) :
    scan T obs N lim none ph =
      (T.mapIdx (updRow obs N ph p (rowAt T p)), some (p, rowAt T p), ⟨idStr N, 0⟩) := by
  have hp : p < T.length := anti_rowAt_lt T obs p ha
  unfold scan
  simp only [Option.map_none]
  rw [scanAux_none_first T obs N lim ph p 0 T _ (by omega) ha hb]
  congr 1
  case e_snd => simp
  apply ext_rowAt
  · simp [length_mapFrom]; omega
  · intro k hk
    have hk' : k < T.length := by simp [length_mapFrom] at hk; omega
    rw [rowAt_mapIdx _ T k hk']
    by_cases hkp : k ≤ p
    · have e1 : rowAt (T.take (p + 1) ++ mapFrom (fun i row =>
          if anti row.g obs then pivRow N ph (rowAt T p) i row else row) (0 + p + 1) (T.drop (p + 1))) k
          = rowAt T k := by
        simp only [rowAt, List.getD_eq_getElem?_getD]
        rw [List.getElem?_append_left (by simp; omega), List.getElem?_take_of_lt (by omega)]
      rw [e1]
      by_cases e : k = p
      · subst e; rw [updRow_pivot]
      · rw [updRow_of_comm _ _ _ _ _ _ _ (hb k (by omega))]
    · have e1 : rowAt (T.take (p + 1) ++ mapFrom (fun i row =>
          if anti row.g obs then pivRow N ph (rowAt T p) i row else row) (0 + p + 1) (T.drop (p + 1))) k
          = rowAt (mapFrom (fun i row =>
          if anti row.g obs then pivRow N ph (rowAt T p) i row else row) (0 + p + 1) (T.drop (p + 1)))
            (k - (p + 1)) := by
        simp only [rowAt, List.getD_eq_getElem?_getD]
        rw [List.getElem?_append_right (by simp; omega)]
        congr 2
        simp; omega
      rw [e1, rowAt_mapFrom _ _ _ _ (by simp; omega)]
      have e2 : rowAt (T.drop (p + 1)) (k - (p + 1)) = rowAt T k := by
        simp only [rowAt, List.getD_eq_getElem?_getD, List.getElem?_drop]
        congr 2; omega
      have e3 : 0 + p + 1 + (k - (p + 1)) = k := by omega
      rw [e2, e3]
      unfold updRow
      have : k ≠ p := by omega
      simp [this]

/-- **scan without pivot**: no row below `lim` anticommutes with the observable; the tableau is returned
    unchanged together with the accumulated product of partners -/
theorem scan_clean (T : List Pauli) (obs : PStr) (N lim : Nat) (ph : Bool)
    (h : ∀ i, i < lim → anti (rowAt T i).g obs = false) :
    scan T obs N lim none ph = (T, none, scanAcc T obs N 0 T ⟨idStr N, 0⟩) := by
  unfold scan
  simp only [Option.map_none]
  exact scanAux_none_clean T obs N lim ph 0 T _ (fun i hi => h i (by omega))

/-- the two outcomes of a scan without pre-selection -/
theorem scan_cases (T : List Pauli) (obs : PStr) (N lim : Nat) (ph : Bool) :
    ((∀ i, i < lim → anti (rowAt T i).g obs = false) ∧
      scan T obs N lim none ph = (T, none, scanAcc T obs N 0 T ⟨idStr N, 0⟩)) ∨
    ∃ p, p < lim ∧ p < T.length ∧ anti (rowAt T p).g obs = true ∧
      (∀ i, i < p → anti (rowAt T i).g obs = false) ∧
      scan T obs N lim none ph =
        (T.mapIdx (updRow obs N ph p (rowAt T p)), some (p, rowAt T p), ⟨idStr N, 0⟩) := by
  rcases exists_first (fun i => anti (rowAt T i).g obs) lim with h | ⟨p, hp, h1, h2⟩
  · exact Or.inl ⟨h, scan_clean T obs N lim ph h⟩
  · exact Or.inr ⟨p, hp, anti_rowAt_lt T obs p h1, h1, h2, scan_first T obs N lim p ph hp h1 h2⟩

theorem findAnti_some (T : List Pauli) (obs : PStr) (lo hi p : Nat) (h : findAnti T obs lo hi = some p) :
    lo ≤ p ∧ p < hi ∧ anti (rowAt T p).g obs = true ∧
      ∀ i, lo ≤ i → i < p → anti (rowAt T i).g obs = false := by
  unfold findAnti at h
  rw [List.find?_range'_eq_some] at h
  obtain ⟨h1, h2, h3⟩ := h
  rw [List.mem_range'_1] at h2
  refine ⟨h2.1, by omega, h1, fun i hi1 hi2 => ?_⟩
  simpa using h3 i hi1 hi2

theorem findAnti_none (T : List Pauli) (obs : PStr) (lo hi : Nat) (h : findAnti T obs lo hi = none) :
    ∀ i, lo ≤ i → i < hi → anti (rowAt T i).g obs = false := by
  unfold findAnti at h
  rw [List.find?_range'_eq_none] at h
  intro i h1 h2
  simpa using h i h1 (by omega)

/-- rows of the scan output, lengths -/
theorem length_scan_rows (T : List Pauli) (obs : PStr) (N : Nat) (ph : Bool) (p : Nat) (rp : Pauli) :
    (T.mapIdx (updRow obs N ph p rp)).length = T.length := List.length_mapIdx

/-! ## §5 `install` -/

/-- the slot permutation performed by `install` (identity unless the pivot was a standby row) -/
def installPerm (N r p : Nat) : Nat → Nat := fun k =>
  if r ≤ p ∧ p < N then k
  else if p = r - 1 then k
  else if partner N p = r - 1 then swp p (partner N p) k
  else swp p (r - 1) (swp (partner N p) (partner N (r - 1)) k)

/-- the slot that holds the observable after `install` -/
def installSlot (N r p : Nat) : Nat := if r ≤ p ∧ p < N then p else r - 1
/-- the new `r` -/
def installRank (N r p : Nat) : Nat := if r ≤ p ∧ p < N then r else r - 1

/-- the strings right after `gs[q] = gs[p]; gs[p] = obs` -/
def installBase (T : List Pauli) (obs : PStr) (N p : Nat) (gp : PStr) : Nat → PStr := fun k =>
  if k = p then obs else if k = partner N p then gp else gAt T k

theorem installPerm_lt (N r p k : Nat) (hp : p < 2 * N) (hr : r - 1 < 2 * N) (hk : k < 2 * N) :
    installPerm N r p k < 2 * N := by
  have hq := partner_lt N p hp
  have hs := partner_lt N (r - 1) hr
  unfold installPerm
  split
  · exact hk
  · split
    · exact hk
    · split
      · exact swp_lt _ _ _ _ hp hq hk
      · exact swp_lt _ _ _ _ hp hr (swp_lt _ _ _ _ hq hs hk)

theorem installPerm_J (N r p : Nat) (hp : p < 2 * N) (hr : r - 1 < 2 * N) (i j : Nat)
    (hi : i < 2 * N) (hj : j < 2 * N) : J N (installPerm N r p i) (installPerm N r p j) = J N i j := by
  unfold installPerm
  split
  · rfl
  · split
    · rfl
    · split
      · exact J_swp_partner N p hp i j hi hj
      · next h => exact J_swp_two_pairs N p (r - 1) hp hr (fun e => h e.symm) i j hi hj

/-- the observable ends in `installSlot` -/
theorem installPerm_slot (N r p : Nat) (hr : r - 1 < 2 * N) :
    installPerm N r p (installSlot N r p) = p := by
  unfold installPerm installSlot
  split
  · rfl
  · split
    · next h => exact h.symm
    · split
      · next h => rw [← h, swp_right]
      · next h1 h2 =>
        have hs : r - 1 ≠ partner N (r - 1) := by rcases partner_cases N (r - 1) hr with h | h <;> omega
        rw [swp_other _ _ (r - 1) (fun e => h2 e.symm) hs, swp_right]

theorem install_of_active (T : List Pauli) (obs : PStr) (N r p : Nat) (gp : PStr) (h : r ≤ p ∧ p < N) :
    install T obs N r p gp = (setG (setG T (partner N p) gp) p obs, r, p) := by
  unfold install partner; simp [h.1, h.2]

theorem install_of_standby (T : List Pauli) (obs : PStr) (N r p : Nat) (gp : PStr) (h : ¬ (r ≤ p ∧ p < N)) :
    install T obs N r p gp =
      if p = r - 1 then (setG (setG T (partner N p) gp) p obs, r - 1, r - 1)
      else if partner N p = r - 1 then
        (swapG (setG (setG T (partner N p) gp) p obs) p (partner N p), r - 1, r - 1)
      else (swapG (swapG (setG (setG T (partner N p) gp) p obs) p (r - 1)) (partner N p) (partner N (r - 1)),
        r - 1, r - 1) := by
  have hc' : (!(decide (r ≤ p) && decide (p < N))) = true := by
    simp only [Bool.not_eq_true', Bool.and_eq_false_iff, decide_eq_false_iff_not]
    by_cases h1 : r ≤ p
    · exact Or.inr (fun h2 => h ⟨h1, h2⟩)
    · exact Or.inl h1
  unfold install partner
  simp only [hc', if_true]

/-- **`install` row by row**: lengths and phases stay, the strings are those of `installBase` permuted by
    `installPerm`; the new rank and the slot of the observable -/
theorem install_spec (T : List Pauli) (obs : PStr) (N r p : Nat) (gp : PStr)
    (hl : T.length = 2 * N) (hp : p < 2 * N) (hr : r - 1 < 2 * N) :
    (install T obs N r p gp).1.length = 2 * N ∧
    (install T obs N r p gp).2.1 = installRank N r p ∧
    (install T obs N r p gp).2.2 = installSlot N r p ∧
    (∀ k, (rowAt (install T obs N r p gp).1 k).p = (rowAt T k).p) ∧
    (∀ k, gAt (install T obs N r p gp).1 k = installBase T obs N p gp (installPerm N r p k)) := by
  have hq := partner_lt N p hp
  have hs := partner_lt N (r - 1) hr
  have hT1 : ∀ k, gAt (setG (setG T (partner N p) gp) p obs) k = installBase T obs N p gp k := by
    intro k
    rw [gAt_setG _ _ _ _ (by rw [length_setG, hl]; exact hp), gAt_setG _ _ _ _ (by rw [hl]; exact hq)]
    rfl
  have hT1p : ∀ k, (rowAt (setG (setG T (partner N p) gp) p obs) k).p = (rowAt T k).p := by
    intro k; rw [rowAt_setG_p, rowAt_setG_p]
  have hT1l : (setG (setG T (partner N p) gp) p obs).length = 2 * N := by
    rw [length_setG, length_setG, hl]
  unfold installPerm installRank installSlot
  by_cases hc : r ≤ p ∧ p < N
  · rw [install_of_active T obs N r p gp hc]
    simp only [if_pos hc]
    exact ⟨hT1l, trivial, trivial, hT1p, hT1⟩
  · rw [install_of_standby T obs N r p gp hc]
    simp only [if_neg hc]
    by_cases h1 : p = r - 1
    · simp only [if_pos h1]
      exact ⟨hT1l, trivial, trivial, hT1p, hT1⟩
    · simp only [if_neg h1]
      by_cases h2 : partner N p = r - 1
      · simp only [if_pos h2]
        refine ⟨by rw [length_swapG]; exact hT1l, trivial, trivial, fun k => ?_, fun k => ?_⟩
        · rw [rowAt_swapG_p]; exact hT1p k
        · rw [gAt_swapG _ _ _ _ (by rw [hT1l]; exact hp) (by rw [hT1l]; exact hq)]; exact hT1 _
      · simp only [if_neg h2]
        refine ⟨by rw [length_swapG, length_swapG]; exact hT1l, trivial, trivial, fun k => ?_, fun k => ?_⟩
        · rw [rowAt_swapG_p, rowAt_swapG_p]; exact hT1p k
        · rw [gAt_swapG _ _ _ _ (by rw [length_swapG, hT1l]; exact hq) (by rw [length_swapG, hT1l]; exact hs),
            gAt_swapG _ _ _ _ (by rw [hT1l]; exact hp) (by rw [hT1l]; exact hr)]
          exact hT1 _

/-- the strings after the scan and the two assignments of `install` are those of the function-level
    pivot update `pivF` -/
theorem installBase_scan (T0 : List Pauli) (obs : PStr) (n p : Nat) (ph : Bool) (hl : T0.length = 2 * n)
    (k : Nat) (hk : k < 2 * n) :
    installBase (T0.mapIdx (updRow obs n ph p (rowAt T0 p))) obs n p (rowAt T0 p).g k
      = pivF n p obs (gAt T0) k := by
  unfold installBase pivF
  by_cases h1 : k = p
  · simp [h1]
  · by_cases h2 : k = partner n p
    · simp only [if_neg h1, if_pos h2]; rfl
    · simp only [if_neg h1, if_neg h2]
      unfold gAt
      rw [rowAt_mapIdx _ T0 k (by omega), updRow_g]
      simp [h1]

/-- **scan followed by `install`, row by row**: `T0` any tableau with the Gram pattern, `p` any slot whose
    row anticommutes with the observable. Lengths, new rank, slot of the observable, the Gram pattern of the
    result, and the phases (which stay in their slots). -/
theorem pivot_install_core (T0 : List Pauli) (n r : Nat) (obs : PStr) (ph : Bool) (p : Nat)
    (hl : T0.length = 2 * n) (hg : GramF n (gAt T0)) (hr : r ≤ n) (ho : obs.length = n) (hp : p < 2 * n)
    (ha : anti (gAt T0 p) obs = true) :
    (install (T0.mapIdx (updRow obs n ph p (rowAt T0 p))) obs n r p (rowAt T0 p).g).1.length = 2 * n ∧
    (install (T0.mapIdx (updRow obs n ph p (rowAt T0 p))) obs n r p (rowAt T0 p).g).2.1 = installRank n r p ∧
    (install (T0.mapIdx (updRow obs n ph p (rowAt T0 p))) obs n r p (rowAt T0 p).g).2.2 = installSlot n r p ∧
    GramF n (gAt (install (T0.mapIdx (updRow obs n ph p (rowAt T0 p))) obs n r p (rowAt T0 p).g).1) ∧
    gAt (install (T0.mapIdx (updRow obs n ph p (rowAt T0 p))) obs n r p (rowAt T0 p).g).1 (installSlot n r p)
      = obs ∧
    ∀ k, k < 2 * n →
      (rowAt (install (T0.mapIdx (updRow obs n ph p (rowAt T0 p))) obs n r p (rowAt T0 p).g).1 k).p
        = (updRow obs n ph p (rowAt T0 p) k (rowAt T0 k)).p := by
  have hr' : r - 1 < 2 * n := by omega
  have hTl : (T0.mapIdx (updRow obs n ph p (rowAt T0 p))).length = 2 * n := by
    rw [List.length_mapIdx]; exact hl
  obtain ⟨s1, s2, s3, s4, s5⟩ :=
    install_spec (T0.mapIdx (updRow obs n ph p (rowAt T0 p))) obs n r p (rowAt T0 p).g hTl hp hr'
  have hpiv : GramF n (pivF n p obs (gAt T0)) :=
    pivF_gram n p obs (gAt T0) hg hp ho ((anti_iff _ _).1 ha)
  refine ⟨s1, s2, s3, ?_, ?_, ?_⟩
  · apply GramF.congr (GramF.comp hpiv (installPerm n r p) (fun k hk => installPerm_lt n r p k hp hr' hk)
      (fun i j hi hj => installPerm_J n r p hp hr' i j hi hj))
    intro k hk
    rw [s5 k, installBase_scan T0 obs n p ph hl _ (installPerm_lt n r p k hp hr' hk)]
  · rw [s5, installPerm_slot n r p hr']
    simp [installBase]
  · intro k hk
    rw [s4 k, rowAt_mapIdx _ T0 k (by omega)]

theorem installRank_le (n r p : Nat) : installRank n r p ≤ r := by
  unfold installRank; split <;> omega

theorem installSlot_lt (n r p : Nat) (hr : r ≤ n) (hp : p < 2 * n) : installSlot n r p < 2 * n := by
  unfold installSlot; split <;> omega

/-- the slot of the observable is an active stabilizer slot of the new state, provided the pivot was found
    below `n + r` -/
theorem installSlot_active (n r p : Nat) (hr : r ≤ n) (hp : p < n + r) :
    installRank n r p ≤ installSlot n r p ∧ installSlot n r p < n := by
  unfold installRank installSlot; split <;> omega

/-- Hermiticity of the new active rows other than the observable: needs that active rows anticommuting
    with the observable occur only together with an active pivot (the pre-scan of `stabilizer_measure`,
    or `r = 0`) -/
theorem pivot_install_herm (T0 : List Pauli) (n r : Nat) (obs : PStr) (ph : Bool) (p : Nat)
    (hg : GramF n (gAt T0)) (hp : p < n + r)
    (hh : ∀ i, r ≤ i → i < n → (rowAt T0 i).p % 2 = 0)
    (hA : ∀ k, r ≤ k → k < n → anti (gAt T0 k) obs = true → r ≤ p ∧ p < n)
    (k : Nat) (hk1 : installRank n r p ≤ k) (hk2 : k < n) (hk3 : k ≠ installSlot n r p) :
    (updRow obs n ph p (rowAt T0 p) k (rowAt T0 k)).p % 2 = 0 := by
  by_cases hc : r ≤ p ∧ p < n
  · simp only [installRank, installSlot, if_pos hc] at hk1 hk3
    apply updRow_p_even _ _ _ _ _ _ _ (hh k hk1 hk2) (hh p hc.1 hc.2)
    have := hg.2 k p (by omega) (by omega)
    unfold gAt at this
    rw [this]; unfold J; split <;> omega
  · simp only [installRank, installSlot, if_neg hc] at hk1 hk3
    have hrk : r ≤ k := by omega
    by_cases ha : anti (gAt T0 k) obs = true
    · exact absurd (hA k hrk hk2 ha) hc
    · rw [updRow_of_comm _ _ _ _ _ _ _ (by simpa [gAt] using ha)]
      exact hh k hrk hk2

/-- **the tableau invariant after scan, `install` and `setP`** with an even phase -/
theorem pivot_install_inv (st : State) (n : Nat) (obs : PStr) (ph : Bool) (p : Nat) (c : Int)
    (h : TabInv st n) (ho : obs.length = n) (hp : p < n + st.r)
    (ha : anti (gAt st.rows p) obs = true)
    (hA : ∀ k, st.r ≤ k → k < n → anti (gAt st.rows k) obs = true → st.r ≤ p ∧ p < n)
    (hc : c % 2 = 0) :
    TabInv ⟨setP (install (st.rows.mapIdx (updRow obs n ph p (rowAt st.rows p))) obs n st.r p
        (rowAt st.rows p).g).1 (installSlot n st.r p) c, installRank n st.r p⟩ n := by
  obtain ⟨hl, hr, hg, hh⟩ := (tabInv_iff st n).1 h
  have hp2 : p < 2 * n := by omega
  obtain ⟨c1, _, _, c4, _, c6⟩ := pivot_install_core st.rows n st.r obs ph p hl hg hr ho hp2 ha
  have hsl := installSlot_lt n st.r p hr hp2
  rw [tabInv_iff]
  refine ⟨by rw [length_setP]; exact c1, Nat.le_trans (installRank_le n st.r p) hr, ?_, ?_⟩
  · exact GramF.congr c4 (fun k _ => gAt_setP _ _ _ _)
  · intro i hi1 hi2
    simp only at hi1 ⊢
    rw [rowAt_setP_p _ _ _ _ (by rw [c1]; exact hsl)]
    split
    · exact hc
    · next hne =>
      rw [c6 i (by omega)]
      exact pivot_install_herm st.rows n st.r obs ph p hg hp hh hA i hi1 hi2 hne

/-! ## §6 `measure1`, `project1`, `postselect` row by row -/

theorem install_rank_slot (T : List Pauli) (obs : PStr) (N r p : Nat) (gp : PStr) :
    (install T obs N r p gp).2.1 = installRank N r p ∧ (install T obs N r p gp).2.2 = installSlot N r p := by
  unfold installRank installSlot
  by_cases hc : r ≤ p ∧ p < N
  · rw [install_of_active T obs N r p gp hc]; simp only [if_pos hc]; first | exact ⟨rfl, rfl⟩ | exact ⟨trivial, trivial⟩
  · rw [install_of_standby T obs N r p gp hc]; simp only [if_neg hc]
    split
    · first | exact ⟨rfl, rfl⟩ | exact ⟨trivial, trivial⟩
    · split <;> first | exact ⟨rfl, rfl⟩ | exact ⟨trivial, trivial⟩

/-- `p` is the pivot chosen by `stabilizer_measure`: the first anticommuting active stabilizer if there is
    one, otherwise the first anticommuting row below `N + r` -/
def IsMeasPivot (st : State) (obs : PStr) (p : Nat) : Prop :=
  anti (gAt st.rows p) obs = true ∧
  ((st.r ≤ p ∧ p < st.N ∧ ∀ i, st.r ≤ i → i < p → anti (gAt st.rows i) obs = false) ∨
   (p < st.N + st.r ∧ (∀ i, st.r ≤ i → i < st.N → anti (gAt st.rows i) obs = false) ∧
     ∀ i, i < p → anti (gAt st.rows i) obs = false))

/-- the state written by a random-outcome measurement with pivot `p` and new phase `c` -/
def pivotState (st : State) (obs : PStr) (ph : Bool) (p : Nat) (c : Int) : State :=
  ⟨setP (install (st.rows.mapIdx (updRow obs st.N ph p (rowAt st.rows p))) obs st.N st.r p
      (rowAt st.rows p).g).1 (installSlot st.N st.r p) c, installRank st.N st.r p⟩

/-- **`measure1` row by row.** Either there is a pivot (random outcome): the result is `pivotState` with the
    coin's phase; or no row below `N + r` anticommutes (deterministic outcome): the state is returned
    unchanged and the outcome is read off the accumulated product `scanAcc` of stabilizers. -/
theorem measure1_cases (st : State) (obs : Pauli) (coin : Bool) :
    (∃ p, IsMeasPivot st obs.g p ∧
      measure1 st obs coin =
        .ok (pivotState st obs.g true p (if coin then 2 else 0),
          (((if coin then 2 else 0) - obs.p) % 4) / 2, true)) ∨
    ((∀ i, i < st.N + st.r → anti (gAt st.rows i) obs.g = false) ∧
      measure1 st obs coin =
        if (scanAcc st.rows obs.g st.N 0 st.rows ⟨idStr st.N, 0⟩).g = obs.g then
          .ok (st, (((scanAcc st.rows obs.g st.N 0 st.rows ⟨idStr st.N, 0⟩).p - obs.p) % 4) / 2, false)
        else .error .assertion) := by
  have hpiv : ∀ p acc, scan st.rows obs.g st.N (st.N + st.r) (findAnti st.rows obs.g st.r st.N) true =
      (st.rows.mapIdx (updRow obs.g st.N true p (rowAt st.rows p)), some (p, rowAt st.rows p), acc) →
      measure1 st obs coin =
        .ok (pivotState st obs.g true p (if coin then 2 else 0),
          (((if coin then 2 else 0) - obs.p) % 4) / 2, true) := by
    intro p acc hs
    unfold measure1 pivotState
    simp only [hs]
    rw [(install_rank_slot _ _ _ _ _ _).1, (install_rank_slot _ _ _ _ _ _).2]
  cases hfa : findAnti st.rows obs.g st.r st.N with
  | some p =>
    obtain ⟨h1, h2, h3, h4⟩ := findAnti_some _ _ _ _ _ hfa
    exact Or.inl ⟨p, ⟨h3, Or.inl ⟨h1, h2, h4⟩⟩, hpiv p _ (by rw [hfa]; exact scan_pre _ _ _ _ _ _)⟩
  | none =>
    have hn := findAnti_none _ _ _ _ hfa
    rcases scan_cases st.rows obs.g st.N (st.N + st.r) true with ⟨hc, hs⟩ | ⟨p, hp1, _, hp3, hp4, hs⟩
    · refine Or.inr ⟨hc, ?_⟩
      unfold measure1
      simp only [hfa, hs]
    · exact Or.inl ⟨p, ⟨hp3, Or.inr ⟨hp1, hn, hp4⟩⟩, hpiv p _ (by rw [hfa]; exact hs)⟩

/-- **`project1` row by row** (strings only, no phase is touched) -/
theorem project1_cases (st : State) (obs : PStr) :
    (∃ p, p < st.N + st.r ∧ anti (gAt st.rows p) obs = true ∧
      (∀ i, i < p → anti (gAt st.rows i) obs = false) ∧
      project1 st obs =
        ⟨(install (st.rows.mapIdx (updRow obs st.N false p (rowAt st.rows p))) obs st.N st.r p
          (rowAt st.rows p).g).1, installRank st.N st.r p⟩) ∨
    ((∀ i, i < st.N + st.r → anti (gAt st.rows i) obs = false) ∧ project1 st obs = st) := by
  rcases scan_cases st.rows obs st.N (st.N + st.r) false with ⟨hc, hs⟩ | ⟨p, hp1, _, hp3, hp4, hs⟩
  · refine Or.inr ⟨hc, ?_⟩
    unfold project1
    simp only [hs]
  · refine Or.inl ⟨p, hp1, hp3, hp4, ?_⟩
    unfold project1
    simp only [hs]
    rw [(install_rank_slot _ _ _ _ _ _).1]

/-- **`postselect` row by row** (pure states: `r = 0`, pivot among the stabilizers) -/
theorem postselect_cases (st : State) (P : Pauli) (res : Nat) (hr : st.r = 0) :
    (∃ p, p < st.N ∧ anti (gAt st.rows p) P.g = true ∧
      (∀ i, i < p → anti (gAt st.rows i) P.g = false) ∧
      postselect st P res =
        .ok (pivotState st P.g true p ((P.p + 2 * (res : Int)) % 4), ⟨false, 1⟩)) ∨
    ((∀ i, i < st.N → anti (gAt st.rows i) P.g = false) ∧
      postselect st P res =
        if (scanAcc st.rows P.g st.N 0 st.rows ⟨idStr st.N, 0⟩).g = P.g then
          .ok (st, if (scanAcc st.rows P.g st.N 0 st.rows ⟨idStr st.N, 0⟩).p = (P.p + 2 * (res : Int)) % 4
            then ⟨false, 0⟩ else ⟨true, 0⟩)
        else .error .assertion) := by
  have hr' : (st.r != 0) = false := by simp [hr]
  have hst : (⟨st.rows, 0⟩ : State) = st := by cases st; simp_all
  rcases scan_cases st.rows P.g st.N st.N true with ⟨hc, hs⟩ | ⟨p, hp1, _, hp3, hp4, hs⟩
  · refine Or.inr ⟨hc, ?_⟩
    unfold postselect
    simp only [hr', hs, hst]
    simp
  · refine Or.inl ⟨p, hp1, hp3, hp4, ?_⟩
    have hact : st.r ≤ p ∧ p < st.N := ⟨by omega, hp1⟩
    unfold postselect pivotState
    simp only [hr', hs]
    rw [install_of_active _ _ _ _ _ _ hact]
    have e1 : installSlot st.N st.r p = p := by simp only [installSlot, if_pos hact]
    have e2 : installRank st.N st.r p = 0 := by simp only [installRank, if_pos hact]; exact hr
    rw [e1, e2]
    simp [partner]

/-! ## §7 constructors: `idMap`, `mapToState`; rotations -/

theorem rowAt_append (A B : List Pauli) (i : Nat) :
    rowAt (A ++ B) i = if i < A.length then rowAt A i else rowAt B (i - A.length) := by
  simp only [rowAt, List.getD_eq_getElem?_getD, List.getElem?_append]
  split <;> rfl

theorem rowAt_map_range (f : Nat → Pauli) (n i : Nat) (hi : i < n) : rowAt ((List.range n).map f) i = f i := by
  rw [rowAt_eq_getElem _ i (by simpa using hi)]; simp

theorem length_idRows (n k : Nat) : (idRows n k).length = 2 * k := by
  induction k with
  | zero => rfl
  | succ k ih => simp [idRows, ih]; omega

theorem rowAt_idRows (n k i : Nat) (hi : i < 2 * k) :
    rowAt (idRows n k) i = if i % 2 = 0 then ⟨unitX n (i / 2), 0⟩ else ⟨unitZ n (i / 2), 0⟩ := by
  induction k with
  | zero => omega
  | succ k ih =>
    simp only [idRows]
    rw [rowAt_append, length_idRows]
    by_cases h : i < 2 * k
    · rw [if_pos h]; exact ih h
    · rw [if_neg h]
      by_cases h0 : i = 2 * k
      · have e1 : i - 2 * k = 0 := by omega
        have e2 : i % 2 = 0 := by omega
        have e3 : i / 2 = k := by omega
        rw [e1, e2, e3]; rfl
      · have e1 : i - 2 * k = 1 := by omega
        have e2 : ¬ i % 2 = 0 := by omega
        have e3 : i / 2 = k := by omega
        rw [e1, if_neg e2, e3]; rfl

theorem acqSum_unit_XX (l : List Nat) (a b : Nat) :
    acqSum (l.map fun i => (i == a, false)) (l.map fun i => (i == b, false)) = 0 := by
  induction l with
  | nil => rfl
  | cons x xs ih => simp [acqSum_cons, ih, acqQ, b2i]

theorem acqSum_unit_ZZ (l : List Nat) (a b : Nat) :
    acqSum (l.map fun i => (false, i == a)) (l.map fun i => (false, i == b)) = 0 := by
  induction l with
  | nil => rfl
  | cons x xs ih => simp [acqSum_cons, ih, acqQ, b2i]

theorem acqSum_unit_XZ (s m a b : Nat) :
    acqSum ((List.range' s m).map fun i => (i == a, false)) ((List.range' s m).map fun i => (false, i == b))
      = if a = b ∧ s ≤ a ∧ a < s + m then -1 else 0 := by
  induction m generalizing s with
  | zero =>
    have : ¬ (a = b ∧ s ≤ a ∧ a < s + 0) := by omega
    rw [if_neg this]; rfl
  | succ m ih =>
    rw [List.range'_succ]
    simp only [List.map_cons, acqSum_cons, ih (s + 1)]
    by_cases h1 : s = a
    · by_cases h2 : s = b
      · have c1 : a = b ∧ s ≤ a ∧ a < s + (m + 1) := by omega
        have c2 : ¬ (a = b ∧ s + 1 ≤ a ∧ a < s + 1 + m) := by omega
        rw [if_pos c1, if_neg c2]; simp [acqQ, b2i, h1]
        subst h1; subst h2; simp
      · have c1 : ¬ (a = b ∧ s ≤ a ∧ a < s + (m + 1)) := by omega
        have c2 : ¬ (a = b ∧ s + 1 ≤ a ∧ a < s + 1 + m) := by omega
        rw [if_neg c1, if_neg c2]; simp [acqQ, b2i, h2]
    · have c : (a = b ∧ s ≤ a ∧ a < s + (m + 1)) ↔ (a = b ∧ s + 1 ≤ a ∧ a < s + 1 + m) := by omega
      simp only [c]
      simp [acqQ, b2i, h1]

theorem acq_unit_XX (n a b : Nat) : acq (unitX n a) (unitX n b) = 0 := by
  unfold acq unitX; rw [acqSum_unit_XX]; rfl
theorem acq_unit_ZZ (n a b : Nat) : acq (unitZ n a) (unitZ n b) = 0 := by
  unfold acq unitZ; rw [acqSum_unit_ZZ]; rfl
theorem acq_unit_XZ (n a b : Nat) : acq (unitX n a) (unitZ n b) = if a = b ∧ a < n then 1 else 0 := by
  unfold acq unitX unitZ
  rw [List.range_eq_range', acqSum_unit_XZ]
  by_cases h : a = b ∧ a < n
  · rw [if_pos h, if_pos (by omega)]; rfl
  · rw [if_neg h, if_neg (by omega)]; rfl
theorem acq_unit_ZX (n a b : Nat) : acq (unitZ n a) (unitX n b) = if a = b ∧ a < n then 1 else 0 := by
  rw [acq_symm, acq_unit_XZ]
  by_cases h : a = b ∧ a < n
  · rw [if_pos h, if_pos (by omega)]
  · rw [if_neg h, if_neg (by omega)]

theorem length_unitX (n k : Nat) : (unitX n k).length = n := by simp [unitX]
theorem length_unitZ (n k : Nat) : (unitZ n k).length = n := by simp [unitZ]

/-- the identity map is a valid Clifford map -/
theorem idMap_valid (n : Nat) : ValidMap (idMap n) n := by
  unfold idMap
  refine ⟨length_idRows n n, ?_, ?_⟩
  · intro R hR
    obtain ⟨j, hj, rfl⟩ := exists_rowAt_of_mem _ R hR
    rw [length_idRows] at hj
    rw [rowAt_idRows n n j hj]
    split
    · exact ⟨length_unitX _ _, rfl⟩
    · exact ⟨length_unitZ _ _, rfl⟩
  · intro i j hi hj
    rw [rowAt_idRows n n i hi, rowAt_idRows n n j hj]
    by_cases h1 : i % 2 = 0 <;> by_cases h2 : j % 2 = 0
    · rw [if_pos h1, if_pos h2, acq_unit_XX, if_neg (by omega)]
    · rw [if_pos h1, if_neg h2, acq_unit_XZ]
      by_cases c : i / 2 = j / 2
      · rw [if_pos (by omega), if_pos (by omega)]
      · rw [if_neg (by omega), if_neg (by omega)]
    · rw [if_neg h1, if_pos h2, acq_unit_ZX]
      by_cases c : i / 2 = j / 2
      · rw [if_pos (by omega), if_pos (by omega)]
      · rw [if_neg (by omega), if_neg (by omega)]
    · rw [if_neg h1, if_neg h2, acq_unit_ZZ, if_neg (by omega)]

theorem length_mapToState (M : List Pauli) : (mapToState M).length = 2 * (M.length / 2) := by
  simp [mapToState]; omega

/-- `map_to_state` row by row: stabilizer `i` is the image of `Z_i`, destabilizer `n + i` the image of `X_i` -/
theorem rowAt_mapToState (M : List Pauli) (i : Nat) (hi : i < 2 * (M.length / 2)) :
    rowAt (mapToState M) i =
      if i < M.length / 2 then rowAt M (2 * i + 1) else rowAt M (2 * (i - M.length / 2)) := by
  unfold mapToState
  simp only
  rw [rowAt_append]
  simp only [List.length_map, List.length_range]
  split
  · next h => rw [rowAt_map_range _ _ _ h]
  · next h => rw [rowAt_map_range _ _ _ (by omega)]

/-- converting a valid map to a state gives a valid tableau -/
theorem toState_inv (M : List Pauli) (n r : Nat) (hM : ValidMap M n) (hr : r ≤ n) :
    TabInv (toState M r) n := by
  obtain ⟨hl, hrow, hacq⟩ := hM
  have hn : M.length / 2 = n := by omega
  have hrow' : ∀ k, k < 2 * n → (rowAt M k).g.length = n ∧ (rowAt M k).p % 2 = 0 :=
    fun k hk => hrow _ (rowAt_mem M k (by omega))
  rw [tabInv_iff]
  simp only [toState]
  refine ⟨by rw [length_mapToState, hn], hr, ⟨fun i hi => ?_, fun i j hi hj => ?_⟩, fun i _ hi => ?_⟩
  · unfold gAt
    rw [rowAt_mapToState M i (by omega), hn]
    split
    · exact (hrow' _ (by omega)).1
    · exact (hrow' _ (by omega)).1
  · unfold gAt
    rw [rowAt_mapToState M i (by omega), rowAt_mapToState M j (by omega), hn]
    by_cases h1 : i < n <;> by_cases h2 : j < n
    · rw [if_pos h1, if_pos h2, hacq _ _ (by omega) (by omega)]
      unfold J; split <;> split <;> omega
    · rw [if_pos h1, if_neg h2, hacq _ _ (by omega) (by omega)]
      unfold J; split <;> split <;> omega
    · rw [if_neg h1, if_pos h2, hacq _ _ (by omega) (by omega)]
      unfold J; split <;> split <;> omega
    · rw [if_neg h1, if_neg h2, hacq _ _ (by omega) (by omega)]
      unfold J; split <;> split <;> omega
  · rw [rowAt_mapToState M i (by omega), hn, if_pos hi]
    exact (hrow' _ (by omega)).2

/-- replacing all phases by an even phase keeps the invariant -/
theorem TabInv.map_phase {st : State} {n : Nat} (h : TabInv st n) (c : Int) (hc : c % 2 = 0) :
    TabInv ⟨st.rows.map fun R => ⟨R.g, c⟩, st.r⟩ n := by
  obtain ⟨hl, hr, hg, _⟩ := (tabInv_iff st n).1 h
  rw [tabInv_iff]
  refine ⟨by simpa using hl, hr, GramF.congr hg (fun k hk => ?_), fun i _ hi => ?_⟩
  · unfold gAt; simp only; rw [rowAt_map _ _ k (by omega)]
  · simp only; rw [rowAt_map _ _ i (by omega)]; exact hc

/-- a Hermitian rotation keeps rows Hermitian -/
theorem rotate_p_even (G P : Pauli) (hG : G.p % 2 = 0) (hP : P.p % 2 = 0) : (rotate G P).p % 2 = 0 := by
  rcases acq_bit G.g P.g with h | h
  · rw [rotate_of_acq_zero G P h]; exact hP
  · rw [rotate_of_acq_one G P h]
    have hpar := ipow_parity P.g G.g
    rw [acq_symm, h] at hpar
    simp only
    omega

/-- rotation by a Hermitian generator preserves the invariant -/
theorem rotate_inv (st : State) (n : Nat) (G : Pauli) (h : TabInv st n) (hG : G.p % 2 = 0)
    (hl : G.g.length = n) : TabInv ⟨st.rows.map (rotate G), st.r⟩ n := by
  obtain ⟨hlen, hr, hg, hh⟩ := (tabInv_iff st n).1 h
  rw [tabInv_iff]
  refine ⟨by simpa using hlen, hr, ⟨fun i hi => ?_, fun i j hi hj => ?_⟩, fun i hi1 hi2 => ?_⟩
  · unfold gAt; simp only
    rw [rowAt_map _ _ i (by omega), length_rotate G _ (by rw [hl]; exact (hg.1 i hi).symm)]
    exact hg.1 i hi
  · unfold gAt; simp only
    rw [rowAt_map _ _ i (by omega), rowAt_map _ _ j (by omega),
      rotate_acq G _ _ (by rw [hl]; exact (hg.1 i hi).symm) (by rw [hl]; exact (hg.1 j hj).symm)]
    exact hg.2 i j hi hj
  · simp only
    rw [rowAt_map _ _ i (by omega)]
    exact rotate_p_even G _ hG (hh i hi1 hi2)

section Nondegeneracy
open Z2

/-! ## §8 symplectic nondegeneracy: more vectors than coordinates are dependent -/

theorem xsum_succ (f : Nat → Bool) (n : Nat) : xsum f (n + 1) = (xsum f n != f n) := rfl

/-- the index map that skips `p` -/
def skipIdx (p i : Nat) : Nat := if i < p then i else i + 1

/-- take the term `p` out of a GF(2) sum -/
theorem xsum_skip (g : Nat → Bool) (N p : Nat) (hp : p ≤ N) :
    xsum g (N + 1) = (g p != xsum (fun i => g (skipIdx p i)) N) := by
  induction N with
  | zero =>
    have : p = 0 := by omega
    subst this; simp [xsum]
  | succ N ih =>
    by_cases h : p ≤ N
    · rw [xsum, ih h]
      simp only [xsum]
      have : skipIdx p N = N + 1 := by unfold skipIdx; rw [if_neg (by omega)]
      rw [this]
      cases g p <;> cases xsum (fun i => g (skipIdx p i)) N <;> cases g (N + 1) <;> rfl
    · have hpN : p = N + 1 := by omega
      subst hpN
      rw [xsum]
      have : xsum (fun i => g (skipIdx (N + 1) i)) (N + 1) = xsum g (N + 1) := by
        apply xsum_congr
        intro k hk
        unfold skipIdx; rw [if_pos hk]
      rw [this]
      cases xsum g (N + 1) <;> cases g (N + 1) <;> rfl

/-- **`m + 1` vectors with `m` coordinates over GF(2) are linearly dependent** (`v i j`: coordinate `j` of
    vector `i`) -/
theorem exists_dependency (m : Nat) : ∀ v : Nat → Nat → Bool,
    ∃ c : Nat → Bool, (∃ i, i ≤ m ∧ c i = true) ∧
      ∀ j, j < m → xsum (fun i => c i && v i j) (m + 1) = false := by
  induction m with
  | zero => intro v; exact ⟨fun _ => true, ⟨0, Nat.le_refl _, rfl⟩, fun j hj => absurd hj (by omega)⟩
  | succ m ih =>
    intro v
    by_cases hA : ∀ i, i ≤ m + 1 → v i m = false
    · obtain ⟨c, ⟨i0, hi0, hc0⟩, hc⟩ := ih v
      refine ⟨fun i => if i ≤ m then c i else false, ⟨i0, by omega, by simp [hi0, hc0]⟩, fun j hj => ?_⟩
      by_cases hjm : j < m
      · rw [xsum_succ]
        have e : xsum (fun i => (if i ≤ m then c i else false) && v i j) (m + 1)
            = xsum (fun i => c i && v i j) (m + 1) := by
          apply xsum_congr; intro k hk
          have hk' : k ≤ m := by omega
          simp [hk']
        rw [e, hc j hjm]
        have : ¬ m + 1 ≤ m := by omega
        simp [this]
      · have : j = m := by omega
        subst this
        apply xsum_false
        intro k hk
        rw [hA k (by omega)]; simp
    · have hB : ∃ p, p ≤ m + 1 ∧ v p m = true := by
        apply Classical.byContradiction
        intro hn
        apply hA
        intro i hi
        cases hv : v i m with
        | false => rfl
        | true => exact absurd ⟨i, hi, hv⟩ hn
      obtain ⟨p, hp, hvp⟩ := hB
      obtain ⟨c, ⟨i0, hi0, hc0⟩, hc⟩ :=
        ih (fun i j => v (skipIdx p i) j != (v (skipIdx p i) m && v p j))
      let a : Bool := xsum (fun i => c i && v (skipIdx p i) m) (m + 1)
      let c' : Nat → Bool := fun k => if k = p then a else if k < p then c k else c (k - 1)
      have hc' : ∀ i, c' (skipIdx p i) = c i := by
        intro i
        unfold skipIdx
        by_cases h : i < p
        · have h1 : ¬ i = p := by omega
          simp only [c', if_pos h, if_neg h1]
        · have h1 : ¬ i + 1 = p := by omega
          have h2 : ¬ i + 1 < p := by omega
          simp only [c', if_neg h, if_neg h1, if_neg h2]
          rfl
      have key : ∀ j, xsum (fun k => c' k && v k j) (m + 2)
          = xsum (fun i => c i && (v (skipIdx p i) j != (v (skipIdx p i) m && v p j))) (m + 1) := by
        intro j
        rw [xsum_skip _ (m + 1) p hp]
        simp only [hc']
        have e1 : c' p = a := by simp [c']
        have e2 : xsum (fun i => c i && (v (skipIdx p i) j != (v (skipIdx p i) m && v p j))) (m + 1)
            = (xsum (fun i => c i && v (skipIdx p i) j) (m + 1) != (a && v p j)) := by
          have : ∀ i, (c i && (v (skipIdx p i) j != (v (skipIdx p i) m && v p j)))
              = ((c i && v (skipIdx p i) j) != ((c i && v (skipIdx p i) m) && v p j)) := by
            intro i
            cases c i <;> cases v (skipIdx p i) j <;> cases v (skipIdx p i) m <;> cases v p j <;> rfl
          simp only [this]
          rw [xsum_add, xsum_mul_right]
        rw [e1, e2]
        cases (a && v p j) <;> cases xsum (fun i => c i && v (skipIdx p i) j) (m + 1) <;> rfl
      refine ⟨c', ⟨skipIdx p i0, by unfold skipIdx; split <;> omega, by rw [hc' i0]; exact hc0⟩,
        fun j hj => ?_⟩
      rw [key j]
      by_cases hjm : j < m
      · exact hc j hjm
      · have : j = m := by omega
        subst this
        apply xsum_false
        intro k _
        rw [hvp]
        cases c k <;> cases v (skipIdx p k) j <;> rfl

/-- bit `j` of a string in the flat layout `x0 z0 x1 z1 …` -/
def bitAt (g : PStr) (j : Nat) : Bool :=
  if j % 2 = 0 then (g.getD (j / 2) (false, false)).1 else (g.getD (j / 2) (false, false)).2

theorem getD_xorS (a b : PStr) (k : Nat) (h : a.length = b.length) :
    (xorS a b).getD k (false, false) = xorQ (a.getD k (false, false)) (b.getD k (false, false)) := by
  induction a generalizing b k with
  | nil =>
    cases b with
    | nil => simp [xorS, xorQ]
    | cons y ys => simp at h
  | cons x xs ih =>
    cases b with
    | nil => simp at h
    | cons y ys =>
      cases k with
      | zero => simp [xorS_cons]
      | succ k => simpa [xorS_cons] using ih ys k (by simpa using h)

theorem bitAt_xorS (a b : PStr) (j : Nat) (h : a.length = b.length) :
    bitAt (xorS a b) j = (bitAt a j != bitAt b j) := by
  unfold bitAt
  rw [getD_xorS a b _ h]
  split <;> rfl

theorem bitAt_idStr (n j : Nat) : bitAt (idStr n) j = false := by
  have : ∀ k, (idStr n).getD k (false, false) = (false, false) := by
    intro k
    simp only [idStr, List.getD_eq_getElem?_getD, List.getElem?_replicate]
    split <;> rfl
  unfold bitAt; rw [this]; split <;> rfl

theorem bitAt_cons_add_two (q : Q) (g : PStr) (j : Nat) : bitAt (q :: g) (j + 2) = bitAt g j := by
  unfold bitAt
  have e1 : (j + 2) % 2 = j % 2 := by omega
  have e2 : (j + 2) / 2 = j / 2 + 1 := by omega
  rw [e1, e2]; simp

/-- a string all of whose bits vanish is the identity string -/
theorem eq_idStr_of_bitAt (g : PStr) (n : Nat) (hl : g.length = n)
    (h : ∀ j, j < 2 * n → bitAt g j = false) : g = idStr n := by
  induction g generalizing n with
  | nil => subst hl; rfl
  | cons q qs ih =>
    cases n with
    | zero => simp at hl
    | succ n =>
      have h0 := h 0 (by omega)
      have h1 := h 1 (by omega)
      have hq : q = (false, false) := by
        obtain ⟨x, z⟩ := q
        simp [bitAt] at h0 h1
        simp [h0, h1]
      rw [idStr_succ, hq, ih n (by simpa using hl) (fun j hj => by
        have := h (j + 2) (by omega); rwa [bitAt_cons_add_two] at this)]

/-- a string that is not the identity anticommutes with some string -/
theorem exists_anti_of_ne_idStr (w : PStr) (h : w ≠ idStr w.length) :
    ∃ u : PStr, u.length = w.length ∧ acq u w = 1 := by
  induction w with
  | nil => exact absurd rfl h
  | cons q qs ih =>
    by_cases hq : q = (false, false)
    · have hqs : qs ≠ idStr qs.length := by
        intro e; apply h; rw [List.length_cons, idStr_succ, hq, ← e]
      obtain ⟨u, hu1, hu2⟩ := ih hqs
      refine ⟨(false, false) :: u, by simp [hu1], ?_⟩
      unfold acq at hu2 ⊢
      rw [acqSum_cons, acqQ_id_left]; omega
    · obtain ⟨x, z⟩ := q
      refine ⟨(if x then (false, true) else (true, false)) :: idStr qs.length, by simp [length_idStr], ?_⟩
      unfold acq
      rw [acqSum_cons, acqSum_idStr_left]
      cases x <;> cases z <;> first | exact absurd rfl hq | decide

/-- the product of the strings `F i`, `i < k`, selected by `c` -/
def combS (n : Nat) (F : Nat → PStr) (c : Nat → Bool) : Nat → PStr
  | 0 => idStr n
  | k + 1 => if c k then xorS (combS n F c k) (F k) else combS n F c k

theorem length_combS (n : Nat) (F : Nat → PStr) (c : Nat → Bool) (k : Nat)
    (hF : ∀ i, i < k → (F i).length = n) : (combS n F c k).length = n := by
  induction k with
  | zero => exact length_idStr n
  | succ k ih =>
    have ih' := ih (fun i hi => hF i (by omega))
    simp only [combS]; split
    · rw [length_xorS_eq _ _ (by rw [ih', hF k (by omega)])]; exact ih'
    · exact ih'

theorem bitAt_combS (n : Nat) (F : Nat → PStr) (c : Nat → Bool) (k j : Nat)
    (hF : ∀ i, i < k → (F i).length = n) :
    bitAt (combS n F c k) j = xsum (fun i => c i && bitAt (F i) j) k := by
  induction k with
  | zero => exact bitAt_idStr n j
  | succ k ih =>
    have ih' := ih (fun i hi => hF i (by omega))
    have hl := length_combS n F c k (fun i hi => hF i (by omega))
    simp only [combS, xsum]; split
    · next hc => rw [bitAt_xorS _ _ _ (by rw [hl, hF k (by omega)]), ih', hc]; simp
    · next hc =>
      have hc' : c k = false := by simpa using hc
      rw [ih', hc']; simp

/-- pairing a selected product with a string that anticommutes with exactly one factor reads off the
    coefficient of that factor -/
theorem acq_combS (n : Nat) (F : Nat → PStr) (c : Nat → Bool) (k t : Nat) (x : PStr)
    (hF : ∀ i, i < k → (F i).length = n)
    (hx : ∀ i, i < k → acq (F i) x = if i = t then 1 else 0) :
    acq (combS n F c k) x = if t < k ∧ c t = true then 1 else 0 := by
  induction k with
  | zero => rw [if_neg (by omega)]; exact acq_idStr_left x n
  | succ k ih =>
    have ih' := ih (fun i hi => hF i (by omega)) (fun i hi => hx i (by omega))
    have hl := length_combS n F c k (fun i hi => hF i (by omega))
    have hk := hx k (by omega)
    simp only [combS]
    by_cases hc : c k = true
    · rw [if_pos hc, acq_xorS_left _ _ _ (by rw [hl, hF k (by omega)]), ih', hk]
      by_cases e : k = t
      · subst e
        rw [if_neg (by omega), if_pos rfl, if_pos ⟨by omega, hc⟩]; rfl
      · rw [if_neg e]
        by_cases e2 : t < k ∧ c t = true
        · rw [if_pos e2, if_pos ⟨by omega, e2.2⟩]; rfl
        · rw [if_neg e2, if_neg (fun hh => e2 ⟨by omega, hh.2⟩)]; rfl
    · rw [if_neg hc, ih']
      by_cases e2 : t < k ∧ c t = true
      · rw [if_pos e2, if_pos ⟨by omega, e2.2⟩]
      · rw [if_neg e2, if_neg]
        intro ⟨h1, h2⟩
        by_cases e : t = k
        · subst e; exact hc h2
        · exact e2 ⟨by omega, h2⟩

/-- **symplectic nondegeneracy**: a string that commutes with all `2n` rows of a tableau with the Gram
    pattern is the identity string -/
theorem gram_nondegenerate (n : Nat) (f : Nat → PStr) (h : GramF n f) (w : PStr) (hw : w.length = n)
    (hz : ∀ i, i < 2 * n → acq (f i) w = 0) : w = idStr n := by
  apply Classical.byContradiction
  intro hne
  obtain ⟨u, hu1, hu2⟩ := exists_anti_of_ne_idStr w (by rw [hw]; exact hne)
  let F : Nat → PStr := fun i => if i < 2 * n then f i else u
  have hFl : ∀ i, (F i).length = n := by
    intro i; simp only [F]; split
    · next hi => exact h.1 i hi
    · rw [hu1, hw]
  have hFlt : ∀ i, i < 2 * n → F i = f i := fun i hi => by simp only [F]; rw [if_pos hi]
  have hFu : F (2 * n) = u := by simp only [F]; rw [if_neg (by omega)]
  obtain ⟨c, ⟨i0, hi0, hc0⟩, hc⟩ := exists_dependency (2 * n) (fun i j => bitAt (F i) j)
  have hS : combS n F c (2 * n + 1) = idStr n := by
    apply eq_idStr_of_bitAt _ n (length_combS n F c _ (fun i _ => hFl i))
    intro j hj
    rw [bitAt_combS n F c _ j (fun i _ => hFl i)]
    exact hc j hj
  -- the coefficient of `u` vanishes
  have hcu : c (2 * n) = false := by
    have h1 := acq_combS n F c (2 * n + 1) (2 * n) w (fun i _ => hFl i) (fun i hi => by
      by_cases e : i = 2 * n
      · rw [e, hFu, hu2, if_pos rfl]
      · rw [if_neg e, hFlt i (by omega)]; exact hz i (by omega))
    rw [hS, acq_idStr_left] at h1
    cases hcc : c (2 * n) with
    | false => rfl
    | true => rw [if_pos ⟨by omega, hcc⟩] at h1; exact absurd h1 (by omega)
  have hS' : combS n F c (2 * n) = idStr n := by
    have : combS n F c (2 * n + 1) = combS n F c (2 * n) := by
      simp only [combS]; rw [hcu]; simp
    rw [← this]; exact hS
  -- so do the coefficients of the rows
  have hct : ∀ t, t < 2 * n → c t = false := by
    intro t ht
    have hpt := partner_lt n t ht
    have h1 := acq_combS n F c (2 * n) t (f (partner n t)) (fun i _ => hFl i) (fun i hi => by
      rw [hFlt i hi, h.2 i _ hi hpt]
      by_cases e : i = t
      · rw [if_pos e, e]; exact J_partner n t ht
      · rw [if_neg e]
        apply J_of_ne_partner n i _ hi hpt
        intro e2
        exact e (partner_inj n t i ht hi e2).symm)
    rw [hS', acq_idStr_left] at h1
    cases hcc : c t with
    | false => rfl
    | true => rw [if_pos ⟨ht, hcc⟩] at h1; exact absurd h1 (by omega)
  by_cases e : i0 = 2 * n
  · rw [e, hcu] at hc0; exact absurd hc0 (by simp)
  · rw [hct i0 (by omega)] at hc0; exact absurd hc0 (by simp)

end Nondegeneracy

/-! ## §9 the deterministic branch: the accumulated product is the observable -/

theorem scanAcc_cons (T0 : List Pauli) (obs : PStr) (N j : Nat) (row : Pauli) (rest : List Pauli) (acc : Pauli) :
    scanAcc T0 obs N j (row :: rest) acc =
      scanAcc T0 obs N (j + 1) rest (if anti row.g obs then mul acc (rowAt T0 (j - N)) else acc) := rfl

/-- the string accumulated by the scan, paired with the rows: when no row below `n + r` anticommutes with the
    observable, the accumulated product of stabilizers anticommutes with exactly the rows the observable
    anticommutes with -/
theorem scanAcc_acq (T0 : List Pauli) (obs : PStr) (n r : Nat) (hl : T0.length = 2 * n)
    (hg : GramF n (gAt T0)) (hclean : ∀ i, i < n + r → anti (gAt T0 i) obs = false) :
    ∀ (rows : List Pauli) (j : Nat) (acc : Pauli), j + rows.length = 2 * n →
      (∀ k, k < rows.length → rowAt rows k = rowAt T0 (j + k)) → acc.g.length = n →
      (∀ i, i < 2 * n → acq (gAt T0 i) acc.g = if i < j ∧ anti (gAt T0 i) obs = true then 1 else 0) →
      (scanAcc T0 obs n j rows acc).g.length = n ∧
      ∀ i, i < 2 * n → acq (gAt T0 i) (scanAcc T0 obs n j rows acc).g
        = if anti (gAt T0 i) obs = true then 1 else 0 := by
  intro rows
  induction rows with
  | nil =>
    intro j acc hj _ hal hacc
    refine ⟨hal, fun i hi => ?_⟩
    simp only [List.length_nil] at hj
    rw [show scanAcc T0 obs n j [] acc = acc from rfl, hacc i hi]
    by_cases ha : anti (gAt T0 i) obs = true
    · rw [if_pos ⟨by omega, ha⟩, if_pos ha]
    · rw [if_neg (fun hh => ha hh.2), if_neg ha]
  | cons row rest ih =>
    intro j acc hj hrows hal hacc
    simp only [List.length_cons] at hj
    have hrow : row = rowAt T0 j := by
      have := hrows 0 (by simp)
      rwa [rowAt_cons_zero, Nat.add_zero] at this
    have hrest : ∀ k, k < rest.length → rowAt rest k = rowAt T0 (j + 1 + k) := by
      intro k hk
      have := hrows (k + 1) (by simp; omega)
      rw [rowAt_cons_succ] at this
      rw [this]; congr 1; omega
    rw [scanAcc_cons]
    by_cases ha : anti row.g obs = true
    · rw [if_pos ha]
      have haj : anti (gAt T0 j) obs = true := by rw [hrow] at ha; exact ha
      have hjn : n + r ≤ j := by
        apply Classical.byContradiction
        intro hlt
        rw [hclean j (by omega)] at haj; exact absurd haj (by simp)
      have hsl : (gAt T0 (j - n)).length = n := hg.1 _ (by omega)
      apply ih (j + 1) _ (by omega) hrest
      · rw [mul_g, length_xorS_eq _ _ (by rw [hal]; exact hsl.symm)]; exact hal
      · intro i hi
        rw [mul_g, acq_xorS_right _ _ _ (by rw [hal]; exact hsl.symm), hacc i hi]
        have hJ : acq (gAt T0 i) (rowAt T0 (j - n)).g = if i = j then 1 else 0 := by
          have := hg.2 i (j - n) hi (by omega)
          unfold gAt at this ⊢
          rw [this]; unfold J; split <;> split <;> omega
        rw [hJ]
        by_cases e : i = j
        · subst e
          rw [if_neg (by omega), if_pos rfl, if_pos ⟨by omega, haj⟩]; rfl
        · rw [if_neg e]
          by_cases e2 : i < j ∧ anti (gAt T0 i) obs = true
          · rw [if_pos e2, if_pos ⟨by omega, e2.2⟩]; rfl
          · rw [if_neg e2, if_neg (fun hh => e2 ⟨by omega, hh.2⟩)]; rfl
    · rw [if_neg ha]
      have haj : ¬ anti (gAt T0 j) obs = true := by rw [hrow] at ha; exact ha
      apply ih (j + 1) acc (by omega) hrest hal
      intro i hi
      rw [hacc i hi]
      by_cases e2 : i < j ∧ anti (gAt T0 i) obs = true
      · rw [if_pos e2, if_pos ⟨by omega, e2.2⟩]
      · rw [if_neg e2, if_neg]
        intro ⟨h1, h2⟩
        by_cases e : i = j
        · subst e; exact haj h2
        · exact e2 ⟨by omega, h2⟩

/-- **the assertion of the deterministic branch holds**: under the invariant, if no row below `n + r`
    anticommutes with the observable, the accumulated stabilizer product has the string of the observable -/
theorem scanAcc_g_eq_obs (st : State) (n : Nat) (obs : PStr) (h : TabInv st n) (ho : obs.length = n)
    (hclean : ∀ i, i < n + st.r → anti (gAt st.rows i) obs = false) :
    (scanAcc st.rows obs n 0 st.rows ⟨idStr n, 0⟩).g = obs := by
  obtain ⟨hl, _, hg, _⟩ := (tabInv_iff st n).1 h
  obtain ⟨h1, h2⟩ := scanAcc_acq st.rows obs n st.r hl hg hclean st.rows 0 ⟨idStr n, 0⟩ (by omega)
    (fun k _ => by rw [Nat.zero_add]) (length_idStr n)
    (fun i _ => by rw [acq_idStr_right, if_neg (by omega)])
  have hz : xorS (scanAcc st.rows obs n 0 st.rows ⟨idStr n, 0⟩).g obs = idStr n := by
    apply gram_nondegenerate n (gAt st.rows) hg _ (by rw [length_xorS_eq _ _ (by rw [h1, ho])]; exact h1)
    intro i hi
    rw [acq_xorS_right _ _ _ (by rw [h1, ho]), h2 i hi]
    by_cases ha : anti (gAt st.rows i) obs = true
    · rw [if_pos ha, (anti_iff _ _).1 ha]; rfl
    · rw [if_neg ha, (anti_eq_false_iff _ _).1 (by simpa using ha)]; rfl
  have := xorS_cancel_right (scanAcc st.rows obs n 0 st.rows ⟨idStr n, 0⟩).g obs (by rw [h1, ho])
  have e : xorS (idStr n) obs = obs := by rw [← ho]; exact xorS_idStr_left obs
  rw [hz, e] at this
  exact this.symm

/-- under the invariant, measuring never trips the internal assertion -/
theorem measure1_total (st : State) (n : Nat) (obs : Pauli) (coin : Bool)
    (h : TabInv st n) (ho : obs.g.length = n) :
    ∃ res, measure1 st obs coin = .ok res := by
  have hN := h.N_eq
  rcases measure1_cases st obs coin with ⟨p, _, he⟩ | ⟨hc, he⟩
  · exact ⟨_, he⟩
  · rw [hN] at hc he
    rw [he, if_pos (scanAcc_g_eq_obs st n obs.g h ho hc)]
    exact ⟨_, rfl⟩

end PC
