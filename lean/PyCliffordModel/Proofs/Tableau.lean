import PyCliffordModel.Proofs.Rotate
import PyCliffordModel.Spec.Tableau
/-! # Proofs/Tableau — helper lemmas for C05 (Gram pattern under the measurement pivot update and swaps) -/
namespace PC

end PC
