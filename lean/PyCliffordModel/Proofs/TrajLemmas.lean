import PyCliffordModel.Proofs.MeasureLemmas
import PyCliffordModel.Proofs.CircuitLemmas
import PyCliffordModel.Properties.C05
/-! # Proofs/TrajLemmas — helper lemmas for C14 (measurement layers, post-selection, trajectories) -/
namespace PC
namespace Tj

/-- the `Z_q` observables of a measurement layer are Hermitian strings of the right length -/
theorem measObs_ok (N : Nat) (qs : List Nat) : ∀ o ∈ measObs N qs, o.g.length = N ∧ o.p % 2 = 0 := by
  intro o ho
  unfold measObs at ho
  obtain ⟨q, _, rfl⟩ := List.mem_map.1 ho
  exact ⟨length_unitZ N q, rfl⟩

theorem length_measObs (N : Nat) (qs : List Nat) : (measObs N qs).length = qs.length := by
  simp [measObs]

theorem isMeas_append (L : Layer) (g : Gate) : (L.append g).isMeas = L.isMeas := by
  cases L <;> rfl

/-- **`takeRev` never crosses a measurement layer**: with the current layer `L` and the layers `A` between it and the
    measurement layer `M` all gate layers, `takeRev` only rewrites `L :: A` (into a non-empty list of gate layers) -/
theorem takeRev_meas (g : Gate) (M : Layer) (B : List Layer) (hM : M.isMeas = true) :
    ∀ (A : List Layer) (L : Layer), L.isMeas = false → (∀ X ∈ A, X.isMeas = false) →
      ∃ A', takeRev (L :: (A ++ M :: B)) g = A' ++ M :: B ∧ A'.length = A.length + 1 ∧
        (∀ X ∈ A', X.isMeas = false) := by
  intro A
  induction A with
  | nil =>
    intro L hL _
    refine ⟨[L.append g], ?_, rfl, ?_⟩
    · simp only [List.nil_append, takeRev, hM, if_true, List.cons_append]
    · intro X hX
      rw [List.mem_singleton] at hX
      rw [hX, isMeas_append]; exact hL
  | cons P A ih =>
    intro L hL hA
    have hP : P.isMeas = false := hA P (by simp)
    have hA' : ∀ X ∈ A, X.isMeas = false := fun X hX => hA X (by simp [hX])
    by_cases hi : P.indep g = true
    · obtain ⟨A', e, hl, hm⟩ := ih P hP hA'
      refine ⟨L :: A', ?_, by simp [hl], ?_⟩
      · simp only [List.cons_append, takeRev, hP, hi, if_true, Bool.false_eq_true, if_false]
        rw [e]
      · intro X hX
        rcases List.mem_cons.1 hX with rfl | hX
        · exact hL
        · exact hm X hX
    · refine ⟨L.append g :: P :: A, ?_, by simp, ?_⟩
      · simp only [List.cons_append, takeRev, hP, hi, Bool.false_eq_true, if_false]
      · intro X hX
        rcases List.mem_cons.1 hX with rfl | hX
        · rw [isMeas_append]; exact hL
        · exact hA X hX

end Tj
end PC
