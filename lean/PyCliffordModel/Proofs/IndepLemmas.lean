import PyCliffordModel.Proofs.GroupLemmas
import PyCliffordModel.Properties.C12b
/-! # Proofs/IndepLemmas — helper lemmas for C12c: `stabilizer_state` on independent / dependent commuting lists, GHZ

Layout:
* §1 the string part of `combine` is the xor of the selected strings (`xorSel`, `combineAux_g`), accumulator and
  prefix lemmas, independence of a list of strings (`IndepStr`);
* §2 one projection step, with the span of the active strings (`project1_step_span`), the active strings of a state
  described by `Gr.ActiveIs` (`active_strings`);
* §3 the projection fold on an independent list lowers the rank at every step (`project_indep`); a fold that lowers the
  rank at every step had an independent list (`indep_of_full_drop`);
* §4 the two verdicts of `stabilizer_state` (`stabilizerState_independent`, `stabilizerState_dependent`);
* §5 triangular witnesses give independence (`tri_indep`); the GHZ generators.
-/
namespace PC
namespace In
open Ms Gr

/-! ## §1 strings of combinations -/

/-- xor of the strings selected by `c`, starting from `acc` -/
def xorSel : List Bool → List PStr → PStr → PStr
  | c :: cs, g :: gs, acc => xorSel cs gs (if c then xorS acc g else acc)
  | _, _, acc => acc

theorem xorSel_nil_left (gs : List PStr) (acc : PStr) : xorSel [] gs acc = acc := by simp [xorSel]
theorem xorSel_nil_right (c : List Bool) (acc : PStr) : xorSel c [] acc = acc := by cases c <;> simp [xorSel]
theorem xorSel_cons (c : Bool) (cs : List Bool) (g : PStr) (gs : List PStr) (acc : PStr) :
    xorSel (c :: cs) (g :: gs) acc = xorSel cs gs (if c then xorS acc g else acc) := rfl

/-- **the string of a combination only depends on the strings of the rows** -/
theorem combineAux_g : ∀ (rows : List Pauli) (c : List Bool) (acc : Pauli),
    (combineAux c rows acc).g = xorSel c (rows.map (·.g)) acc.g := by
  intro rows
  induction rows with
  | nil => intro c acc; rw [Tr.combineAux_nil_right]; simp [xorSel_nil_right]
  | cons R rs ih =>
    intro c acc
    cases c with
    | nil => rw [Tr.combineAux_nil_left, xorSel_nil_left]
    | cons b cs =>
      rw [Tr.combineAux_cons, List.map_cons, xorSel_cons, ih]
      cases b <;> simp [mul_g]

theorem combine_g (n : Nat) (c : List Bool) (rows : List Pauli) :
    (combine n c rows).g = xorSel c (rows.map (·.g)) (idStr n) := by
  unfold combine; rw [combineAux_g]

theorem length_xorSel (n : Nat) : ∀ (gs : List PStr) (c : List Bool) (acc : PStr), (∀ g ∈ gs, g.length = n) →
    acc.length = n → (xorSel c gs acc).length = n := by
  intro gs
  induction gs with
  | nil => intro c acc _ ha; rw [xorSel_nil_right]; exact ha
  | cons g gs ih =>
    intro c acc hl ha
    cases c with
    | nil => rw [xorSel_nil_left]; exact ha
    | cons b cs =>
      rw [xorSel_cons]
      apply ih cs _ (fun g' h' => hl g' (by simp [h']))
      cases b
      · simpa using ha
      · rw [if_pos rfl, length_xorS_eq _ _ (ha.trans (hl g (by simp)).symm)]; exact ha

/-- the accumulator can be pulled out -/
theorem xorSel_acc (n : Nat) : ∀ (gs : List PStr) (c : List Bool) (acc : PStr), (∀ g ∈ gs, g.length = n) →
    acc.length = n → xorSel c gs acc = xorS acc (xorSel c gs (idStr n)) := by
  intro gs
  induction gs with
  | nil =>
    intro c acc _ ha
    rw [xorSel_nil_right, xorSel_nil_right, ← ha, xorS_idStr_right]
  | cons g gs ih =>
    intro c acc hl ha
    cases c with
    | nil => rw [xorSel_nil_left, xorSel_nil_left, ← ha, xorS_idStr_right]
    | cons b cs =>
      have hg : g.length = n := hl g (by simp)
      have hgs : ∀ g' ∈ gs, g'.length = n := fun g' h' => hl g' (by simp [h'])
      rw [xorSel_cons, xorSel_cons]
      cases b
      · simp only [Bool.false_eq_true, if_false]
        exact ih cs acc hgs ha
      · simp only [if_true]
        rw [ih cs (xorS acc g) hgs (by rw [length_xorS_eq _ _ (ha.trans hg.symm)]; exact ha),
          ih cs (xorS (idStr n) g) hgs (by rw [length_xorS_eq' _ _ (by rw [length_idStr]; exact hg.symm)]; exact hg)]
        have e : xorS (idStr n) g = g := by rw [← hg]; exact xorS_idStr_left g
        rw [e, xorS_assoc]

/-- a prefix of unselected strings is skipped -/
theorem xorSel_false_prefix : ∀ (A : List PStr) (d : List Bool) (B : List PStr) (acc : PStr),
    xorSel (List.replicate A.length false ++ d) (A ++ B) acc = xorSel d B acc := by
  intro A
  induction A with
  | nil => intro d B acc; simp
  | cons a A ih =>
    intro d B acc
    simp only [List.length_cons, List.replicate_succ, List.cons_append, xorSel_cons, Bool.false_eq_true, if_false]
    exact ih d B acc

theorem xorSel_replicate_false (k : Nat) : ∀ (gs : List PStr) (acc : PStr),
    xorSel (List.replicate k false) gs acc = acc := by
  induction k with
  | zero => intro gs acc; exact xorSel_nil_left gs acc
  | succ k ih =>
    intro gs acc
    cases gs with
    | nil => exact xorSel_nil_right _ acc
    | cons g gs => rw [List.replicate_succ, xorSel_cons]; exact ih gs acc

/-- independence of a list of strings over GF(2) -/
def IndepStr (n : Nat) (gs : List PStr) : Prop :=
  ∀ c : List Bool, c.length = gs.length → xorSel c gs (idStr n) = idStr n → ∀ b ∈ c, b = false

/-- independence of a list of operators, on the strings (the body of `IndepStabs`) -/
def IndepP (n : Nat) (stabs : List Pauli) : Prop :=
  ∀ c : List Bool, c.length = stabs.length → (combine n c stabs).g = idStr n → ∀ b ∈ c, b = false

theorem indepP_iff (n : Nat) (stabs : List Pauli) : IndepP n stabs ↔ IndepStr n (stabs.map (·.g)) := by
  unfold IndepP IndepStr
  constructor
  · intro h c hc he
    exact h c (by simpa using hc) (by rw [combine_g]; exact he)
  · intro h c hc he
    exact h c (by simpa using hc) (by rw [← combine_g]; exact he)

/-- in an independent list no string is in the span of the strings after it -/
theorem not_span_of_indep (n : Nat) (B : List PStr) (o : PStr) (A : List PStr) (hA : ∀ g ∈ A, g.length = n)
    (ho : o.length = n) (hi : IndepStr n (B ++ o :: A)) (c : List Bool) (hc : c.length = A.length)
    (he : xorSel c A (idStr n) = o) : False := by
  have := hi (List.replicate B.length false ++ true :: c) (by simp [hc]) (by
    rw [xorSel_false_prefix, xorSel_cons, if_pos rfl]
    have e : xorS (idStr n) o = o := by rw [← ho]; exact xorS_idStr_left o
    rw [e, xorSel_acc n A c o hA ho, he, xorS_self, ho]) true (by simp)
  exact absurd this (by simp)

/-! ## §2 one projection step -/

/-- **one projection step with a string that commutes with all active strings**: either nothing changes and the string
    is (up to sign) a stabilizer, or the rank drops by one, the new string lands in the new first active slot and the
    other active strings stay in their slots -/
theorem project1_step_span (st : State) (n : Nat) (obs : PStr) (h : TabInv st n) (ho : obs.length = n)
    (hcomm : ∀ k, st.r ≤ k → k < n → anti (gAt st.rows k) obs = false) :
    (project1 st obs = st ∧ ∃ P : Pauli, InGroup st P ∧ P.g = obs) ∨
    ((project1 st obs).r + 1 = st.r ∧ gAt (project1 st obs).rows (project1 st obs).r = obs ∧
      ∀ k, st.r ≤ k → k < n → gAt (project1 st obs).rows k = gAt st.rows k) := by
  have hN := h.N_eq
  rcases project1_cases st obs with ⟨p, hp, ha, _, he⟩ | ⟨hclean, he⟩
  · right
    rcases project1_step st n obs h ho hcomm with e | e
    · -- impossible: a pivot outside the active block lowers the rank
      exfalso
      rw [hN] at hp he
      have hc : ¬ (st.r ≤ p ∧ p < n) := by
        intro hc
        rw [hcomm p hc.1 hc.2] at ha
        exact absurd ha (by simp)
      have hr1 : 1 ≤ st.r := by
        apply Classical.byContradiction
        intro hn
        exact hc ⟨by omega, by omega⟩
      have hrank : installRank n st.r p = st.r - 1 := by unfold installRank; rw [if_neg hc]
      have : (project1 st obs).r = st.r - 1 := by rw [he]; exact hrank
      rw [e] at this
      omega
    · exact e
  · left
    rw [hN] at hclean
    exact ⟨he, inGroup_of_comm_low st n obs h ho hclean⟩

/-- the strings of the active rows of a state described by `ActiveIs` -/
theorem active_strings (st : State) (n : Nat) (A : List PStr) (h : TabInv st n) (hA : ActiveIs st n A) :
    st.active.map (·.g) = A := by
  have hlen := St.length_active st n h
  have hr := hA.1
  apply List.ext_getElem
  · rw [List.length_map, hlen]; omega
  · intro i h1 h2
    rw [List.length_map, hlen] at h1
    have := hA.2 i h2
    rw [List.getElem_map]
    have e1 : st.active[i]'(by rw [hlen]; exact h1) = rowAt st.active i := by
      rw [Tr.rowAt_of_lt st.active i (by rw [hlen]; exact h1)]
    rw [e1, St.rowAt_active st n h i h1]
    unfold gAt at this
    rw [this]
    simp [List.getD_eq_getElem?_getD, List.getElem?_eq_getElem h2]

/-- a stabilizer string is a combination of the active strings -/
theorem span_of_inGroup (st : State) (n : Nat) (A : List PStr) (h : TabInv st n) (hA : ActiveIs st n A) (P : Pauli)
    (hP : InGroup st P) : ∃ c : List Bool, c.length = A.length ∧ xorSel c A (idStr n) = P.g := by
  obtain ⟨c, hc, he⟩ := hP
  refine ⟨c, ?_, ?_⟩
  · rw [hc, St.length_active st n h]; have := hA.1; omega
  · rw [← he.1, combine_g, active_strings st n A h hA, h.N_eq]

/-! ## §3 the projection fold -/

/-- **the projection fold on an independent list lowers the rank at every step** -/
theorem project_indep (n : Nat) (l : List PStr) : ∀ (st : State) (A : List PStr), TabInv st n → AllHerm st.rows →
    ActiveIs st n A → (∀ a ∈ l ++ A, a.length = n) → (∀ a ∈ l ++ A, ∀ b ∈ l ++ A, acq a b = 0) →
    IndepStr n (l.reverse ++ A) → (project st l).r + l.length = st.r := by
  induction l with
  | nil => intro st A _ _ _ _ _ _; simp [project]
  | cons o os ih =>
    intro st A h hh hA hlen hcm hi
    have hproj : project st (o :: os) = project (project1 st o) os := by simp [project]
    have hol : o.length = n := hlen o (by simp)
    have hAl : ∀ g ∈ A, g.length = n := fun g hg => hlen g (by simp [hg])
    obtain ⟨t1, t2⟩ := C05_project1_inv st n o h hh hol
    have hcomm : ∀ k, st.r ≤ k → k < n → anti (gAt st.rows k) o = false := by
      intro k hk1 hk2
      have hi : k - st.r < A.length := by have := hA.1; omega
      have := hA.2 (k - st.r) hi
      rw [show st.r + (k - st.r) = k by omega] at this
      rw [this, anti_eq_false_iff]
      have hmem : A.getD (k - st.r) [] ∈ A := by
        rw [List.getD_eq_getElem?_getD, List.getElem?_eq_getElem hi]
        exact List.getElem_mem hi
      exact hcm _ (List.mem_append.2 (Or.inr hmem)) o (by simp)
    have hi' : IndepStr n (os.reverse ++ o :: A) := by
      simpa [List.reverse_cons, List.append_assoc] using hi
    rw [hproj]
    rcases project1_step_span st n o h hol hcomm with ⟨_, P, hP, hPg⟩ | ⟨e1, e2, e3⟩
    · exfalso
      obtain ⟨c, hc, he⟩ := span_of_inGroup st n A h hA P hP
      exact not_span_of_indep n os.reverse o A hAl hol hi' c hc (he.trans hPg)
    · have hA1 : ActiveIs (project1 st o) n (o :: A) := by
        refine ⟨by have := hA.1; simp only [List.length_cons]; omega, fun i hi => ?_⟩
        cases i with
        | zero => simpa using e2
        | succ i =>
          simp only [List.length_cons] at hi
          have hi' : i < A.length := by omega
          have := hA.1
          rw [show (project1 st o).r + (i + 1) = st.r + i by omega, e3 _ (by omega) (by omega), hA.2 i hi']
          simp
      have hsub2 : ∀ a, a ∈ os ++ o :: A → a ∈ o :: os ++ A := by
        intro a ha
        rcases List.mem_append.1 ha with ha | ha
        · simp [ha]
        · rcases List.mem_cons.1 ha with ha | ha
          · simp [ha]
          · simp [ha]
      have := ih (project1 st o) (o :: A) t1 t2 hA1 (fun a ha => hlen a (hsub2 a ha))
        (fun a ha b hb => hcm a (hsub2 a ha) b (hsub2 b hb)) hi'
      simp only [List.length_cons]
      omega

/-- under the invariant the active strings are independent -/
theorem indep_active (st : State) (n : Nat) (A : List PStr) (h : TabInv st n) (hA : ActiveIs st n A) :
    IndepStr n A := by
  intro c hc he
  have hlen : c.length = n - st.r := by have := hA.1; omega
  have h0 := St.combine_all_false st.N (n - st.r) st.active
  have hc0 : c = List.replicate (n - st.r) false := by
    apply St.combine_injective st n h c _ hlen (by simp)
    rw [h0, combine_g, active_strings st n A h hA, h.N_eq]
    exact he
  rw [hc0]
  intro b hb
  exact (List.mem_replicate.1 hb).2

/-! ## §4 the verdicts of `stabilizer_state` -/

/-- the commutation check of `stabilizer_state` passes on pairwise commuting strings -/
theorem acqMat_no_anti (gs : List PStr) (h : ∀ a ∈ gs, ∀ b ∈ gs, acq a b = 0) :
    ((acqMat gs).any fun row => row.any (· != 0)) = false := by
  rw [List.any_eq_false]
  intro row hrow
  unfold acqMat at hrow
  obtain ⟨a, ha, rfl⟩ := List.mem_map.1 hrow
  simp only [Bool.not_eq_true]
  rw [List.any_eq_false]
  intro x hx
  obtain ⟨b, hb, rfl⟩ := List.mem_map.1 hx
  simp [h a ha b hb]

/-- the state after the projections of `stabilizer_state` -/
def projected (N : Nat) (stabs : List Pauli) : State := project (maximallyMixed N) (stabs.map (·.g)).reverse

theorem projected_facts (N : Nat) (stabs : List Pauli) (hl : ∀ s ∈ stabs, s.g.length = N ∧ s.p % 2 = 0)
    (hc : ∀ s ∈ stabs, ∀ t ∈ stabs, acq s.g t.g = 0) :
    TabInv (projected N stabs) N ∧ N ≤ (projected N stabs).r + stabs.length ∧
    ((projected N stabs).r + stabs.length = N → IndepP N stabs) ∧
    (IndepP N stabs → (projected N stabs).r + stabs.length = N) := by
  have hgl : ∀ o ∈ stabs.map (·.g), o.length = N := by
    intro o ho
    obtain ⟨s, hs', rfl⟩ := List.mem_map.1 ho
    exact (hl s hs').1
  have hzero : ∀ a ∈ stabs.map (·.g), ∀ b ∈ stabs.map (·.g), acq a b = 0 := by
    intro a ha b hb
    obtain ⟨s, hs', rfl⟩ := List.mem_map.1 ha
    obtain ⟨t, ht', rfl⟩ := List.mem_map.1 hb
    exact hc s hs' t ht'
  have h0 : TabInv (maximallyMixed N) N := C05_toState_inv (idMap N) N N (C05_idMap_valid N) (Nat.le_refl N)
  have hT := (Rc.project_inv N (stabs.map (·.g)).reverse (maximallyMixed N) h0 (Rc.allHerm_maximallyMixed N)
    (fun o ho => hgl o (by simpa using ho))).1
  have key := Gr.project_activeIs N (stabs.map (·.g)).reverse (maximallyMixed N) [] h0
    (Rc.allHerm_maximallyMixed N) (Gr.activeIs_maximallyMixed N)
    (fun a ha => hgl a (by simpa using ha))
    (fun a ha b hb => hzero a (by simpa using ha) b (by simpa using hb))
  have hrN : (maximallyMixed N).r = N := rfl
  rw [hrN] at key
  simp only [List.length_reverse, List.length_map, List.reverse_reverse, List.append_nil] at key
  refine ⟨hT, key.1, fun hr => ?_, fun hi => ?_⟩
  · rw [indepP_iff]
    exact indep_active _ N _ hT (key.2 hr)
  · have := project_indep N (stabs.map (·.g)).reverse (maximallyMixed N) [] h0
      (Rc.allHerm_maximallyMixed N) (Gr.activeIs_maximallyMixed N)
      (fun a ha => hgl a (by simpa using ha))
      (fun a ha b hb => hzero a (by simpa using ha) b (by simpa using hb))
      (by simpa using (indepP_iff N stabs).1 hi)
    rw [hrN] at this
    unfold projected
    simpa using this

theorem stabilizerState_unfold (N : Nat) (stabs : List Pauli) (hc : ∀ s ∈ stabs, ∀ t ∈ stabs, acq s.g t.g = 0) :
    stabilizerState N stabs =
      let st := projected N stabs
      if stabs.length = N - st.r then
        .ok ⟨st.rows.mapIdx fun i R => if st.r ≤ i && i < N then ⟨R.g, (rowAt stabs (i - st.r)).p⟩ else R, st.r⟩
      else if stabs.length = 1 then
        .ok ⟨st.rows.mapIdx fun i R => if st.r ≤ i && i < N then ⟨R.g, (rowAt stabs 0).p⟩ else R, st.r⟩
      else .error .value := by
  have hzero : ∀ a ∈ stabs.map (·.g), ∀ b ∈ stabs.map (·.g), acq a b = 0 := by
    intro a ha b hb
    obtain ⟨s, hs', rfl⟩ := List.mem_map.1 ha
    obtain ⟨t, ht', rfl⟩ := List.mem_map.1 hb
    exact hc s hs' t ht'
  unfold stabilizerState projected
  simp only [acqMat_no_anti _ hzero, Bool.false_eq_true, if_false]

/-- independent commuting lists are accepted, with rank `N − L` -/
theorem stabilizerState_independent (N : Nat) (stabs : List Pauli) (hl : ∀ s ∈ stabs, s.g.length = N ∧ s.p % 2 = 0)
    (hc : ∀ s ∈ stabs, ∀ t ∈ stabs, acq s.g t.g = 0) (hi : IndepP N stabs) :
    ∃ st, stabilizerState N stabs = .ok st ∧ st.r + stabs.length = N := by
  obtain ⟨_, _, _, f4⟩ := projected_facts N stabs hl hc
  have hr := f4 hi
  rw [stabilizerState_unfold N stabs hc]
  simp only
  rw [if_pos (by omega)]
  exact ⟨_, rfl, hr⟩

/-- dependent commuting lists of two or more are rejected -/
theorem stabilizerState_dependent (N : Nat) (stabs : List Pauli) (hl : ∀ s ∈ stabs, s.g.length = N ∧ s.p % 2 = 0)
    (hc : ∀ s ∈ stabs, ∀ t ∈ stabs, acq s.g t.g = 0) (h2 : 2 ≤ stabs.length) (hd : ¬ IndepP N stabs) :
    stabilizerState N stabs = .error .value := by
  obtain ⟨f1, f2, f3, _⟩ := projected_facts N stabs hl hc
  have hr : (projected N stabs).r + stabs.length ≠ N := fun e => hd (f3 e)
  have hrn := f1.2.1
  rw [stabilizerState_unfold N stabs hc]
  simp only
  rw [if_neg (by omega), if_neg (by omega)]

/-! ## §5 triangular witnesses; GHZ -/

/-- **triangular witnesses give independence**: if string `D k` anticommutes with row `k` and commutes with all later
    rows (and with the start value), a combination that commutes with every `D k` selects no row -/
theorem tri_indep (n : Nat) : ∀ (rows : List Pauli) (D : Nat → PStr) (c : List Bool) (acc : Pauli),
    (∀ R ∈ rows, R.g.length = n) → acc.g.length = n → c.length = rows.length →
    (∀ k, k < rows.length → acq (rowAt rows k).g (D k) = 1) →
    (∀ j k, k < j → j < rows.length → acq (rowAt rows j).g (D k) = 0) →
    (∀ k, k < rows.length → acq acc.g (D k) = 0) →
    (∀ k, k < rows.length → acq (combineAux c rows acc).g (D k) = 0) → ∀ b ∈ c, b = false := by
  intro rows
  induction rows with
  | nil =>
    intro D c acc _ _ hc _ _ _ _ b hb
    have : c = [] := List.eq_nil_of_length_eq_zero (by simpa using hc)
    subst this
    simp at hb
  | cons R rs ih =>
    intro D c acc hl ha hc hd hu h0 hres
    cases c with
    | nil => simp at hc
    | cons b cs =>
      have hR : R.g.length = n := hl R (by simp)
      have hrs : ∀ R' ∈ rs, R'.g.length = n := fun R' h' => hl R' (by simp [h'])
      have hDs : ∀ R' ∈ rs, acq R'.g (D 0) = 0 := by
        intro R' hR'
        obtain ⟨k, hk, rfl⟩ := exists_rowAt_of_mem rs R' hR'
        have := hu (k + 1) 0 (by omega) (by simp only [List.length_cons]; omega)
        rwa [rowAt_cons_succ] at this
      have hacc' : (if b = true then mul acc R else acc).g.length = n := by
        cases b
        · simpa using ha
        · rw [if_pos rfl, length_mul _ _ (ha.trans hR.symm)]; exact ha
      have hb : b = false := by
        have h1 := hres 0 (by simp)
        rw [Tr.combineAux_cons, St.acq_combineAux_commute n (D 0) cs rs _ hrs hacc' hDs] at h1
        cases b
        · rfl
        · rw [if_pos rfl, mul_g, acq_xorS_left _ _ _ (ha.trans hR.symm), h0 0 (by simp)] at h1
          have := hd 0 (by simp)
          rw [rowAt_cons_zero] at this
          rw [this] at h1
          exact absurd h1 (by decide)
      subst hb
      intro b' hb'
      rcases List.mem_cons.1 hb' with e | e
      · exact e
      · refine ih (fun k => D (k + 1)) cs acc hrs ha (by simpa using hc) ?_ ?_ ?_ ?_ b' e
        · intro k hk
          have := hd (k + 1) (by simp only [List.length_cons]; omega)
          rwa [rowAt_cons_succ] at this
        · intro j k hkj hj
          have := hu (j + 1) (k + 1) (by omega) (by simp only [List.length_cons]; omega)
          rwa [rowAt_cons_succ] at this
        · intro k hk
          exact h0 (k + 1) (by simp only [List.length_cons]; omega)
        · intro k hk
          have := hres (k + 1) (by simp only [List.length_cons]; omega)
          rw [Tr.combineAux_cons] at this
          simpa using this

/-- the string of `Z_i Z_{i+1}` and of `X…X`, as written in `ghzStabs` -/
def zz (N i : Nat) : PStr := (List.range N).map fun k => (false, k == i || k == i + 1)
def xx (N : Nat) : PStr := List.replicate N (true, false)

theorem length_zz (N i : Nat) : (zz N i).length = N := by simp [zz]
theorem length_xx (N : Nat) : (xx N).length = N := by simp [xx]

theorem getQ_zz (N i j : Nat) (hj : j < N) : getQ (zz N i) j = (false, j == i || j == i + 1) := by
  unfold getQ zz
  rw [List.getD_eq_getElem?_getD]
  simp [hj]

theorem getQ_xx (N j : Nat) (hj : j < N) : getQ (xx N) j = (true, false) := by
  unfold getQ xx
  rw [List.getD_eq_getElem?_getD]
  simp [hj]

theorem getQ_unitX (n k j : Nat) (hj : j < n) : getQ (unitX n k) j = (j == k, false) := by
  unfold getQ unitX
  rw [List.getD_eq_getElem?_getD]
  simp [hj]

theorem unitX_onsite (n i0 : Nat) : ∀ j, j ≠ i0 → getQ (unitX n i0) j = (false, false) := by
  intro j hj
  by_cases hjn : j < n
  · rw [getQ_unitX _ _ _ hjn]; simp [hj]
  · exact Rn.getQ_of_le _ _ (by rw [Tr.length_unitX]; omega)

theorem ghzStabs_eq (N : Nat) :
    ghzStabs N = ((List.range (N - 1)).map fun i => (⟨zz N i, 0⟩ : Pauli)) ++ [⟨xx N, 0⟩] := rfl

theorem length_ghzStabs (N : Nat) (hN : 1 ≤ N) : (ghzStabs N).length = N := by
  rw [ghzStabs_eq]; simp; omega

theorem rowAt_ghz_lo (N k : Nat) (hk : k < N - 1) : rowAt (ghzStabs N) k = ⟨zz N k, 0⟩ := by
  rw [ghzStabs_eq, rowAt_append, if_pos (by simpa using hk)]
  simp [rowAt, List.getD_eq_getElem?_getD, hk]

theorem rowAt_ghz_hi (N : Nat) : rowAt (ghzStabs N) (N - 1) = ⟨xx N, 0⟩ := by
  rw [ghzStabs_eq, rowAt_append, if_neg (by simp)]
  simp [rowAt]

theorem mem_ghz (N : Nat) (s : Pauli) (hs : s ∈ ghzStabs N) : (∃ i, i < N - 1 ∧ s = ⟨zz N i, 0⟩) ∨ s = ⟨xx N, 0⟩ := by
  rw [ghzStabs_eq] at hs
  rcases List.mem_append.1 hs with h | h
  · obtain ⟨i, hi, rfl⟩ := List.mem_map.1 h
    exact Or.inl ⟨i, by simpa using hi, rfl⟩
  · exact Or.inr (by simpa using h)

theorem acq_zz_unitX (N i k : Nat) (hk : k < N) :
    acq (zz N i) (unitX N k) = if k = i ∨ k = i + 1 then 1 else 0 := by
  unfold acq
  rw [Rn.acqSum_onsite_right _ _ k (unitX_onsite N k), getQ_zz N i k hk, getQ_unitX N k k hk]
  by_cases h1 : k = i
  · subst h1; simp [acqQ, b2i]
  · by_cases h2 : k = i + 1
    · subst h2; simp [acqQ, b2i]
    · simp [acqQ, b2i, h1, h2]

theorem acq_xx_unitX (N k : Nat) (hk : k < N) : acq (xx N) (unitX N k) = 0 := by
  unfold acq
  rw [Rn.acqSum_onsite_right _ _ k (unitX_onsite N k), getQ_xx N k hk, getQ_unitX N k k hk]
  simp [acqQ, b2i]

theorem acq_xx_unitZ (N k : Nat) (hk : k < N) : acq (xx N) (unitZ N k) = 1 := by
  unfold acq
  rw [Rn.acqSum_onsite_right _ _ k (Rn.unitZ_onsite N k), getQ_xx N k hk, Rn.getQ_unitZ N k k hk]
  simp [acqQ, b2i]

theorem acq_unitZ_xx (N k : Nat) (hk : k < N) : acq (unitZ N k) (xx N) = 1 := by
  rw [acq_symm]; exact acq_xx_unitZ N k hk

theorem zz_eq_xorS (N i : Nat) : zz N i = xorS (unitZ N i) (unitZ N (i + 1)) := by
  have hl : (unitZ N i).length = (unitZ N (i + 1)).length := by rw [Tr.length_unitZ, Tr.length_unitZ]
  apply Rn.ext_getQ
  · rw [length_zz, length_xorS_eq _ _ hl, Tr.length_unitZ]
  · intro j hj
    rw [length_zz] at hj
    rw [getQ_zz N i j hj, Rn.getQ_xorS _ _ j hl, Rn.getQ_unitZ N i j hj, Rn.getQ_unitZ N (i + 1) j hj]
    by_cases h1 : j = i
    · subst h1; simp [xorQ]
    · have e1 : (j == i) = false := by simpa using h1
      simp [xorQ, e1]

theorem acq_zz_xx (N i : Nat) (hi : i + 1 < N) : acq (zz N i) (xx N) = 0 := by
  rw [zz_eq_xorS, acq_xorS_left _ _ _ (by rw [Tr.length_unitZ, Tr.length_unitZ]),
    acq_unitZ_xx N i (by omega), acq_unitZ_xx N (i + 1) hi]
  rfl

theorem acqSum_xfree : ∀ (a b : PStr), (∀ q ∈ a, q.1 = false) → (∀ q ∈ b, q.1 = false) → acqSum a b = 0
  | [], b, _, _ => acqSum_nil_left b
  | a, [], _, _ => acqSum_nil_right a
  | x :: xs, y :: ys, ha, hb => by
    rw [acqSum_cons, acqSum_xfree xs ys (fun q h => ha q (by simp [h])) (fun q h => hb q (by simp [h]))]
    have h1 := ha x (by simp)
    have h2 := hb y (by simp)
    simp [acqQ, h1, h2, b2i]

theorem acq_zz_zz (N i j : Nat) : acq (zz N i) (zz N j) = 0 := by
  unfold acq
  rw [acqSum_xfree]
  · rfl
  · intro q hq; unfold zz at hq; obtain ⟨k, _, rfl⟩ := List.mem_map.1 hq; rfl
  · intro q hq; unfold zz at hq; obtain ⟨k, _, rfl⟩ := List.mem_map.1 hq; rfl

/-- the GHZ generators: count, lengths and signs, commutation, independence -/
theorem ghz_ok (N : Nat) (hN : 1 ≤ N) :
    (ghzStabs N).length = N ∧ (∀ s ∈ ghzStabs N, s.g.length = N ∧ s.p % 2 = 0) ∧
    (∀ s ∈ ghzStabs N, ∀ t ∈ ghzStabs N, acq s.g t.g = 0) ∧ IndepP N (ghzStabs N) := by
  have hlen := length_ghzStabs N hN
  have hl : ∀ s ∈ ghzStabs N, s.g.length = N ∧ s.p % 2 = 0 := by
    intro s hs
    rcases mem_ghz N s hs with ⟨i, _, rfl⟩ | rfl
    · exact ⟨length_zz N i, rfl⟩
    · exact ⟨length_xx N, rfl⟩
  refine ⟨hlen, hl, ?_, ?_⟩
  · intro s hs t ht
    rcases mem_ghz N s hs with ⟨i, hi, rfl⟩ | rfl <;> rcases mem_ghz N t ht with ⟨j, hj, rfl⟩ | rfl
    · exact acq_zz_zz N i j
    · exact acq_zz_xx N i (by omega)
    · rw [acq_symm]; exact acq_zz_xx N j (by omega)
    · exact acq_self _
  · intro c hc he
    let D : Nat → PStr := fun k => if k < N - 1 then unitX N k else unitZ N 0
    unfold combine at he
    apply tri_indep N (ghzStabs N) D c ⟨idStr N, 0⟩ (fun R hR => (hl R hR).1) (length_idStr N) hc
    · intro k hk
      rw [hlen] at hk
      by_cases h1 : k < N - 1
      · rw [rowAt_ghz_lo N k h1]
        show acq (zz N k) (if k < N - 1 then unitX N k else unitZ N 0) = 1
        rw [if_pos h1, acq_zz_unitX N k k (by omega), if_pos (Or.inl rfl)]
      · have e : k = N - 1 := by omega
        subst e
        rw [rowAt_ghz_hi N]
        show acq (xx N) (if N - 1 < N - 1 then unitX N (N - 1) else unitZ N 0) = 1
        rw [if_neg (by omega)]
        exact acq_xx_unitZ N 0 (by omega)
    · intro j k hkj hj
      rw [hlen] at hj
      show acq (rowAt (ghzStabs N) j).g (if k < N - 1 then unitX N k else unitZ N 0) = 0
      rw [if_pos (by omega)]
      by_cases h1 : j < N - 1
      · rw [rowAt_ghz_lo N j h1]
        show acq (zz N j) (unitX N k) = 0
        rw [acq_zz_unitX N j k (by omega), if_neg (by omega)]
      · have e : j = N - 1 := by omega
        subst e
        rw [rowAt_ghz_hi N]
        exact acq_xx_unitX N k (by omega)
    · intro k _
      exact acq_idStr_left _ N
    · intro k _
      rw [he]
      exact acq_idStr_left _ N

end In
end PC
