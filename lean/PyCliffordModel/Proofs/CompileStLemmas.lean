import PyCliffordModel.Properties.C16c
import PyCliffordModel.Properties.C09b
/-! helper lemmas for `Properties/C16e.lean` -/
namespace PC
namespace Cs
open Ci Cm

/-! ## the state transformers agree with the functional versions -/

theorem compileGatesSt_spec (N : Nat) : ∀ (gs : List Gate) (F B : CMap),
    match compileGates N gs F B with
    | .ok (gs', F', B') => compileGatesSt N gs F B = (gs', .ok (F', B'))
    | .error e => (compileGatesSt N gs F B).2 = .error e := by
  intro gs
  induction gs with
  | nil => intro F B; simp only [compileGates, compileGatesSt]
  | cons g gs ih =>
    intro F B
    unfold compileGates compileGatesSt
    cases hc : g.compile with
    | error e => rfl
    | ok g' =>
      dsimp only
      cases hm : qMask g.qubits N with
      | error e => rfl
      | ok m =>
        cases hf : g'.fmap with
        | none => rfl
        | some f =>
          cases hb : g'.bmap with
          | none => rfl
          | some b =>
            dsimp only
            have := ih (embed F f m) (embed B b m)
            cases hrec : compileGates N gs (embed F f m) (embed B b m) with
            | error e => rw [hrec] at this; exact this
            | ok r =>
              obtain ⟨gs', F', B'⟩ := r
              rw [hrec] at this
              dsimp only at this ⊢
              rw [this]

theorem layer_compileSt_spec (N : Nat) (L : Layer) :
    match L.compile N with
    | .ok L' => L.compileSt N = (L', .ok ())
    | .error e => (L.compileSt N).2 = .error e := by
  cases L with
  | meas q r k => rfl
  | gates gs f b =>
    have := compileGatesSt_spec N gs (idMap N) (idMap N)
    cases hc : compileGates N gs (idMap N) (idMap N) with
    | error e =>
      rw [hc] at this
      dsimp only at this
      cases hs : compileGatesSt N gs (idMap N) (idMap N) with
      | mk gs' r =>
        rw [hs] at this
        dsimp only at this
        subst this
        simp only [Layer.compile, Layer.compileSt, hc, hs]
    | ok r =>
      obtain ⟨gs', F', B'⟩ := r
      rw [hc] at this
      dsimp only at this
      simp only [Layer.compile, Layer.compileSt, hc, this]

theorem compileLayersSt_spec (N : Nat) : ∀ (Ls : List Layer) (F B : CMap),
    match compileLayers N Ls F B with
    | .ok (Ls', F', B') => compileLayersSt N Ls F B = (Ls', .ok (F', B'))
    | .error e => (compileLayersSt N Ls F B).2 = .error e := by
  intro Ls
  induction Ls with
  | nil => intro F B; simp only [compileLayers, compileLayersSt]
  | cons L Ls ih =>
    intro F B
    have hL := layer_compileSt_spec N L
    unfold compileLayers compileLayersSt
    cases hc : L.compile N with
    | error e =>
      rw [hc] at hL
      dsimp only at hL ⊢
      cases hs : L.compileSt N with
      | mk L' r =>
        rw [hs] at hL
        dsimp only at hL
        subst hL
        rfl
    | ok L' =>
      rw [hc] at hL
      dsimp only at hL ⊢
      rw [hL]
      have sec : match (match compileLayers N Ls F B with
            | .error e => (.error e : Except Err (List Layer × CMap × CMap))
            | .ok (Ls', F', B') => .ok (L' :: Ls', F', B')) with
          | .ok (Ls', F', B') => (L' :: (compileLayersSt N Ls F B).1, (compileLayersSt N Ls F B).2) = (Ls', .ok (F', B'))
          | .error e => (L' :: (compileLayersSt N Ls F B).1, (compileLayersSt N Ls F B).2).2 = .error e := by
        have := ih F B
        cases hrec : compileLayers N Ls F B with
        | error e => rw [hrec] at this; exact this
        | ok r =>
          obtain ⟨Ls', F', B'⟩ := r
          rw [hrec] at this
          dsimp only at this ⊢
          rw [this]
      cases L' with
      | meas q r k => exact sec
      | gates gs' f b =>
        cases f with
        | none => exact sec
        | some f =>
          cases b with
          | none => exact sec
          | some b =>
            dsimp only
            have := ih (compose F f) (compose b B)
            cases hrec : compileLayers N Ls (compose F f) (compose b B) with
            | error e => rw [hrec] at this; exact this
            | ok r =>
              obtain ⟨Ls', F', B'⟩ := r
              rw [hrec] at this
              dsimp only at this ⊢
              rw [this]

theorem circ_compileSt_spec (c : Circ) :
    match c.compile with
    | .ok c' => c.compileSt = (c', .ok ())
    | .error e => c.compileSt.2 = .error e := by
  have h := compileLayersSt_spec c.N c.layers (idMap c.N) (idMap c.N)
  unfold Circ.compile Circ.compileSt
  cases hc : compileLayers c.N c.layers (idMap c.N) (idMap c.N) with
  | error e =>
    rw [hc] at h
    dsimp only at h ⊢
    cases hs : compileLayersSt c.N c.layers (idMap c.N) (idMap c.N) with
    | mk Ls r =>
      rw [hs] at h
      dsimp only at h
      subst h
      dsimp only
      cases c.unitary <;> rfl
  | ok r =>
    obtain ⟨Ls', F', B'⟩ := r
    rw [hc] at h
    dsimp only at h ⊢
    rw [h]
    dsimp only
    cases c.unitary <;> rfl

theorem compileSt_agrees (c : Circ) :
    (∀ c', c.compile = .ok c' ↔ c.compileSt = (c', .ok ())) ∧
    (∀ e, c.compile = .error e ↔ c.compileSt.2 = .error e) := by
  have h := circ_compileSt_spec c
  cases hc : c.compile with
  | error e0 =>
    rw [hc] at h
    dsimp only at h
    refine ⟨fun c' => ⟨fun h1 => (by cases h1), fun h1 => ?_⟩, fun e => ⟨fun h1 => ?_, fun h1 => ?_⟩⟩
    · rw [h1] at h; cases h
    · cases h1; exact h
    · rw [h] at h1; cases h1; rfl
  | ok c0 =>
    rw [hc] at h
    dsimp only at h
    refine ⟨fun c' => ⟨fun h1 => ?_, fun h1 => ?_⟩, fun e => ⟨fun h1 => (by cases h1), fun h1 => ?_⟩⟩
    · cases h1; exact h
    · rw [h] at h1; cases h1; rfl
    · rw [h] at h1; cases h1

/-! ## what a refused `compile()` leaves behind -/

theorem compileGatesSt_length (N : Nat) : ∀ (gs : List Gate) (F B : CMap),
    (compileGatesSt N gs F B).1.length = gs.length := by
  intro gs
  induction gs with
  | nil => intro F B; rfl
  | cons g gs ih =>
    intro F B
    unfold compileGatesSt
    cases g.compile with
    | error e => rfl
    | ok g' =>
      dsimp only
      cases qMask g.qubits N with
      | error e => rfl
      | ok m =>
        cases g'.fmap with
        | none => rfl
        | some f =>
          cases g'.bmap with
          | none => rfl
          | some b =>
            dsimp only
            rw [List.length_cons, ih, List.length_cons]

theorem compileLayersSt_length (N : Nat) : ∀ (Ls : List Layer) (F B : CMap),
    (compileLayersSt N Ls F B).1.length = Ls.length := by
  intro Ls
  induction Ls with
  | nil => intro F B; rfl
  | cons L Ls ih =>
    intro F B
    unfold compileLayersSt
    cases hs : L.compileSt N with
    | mk L' r =>
      cases r with
      | error e => rfl
      | ok u =>
        dsimp only
        split
        · dsimp only; rw [List.length_cons, ih, List.length_cons]
        · dsimp only; rw [List.length_cons, ih, List.length_cons]

/-- the circuit left behind in terms of the layer fold -/
theorem circ_compileSt_fst (c : Circ) :
    c.compileSt.1.N = c.N ∧ c.compileSt.1.unitary = c.unitary ∧ c.compileSt.1.results = c.results ∧
    c.compileSt.1.layers = (compileLayersSt c.N c.layers (idMap c.N) (idMap c.N)).1 ∧
    c.compileSt.2 = (match (compileLayersSt c.N c.layers (idMap c.N) (idMap c.N)).2 with
      | .ok _ => .ok () | .error e => .error e) := by
  unfold Circ.compileSt
  cases hs : compileLayersSt c.N c.layers (idMap c.N) (idMap c.N) with
  | mk Ls r =>
    cases r with
    | error e => dsimp only; cases c.unitary <;> exact ⟨rfl, rfl, rfl, rfl, rfl⟩
    | ok u => dsimp only; cases c.unitary <;> exact ⟨rfl, rfl, rfl, rfl, rfl⟩

theorem circ_compileSt_err (c : Circ) (e : Err) (h : c.compileSt.2 = .error e) :
    (compileLayersSt c.N c.layers (idMap c.N) (idMap c.N)).2 = .error e := by
  rw [(circ_compileSt_fst c).2.2.2.2] at h
  cases hs : (compileLayersSt c.N c.layers (idMap c.N) (idMap c.N)).2 with
  | error e' => rw [hs] at h; dsimp only at h; cases h; rfl
  | ok u => rw [hs] at h; cases h

theorem refused_resets (c : Circ) (e : Err) (h : c.compileSt.2 = .error e) (hu : c.unitary = true) :
    c.compileSt.1.fmap = none ∧ c.compileSt.1.bmap = none ∧ c.compileSt.1.N = c.N ∧ c.compileSt.1.unitary = true ∧
    c.compileSt.1.layers.length = c.layers.length ∧ c.compileSt.1.results = c.results := by
  obtain ⟨h1, h2, h3, h4, _⟩ := circ_compileSt_fst c
  refine ⟨?_, ?_, h1, by rw [h2, hu], by rw [h4, compileLayersSt_length], h3⟩
  all_goals
    have he := circ_compileSt_err c e h
    unfold Circ.compileSt
    cases hs : compileLayersSt c.N c.layers (idMap c.N) (idMap c.N) with
    | mk Ls r =>
      rw [hs] at he
      dsimp only at he
      subst he
      dsimp only
      rw [if_pos hu]

/-! ## compiling twice -/

theorem gate_compile_out (g g' : Gate) (h : g.compile = .ok g') :
    g'.qubits = g.qubits ∧ g'.gen = g.gen ∧ ∃ f b, g'.fmap = some f ∧ g'.bmap = some b := by
  unfold Gate.compile at h
  cases hgen : g.gen with
  | some G =>
    rw [hgen] at h
    cases h
    exact ⟨rfl, rfl, _, _, rfl, rfl⟩
  | none =>
    rw [hgen] at h
    dsimp only at h
    cases hf : g.fmap with
    | none =>
      cases hb : g.bmap with
      | none => rw [hf, hb] at h; cases h
      | some B =>
        rw [hf, hb] at h
        dsimp only at h
        cases hi : inverse B with
        | none => rw [hi] at h; cases h
        | some F =>
          rw [hi] at h
          cases h
          exact ⟨rfl, rfl, F, B, rfl, rfl⟩
    | some F =>
      cases hb : g.bmap with
      | none =>
        rw [hf, hb] at h
        dsimp only at h
        cases hi : inverse F with
        | none => rw [hi] at h; cases h
        | some B =>
          rw [hi] at h
          cases h
          exact ⟨rfl, rfl, F, B, rfl, rfl⟩
      | some B =>
        rw [hf, hb] at h
        cases h
        exact ⟨rfl, hgen, F, B, hf, hb⟩

theorem gate_compile_twice (g g' : Gate) (h : g.compile = .ok g') : ∃ g'', g'.compile = .ok g'' := by
  obtain ⟨_, _, f, b, hf, hb⟩ := gate_compile_out g g' h
  unfold Gate.compile
  cases g'.gen with
  | some G => exact ⟨_, rfl⟩
  | none => rw [hf, hb]; exact ⟨_, rfl⟩

theorem cgs_err (N : Nat) (g : Gate) (gs : List Gate) (F B : CMap) (e : Err) (h : g.compile = .error e) :
    compileGatesSt N (g :: gs) F B = (g :: gs, .error e) := by
  rw [compileGatesSt, h]

theorem cgs_mask (N : Nat) (g g' : Gate) (gs : List Gate) (F B : CMap) (e : Err) (h : g.compile = .ok g')
    (hm : qMask g.qubits N = .error e) : compileGatesSt N (g :: gs) F B = (g' :: gs, .error e) := by
  rw [compileGatesSt, h]; dsimp only; rw [hm]

theorem cgs_ok (N : Nat) (g g' : Gate) (gs : List Gate) (F B f b : CMap) (m : List Bool) (h : g.compile = .ok g')
    (hm : qMask g.qubits N = .ok m) (hf : g'.fmap = some f) (hb : g'.bmap = some b) :
    compileGatesSt N (g :: gs) F B = (g' :: (compileGatesSt N gs (embed F f m) (embed B b m)).1,
      (compileGatesSt N gs (embed F f m) (embed B b m)).2) := by
  rw [compileGatesSt, h]; dsimp only; rw [hm, hf, hb]

theorem compileGatesSt_again (N : Nat) : ∀ (gs : List Gate) (F B : CMap) (e : Err),
    (compileGatesSt N gs F B).2 = .error e →
    ∀ F1 B1, ∃ e', (compileGatesSt N (compileGatesSt N gs F B).1 F1 B1).2 = .error e' := by
  intro gs
  induction gs with
  | nil => intro F B e h; cases h
  | cons g gs ih =>
    intro F B e h F1 B1
    cases hc : g.compile with
    | error e0 =>
      rw [cgs_err N g gs F B e0 hc]
      exact ⟨e0, by rw [cgs_err N g gs F1 B1 e0 hc]⟩
    | ok g' =>
      obtain ⟨hq, _, f, b, hf, hb⟩ := gate_compile_out g g' hc
      obtain ⟨g'', hc2⟩ := gate_compile_twice g g' hc
      obtain ⟨hq2, _, f2, b2, hf2, hb2⟩ := gate_compile_out g' g'' hc2
      cases hm : qMask g.qubits N with
      | error e0 =>
        rw [cgs_mask N g g' gs F B e0 hc hm]
        exact ⟨e0, by rw [cgs_mask N g' g'' gs F1 B1 e0 hc2 (by rw [hq]; exact hm)]⟩
      | ok m =>
        rw [cgs_ok N g g' gs F B f b m hc hm hf hb] at h ⊢
        obtain ⟨e', he'⟩ := ih _ _ e h (embed F1 f2 m) (embed B1 b2 m)
        refine ⟨e', ?_⟩
        rw [cgs_ok N g' g'' _ F1 B1 f2 b2 m hc2 (by rw [hq]; exact hm) hf2 hb2]
        exact he'

theorem layerSt_err (N : Nat) (gs gs' : List Gate) (f b : Option CMap) (e : Err)
    (h : compileGatesSt N gs (idMap N) (idMap N) = (gs', .error e)) :
    (Layer.gates gs f b).compileSt N = (.gates gs' none none, .error e) := by
  simp only [Layer.compileSt, h]

theorem layerSt_ok (N : Nat) (gs gs' : List Gate) (f b : Option CMap) (F B : CMap)
    (h : compileGatesSt N gs (idMap N) (idMap N) = (gs', .ok (F, B))) :
    (Layer.gates gs f b).compileSt N = (.gates gs' (some F) (some B), .ok ()) := by
  simp only [Layer.compileSt, h]

theorem layer_compileSt_again (N : Nat) (L : Layer) (e : Err) (h : (L.compileSt N).2 = .error e) :
    ∃ e', ((L.compileSt N).1.compileSt N).2 = .error e' := by
  cases L with
  | meas q r k => cases h
  | gates gs f b =>
    cases hs : compileGatesSt N gs (idMap N) (idMap N) with
    | mk gs' r =>
      cases r with
      | ok FB => rw [layerSt_ok N gs gs' f b FB.1 FB.2 hs] at h; cases h
      | error e0 =>
        obtain ⟨e', he'⟩ := compileGatesSt_again N gs (idMap N) (idMap N) e0 (by rw [hs]) (idMap N) (idMap N)
        rw [hs] at he'
        dsimp only at he'
        rw [layerSt_err N gs gs' f b e0 hs]
        refine ⟨e', ?_⟩
        cases hs2 : compileGatesSt N gs' (idMap N) (idMap N) with
        | mk gs2 r2 =>
          rw [hs2] at he'
          dsimp only at he'
          subst he'
          rw [layerSt_err N gs' gs2 none none e' hs2]

theorem clsSt_err (N : Nat) (L L' : Layer) (Ls : List Layer) (F B : CMap) (e : Err)
    (h : L.compileSt N = (L', .error e)) : compileLayersSt N (L :: Ls) F B = (L' :: Ls, .error e) := by
  rw [compileLayersSt, h]

theorem clsSt_ok (N : Nat) (L L' : Layer) (Ls : List Layer) (F B : CMap)
    (h : L.compileSt N = (L', .ok ())) : ∃ F' B', compileLayersSt N (L :: Ls) F B =
      (L' :: (compileLayersSt N Ls F' B').1, (compileLayersSt N Ls F' B').2) := by
  rw [compileLayersSt, h]
  dsimp only
  split
  · exact ⟨_, _, rfl⟩
  · exact ⟨_, _, rfl⟩

theorem compileLayersSt_again (N : Nat) : ∀ (Ls : List Layer) (F B : CMap) (e : Err),
    (compileLayersSt N Ls F B).2 = .error e →
    ∀ F1 B1, ∃ e', (compileLayersSt N (compileLayersSt N Ls F B).1 F1 B1).2 = .error e' := by
  intro Ls
  induction Ls with
  | nil => intro F B e h; cases h
  | cons L Ls ih =>
    intro F B e h F1 B1
    have hL := layer_compileSt_again N L
    cases hs : L.compileSt N with
    | mk L' r =>
      rw [hs] at hL
      cases r with
      | error e0 =>
        obtain ⟨e', he'⟩ := hL e0 rfl
        dsimp only at he'
        rw [clsSt_err N L L' Ls F B e0 hs]
        refine ⟨e', ?_⟩
        cases hs2 : L'.compileSt N with
        | mk L2 r2 =>
          rw [hs2] at he'
          dsimp only at he'
          subst he'
          rw [clsSt_err N L' L2 Ls F1 B1 e' hs2]
      | ok u =>
        obtain ⟨F', B', heq⟩ := clsSt_ok N L L' Ls F B hs
        rw [heq] at h ⊢
        dsimp only at h ⊢
        cases hs2 : L'.compileSt N with
        | mk L2 r2 =>
          cases r2 with
          | error e2 => exact ⟨e2, by rw [clsSt_err N L' L2 _ F1 B1 e2 hs2]⟩
          | ok u2 =>
            obtain ⟨F2, B2, heq2⟩ := clsSt_ok N L' L2 (compileLayersSt N Ls F' B').1 F1 B1 hs2
            rw [heq2]
            exact ih F' B' e h F2 B2

theorem refused_again (c : Circ) (e : Err) (h : c.compileSt.2 = .error e) :
    ∃ e', c.compileSt.1.compileSt.2 = .error e' := by
  obtain ⟨h1, _, _, h4, _⟩ := circ_compileSt_fst c
  have he := circ_compileSt_err c e h
  obtain ⟨e', he'⟩ := compileLayersSt_again c.N c.layers _ _ e he (idMap c.N) (idMap c.N)
  refine ⟨e', ?_⟩
  rw [(circ_compileSt_fst c.compileSt.1).2.2.2.2, h1, h4, he']

/-! ## circuits built from programs of deterministic and random gates -/

/-- a gate of a program that may contain random gates (the same proposition as `Gate.OKr` of the property file) -/
def OKr (N : Nat) (g : Gate) : Prop :=
  g.WF N ∨ (g.isRandom ∧ g.qubits ≠ [] ∧ (∀ q ∈ g.qubits, q < N) ∧ g.qubits.Nodup)

theorem okr_qubits (N : Nat) (g : Gate) (h : OKr N g) : g.qubits ≠ [] ∧ ∀ q ∈ g.qubits, q < N := by
  rcases h with h | h
  · exact ⟨h.1, h.2.1⟩
  · exact ⟨h.2.1, h.2.2.1⟩

theorem wf_not_random (N : Nat) (g : Gate) (h : g.WF N) : ¬ g.isRandom := by
  intro hr
  obtain ⟨hgen, hf, _⟩ := hr
  rcases h.2.2.2 with ⟨G, hG, _⟩ | ⟨_, M, hM, _⟩
  · rw [hgen] at hG; cases hG
  · rw [hf] at hM; cases hM

theorem okr_wf (N : Nat) (g : Gate) (h : OKr N g) (hr : ¬ g.isRandom) : g.WF N := by
  rcases h with h | h
  · exact h
  · exact absurd h.1 hr

theorem fold_shape (N : Nat) : ∀ (prog : List Gate) (c0 c : Circ), Rcc.Shape N c0 →
    (∀ g ∈ prog, g.qubits ≠ [] ∧ ∀ q ∈ g.qubits, q < N) → prog.foldlM (fun c g => c.take g) c0 = .ok c →
    Rcc.Shape N c ∧ ∀ h, (h ∈ flatGates c0.layers ∨ h ∈ prog) → h ∈ flatGates c.layers := by
  intro prog
  induction prog with
  | nil =>
    intro c0 c hS _ h
    have : c0 = c := by simpa [List.foldlM, pure, Except.pure] using h
    subst this
    refine ⟨hS, fun h hh => ?_⟩
    rcases hh with hh | hh
    · exact hh
    · cases hh
  | cons g gs ih =>
    intro c0 c hS hq h
    obtain ⟨h0, hlt⟩ := hq g (by simp)
    obtain ⟨c1, ht, hS1, A, B, e0, e1⟩ := Rcc.take_shape N c0 g hS h0 hlt
    rw [List.foldlM_cons, ht] at h
    obtain ⟨hSc, hmem⟩ := ih c1 c hS1 (fun x hx => hq x (by simp [hx])) h
    refine ⟨hSc, fun x hx => ?_⟩
    apply hmem
    rcases hx with hx | hx
    · left
      rw [e0] at hx
      rw [e1]
      rcases List.mem_append.1 hx with h2 | h2
      · exact List.mem_append_left _ h2
      · exact List.mem_append_right _ (List.mem_cons_of_mem _ h2)
    · rcases List.mem_cons.1 hx with rfl | hx
      · left; rw [e1]; simp
      · right; exact hx

/-- everything known about a circuit built from a program of deterministic and random gates -/
theorem build_okr (N : Nat) (prog : List Gate) (c : Circ) (Q : Gate → Prop) (hw : ∀ g ∈ prog, OKr N g)
    (hq : ∀ g ∈ prog, Q g) (hb : buildCirc N prog = .ok c) :
    Rcc.Shape N c ∧ Inv2 (fun g => OKr N g ∧ Q g) c ∧ ∀ g ∈ prog, g ∈ flatGates c.layers := by
  obtain ⟨hS, hm⟩ := fold_shape N prog { N := N } c (Rcc.shape_init N) (fun g hg => okr_qubits N g (hw g hg)) hb
  exact ⟨hS, fold_inv2 _ prog { N := N } c (inv2_init _ N) (fun g hg => ⟨hw g hg, hq g hg⟩) hb,
    fun g hg => hm g (Or.inr hg)⟩

/-! ## a circuit with a random gate is refused -/

theorem random_compile (g : Gate) (h : g.isRandom) : g.compile = .error .value := by
  obtain ⟨h1, h2, h3⟩ := h
  simp only [Gate.compile, h1, h2, h3]

theorem wf_compiles (N : Nat) (g : Gate) (h : g.WF N) : ∃ g', g.compile = .ok g' := by
  rcases h.2.2.2 with ⟨G, hG, _⟩ | ⟨hgen, M, hM, hV⟩
  · exact ⟨_, by simp only [Gate.compile, hG]; rfl⟩
  · obtain ⟨B, hB, _⟩ := Cp.inverse_spec M g.n hV
    cases hb : g.bmap with
    | none => exact ⟨_, by simp only [Gate.compile, hgen, hM, hb, hB]; rfl⟩
    | some B' => exact ⟨_, by simp only [Gate.compile, hgen, hM, hb]; rfl⟩

theorem cg_err (N : Nat) (g : Gate) (gs : List Gate) (F B : CMap) (e : Err) (h : g.compile = .error e) :
    compileGates N (g :: gs) F B = .error e := by
  rw [compileGates, h]

theorem cg_ok (N : Nat) (g g' : Gate) (gs : List Gate) (F B f b : CMap) (m : List Bool) (h : g.compile = .ok g')
    (hm : qMask g.qubits N = .ok m) (hf : g'.fmap = some f) (hb : g'.bmap = some b) :
    compileGates N (g :: gs) F B = (match compileGates N gs (embed F f m) (embed B b m) with
        | .error e => .error e
        | .ok (gs', F', B') => .ok (g' :: gs', F', B')) := by
  rw [compileGates, h]; dsimp only; rw [hm, hf, hb]; rfl

theorem compileGates_wf_ok (N : Nat) : ∀ (gs : List Gate) (F B : CMap), (∀ g ∈ gs, g.WF N) →
    ∃ r, compileGates N gs F B = .ok r := by
  intro gs
  induction gs with
  | nil => intro F B _; exact ⟨_, rfl⟩
  | cons g gs ih =>
    intro F B hw
    have hg := hw g (by simp)
    obtain ⟨g', hc⟩ := wf_compiles N g hg
    obtain ⟨_, _, f, b, hf, hb⟩ := gate_compile_out g g' hc
    rw [cg_ok N g g' gs F B f b _ hc (qMask_eq g.qubits N hg.1 hg.2.1) hf hb]
    obtain ⟨r, hr⟩ := ih (embed F f (maskOf g.qubits N)) (embed B b (maskOf g.qubits N))
      (fun x hx => hw x (by simp [hx]))
    rw [hr]
    exact ⟨_, rfl⟩

theorem compileGates_random (N : Nat) : ∀ (gs : List Gate) (F B : CMap), (∀ g ∈ gs, OKr N g) →
    (∃ g ∈ gs, g.isRandom) → compileGates N gs F B = .error .value := by
  intro gs
  induction gs with
  | nil => intro F B _ h; obtain ⟨g, hg, _⟩ := h; cases hg
  | cons g gs ih =>
    intro F B hw hr
    by_cases hgr : g.isRandom
    · exact cg_err N g gs F B _ (random_compile g hgr)
    · have hg := okr_wf N g (hw g (by simp)) hgr
      obtain ⟨g', hc⟩ := wf_compiles N g hg
      obtain ⟨_, _, f, b, hf, hb⟩ := gate_compile_out g g' hc
      rw [cg_ok N g g' gs F B f b _ hc (qMask_eq g.qubits N hg.1 hg.2.1) hf hb]
      have hr' : ∃ x ∈ gs, x.isRandom := by
        obtain ⟨x, hx, hxr⟩ := hr
        rcases List.mem_cons.1 hx with rfl | hx
        · exact absurd hxr hgr
        · exact ⟨x, hx, hxr⟩
      rw [ih _ _ (fun x hx => hw x (by simp [hx])) hr']

theorem compileLayers_random (N : Nat) : ∀ (Ls : List Layer) (F B : CMap), (∀ L ∈ Ls, Rcc.RL L) →
    (∀ g ∈ flatGates Ls, OKr N g) → (∃ g ∈ flatGates Ls, g.isRandom) → compileLayers N Ls F B = .error .value := by
  intro Ls
  induction Ls with
  | nil => intro F B _ _ h; obtain ⟨g, hg, _⟩ := h; simp [flatGates] at hg
  | cons L Ls ih =>
    intro F B hp hw hr
    obtain ⟨gs, rfl⟩ := hp L (by simp)
    have hwg : ∀ g ∈ gs, OKr N g := fun g hg => hw g (by rw [flatGates_cons]; simp [layerGates, hg])
    have hwl : ∀ g ∈ flatGates Ls, OKr N g := fun g hg => hw g (by rw [flatGates_cons]; simp [hg])
    by_cases hgr : ∃ g ∈ gs, g.isRandom
    · rw [compileLayers]
      simp only [Layer.compile, compileGates_random N gs _ _ hwg hgr]
    · have hwf : ∀ g ∈ gs, g.WF N := fun g hg => okr_wf N g (hwg g hg) (fun h => hgr ⟨g, hg, h⟩)
      obtain ⟨⟨gs', f, b⟩, hc⟩ := compileGates_wf_ok N gs (idMap N) (idMap N) hwf
      have hr' : ∃ x ∈ flatGates Ls, x.isRandom := by
        obtain ⟨x, hx, hxr⟩ := hr
        rw [flatGates_cons] at hx
        rcases List.mem_append.1 hx with hx | hx
        · exact absurd ⟨x, hx, hxr⟩ hgr
        · exact ⟨x, hx, hxr⟩
      rw [compileLayers]
      simp only [Layer.compile, hc]
      rw [ih _ _ (fun X hX => hp X (by simp [hX])) hwl hr']

theorem random_gate_refused (N : Nat) (prog : List Gate) (c : Circ)
    (hw : ∀ g ∈ prog, OKr N g) (hr : ∃ g ∈ prog, g.isRandom) (hb : buildCirc N prog = .ok c) :
    c.compile = .error .value := by
  obtain ⟨hS, hI, hm⟩ := build_okr N prog c (fun _ => True) hw (fun _ _ => trivial) hb
  obtain ⟨hN, _, _, _, _, hR⟩ := hS
  obtain ⟨g, hg, hgr⟩ := hr
  unfold Circ.compile
  rw [compileLayers_random c.N c.layers _ _ hR (fun x hx => hN ▸ (hI.2.2 x hx).1) ⟨g, hm g hg, hgr⟩]

/-! ## gates: a run depends on the rows only through a phase-respecting function -/

def Congr (f : Pauli → Pauli) : Prop := ∀ a b, PEq a b → PEq (f a) (f b)

theorem congr_rotate (G : Pauli) : Congr (rotate G) := fun _ _ h => rotate_congr_PEq G h
theorem congr_transform (M : CMap) : Congr (transform M) := fun _ _ h => Tr.transform_congr M h
theorem congr_rotateMasked (G : Pauli) (m : List Bool) : Congr (rotateMasked G m) := fun _ _ h =>
  maskedOp_congr (phaseLin_rotate G) m h
theorem congr_transformMasked (M : CMap) (m : List Bool) : Congr (transformMasked M m) := fun _ _ h =>
  transformMasked_congr M m h

/-- a run of a gate either fails whatever the rows, or maps the rows through one phase-respecting function -/
def Shape (run : List Pauli → Except Err (Gate × List Pauli × List CMap)) : Prop :=
  (∃ e, ∀ rows, run rows = .error e) ∨
  (∃ g1 f rnd1, Congr f ∧ ∀ rows, run rows = .ok (g1, rows.map f, rnd1))

theorem fwd_tail (g g1 : Gate) (N : Nat) (M : CMap) (rnd1 : List CMap) :
    Shape fun rows => (if g.n = N then Except.ok (g1, List.map (transform M) rows, rnd1)
          else
            match qMask g.qubits N with
            | Except.error e => Except.error e
            | Except.ok m => Except.ok (g1, List.map (transformMasked M m) rows, rnd1)) := by
  by_cases hN : g.n = N
  · simp only [if_pos hN]
    exact Or.inr ⟨g1, _, rnd1, congr_transform M, fun _ => rfl⟩
  · simp only [if_neg hN]
    cases qMask g.qubits N with
    | error e => exact Or.inl ⟨e, fun _ => rfl⟩
    | ok m => exact Or.inr ⟨g1, _, rnd1, congr_transformMasked M m, fun _ => rfl⟩

theorem gate_forward_shape (g : Gate) (N : Nat) (rnd : List CMap) : Shape fun rows => g.forward N rows rnd := by
  cases hgen : g.gen with
  | some G =>
    simp only [Gate.forward, hgen]
    by_cases hN : g.n = N
    · simp only [if_pos hN]
      exact Or.inr ⟨g, _, rnd, congr_rotate G, fun _ => rfl⟩
    · simp only [if_neg hN]
      cases qMask g.qubits N with
      | error e => exact Or.inl ⟨e, fun _ => rfl⟩
      | ok m => exact Or.inr ⟨g, _, rnd, congr_rotateMasked G m, fun _ => rfl⟩
  | none =>
    cases hf : g.fmap with
    | some M =>
      simp only [Gate.forward, hgen, hf]
      exact fwd_tail g g N M rnd
    | none =>
      cases hb : g.bmap with
      | none =>
        cases rnd with
        | nil =>
          simp only [Gate.forward, hgen, hf, hb]
          exact Or.inl ⟨_, fun _ => rfl⟩
        | cons M rest =>
          simp only [Gate.forward, hgen, hf, hb]
          exact fwd_tail g g N M rest
      | some B =>
        cases hi : inverse B with
        | none =>
          simp only [Gate.forward, hgen, hf, hb, hi]
          exact Or.inl ⟨_, fun _ => rfl⟩
        | some M =>
          simp only [Gate.forward, hgen, hf, hb, hi]
          exact fwd_tail g _ N M rnd

theorem bwd_tail (g g1 : Gate) (N : Nat) (M : CMap) (rnd1 : List CMap) :
    Shape fun rows => (match qMask g.qubits N with
            | Except.error e => Except.error e
            | Except.ok m => Except.ok (g1, List.map (transformMasked M m) rows, rnd1)) := by
  cases qMask g.qubits N with
  | error e => exact Or.inl ⟨e, fun _ => rfl⟩
  | ok m => exact Or.inr ⟨g1, _, rnd1, congr_transformMasked M m, fun _ => rfl⟩

theorem gate_backward_shape (g : Gate) (N : Nat) (rnd : List CMap) : Shape fun rows => g.backward N rows rnd := by
  cases hgen : g.gen with
  | some G =>
    simp only [Gate.backward, hgen]
    by_cases hN : g.n = N
    · simp only [if_pos hN]
      exact Or.inr ⟨g, _, rnd, congr_rotate (neg G), fun _ => rfl⟩
    · simp only [if_neg hN]
      cases qMask g.qubits N with
      | error e => exact Or.inl ⟨e, fun _ => rfl⟩
      | ok m => exact Or.inr ⟨g, _, rnd, congr_rotateMasked (neg G) m, fun _ => rfl⟩
  | none =>
    cases hb : g.bmap with
    | some M =>
      simp only [Gate.backward, hgen, hb]
      exact bwd_tail g g N M rnd
    | none =>
      cases hf : g.fmap with
      | none =>
        cases rnd with
        | nil =>
          simp only [Gate.backward, hgen, hf, hb]
          exact Or.inl ⟨_, fun _ => rfl⟩
        | cons M rest =>
          simp only [Gate.backward, hgen, hf, hb]
          exact bwd_tail g g N M rest
      | some F =>
        cases hi : inverse F with
        | none =>
          simp only [Gate.backward, hgen, hf, hb, hi]
          exact Or.inl ⟨_, fun _ => rfl⟩
        | some M =>
          simp only [Gate.backward, hgen, hf, hb, hi]
          exact bwd_tail g _ N M rnd

/-- forget the object returned by a call -/
def dropG {β α : Type} : Except Err (β × α) → Except Err α
  | .ok (_, a) => .ok a
  | .error e => .error e

theorem dropG_ok {β α : Type} (a : Except Err (β × α)) (x : α) (h : dropG a = .ok x) : ∃ g, a = .ok (g, x) := by
  cases a with
  | error e => cases h
  | ok r => obtain ⟨g, y⟩ := r; cases h; exact ⟨g, rfl⟩

theorem dropG_err {β α : Type} (a : Except Err (β × α)) (e : Err) (h : dropG a = .error e) : a = .error e := by
  cases a with
  | error e' => cases h; rfl
  | ok r => obtain ⟨g, y⟩ := r; cases h

/-- `Gate.compile` only precomputes what `forward` / `backward` compute lazily -/
theorem compile_same_run (g g' : Gate) (N : Nat) (rows : List Pauli) (rnd : List CMap) (h : g.compile = .ok g') :
    dropG (g'.forward N rows rnd) = dropG (g.forward N rows rnd) ∧
    dropG (g'.backward N rows rnd) = dropG (g.backward N rows rnd) := by
  unfold Gate.compile at h
  cases hgen : g.gen with
  | some G =>
    rw [hgen] at h
    cases h
    constructor
    · simp only [Gate.forward, Gate.n, hgen]
      by_cases hN : g.qubits.length = N
      · simp only [hN, ↓reduceIte]; rfl
      · simp only [hN, ↓reduceIte]; cases qMask g.qubits N <;> rfl
    · simp only [Gate.backward, Gate.n, hgen]
      by_cases hN : g.qubits.length = N
      · simp only [hN, ↓reduceIte]; rfl
      · simp only [hN, ↓reduceIte]; cases qMask g.qubits N <;> rfl
  | none =>
    rw [hgen] at h
    dsimp only at h
    cases hf : g.fmap with
    | none =>
      cases hb : g.bmap with
      | none => rw [hf, hb] at h; cases h
      | some B =>
        rw [hf, hb] at h
        dsimp only at h
        cases hi : inverse B with
        | none => rw [hi] at h; cases h
        | some F =>
          rw [hi] at h
          cases h
          constructor
          · simp only [Gate.forward, Gate.n, hgen, hf, hb, hi]
            rfl
          · simp only [Gate.backward, hgen, hb]
            cases qMask g.qubits N <;> rfl
    | some F =>
      cases hb : g.bmap with
      | none =>
        rw [hf, hb] at h
        dsimp only at h
        cases hi : inverse F with
        | none => rw [hi] at h; cases h
        | some B =>
          rw [hi] at h
          cases h
          constructor
          · simp only [Gate.forward, Gate.n, hgen, hf]
            by_cases hN : g.qubits.length = N
            · simp only [hN, ↓reduceIte]; rfl
            · simp only [hN, ↓reduceIte]; cases qMask g.qubits N <;> rfl
          · simp only [Gate.backward, hgen, hf, hb, hi]
      | some B =>
        rw [hf, hb] at h
        cases h
        exact ⟨rfl, rfl⟩

/-! ## runs related up to the representation of phases -/

/-- both calls fail with the same error, or both succeed with related results -/
def Sim {α : Type} (R : α → α → Prop) (a b : Except Err α) : Prop :=
  (∃ e, a = .error e ∧ b = .error e) ∨ (∃ x y, a = .ok x ∧ b = .ok y ∧ R x y)

theorem f2_map {A B : List Pauli} (h : List.Forall₂ PEq A B) {f f' : Pauli → Pauli}
    (hf : ∀ a b, PEq a b → b ∈ B → PEq (f a) (f' b)) : List.Forall₂ PEq (A.map f) (B.map f') := by
  induction h with
  | nil => exact List.Forall₂.nil
  | cons hab _ ih =>
    exact List.Forall₂.cons (hf _ _ hab (by simp)) (ih (fun a b h1 h2 => hf a b h1 (List.mem_cons_of_mem _ h2)))

theorem f2_refl (A : List Pauli) : List.Forall₂ PEq A A := List.forall₂_same.2 (fun x _ => PEq.refl x)

theorem f2_rowsPEq {A B : List Pauli} (h : List.Forall₂ PEq A B) : RowsPEq' A B := by
  refine ⟨h.length_eq, ?_⟩
  induction h with
  | nil => intro i hi; simp at hi
  | cons hab _ ih =>
    intro i hi
    cases i with
    | zero => exact hab
    | succ i => exact ih i (by simpa using hi)

/-- a gate as it was, or as `Gate.compile` left it -/
def GSim (g' g : Gate) : Prop := g' = g ∨ g.compile = .ok g'

theorem gsim_run (g' g : Gate) (N : Nat) (rows : List Pauli) (rnd : List CMap) (h : GSim g' g) :
    dropG (g'.forward N rows rnd) = dropG (g.forward N rows rnd) ∧
    dropG (g'.backward N rows rnd) = dropG (g.backward N rows rnd) := by
  rcases h with rfl | h
  · exact ⟨rfl, rfl⟩
  · exact compile_same_run g g' N rows rnd h

/-- results of a gate call: rows up to phases, the same remaining supply -/
def GR {β : Type} (x y : β × List Pauli × List CMap) : Prop := List.Forall₂ PEq x.2.1 y.2.1 ∧ x.2.2 = y.2.2

theorem shape_sim (run' run : List Pauli → Except Err (Gate × List Pauli × List CMap)) (hs : Shape run)
    (hd : ∀ rows, dropG (run' rows) = dropG (run rows)) (rows' rows : List Pauli)
    (hr : List.Forall₂ PEq rows' rows) : Sim GR (run' rows') (run rows) := by
  rcases hs with ⟨e, he⟩ | ⟨g1, f, rnd1, hf, hok⟩
  · left
    refine ⟨e, dropG_err _ e ?_, he rows⟩
    rw [hd, he]; rfl
  · right
    obtain ⟨g1', h1⟩ := dropG_ok (run' rows') (rows'.map f, rnd1) (by rw [hd, hok]; rfl)
    exact ⟨_, _, h1, hok rows, f2_map hr (fun a b h _ => hf a b h), rfl⟩

theorem gate_forward_sim (g' g : Gate) (N : Nat) (rows' rows : List Pauli) (rnd : List CMap) (h : GSim g' g)
    (hr : List.Forall₂ PEq rows' rows) : Sim GR (g'.forward N rows' rnd) (g.forward N rows rnd) :=
  shape_sim (fun r => g'.forward N r rnd) (fun r => g.forward N r rnd) (gate_forward_shape g N rnd)
    (fun r => (gsim_run g' g N r rnd h).1) rows' rows hr

theorem gate_backward_sim (g' g : Gate) (N : Nat) (rows' rows : List Pauli) (rnd : List CMap) (h : GSim g' g)
    (hr : List.Forall₂ PEq rows' rows) : Sim GR (g'.backward N rows' rnd) (g.backward N rows rnd) :=
  shape_sim (fun r => g'.backward N r rnd) (fun r => g.backward N r rnd) (gate_backward_shape g N rnd)
    (fun r => (gsim_run g' g N r rnd h).2) rows' rows hr

/-- `backward` of a deterministic or random gate keeps the length of the rows -/
theorem gate_backward_len (g g1 : Gate) (N : Nat) (rows rows1 : List Pauli) (rnd rnd1 : List CMap)
    (hg : OKr N g) (hb : g.BmapOK) (hr : ∀ R ∈ rows, R.g.length = N)
    (h : g.backward N rows rnd = .ok (g1, rows1, rnd1)) : ∀ R ∈ rows1, R.g.length = N := by
  rcases hg with hg | ⟨⟨hgen, hf, hbm⟩, h0, hq, _⟩
  · obtain ⟨g2, h2⟩ := gate_backward_eq' g N rows rnd hg hb hr
    rw [h2] at h
    cases h
    intro R hR
    obtain ⟨R0, hR0, rfl⟩ := List.mem_map.1 hR
    rw [length_gateActInv]; exact hr R0 hR0
  · have hm := qMask_eq g.qubits N h0 hq
    cases rnd with
    | nil => simp only [Gate.backward, hgen, hf, hbm] at h; cases h
    | cons M rest =>
      simp only [Gate.backward, hgen, hf, hbm, hm] at h
      cases h
      intro R hR
      obtain ⟨R0, hR0, rfl⟩ := List.mem_map.1 hR
      rw [length_transformMasked]; exact hr R0 hR0

theorem gatesForward_sim (N : Nat) (gs' gs : List Gate) (h : List.Forall₂ GSim gs' gs) :
    ∀ (rows' rows : List Pauli) (rnd : List CMap), List.Forall₂ PEq rows' rows →
    Sim GR (gatesForward N gs' rows' rnd) (gatesForward N gs rows rnd) := by
  induction h with
  | nil => intro rows' rows rnd hr; exact Or.inr ⟨_, _, rfl, rfl, hr, rfl⟩
  | @cons g' g gs' gs hg _ ih =>
    intro rows' rows rnd hr
    unfold gatesForward
    rcases gate_forward_sim g' g N rows' rows rnd hg hr with ⟨e, ha, hb⟩ | ⟨⟨a1, a2, a3⟩, ⟨b1, b2, b3⟩, ha, hb, h1, h2⟩
    · rw [ha, hb]; exact Or.inl ⟨e, rfl, rfl⟩
    · rw [ha, hb]
      dsimp only at h1 h2 ⊢
      subst h2
      rcases ih a2 b2 a3 h1 with ⟨e, ha', hb'⟩ | ⟨⟨c1, c2, c3⟩, ⟨d1, d2, d3⟩, ha', hb', h3, h4⟩
      · rw [ha', hb']; exact Or.inl ⟨e, rfl, rfl⟩
      · rw [ha', hb']; exact Or.inr ⟨_, _, rfl, rfl, h3, h4⟩

/-- backward results also keep the row length -/
def GRl {β : Type} (N : Nat) (x y : β × List Pauli × List CMap) : Prop := GR x y ∧ ∀ R ∈ y.2.1, R.g.length = N

theorem gatesBackward_sim (N : Nat) (gs' gs : List Gate) (h : List.Forall₂ GSim gs' gs) :
    ∀ (rows' rows : List Pauli) (rnd : List CMap), (∀ g ∈ gs, OKr N g ∧ g.BmapOK) → List.Forall₂ PEq rows' rows →
    (∀ R ∈ rows, R.g.length = N) →
    Sim (GRl N) (gatesBackward N gs' rows' rnd) (gatesBackward N gs rows rnd) := by
  induction h with
  | nil => intro rows' rows rnd _ hr hl; exact Or.inr ⟨_, _, rfl, rfl, ⟨hr, rfl⟩, hl⟩
  | @cons g' g gs' gs hg _ ih =>
    intro rows' rows rnd hw hr hl
    unfold gatesBackward
    rcases gate_backward_sim g' g N rows' rows rnd hg hr with ⟨e, ha, hb⟩ | ⟨⟨a1, a2, a3⟩, ⟨b1, b2, b3⟩, ha, hb, h1, h2⟩
    · rw [ha, hb]; exact Or.inl ⟨e, rfl, rfl⟩
    · have hl2 := gate_backward_len g b1 N rows b2 rnd b3 (hw g (by simp)).1 (hw g (by simp)).2 hl hb
      rw [ha, hb]
      dsimp only at h1 h2 ⊢
      subst h2
      rcases ih a2 b2 a3 (fun x hx => hw x (by simp [hx])) h1 hl2 with
        ⟨e, ha', hb'⟩ | ⟨⟨c1, c2, c3⟩, ⟨d1, d2, d3⟩, ha', hb', ⟨h3, h4⟩, h5⟩
      · rw [ha', hb']; exact Or.inl ⟨e, rfl, rfl⟩
      · rw [ha', hb']; exact Or.inr ⟨_, _, rfl, rfl, ⟨h3, h4⟩, h5⟩

/-! ## layers -/

/-- two runs carry the same object up to the representation of phases, the same coins and the same supply -/
def XRel (x' x : Run) : Prop :=
  List.Forall₂ PEq x'.obj.rows x.obj.rows ∧ x'.obj.r = x.obj.r ∧ x'.obj.isState = x.obj.isState ∧
    x'.coins = x.coins ∧ x'.rnd = x.rnd
def XLen (N : Nat) (x : Run) : Prop := ∀ R ∈ x.obj.rows, R.g.length = N

/-- results of a layer call -/
def LR (a b : Layer × Run) : Prop := a.1.isMeas = false ∧ b.1.isMeas = false ∧ XRel a.2 b.2
def LRl (N : Nat) (a b : Layer × Run) : Prop := LR a b ∧ XLen N b.2

/-- an uncompiled layer whose gates are as they were or as `Gate.compile` left them -/
def Same (N : Nat) (L' L : Layer) : Prop :=
  ∃ gs' gs, L' = .gates gs' none none ∧ L = .gates gs none none ∧ List.Forall₂ GSim gs' gs ∧
    ∀ g ∈ gs, OKr N g ∧ g.BmapOK

/-- a layer and its compiled form -/
def Compiled (N : Nat) (L' L : Layer) : Prop :=
  ∃ gs' gs F B, L' = .gates gs' (some F) (some B) ∧ L = .gates gs none none ∧
    compileGates N gs (idMap N) (idMap N) = .ok (gs', F, B) ∧ (∀ g ∈ gs, g.WF N ∧ g.BmapOK) ∧
    gs.Pairwise (fun g h => g.indep h = true)

theorem layer_forward_same (N : Nat) (L' L : Layer) (x' x : Run) (h : Same N L' L) (hx : XRel x' x) :
    Sim LR (L'.forward N x') (L.forward N x) := by
  obtain ⟨gs', gs, rfl, rfl, hs, _⟩ := h
  obtain ⟨h1, h2, h3, h4, h5⟩ := hx
  simp only [Layer.forward]
  rw [h5]
  rcases gatesForward_sim N gs' gs hs _ _ x.rnd h1 with ⟨e, ha, hb⟩ | ⟨⟨a1, a2, a3⟩, ⟨b1, b2, b3⟩, ha, hb, h6, h7⟩
  · rw [ha, hb]; exact Or.inl ⟨e, rfl, rfl⟩
  · rw [ha, hb]
    exact Or.inr ⟨_, _, rfl, rfl, rfl, rfl, h6, h2, h3, h4, h7⟩

theorem layer_backward_same (N : Nat) (L' L : Layer) (x' x : Run) (h : Same N L' L) (hx : XRel x' x)
    (hl : XLen N x) : Sim (LRl N) (L'.backward N x' none) (L.backward N x none) := by
  obtain ⟨gs', gs, rfl, rfl, hs, hw⟩ := h
  obtain ⟨h1, h2, h3, h4, h5⟩ := hx
  simp only [Layer.backward]
  rw [h5]
  rcases gatesBackward_sim N gs' gs hs _ _ x.rnd hw h1 hl with
    ⟨e, ha, hb⟩ | ⟨⟨a1, a2, a3⟩, ⟨b1, b2, b3⟩, ha, hb, ⟨h6, h7⟩, h8⟩
  · rw [ha, hb]; exact Or.inl ⟨e, rfl, rfl⟩
  · rw [ha, hb]
    exact Or.inr ⟨_, _, rfl, rfl, ⟨rfl, rfl, h6, h2, h3, h4, h7⟩, h8⟩

theorem layer_forward_compiled (N : Nat) (L' L : Layer) (x' x : Run) (h : Compiled N L' L) (hx : XRel x' x)
    (hl : XLen N x) : Sim (LRl N) (L'.forward N x') (L.forward N x) := by
  obtain ⟨gs', gs, F, B, rfl, rfl, hc, hw, hp⟩ := h
  obtain ⟨h1, h2, h3, h4, h5⟩ := hx
  obtain ⟨_, _, hact⟩ := layer_compile_sound N gs gs' F B hw hp hc
  simp only [Layer.forward, gatesForward_eq N gs x.obj.rows x.rnd (fun g hg => (hw g hg).1) hl]
  refine Or.inr ⟨_, _, rfl, rfl, ⟨rfl, rfl, ?_, h2, h3, h4, h5⟩, ?_⟩
  · exact f2_map h1 (fun a b hab hb => (Tr.transform_congr F hab).trans (hact b (hl b hb)).1)
  · intro R hR
    obtain ⟨R0, hR0, rfl⟩ := List.mem_map.1 hR
    rw [length_seqAct]; exact hl R0 hR0

theorem layer_backward_compiled (N : Nat) (L' L : Layer) (x' x : Run) (h : Compiled N L' L) (hx : XRel x' x)
    (hl : XLen N x) : Sim (LRl N) (L'.backward N x' none) (L.backward N x none) := by
  obtain ⟨gs', gs, F, B, rfl, rfl, hc, hw, hp⟩ := h
  obtain ⟨h1, h2, h3, h4, h5⟩ := hx
  obtain ⟨_, _, hact⟩ := layer_compile_sound N gs gs' F B hw hp hc
  obtain ⟨gs2, hgb⟩ := gatesBackward_eq N gs x.obj.rows x.rnd hw hl
  simp only [Layer.backward, hgb]
  refine Or.inr ⟨_, _, rfl, rfl, ⟨rfl, rfl, ?_, h2, h3, h4, h5⟩, ?_⟩
  · exact f2_map h1 (fun a b hab hb => ((Tr.transform_congr B hab).trans (hact b (hl b hb)).2).trans
      (fwdInv_eq_seqActInv gs N b hp).symm)
  · intro R hR
    obtain ⟨R0, hR0, rfl⟩ := List.mem_map.1 hR
    rw [length_fwdInv]; exact hl R0 hR0

/-! ## lists of layers -/

theorem lf_err (N : Nat) (L : Layer) (Ls : List Layer) (x : Run) (e : Err) (h : L.forward N x = .error e) :
    layersForward N (L :: Ls) x = .error e := by
  rw [layersForward, h]

theorem lf_ok (N : Nat) (L L1 : Layer) (Ls : List Layer) (x x1 : Run) (h : L.forward N x = .ok (L1, x1))
    (hg : L1.isMeas = false) :
    layersForward N (L :: Ls) x = (match layersForward N Ls x1 with
      | .error e => .error e
      | .ok (Ls', x'', res, k) => .ok (L1 :: Ls', x'', res, k)) := by
  rw [layersForward, h]
  cases L1 with
  | meas q r k => cases hg
  | gates gs f b => rfl

theorem lb_err (N : Nat) (L : Layer) (Ls : List Layer) (x : Run) (rec : List Int) (e : Err)
    (hg : L.isMeas = false) (h : L.backward N x none = .error e) :
    layersBackward N (L :: Ls) x rec = .error e := by
  cases L with
  | meas q r k => cases hg
  | gates gs f b => simp only [layersBackward, h]

theorem lb_ok (N : Nat) (L L1 : Layer) (Ls : List Layer) (x x1 : Run) (rec : List Int)
    (hg : L.isMeas = false) (h : L.backward N x none = .ok (L1, x1)) :
    layersBackward N (L :: Ls) x rec = (match layersBackward N Ls x1 rec with
      | .error e => .error e
      | .ok (Ls', x'') => .ok (L1 :: Ls', x'')) := by
  cases L with
  | meas q r k => cases hg
  | gates gs f b => simp only [layersBackward, h]; rfl

def RLf (a b : List Layer × Run × List Int × Nat) : Prop := XRel a.2.1 b.2.1
def RLb (a b : List Layer × Run) : Prop := XRel a.2 b.2

theorem sim_lf_tail (L1' L1 : Layer) (a b : Except Err (List Layer × Run × List Int × Nat)) :
    Sim RLf a b → Sim RLf (match a with
      | .error e => .error e
      | .ok (Ls', x'', res, k) => .ok (L1' :: Ls', x'', res, k))
     (match b with
      | .error e => .error e
      | .ok (Ls', x'', res, k) => .ok (L1 :: Ls', x'', res, k)) := by
  intro h
  rcases h with ⟨e, ha, hb⟩ | ⟨⟨a1, a2, a3, a4⟩, ⟨b1, b2, b3, b4⟩, ha, hb, h1⟩
  · rw [ha, hb]; exact Or.inl ⟨e, rfl, rfl⟩
  · rw [ha, hb]; exact Or.inr ⟨_, _, rfl, rfl, h1⟩

theorem sim_lb_tail (L1' L1 : Layer) (a b : Except Err (List Layer × Run)) :
    Sim RLb a b → Sim RLb (match a with
      | .error e => .error e
      | .ok (Ls', x'') => .ok (L1' :: Ls', x''))
     (match b with
      | .error e => .error e
      | .ok (Ls', x'') => .ok (L1 :: Ls', x'')) := by
  intro h
  rcases h with ⟨e, ha, hb⟩ | ⟨⟨a1, a2⟩, ⟨b1, b2⟩, ha, hb, h1⟩
  · rw [ha, hb]; exact Or.inl ⟨e, rfl, rfl⟩
  · rw [ha, hb]; exact Or.inr ⟨_, _, rfl, rfl, h1⟩

theorem layersForward_same (N : Nat) (R' R : List Layer) (h : List.Forall₂ (Same N) R' R) :
    ∀ x' x : Run, XRel x' x → Sim RLf (layersForward N R' x') (layersForward N R x) := by
  induction h with
  | nil => intro x' x hx; exact Or.inr ⟨_, _, rfl, rfl, hx⟩
  | @cons L' L R' R hL _ ih =>
    intro x' x hx
    rcases layer_forward_same N L' L x' x hL hx with ⟨e, ha, hb⟩ | ⟨⟨a1, a2⟩, ⟨b1, b2⟩, ha, hb, g1, g2, h1⟩
    · rw [lf_err N L' R' x' e ha, lf_err N L R x e hb]; exact Or.inl ⟨e, rfl, rfl⟩
    · rw [lf_ok N L' a1 R' x' a2 ha g1, lf_ok N L b1 R x b2 hb g2]
      exact sim_lf_tail a1 b1 _ _ (ih a2 b2 h1)

theorem layersForward_compiled (N : Nat) (A' A R' R : List Layer) (h : List.Forall₂ (Compiled N) A' A)
    (hR : ∀ y' y : Run, XRel y' y → Sim RLf (layersForward N R' y') (layersForward N R y)) :
    ∀ x' x : Run, XRel x' x → XLen N x → Sim RLf (layersForward N (A' ++ R') x') (layersForward N (A ++ R) x) := by
  induction h with
  | nil => intro x' x hx _; exact hR x' x hx
  | @cons L' L A' A hL _ ih =>
    intro x' x hx hl
    rw [List.cons_append, List.cons_append]
    rcases layer_forward_compiled N L' L x' x hL hx hl with
      ⟨e, ha, hb⟩ | ⟨⟨a1, a2⟩, ⟨b1, b2⟩, ha, hb, ⟨g1, g2, h1⟩, h2⟩
    · rw [lf_err N L' _ x' e ha, lf_err N L _ x e hb]; exact Or.inl ⟨e, rfl, rfl⟩
    · rw [lf_ok N L' a1 _ x' a2 ha g1, lf_ok N L b1 _ x b2 hb g2]
      exact sim_lf_tail a1 b1 _ _ (ih a2 b2 h1 h2)

theorem same_isMeas {N : Nat} {L' L : Layer} (h : Same N L' L) : L'.isMeas = false ∧ L.isMeas = false := by
  obtain ⟨_, _, rfl, rfl, _⟩ := h; exact ⟨rfl, rfl⟩
theorem compiled_isMeas {N : Nat} {L' L : Layer} (h : Compiled N L' L) : L'.isMeas = false ∧ L.isMeas = false := by
  obtain ⟨_, _, _, _, rfl, rfl, _⟩ := h; exact ⟨rfl, rfl⟩

theorem layersBackward_compiled (N : Nat) (rec : List Int) (A' A : List Layer) (h : List.Forall₂ (Compiled N) A' A) :
    ∀ x' x : Run, XRel x' x → XLen N x → Sim RLb (layersBackward N A' x' rec) (layersBackward N A x rec) := by
  induction h with
  | nil => intro x' x hx _; exact Or.inr ⟨_, _, rfl, rfl, hx⟩
  | @cons L' L A' A hL _ ih =>
    intro x' x hx hl
    obtain ⟨m1, m2⟩ := compiled_isMeas hL
    rcases layer_backward_compiled N L' L x' x hL hx hl with
      ⟨e, ha, hb⟩ | ⟨⟨a1, a2⟩, ⟨b1, b2⟩, ha, hb, ⟨g1, g2, h1⟩, h2⟩
    · rw [lb_err N L' _ x' rec e m1 ha, lb_err N L _ x rec e m2 hb]; exact Or.inl ⟨e, rfl, rfl⟩
    · rw [lb_ok N L' a1 _ x' a2 rec m1 ha, lb_ok N L b1 _ x b2 rec m2 hb]
      exact sim_lb_tail a1 b1 _ _ (ih a2 b2 h1 h2)

theorem layersBackward_same (N : Nat) (rec : List Int) (R' R A' A : List Layer) (h : List.Forall₂ (Same N) R' R)
    (hA : ∀ y' y : Run, XRel y' y → XLen N y → Sim RLb (layersBackward N A' y' rec) (layersBackward N A y rec)) :
    ∀ x' x : Run, XRel x' x → XLen N x →
      Sim RLb (layersBackward N (R' ++ A') x' rec) (layersBackward N (R ++ A) x rec) := by
  induction h with
  | nil => intro x' x hx hl; exact hA x' x hx hl
  | @cons L' L R' R hL _ ih =>
    intro x' x hx hl
    obtain ⟨m1, m2⟩ := same_isMeas hL
    rw [List.cons_append, List.cons_append]
    rcases layer_backward_same N L' L x' x hL hx hl with
      ⟨e, ha, hb⟩ | ⟨⟨a1, a2⟩, ⟨b1, b2⟩, ha, hb, ⟨g1, g2, h1⟩, h2⟩
    · rw [lb_err N L' _ x' rec e m1 ha, lb_err N L _ x rec e m2 hb]; exact Or.inl ⟨e, rfl, rfl⟩
    · rw [lb_ok N L' a1 _ x' a2 rec m1 ha, lb_ok N L b1 _ x b2 rec m2 hb]
      exact sim_lb_tail a1 b1 _ _ (ih a2 b2 h1 h2)

/-! ## the layers left behind by a refused `compile()` -/

theorem gsim_refl (gs : List Gate) : List.Forall₂ GSim gs gs := List.forall₂_same.2 (fun _ _ => Or.inl rfl)

theorem compileGatesSt_gsim (N : Nat) : ∀ (gs : List Gate) (F B : CMap),
    List.Forall₂ GSim (compileGatesSt N gs F B).1 gs := by
  intro gs
  induction gs with
  | nil => intro F B; exact List.Forall₂.nil
  | cons g gs ih =>
    intro F B
    cases hc : g.compile with
    | error e0 => rw [cgs_err N g gs F B e0 hc]; exact gsim_refl _
    | ok g' =>
      obtain ⟨_, _, f, b, hf, hb⟩ := gate_compile_out g g' hc
      cases hm : qMask g.qubits N with
      | error e0 =>
        rw [cgs_mask N g g' gs F B e0 hc hm]
        exact List.Forall₂.cons (Or.inr hc) (gsim_refl _)
      | ok m =>
        rw [cgs_ok N g g' gs F B f b m hc hm hf hb]
        exact List.Forall₂.cons (Or.inr hc) (ih _ _)

theorem compileGates_ok_wf (N : Nat) (gs : List Gate) (F B : CMap) (r : List Gate × CMap × CMap)
    (hw : ∀ g ∈ gs, OKr N g) (h : compileGates N gs F B = .ok r) : ∀ g ∈ gs, g.WF N := by
  intro g hg
  apply okr_wf N g (hw g hg)
  intro hr
  rw [compileGates_random N gs F B hw ⟨g, hg, hr⟩] at h
  cases h

theorem same_refl (N : Nat) (Ls : List Layer) (hp : ∀ L ∈ Ls, LayerP L)
    (hw : ∀ g ∈ flatGates Ls, OKr N g ∧ g.BmapOK) : List.Forall₂ (Same N) Ls Ls := by
  apply List.forall₂_same.2
  intro L hL
  obtain ⟨gs, rfl, _⟩ := hp L hL
  refine ⟨gs, gs, rfl, rfl, gsim_refl gs, fun g hg => hw g ?_⟩
  simp only [flatGates, List.mem_flatMap]
  exact ⟨_, hL, hg⟩

theorem compileLayersSt_struct (N : Nat) : ∀ (Ls : List Layer) (F0 B0 : CMap) (e : Err),
    (∀ L ∈ Ls, LayerP L) → (∀ g ∈ flatGates Ls, OKr N g ∧ g.BmapOK) →
    (compileLayersSt N Ls F0 B0).2 = .error e →
    ∃ A' A R' R, Ls = A ++ R ∧ (compileLayersSt N Ls F0 B0).1 = A' ++ R' ∧
      List.Forall₂ (Compiled N) A' A ∧ List.Forall₂ (Same N) R' R := by
  intro Ls
  induction Ls with
  | nil => intro F0 B0 e _ _ h; cases h
  | cons L Ls ih =>
    intro F0 B0 e hp hw h
    obtain ⟨gs, rfl, hpw⟩ := hp L (by simp)
    have hwg : ∀ g ∈ gs, OKr N g ∧ g.BmapOK := fun g hg => hw g (by rw [flatGates_cons]; simp [layerGates, hg])
    have hwl : ∀ g ∈ flatGates Ls, OKr N g ∧ g.BmapOK := fun g hg => hw g (by rw [flatGates_cons]; simp [hg])
    have hpl : ∀ X ∈ Ls, LayerP X := fun X hX => hp X (by simp [hX])
    cases hs : compileGatesSt N gs (idMap N) (idMap N) with
    | mk gs' r =>
      cases r with
      | error e0 =>
        rw [clsSt_err N _ _ Ls F0 B0 e0 (layerSt_err N gs gs' none none e0 hs)]
        refine ⟨[], [], _, _, rfl, rfl, List.Forall₂.nil, List.Forall₂.cons ?_ (same_refl N Ls hpl hwl)⟩
        have := compileGatesSt_gsim N gs (idMap N) (idMap N)
        rw [hs] at this
        exact ⟨gs', gs, rfl, rfl, this, hwg⟩
      | ok FB =>
        obtain ⟨F, B⟩ := FB
        obtain ⟨F', B', heq⟩ := clsSt_ok N _ _ Ls F0 B0 (layerSt_ok N gs gs' none none F B hs)
        rw [heq] at h ⊢
        obtain ⟨A', A, R', R, e1, e2, hA, hR⟩ := ih F' B' e hpl hwl h
        have hcg : compileGates N gs (idMap N) (idMap N) = .ok (gs', F, B) := by
          have := compileGatesSt_spec N gs (idMap N) (idMap N)
          cases hc : compileGates N gs (idMap N) (idMap N) with
          | error e1 => rw [hc, hs] at this; cases this
          | ok r =>
            obtain ⟨gs2, F2, B2⟩ := r
            rw [hc, hs] at this
            cases this
            rfl
        have hwf := compileGates_ok_wf N gs _ _ _ (fun g hg => (hwg g hg).1) hcg
        refine ⟨_ :: A', _ :: A, R', R, by rw [e1]; rfl, by dsimp only; rw [e2]; rfl,
          List.Forall₂.cons ⟨gs', gs, F, B, rfl, rfl, hcg, fun g hg => ⟨hwf g hg, (hwg g hg).2⟩, hpw⟩ hA, hR⟩

/-! ## the circuit left behind runs as before -/

theorem circ_forward_plain (c : Circ) (x : Run) (hu : c.unitary = true) (hf : c.fmap = none) :
    c.forward x = (match layersForward c.N c.layers x with
      | .error e => .error e
      | .ok (Ls, x', _, _) => .ok ({ c with layers := Ls }, x')) := by
  unfold Circ.forward
  rw [if_pos hu, hf]
  rfl

theorem circ_backward_plain (c : Circ) (x : Run) (hu : c.unitary = true) (hf : c.bmap = none) :
    c.backward x none = (match layersBackward c.N c.layers.reverse x [] with
      | .error e => .error e
      | .ok (Ls, x') => .ok ({ c with layers := Ls.reverse }, x')) := by
  unfold Circ.backward
  rw [if_pos hu, hf]
  rfl

/-- two runs of a circuit agree (the relation `RunRel` of the property file, in the form used here) -/
def CR (a b : Circ × Run) : Prop :=
  RowsPEq' a.2.obj.rows b.2.obj.rows ∧ a.2.obj.r = b.2.obj.r ∧ a.2.obj.isState = b.2.obj.isState ∧
    a.2.coins = b.2.coins ∧ a.2.rnd = b.2.rnd

theorem xrel_cr (c' c : Circ) (x' x : Run) (h : XRel x' x) : CR (c', x') (c, x) :=
  ⟨f2_rowsPEq h.1, h.2.1, h.2.2.1, h.2.2.2.1, h.2.2.2.2⟩

theorem xrel_refl (x : Run) : XRel x x := ⟨f2_refl _, rfl, rfl, rfl, rfl⟩

theorem refused_behaviour (N : Nat) (prog : List Gate) (c : Circ) (e : Err) (x : Run)
    (hw : ∀ g ∈ prog, OKr N g) (hbm : ∀ g ∈ prog, g.BmapOK) (hb : buildCirc N prog = .ok c)
    (hc : c.compileSt.2 = .error e) (hx : ∀ R ∈ x.obj.rows, R.g.length = N) :
    Sim CR (c.compileSt.1.forward x) (c.forward x) ∧ Sim CR (c.compileSt.1.backward x none) (c.backward x none) := by
  obtain ⟨⟨hN, hu, hf, hb0, _, _⟩, ⟨_, hp, hq⟩, _⟩ := build_okr N prog c Gate.BmapOK hw hbm hb
  obtain ⟨hf', hb', hN', hu', _, _⟩ := refused_resets c e hc hu
  have hl' := (circ_compileSt_fst c).2.2.2.1
  subst hN
  obtain ⟨A', A, R', R, e1, e2, hA, hR⟩ := compileLayersSt_struct c.N c.layers _ _ e hp hq (circ_compileSt_err c e hc)
  rw [← hl'] at e2
  constructor
  · rw [circ_forward_plain _ x hu' hf', circ_forward_plain c x hu hf, hN', e1, e2]
    rcases layersForward_compiled c.N A' A R' R hA (layersForward_same c.N R' R hR) x x (xrel_refl x) hx with
      ⟨e0, ha, hb⟩ | ⟨⟨a1, a2, a3, a4⟩, ⟨b1, b2, b3, b4⟩, ha, hb, h1⟩
    · rw [ha, hb]; exact Or.inl ⟨e0, rfl, rfl⟩
    · rw [ha, hb]; exact Or.inr ⟨_, _, rfl, rfl, xrel_cr _ _ _ _ h1⟩
  · rw [circ_backward_plain _ x hu' hb', circ_backward_plain c x hu hb0, hN', e1, e2, List.reverse_append,
      List.reverse_append]
    rcases layersBackward_same c.N [] R'.reverse R.reverse A'.reverse A.reverse (List.forall₂_reverse_iff.2 hR)
        (layersBackward_compiled c.N [] A'.reverse A.reverse (List.forall₂_reverse_iff.2 hA)) x x (xrel_refl x) hx with
      ⟨e0, ha, hb⟩ | ⟨⟨a1, a2⟩, ⟨b1, b2⟩, ha, hb, h1⟩
    · rw [ha, hb]; exact Or.inl ⟨e0, rfl, rfl⟩
    · rw [ha, hb]; exact Or.inr ⟨_, _, rfl, rfl, xrel_cr _ _ _ _ h1⟩

end Cs
end PC
