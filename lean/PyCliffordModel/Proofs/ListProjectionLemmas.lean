import PyCliffordModel.Properties.C06e
import PyCliffordModel.Properties.C07f
/-! helper lemmas for `Properties/C06f.lean`

Layout:
* §1 one sandwich step `a ↦ P a P` is linear on coefficient functions (`step_scaled`), hence so is a whole record (`sand_scaled`);
* §2 the measurement record (`measure_record`);
* §3 appending a generator at the end of a generator list (`allBits_snoc`, `span_snoc`);
* §4 the projector product (`fold_coef`, `projector_product`).
-/
namespace PC
namespace Lp
open Ms Dn

/-! ## §1 linearity of the sandwich -/

/-- `a = c · b` as operators -/
def Scaled (c : Cx) (a b : Poly) : Prop := ∀ g, coef a g = c.mul (coef b g)

/-- the polynomial sandwiched between the projectors of a record (the definition of `sandwich` in `C06f.lean`) -/
def sand : List (Pauli × Int) → Poly → Poly
  | [], a => a
  | (O, out) :: rest, a => sand rest (polyMatmul (polyMatmul (Pj.proj O out) a) (Pj.proj O out))

theorem raw_scaled (c h s1 s2 s3 u v u' v' : Cx) (hu : u = c.mul u') (hv : v = c.mul v') :
    (h.mul ((h.mul u).add (s1.mul v))).add (s2.mul ((h.mul v).add (s3.mul u)))
      = c.mul ((h.mul ((h.mul u').add (s1.mul v'))).add (s2.mul ((h.mul v').add (s3.mul u')))) := by
  subst hu hv
  apply Cx.ext' <;> simp only [Cx.mul, Cx.add] <;> grind

theorem step_scaled (c : Cx) (a b : Poly) (O : Pauli) (out : Int) (n : Nat) (ha : ∀ t ∈ a, t.1.g.length = n)
    (hb : ∀ t ∈ b, t.1.g.length = n) (hO : O.g.length = n) (hs : Scaled c a b) :
    Scaled c (polyMatmul (polyMatmul (Pj.proj O out) a) (Pj.proj O out))
      (polyMatmul (polyMatmul (Pj.proj O out) b) (Pj.proj O out)) := by
  intro g
  by_cases hg : g.length = n
  · rw [Pj.proj_coef_raw a O out g n ha hO hg, Pj.proj_coef_raw b O out g n hb hO hg]
    exact raw_scaled c _ _ _ _ _ _ _ _ (hs g) (hs _)
  · rw [Pj.coef_of_length_ne _ g n (Pj.length_proj_both a O out n ha hO) hg,
      Pj.coef_of_length_ne _ g n (Pj.length_proj_both b O out n hb hO) hg, Cx.mul_zero]

theorem sand_scaled (c : Cx) (n : Nat) : ∀ (rec : List (Pauli × Int)) (a b : Poly), (∀ p ∈ rec, p.1.g.length = n) →
    (∀ t ∈ a, t.1.g.length = n) → (∀ t ∈ b, t.1.g.length = n) → Scaled c a b → Scaled c (sand rec a) (sand rec b) := by
  intro rec
  induction rec with
  | nil => intro a b _ _ _ hs; exact hs
  | cons p rest ih =>
    intro a b hr ha hb hs
    obtain ⟨O, out⟩ := p
    have hO : O.g.length = n := hr (O, out) List.mem_cons_self
    exact ih _ _ (fun q hq => hr q (List.mem_cons_of_mem _ hq)) (Pj.length_proj_both a O out n ha hO)
      (Pj.length_proj_both b O out n hb hO) (step_scaled c a b O out n ha hb hO hs)

/-! ## §2 the record -/

theorem prob_step (rnd : Bool) (k : Nat) (x : Cx) :
    (if rnd then Pj.half else Cx.one).mul ((⟨1 / (2 : Rat) ^ k, 0⟩ : Cx).mul x)
      = (⟨1 / (2 : Rat) ^ (if rnd then k + 1 else k), 0⟩ : Cx).mul x := by
  have h := two_pow_ne k
  cases rnd with
  | false => simp only [Bool.false_eq_true, if_false, Cx.one_mul]
  | true =>
    simp only [if_true]
    rw [Lean.Grind.Semiring.pow_succ]
    apply Cx.ext' <;> simp only [Cx.mul, Pj.half] <;> grind

theorem inv_pow_zero : (⟨1 / (2 : Rat) ^ 0, 0⟩ : Cx) = Cx.one := by
  apply Cx.ext'
  · show (1 : Rat) / 2 ^ 0 = 1
    grind
  · rfl

theorem measure_nil (st : State) (coins : List Bool) : measure st [] coins = .ok (st, [], 0, coins) := rfl

theorem measure_cons_ok (st : State) (O : Pauli) (os : List Pauli) (coins : List Bool) (st' : State) (outs : List Int)
    (nrand : Nat) (rest : List Bool) (hm : measure st (O :: os) coins = .ok (st', outs, nrand, rest)) :
    ∃ st1 out rnd outs' k, measure1 st O (coins.headD false) = .ok (st1, out, rnd) ∧
      measure st1 os (if rnd then coins.tail else coins) = .ok (st', outs', k, rest) ∧
      outs = out :: outs' ∧ nrand = (if rnd then k + 1 else k) := by
  unfold measure at hm
  simp only at hm
  split at hm
  · cases hm
  · rename_i st1 out rnd he
    split at hm
    · cases hm
    · split at hm
      · cases hm
      · rename_i st2 outs' k cs he2
        injection hm with hm
        injection hm with h1 hm
        injection hm with h2 hm
        injection hm with h3 h4
        subst h1 h4
        exact ⟨st1, out, rnd, outs', k, he, he2, h2.symm, h3.symm⟩

theorem measure_record (n : Nat) : ∀ (obs : List Pauli) (st st' : State) (coins rest : List Bool) (outs : List Int)
    (nrand : Nat), TabInv st n → (∀ O ∈ obs, O.g.length = n ∧ O.p % 2 = 0) →
    measure st obs coins = .ok (st', outs, nrand, rest) →
    outs.length = obs.length ∧
    ∀ g, coef (sand (obs.zip outs) (densityPoly st)) g
      = (⟨1 / (2 : Rat) ^ nrand, 0⟩ : Cx).mul (coef (densityPoly st') g) := by
  intro obs
  induction obs with
  | nil =>
    intro st st' coins rest outs nrand _ _ hm
    rw [measure_nil] at hm
    injection hm with hm
    injection hm with h1 hm
    injection hm with h2 hm
    injection hm with h3 _
    subst h1 h2 h3
    refine ⟨rfl, fun g => ?_⟩
    show coef (densityPoly st) g = _
    rw [inv_pow_zero, Cx.one_mul]
  | cons O os ih =>
    intro st st' coins rest outs nrand h ho hm
    obtain ⟨st1, out, rnd, outs', k, e1, e2, rfl, rfl⟩ := measure_cons_ok st O os coins st' outs nrand rest hm
    obtain ⟨hOl, hOp⟩ := ho O List.mem_cons_self
    have ho' : ∀ R ∈ os, R.g.length = n ∧ R.p % 2 = 0 := fun R hR => ho R (List.mem_cons_of_mem _ hR)
    have h1 := measure1_inv st st1 n O _ out rnd h hOl e1
    obtain ⟨hl, hc⟩ := ih st1 st' _ rest outs' k h1 ho' e2
    refine ⟨by simp [hl], fun g => ?_⟩
    have hstep : Scaled (if rnd then Pj.half else Cx.one)
        (polyMatmul (polyMatmul (Pj.proj O out) (densityPoly st)) (Pj.proj O out)) (densityPoly st1) :=
      fun g' => Pj.measure_projection st st1 n O _ out rnd h hOl hOp e1 g'
    have hzip : ∀ p ∈ os.zip outs', p.1.g.length = n := by
      intro p hp
      obtain ⟨a, b⟩ := p
      exact (ho' a (List.of_mem_zip hp).1).1
    have := sand_scaled _ n (os.zip outs') _ _ hzip
      (Pj.length_proj_both _ O out n (Pj.density_length st n h) hOl) (Pj.density_length st1 n h1) hstep g
    rw [List.zip_cons_cons]
    show coef (sand (os.zip outs') _) g = _
    rw [this, hc g]
    exact prob_step rnd k _

/-! ## §3 a generator appended at the end -/

theorem flatMap_congr' {α β : Type} (L : List α) (f g : α → List β) (h : ∀ x ∈ L, f x = g x) :
    L.flatMap f = L.flatMap g := by
  induction L with
  | nil => rfl
  | cons x L ih =>
    rw [List.flatMap_cons, List.flatMap_cons, h x List.mem_cons_self, ih (fun y hy => h y (List.mem_cons_of_mem _ hy))]

theorem snoc_key (L : List (List Bool)) :
    (L.flatMap fun c => [c ++ [false], c ++ [true]]).map (false :: ·)
        ++ (L.flatMap fun c => [c ++ [false], c ++ [true]]).map (true :: ·)
      = (L.map (false :: ·) ++ L.map (true :: ·)).flatMap fun c => [c ++ [false], c ++ [true]] := by
  simp only [List.map_flatMap, List.flatMap_map, List.flatMap_append, List.map_cons, List.map_nil, List.cons_append]

/-- the bit strings of width `k + 1`, grouped by their first `k` bits -/
theorem allBits_snoc (k : Nat) : allBits (k + 1) = (allBits k).flatMap fun c => [c ++ [false], c ++ [true]] := by
  induction k with
  | zero => rfl
  | succ k ih =>
    show (allBits (k + 1)).map (false :: ·) ++ (allBits (k + 1)).map (true :: ·)
      = ((allBits k).map (false :: ·) ++ (allBits k).map (true :: ·)).flatMap _
    rw [ih]
    exact snoc_key _

theorem combineAux_snoc (S : Pauli) (b : Bool) : ∀ (rows : List Pauli) (c : List Bool) (acc : Pauli),
    c.length = rows.length →
    combineAux (c ++ [b]) (rows ++ [S]) acc = (if b then mul (combineAux c rows acc) S else combineAux c rows acc) := by
  intro rows
  induction rows with
  | nil =>
    intro c acc hc
    have : c = [] := List.eq_nil_of_length_eq_zero hc
    subst this
    rfl
  | cons R rs ih =>
    intro c acc hc
    cases c with
    | nil => cases hc
    | cons d cs =>
      rw [List.cons_append, List.cons_append, Tr.combineAux_cons, Tr.combineAux_cons]
      exact ih cs _ (by simpa using hc)

/-- the elements generated by `as ++ [S]`: every element generated by `as`, followed by its product with `S` -/
theorem span_snoc (n : Nat) (as : List Pauli) (S : Pauli) :
    Ov.span n (as ++ [S]) = (Ov.span n as).flatMap fun R => [R, mul R S] := by
  unfold Ov.span combineRows
  rw [List.length_append, List.length_singleton, allBits_snoc, List.map_flatMap, List.flatMap_map]
  apply flatMap_congr'
  intro c hc
  have hl : c.length = as.length := (St.mem_allBits _ c).2 hc
  simp only [List.map_cons, List.map_nil]
  unfold combine
  rw [combineAux_snoc S false as c _ hl, combineAux_snoc S true as c _ hl]
  simp

/-! ## §4 the projector product -/

theorem add4 (a b x y : Cx) : a.add (b.add (x.add y)) = (a.add x).add (b.add y) := by
  apply Cx.ext' <;> simp only [Cx.add] <;> grind

theorem gcoef_pairs (L : List Pauli) (f : Pauli → Pauli) (g : PStr) :
    gcoef (L.flatMap fun R => [R, f R]) g = (gcoef L g).add (gcoef (L.map f) g) := by
  induction L with
  | nil => rw [List.flatMap_nil, List.map_nil, gcoef_nil, Cx.add_zero]
  | cons R L ih =>
    rw [List.flatMap_cons]
    show gcoef (R :: f R :: L.flatMap fun R => [R, f R]) g = _
    rw [gcoef_cons, gcoef_cons, ih, List.map_cons, gcoef_cons, gcoef_cons]
    exact add4 _ _ _ _

theorem cpoly_length (c : Cx) (L : List Pauli) (n : Nat) (hL : ∀ R ∈ L, R.g.length = n) :
    ∀ t ∈ cpoly c L, t.1.g.length = n := by
  intro t ht
  obtain ⟨R, hR, rfl⟩ := List.mem_map.1 ht
  exact hL R hR

/-- the operator `(Σ L)·S` -/
theorem gcoef_mul_right (L : List Pauli) (S : Pauli) (g : PStr) (n : Nat) (hL : ∀ R ∈ L, R.g.length = n)
    (hS : S.g.length = n) (hg : g.length = n) :
    gcoef (L.map fun R => mul R S) g = (Cx.ipow (S.p + ipow (xorS g S.g) S.g)).mul (gcoef L (xorS g S.g)) := by
  have e := cpoly_matmul_single Cx.one Cx.one L S
  rw [Cx.one_mul] at e
  show coef (cpoly Cx.one (L.map fun R => mul R S)) g = _
  rw [← e, matmul_single_right, Pj.coef_map_right _ S Cx.one g n (cpoly_length _ L n hL) hS hg, Cx.one_mul]
  rfl

theorem length_matmul (a b : Poly) (n : Nat) (ha : ∀ t ∈ a, t.1.g.length = n) (hb : ∀ t ∈ b, t.1.g.length = n) :
    ∀ t ∈ polyMatmul a b, t.1.g.length = n := by
  induction a with
  | nil => intro t ht; rw [polyMatmul_nil] at ht; cases ht
  | cons x a ih =>
    intro t ht
    rw [polyMatmul_cons] at ht
    rcases List.mem_append.1 ht with ht | ht
    · obtain ⟨y, hy, rfl⟩ := List.mem_map.1 ht
      have hx := ha x List.mem_cons_self
      show (mul x.1 y.1).g.length = n
      rw [length_mul _ _ (hx.trans (hb y hy).symm)]; exact hx
    · exact ih (fun t ht => ha t (List.mem_cons_of_mem _ ht)) t ht

theorem proj_length (S : Pauli) (out : Int) (n : Nat) (hS : S.g.length = n) : ∀ t ∈ Pj.proj S out, t.1.g.length = n := by
  intro t ht
  unfold Pj.proj at ht
  rcases List.mem_cons.1 ht with rfl | ht
  · rw [hS]; exact length_idStr n
  · rw [List.mem_singleton.1 ht]; exact hS

/-- `acc` is `c` times the sum of the operators in `L` (on `n` qubits) -/
def Inv (n : Nat) (X : Poly) (L : List Pauli) (c : Cx) : Prop :=
  (∀ t ∈ X, t.1.g.length = n) ∧ (∀ R ∈ L, R.g.length = n) ∧ ∀ g, g.length = n → coef X g = c.mul (gcoef L g)

theorem step_arith (c u v w : Cx) :
    (Pj.half.mul (c.mul u)).add ((Pj.half.mul w).mul (c.mul v)) = (c.mul Pj.half).mul (u.add (w.mul v)) := by
  apply Cx.ext' <;> simp only [Cx.mul, Cx.add, Pj.half] <;> grind

/-- multiplying by the projector `(1 + S)/2` on the right -/
theorem fold_step (n : Nat) (X : Poly) (L : List Pauli) (c : Cx) (S : Pauli) (hS : S.g.length = n) (hI : Inv n X L c) :
    Inv n (polyMatmul X (Pj.proj S 0)) (L.flatMap fun R => [R, mul R S]) (c.mul Pj.half) := by
  obtain ⟨hX, hL, hc⟩ := hI
  refine ⟨length_matmul X _ n hX (proj_length S 0 n hS), ?_, ?_⟩
  · intro R hR
    obtain ⟨Q, hQ, hR⟩ := List.mem_flatMap.1 hR
    rcases List.mem_cons.1 hR with rfl | hR
    · exact hL _ hQ
    · rw [List.mem_singleton.1 hR, length_mul _ _ ((hL Q hQ).trans hS.symm)]; exact hL Q hQ
  · intro g hg
    have hl : (xorS g S.g).length = n := by rw [length_xorS_eq _ _ (hg.trans hS.symm)]; exact hg
    rw [Pj.right_coef X S 0 g n hX hS hg, gcoef_pairs, gcoef_mul_right L S g n hL hS hg, hc g hg, hc _ hl]
    show (Pj.half.mul _).add ((Pj.half.mul _).mul _) = _
    exact step_arith _ _ _ _

theorem half_pow_succ (k : Nat) : (⟨1 / (2 : Rat) ^ k, 0⟩ : Cx).mul Pj.half = ⟨1 / (2 : Rat) ^ (k + 1), 0⟩ := by
  have h := two_pow_ne k
  rw [Lean.Grind.Semiring.pow_succ]
  apply Cx.ext' <;> simp only [Cx.mul, Pj.half] <;> grind

/-- the product of the projectors of `as`, multiplied out from the left -/
def pfold (n : Nat) (as : List Pauli) : Poly := as.foldl (fun acc S => polyMatmul acc (Pj.proj S 0)) (polyIdentity n)

theorem pfold_snoc (n : Nat) (as : List Pauli) (S : Pauli) :
    pfold n (as ++ [S]) = polyMatmul (pfold n as) (Pj.proj S 0) := by
  unfold pfold
  rw [List.foldl_append]
  rfl

/-- **`∏_a (1 + S_a)/2 = 2^{-k} Σ (products of the S_a)`**, generators listed in reverse -/
theorem fold_coef (n : Nat) : ∀ rs : List Pauli, (∀ S ∈ rs, S.g.length = n) →
    Inv n (pfold n rs.reverse) (Ov.span n rs.reverse) ⟨1 / (2 : Rat) ^ rs.length, 0⟩ := by
  intro rs
  induction rs with
  | nil =>
    intro _
    refine ⟨?_, ?_, ?_⟩
    · intro t ht
      rw [List.mem_singleton.1 ht]; exact length_idStr n
    · intro R hR
      rw [List.mem_singleton.1 hR]; exact length_idStr n
    · intro g _
      show coef (polyIdentity n) g = (⟨1 / (2 : Rat) ^ 0, 0⟩ : Cx).mul (gcoef (Ov.span n []) g)
      rw [inv_pow_zero, Cx.one_mul]
      rfl
  | cons S rs ih =>
    intro hl
    have hS := hl S List.mem_cons_self
    have := fold_step n _ _ _ S hS (ih fun R hR => hl R (List.mem_cons_of_mem _ hR))
    rw [half_pow_succ] at this
    rw [List.reverse_cons, pfold_snoc, span_snoc, List.length_cons]
    exact this

theorem scale_combine (n r : Nat) (hr : r ≤ n) (x : Cx) :
    (⟨1 / (2 : Rat) ^ r, 0⟩ : Cx).mul ((⟨1 / (2 : Rat) ^ (n - r), 0⟩ : Cx).mul x) = (⟨1 / (2 : Rat) ^ n, 0⟩ : Cx).mul x := by
  have h1 := two_pow_ne (n - r)
  have h2 := two_pow_ne r
  rw [two_pow_split n r hr]
  apply Cx.ext' <;> simp only [Cx.mul] <;> grind

theorem projector_product (st : State) (n : Nat) (h : TabInv st n) (g : PStr) :
    coef (polySmul ⟨1 / (2 : Rat) ^ st.r, 0⟩ (pfold n st.active)) g = coef (densityPoly st) g := by
  have hl : ∀ S ∈ st.active.reverse, S.g.length = n := fun S hS =>
    inGroup_length st n h (Ov.active_inGroup st n h S (List.mem_reverse.1 hS))
  obtain ⟨i1, _, i3⟩ := fold_coef n st.active.reverse hl
  rw [List.reverse_reverse] at i1
  rw [List.reverse_reverse, List.length_reverse, St.length_active st n h] at i3
  rw [coef_smul]
  by_cases hg : g.length = n
  · rw [i3 g hg, coef_density st n h, Ov.densityRows_eq_span st n h]
    exact scale_combine n st.r h.2.1 _
  · rw [Pj.coef_of_length_ne _ g n i1 hg, Pj.density_wrong_length st n g h hg, Cx.mul_zero]

end Lp
end PC
