import PyCliffordModel.Proofs.StateLemmas
import PyCliffordModel.Model.Torch
/-! # Proofs/TorchLemmas — helper lemmas for C13 (vectorised torch kernels = sequential numpy kernels) -/
namespace PC

end PC
