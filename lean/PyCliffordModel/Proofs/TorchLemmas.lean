import PyCliffordModel.Proofs.StateLemmas
import PyCliffordModel.Proofs.RandomLemmas
import PyCliffordModel.Model.Torch
/-! # Proofs/TorchLemmas — helper lemmas for C13 (vectorised torch kernels = sequential numpy kernels) -/
namespace PC
namespace Tc

/-! ## `acq_grid`: two dot products against one signed sum -/

theorem dot_sub (a b : PStr) : T.dot (T.zs a) (T.xs b) - T.dot (T.xs a) (T.zs b) = acqSum a b := by
  induction a generalizing b with
  | nil => simp [T.dot, T.zs, T.xs, acqSum]
  | cons x xs ih =>
    cases b with
    | nil => simp [T.dot, T.zs, T.xs, acqSum]
    | cons y ys =>
      have := ih ys
      simp only [T.zs, T.xs, List.map_cons, T.dot, acqSum, acqQ] at this ⊢
      omega

theorem acqGrid_eq (a b : PStr) : T.acqGrid a b = acq a b := by
  unfold T.acqGrid acq; rw [dot_sub]

/-! ## mask multiplication: `(gs + g * mask) % 2` with `mask ∈ {0,1}` -/

theorem bit_mask0 (a : Bool) (c : Int) : (((b2i a + c * 0) % 2) != 0) = a := by
  cases a <;> simp [b2i]

theorem bit_mask1 (a b : Bool) : (((b2i a + b2i b * 1) % 2) != 0) = (a != b) := by
  cases a <;> cases b <;> simp [b2i]

theorem zipMask_zero (h g : PStr) (hl : h.length ≤ g.length) :
    ((h.zip g).map fun (a, b) =>
      (((b2i a.1 + b2i b.1 * (0 : Int)) % 2) != 0, ((b2i a.2 + b2i b.2 * (0 : Int)) % 2) != 0)) = h := by
  induction h generalizing g with
  | nil => simp
  | cons x xs ih =>
    cases g with
    | nil => simp at hl
    | cons y ys =>
      rw [List.zip_cons_cons, List.map_cons, ih ys (by simpa using hl)]
      simp only [bit_mask0]

theorem zipMask_one (h g : PStr) :
    ((h.zip g).map fun (a, b) =>
      (((b2i a.1 + b2i b.1 * (1 : Int)) % 2) != 0, ((b2i a.2 + b2i b.2 * (1 : Int)) % 2) != 0)) = xorS h g := by
  induction h generalizing g with
  | nil => simp [xorS]
  | cons x xs ih =>
    cases g with
    | nil => simp [xorS]
    | cons y ys =>
      rw [List.zip_cons_cons, List.map_cons, ih ys]
      simp only [bit_mask1, xorS, xorQ]

/-! ## `pauli_is_onsite`: `count_nonzero` of the two slices -/

theorem countNonzero_nil : T.countNonzero [] = 0 := rfl

theorem countNonzero_cons (q : Q) (qs : PStr) :
    T.countNonzero (q :: qs) = (if q.1 then 1 else 0) + (if q.2 then 1 else 0) + T.countNonzero qs := by
  obtain ⟨a, b⟩ := q
  cases a <;> cases b <;> simp [T.countNonzero, flat] <;> omega

theorem countNonzero_eq_zero (g : PStr) : T.countNonzero g = 0 ↔ ∀ j, getQ g j = (false, false) := by
  induction g with
  | nil => simp [countNonzero_nil, Rn.getQ_nil]
  | cons q qs ih =>
    rw [countNonzero_cons]
    constructor
    · intro h j
      have hq : q = (false, false) := by
        obtain ⟨a, b⟩ := q
        cases a <;> cases b <;> simp at h ⊢
      cases j with
      | zero => rw [Rn.getQ_cons_zero]; exact hq
      | succ j => rw [Rn.getQ_cons_succ]; exact (ih.1 (by omega)) j
    · intro h
      have h0 := h 0
      rw [Rn.getQ_cons_zero] at h0
      have : T.countNonzero qs = 0 := ih.2 (fun j => by have := h (j + 1); rwa [Rn.getQ_cons_succ] at this)
      rw [this, h0]; simp

theorem getQ_take (g : PStr) (k j : Nat) : getQ (g.take k) j = if j < k then getQ g j else (false, false) := by
  unfold getQ
  rw [List.getD_eq_getElem?_getD, List.getD_eq_getElem?_getD, List.getElem?_take]
  split <;> simp

theorem getQ_drop (g : PStr) (k j : Nat) : getQ (g.drop k) j = getQ g (k + j) := by
  unfold getQ
  rw [List.getD_eq_getElem?_getD, List.getD_eq_getElem?_getD, List.getElem?_drop]

theorem isOnsite_iff (g : PStr) (i0 : Nat) :
    T.isOnsite g i0 = true ↔ ∀ j, j ≠ i0 → getQ g j = (false, false) := by
  unfold T.isOnsite
  have key : (T.countNonzero (g.take i0) + T.countNonzero (g.drop (i0 + 1)) ≥ 1) ↔
      ¬ (T.countNonzero (g.take i0) = 0 ∧ T.countNonzero (g.drop (i0 + 1)) = 0) := by omega
  simp only [Bool.not_eq_true', decide_eq_false_iff_not, key, Classical.not_not,
    countNonzero_eq_zero, getQ_take, getQ_drop]
  constructor
  · rintro ⟨h1, h2⟩ j hj
    by_cases hlt : j < i0
    · have := h1 j; rwa [if_pos hlt] at this
    · have := h2 (j - (i0 + 1))
      have e : i0 + 1 + (j - (i0 + 1)) = j := by omega
      rwa [e] at this
  · intro h
    refine ⟨fun j => ?_, fun j => h _ (by omega)⟩
    split
    · exact h j (by omega)
    · rfl

theorem isOnsite_eq (g : PStr) (i0 : Nat) : T.isOnsite g i0 = isOnsite g i0 := by
  rw [Bool.eq_iff_iff, isOnsite_iff, Rn.isOnsite_iff]

/-! ## `front`: `argmax // 2` over the flat bits against the first non-trivial qubit -/

theorem argmaxBits_of_some (bs : List Bool) (f : Nat) (h : bs.findIdx? id = some f) : T.argmaxBits bs = f := by
  cases bs with
  | nil => simp at h
  | cons b bs => simp only [T.argmaxBits, h]

theorem findIdx_flat (g : PStr) (hg : anyBit g = true) :
    ∃ i f, g.findIdx? nontrivQ = some i ∧ (flat g).findIdx? id = some f ∧ f / 2 = i := by
  induction g with
  | nil => simp [anyBit] at hg
  | cons q qs ih =>
    obtain ⟨a, b⟩ := q
    cases a with
    | true => exact ⟨0, 0, by simp [List.findIdx?_cons, nontrivQ], by simp [flat, List.findIdx?_cons], rfl⟩
    | false =>
      cases b with
      | true => exact ⟨0, 1, by simp [List.findIdx?_cons, nontrivQ], by simp [flat, List.findIdx?_cons], rfl⟩
      | false =>
        have hq : anyBit qs = true := by simpa [anyBit] using hg
        obtain ⟨i, f, h1, h2, h3⟩ := ih hq
        refine ⟨i + 1, f + 2, ?_, ?_, by omega⟩
        · simp [List.findIdx?_cons, nontrivQ, h1]
        · simp [flat, List.findIdx?_cons, h2]

theorem front_eq (g : PStr) (hg : anyBit g = true) : T.front g = front g := by
  obtain ⟨i, f, h1, h2, h3⟩ := findIdx_flat g hg
  unfold T.front front
  rw [argmaxBits_of_some _ f h2, h1, h3]

/-! ## `condense` -/

theorem mask_eq (q : Q) : decide (b2i q.1 + b2i q.2 ≥ 1) = nontrivQ q := by
  obtain ⟨a, b⟩ := q
  cases a <;> cases b <;> simp [b2i, nontrivQ]

theorem gather_map (p : Q → Bool) (g : PStr) : gather (g.map p) g = g.filter p := by
  induction g with
  | nil => rfl
  | cons q qs ih =>
    simp only [List.map_cons, gather, ih, List.filter_cons]

theorem getD_map_nontriv (g : PStr) (i : Nat) :
    (g.map nontrivQ).getD i false = nontrivQ (g.getD i (false, false)) := by
  rw [List.getD_eq_getElem?_getD, List.getD_eq_getElem?_getD, List.getElem?_map]
  cases g[i]? <;> simp [nontrivQ]

theorem condense_eq (g : PStr) : T.condense g = condense g := by
  unfold T.condense condense
  have hm : (g.map fun q => decide (b2i q.1 + b2i q.2 ≥ 1)) = g.map nontrivQ := by
    apply List.map_congr_left; intro q _; exact mask_eq q
  simp only [hm, gather_map, getD_map_nontriv]

/-! ## strided slices: `evens`, `odds`, `interleave` -/

theorem rowAt_cons_cons (a b : Pauli) (M : List Pauli) (j : Nat) : rowAt (a :: b :: M) (j + 2) = rowAt M j := by
  simp [rowAt]

theorem odds_eq (n : Nat) : ∀ M : List Pauli, M.length = 2 * n →
    T.odds M = (List.range n).map fun i => rowAt M (2 * i + 1) := by
  induction n with
  | zero => intro M h; have : M = [] := List.eq_nil_of_length_eq_zero (by omega); subst this; rfl
  | succ n ih =>
    intro M h
    match M, h with
    | a :: b :: M', h =>
      rw [T.odds, ih M' (by simp at h; omega), List.range_succ_eq_map, List.map_cons, List.map_map]
      congr 1

theorem evens_eq (n : Nat) : ∀ M : List Pauli, M.length = 2 * n →
    T.evens M = (List.range n).map fun i => rowAt M (2 * i) := by
  induction n with
  | zero => intro M h; have : M = [] := List.eq_nil_of_length_eq_zero (by omega); subst this; rfl
  | succ n ih =>
    intro M h
    match M, h with
    | a :: b :: M', h =>
      rw [T.evens, ih M' (by simp at h; omega), List.range_succ_eq_map, List.map_cons, List.map_map]
      congr 1

theorem mapToState_eq (M : List Pauli) (n : Nat) (h : M.length = 2 * n) : T.mapToState M = mapToState M := by
  unfold T.mapToState mapToState
  have hn : M.length / 2 = n := by omega
  simp only [hn]
  rw [odds_eq n M h, evens_eq n M h]

theorem rowAt_cons_succ (a : Pauli) (M : List Pauli) (j : Nat) : rowAt (a :: M) (j + 1) = rowAt M j := by
  simp [rowAt]

theorem interleave_eq : ∀ (A B : List Pauli), A.length = B.length →
    T.interleave A B = (List.range A.length).flatMap fun i => [rowAt A i, rowAt B i]
  | [], B, _ => by cases B <;> simp [T.interleave]
  | a :: A, [], h => by simp at h
  | a :: A, b :: B, h => by
    rw [T.interleave, interleave_eq A B (by simpa using h), List.length_cons, List.range_succ_eq_map,
      List.flatMap_cons, List.flatMap_map]
    simp only [rowAt_cons_succ]
    simp [rowAt]

theorem stateToMap_eq (T0 : List Pauli) (n : Nat) (h : T0.length = 2 * n) : T.stateToMap T0 = stateToMap T0 := by
  unfold T.stateToMap stateToMap
  have hn : T0.length / 2 = n := by omega
  simp only [hn]
  rw [interleave_eq _ _ (by simp; omega)]
  have hl : (T0.drop n).length = n := by simp; omega
  rw [hl]
  apply List.flatMap_congr
  intro i hi
  have hi' : i < n := List.mem_range.1 hi
  simp only [rowAt, List.getD_eq_getElem?_getD, List.getElem?_drop, List.getElem?_take, if_pos hi']

/-! ## `batch_dot`: the flattened broadcast against the nested loop -/

theorem getElem?_filterMap_all_some {α β : Type} (f : α → Option β) (l : List α)
    (h : ∀ x ∈ l, (f x).isSome = true) (k : Nat) : (l.filterMap f)[k]? = (l[k]?).bind f := by
  induction l generalizing k with
  | nil => simp
  | cons x xs ih =>
    have hx := h x (by simp)
    obtain ⟨y, hy⟩ := Option.isSome_iff_exists.1 hx
    rw [List.filterMap_cons_some hy]
    cases k with
    | zero => simp [hy]
    | succ k =>
      simp only [List.getElem?_cons_succ]
      exact ih (fun z hz => h z (by simp [hz])) k

theorem batchDot_eq {C : Type} (cmul : C → C → C) (a b : List (Pauli × C)) :
    T.batchDot cmul a b = batchDot cmul a b := by
  apply List.ext_getElem?
  intro k
  unfold T.batchDot
  rw [getElem?_filterMap_all_some]
  · by_cases hk : k < a.length * b.length
    · have hb : 0 < b.length := by
        rcases Nat.eq_zero_or_pos b.length with h0 | h0
        · rw [h0] at hk; simp at hk
        · exact h0
      have h1 : k / b.length < a.length := by
        rw [Nat.div_lt_iff_lt_mul hb]; exact hk
      have h2 : k % b.length < b.length := Nat.mod_lt _ hb
      have := batchDot_getElem? cmul a b (k / b.length) (k % b.length) h1 h2
      rw [Nat.div_add_mod'] at this
      rw [this, List.getElem?_range hk, Option.bind_some, List.getElem?_eq_getElem h1,
        List.getElem?_eq_getElem h2]
      rfl
    · rw [List.getElem?_eq_none (by simpa using hk),
        List.getElem?_eq_none (by rw [length_batchDot]; omega)]
      rfl
  · intro k hk
    have hk : k < a.length * b.length := List.mem_range.1 hk
    have hb : 0 < b.length := by
      rcases Nat.eq_zero_or_pos b.length with h0 | h0
      · rw [h0] at hk; simp at hk
      · exact h0
    have h1 : k / b.length < a.length := by
      rw [Nat.div_lt_iff_lt_mul hb]; exact hk
    have h2 : k % b.length < b.length := Nat.mod_lt _ hb
    rw [List.getElem?_eq_getElem h1, List.getElem?_eq_getElem h2]
    rfl

/-! ## `vectorizable_stabilizer_expect`: masked accumulation against the early-exit loop -/

/-- one masked update of the accumulator with coefficient `c = acq * mask` -/
def vstep (c : Int) (acc s : Pauli) : Pauli :=
  ⟨(acc.g.zip s.g).map fun (x, y) => (((b2i x.1 + c * b2i y.1) % 2) != 0, ((b2i x.2 + c * b2i y.2) % 2) != 0),
   (acc.p + c * (s.p + ipow acc.g s.g)) % 4⟩

theorem vecExpectAux_nil (T0 : List Pauli) (obs : PStr) (N r j : Nat) (acc : Pauli) :
    T.vecExpectAux T0 obs N r j [] acc = acc := rfl

theorem vecExpectAux_cons (T0 : List Pauli) (obs : PStr) (N r j : Nat) (row : Pauli) (rest : List Pauli) (acc : Pauli) :
    T.vecExpectAux T0 obs N r j (row :: rest) acc =
      T.vecExpectAux T0 obs N r (j + 1) rest
        (vstep (T.acqGrid row.g obs * (if j < N + r then 0 else 1)) acc (rowAt T0 (j - N))) := rfl

theorem bit_coef0 (a : Bool) (c : Int) : (((b2i a + 0 * c) % 2) != 0) = a := by
  cases a <;> simp [b2i]

theorem bit_coef1 (a b : Bool) : (((b2i a + 1 * b2i b) % 2) != 0) = (a != b) := by
  cases a <;> cases b <;> simp [b2i]

theorem zipCoef_zero (h g : PStr) (hl : h.length ≤ g.length) :
    ((h.zip g).map fun (x, y) =>
      (((b2i x.1 + (0 : Int) * b2i y.1) % 2) != 0, ((b2i x.2 + (0 : Int) * b2i y.2) % 2) != 0)) = h := by
  induction h generalizing g with
  | nil => simp
  | cons x xs ih =>
    cases g with
    | nil => simp at hl
    | cons y ys =>
      rw [List.zip_cons_cons, List.map_cons, ih ys (by simpa using hl)]
      simp only [bit_coef0]

theorem zipCoef_one (h g : PStr) :
    ((h.zip g).map fun (x, y) =>
      (((b2i x.1 + (1 : Int) * b2i y.1) % 2) != 0, ((b2i x.2 + (1 : Int) * b2i y.2) % 2) != 0)) = xorS h g := by
  induction h generalizing g with
  | nil => simp [xorS]
  | cons x xs ih =>
    cases g with
    | nil => simp [xorS]
    | cons y ys =>
      rw [List.zip_cons_cons, List.map_cons, ih ys]
      simp only [bit_coef1, xorS, xorQ]

theorem vstep_zero (acc s : Pauli) (hl : acc.g.length ≤ s.g.length) (h0 : 0 ≤ acc.p) (h4 : acc.p < 4) :
    vstep 0 acc s = acc := by
  unfold vstep
  rw [zipCoef_zero _ _ hl]
  have : (acc.p + 0 * (s.p + ipow acc.g s.g)) % 4 = acc.p := by omega
  rw [this]

theorem vstep_one (acc s : Pauli) :
    vstep 1 acc s = ⟨xorS acc.g s.g, (acc.p + s.p + ipow acc.g s.g) % 4⟩ := by
  unfold vstep
  rw [zipCoef_one]
  have : (acc.p + 1 * (s.p + ipow acc.g s.g)) % 4 = (acc.p + s.p + ipow acc.g s.g) % 4 := by omega
  rw [this]

theorem foldl_mul (l : List Int) (c : Int) : l.foldl (· * ·) c = c * l.foldl (· * ·) 1 := by
  induction l generalizing c with
  | nil => simp
  | cons x xs ih =>
    simp only [List.foldl_cons]
    rw [ih (c * x), ih (1 * x), Int.one_mul, Int.mul_assoc]

/-- the product of `(acq + 1) % 2` over the first `k` rows -/
def trivP (obs : PStr) (rows : List Pauli) (k : Nat) : Int :=
  ((rows.take k).map fun row => (T.acqGrid row.g obs + 1) % 2).foldl (· * ·) 1

theorem trivP_zero (obs : PStr) (rows : List Pauli) : trivP obs rows 0 = 1 := by simp [trivP]
theorem trivP_nil (obs : PStr) (k : Nat) : trivP obs [] k = 1 := by simp [trivP]
theorem trivP_cons (obs : PStr) (row : Pauli) (rest : List Pauli) (k : Nat) :
    trivP obs (row :: rest) (k + 1) = ((acq row.g obs + 1) % 2) * trivP obs rest k := by
  unfold trivP
  rw [List.take_succ_cons, List.map_cons, List.foldl_cons, foldl_mul, Int.one_mul, acqGrid_eq]

theorem trivP_step0 (obs : PStr) (row : Pauli) (rest : List Pauli) (m j : Nat) (h0 : acq row.g obs = 0) :
    trivP obs (row :: rest) (m - j) = trivP obs rest (m - (j + 1)) := by
  by_cases hj : j < m
  · rw [show m - j = (m - (j + 1)) + 1 by omega, trivP_cons, h0]; simp
  · rw [show m - j = 0 by omega, show m - (j + 1) = 0 by omega, trivP_zero, trivP_zero]

theorem vecAux_spec (T0 : List Pauli) (obs : PStr) (N r n : Nat)
    (hT : ∀ i, i < T0.length → (rowAt T0 i).g.length = n) :
    ∀ (rows : List Pauli) (j : Nat) (acc : Pauli), j + rows.length ≤ T0.length → acc.g.length = n →
      0 ≤ acc.p → acc.p < 4 →
      (expectAux T0 obs N r j rows acc = none ∧ trivP obs rows (N + r - j) = 0) ∨
      (expectAux T0 obs N r j rows acc = some (T.vecExpectAux T0 obs N r j rows acc) ∧
        trivP obs rows (N + r - j) = 1) := by
  intro rows
  induction rows with
  | nil =>
    intro j acc _ _ _ _
    exact Or.inr ⟨rfl, trivP_nil _ _⟩
  | cons row rest ih =>
    intro j acc hj hl h0 h4
    have hjT : j - N < T0.length := by simp at hj; omega
    have hs := hT (j - N) hjT
    rw [vecExpectAux_cons, acqGrid_eq]
    rcases acq_bit row.g obs with ha | ha
    · have hanti := (anti_eq_false_iff row.g obs).2 ha
      rw [ha, Int.zero_mul, vstep_zero _ _ (by omega) h0 h4, trivP_step0 _ _ _ _ _ ha]
      have : expectAux T0 obs N r j (row :: rest) acc = expectAux T0 obs N r (j + 1) rest acc := by
        simp [expectAux, hanti]
      rw [this]
      exact ih (j + 1) acc (by simp at hj; omega) hl h0 h4
    · have hanti := (anti_iff row.g obs).2 ha
      by_cases hlt : j < N + r
      · left
        refine ⟨by simp [expectAux, hanti, hlt], ?_⟩
        rw [show N + r - j = (N + r - (j + 1)) + 1 by omega, trivP_cons, ha]; simp
      · rw [ha, if_neg hlt, Int.mul_one, vstep_one]
        have : expectAux T0 obs N r j (row :: rest) acc = expectAux T0 obs N r (j + 1) rest
            ⟨xorS acc.g (rowAt T0 (j - N)).g, (acc.p + (rowAt T0 (j - N)).p + ipow acc.g (rowAt T0 (j - N)).g) % 4⟩ := by
          simp [expectAux, hanti, hlt]
        rw [this, show N + r - j = 0 by omega, trivP_zero]
        have := ih (j + 1) ⟨xorS acc.g (rowAt T0 (j - N)).g, (acc.p + (rowAt T0 (j - N)).p + ipow acc.g (rowAt T0 (j - N)).g) % 4⟩
          (by simp at hj; omega) (by rw [length_xorS_eq _ _ (by omega)]; exact hl)
          (Int.emod_nonneg _ (by decide)) (Int.emod_lt_of_pos _ (by decide))
        rw [show N + r - (j + 1) = 0 by omega, trivP_zero] at this
        exact this

theorem vecExpect_eq (st : State) (obs : Pauli) (n : Nat) (hs : st.rows.length = 2 * n)
    (hrow : ∀ R ∈ st.rows, R.g.length = n) : T.vecExpect1 st obs = expect1 st obs := by
  have hN : st.N = n := by unfold State.N; omega
  have hT : ∀ i, i < st.rows.length → (rowAt st.rows i).g.length = n := by
    intro i hi
    apply hrow
    simp [rowAt, hi]
  have key := vecAux_spec st.rows obs.g st.N st.r n hT st.rows 0 ⟨idStr st.N, 0⟩ (by simp)
    (by rw [length_idStr]; exact hN) (by simp) (by simp)
  unfold T.vecExpect1 expect1
  rcases key with ⟨h1, h2⟩ | ⟨h1, h2⟩
  · rw [h1]
    have : trivP obs.g st.rows (st.N + st.r - 0) = 0 := h2
    simp only [trivP, Nat.sub_zero] at this
    simp only [this, Int.mul_zero]
  · rw [h1]
    have : trivP obs.g st.rows (st.N + st.r - 0) = 1 := h2
    simp only [trivP, Nat.sub_zero] at this
    simp only [this, Int.mul_one]

end Tc
end PC
