import PyCliffordModel.Model.Device
import PyCliffordModel.Proofs.GroupLemmas
import PyCliffordModel.Proofs.CompileLemmas
/-! # Proofs/ShadowLemmas — helper lemmas for C19 (classical shadows)

Layout:
* §1 the stabilizer group is abelian; measuring pairwise commuting observables (`measure_commuting`); `measure` fails
  only for lack of coins (`measure_error_coin`, `measure_ok_of_coins`);
* §2 deterministic gates preserve commutation and Hermiticity; the inverse of a gate is a gate (`invGate`), hence the same
  holds for `gateActInv`, `seqAct`, `seqActInv`;
* §3 the POVM of a circuit (`povm_spec`);
* §4 strings that commute with every `Z_q` have no `X` component and commute with each other (`acq_of_comm_allZ`);
  purity of a snapshot.
-/
namespace PC
namespace Sh
open Ms

/-! ## §1 the group is abelian; lists of commuting observables -/

/-- two stabilizers commute -/
theorem inGroup_comm (st : State) (n : Nat) (h : TabInv st n) {A B : Pauli} (hA : InGroup st A) (hB : InGroup st B) :
    acq A.g B.g = 0 := by
  obtain ⟨c, hc, eA⟩ := hA
  rw [← eA.1]
  unfold combine
  rw [St.acq_combineAux_commute n B.g c st.active ⟨idStr st.N, 0⟩ (St.active_rows_length st n h)
    (by rw [St.tabInv_N st n h]; exact length_idStr n) (by
      intro R hR
      obtain ⟨k, hk, rfl⟩ := active_row_exists st n h R hR
      have := inGroup_comm_low st n h hB (st.r + k) (by omega)
      unfold gAt at this
      rw [acq_symm]; exact this)]
  exact acq_idStr_left _ _

/-- **measuring pairwise commuting Hermitian observables** -/
theorem measure_commuting (st st' : State) (n : Nat) (obs : List Pauli) (coins cs : List Bool) (outs : List Int) (k : Nat)
    (h : TabInv st n) (ho : ∀ O ∈ obs, O.g.length = n ∧ O.p % 2 = 0)
    (hc : ∀ A ∈ obs, ∀ B ∈ obs, acq A.g B.g = 0)
    (hm : measure st obs coins = .ok (st', outs, k, cs)) :
    TabInv st' n ∧ outs.length = obs.length ∧
    (∀ i, i < obs.length → (outs.getD i 0 = 0 ∨ outs.getD i 0 = 1) ∧
      InGroup st' ⟨(rowAt obs i).g, (rowAt obs i).p + 2 * outs.getD i 0⟩) ∧
    (∀ P : Pauli, InGroup st P → (∀ O ∈ obs, acq P.g O.g = 0) → InGroup st' P) ∧
    (∀ P : Pauli, InGroup st P → ¬ InGroup st' (neg P)) := by
  obtain ⟨h', hl, hkeep, hin⟩ := Gr.measure_list_full n obs st st' coins cs outs k h ho hm
  refine ⟨h', hl, hin hc, hkeep, ?_⟩
  intro P hP hneg
  by_cases hall : ∀ O ∈ obs, acq P.g O.g = 0
  · have h1 := hkeep P hP hall
    have := inGroup_phase_unique st' n h' h1 hneg rfl
    simp only [neg] at this
    omega
  · have hex : ∃ O, O ∈ obs ∧ acq P.g O.g ≠ 0 := by
      apply Classical.byContradiction
      intro hne
      apply hall
      intro O hO
      apply Classical.byContradiction
      intro hne2
      exact hne ⟨O, hO, hne2⟩
    obtain ⟨O, hO, hne⟩ := hex
    obtain ⟨i, hi, rfl⟩ := exists_rowAt_of_mem obs O hO
    have h2 := (hin hc i hi).2
    have := inGroup_comm st' n h' hneg h2
    simp only [neg] at this
    exact hne this

/-- under the invariant a list measurement can only fail for lack of coins -/
theorem measure_error_coin (n : Nat) (obs : List Pauli) : ∀ (st : State) (coins : List Bool) (e : Err),
    TabInv st n → (∀ O ∈ obs, O.g.length = n ∧ O.p % 2 = 0) → measure st obs coins = .error e → e = .coin := by
  induction obs with
  | nil => intro st coins e _ _ hm; simp [measure] at hm
  | cons o os ih =>
    intro st coins e h ho hm
    have ho1 := ho o (by simp)
    have hos : ∀ o' ∈ os, o'.g.length = n ∧ o'.p % 2 = 0 := fun o' ho' => ho o' (by simp [ho'])
    obtain ⟨res, h1⟩ := measure1_total st n o (coins.headD false) h ho1.1
    obtain ⟨st1, out, rnd⟩ := res
    have i1 := measure1_inv st st1 n o _ out rnd h ho1.1 h1
    simp only [measure, h1] at hm
    split at hm
    · injection hm with hm; exact hm.symm
    · cases h2 : measure st1 os (if rnd then coins.tail else coins) with
      | error e2 =>
        rw [h2] at hm
        injection hm with hm
        subst hm
        exact ih st1 _ e2 i1 hos h2
      | ok res2 => rw [h2] at hm; exact absurd hm (by simp)

/-- with one coin per observable a list measurement succeeds -/
theorem measure_ok_of_coins (n : Nat) (obs : List Pauli) : ∀ (st : State) (coins : List Bool),
    TabInv st n → (∀ O ∈ obs, O.g.length = n ∧ O.p % 2 = 0) → obs.length ≤ coins.length →
    ∃ res, measure st obs coins = .ok res := by
  induction obs with
  | nil => intro st coins _ _ _; exact ⟨_, rfl⟩
  | cons o os ih =>
    intro st coins h ho hlen
    have ho1 := ho o (by simp)
    have hos : ∀ o' ∈ os, o'.g.length = n ∧ o'.p % 2 = 0 := fun o' ho' => ho o' (by simp [ho'])
    obtain ⟨res, h1⟩ := measure1_total st n o (coins.headD false) h ho1.1
    obtain ⟨st1, out, rnd⟩ := res
    have i1 := measure1_inv st st1 n o _ out rnd h ho1.1 h1
    have hne : coins.isEmpty = false := by
      cases coins with
      | nil => simp at hlen
      | cons a as => rfl
    have hl2 : os.length ≤ (if rnd then coins.tail else coins).length := by
      simp only [List.length_cons] at hlen
      split
      · rw [List.length_tail]; omega
      · omega
    obtain ⟨res2, h2⟩ := ih st1 _ i1 hos hl2
    obtain ⟨st2, outs2, k2, cs⟩ := res2
    simp only [measure, h1, hne, Bool.and_false, h2]
    exact ⟨_, rfl⟩

/-! ## §2 gates preserve commutation and Hermiticity; the inverse of a gate is a gate -/

theorem gateAct_acq (g : Gate) (N : Nat) (hg : g.WF N) (P Q : Pauli) (hP : P.g.length = N) (hQ : Q.g.length = N) :
    acq (gateAct g N P).g (gateAct g N Q).g = acq P.g Q.g := by
  obtain ⟨_, hq, hn, hk⟩ := hg
  have hc : maskCount (maskOf g.qubits N) = g.n := Ci.maskCount_maskOf g.qubits N hn hq
  have hl : (maskOf g.qubits N).length = N := Ci.length_maskOf g.qubits N
  rcases hk with ⟨G, hgen, hGl, hGp⟩ | ⟨hgen, M, hM, hV⟩
  · unfold gateAct
    rw [hgen]
    simp only
    rw [rotateMasked_eq_rotate_embedGen G P, rotateMasked_eq_rotate_embedGen G Q, hP, hQ]
    exact rotate_acq _ P Q (by rw [length_embedGen]; exact hP.symm) (by rw [length_embedGen]; exact hQ.symm)
  · unfold gateAct
    rw [hgen, hM]
    simp only
    exact Rc.transformMasked_acq M _ N hl (by rw [hc]; exact hV) P Q hP hQ

theorem gateAct_herm (g : Gate) (N : Nat) (hg : g.WF N) (P : Pauli) (hP : P.g.length = N) (hp : P.p % 2 = 0) :
    (gateAct g N P).p % 2 = 0 := by
  obtain ⟨_, hq, hn, hk⟩ := hg
  have hc : maskCount (maskOf g.qubits N) = g.n := Ci.maskCount_maskOf g.qubits N hn hq
  have hl : (maskOf g.qubits N).length = N := Ci.length_maskOf g.qubits N
  rcases hk with ⟨G, hgen, hGl, hGp⟩ | ⟨hgen, M, hM, hV⟩
  · unfold gateAct
    rw [hgen]
    simp only
    exact Gr.rotateMasked_p_even G _ P hGp hp
  · unfold gateAct
    rw [hgen, hM]
    simp only
    exact Rc.transformMasked_hermitian M _ N hl (by rw [hc]; exact hV) P hP hp

/-- the inverse gate: rotation by the negated generator / the inverse map on the same qubits -/
def invGate (g : Gate) : Gate :=
  match g.gen with
  | some G => { qubits := g.qubits, gen := some (neg G) }
  | none =>
    match g.fmap with
    | some M => match inverse M with
      | some B => { qubits := g.qubits, fmap := some B }
      | none => { qubits := g.qubits }
    | none => { qubits := g.qubits }

theorem gateActInv_eq_invGate (g : Gate) (N : Nat) (P : Pauli) : gateActInv g N P = gateAct (invGate g) N P := by
  unfold gateActInv invGate gateAct
  cases g.gen with
  | some G => rfl
  | none =>
    cases g.fmap with
    | none => rfl
    | some M =>
      dsimp only
      cases inverse M with
      | none => rfl
      | some B => rfl

theorem invGate_WF (g : Gate) (N : Nat) (hg : g.WF N) : (invGate g).WF N := by
  obtain ⟨h0, hq, hn, hk⟩ := hg
  rcases hk with ⟨G, hgen, hGl, hGp⟩ | ⟨hgen, M, hM, hV⟩
  · have e : invGate g = { qubits := g.qubits, gen := some (neg G) } := by unfold invGate; rw [hgen]
    rw [e]
    refine ⟨h0, hq, hn, Or.inl ⟨neg G, rfl, hGl, ?_⟩⟩
    simp only [neg]; omega
  · obtain ⟨B, hB, hVB, _, _⟩ := Cp.inverse_spec M g.n hV
    have e : invGate g = { qubits := g.qubits, fmap := some B } := by
      unfold invGate; rw [hgen, hM]; dsimp only; rw [hB]
    rw [e]
    exact ⟨h0, hq, hn, Or.inr ⟨rfl, B, rfl, hVB⟩⟩

theorem gateActInv_acq (g : Gate) (N : Nat) (hg : g.WF N) (P Q : Pauli) (hP : P.g.length = N) (hQ : Q.g.length = N) :
    acq (gateActInv g N P).g (gateActInv g N Q).g = acq P.g Q.g := by
  rw [gateActInv_eq_invGate, gateActInv_eq_invGate]
  exact gateAct_acq _ N (invGate_WF g N hg) P Q hP hQ

theorem gateActInv_herm (g : Gate) (N : Nat) (hg : g.WF N) (P : Pauli) (hP : P.g.length = N) (hp : P.p % 2 = 0) :
    (gateActInv g N P).p % 2 = 0 := by
  rw [gateActInv_eq_invGate]
  exact gateAct_herm _ N (invGate_WF g N hg) P hP hp

theorem seqAct_acq (prog : List Gate) (N : Nat) (hw : ∀ g ∈ prog, g.WF N) (P Q : Pauli) (hP : P.g.length = N)
    (hQ : Q.g.length = N) : acq (seqAct prog N P).g (seqAct prog N Q).g = acq P.g Q.g := by
  induction prog generalizing P Q with
  | nil => rfl
  | cons g gs ih =>
    rw [Ci.seqAct_cons, Ci.seqAct_cons,
      ih (fun x hx => hw x (by simp [hx])) _ _ (by rw [Ci.length_gateAct]; exact hP) (by rw [Ci.length_gateAct]; exact hQ)]
    exact gateAct_acq g N (hw g (by simp)) P Q hP hQ

theorem seqActInv_acq (prog : List Gate) (N : Nat) (hw : ∀ g ∈ prog, g.WF N) (P Q : Pauli) (hP : P.g.length = N)
    (hQ : Q.g.length = N) : acq (seqActInv prog N P).g (seqActInv prog N Q).g = acq P.g Q.g := by
  induction prog with
  | nil => rfl
  | cons g gs ih =>
    rw [Ci.seqActInv_cons, Ci.seqActInv_cons,
      gateActInv_acq g N (hw g (by simp)) _ _ (by rw [Ci.length_seqActInv]; exact hP)
        (by rw [Ci.length_seqActInv]; exact hQ)]
    exact ih (fun x hx => hw x (by simp [hx]))

theorem seqActInv_herm (prog : List Gate) (N : Nat) (hw : ∀ g ∈ prog, g.WF N) (P : Pauli) (hP : P.g.length = N)
    (hp : P.p % 2 = 0) : (seqActInv prog N P).p % 2 = 0 := by
  induction prog with
  | nil => exact hp
  | cons g gs ih =>
    rw [Ci.seqActInv_cons]
    exact gateActInv_herm g N (hw g (by simp)) _ (by rw [Ci.length_seqActInv]; exact hP)
      (ih (fun x hx => hw x (by simp [hx])))

/-! ## §3 the POVM of a circuit -/

theorem povm_spec (N : Nat) (prog : List Gate) (c : Circ) (rnd : List CMap)
    (hw : ∀ g ∈ prog, g.WF N) (hbm : ∀ g ∈ prog, g.BmapOK) (hb : buildCirc N prog = .ok c) :
    ∃ c' z, povm1 c rnd = .ok (c', z, rnd) ∧ z.r = 0 ∧ TabInv z N ∧
      RowsPEq' z.rows ((zeroState N).rows.map (seqActInv prog N)) ∧
      (∀ q, q < N → PEq (rowAt z.active q) (seqActInv prog N ⟨unitZ N q, 0⟩)) ∧ z.active.length = N := by
  obtain ⟨hI, hI2⟩ := Cm.build_inv N prog c Gate.BmapOK hw hbm hb
  have hcN : c.N = N := hI.1
  have hz : TabInv (zeroState N) N := toState_inv (idMap N) N 0 (idMap_valid N) (Nat.zero_le _)
  have hr0 : ∀ R ∈ (zeroState N).rows, R.g.length = N := hz.2.2.1
  obtain ⟨c', hc'⟩ := Cm.backward_exact N c prog (zeroState N).rows 0 true [] rnd hI hI2 hr0
  have hf : ∀ P : Pauli, P.g.length = N → PEq (Cm.backAct c.layers.reverse N P) (seqActInv prog N P) := by
    intro P hP
    have h1 := Cm.backAct_eq N c.layers.reverse (fun L hL => hI2.2.1 L (List.mem_reverse.1 hL)) P
    rw [List.reverse_reverse] at h1
    exact h1.trans (Cm.seqActInv_unique _ prog N hI.2.2.2.2.1 hw hI.2.2.2.2.2 P hP)
  have htab : TabInv ⟨(zeroState N).rows.map (Cm.backAct c.layers.reverse N), 0⟩ N := by
    apply Rc.tabInv_map (zeroState N) N _ hz
    · intro P hP
      rw [(hf P hP).1, Ci.length_seqActInv]; exact hP
    · intro P Q hP hQ
      rw [(hf P hP).1, (hf Q hQ).1]
      exact seqActInv_acq prog N hw P Q hP hQ
    · intro P hP hp
      have h1 := (hf P hP).2
      have h2 := seqActInv_herm prog N hw P hP hp
      omega
  refine ⟨c', ⟨(zeroState N).rows.map (Cm.backAct c.layers.reverse N), 0⟩, ?_, rfl, htab, ?_, ?_, ?_⟩
  · unfold povm1
    simp only [hcN]
    have e : (zeroState N).r = 0 := rfl
    rw [e, hc']
  · exact Ci.rowsPEq_map _ _ _ (fun R hR => hf R (hr0 R hR))
  · intro q hq
    rw [St.rowAt_active _ N htab q (by simpa using hq)]
    simp only [Nat.zero_add]
    rw [Tr.rowAt_map _ _ _ (by rw [St.length_zeroState_rows]; omega), St.rowAt_zeroState_lo N q hq]
    exact hf _ (length_unitZ N q)
  · rw [St.length_active _ N htab]; exact Nat.sub_zero N

/-! ## §4 a full commuting basis has been measured: purity -/

/-- a string that commutes with every `Z_q` has no `X` component -/
theorem xfree_of_comm_allZ : ∀ (g : PStr), (∀ q, q < g.length → acq g (unitZ g.length q) = 0) → ∀ a ∈ g, a.1 = false := by
  intro g
  induction g with
  | nil => intro _ a ha; simp at ha
  | cons a as ih =>
    intro h b hb
    rcases List.mem_cons.1 hb with rfl | hb
    · have h0 := h 0 (by simp)
      simp only [List.length_cons] at h0
      rw [Tr.unitZ_succ_zero] at h0
      unfold acq at h0
      rw [acqSum_cons, acqSum_idStr_right] at h0
      obtain ⟨x, z⟩ := b
      cases x
      · rfl
      · cases z <;> simp [acqQ, b2i] at h0
    · apply ih _ b hb
      intro q hq
      have h1 := h (q + 1) (by simpa using hq)
      simp only [List.length_cons] at h1
      rw [Tr.unitZ_succ_succ] at h1
      unfold acq at h1 ⊢
      rw [acqSum_cons, acqQ_id_right] at h1
      simpa using h1

/-- strings without `X` components commute -/
theorem acqSum_xfree : ∀ (g h : PStr), (∀ a ∈ g, a.1 = false) → (∀ b ∈ h, b.1 = false) → acqSum g h = 0 := by
  intro g
  induction g with
  | nil => intro h _ _; exact acqSum_nil_left h
  | cons a as ih =>
    intro h hg hh
    cases h with
    | nil => exact acqSum_nil_right _
    | cons b bs =>
      rw [acqSum_cons, ih bs (fun x hx => hg x (by simp [hx])) (fun x hx => hh x (by simp [hx]))]
      have ha := hg a (by simp)
      have hb := hh b (by simp)
      simp [acqQ, ha, hb, b2i]

/-- two strings that commute with every `Z_q` commute with each other -/
theorem acq_of_comm_allZ (N : Nat) (g h : PStr) (hg : g.length = N) (hh : h.length = N)
    (h1 : ∀ q, q < N → acq g (unitZ N q) = 0) (h2 : ∀ q, q < N → acq h (unitZ N q) = 0) : acq g h = 0 := by
  subst hg
  have a1 := xfree_of_comm_allZ g h1
  have a2 := xfree_of_comm_allZ h (by rw [hh]; exact h2)
  unfold acq
  rw [acqSum_xfree g h a1 a2]
  rfl

/-- **a state stabilized, up to signs, by all `N` pulled-back `Z_q` is pure** -/
theorem pure_of_pulled (N : Nat) (prog : List Gate) (hw : ∀ g ∈ prog, g.WF N) (s : State) (hs : TabInv s N)
    (hin : ∀ q, q < N → ∃ p : Int, InGroup s ⟨(seqActInv prog N ⟨unitZ N q, 0⟩).g, p⟩) : s.r = 0 := by
  apply Classical.byContradiction
  intro hr
  have hr1 : 0 < s.r := Nat.pos_of_ne_zero hr
  have hrn := hs.2.1
  have hlenL : (rowAt s.rows 0).g.length = N := hs.2.2.1 _ (rowAt_mem _ 0 (by rw [hs.1]; omega))
  have hlenD : (rowAt s.rows N).g.length = N := hs.2.2.1 _ (rowAt_mem _ N (by rw [hs.1]; omega))
  have hLD : acq (rowAt s.rows 0).g (rowAt s.rows N).g = 1 := by
    rw [hs.2.2.2.1 0 N (by omega) (by omega), if_pos (Or.inl (by omega))]
  -- both rows commute with every pulled-back `Z_q`
  have hcomm : ∀ j, j < N + s.r → (rowAt s.rows j).g.length = N → ∀ q, q < N →
      acq (seqAct prog N (rowAt s.rows j)).g (unitZ N q) = 0 := by
    intro j hj hlen q hq
    obtain ⟨p, hp⟩ := hin q hq
    have h1 := inGroup_comm_low s N hs hp j hj
    unfold gAt at h1
    simp only at h1
    have hlz : (⟨unitZ N q, 0⟩ : Pauli).g.length = N := length_unitZ N q
    have h2 := (Ci.program_inverse prog N ⟨unitZ N q, 0⟩ hw hlz).2.1
    simp only at h2
    rw [← h2, seqAct_acq prog N hw _ _ hlen (by rw [Ci.length_seqActInv]; exact hlz), acq_symm]
    exact h1
  have h0 := acq_of_comm_allZ N _ _ (by rw [Ci.length_seqAct]; exact hlenL) (by rw [Ci.length_seqAct]; exact hlenD)
    (hcomm 0 (by omega) hlenL) (hcomm N (by omega) hlenD)
  rw [seqAct_acq prog N hw _ _ hlenL hlenD, hLD] at h0
  exact absurd h0 (by decide)

/-! ## §5 one snapshot -/

/-- `snapshot1` is a list measurement of the active stabilizers of the POVM state -/
theorem snapshot_unfold (N : Nat) (prog : List Gate) (c : Circ) (base : State) (coins : List Bool) (rnd : List CMap)
    (hw : ∀ g ∈ prog, g.WF N) (hbm : ∀ g ∈ prog, g.BmapOK) (hb : buildCirc N prog = .ok c) :
    ∃ c' z, z.r = 0 ∧ TabInv z N ∧ (∀ q, q < N → PEq (rowAt z.active q) (seqActInv prog N ⟨unitZ N q, 0⟩)) ∧
      z.active.length = N ∧ CommHerm N z.active ∧
      snapshot1 base c coins rnd =
        (match measure base z.active coins with
         | .error e => .error e
         | .ok (s, outs, k, cs) => .ok (c', s, outs, k, cs, rnd)) := by
  obtain ⟨c', z, h1, h2, h3, _, h5, h6⟩ := povm_spec N prog c rnd hw hbm hb
  refine ⟨c', z, h2, h3, h5, h6, active_commHerm z N h3, ?_⟩
  unfold snapshot1
  rw [h1]
  dsimp only
  cases measure base z.active coins with
  | error e => rfl
  | ok res => obtain ⟨s, outs, k, cs⟩ := res; rfl

/-- a successful snapshot, unpacked -/
theorem snapshot_ok (N : Nat) (prog : List Gate) (c c' : Circ) (base s : State) (coins cs : List Bool)
    (rnd rnd' : List CMap) (outs : List Int) (k : Nat)
    (hw : ∀ g ∈ prog, g.WF N) (hbm : ∀ g ∈ prog, g.BmapOK) (hb : buildCirc N prog = .ok c)
    (hs : snapshot1 base c coins rnd = .ok (c', s, outs, k, cs, rnd')) :
    ∃ z, z.r = 0 ∧ TabInv z N ∧ (∀ q, q < N → PEq (rowAt z.active q) (seqActInv prog N ⟨unitZ N q, 0⟩)) ∧
      z.active.length = N ∧ CommHerm N z.active ∧ rnd' = rnd ∧ measure base z.active coins = .ok (s, outs, k, cs) := by
  obtain ⟨c1, z, h2, h3, h5, h6, h7, h8⟩ := snapshot_unfold N prog c base coins rnd hw hbm hb
  refine ⟨z, h2, h3, h5, h6, h7, ?_⟩
  rw [h8] at hs
  cases hm : measure base z.active coins with
  | error e => rw [hm] at hs; exact absurd hs (by simp)
  | ok res =>
    obtain ⟨s1, outs1, k1, cs1⟩ := res
    rw [hm] at hs
    simp only at hs
    injection hs with hs
    injection hs with e1 e2
    injection e2 with e2 e3
    injection e3 with e3 e4
    injection e4 with e4 e5
    injection e5 with e5 e6
    subst e2 e3 e4 e5 e6
    exact ⟨rfl, rfl⟩

end Sh
end PC
