import PyCliffordModel.Proofs.Tableau
import PyCliffordModel.Proofs.StateLemmas
/-! # Proofs/MeasureLemmas — helper lemmas for C06/C07 (measurement and expectation at the level of the stabilizer group)

Layout:
* §1 products of pairwise commuting Hermitian rows (`CommHerm`): the phase of a combination is even
  (`combineAux_even`), the product of two combinations is the combination of the xor of the selectors
  (`combineAux_mul`), one-hot selectors (`combineAux_onehot`);
* §2 the signed stabilizer group `InGroup`: identity, active rows, closure under products (`inGroup_mul`),
  uniqueness of the sign (`inGroup_phase_unique`), commutation with the rows below `n + r`
  (`inGroup_comm_low`);
* §3 the deterministic scan is a combination of active rows (`scanAcc_eq_combine`, `det_spec`);
* §4 `expectAux` (`expectAux_clean`, `expectAux_dirty`);
* §5 the post-measurement state `pivotState` row by row.
-/
namespace PC
namespace Ms

/-! ## §1 products of commuting Hermitian rows -/

theorem pauli_eq (a b : Pauli) (hg : a.g = b.g) (hp : a.p = b.p) : a = b := by
  cases a; cases b; simp_all

theorem mul_congr_right (a : Pauli) {b b' : Pauli} (h : PEq b b') : PEq (mul a b) (mul a b') := by
  obtain ⟨hg, hp⟩ := h
  refine ⟨by simp only [mul_g, hg], ?_⟩
  simp only [mul_p, hg]; omega

theorem mul_comm_of_comm (P Q : Pauli) (h : acq P.g Q.g = 0) : mul P Q = mul Q P := by
  obtain ⟨hg, hp⟩ := mul_comm_acq P Q
  have hr := mul_p_range Q P
  exact pauli_eq _ _ hg (by rw [hp, h]; omega)

/-- pairwise commuting Hermitian operators on `n` qubits -/
def CommHerm (n : Nat) (rows : List Pauli) : Prop :=
  (∀ R ∈ rows, R.g.length = n ∧ R.p % 2 = 0) ∧ ∀ R ∈ rows, ∀ R' ∈ rows, acq R.g R'.g = 0

theorem CommHerm.tail {n : Nat} {R : Pauli} {rs : List Pauli} (h : CommHerm n (R :: rs)) : CommHerm n rs :=
  ⟨fun R' h' => h.1 R' (by simp [h']), fun A hA B hB => h.2 A (by simp [hA]) B (by simp [hB])⟩

theorem CommHerm.len {n : Nat} {rows : List Pauli} (h : CommHerm n rows) : ∀ R ∈ rows, R.g.length = n :=
  fun R hR => (h.1 R hR).1

/-- the phase of a product of commuting Hermitian operators is even -/
theorem combineAux_even (n : Nat) : ∀ (rows : List Pauli) (c : List Bool) (acc : Pauli), CommHerm n rows →
    acc.g.length = n → acc.p % 2 = 0 → (∀ R ∈ rows, acq acc.g R.g = 0) →
    (combineAux c rows acc).p % 2 = 0 := by
  intro rows
  induction rows with
  | nil => intro c acc _ _ hp _; rw [Tr.combineAux_nil_right]; exact hp
  | cons R rs ih =>
    intro c acc hC hl hp hc
    cases c with
    | nil => rw [Tr.combineAux_nil_left]; exact hp
    | cons b cs =>
      rw [Tr.combineAux_cons]
      have hR := hC.1 R (by simp)
      have hcs : ∀ R' ∈ rs, acq acc.g R'.g = 0 := fun R' h' => hc R' (by simp [h'])
      cases b with
      | false => exact ih cs acc hC.tail hl hp hcs
      | true =>
        rw [if_pos rfl]
        apply ih cs (mul acc R) hC.tail (by rw [length_mul _ _ (hl.trans hR.1.symm)]; exact hl)
        · have hpar := ipow_parity acc.g R.g
          rw [hc R (by simp)] at hpar
          rw [mul_p]; omega
        · intro R' h'
          rw [mul_g, acq_xorS_left _ _ _ (hl.trans hR.1.symm), hcs R' h', hC.2 R (by simp) R' (by simp [h'])]
          rfl

theorem combineAux_p_range : ∀ (rows : List Pauli) (c : List Bool) (acc : Pauli), 0 ≤ acc.p ∧ acc.p < 4 →
    0 ≤ (combineAux c rows acc).p ∧ (combineAux c rows acc).p < 4 := by
  intro rows
  induction rows with
  | nil => intro c acc hp; rw [Tr.combineAux_nil_right]; exact hp
  | cons R rs ih =>
    intro c acc hp
    cases c with
    | nil => rw [Tr.combineAux_nil_left]; exact hp
    | cons b cs =>
      rw [Tr.combineAux_cons]
      cases b with
      | false => exact ih cs acc hp
      | true => rw [if_pos rfl]; exact ih cs _ (mul_p_range acc R)

/-- xor of two selectors -/
def xorL (c d : List Bool) : List Bool := List.zipWith (fun a b => a != b) c d

theorem length_xorL (c d : List Bool) (h : c.length = d.length) : (xorL c d).length = c.length := by
  simp [xorL, h]

/-- **the product of two combinations of commuting Hermitian rows is the combination selected by the xor** -/
theorem combineAux_mul (n : Nat) : ∀ (rows : List Pauli) (c d : List Bool) (a1 a2 : Pauli), CommHerm n rows →
    c.length = rows.length → d.length = rows.length → a1.g.length = n → a2.g.length = n →
    (∀ R ∈ rows, acq a2.g R.g = 0) →
    PEq (mul (combineAux c rows a1) (combineAux d rows a2)) (combineAux (xorL c d) rows (mul a1 a2)) := by
  intro rows
  induction rows with
  | nil => intro c d a1 a2 _ _ _ _ _ _; simp only [Tr.combineAux_nil_right]; exact PEq.refl _
  | cons R rs ih =>
    intro c d a1 a2 hC hc hd h1 h2 hcm
    cases c with
    | nil => simp at hc
    | cons b cs =>
    cases d with
    | nil => simp at hd
    | cons e ds =>
      have hR := hC.1 R (by simp)
      have hcs : cs.length = rs.length := by simpa using hc
      have hds : ds.length = rs.length := by simpa using hd
      have h2R : acq a2.g R.g = 0 := hcm R (by simp)
      have hcm' : ∀ R' ∈ rs, acq a2.g R'.g = 0 := fun R' h' => hcm R' (by simp [h'])
      have hx : xorL (b :: cs) (e :: ds) = (b != e) :: xorL cs ds := by simp [xorL]
      rw [hx, Tr.combineAux_cons, Tr.combineAux_cons, Tr.combineAux_cons]
      have l1 : (if b = true then mul a1 R else a1).g.length = n := by
        cases b
        · simpa using h1
        · rw [if_pos rfl, length_mul _ _ (h1.trans hR.1.symm)]; exact h1
      have l2 : (if e = true then mul a2 R else a2).g.length = n := by
        cases e
        · simpa using h2
        · rw [if_pos rfl, length_mul _ _ (h2.trans hR.1.symm)]; exact h2
      have hcm2 : ∀ R' ∈ rs, acq (if e = true then mul a2 R else a2).g R'.g = 0 := by
        intro R' h'
        cases e
        · simpa using hcm' R' h'
        · rw [if_pos rfl, mul_g, acq_xorS_left _ _ _ (h2.trans hR.1.symm), hcm' R' h',
            hC.2 R (by simp) R' (by simp [h'])]; rfl
      refine (ih cs ds _ _ hC.tail hcs hds l1 l2 hcm2).trans (Tr.combineAux_congr _ _ ?_)
      have e12 : a1.g.length = a2.g.length := h1.trans h2.symm
      have e1R : a1.g.length = R.g.length := h1.trans hR.1.symm
      have e2R : a2.g.length = R.g.length := h2.trans hR.1.symm
      cases b <;> cases e
      · exact PEq.refl _
      · simp only [Bool.false_eq_true, if_false, if_true, bne]
        rw [← mul_assoc a1 a2 R e12 e2R]; exact PEq.refl _
      · simp only [Bool.false_eq_true, if_false, if_true, bne]
        rw [mul_assoc a1 R a2 e1R e2R.symm, mul_comm_of_comm R a2 (by rw [acq_symm]; exact h2R),
          ← mul_assoc a1 a2 R e12 e2R]
        exact PEq.refl _
      · simp only [if_true, bne]
        have hRR : mul R R = ⟨idStr a2.g.length, 0⟩ := by
          rw [mul_self, e2R]; congr 1; omega
        rw [mul_assoc a1 R (mul a2 R) e1R (by rw [length_mul _ _ e2R]; exact e2R.symm),
          mul_comm_of_comm a2 R h2R, ← mul_assoc R R a2 rfl e2R.symm, hRR, mul_one_left]
        exact mul_congr_right a1 ⟨rfl, by simp⟩

/-- a one-hot selector picks one row -/
theorem combineAux_onehot : ∀ (a : Nat) (rows : List Pauli) (m : Nat) (acc : Pauli), a < rows.length →
    combineAux (List.replicate a false ++ true :: List.replicate m false) rows acc = mul acc (rowAt rows a) := by
  intro a
  induction a with
  | zero =>
    intro rows m acc h
    cases rows with
    | nil => simp at h
    | cons R rs =>
      simp only [List.replicate_zero, List.nil_append, Tr.combineAux_cons, if_true, rowAt_cons_zero]
      exact St.combineAux_replicate_false m rs _
  | succ a ih =>
    intro rows m acc h
    cases rows with
    | nil => simp at h
    | cons R rs =>
      rw [List.replicate_succ, List.cons_append, Tr.combineAux_cons, rowAt_cons_succ]
      exact ih rs m acc (by simpa using h)

/-! ## §2 the signed stabilizer group -/

theorem active_row_exists (st : State) (n : Nat) (h : TabInv st n) (R : Pauli) (hR : R ∈ st.active) :
    ∃ k, k < n - st.r ∧ R = rowAt st.rows (st.r + k) := by
  have hlen := St.length_active st n h
  obtain ⟨k, hk, rfl⟩ := exists_rowAt_of_mem _ R hR
  rw [hlen] at hk
  exact ⟨k, hk, St.rowAt_active st n h k hk⟩

/-- the active stabilizers are pairwise commuting Hermitian operators -/
theorem active_commHerm (st : State) (n : Nat) (h : TabInv st n) : CommHerm n st.active := by
  refine ⟨fun R hR => ?_, fun R hR R' hR' => ?_⟩
  · obtain ⟨k, hk, rfl⟩ := active_row_exists st n h R hR
    exact ⟨h.2.2.1 _ (rowAt_mem _ _ (by rw [h.1]; omega)), h.2.2.2.2 (st.r + k) (by omega) (by omega)⟩
  · obtain ⟨k, hk, rfl⟩ := active_row_exists st n h R hR
    obtain ⟨k', hk', rfl⟩ := active_row_exists st n h R' hR'
    rw [h.2.2.2.1 _ _ (by omega) (by omega), if_neg (by omega)]

theorem inGroup_congr {st : State} {P Q : Pauli} (h : InGroup st P) (e : PEq P Q) : InGroup st Q := by
  obtain ⟨c, hc, hp⟩ := h
  exact ⟨c, hc, hp.trans e⟩

theorem inGroup_one (st : State) (n : Nat) (h : TabInv st n) : InGroup st ⟨idStr n, 0⟩ := by
  refine ⟨List.replicate st.active.length false, by simp, ?_⟩
  rw [St.combine_all_false, St.tabInv_N st n h]
  exact PEq.refl _

/-- **the signed stabilizer group is closed under products** -/
theorem inGroup_mul {st : State} {n : Nat} (h : TabInv st n) {A B : Pauli} (hA : InGroup st A)
    (hB : InGroup st B) : InGroup st (mul A B) := by
  obtain ⟨c, hc, eA⟩ := hA
  obtain ⟨d, hd, eB⟩ := hB
  have hN := St.tabInv_N st n h
  have hC := active_commHerm st n h
  refine ⟨xorL c d, by rw [length_xorL _ _ (hc.trans hd.symm)]; exact hc, ?_⟩
  have hl : (⟨idStr st.N, 0⟩ : Pauli).g.length = n := by rw [hN]; exact length_idStr n
  have key := combineAux_mul n st.active c d ⟨idStr st.N, 0⟩ ⟨idStr st.N, 0⟩ hC hc hd hl hl
    (fun R _ => acq_idStr_left _ _)
  have e0 : PEq (PC.mul ⟨idStr st.N, 0⟩ ⟨idStr st.N, 0⟩) ⟨idStr st.N, 0⟩ := by
    refine ⟨?_, ?_⟩
    · simp only [mul_g]; rw [xorS_self, length_idStr]
    · simp only [mul_p]; rw [ipow_idStr_left]; rfl
  unfold combine at eA eB ⊢
  exact (((Tr.combineAux_congr _ _ e0).symm.trans key.symm).trans (Tr.mul_congr_left eA _)).trans
    (mul_congr_right _ eB)

/-- the sign of a stabilizer is determined by its string -/
theorem inGroup_phase_unique (st : State) (n : Nat) (h : TabInv st n) {P Q : Pauli} (hP : InGroup st P)
    (hQ : InGroup st Q) (hg : P.g = Q.g) : P.p % 4 = Q.p % 4 := by
  obtain ⟨c, hc, eP⟩ := hP
  obtain ⟨d, hd, eQ⟩ := hQ
  have hl := St.length_active st n h
  have : c = d := St.combine_injective st n h c d (hc.trans hl) (hd.trans hl) (by rw [eP.1, eQ.1, hg])
  subst this
  rw [← eP.2, ← eQ.2]

/-- the phase of a stabilizer is even -/
theorem inGroup_even (st : State) (n : Nat) (h : TabInv st n) {P : Pauli} (hP : InGroup st P) : P.p % 2 = 0 := by
  obtain ⟨c, hc, eP⟩ := hP
  have := combineAux_even n st.active c ⟨idStr st.N, 0⟩ (active_commHerm st n h)
    (by rw [St.tabInv_N st n h]; exact length_idStr n) rfl (fun R _ => acq_idStr_left _ _)
  have e := eP.2
  unfold combine at e
  omega

/-- a stabilizer commutes with every stabilizer row (standby or active) and every standby destabilizer -/
theorem inGroup_comm_low (st : State) (n : Nat) (h : TabInv st n) {P : Pauli} (hP : InGroup st P) (j : Nat)
    (hj : j < n + st.r) : acq P.g (gAt st.rows j) = 0 := by
  obtain ⟨c, hc, eP⟩ := hP
  rw [← eP.1]
  unfold combine
  have := St.acq_combineAux_commute n (gAt st.rows j) c st.active ⟨idStr st.N, 0⟩ (St.active_rows_length st n h)
    (by rw [St.tabInv_N st n h]; exact length_idStr n) (by
      intro R hR
      obtain ⟨k, hk, rfl⟩ := active_row_exists st n h R hR
      unfold gAt
      rw [h.2.2.2.1 _ _ (by omega) (by omega), if_neg (by omega)])
  rw [this]
  exact acq_idStr_left _ _

/-- every active row is a stabilizer -/
theorem inGroup_active_row (st : State) (n : Nat) (h : TabInv st n) (k : Nat) (hk1 : st.r ≤ k) (hk2 : k < n) :
    InGroup st (rowAt st.rows k) := by
  have hl := St.length_active st n h
  have hN := St.tabInv_N st n h
  refine ⟨List.replicate (k - st.r) false ++ true :: List.replicate (n - 1 - k) false, by simp [hl]; omega, ?_⟩
  unfold combine
  rw [combineAux_onehot _ _ _ _ (by rw [hl]; omega), St.rowAt_active st n h _ (by omega)]
  have e : st.r + (k - st.r) = k := by omega
  rw [e]
  have hlen : (rowAt st.rows k).g.length = n := h.2.2.1 _ (rowAt_mem _ _ (by rw [h.1]; omega))
  rw [hN, ← hlen, mul_one_left]
  exact ⟨rfl, by simp⟩

/-- a combination of stabilizers is a stabilizer -/
theorem combineAux_inGroup (st : State) (n : Nat) (h : TabInv st n) : ∀ (rows : List Pauli) (c : List Bool)
    (acc : Pauli), InGroup st acc →
    (∀ k, k < rows.length → c.getD k false = true → InGroup st (rowAt rows k)) →
    InGroup st (combineAux c rows acc) := by
  intro rows
  induction rows with
  | nil => intro c acc ha _; rw [Tr.combineAux_nil_right]; exact ha
  | cons R rs ih =>
    intro c acc ha hr
    cases c with
    | nil => rw [Tr.combineAux_nil_left]; exact ha
    | cons b cs =>
      rw [Tr.combineAux_cons]
      apply ih cs
      · cases b with
        | false => simpa using ha
        | true =>
          rw [if_pos rfl]
          have := hr 0 (by simp) (by simp)
          rw [rowAt_cons_zero] at this
          exact inGroup_mul h ha this
      · intro k hk hck
        have := hr (k + 1) (by simp; omega) (by simpa using hck)
        rwa [rowAt_cons_succ] at this

/-! ## §3 the deterministic scan is a combination of the active rows -/

theorem scanAcc_clean (T0 : List Pauli) (obs : PStr) (N : Nat) : ∀ (rows : List Pauli) (j : Nat) (acc : Pauli),
    (∀ i, i < rows.length → anti (rowAt rows i).g obs = false) → scanAcc T0 obs N j rows acc = acc := by
  intro rows
  induction rows with
  | nil => intro j acc _; rfl
  | cons R rs ih =>
    intro j acc hc
    have h0 := hc 0 (by simp)
    rw [rowAt_cons_zero] at h0
    rw [scanAcc_cons, h0]
    simp only [Bool.false_eq_true, if_false]
    apply ih
    intro i hi
    have := hc (i + 1) (by simp; omega)
    rwa [rowAt_cons_succ] at this

theorem scanAcc_append (T0 : List Pauli) (obs : PStr) (N : Nat) : ∀ (A B : List Pauli) (j : Nat) (acc : Pauli),
    scanAcc T0 obs N j (A ++ B) acc = scanAcc T0 obs N (j + A.length) B (scanAcc T0 obs N j A acc) := by
  intro A
  induction A with
  | nil => intro B j acc; rfl
  | cons R rs ih =>
    intro B j acc
    rw [List.cons_append, scanAcc_cons, scanAcc_cons, ih]
    congr 1
    simp; omega

/-- the accumulated product is the combination selected by "partner anticommutes with the observable" -/
theorem scanAcc_eq_combineAux (T0 : List Pauli) (obs : PStr) (N : Nat) : ∀ (rows S : List Pauli) (j : Nat)
    (acc : Pauli), S.length = rows.length → (∀ k, k < rows.length → rowAt T0 (j + k - N) = rowAt S k) →
    scanAcc T0 obs N j rows acc = combineAux (rows.map fun R => anti R.g obs) S acc := by
  intro rows
  induction rows with
  | nil => intro S j acc _ _; simp [scanAcc, Tr.combineAux_nil_left]
  | cons R rs ih =>
    intro S j acc hl hS
    cases S with
    | nil => simp at hl
    | cons s ss =>
      rw [scanAcc_cons, List.map_cons, Tr.combineAux_cons]
      have h0 := hS 0 (by simp)
      rw [Nat.add_zero, rowAt_cons_zero] at h0
      rw [h0]
      apply ih ss (j + 1) _ (by simpa using hl)
      intro k hk
      have := hS (k + 1) (by simp; omega)
      rw [rowAt_cons_succ] at this
      rw [← this]
      congr 1
      omega

/-- the selector of the deterministic branch: which active destabilizers anticommute with the observable -/
def detSel (st : State) (obs : PStr) : List Bool := (st.rows.drop (st.N + st.r)).map fun R => anti R.g obs

theorem length_detSel (st : State) (n : Nat) (h : TabInv st n) (obs : PStr) :
    (detSel st obs).length = st.active.length := by
  rw [St.length_active st n h]
  simp [detSel, St.tabInv_N st n h, h.1]; omega

theorem rowAt_take (T : List Pauli) (m i : Nat) (h : i < m) : rowAt (T.take m) i = rowAt T i := by
  simp only [rowAt, List.getD_eq_getElem?_getD]
  rw [List.getElem?_take_of_lt h]

theorem rowAt_drop (T : List Pauli) (m i : Nat) : rowAt (T.drop m) i = rowAt T (m + i) := by
  simp only [rowAt, List.getD_eq_getElem?_getD, List.getElem?_drop]

/-- **deterministic branch**: when no row below `n + r` anticommutes with the observable, the scan accumulates a
    combination of the active rows -/
theorem scanAcc_eq_combine (st : State) (n : Nat) (obs : PStr) (h : TabInv st n)
    (hclean : ∀ i, i < n + st.r → anti (gAt st.rows i) obs = false) :
    scanAcc st.rows obs n 0 st.rows ⟨idStr n, 0⟩ = combine st.N (detSel st obs) st.active := by
  have hN := St.tabInv_N st n h
  have hl := St.length_active st n h
  have hsplit : st.rows = st.rows.take (n + st.r) ++ st.rows.drop (n + st.r) := (List.take_append_drop _ _).symm
  have hr := h.2.1
  have hlen := h.1
  conv => lhs; arg 5; rw [hsplit]
  rw [scanAcc_append, scanAcc_clean _ _ _ (st.rows.take (n + st.r))]
  · unfold combine detSel
    rw [hN]
    apply scanAcc_eq_combineAux
    · rw [hl]; simp [hlen]; omega
    · intro k hk
      have hk' : k < n - st.r := by simp [hlen] at hk; omega
      rw [St.rowAt_active st n h k hk']
      congr 1
      simp [hlen]; omega
  · intro i hi
    have hi' : i < n + st.r := by simp at hi; omega
    rw [rowAt_take _ _ _ hi']
    exact hclean i hi'

/-- **deterministic branch, summary**: the accumulated product has the string of the observable, an even phase in
    `[0, 4)`, and is a stabilizer -/
theorem det_spec (st : State) (n : Nat) (obs : PStr) (h : TabInv st n) (ho : obs.length = n)
    (hclean : ∀ i, i < n + st.r → anti (gAt st.rows i) obs = false) :
    (scanAcc st.rows obs n 0 st.rows ⟨idStr n, 0⟩).g = obs ∧
    (scanAcc st.rows obs n 0 st.rows ⟨idStr n, 0⟩).p % 2 = 0 ∧
    (0 ≤ (scanAcc st.rows obs n 0 st.rows ⟨idStr n, 0⟩).p ∧ (scanAcc st.rows obs n 0 st.rows ⟨idStr n, 0⟩).p < 4) ∧
    InGroup st (scanAcc st.rows obs n 0 st.rows ⟨idStr n, 0⟩) := by
  have hin : InGroup st (scanAcc st.rows obs n 0 st.rows ⟨idStr n, 0⟩) := by
    rw [scanAcc_eq_combine st n obs h hclean]
    exact ⟨detSel st obs, length_detSel st n h obs, PEq.refl _⟩
  refine ⟨scanAcc_g_eq_obs st n obs h ho hclean, inGroup_even st n h hin, ?_, hin⟩
  rw [scanAcc_eq_combine st n obs h hclean]
  unfold combine
  exact combineAux_p_range _ _ _ (by simp)

/-- a string that commutes with every row below `n + r` is the string of a stabilizer -/
theorem inGroup_of_comm_low (st : State) (n : Nat) (g : PStr) (h : TabInv st n) (hg : g.length = n)
    (hclean : ∀ i, i < n + st.r → anti (gAt st.rows i) g = false) :
    ∃ P : Pauli, InGroup st P ∧ P.g = g := by
  obtain ⟨h1, _, _, h4⟩ := det_spec st n g h hg hclean
  exact ⟨_, h4, h1⟩

/-- a row below `n + r` that anticommutes with `g` excludes `± g` from the group -/
theorem not_inGroup_of_anti (st : State) (n : Nat) (h : TabInv st n) (P : Pauli) (j : Nat) (hj : j < n + st.r)
    (ha : anti (gAt st.rows j) P.g = true) : ¬ InGroup st P := by
  intro hP
  have := inGroup_comm_low st n h hP j hj
  rw [acq_symm, (anti_iff _ _).1 ha] at this
  exact absurd this (by omega)

/-! ## §4 the loop of `stabilizer_expect` -/

theorem expectAux_clean (T0 : List Pauli) (obs : PStr) (N r : Nat) : ∀ (rows : List Pauli) (j : Nat) (acc : Pauli),
    (∀ i, j + i < N + r → anti (rowAt rows i).g obs = false) →
    expectAux T0 obs N r j rows acc = some (scanAcc T0 obs N j rows acc) := by
  intro rows
  induction rows with
  | nil => intro j acc _; rfl
  | cons R rs ih =>
    intro j acc hc
    have hc' : ∀ i, j + 1 + i < N + r → anti (rowAt rs i).g obs = false := by
      intro i hi
      have := hc (i + 1) (by omega)
      rwa [rowAt_cons_succ] at this
    simp only [expectAux, scanAcc_cons]
    by_cases ha : anti R.g obs = true
    · have hj : ¬ j < N + r := by
        intro hj
        have := hc 0 (by omega)
        rw [rowAt_cons_zero, ha] at this
        exact absurd this (by simp)
      simp only [ha, hj, if_true, if_false]
      rw [ih (j + 1) _ hc']
      rfl
    · have ha' : anti R.g obs = false := by simpa using ha
      simp only [ha', Bool.false_eq_true, if_false]
      exact ih (j + 1) acc hc'

theorem expectAux_dirty (T0 : List Pauli) (obs : PStr) (N r : Nat) : ∀ (rows : List Pauli) (j : Nat) (acc : Pauli)
    (i : Nat), j + i < N + r → anti (rowAt rows i).g obs = true →
    expectAux T0 obs N r j rows acc = none := by
  intro rows
  induction rows with
  | nil =>
    intro j acc i _ ha
    rw [rowAt_of_le [] i (by simp), anti_nil_left] at ha
    exact absurd ha (by simp)
  | cons R rs ih =>
    intro j acc i hi ha
    simp only [expectAux]
    by_cases hR : anti R.g obs = true
    · have hj : j < N + r := by omega
      simp only [hR, hj, if_true]
    · have hR' : anti R.g obs = false := by simpa using hR
      simp only [hR', Bool.false_eq_true, if_false]
      cases i with
      | zero => rw [rowAt_cons_zero] at ha; exact absurd ha hR
      | succ i =>
        rw [rowAt_cons_succ] at ha
        exact ih (j + 1) acc i (by omega) ha

/-- `expect1` in the two cases of the scan -/
theorem expect1_cases (st : State) (obs : Pauli) :
    ((∃ i, i < st.N + st.r ∧ anti (gAt st.rows i) obs.g = true) ∧ expect1 st obs = 0) ∨
    ((∀ i, i < st.N + st.r → anti (gAt st.rows i) obs.g = false) ∧
      expect1 st obs =
        if (((scanAcc st.rows obs.g st.N 0 st.rows ⟨idStr st.N, 0⟩).p - obs.p) % 4) / 2 % 2 = 0 then 1 else -1) := by
  rcases exists_first (fun i => anti (gAt st.rows i) obs.g) (st.N + st.r) with hc | ⟨p, hp, ha, _⟩
  · refine Or.inr ⟨hc, ?_⟩
    unfold expect1
    rw [expectAux_clean _ _ _ _ _ _ _ (fun i hi => hc i (by omega))]
  · refine Or.inl ⟨⟨p, hp, ha⟩, ?_⟩
    unfold expect1
    rw [expectAux_dirty _ _ _ _ _ _ _ p (by omega) ha]

theorem isMeasPivot_lt {st : State} {obs : PStr} {p : Nat} (h : IsMeasPivot st obs p) : p < st.N + st.r := by
  rcases h.2 with ⟨_, h2, _⟩ | ⟨h1, _, _⟩ <;> omega

/-- `measure1` under the invariant: a pivot (random outcome), or the deterministic branch (the assertion holds) -/
theorem measure1_cases_inv (st : State) (n : Nat) (obs : Pauli) (coin : Bool) (h : TabInv st n)
    (ho : obs.g.length = n) :
    (∃ p, IsMeasPivot st obs.g p ∧ p < n + st.r ∧
      measure1 st obs coin =
        .ok (pivotState st obs.g true p (if coin then 2 else 0),
          (((if coin then 2 else 0) - obs.p) % 4) / 2, true)) ∨
    ((∀ i, i < n + st.r → anti (gAt st.rows i) obs.g = false) ∧
      measure1 st obs coin =
        .ok (st, (((scanAcc st.rows obs.g n 0 st.rows ⟨idStr n, 0⟩).p - obs.p) % 4) / 2, false)) := by
  have hN := h.N_eq
  rcases measure1_cases st obs coin with ⟨p, hp, he⟩ | ⟨hc, he⟩
  · exact Or.inl ⟨p, hp, by have := isMeasPivot_lt hp; rwa [hN] at this, he⟩
  · rw [hN] at hc he
    rw [if_pos (scanAcc_g_eq_obs st n obs.g h ho hc)] at he
    exact Or.inr ⟨hc, he⟩

/-! ## §5 the post-measurement state, row by row -/

theorem inGroup_length (st : State) (n : Nat) (h : TabInv st n) {P : Pauli} (hP : InGroup st P) :
    P.g.length = n := by
  obtain ⟨c, _, eP⟩ := hP
  rw [← eP.1]
  unfold combine
  exact Tr.length_combineAux n c st.active _ (St.active_rows_length st n h)
    (by rw [St.tabInv_N st n h]; exact length_idStr n)

theorem pivotState_eq (st : State) (n : Nat) (obs : PStr) (ph : Bool) (p : Nat) (c : Int) (h : TabInv st n) :
    pivotState st obs ph p c =
      ⟨setP (install (st.rows.mapIdx (updRow obs n ph p (rowAt st.rows p))) obs n st.r p (rowAt st.rows p).g).1
        (installSlot n st.r p) c, installRank n st.r p⟩ := by
  unfold pivotState; rw [h.N_eq]

/-- in the rank-dropping case the slot permutation of `install` fixes the active stabilizer slots -/
theorem installPerm_active_fix (n r p k : Nat) (hr : r ≤ n) (hp : p < n + r) (_hc : ¬ (r ≤ p ∧ p < n))
    (hk1 : r ≤ k) (hk2 : k < n) : installPerm n r p k = k := by
  have h1 := partner_cases n p (by omega)
  have h2 := partner_of_lt n (r - 1) (by omega)
  unfold installPerm swp
  rw [h2]
  generalize partner n p = q at h1 ⊢
  repeat' split
  all_goals omega

/-- slots below `n + r'` of the new tableau come from the pivot pair or from slots below `n + r` -/
theorem installPerm_low (n r p j : Nat) (hr : r ≤ n) (hp : p < n + r) (hj : j < n + installRank n r p) :
    installPerm n r p j = p ∨ installPerm n r p j = partner n p ∨ installPerm n r p j < n + r := by
  have h1 := partner_cases n p (by omega)
  have h2 := partner_of_lt n (r - 1) (by omega)
  unfold installRank at hj
  unfold installPerm swp
  rw [h2]
  generalize partner n p = q at h1 ⊢
  split at hj
  all_goals repeat' split
  all_goals omega

/-- the partner of the observable's slot holds the old pivot string -/
theorem installPerm_slot_partner (n r p : Nat) (hr : r ≤ n) (hp : p < n + r) :
    installPerm n r p (installSlot n r p + n) = partner n p := by
  have hp2 : p < 2 * n := by omega
  have hr' : r - 1 < 2 * n := by omega
  have hs := (installSlot_active n r p hr hp).2
  have hJ := installPerm_J n r p hp2 hr' (installSlot n r p) (installSlot n r p + n) (by omega) (by omega)
  rw [installPerm_slot n r p hr'] at hJ
  have h1 : J n (installSlot n r p) (installSlot n r p + n) = 1 := by
    unfold J; rw [if_pos (Or.inl rfl)]
  rw [h1] at hJ
  exact (J_eq_one_iff n p _ hp2 (installPerm_lt n r p _ hp2 hr' (by omega))).1 hJ

/-- **the state after a random-outcome measurement, row by row**: rank, length, strings (pivot update followed
    by the slot permutation), phases -/
theorem pivotState_spec (st : State) (n : Nat) (obs : PStr) (p : Nat) (c : Int) (h : TabInv st n)
    (hp : p < n + st.r) :
    (pivotState st obs true p c).r = installRank n st.r p ∧
    (pivotState st obs true p c).rows.length = 2 * n ∧
    (∀ k, k < 2 * n → gAt (pivotState st obs true p c).rows k
        = pivF n p obs (gAt st.rows) (installPerm n st.r p k)) ∧
    (∀ k, k < 2 * n → (rowAt (pivotState st obs true p c).rows k).p
        = if k = installSlot n st.r p then c else (updRow obs n true p (rowAt st.rows p) k (rowAt st.rows k)).p) := by
  obtain ⟨hl, hr, hg, hh⟩ := (tabInv_iff st n).1 h
  have hp2 : p < 2 * n := by omega
  have hr' : st.r - 1 < 2 * n := by omega
  have hT1 : (st.rows.mapIdx (updRow obs n true p (rowAt st.rows p))).length = 2 * n := by
    rw [List.length_mapIdx]; exact hl
  obtain ⟨s1, _, _, s4, s5⟩ :=
    install_spec (st.rows.mapIdx (updRow obs n true p (rowAt st.rows p))) obs n st.r p (rowAt st.rows p).g
      hT1 hp2 hr'
  rw [pivotState_eq st n obs true p c h]
  refine ⟨rfl, by simp only [length_setP]; exact s1, fun k hk => ?_, fun k hk => ?_⟩
  · simp only [gAt_setP]
    rw [s5 k, installBase_scan st.rows obs n p true hl _ (installPerm_lt n st.r p k hp2 hr' hk)]
  · simp only
    rw [rowAt_setP_p _ _ _ _ (by rw [s1]; exact installSlot_lt n st.r p hr hp2)]
    split
    · rfl
    · rw [s4 k, rowAt_mapIdx _ st.rows k (by omega)]

/-- the hypotheses under which a pivot is legitimate (`stabilizer_measure` after the pre-scan, or `r = 0`) -/
structure PivotOK (st : State) (n : Nat) (obs : PStr) (p : Nat) : Prop where
  lt : p < n + st.r
  anti : anti (gAt st.rows p) obs = true
  act : ∀ k, st.r ≤ k → k < n → PC.anti (gAt st.rows k) obs = true → st.r ≤ p ∧ p < n

theorem pivotOK_of_isMeasPivot (st : State) (n : Nat) (obs : PStr) (p : Nat) (h : TabInv st n)
    (hp : IsMeasPivot st obs p) : PivotOK st n obs p := by
  have hN := h.N_eq
  refine ⟨by have := isMeasPivot_lt hp; rwa [hN] at this, hp.1, ?_⟩
  intro k hk1 hk2 hk3
  rcases hp.2 with ⟨h1, h2, _⟩ | ⟨_, h2, _⟩
  · exact ⟨h1, by omega⟩
  · rw [h2 k hk1 (by omega)] at hk3; exact absurd hk3 (by simp)

theorem pivotState_inv (st : State) (n : Nat) (obs : PStr) (p : Nat) (c : Int) (h : TabInv st n)
    (ho : obs.length = n) (hk : PivotOK st n obs p) (hc : c % 2 = 0) :
    TabInv (pivotState st obs true p c) n := by
  rw [pivotState_eq st n obs true p c h]
  exact pivot_install_inv st n obs true p c h ho hk.lt hk.anti hk.act hc

/-- the observable, with the phase written by `setP`, is an active row of the new state -/
theorem pivotState_slot (st : State) (n : Nat) (obs : PStr) (p : Nat) (c : Int) (h : TabInv st n)
    (hp : p < n + st.r) :
    rowAt (pivotState st obs true p c).rows (installSlot n st.r p) = ⟨obs, c⟩ := by
  obtain ⟨_, _, s3, s4⟩ := pivotState_spec st n obs p c h hp
  have hr := h.2.1
  have hs := installSlot_lt n st.r p hr (by omega)
  apply pauli_eq
  · have := s3 _ hs
    unfold gAt at this
    rw [this, installPerm_slot n st.r p (by omega), pivF_pivot]
  · rw [s4 _ hs, if_pos rfl]

/-- **after the measurement the observable with the coin's sign is a stabilizer** -/
theorem pivotState_obs_inGroup (st : State) (n : Nat) (obs : PStr) (p : Nat) (c : Int) (h : TabInv st n)
    (ho : obs.length = n) (hk : PivotOK st n obs p) (hc : c % 2 = 0) :
    InGroup (pivotState st obs true p c) ⟨obs, c⟩ := by
  have h' := pivotState_inv st n obs p c h ho hk hc
  have hact := installSlot_active n st.r p h.2.1 hk.lt
  have hr' := (pivotState_spec st n obs p c h hk.lt).1
  have := inGroup_active_row _ n h' (installSlot n st.r p) (by rw [hr']; exact hact.1) hact.2
  rwa [pivotState_slot st n obs p c h hk.lt] at this

/-- the new active rows other than the observable are stabilizers of the old state -/
theorem pivotState_row_old (st : State) (n : Nat) (obs : PStr) (p : Nat) (c : Int) (h : TabInv st n)
    (hk : PivotOK st n obs p) (k : Nat) (hk1 : installRank n st.r p ≤ k) (hk2 : k < n)
    (hk3 : k ≠ installSlot n st.r p) : InGroup st (rowAt (pivotState st obs true p c).rows k) := by
  obtain ⟨_, _, s3, s4⟩ := pivotState_spec st n obs p c h hk.lt
  have hr := h.2.1
  have hg := h.gram
  have hk2n : k < 2 * n := by omega
  have e3 := s3 k hk2n
  have e4 := s4 k hk2n
  rw [if_neg hk3] at e4
  by_cases hc : st.r ≤ p ∧ p < n
  · -- active pivot: row `k` is the old row, times the pivot row if it anticommutes with the observable
    simp only [installRank, installSlot, if_pos hc] at hk1 hk3
    have hperm : installPerm n st.r p k = k := by unfold installPerm; rw [if_pos hc]
    have hkq : k ≠ partner n p := by rw [partner_of_lt n p hc.2]; omega
    rw [hperm, pivF_other n p obs _ k hk3 hkq] at e3
    have hrow : rowAt (pivotState st obs true p c).rows k
        = updRow obs n true p (rowAt st.rows p) k (rowAt st.rows k) := by
      apply pauli_eq
      · rw [updRow_g]
        unfold gAt at e3
        rw [e3]
        by_cases ha : PC.anti (rowAt st.rows k).g obs = true
        · rw [if_pos ha, if_pos ⟨hk3, ha⟩]
        · rw [if_neg ha, if_neg (fun hh => ha hh.2)]
      · exact e4
    rw [hrow]
    have hRk := inGroup_active_row st n h k hk1 hk2
    by_cases ha : PC.anti (rowAt st.rows k).g obs = true
    · rw [updRow_of_anti _ _ _ _ _ _ _ hk3 ha]
      have : pivRow n true (rowAt st.rows p) k (rowAt st.rows k) = mul (rowAt st.rows k) (rowAt st.rows p) := by
        unfold pivRow mul
        simp [hk2]
      rw [this]
      exact inGroup_mul h hRk (inGroup_active_row st n h p hc.1 hc.2)
    · rw [updRow_of_comm _ _ _ _ _ _ _ (by simpa using ha)]
      exact hRk
  · -- standby pivot: the active rows commute with the observable and are untouched
    simp only [installRank, installSlot, if_neg hc] at hk1 hk3
    have hrk : st.r ≤ k := by omega
    have hperm := installPerm_active_fix n st.r p k hr hk.lt hc hrk hk2
    have hkp : k ≠ p := by
      intro e; exact hc ⟨by omega, by omega⟩
    have hkq : k ≠ partner n p := by
      have := partner_cases n p (by have := hk.lt; omega)
      have := hk.lt
      omega
    have hcomm : PC.anti (gAt st.rows k) obs = false := by
      cases hx : PC.anti (gAt st.rows k) obs with
      | false => rfl
      | true => exact absurd (hk.act k hrk hk2 hx) hc
    rw [hperm, pivF_other n p obs _ k hkp hkq, hcomm] at e3
    simp only [Bool.false_eq_true, if_false] at e3
    rw [updRow_of_comm _ _ _ _ _ _ _ (by simpa [gAt] using hcomm)] at e4
    have hrow : rowAt (pivotState st obs true p c).rows k = rowAt st.rows k := pauli_eq _ _ e3 e4
    rw [hrow]
    exact inGroup_active_row st n h k hrk hk2

/-- a string commuting with the observable and with the old rows below `n + r` commutes with the new rows
    below `n + r'` -/
theorem pivotState_comm_low (st : State) (n : Nat) (obs : PStr) (p : Nat) (c : Int) (h : TabInv st n)
    (hp : p < n + st.r) (g : PStr) (hgl : g.length = n) (hgo : acq g obs = 0)
    (hlow : ∀ m, m < n + st.r → acq g (gAt st.rows m) = 0) (j : Nat)
    (hj : j < n + (pivotState st obs true p c).r) : acq g (gAt (pivotState st obs true p c).rows j) = 0 := by
  obtain ⟨s1, _, s3, _⟩ := pivotState_spec st n obs p c h hp
  have hr := h.2.1
  have hg := h.gram
  rw [s1] at hj
  have hj2 : j < 2 * n := by have := installRank_le n st.r p; omega
  have hp2 : p < 2 * n := by omega
  have hσ := installPerm_lt n st.r p j hp2 (by omega) hj2
  rw [s3 j hj2]
  have hcase := installPerm_low n st.r p j hr hp hj
  generalize installPerm n st.r p j = m at hσ hcase
  by_cases h1 : m = p
  · rw [h1, pivF_pivot]; exact hgo
  · by_cases h2 : m = partner n p
    · rw [h2, pivF_partner n p obs _ hp2]; exact hlow p hp
    · have hm : m < n + st.r := by
        rcases hcase with e | e | e
        · exact absurd e h1
        · exact absurd e h2
        · exact e
      rw [pivF_other n p obs _ m h1 h2]
      split
      · rw [acq_xorS_right _ _ _ (by rw [hg.1 m hσ, hg.1 p hp2]), hlow m hm, hlow p hp]; rfl
      · exact hlow m hm

/-- **every former stabilizer that commutes with the observable is a stabilizer of the post-measurement state,
    with the same sign** -/
theorem pivotState_keeps (st : State) (n : Nat) (obs : PStr) (p : Nat) (c : Int) (h : TabInv st n)
    (ho : obs.length = n) (hk : PivotOK st n obs p) (hc : c % 2 = 0) (P : Pauli) (hP : InGroup st P)
    (hcomm : acq P.g obs = 0) : InGroup (pivotState st obs true p c) P := by
  have h' := pivotState_inv st n obs p c h ho hk hc
  obtain ⟨s1, _, s3, _⟩ := pivotState_spec st n obs p c h hk.lt
  have hr := h.2.1
  have hPl := inGroup_length st n h hP
  have hact := installSlot_active n st.r p hr hk.lt
  have hlow : ∀ m, m < n + st.r → acq P.g (gAt st.rows m) = 0 := fun m hm => inGroup_comm_low st n h hP m hm
  -- the string of `P` is the string of a stabilizer `P'` of the new state
  obtain ⟨P', hP', hg'⟩ := inGroup_of_comm_low (pivotState st obs true p c) n P.g h' hPl (by
    intro j hj
    rw [anti_eq_false_iff, acq_symm]
    exact pivotState_comm_low st n obs p c h hk.lt P.g hPl hcomm hlow j hj)
  obtain ⟨c', hc', e'⟩ := hP'
  have hlen' := St.length_active _ n h'
  have hN' := St.tabInv_N _ n h'
  -- the selector does not use the observable's slot
  have hsel : c'.getD (installSlot n st.r p - installRank n st.r p) false = false := by
    have hpart := St.acq_combine_partner _ n h' c' (hc'.trans hlen')
      (installSlot n st.r p - installRank n st.r p) (by rw [s1]; omega)
    have hidx : n + (pivotState st obs true p c).r + (installSlot n st.r p - installRank n st.r p)
        = installSlot n st.r p + n := by rw [s1]; omega
    have hstr : (rowAt (pivotState st obs true p c).rows (installSlot n st.r p + n)).g = gAt st.rows p := by
      have := s3 (installSlot n st.r p + n) (by omega)
      unfold gAt at this ⊢
      rw [this, installPerm_slot_partner n st.r p hr hk.lt]
      exact pivF_partner n p obs _ (by have := hk.lt; omega)
    rw [hidx, hstr, e'.1, hg', hlow p hk.lt] at hpart
    cases hx : c'.getD (installSlot n st.r p - installRank n st.r p) false with
    | false => rfl
    | true => rw [hx] at hpart; exact absurd hpart (by decide)
  -- hence `P'` is a product of stabilizers of the old state
  have hin : InGroup st (combine (pivotState st obs true p c).N c' (pivotState st obs true p c).active) := by
    unfold combine
    apply combineAux_inGroup st n h
    · rw [hN']; exact inGroup_one st n h
    · intro k hk1 hk2
      rw [hlen', s1] at hk1
      have hrow := St.rowAt_active _ n h' k (by rw [s1]; exact hk1)
      rw [hrow, s1]
      apply pivotState_row_old st n obs p c h hk _ (by omega) (by omega)
      intro e
      have : k = installSlot n st.r p - installRank n st.r p := by omega
      rw [this, hsel] at hk2
      exact absurd hk2 (by simp)
  have hph := inGroup_phase_unique st n h hin hP (e'.1.trans hg')
  exact ⟨c', hc', ⟨e'.1.trans hg', hph⟩⟩

/-- the rank after a random-outcome measurement -/
theorem pivotState_rank (st : State) (n : Nat) (obs : PStr) (p : Nat) (c : Int) (h : TabInv st n)
    (hp : IsMeasPivot st obs p) :
    ((∀ R ∈ st.active, acq R.g obs = 0) → (pivotState st obs true p c).r + 1 = st.r) ∧
    (¬ (∀ R ∈ st.active, acq R.g obs = 0) → (pivotState st obs true p c).r = st.r) := by
  have hN := h.N_eq
  have hr := h.2.1
  have hlt := isMeasPivot_lt hp
  rw [hN] at hlt
  rw [(pivotState_spec st n obs p c h hlt).1]
  unfold installRank
  rcases hp.2 with ⟨h1, h2, _⟩ | ⟨_, h2, _⟩
  · rw [hN] at h2
    rw [if_pos ⟨h1, h2⟩]
    refine ⟨fun hall => ?_, fun _ => rfl⟩
    have hmem : rowAt st.rows p ∈ st.active := by
      have := St.rowAt_active st n h (p - st.r) (by omega)
      rw [show st.r + (p - st.r) = p by omega] at this
      rw [← this]
      exact rowAt_mem _ _ (by rw [St.length_active st n h]; omega)
    have := hall _ hmem
    have ha := (anti_iff _ _).1 hp.1
    unfold gAt at ha
    omega
  · rw [hN] at h2
    have hnot : ¬ (st.r ≤ p ∧ p < n) := by
      intro hc
      have := h2 p hc.1 hc.2
      rw [hp.1] at this
      exact absurd this (by simp)
    rw [if_neg hnot]
    refine ⟨fun _ => by omega, fun hnall => ?_⟩
    exfalso
    apply hnall
    intro R hR
    obtain ⟨k, hk, rfl⟩ := active_row_exists st n h R hR
    exact (anti_eq_false_iff _ _).1 (h2 (st.r + k) (by omega) (by omega))

/-- measurement keeps the tableau invariant (as `C05_measure1_inv`) -/
theorem measure1_inv (st st' : State) (n : Nat) (obs : Pauli) (coin : Bool) (out : Int) (rnd : Bool)
    (h : TabInv st n) (ho : obs.g.length = n) (hm : measure1 st obs coin = .ok (st', out, rnd)) :
    TabInv st' n := by
  rcases measure1_cases_inv st n obs coin h ho with ⟨p, hpiv, _, he⟩ | ⟨_, he⟩
  · rw [he] at hm
    injection hm with hm
    injection hm with h1 _
    subst h1
    exact pivotState_inv st n obs.g p _ h ho (pivotOK_of_isMeasPivot st n obs.g p h hpiv)
      (by cases coin <;> rfl)
  · rw [he] at hm
    injection hm with hm
    injection hm with h1 _
    subst h1
    exact h

/-- **a stabilizer `(−1)^out O` is measured with certainty, outcome `out`, state unchanged** -/
theorem measure1_of_inGroup (st : State) (n : Nat) (O : Pauli) (coin : Bool) (out : Int) (h : TabInv st n)
    (ho : O.g.length = n) (hout : out = 0 ∨ out = 1) (hin : InGroup st ⟨O.g, O.p + 2 * out⟩) :
    measure1 st O coin = .ok (st, out, false) := by
  rcases measure1_cases_inv st n O coin h ho with ⟨p, hpiv, hpl, _⟩ | ⟨hc, he⟩
  · exact absurd hin (not_inGroup_of_anti st n h _ p hpl hpiv.1)
  · obtain ⟨d1, _, _, d4⟩ := det_spec st n O.g h ho hc
    have hph := inGroup_phase_unique st n h d4 hin d1
    simp only at hph
    rw [he]
    have : (((scanAcc st.rows O.g n 0 st.rows ⟨idStr n, 0⟩).p - O.p) % 4) / 2 = out := by omega
    rw [this]

/-- **`projTrace1` row by row** -/
theorem projTrace1_cases (st : State) (obs : Pauli) (t : Dy) :
    (∃ p, p < st.N + st.r ∧ anti (gAt st.rows p) obs.g = true ∧
      (∀ i, i < p → anti (gAt st.rows i) obs.g = false) ∧
      projTrace1 st obs t = .ok (pivotState st obs.g true p obs.p, ⟨t.zero, t.k + 1⟩)) ∨
    ((∀ i, i < st.N + st.r → anti (gAt st.rows i) obs.g = false) ∧
      projTrace1 st obs t =
        if (scanAcc st.rows obs.g st.N 0 st.rows ⟨idStr st.N, 0⟩).g = obs.g then
          .ok (st, if (scanAcc st.rows obs.g st.N 0 st.rows ⟨idStr st.N, 0⟩).p = obs.p then t else ⟨true, t.k⟩)
        else .error .assertion) := by
  rcases scan_cases st.rows obs.g st.N (st.N + st.r) true with ⟨hc, hs⟩ | ⟨p, hp1, _, hp3, hp4, hs⟩
  · refine Or.inr ⟨hc, ?_⟩
    unfold projTrace1
    simp only [hs]
  · refine Or.inl ⟨p, hp1, hp3, hp4, ?_⟩
    unfold projTrace1 pivotState
    simp only [hs]
    rw [(install_rank_slot _ _ _ _ _ _).1, (install_rank_slot _ _ _ _ _ _).2]

end Ms
end PC
