import PyCliffordModel.Proofs.Tableau
import PyCliffordModel.Proofs.StateLemmas
/-! # Proofs/MeasureLemmas — helper lemmas for C06/C07 (measurement and expectation at the level of the stabilizer group) -/
namespace PC

end PC
