import PyCliffordModel.Proofs.TorchLemmas
/-! # Proofs/TorchLemmas2 — helper lemmas for C13b (second batch of vectorised torch kernels) -/
namespace PC
namespace Tc2

/-! ## `ipow`, `acq`, `ps0`: one vectorised sum against the sequential per-qubit sum -/

theorem ipowVec (g1 g2 : PStr) :
    T.vsum (T.vadd (T.vsub (T.vmul (T.zs g1) (T.xs g2)) (T.vmul (T.xs g1) (T.zs g2)))
      ((T.vadd (T.vmul ((T.vadd (T.xs g1) (T.xs g2)).map (· / 2)) (T.vadd (T.zs g1) (T.zs g2)))
        (T.vmul (T.vadd (T.xs g1) (T.xs g2)) ((T.vadd (T.zs g1) (T.zs g2)).map (· / 2)))).map (2 * ·)))
      = ipowSum g1 g2 := by
  induction g1 generalizing g2 with
  | nil => simp [T.xs, T.zs, T.vmul, T.vadd, T.vsub, T.vsum, ipowSum]
  | cons x xs ih =>
    cases g2 with
    | nil => simp [T.xs, T.zs, T.vmul, T.vadd, T.vsub, T.vsum, ipowSum]
    | cons y ys =>
      have := ih ys
      simp only [T.xs, T.zs, List.map_cons, T.vmul, T.vadd, T.vsub, T.vsum, ipowSum, ipowQ] at this ⊢
      rw [this]

theorem ipow_eq (g1 g2 : PStr) : T.ipow g1 g2 = ipow g1 g2 := by
  unfold T.ipow ipow
  simp only []
  rw [ipowVec]

theorem acqVec (g1 g2 : PStr) :
    T.vsum (T.vsub (T.vmul (T.zs g1) (T.xs g2)) (T.vmul (T.xs g1) (T.zs g2))) = acqSum g1 g2 := by
  induction g1 generalizing g2 with
  | nil => simp [T.xs, T.zs, T.vmul, T.vsub, T.vsum, acqSum]
  | cons x xs ih =>
    cases g2 with
    | nil => simp [T.xs, T.zs, T.vmul, T.vsub, T.vsum, acqSum]
    | cons y ys =>
      have := ih ys
      simp only [T.xs, T.zs, List.map_cons, T.vmul, T.vsub, T.vsum, acqSum, acqQ] at this ⊢
      rw [this]

theorem acq_eq (g1 g2 : PStr) : T.acq g1 g2 = acq g1 g2 := by
  unfold T.acq acq
  rw [acqVec]

theorem p0Vec (g : PStr) : T.vsum (T.vmul (T.xs g) (T.zs g)) = p0Sum g := by
  induction g with
  | nil => simp [T.xs, T.zs, T.vmul, T.vsum, p0Sum]
  | cons x xs ih =>
    simp only [T.xs, T.zs, List.map_cons, T.vmul, T.vsum, p0Sum] at ih ⊢
    rw [ih]

theorem p0_eq (g : PStr) : T.p0 g = p0 g := by
  unfold T.p0 p0
  rw [p0Vec]

theorem acqMat_eq (gs : List PStr) : T.acqMat gs = acqMat gs := by
  unfold T.acqMat acqMat
  simp only [Tc.acqGrid_eq]

theorem ipowProduct_eq (a b : List PStr) :
    T.ipowProduct a b = a.flatMap fun g1 => b.map fun g2 => ipow g1 g2 := by
  unfold T.ipowProduct
  simp only [ipow_eq]

/-! ## `pauli_combine`: fold over the `torch.nonzero` columns against the sequential loop -/

/-- one step of the torch fold, with `T.ipow` already replaced -/
def stepT (rows : List Pauli) (acc : Pauli) (j : Nat) : Pauli :=
  match rows[j]? with
  | some r => mul acc r
  | none => acc

theorem stepT_nil (acc : Pauli) (j : Nat) : stepT [] acc j = acc := by simp [stepT]

theorem foldl_stepT_nil (l : List Nat) (acc : Pauli) : l.foldl (stepT []) acc = acc := by
  induction l generalizing acc with
  | nil => rfl
  | cons j js ih => rw [List.foldl_cons, stepT_nil, ih]

theorem combineAux_nil_rows (c : List Bool) (acc : Pauli) : combineAux c [] acc = acc := by
  cases c <;> rfl

theorem stepT_cons_zero (r : Pauli) (rs : List Pauli) (acc : Pauli) : stepT (r :: rs) acc 0 = mul acc r := by
  simp [stepT]

theorem stepT_cons_succ (r : Pauli) (rs : List Pauli) (acc : Pauli) (j : Nat) :
    stepT (r :: rs) acc (j + 1) = stepT rs acc j := by
  simp [stepT]

theorem foldT (c : List Bool) : ∀ (rows : List Pauli) (acc : Pauli),
    ((List.range c.length).filter fun j => c.getD j false).foldl (stepT rows) acc = combineAux c rows acc := by
  induction c with
  | nil => intro rows acc; cases rows <;> rfl
  | cons c0 cs ih =>
    intro rows acc
    cases rows with
    | nil => rw [foldl_stepT_nil, combineAux_nil_rows]
    | cons r rs =>
      rw [List.length_cons, List.range_succ_eq_map, List.filter_cons]
      have hf : (List.map Nat.succ (List.range cs.length)).filter (fun j => (c0 :: cs).getD j false)
          = ((List.range cs.length).filter fun j => cs.getD j false).map Nat.succ := by
        rw [List.filter_map]
        congr 1
      have hs : ∀ (l : List Nat) (a : Pauli), (l.map Nat.succ).foldl (stepT (r :: rs)) a = l.foldl (stepT rs) a := by
        intro l a
        rw [List.foldl_map]
        congr 1
      rw [hf]
      cases c0 with
      | true =>
        simp only [List.getD_cons_zero, if_true, List.foldl_cons, stepT_cons_zero, hs, ih, combineAux]
      | false =>
        simp only [List.getD_cons_zero, Bool.false_eq_true, if_false, hs, ih, combineAux]

theorem combine_eq (n : Nat) (c : List Bool) (rows : List Pauli) : T.combine n c rows = combine n c rows := by
  unfold T.combine combine
  rw [← foldT]
  congr 1
  funext acc j
  unfold stepT
  cases rows[j]? with
  | none => rfl
  | some r => simp only [mul, ipow_eq]

theorem transform_eq (M : List Pauli) (P : Pauli) : T.transform M P = transform M P := by
  unfold T.transform transform
  simp only [combine_eq, p0_eq]

/-! ## `pauli_diagonalize1/2` -/

theorem kick_eq (g h : PStr) (hl : g.length = h.length) : T.kick g h = rotateSignless g h := by
  unfold T.kick rotateSignless
  rw [acq_eq]
  rcases acq_bit g h with h0 | h1
  · rw [(anti_eq_false_iff g h).2 h0]
    simp only [h0, Tc.zipCoef_zero h g (by omega)]
    simp
  · rw [(anti_iff g h).2 h1]
    simp only [h1, Tc.zipCoef_one]
    simp

/-- a string that is not on-site is not the identity string -/
theorem anyBit_of_not_onsite (g : PStr) (i0 : Nat) (h : isOnsite g i0 = false) : anyBit g = true := by
  cases ha : anyBit g with
  | true => rfl
  | false =>
    have : isOnsite g i0 = true :=
      (Rn.isOnsite_iff g i0).2 (fun j _ => by rw [Rn.anyBit_eq_false g ha, Rn.getQ_idStr])
    rw [this] at h; cases h

theorem diagGenA_eq (g : PStr) (i0 : Nat) (h : (getQ g i0).2 = true ∨ anyBit g = true) :
    T.diagGenA g i0 = diagGenA g i0 := by
  unfold T.diagGenA diagGenA
  rcases h with h | h
  · simp only [h, Bool.not_true, Bool.false_eq_true, if_false]
  · rw [Tc.front_eq g h]

theorem diagonalize1_eq (g : PStr) (i0 : Nat) : T.diagonalize1 g i0 = diagonalize1 g i0 := by
  unfold T.diagonalize1 diagonalize1
  rw [Tc.isOnsite_eq]
  cases ho : isOnsite g i0 with
  | true =>
    cases hx : (getQ g i0).1 with
    | true => simp
    | false => simp
  | false =>
    rw [diagGenA_eq g i0 (Or.inr (anyBit_of_not_onsite g i0 ho))]

theorem diagonalize2_eq (g1 g2 : PStr) (i0 : Nat) (hl : g1.length = g2.length) :
    T.diagonalize2 g1 g2 i0 = diagonalize2 g1 g2 i0 := by
  unfold T.diagonalize2 diagonalize2
  simp only [Tc.isOnsite_eq]
  cases ho : isOnsite g1 i0 with
  | true =>
    cases hx : (getQ g1 i0).1 with
    | true =>
      simp only [Bool.not_true, Bool.and_false, Bool.not_false, if_true, Bool.false_eq_true, if_false]
      rw [kick_eq _ _ (by rw [Rn.length_diagGenB]; exact hl)]
    | false => simp
  | false =>
    have hA := diagGenA_eq g1 i0 (Or.inr (anyBit_of_not_onsite g1 i0 ho))
    cases hx : (getQ g1 i0).1 with
    | true =>
      simp only [Bool.not_true, Bool.and_false, Bool.not_false, if_true, Bool.false_eq_true, if_false]
      rw [kick_eq _ _ (by rw [Rn.length_diagGenB]; exact hl)]
    | false =>
      simp only [Bool.false_and, Bool.not_false, if_true]
      rw [hA]
      have l1 : (diagGenA g1 i0).length = g2.length := by rw [Rn.length_diagGenA]; exact hl
      have l2 : (xorS g1 (diagGenA g1 i0)).length = g1.length :=
        length_xorS_eq _ _ (Rn.length_diagGenA g1 i0).symm
      rw [kick_eq _ _ l1]
      have l3 : (rotateSignless (diagGenA g1 i0) g2).length = g2.length := by
        unfold rotateSignless
        split
        · rw [length_xorS_eq _ _ l1.symm]
        · rfl
      rw [kick_eq _ _ (by rw [Rn.length_diagGenB, l2, l3]; exact hl)]

end Tc2
end PC
