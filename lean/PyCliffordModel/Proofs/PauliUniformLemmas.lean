import PyCliffordModel.Properties.C13c
import PyCliffordModel.Properties.C16d
import PyCliffordModel.Proofs.UniformLemmas
/-! helper lemmas for `Properties/C16f.lean` -/
namespace PC
namespace Pu
open Rn Un

/-! ## §1 tables of one-qubit pairs -/

theorem snoc_ind {α : Type} {P : List α → Prop} (h0 : P []) (hs : ∀ l a, P l → P (l ++ [a])) : ∀ l, P l := by
  have : ∀ l : List α, P l.reverse := by
    intro l
    induction l with
    | nil => exact h0
    | cons a l ih => rw [List.reverse_cons]; exact hs _ _ ih
  intro l
  have := this l.reverse
  rwa [List.reverse_reverse] at this

/-- `pauliTable` of `Properties/C16f` -/
def tab (N : Nat) (ps : List (Q × Q)) : List PStr :=
  (ps.mapIdx fun k ab => [placeQ N k ab.1, placeQ N k ab.2]).flatten

/-- the same table by recursion, starting at qubit `i` -/
def tabFrom (N : Nat) : Nat → List (Q × Q) → List PStr
  | _, [] => []
  | i, ab :: ps => placeQ N i ab.1 :: placeQ N i ab.2 :: tabFrom N (i + 1) ps

theorem mapIdx_tabFrom (N : Nat) : ∀ (ps : List (Q × Q)) (i : Nat),
    (ps.mapIdx fun k ab => [placeQ N (i + k) ab.1, placeQ N (i + k) ab.2]).flatten = tabFrom N i ps
  | [], _ => rfl
  | ab :: ps, i => by
    rw [List.mapIdx_cons, List.flatten_cons, tabFrom, ← mapIdx_tabFrom N ps (i + 1)]
    simp only [Nat.add_zero, List.cons_append, List.nil_append, List.cons.injEq, true_and]
    congr 2
    funext k ab
    rw [Nat.add_assoc, Nat.add_comm 1 k]

theorem tab_eq_tabFrom (N : Nat) (ps : List (Q × Q)) : tab N ps = tabFrom N 0 ps := by
  rw [← mapIdx_tabFrom]
  simp only [Nat.zero_add]
  rfl

theorem tab_snoc (N : Nat) (ps : List (Q × Q)) (ab : Q × Q) :
    tab N (ps ++ [ab]) = tab N ps ++ [placeQ N ps.length ab.1, placeQ N ps.length ab.2] := by
  unfold tab
  simp [List.mapIdx_append]

theorem length_tab (N : Nat) (ps : List (Q × Q)) : (tab N ps).length = 2 * ps.length := by
  induction ps using snoc_ind with
  | h0 => rfl
  | hs ps ab ih => rw [tab_snoc, List.length_append, ih]; simp; omega

theorem placeQ_inj (N k : Nat) (a b : Q) (hk : k < N) (h : placeQ N k a = placeQ N k b) : a = b := by
  have := congrArg (fun g => getQ g k) h
  simpa [getQ_placeQ N k k _ hk] using this

theorem tabFrom_inj (N : Nat) : ∀ (ps ps' : List (Q × Q)) (i : Nat), ps.length = ps'.length → i + ps.length ≤ N →
    tabFrom N i ps = tabFrom N i ps' → ps = ps'
  | [], [], _, _, _, _ => rfl
  | [], _ :: _, _, hl, _, _ => by simp at hl
  | _ :: _, [], _, hl, _, _ => by simp at hl
  | (a, b) :: ps, (a', b') :: ps', i, hl, hi, h => by
    simp only [List.length_cons] at hl hi
    simp only [tabFrom, List.cons.injEq] at h
    obtain ⟨h1, h2, h3⟩ := h
    rw [placeQ_inj N i a a' (by omega) h1, placeQ_inj N i b b' (by omega) h2,
      tabFrom_inj N ps ps' (i + 1) (by omega) (by omega) h3]

theorem tab_inj (N : Nat) (ps ps' : List (Q × Q)) (hl : ps.length = ps'.length) (hN : ps.length ≤ N)
    (h : tab N ps = tab N ps') : ps = ps' := by
  rw [tab_eq_tabFrom, tab_eq_tabFrom] at h
  exact tabFrom_inj N ps ps' 0 hl (by omega) h

theorem single_of_len1 (g : PStr) (h : g.length = 1) : g = [getQ g 0] := by
  match g, h with
  | [x], _ => simp [getQ]

theorem acq_single (g1 g2 : PStr) (h1 : g1.length = 1) (h2 : g2.length = 1) (ha : acq g1 g2 = 1) :
    acq [getQ g1 0] [getQ g2 0] = 1 := by
  rw [← single_of_len1 g1 h1, ← single_of_len1 g2 h2]; exact ha

theorem nontriv_of_pair (a b : Q) (h : acq [a] [b] = 1) : (a.1 || a.2) = true := by
  have := anyBit_of_acq [a] [b] h
  simpa [anyBit] using this

/-! ## §2 `random_pauli` (pyclifford): tapes consumed exactly -/

theorem split4 (y : List Bool) (hy : y.length = 4) :
    ∃ b1 b2 : List Bool, b1.length = 2 * 1 ∧ b2.length = 2 * 1 ∧ y = b1 ++ b2 := by
  refine ⟨y.take 2, y.drop 2, ?_, ?_, (List.take_append_drop 2 y).symm⟩
  · rw [List.length_take]; omega
  · rw [List.length_drop]; omega

/-- a 4-bit tape that yields a pair yields the same pair in front of any continuation -/
theorem pair_ext (y u : List Bool) (pr : PStr × PStr) (hy : y.length = 4) (h : randomPair 1 y = some (pr, [])) :
    randomPair 1 (y ++ u) = some (pr, u) := by
  obtain ⟨b1, b2, l1, l2, rfl⟩ := split4 y hy
  have e0 : b1 ++ b2 = b1 ++ (b2 ++ []) := by simp
  cases ha : anyBit (unflat b1) with
  | true =>
    rw [e0, randomPair_split_ok 1 b1 b2 [] l1 l2 ha] at h
    simp only [Option.some.injEq, Prod.mk.injEq, and_true] at h
    rw [List.append_assoc, randomPair_split_ok 1 b1 b2 u l1 l2 ha, h]
  | false =>
    rw [e0] at h
    have := randomPair_split_bad 1 b1 b2 [] l1 l2 ha _ _ h
    simp at this

/-- a pair drawn from `y ++ u` (`|y| = 4`) leaving `|u|` bits was drawn from `y` alone -/
theorem pair_exact (y u rest : List Bool) (pr : PStr × PStr) (hy : y.length = 4)
    (h : randomPair 1 (y ++ u) = some (pr, rest)) (hl : rest.length = u.length) :
    rest = u ∧ randomPair 1 y = some (pr, []) := by
  obtain ⟨b1, b2, l1, l2, rfl⟩ := split4 y hy
  have e0 : b1 ++ b2 = b1 ++ (b2 ++ []) := by simp
  rw [List.append_assoc] at h
  cases ha : anyBit (unflat b1) with
  | true =>
    rw [randomPair_split_ok 1 b1 b2 u l1 l2 ha] at h
    simp only [Option.some.injEq, Prod.mk.injEq] at h
    obtain ⟨rfl, rfl⟩ := h
    exact ⟨rfl, by rw [e0, randomPair_split_ok 1 b1 b2 [] l1 l2 ha]⟩
  | false =>
    have := randomPair_split_bad 1 b1 b2 u l1 l2 ha _ _ h
    omega

theorem randomPauli_succ_some (n k : Nat) (t rest : List Bool) (rows : List PStr) :
    randomPauli n (k + 1) t = some (rows, rest) ↔
      ∃ rows0 t1 g1 g2, randomPauli n k t = some (rows0, t1) ∧ randomPair 1 t1 = some ((g1, g2), rest) ∧
        rows = rows0 ++ [placeQ n k (getQ g1 0), placeQ n k (getQ g2 0)] := by
  rw [randomPauli]
  cases h1 : randomPauli n k t with
  | none => simp
  | some p =>
    obtain ⟨rows0, t1⟩ := p
    simp only
    cases h2 : randomPair 1 t1 with
    | none =>
      simp only [Option.some.injEq, Prod.mk.injEq, false_iff, reduceCtorEq]
      rintro ⟨_, _, _, _, ⟨rfl, rfl⟩, h3, _⟩
      rw [h2] at h3; cases h3
    | some q =>
      obtain ⟨⟨g1, g2⟩, t'⟩ := q
      simp only [Option.some.injEq, Prod.mk.injEq]
      constructor
      · rintro ⟨rfl, rfl⟩; exact ⟨rows0, t1, g1, g2, ⟨rfl, rfl⟩, h2, rfl⟩
      · rintro ⟨_, _, _, _, ⟨rfl, rfl⟩, h3, rfl⟩
        rw [h2] at h3
        simp only [Option.some.injEq, Prod.mk.injEq] at h3
        obtain ⟨⟨rfl, rfl⟩, rfl⟩ := h3
        exact ⟨rfl, rfl⟩

theorem randomPauli_len (n : Nat) : ∀ (k : Nat) (t rest : List Bool) (rows : List PStr),
    randomPauli n k t = some (rows, rest) → rest.length + 4 * k ≤ t.length
  | 0, t, rest, rows, h => by
    simp only [randomPauli, Option.some.injEq, Prod.mk.injEq] at h
    rw [← h.2]; omega
  | k + 1, t, rest, rows, h => by
    obtain ⟨rows0, t1, g1, g2, h1, h2, _⟩ := (randomPauli_succ_some n k t rest rows).1 h
    have a := randomPauli_len n k _ _ _ h1
    have b := randomPair_len 1 _ _ _ h2
    omega

theorem split_4k (k : Nat) (x : List Bool) (hx : x.length = 4 * (k + 1)) :
    ∃ x' y : List Bool, x'.length = 4 * k ∧ y.length = 4 ∧ x = x' ++ y := by
  refine ⟨x.take (4 * k), x.drop (4 * k), ?_, ?_, (List.take_append_drop _ x).symm⟩
  · rw [List.length_take]; omega
  · rw [List.length_drop]; omega

/-- extension and exactness of `randomPauli n k` on tapes of length `4k` -/
theorem pauli_ext_exact (n : Nat) : ∀ (k : Nat) (x : List Bool), x.length = 4 * k →
    (∀ rows u, randomPauli n k x = some (rows, []) → randomPauli n k (x ++ u) = some (rows, u)) ∧
    (∀ rows u rest, randomPauli n k (x ++ u) = some (rows, rest) → rest.length = u.length →
      rest = u ∧ randomPauli n k x = some (rows, []))
  | 0, x, hx => by
    have : x = [] := List.eq_nil_of_length_eq_zero (by omega)
    subst this
    constructor
    · intro rows u h
      simp only [randomPauli, Option.some.injEq, Prod.mk.injEq, and_true] at h
      simp [randomPauli, h]
    · intro rows u rest h _
      simp only [randomPauli, List.nil_append, Option.some.injEq, Prod.mk.injEq] at h
      simp [randomPauli, h.1, h.2]
  | k + 1, x, hx => by
    obtain ⟨x', y, lx, ly, rfl⟩ := split_4k k x hx
    obtain ⟨ihE, ihX⟩ := pauli_ext_exact n k x' lx
    constructor
    · intro rows u h
      obtain ⟨rows0, t1, g1, g2, h1, h2, hr⟩ := (randomPauli_succ_some n k _ _ rows).1 h
      have a := randomPauli_len n k _ _ _ h1
      have b := randomPair_len 1 _ _ _ h2
      simp only [List.length_append, List.length_nil] at a b
      obtain ⟨rfl, h1'⟩ := ihX rows0 y t1 h1 (by omega)
      rw [List.append_assoc]
      exact (randomPauli_succ_some n k _ _ rows).2
        ⟨rows0, t1 ++ u, g1, g2, ihE rows0 (t1 ++ u) h1', pair_ext t1 u _ ly h2, hr⟩
    · intro rows u rest h hl
      rw [List.append_assoc] at h
      obtain ⟨rows0, t1, g1, g2, h1, h2, hr⟩ := (randomPauli_succ_some n k _ _ rows).1 h
      have a := randomPauli_len n k _ _ _ h1
      have b := randomPair_len 1 _ _ _ h2
      simp only [List.length_append] at a b
      obtain ⟨rfl, h1'⟩ := ihX rows0 (y ++ u) t1 h1 (by simp only [List.length_append]; omega)
      obtain ⟨rfl, h2'⟩ := pair_exact y u rest _ ly h2 hl
      refine ⟨rfl, (randomPauli_succ_some n k _ _ rows).2 ⟨rows0, y, g1, g2, ?_, h2', hr⟩⟩
      have := ihE rows0 y h1'
      simpa using this

/-- a tape of exactly `4(k+1)` bits consumed entirely: `4k` bits for the first `k` qubits, `4` for the last -/
theorem pauli_step_char (n k : Nat) (x y : List Bool) (rows : List PStr) (hx : x.length = 4 * k) (hy : y.length = 4) :
    randomPauli n (k + 1) (x ++ y) = some (rows, []) ↔
      ∃ rows0 g1 g2, randomPauli n k x = some (rows0, []) ∧ randomPair 1 y = some ((g1, g2), []) ∧
        rows = rows0 ++ [placeQ n k (getQ g1 0), placeQ n k (getQ g2 0)] := by
  obtain ⟨ihE, ihX⟩ := pauli_ext_exact n k x hx
  constructor
  · intro h
    obtain ⟨rows0, t1, g1, g2, h1, h2, hr⟩ := (randomPauli_succ_some n k _ _ rows).1 h
    have a := randomPauli_len n k _ _ _ h1
    have b := randomPair_len 1 _ _ _ h2
    simp only [List.length_append, List.length_nil] at a b
    obtain ⟨rfl, h1'⟩ := ihX rows0 y t1 h1 (by omega)
    exact ⟨rows0, g1, g2, h1', h2, hr⟩
  · rintro ⟨rows0, g1, g2, h1, h2, hr⟩
    exact (randomPauli_succ_some n k _ _ rows).2 ⟨rows0, y, g1, g2, ihE rows0 y h1, h2, hr⟩

/-- the acceptance predicate of a table with one more pair factors over the two parts of the tape -/
theorem pauli_step_pred (n : Nat) (ps : List (Q × Q)) (a b : Q) (hk : ps.length < n) (x y : List Bool)
    (hx : x.length = 4 * ps.length) (hy : y.length = 4) :
    (randomPauli n (ps.length + 1) (x ++ y) == some (tab n (ps ++ [(a, b)]), [])) =
      ((randomPauli n ps.length x == some (tab n ps, [])) && (randomPair 1 y == some (([a], [b]), []))) := by
  rw [Bool.eq_iff_iff]
  simp only [beq_iff_eq, Bool.and_eq_true]
  rw [pauli_step_char n ps.length x y _ hx hy, tab_snoc]
  constructor
  · rintro ⟨rows0, g1, g2, h1, h2, hr⟩
    obtain ⟨_, l1, l2, _⟩ := randomPair_spec 1 _ _ _ _ h2
    obtain ⟨e1, e2⟩ := List.append_inj' hr rfl
    simp only [List.cons.injEq, and_true] at e2
    have ea := placeQ_inj n _ _ _ hk e2.1
    have eb := placeQ_inj n _ _ _ hk e2.2
    refine ⟨by rw [h1, e1], ?_⟩
    rw [h2, single_of_len1 g1 l1, single_of_len1 g2 l2, ← ea, ← eb]
  · rintro ⟨h1, h2⟩
    exact ⟨_, _, _, h1, h2, by simp [getQ]⟩

/-- **pyclifford `random_pauli`, first `k` qubits**: every table of `k` pairs arises from exactly `2^k` tapes of length `4k` -/
theorem pauli_count (n : Nat) (ps : List (Q × Q)) (hk : ps.length ≤ n) (hp : ∀ ab ∈ ps, acq [ab.1] [ab.2] = 1) :
    cnt (4 * ps.length) (fun t => randomPauli n ps.length t == some (tab n ps, [])) = 2 ^ ps.length := by
  induction ps using snoc_ind with
  | h0 => rfl
  | hs ps ab ih =>
    obtain ⟨a, b⟩ := ab
    simp only [List.length_append, List.length_singleton] at hk ⊢
    have e : 4 * (ps.length + 1) = 4 * ps.length + 4 := by omega
    rw [e, cnt_prod _ _ _ _ _ (fun x y hx hy => pauli_step_pred n ps a b (by omega) x y hx hy),
      ih (by omega) (fun ab h => hp ab (by simp [h]))]
    have hab : acq [a] [b] = 1 := hp (a, b) (by simp)
    have := C16_randomPair_N1_uniform a b (nontriv_of_pair a b hab) hab
    unfold cnt
    rw [this, Nat.pow_succ]

/-- every output of `randomPauli n k` is a table of `k` anticommuting one-qubit pairs -/
theorem pauli_image (n : Nat) : ∀ (k : Nat) (t rest : List Bool) (rows : List PStr),
    randomPauli n k t = some (rows, rest) →
    ∃ ps : List (Q × Q), ps.length = k ∧ (∀ ab ∈ ps, acq [ab.1] [ab.2] = 1) ∧ rows = tab n ps
  | 0, t, rest, rows, h => by
    simp only [randomPauli, Option.some.injEq, Prod.mk.injEq] at h
    exact ⟨[], rfl, by simp, h.1.symm⟩
  | k + 1, t, rest, rows, h => by
    obtain ⟨rows0, t1, g1, g2, h1, h2, hr⟩ := (randomPauli_succ_some n k t rest rows).1 h
    obtain ⟨ps, hl, hp, rfl⟩ := pauli_image n k _ _ _ h1
    obtain ⟨ha, l1, l2, _⟩ := randomPair_spec 1 _ _ _ _ h2
    refine ⟨ps ++ [(getQ g1 0, getQ g2 0)], by simp [hl], ?_, by rw [tab_snoc, hl, hr]⟩
    intro ab hab
    rcases List.mem_append.1 hab with h' | h'
    · exact hp ab h'
    · simp only [List.mem_singleton] at h'
      subst h'
      exact acq_single g1 g2 l1 l2 ha

/-! ## §3 the batched torch sampler -/

theorem chunk1 : ∀ (k : Nat) (b : List Bool), k * 2 + 2 ≤ b.length →
    unflat ((b.drop (k * (2 * 1))).take (2 * 1)) = [getQ (unflat b) k]
  | 0, x :: z :: rest, _ => by simp [unflat, getQ]
  | 0, [], h => by simp at h
  | 0, [_], h => by simp at h
  | k + 1, x :: z :: rest, h => by
    have e : (k + 1) * (2 * 1) = k * (2 * 1) + 1 + 1 := by omega
    rw [e, List.drop_succ_cons, List.drop_succ_cons, chunk1 k rest (by simp at h; omega)]
    simp only [unflat, getQ_cons_succ]
  | _ + 1, [], h => by simp at h
  | _ + 1, [_], h => by simp at h

/-- the rows `takeRows L 1` reads off exactly `2L` bits are the one-qubit strings of `unflat` -/
theorem takeRows_exact (L : Nat) (x u : List Bool) (hx : x.length = 2 * L) :
    T.takeRows L 1 (x ++ u) = some ((unflat x).map fun q => [q], u) := by
  unfold T.takeRows
  rw [takeBits_append (L * (2 * 1)) x u (by omega)]
  simp only [Option.some.injEq, Prod.mk.injEq, and_true]
  have hl : (unflat x).length = L := Cp.length_unflat x L hx
  apply List.ext_getElem
  · simp [hl]
  · intro k h1 h2
    have hk : k < L := by simpa using h1
    rw [List.getElem_map, List.getElem_range, chunk1 k x (by omega), List.getElem_map,
      getQ_of_lt _ _ (by omega)]

/-- the one-qubit pairs the batched sampler builds from the two halves of the tape -/
def pairsQ (g1 g2 : PStr) : List (Q × Q) := List.zipWith (fun a c => (a, getQ (fixP [a] [c]) 0)) g1 g2

theorem torch_table (N : Nat) (g1 g2 : PStr) :
    ((((g1.map fun q => [q]).zip (g2.map fun q => [q])).map fun ab => (ab.1, T.impose ab.1 ab.2)).mapIdx
      fun k ab => [placeQ N k (getQ ab.1 0), placeQ N k (getQ ab.2 0)]) =
    (pairsQ g1 g2).mapIdx fun k ab => [placeQ N k ab.1, placeQ N k ab.2] := by
  apply List.ext_getElem
  · simp [pairsQ]
  · intro k h1 h2
    simp [pairsQ, Tk.impose_eq, getQ]

/-- a tape of exactly `4N` bits: no resampling is possible; the table is read off the two halves -/
theorem torch_eval (N : Nat) (hN : N ≠ 1) (x y : List Bool) (hx : x.length = 2 * N) (hy : y.length = 2 * N) :
    T.randomPauli N (x ++ y) =
      if ((unflat x).map fun q => [q]).all anyBit then some (tab N (pairsQ (unflat x) (unflat y)), []) else none := by
  have hy' : T.takeRows N 1 y = some ((unflat y).map fun q => [q], []) := by
    simpa using takeRows_exact N y [] hy
  unfold T.randomPauli T.randomPairs
  rw [takeRows_exact N x y hx]
  simp only [hy', List.length_nil, T.resampleRows]
  by_cases hall : ((unflat x).map fun q => [q]).all anyBit = true
  · simp only [hall, if_true, if_neg hN, torch_table]
    rfl
  · simp only [hall, if_false, Bool.false_eq_true]

/-- the second halves completing the first strings `a_k` to the pairs `(a_k, b_k)` -/
def okY : List (Q × Q) → PStr → Bool
  | [], _ => true
  | ab :: ps, c :: cs => (fixP [ab.1] [c] == [ab.2]) && okY ps cs
  | _ :: _, [] => false

theorem fixP_single_iff (a b c : Q) : getQ (fixP [a] [c]) 0 = b ↔ fixP [a] [c] = [b] := by
  have h := single_of_len1 (fixP [a] [c]) (by rw [length_fixP]; rfl)
  constructor
  · intro e; rw [h, e]
  · intro e; rw [e]; rfl

theorem pairsQ_iff : ∀ (ps : List (Q × Q)) (g1 g2 : PStr), g1.length = ps.length → g2.length = ps.length →
    (pairsQ g1 g2 = ps ↔ g1 = ps.map Prod.fst ∧ okY ps g2 = true)
  | [], [], [], _, _ => by simp [pairsQ, okY]
  | [], _ :: _, _, h, _ => by simp at h
  | [], [], _ :: _, _, h => by simp at h
  | _ :: _, [], _, h, _ => by simp at h
  | _ :: _, _ :: _, [], _, h => by simp at h
  | (a, b) :: ps, a' :: g1, c :: g2, h1, h2 => by
    have ih := pairsQ_iff ps g1 g2 (by simpa using h1) (by simpa using h2)
    unfold pairsQ at ih ⊢
    simp only [List.zipWith_cons_cons, List.cons.injEq, Prod.mk.injEq, List.map_cons, okY, Bool.and_eq_true,
      beq_iff_eq, ih]
    constructor
    · rintro ⟨⟨rfl, hb⟩, hg, ho⟩
      exact ⟨⟨rfl, hg⟩, (fixP_single_iff _ _ _).1 hb, ho⟩
    · rintro ⟨⟨rfl, hg⟩, hb, ho⟩
      exact ⟨⟨rfl, (fixP_single_iff _ _ _).2 hb⟩, hg, ho⟩

theorem all_anyBit_fst (ps : List (Q × Q)) (hp : ∀ ab ∈ ps, acq [ab.1] [ab.2] = 1) :
    (((ps.map Prod.fst).map fun q => [q]).all anyBit) = true := by
  rw [List.all_eq_true]
  intro r hr
  simp only [List.map_map, List.mem_map, Function.comp] at hr
  obtain ⟨ab, hab, rfl⟩ := hr
  exact anyBit_of_acq _ _ (hp ab hab)

/-- the acceptance predicate of the torch sampler factors over the two halves of the tape -/
theorem torch_pred (N : Nat) (hN : 2 ≤ N) (ps : List (Q × Q)) (hl : ps.length = N)
    (hp : ∀ ab ∈ ps, acq [ab.1] [ab.2] = 1) (x y : List Bool) (hx : x.length = 2 * N) (hy : y.length = 2 * N) :
    (T.randomPauli N (x ++ y) == some (tab N ps, [])) = ((x == flat (ps.map Prod.fst)) && okY ps (unflat y)) := by
  have l1 : (unflat x).length = ps.length := by rw [hl]; exact Cp.length_unflat x N hx
  have l2 : (unflat y).length = ps.length := by rw [hl]; exact Cp.length_unflat y N hy
  rw [Bool.eq_iff_iff, torch_eval N (by omega) x y hx hy]
  simp only [beq_iff_eq, Bool.and_eq_true]
  constructor
  · intro h
    split at h
    · simp only [Option.some.injEq, Prod.mk.injEq, and_true] at h
      have hq : pairsQ (unflat x) (unflat y) = ps :=
        tab_inj N _ _ (by simp [pairsQ, l1, l2]) (by simp [pairsQ, l1, l2, hl]) h
      obtain ⟨e1, e2⟩ := (pairsQ_iff ps _ _ l1 l2).1 hq
      exact ⟨by rw [← e1, Cp.flat_unflat x N hx], e2⟩
    · cases h
  · rintro ⟨rfl, ho⟩
    rw [unflat_flat, if_pos (all_anyBit_fst ps hp)]
    rw [unflat_flat] at l1
    rw [(pairsQ_iff ps _ _ l1 l2).2 ⟨rfl, ho⟩]

theorem okY_split (a b : Q) (ps : List (Q × Q)) (y1 y2 : List Bool) (h1 : y1.length = 2) :
    okY ((a, b) :: ps) (unflat (y1 ++ y2)) = ((fixP [a] (unflat y1) == [b]) && okY ps (unflat y2)) := by
  match y1, h1 with
  | [u, v], _ => simp [unflat, okY]

/-- for every first half, exactly `2^N` second halves give the prescribed second strings -/
theorem okY_count : ∀ (ps : List (Q × Q)), (∀ ab ∈ ps, acq [ab.1] [ab.2] = 1) →
    cnt (2 * ps.length) (fun y => okY ps (unflat y)) = 2 ^ ps.length
  | [], _ => rfl
  | (a, b) :: ps, hp => by
    have e : 2 * ((a, b) :: ps).length = 2 + 2 * ps.length := by simp only [List.length_cons]; omega
    have hab : acq [a] [b] = 1 := hp (a, b) (by simp)
    rw [e, cnt_prod _ _ _ _ _ (fun y1 y2 h1 _ => okY_split a b ps y1 y2 h1),
      okY_count ps (fun ab h => hp ab (by simp [h]))]
    have := cnt_fixP 1 [a] [b] rfl rfl (anyBit_of_acq _ _ hab) hab
    rw [show (2 : Nat) * 1 = 2 from rfl] at this
    rw [this, List.length_cons, Nat.pow_succ, Nat.mul_comm]

/-- **torch `random_pauli`**: every table of `N ≥ 2` pairs arises from exactly `2^N` tapes of length `4N` -/
theorem torch_count (N : Nat) (hN : 2 ≤ N) (ps : List (Q × Q)) (hl : ps.length = N)
    (hp : ∀ ab ∈ ps, acq [ab.1] [ab.2] = 1) :
    cnt (4 * N) (fun t => T.randomPauli N t == some (tab N ps, [])) = 2 ^ N := by
  have e : 4 * N = 2 * N + 2 * N := by omega
  rw [e, cnt_prod _ _ _ _ _ (fun x y hx hy => torch_pred N hN ps hl hp x y hx hy),
    cnt_eq _ _ (by rw [Cp.length_flat, List.length_map, hl])]
  have := okY_count ps hp
  rw [hl] at this
  rw [this, Nat.one_mul]

end Pu
end PC
