import PyCliffordModel.Proofs.Algebra
import PyCliffordModel.Model.Parse
/-! # Proofs/ParseLemmas — helper lemmas for C20 (the parser loop with the shift counter `h`) -/
namespace PC

/-! ## list facts -/

theorem getQ_append_mid (pre rest : PStr) (a : Q) : getQ (pre ++ a :: rest) pre.length = a := by
  induction pre with
  | nil => rfl
  | cons b pre ih => simp [getQ]

theorem setQ_append_mid (pre rest : PStr) (a q : Q) :
    setQ (pre ++ a :: rest) pre.length q = pre ++ q :: rest := by
  induction pre with
  | nil => rfl
  | cons b pre ih => simp [setQ]

/-! ## items of `enumerate` with an explicit start index -/

/-- `enumerate(toks, start = o)` -/
def itemsFrom : Nat → List Tok → List (Int × Tok)
  | _, [] => []
  | o, t :: ts => ((o : Int), t) :: itemsFrom (o + 1) ts

theorem mapIdx_eq_itemsFrom (toks : List Tok) (o : Nat) :
    toks.mapIdx (fun i t => (((i + o : Nat) : Int), t)) = itemsFrom o toks := by
  induction toks generalizing o with
  | nil => rfl
  | cons t ts ih =>
    rw [List.mapIdx_cons, itemsFrom]
    have h : (fun i t => (((i + 1 + o : Nat) : Int), t)) = fun i (t : Tok) => (((i + (o + 1) : Nat) : Int), t) := by
      funext i t; congr 2; omega
    rw [h, ih (o + 1)]
    simp

theorem enum_eq_itemsFrom (toks : List Tok) :
    toks.mapIdx (fun i t => ((i : Int), t)) = itemsFrom 0 toks := by
  simpa using mapIdx_eq_itemsFrom toks 0

theorem mapIdx_map_eq_itemsFrom {α : Type} (f : α → Tok) (l : List α) (o : Nat) :
    l.mapIdx (fun i a => (((i + o : Nat) : Int), f a)) = itemsFrom o (l.map f) := by
  induction l generalizing o with
  | nil => rfl
  | cons a l ih =>
    rw [List.mapIdx_cons, List.map_cons, itemsFrom]
    have h : (fun i a => (((i + 1 + o : Nat) : Int), f a)) = fun i (a : α) => (((i + (o + 1) : Nat) : Int), f a) := by
      funext i a; congr 2; omega
    rw [h, ih (o + 1)]
    simp

theorem enum_map_eq_itemsFrom {α : Type} (f : α → Tok) (l : List α) :
    l.mapIdx (fun i a => ((i : Int), f a)) = itemsFrom 0 (l.map f) := by
  simpa using mapIdx_map_eq_itemsFrom f l 0

theorem itemsFrom_append (o : Nat) (a b : List Tok) :
    itemsFrom o (a ++ b) = itemsFrom o a ++ itemsFrom (o + a.length) b := by
  induction a generalizing o with
  | nil => rfl
  | cons t ts ih =>
    simp only [List.cons_append, itemsFrom, ih, List.length_cons]
    congr 3; omega

theorem parseLoop_append (N : Nat) (s : ParseSt) (a b : List (Int × Tok)) :
    parseLoop N s (a ++ b) = (parseLoop N s a).bind fun s' => parseLoop N s' b := by
  induction a generalizing s with
  | nil => rfl
  | cons it a ih =>
    obtain ⟨i, mu⟩ := it
    simp only [List.cons_append, parseLoop]
    cases parseStep N s i mu with
    | none => rfl
    | some s' => exact ih s'

theorem parseSeq_eq (toks : List Tok) :
    parseSeq toks = parseItems toks.length (itemsFrom 0 toks) := by
  rw [parseSeq, enum_eq_itemsFrom]

/-! ## one loop iteration on a letter -/

/-- `mu` is the letter (character or code `0..3`) of the qubit `q` -/
def IsLetter (mu : Tok) (q : Q) : Prop := mu = .ch (reprQ q) ∨ mu = .code (tokQ q)

theorem isLetter_ch (q : Q) : IsLetter (.ch (reprQ q)) q := .inl rfl
theorem isLetter_code (q : Q) : IsLetter (.code (tokQ q)) q := .inr rfl

theorem tokQ_II : tokQ (false, false) = 0 := by decide
theorem tokQ_X : tokQ (true, false) = 1 := by decide
theorem tokQ_Y : tokQ (true, true) = 2 := by decide
theorem tokQ_Z : tokQ (false, true) = 3 := by decide

/-- a letter at index `k + h` writes the qubit `k` (which is still the identity) and leaves `h`, `p` -/
theorem parseStep_letter (N h : Nat) (p : Int) (pre rest : PStr) (q : Q) (mu : Tok)
    (hmu : IsLetter mu q) (hN : pre.length < N) :
    parseStep N ⟨pre ++ (false, false) :: rest, h, p⟩ ((pre.length + h : Nat) : Int) mu
      = some ⟨pre ++ q :: rest, h, p⟩ := by
  have hlt : ((pre.length : Nat) : Int) < (N : Int) := by omega
  obtain ⟨x, z⟩ := q
  rcases hmu with rfl | rfl <;> cases x <;> cases z <;>
    simp [parseStep, hlt, reprQ, tokQ_II, tokQ_X, tokQ_Y, tokQ_Z,
      getQ_append_mid, setQ_append_mid]

/-- the loop over the letters of `g'`, starting at qubit `pre.length` (index `pre.length + h`) -/
theorem parseLoop_letters (N h : Nat) (p : Int) (f : Q → Tok) (hf : ∀ q, IsLetter (f q) q) :
    ∀ (g' pre : PStr) (m : Nat), g'.length ≤ m → pre.length + g'.length ≤ N →
      parseLoop N ⟨pre ++ idStr m, h, p⟩ (itemsFrom (pre.length + h) (g'.map f))
        = some ⟨pre ++ g' ++ idStr (m - g'.length), h, p⟩ := by
  intro g'
  induction g' with
  | nil => intro pre m _ _; simp [itemsFrom, parseLoop]
  | cons q g' ih =>
    intro pre m hm hN
    obtain ⟨m, rfl⟩ : ∃ m', m = m' + 1 := ⟨m - 1, by simp at hm; omega⟩
    simp only [List.length_cons] at hm hN
    rw [idStr_succ, List.map_cons, itemsFrom, parseLoop,
      parseStep_letter N h p pre (idStr m) q (f q) (hf q) (by omega)]
    have h1 : pre ++ q :: idStr m = (pre ++ [q]) ++ idStr m := by simp
    have h2 : pre.length + h + 1 = (pre ++ [q]).length + h := by simp; omega
    rw [h1, h2]
    show parseLoop N _ _ = _
    rw [ih (pre ++ [q]) m (by omega) (by simp; omega)]
    simp

/-! ## whole descriptions -/

/-- sign/phase prefix `pf` (consumed with `h = pf.length`, phase `p`), then the letters of `g` -/
theorem parseSeq_prefix_letters (pf : List Tok) (p : Int)
    (hpf : ∀ (N : Nat) (G : PStr), pf.length ≤ N →
      parseLoop N ⟨G, 0, 0⟩ (itemsFrom 0 pf) = some ⟨G, pf.length, p⟩)
    (f : Q → Tok) (hf : ∀ q, IsLetter (f q) q) (g : PStr) :
    parseSeq (pf ++ g.map f) = .ok ⟨g, p⟩ := by
  have hlen : (pf ++ g.map f).length = pf.length + g.length := by simp
  rw [parseSeq_eq, parseItems, itemsFrom_append, parseLoop_append, hlen, hpf _ _ (by omega)]
  have h := parseLoop_letters (pf.length + g.length) pf.length p f hf g [] (pf.length + g.length)
    (by omega) (by simp)
  simp only [List.nil_append, List.length_nil, Nat.zero_add] at h
  simp only [Option.bind_some, Nat.zero_add, h]
  simp

/-- the letters of `g`, then one trailing phase symbol `t` (as in `pauli_tokenize`) -/
theorem parseSeq_letters_suffix (t : Tok) (p : Int)
    (ht : ∀ (N k : Nat) (G : PStr), k < N →
      parseStep N ⟨G, 0, 0⟩ (k : Int) t = some ⟨G, 1, p⟩)
    (f : Q → Tok) (hf : ∀ q, IsLetter (f q) q) (g : PStr) :
    parseSeq (g.map f ++ [t]) = .ok ⟨g, p⟩ := by
  have hlen : (g.map f ++ [t]).length = g.length + 1 := by simp
  rw [parseSeq_eq, parseItems, itemsFrom_append, parseLoop_append, hlen]
  have h := parseLoop_letters (g.length + 1) 0 0 f hf g [] (g.length + 1) (by omega) (by simp)
  simp only [List.nil_append, List.length_nil, Nat.zero_add] at h
  simp only [h, Option.bind_some, List.length_map, Nat.zero_add, itemsFrom, parseLoop,
    ht (g.length + 1) g.length _ (by omega)]
  simp

/-- the dict description: only the non-identity qubits, each at its own position, `h = 0` -/
theorem parseLoop_dict (N : Nat) (p : Int) :
    ∀ (g' pre : PStr) (m : Nat), g'.length ≤ m → pre.length + g'.length ≤ N →
      parseLoop N ⟨pre ++ idStr m, 0, p⟩
        ((itemsFrom pre.length (g'.map fun q => Tok.code (tokQ q))).filter
          fun it => it.2 != Tok.code 0)
        = some ⟨pre ++ g' ++ idStr (m - g'.length), 0, p⟩ := by
  intro g'
  induction g' with
  | nil => intro pre m _ _; simp [itemsFrom, parseLoop]
  | cons q g' ih =>
    intro pre m hm hN
    obtain ⟨m, rfl⟩ : ∃ m', m = m' + 1 := ⟨m - 1, by simp at hm; omega⟩
    simp only [List.length_cons] at hm hN
    have h1 : pre ++ q :: idStr m = (pre ++ [q]) ++ idStr m := by simp
    have h2 : pre.length + 1 = (pre ++ [q]).length := by simp
    have hfin : pre ++ [q] ++ g' ++ idStr (m - g'.length)
        = pre ++ q :: g' ++ idStr (m + 1 - (q :: g').length) := by simp
    rw [List.map_cons, itemsFrom, List.filter_cons]
    by_cases hq : q = (false, false)
    · subst hq
      have hc : ((Tok.code (tokQ (false, false)) != Tok.code 0) = true) = False := by
        simp [tokQ_II]
      simp only [hc, if_false]
      rw [idStr_succ, h1, h2, ih (pre ++ [(false, false)]) m (by omega) (by simp; omega), hfin]
    · have hc : (Tok.code (tokQ q) != Tok.code 0) = true := by
        obtain ⟨x, z⟩ := q
        cases x <;> cases z <;> simp_all [tokQ_X, tokQ_Y, tokQ_Z]
      have hs := parseStep_letter N 0 p pre (idStr m) q _ (isLetter_code q) (by omega)
      simp only [Nat.add_zero] at hs
      simp only [hc, if_true, parseLoop, idStr_succ, hs]
      rw [h1, h2, ih (pre ++ [q]) m (by omega) (by simp; omega), hfin]

/-! ## sign / phase symbols -/

/-- what a non-letter symbol does to the phase: `+`/4 → 0, `-`/5 → 2, `i` → `p+1`, 6 → 1, 7 → 3, other → `p` -/
def prefixPhase (mu : Tok) (p : Int) : Int :=
  if mu = .code 4 ∨ mu = .ch '+' then 0
  else if mu = .code 5 ∨ mu = .ch '-' then 2
  else if mu = .ch 'i' then p + 1
  else if mu = .code 6 then 1
  else if mu = .code 7 then 3
  else p

/-- `mu` is not one of the letters `I X Y Z` / `0 1 2 3` -/
def NotLetter (mu : Tok) : Prop :=
  mu ≠ .code 0 ∧ mu ≠ .ch 'I' ∧ mu ≠ .code 1 ∧ mu ≠ .ch 'X' ∧
  mu ≠ .code 2 ∧ mu ≠ .ch 'Y' ∧ mu ≠ .code 3 ∧ mu ≠ .ch 'Z'

instance (mu : Tok) : Decidable (NotLetter mu) := by unfold NotLetter; infer_instance

/-- a non-letter symbol at index `k + h` (`k < N`) only increases `h` and updates the phase -/
theorem parseStep_prefix (N h k : Nat) (p : Int) (G : PStr) (mu : Tok) (hmu : NotLetter mu)
    (hN : k < N) :
    parseStep N ⟨G, h, p⟩ ((k + h : Nat) : Int) mu = some ⟨G, h + 1, prefixPhase mu p⟩ := by
  obtain ⟨h0, h1, h2, h3, h4, h5, h6, h7⟩ := hmu
  have hlt : ((k + h : Nat) : Int) - (h : Int) < (N : Int) := by omega
  simp only [parseStep, hlt, prefixPhase]
  simp [h0, h1, h2, h3, h4, h5, h6, h7]
  by_cases c1 : mu = .code 4 ∨ mu = .ch '+'
  · simp only [c1, if_true]
  by_cases c2 : mu = .code 5 ∨ mu = .ch '-'
  · simp only [c1, c2, if_true, if_false]
  by_cases c3 : mu = .ch 'i'
  · rw [if_neg c1, if_neg c1, if_neg c2, if_neg c2, if_pos c3, if_pos c3]
  by_cases c4 : mu = .code 6
  · rw [if_neg c1, if_neg c1, if_neg c2, if_neg c2, if_neg c3, if_neg c3, if_pos c4, if_pos c4]
  by_cases c5 : mu = .code 7
  · rw [if_neg c1, if_neg c1, if_neg c2, if_neg c2, if_neg c3, if_neg c3, if_neg c4, if_neg c4,
      if_pos c5, if_pos c5]
  · simp only [c1, c2, c3, c4, c5, if_false]

/-- a list of non-letter symbols at the start of a description is consumed with `h` = its length;
    the phase is the fold of `prefixPhase` -/
theorem parseLoop_prefix (N : Nat) (G : PStr) :
    ∀ (pf : List Tok) (h : Nat) (p : Int), (∀ mu ∈ pf, NotLetter mu) → h + pf.length ≤ N →
      parseLoop N ⟨G, h, p⟩ (itemsFrom h pf)
        = some ⟨G, h + pf.length, pf.foldl (fun p mu => prefixPhase mu p) p⟩ := by
  intro pf
  induction pf with
  | nil => intro h p _ _; rfl
  | cons mu pf ih =>
    intro h p hnl hN
    simp only [List.length_cons] at hN
    have hs := parseStep_prefix N h 0 p G mu (hnl mu (by simp)) (by omega)
    simp only [Nat.zero_add] at hs
    simp only [itemsFrom, parseLoop, hs, List.foldl_cons, List.length_cons]
    rw [ih (h + 1) _ (fun m hm => hnl m (by simp [hm])) (by omega)]
    congr 2; omega

/-- prefix `pf` of non-letter symbols, then the letters of `g` -/
theorem parseSeq_prefix (pf : List Tok) (hnl : ∀ mu ∈ pf, NotLetter mu)
    (f : Q → Tok) (hf : ∀ q, IsLetter (f q) q) (g : PStr) :
    parseSeq (pf ++ g.map f) = .ok ⟨g, pf.foldl (fun p mu => prefixPhase mu p) 0⟩ := by
  apply parseSeq_prefix_letters pf _ _ f hf g
  intro N G hN
  have h := parseLoop_prefix N G pf 0 0 hnl (by omega)
  simpa using h

end PC
