import PyCliffordModel.Proofs.Algebra
import PyCliffordModel.Model.Parse
/-! # Proofs/ParseLemmas — helper lemmas for C20 (the parser loop with the shift counter `h`) -/
namespace PC

end PC
