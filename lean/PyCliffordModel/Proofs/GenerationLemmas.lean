import PyCliffordModel.Properties.C16d
import PyCliffordModel.Properties.C16
import PyCliffordModel.Properties.C18b
import PyCliffordModel.Properties.C03
import PyCliffordModel.Properties.C02
/-! helper lemmas for `Properties/C03b.lean` -/
namespace PC
namespace Gn
open Tr Cp Rn

/-! ## basic facts on `rotSeq` -/

theorem rotSeq_nil (P : Pauli) : rotSeq [] P = P := rfl
theorem rotSeq_cons (g : PStr) (gs : List PStr) (P : Pauli) : rotSeq (g :: gs) P = rotSeq gs (rotate ⟨g, 0⟩ P) := rfl
theorem rotSeq_append (gs hs : List PStr) (P : Pauli) : rotSeq (gs ++ hs) P = rotSeq hs (rotSeq gs P) := by
  simp [rotSeq, List.foldl_append]

theorem rotSeq_g (gs : List PStr) (P : Pauli) : (rotSeq gs P).g = rotS gs P.g := (rotP_spec gs P).1
theorem rotSeq_parity (gs : List PStr) (P : Pauli) : (rotSeq gs P).p % 2 = P.p % 2 := (rotP_spec gs P).2

theorem length_rotSeq (gs : List PStr) (P : Pauli) (n : Nat) (hg : ∀ g ∈ gs, g.length = n) (hP : P.g.length = n) :
    (rotSeq gs P).g.length = n := by
  rw [rotSeq_g, length_rotS gs P.g (fun g h => by rw [hg g h, hP]), hP]

theorem acq_rotSeq (gs : List PStr) (P Q : Pauli) (n : Nat) (hg : ∀ g ∈ gs, g.length = n) (hP : P.g.length = n)
    (hQ : Q.g.length = n) : acq (rotSeq gs P).g (rotSeq gs Q).g = acq P.g Q.g := by
  rw [rotSeq_g, rotSeq_g, acq_rotS gs P.g Q.g (fun g h => by rw [hg g h, hP]) (hP.trans hQ.symm)]

theorem rotSeq_congr : ∀ (gs : List PStr) {P Q : Pauli}, PEq P Q → PEq (rotSeq gs P) (rotSeq gs Q)
  | [], _, _, h => h
  | g :: gs, _, _, h => by
    rw [rotSeq_cons, rotSeq_cons]
    exact rotSeq_congr gs (rotate_congr_PEq _ h)

/-! ## every rotation sequence is the action of a valid map -/

theorem rotations_are_a_map (n : Nat) : ∀ (gens : List PStr), (∀ g ∈ gens, g.length = n) →
    ∃ M : List Pauli, ValidMap M n ∧ ∀ P : Pauli, P.g.length = n → PEq (transform M P) (rotSeq gens P)
  | [], _ => ⟨idMap n, validMap_idMap n, fun P hP => transform_idMap n P hP⟩
  | g :: gs, hg => by
    obtain ⟨M', hM', hact⟩ := rotations_are_a_map n gs (fun g' h => hg g' (by simp [h]))
    have hgl : g.length = n := hg g (by simp)
    have hR : ValidMap (rotationMap ⟨g, 0⟩) n := by
      have := rotationMap_valid ⟨g, 0⟩ (by rfl)
      rwa [show (⟨g, 0⟩ : Pauli).g.length = n from hgl] at this
    refine ⟨compose (rotationMap ⟨g, 0⟩) M', compose_valid _ _ n hR hM', ?_⟩
    intro P hP
    have h1 := compose_acts _ M' n hR hM' P hP
    have h2 : PEq (transform (rotationMap ⟨g, 0⟩) P) (rotate ⟨g, 0⟩ P) :=
      rotationMap_acts_as_rotate ⟨g, 0⟩ P (by rfl) (by rw [hP]; exact hgl)
    have h3 := transform_congr M' h2
    have hl : (rotate ⟨g, 0⟩ P).g.length = n := by
      rw [length_rotate ⟨g, 0⟩ P (by rw [hP]; exact hgl), hP]
    rw [rotSeq_cons]
    exact h1.trans (h3.trans (hact _ hl))

/-! ## the inverse rotation sequence -/

/-- reverse order, each generator three times (`= rotate by −g`) -/
def invGens : List PStr → List PStr
  | [] => []
  | g :: gs => invGens gs ++ [g, g, g]

theorem invGens_length (n : Nat) : ∀ (gens : List PStr), (∀ g ∈ gens, g.length = n) → ∀ g ∈ invGens gens, g.length = n
  | [], _, g, h => by simp [invGens] at h
  | g0 :: gs, hg, g, h => by
    simp only [invGens, List.mem_append, List.mem_cons, List.not_mem_nil, or_false, or_self] at h
    rcases h with h | h
    · exact invGens_length n gs (fun g' h' => hg g' (by simp [h'])) g h
    · rw [h]; exact hg g0 (by simp)

theorem invGens_cancel (n : Nat) : ∀ (gens : List PStr) (Q : Pauli), (∀ g ∈ gens, g.length = n) → Q.g.length = n →
    PEq (rotSeq (invGens gens) (rotSeq gens Q)) Q
  | [], Q, _, _ => PEq.refl Q
  | g :: gs, Q, hg, hQ => by
    have hgl : g.length = n := hg g (by simp)
    have hl : (rotate ⟨g, 0⟩ Q).g.length = n := by
      rw [length_rotate ⟨g, 0⟩ Q (by rw [hQ]; exact hgl), hQ]
    have ih := invGens_cancel n gs (rotate ⟨g, 0⟩ Q) (fun g' h => hg g' (by simp [h])) hl
    have h4 := C02_rotate_four ⟨g, 0⟩ Q (by rfl) (by rw [hQ]; exact hgl)
    rw [rotSeq_cons]
    show PEq (rotSeq (invGens gs ++ [g, g, g]) _) Q
    rw [rotSeq_append]
    exact (rotSeq_congr [g, g, g] ih).trans h4

/-! ## the one-qubit generators at qubit 0, on-site strings -/

def X0 (n : Nat) : PStr := (true, false) :: idStr n
def Z0 (n : Nat) : PStr := (false, true) :: idStr n

theorem length_X0 (n : Nat) : (X0 n).length = n + 1 := by simp [X0, length_idStr]
theorem length_Z0 (n : Nat) : (Z0 n).length = n + 1 := by simp [Z0, length_idStr]

theorem acq_site_lift (q : Q) (n : Nat) (r : PStr) : acq (q :: idStr n) ((false, false) :: r) = 0 := by
  rw [acq_cons, acqSum_idStr_left, acqQ_id_right]; rfl

theorem acq_lift_site (q : Q) (n : Nat) (r : PStr) : acq ((false, false) :: r) (q :: idStr n) = 0 := by
  rw [acq_symm]; exact acq_site_lift q n r

theorem acq_site_site (p q : Q) (n : Nat) : acq (p :: idStr n) (q :: idStr n) = acqQ p q % 2 := by
  rw [acq_cons, acqSum_idStr_left, Int.add_zero]

theorem xorS_site_site (p q : Q) (n : Nat) : xorS (p :: idStr n) (q :: idStr n) = xorQ p q :: idStr n := by
  rw [xorS_cons, xorS_idStr_right_le _ _ (Nat.le_of_eq (length_idStr n))]

theorem onsite_zero_eq (g : PStr) (n : Nat) (hl : g.length = n + 1)
    (ho : ∀ j, j ≠ 0 → getQ g j = (false, false)) : g = getQ g 0 :: idStr n := by
  apply ext_getQ _ _ (by simp [hl, length_idStr])
  intro j _
  cases j with
  | zero => rw [getQ_cons_zero]
  | succ j => rw [getQ_cons_succ, getQ_idStr]; exact ho _ (by omega)

/-- a string commuting with `X_0` and `Z_0` is the identity at qubit 0 -/
theorem head_id (n : Nat) (r : PStr) (hr : r.length = n + 1) (h1 : acq (X0 n) r = 0) (h2 : acq (Z0 n) r = 0) :
    r = (false, false) :: r.tail := by
  cases r with
  | nil => simp at hr
  | cons q qs =>
    unfold X0 at h1; unfold Z0 at h2
    rw [acq_cons, acqSum_idStr_left] at h1 h2
    obtain ⟨q1, q2⟩ := q
    revert h1 h2
    cases q1 <;> cases q2 <;> simp [acqQ, b2i]

/-! ## string level: an anticommuting pair is rotated to `(X_0, Z_0)` -/

theorem pair_reduce (n : Nat) (a b : PStr) (la : a.length = n + 1) (lb : b.length = n + 1) (hab : acq a b = 1) :
    ∃ G : List PStr, (∀ g ∈ G, g.length = n + 1) ∧ rotS G a = X0 n ∧ rotS G b = Z0 n := by
  have hba : acq b a = 1 := by rw [acq_symm]; exact hab
  obtain ⟨d1, d2, d3, d4, d5, d6, d7⟩ := diag2_spec b a 0 (lb.trans la.symm) (by omega) hba
  obtain ⟨G, hG⟩ : ∃ G, G = (diagonalize2 b a 0).1 := ⟨_, rfl⟩
  obtain ⟨a', ha'⟩ : ∃ a', a' = (diagonalize2 b a 0).2.2 := ⟨_, rfl⟩
  rw [← hG] at d5 d6 d7
  rw [← ha'] at d2 d3 d4 d6
  rw [d1, lb, unitZ_succ_zero] at d5
  rw [lb] at d4 d7
  have hon := onsite_zero_eq a' n d4 ((isOnsite_iff _ 0).1 d2)
  obtain ⟨x, z, hq⟩ : ∃ x z, getQ a' 0 = (x, z) := ⟨_, _, rfl⟩
  rw [hq] at hon d3
  simp only at d3
  subst d3
  cases z with
  | false =>
    exact ⟨G, d7, by rw [← d6, hon]; rfl, by rw [← d5]; rfl⟩
  | true =>
    refine ⟨G ++ [Z0 n], ?_, ?_, ?_⟩
    · intro g hg
      rw [List.mem_append] at hg
      rcases hg with hg | hg
      · exact d7 g hg
      · simp only [List.mem_cons, List.not_mem_nil, or_false] at hg
        rw [hg, length_Z0]
    · rw [rotS_append, ← d6, hon, rotS_cons, rotS_nil, rotateSignless_anti]
      · unfold Z0 X0; rw [xorS_site_site]; rfl
      · unfold Z0; rw [acq_site_site]; rfl
    · rw [rotS_append, ← d5, rotS_cons, rotS_nil, rotateSignless_comm]
      · rfl
      · exact acq_self _

/-! ## lifted generators act on the tail -/

def liftS (g : PStr) : PStr := (false, false) :: g
/-- drop qubit 0 -/
def tl (P : Pauli) : Pauli := ⟨P.g.tail, P.p⟩

theorem rotate_lift (g : PStr) (R : Pauli) : rotate ⟨liftS g, 0⟩ (lift R) = lift (rotate ⟨g, 0⟩ R) := by
  have ha : anti ((false, false) :: g) ((false, false) :: R.g) = anti g R.g := by
    unfold anti; rw [Sj.acq_lift]
  have hi : ipow ((false, false) :: R.g) ((false, false) :: g) = ipow R.g g := by
    rw [ipow_cons, ipowQ_id_left, Int.zero_add]; rfl
  unfold rotate lift liftS
  simp only [ha]
  cases anti g R.g
  · rfl
  · simp only [if_true, xorS_cons, hi]
    rfl

theorem rotSeq_lift : ∀ (G : List PStr) (R : Pauli), rotSeq (G.map liftS) (lift R) = lift (rotSeq G R)
  | [], _ => rfl
  | g :: G, R => by
    rw [List.map_cons, rotSeq_cons, rotSeq_cons, rotate_lift, rotSeq_lift G]

theorem rotSeq_fix_all : ∀ (G : List PStr) (P : Pauli), (∀ g ∈ G, rotate ⟨g, 0⟩ P = P) → rotSeq G P = P
  | [], _, _ => rfl
  | g :: G, P, h => by
    rw [rotSeq_cons, h g (by simp)]
    exact rotSeq_fix_all G P (fun g' hg' => h g' (by simp [hg']))

theorem rotSeq_lift_site (G : List PStr) (q : Q) (n : Nat) (k : Int) :
    rotSeq (G.map liftS) ⟨q :: idStr n, k⟩ = ⟨q :: idStr n, k⟩ := by
  apply rotSeq_fix_all
  intro g hg
  obtain ⟨g', _, rfl⟩ := List.mem_map.1 hg
  exact rotate_of_acq_zero _ _ (acq_lift_site q n g')

theorem rotSeq_site_lift (G : List PStr) (q : Q) (n : Nat) (hG : ∀ g ∈ G, g = q :: idStr n) (P : Pauli) (t : PStr)
    (hP : P.g = (false, false) :: t) : rotSeq G P = P := by
  apply rotSeq_fix_all
  intro g hg
  apply rotate_of_acq_zero
  rw [hG g hg, hP]
  exact acq_site_lift q n t

theorem forall₂_lift {A B : List Pauli} (h : List.Forall₂ PEq A B) : List.Forall₂ PEq (A.map lift) (B.map lift) := by
  induction h with
  | nil => exact List.Forall₂.nil
  | cons hab _ ih => exact List.Forall₂.cons ⟨by simp only [lift, hab.1], hab.2⟩ ih

/-! ## fixing a sign with a double rotation -/

theorem flip_twice (p q : Q) (n : Nat) (k : Int) (h : acqQ p q % 2 = 1) :
    PEq (rotSeq [p :: idStr n, p :: idStr n] ⟨q :: idStr n, k⟩) ⟨q :: idStr n, k + 2⟩ := by
  have := C02_rotate_twice ⟨p :: idStr n, 0⟩ ⟨q :: idStr n, k⟩ (by rfl) (by simp)
  rw [acq_site_site, h] at this
  exact this

theorem fix_sign (p q : Q) (n : Nat) (k : Int) (hk : k % 2 = 0) (h : acqQ p q % 2 = 1) :
    ∃ G : List PStr, (∀ g ∈ G, g = p :: idStr n) ∧ PEq (rotSeq G ⟨q :: idStr n, k⟩) ⟨q :: idStr n, 0⟩ := by
  by_cases h0 : k % 4 = 0
  · exact ⟨[], by simp, ⟨rfl, h0⟩⟩
  · refine ⟨[p :: idStr n, p :: idStr n], by simp, ?_⟩
    refine (flip_twice p q n k h).trans ⟨rfl, ?_⟩
    simp only
    omega

theorem pauli_eta (P : Pauli) (g : PStr) (h : P.g = g) : P = ⟨g, P.p⟩ := by
  cases P; simp only at h; rw [h]

/-! ## one level: rows 0, 1 are sent to `X_0`, `Z_0`, the other rows become lifted rows -/

theorem step (n : Nat) (a b : Pauli) (la : a.g.length = n + 1) (lb : b.g.length = n + 1)
    (pa : a.p % 2 = 0) (pb : b.p % 2 = 0) (hab : acq a.g b.g = 1) :
    ∃ G : List PStr, (∀ g ∈ G, g.length = n + 1) ∧ PEq (rotSeq G a) ⟨X0 n, 0⟩ ∧ PEq (rotSeq G b) ⟨Z0 n, 0⟩ ∧
      ∀ c : Pauli, c.g.length = n + 1 → acq a.g c.g = 0 → acq b.g c.g = 0 → rotSeq G c = lift (tl (rotSeq G c)) := by
  obtain ⟨G1, hG1, ra, rb⟩ := pair_reduce n a.g b.g la lb hab
  -- after the string-level reduction
  have ea : rotSeq G1 a = ⟨X0 n, (rotSeq G1 a).p⟩ := pauli_eta _ _ (by rw [rotSeq_g, ra])
  have eb : rotSeq G1 b = ⟨Z0 n, (rotSeq G1 b).p⟩ := pauli_eta _ _ (by rw [rotSeq_g, rb])
  have qa : (rotSeq G1 a).p % 2 = 0 := by rw [rotSeq_parity]; exact pa
  have qb : (rotSeq G1 b).p % 2 = 0 := by rw [rotSeq_parity]; exact pb
  -- sign of row 0: rotate twice by Z_0
  obtain ⟨G2, hG2, fa⟩ := fix_sign (false, true) (true, false) n (rotSeq G1 a).p qa (by decide)
  -- sign of row 1: rotate twice by X_0
  obtain ⟨G3, hG3, fb⟩ := fix_sign (true, false) (false, true) n (rotSeq G1 b).p qb (by decide)
  have kb2 : rotSeq G2 (rotSeq G1 b) = rotSeq G1 b := by
    apply rotSeq_fix_all
    intro g hg
    apply rotate_of_acq_zero
    rw [hG2 g hg, rotSeq_g, rb]
    exact acq_self _
  have ka3 : rotSeq G3 ⟨X0 n, 0⟩ = ⟨X0 n, 0⟩ := by
    apply rotSeq_fix_all
    intro g hg
    apply rotate_of_acq_zero
    rw [hG3 g hg]
    exact acq_self _
  refine ⟨G1 ++ (G2 ++ G3), ?_, ?_, ?_, ?_⟩
  · intro g hg
    simp only [List.mem_append] at hg
    rcases hg with hg | hg | hg
    · exact hG1 g hg
    · rw [hG2 g hg]; exact length_Z0 n
    · rw [hG3 g hg]; exact length_X0 n
  · rw [rotSeq_append, rotSeq_append, ea]
    have := rotSeq_congr G3 fa
    rwa [show (⟨(true, false) :: idStr n, 0⟩ : Pauli) = ⟨X0 n, 0⟩ from rfl, ka3] at this
  · rw [rotSeq_append, rotSeq_append, kb2, eb]
    exact fb
  · intro c lc hac hbc
    have l1 : (rotSeq G1 c).g.length = n + 1 := length_rotSeq G1 c (n + 1) hG1 lc
    have c1 : acq (X0 n) (rotSeq G1 c).g = 0 := by
      rw [← ra, ← rotSeq_g, acq_rotSeq G1 a c (n + 1) hG1 la lc]; exact hac
    have c2 : acq (Z0 n) (rotSeq G1 c).g = 0 := by
      rw [← rb, ← rotSeq_g, acq_rotSeq G1 b c (n + 1) hG1 lb lc]; exact hbc
    have hh := head_id n _ l1 c1 c2
    have k2 : rotSeq G2 (rotSeq G1 c) = rotSeq G1 c := rotSeq_site_lift G2 _ n hG2 _ _ hh
    have k3 : rotSeq G3 (rotSeq G1 c) = rotSeq G1 c := rotSeq_site_lift G3 _ n hG3 _ _ hh
    rw [rotSeq_append, rotSeq_append, k2, k3]
    apply pauli_ext
    · exact hh
    · rfl

/-! ## the commutation pattern under maps preserving `acq` -/

theorem Sympl_map_iff (f : Pauli → Pauli) (L : List Pauli)
    (h : ∀ a ∈ L, ∀ b ∈ L, acq (f a).g (f b).g = acq a.g b.g) : Sympl (L.map f) ↔ Sympl L := by
  constructor
  · intro hs i j hi hj
    have := hs i j (by simpa using hi) (by simpa using hj)
    rwa [rowAt_map f L i hi, rowAt_map f L j hj, h _ (rowAt_mem L i hi) _ (rowAt_mem L j hj)] at this
  · intro hs i j hi hj
    have hi' : i < L.length := by simpa using hi
    have hj' : j < L.length := by simpa using hj
    rw [rowAt_map f L i hi', rowAt_map f L j hj', h _ (rowAt_mem L i hi') _ (rowAt_mem L j hj')]
    exact hs i j hi' hj'

/-! ## the rotations that undo a valid map on its rows -/

theorem undo : ∀ (n : Nat) (M : List Pauli), M.length = 2 * n → (∀ R ∈ M, R.g.length = n ∧ R.p % 2 = 0) → Sympl M →
    ∃ gens : List PStr, (∀ g ∈ gens, g.length = n) ∧ List.Forall₂ PEq (M.map (rotSeq gens)) (idMap n)
  | 0, M, hl, _, _ => by
    rw [List.eq_nil_of_length_eq_zero hl]
    exact ⟨[], by simp, List.Forall₂.nil⟩
  | n + 1, M, hl, hr, hs => by
    match M, hl, hr, hs with
    | a :: b :: rest, hl, hr, hs =>
      obtain ⟨hab, hx⟩ := Sympl_head a b rest hs
      have hsr := Sympl_tail a b rest hs
      obtain ⟨la, pa⟩ := hr a (by simp)
      obtain ⟨lb, pb⟩ := hr b (by simp)
      have hrr : ∀ c ∈ rest, c.g.length = n + 1 ∧ c.p % 2 = 0 := fun c hc => hr c (by simp [hc])
      have lrest : rest.length = 2 * n := by simp only [List.length_cons] at hl; omega
      obtain ⟨G, hG, hGa, hGb, hGc⟩ := step n a b la lb pa pb hab
      have e1 : rest.map (rotSeq G) = (rest.map fun c => tl (rotSeq G c)).map lift := by
        rw [List.map_map]
        apply List.map_congr_left
        intro c hc
        exact hGc c (hrr c hc).1 (hx c hc).1 (hx c hc).2
      -- the tails form a valid map on `n` qubits
      have s1 : Sympl (rest.map (rotSeq G)) :=
        (Sympl_map_iff (rotSeq G) rest fun x hx' y hy' =>
          acq_rotSeq G x y (n + 1) hG (hrr x hx').1 (hrr y hy').1).2 hsr
      have s2 : Sympl (rest.map fun c => tl (rotSeq G c)) := by
        rw [e1] at s1
        exact (Sympl_map_iff lift _ fun x _ y _ => Sj.acq_lift x.g y.g).1 s1
      obtain ⟨G', hG', hF⟩ := undo n (rest.map fun c => tl (rotSeq G c)) (by simp [lrest])
        (by
          intro R hR
          obtain ⟨c, hc, rfl⟩ := List.mem_map.1 hR
          refine ⟨?_, ?_⟩
          · show (rotSeq G c).g.tail.length = n
            rw [List.length_tail, length_rotSeq G c (n + 1) hG (hrr c hc).1]; rfl
          · show (rotSeq G c).p % 2 = 0
            rw [rotSeq_parity]; exact (hrr c hc).2) s2
      refine ⟨G ++ G'.map liftS, ?_, ?_⟩
      · intro g hg
        rw [List.mem_append] at hg
        rcases hg with hg | hg
        · exact hG g hg
        · obtain ⟨g', hg', rfl⟩ := List.mem_map.1 hg
          show (((false, false) : Q) :: g').length = n + 1
          rw [List.length_cons, hG' g' hg']
      · rw [idMap_succ, List.map_cons, List.map_cons]
        refine List.Forall₂.cons ?_ (List.Forall₂.cons ?_ ?_)
        · rw [rotSeq_append]
          have := rotSeq_congr (G'.map liftS) hGa
          rwa [show (⟨X0 n, 0⟩ : Pauli) = ⟨(true, false) :: idStr n, 0⟩ from rfl, rotSeq_lift_site] at this
        · rw [rotSeq_append]
          have := rotSeq_congr (G'.map liftS) hGb
          rwa [show (⟨Z0 n, 0⟩ : Pauli) = ⟨(false, true) :: idStr n, 0⟩ from rfl, rotSeq_lift_site] at this
        · have e2 : rest.map (rotSeq (G ++ G'.map liftS)) =
              ((rest.map fun c => tl (rotSeq G c)).map (rotSeq G')).map lift := by
            have : rest.map (rotSeq (G ++ G'.map liftS)) = (rest.map (rotSeq G)).map (rotSeq (G'.map liftS)) := by
              rw [List.map_map]; apply List.map_congr_left; intro c _; exact rotSeq_append _ _ _
            rw [this, e1]
            generalize (rest.map fun c => tl (rotSeq G c)) = L
            rw [List.map_map, List.map_map]
            apply List.map_congr_left
            intro c _
            exact rotSeq_lift G' c
          rw [e2]
          exact forall₂_lift hF

theorem forall₂_trans : ∀ {A B C : List Pauli}, List.Forall₂ PEq A B → List.Forall₂ PEq B C → List.Forall₂ PEq A C
  | _, _, _, List.Forall₂.nil, List.Forall₂.nil => List.Forall₂.nil
  | _, _, _, List.Forall₂.cons h1 t1, List.Forall₂.cons h2 t2 => List.Forall₂.cons (h1.trans h2) (forall₂_trans t1 t2)

/-- **generation**: the action of a valid map is a sequence of rotations -/
theorem map_is_rotations (M : List Pauli) (n : Nat) (h : ValidMap M n) :
    ∃ gens : List PStr, (∀ g ∈ gens, g.length = n) ∧
      ∀ P : Pauli, P.g.length = n → PEq (transform M P) (rotSeq gens P) := by
  obtain ⟨gens, hg, hF⟩ := undo n M h.1 h.2.1 (validMap_sympl M n h)
  obtain ⟨R, hR, hact⟩ := rotations_are_a_map n gens hg
  -- `compose M R` has the rows of the identity map
  have hc : List.Forall₂ PEq (compose M R) (idMap n) :=
    forall₂_trans (forall₂_map M (transform R) (rotSeq gens) fun X hX => hact X (h.2.1 X hX).1) hF
  refine ⟨invGens gens, invGens_length n gens hg, ?_⟩
  intro P hP
  have lT : (transform M P).g.length = n := length_transform M n h.1 (fun X hX => (h.2.1 X hX).1) P
  have h1 : PEq (transform R (transform M P)) P := acts_id_of_rows M R n h hR hc P hP
  have h2 : PEq (rotSeq gens (transform M P)) P := (hact _ lT).symm.trans h1
  have h3 := rotSeq_congr (invGens gens) h2
  exact (invGens_cancel n gens (transform M P) hg lT).symm.trans h3

end Gn
end PC
