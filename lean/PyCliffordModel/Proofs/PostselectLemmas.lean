import PyCliffordModel.Properties.C14
import PyCliffordModel.Properties.C06e
import PyCliffordModel.Properties.C16b
import PyCliffordModel.Model.SBRG
/-! helper lemmas for `Properties/C14d.lean`

Layout:
* §1 the value of the three probabilities `postselect` can report;
* §2 the three cases of `postselect` (`ps_cases`: group-level facts of `C14_postselect_spec` plus, in the `½` case, the
  strings of the new group), never raising (`ps_total`);
* §3 `Π ρ Π = p ρ'` and the Born probability, case by case, with the machinery of `ProjectionLemmas.lean`;
* §4 the inverse of a monomial.
-/
namespace PC
namespace Ps
open Ms Dn Pj

/-! ## §1 the reported probabilities -/

theorem dy_one : (⟨dyVal ⟨false, 0⟩, 0⟩ : Cx) = Cx.one := by
  apply Cx.ext'
  · simp [dyVal, Cx.one]; grind
  · rfl

theorem dy_zero : (⟨dyVal ⟨true, 0⟩, 0⟩ : Cx) = Cx.zero := by
  apply Cx.ext' <;> simp [dyVal, Cx.zero]

theorem dy_half : (⟨dyVal ⟨false, 1⟩, 0⟩ : Cx) = half := by
  apply Cx.ext' <;> simp [dyVal, half]

/-! ## §2 the cases of `postselect` -/

/-- the strings of the group after a post-selection of probability one half -/
theorem ps_strings (st st' : State) (n : Nat) (P : Pauli) (res : Nat) (t : Dy) (h : TabInv st n) (hr : st.r = 0)
    (hP : P.g.length = n) (hp : P.p % 2 = 0) (hm : postselect st P res = .ok (st', t)) (ht : t = ⟨false, 1⟩) :
    ∀ Q : Pauli, InGroup st' Q → OldStr st P.g Q := by
  have hN := h.N_eq
  rcases postselect_cases st P res hr with ⟨p, hp1, hp2, _, he⟩ | ⟨hc, he⟩
  · rw [hN] at hp1
    rw [he] at hm
    injection hm with hm
    injection hm with h1 _
    subst h1
    have hk : PivotOK st n P.g p := ⟨by omega, hp2, fun _ _ _ _ => ⟨by omega, by omega⟩⟩
    intro Q hQ
    exact pivotState_strings st n P.g p _ h hP hk (by omega) Q hQ
  · rw [hm] at he
    subst ht
    split at he
    · injection he with he
      injection he with _ h2
      split at h2 <;> exact absurd h2 (by simp)
    · exact absurd he (by simp)

/-- `postselect` never raises on a pure valid state -/
theorem ps_total (st : State) (n : Nat) (P : Pauli) (res : Nat) (h : TabInv st n) (hr : st.r = 0)
    (hP : P.g.length = n) : ∃ st' t, postselect st P res = .ok (st', t) := by
  have hN := h.N_eq
  rcases postselect_cases st P res hr with ⟨p, _, _, _, he⟩ | ⟨hc, he⟩
  · exact ⟨_, _, he⟩
  · rw [hN] at hc he
    obtain ⟨d1, _⟩ := det_spec st n P.g h hP (fun i hi => hc i (by omega))
    rw [if_pos d1] at he
    exact ⟨_, _, he⟩

/-! ## §3 projection and Born probability -/

/-- the requested outcome is impossible: `Π ρ Π = 0` -/
theorem zero_projection (st : State) (n : Nat) (P : Pauli) (res : Nat) (g : PStr) (h : TabInv st n)
    (hP : P.g.length = n) (hp : P.p % 2 = 0) (hres : res < 2)
    (hin : InGroup st ⟨P.g, P.p + 2 * (res : Int) + 2⟩) :
    coef (polyMatmul (polyMatmul (proj P (res : Int)) (densityPoly st)) (proj P (res : Int))) g = Cx.zero := by
  have hin' : InGroup st (sO P (1 - (res : Int))) :=
    inGroup_congr hin ⟨rfl, by simp only [sO]; omega⟩
  have := det_other st n P (1 - (res : Int)) g h hP hp (by omega) hin'
  rwa [show 1 - (1 - (res : Int)) = (res : Int) by omega] at this

theorem born_arith_zero (n : Nat) :
    (⟨(2 : Rat) ^ n, 0⟩ : Cx).mul ((half.mul ⟨1 / (2 : Rat) ^ n, 0⟩).add
      (half.mul ((Cx.one.neg).mul ⟨1 / (2 : Rat) ^ n, 0⟩))) = Cx.zero := by
  have h := two_pow_ne n
  apply Cx.ext' <;> simp only [Cx.mul, Cx.add, half, Cx.one, Cx.neg, Cx.zero] <;> grind

/-- the requested outcome is impossible: `Tr(Π ρ) = 0` -/
theorem born_zero (st : State) (n : Nat) (O : Pauli) (out : Int) (h : TabInv st n) (ho : O.g.length = n)
    (hout : out = 0 ∨ out = 1) (hin : InGroup st (sO O (1 - out))) :
    (⟨(2 : Rat) ^ n, 0⟩ : Cx).mul (coef (polyMatmul (proj O out) (densityPoly st)) (idStr n)) = Cx.zero := by
  have e : (sO O (1 - out)).g = xorS O.g (idStr n) := by
    show O.g = _
    rw [← ho, xorS_idStr_right]
  have hev := inGroup_even st n h hin
  have hph : (mul (sO O out) (sO O (1 - out))).p % 4 = 2 % 4 := by
    have hs : ipow O.g O.g = 0 := ipow_self O.g
    simp only [mul_p, sO, hs] at hev ⊢
    omega
  rw [left_coef_id st n O out h ho hout, trans_in st n O out (sO O (1 - out)) (idStr n) h hin e,
    Cx.ipow_congr hph, ipow_two]
  exact born_arith_zero n

/-- **`Π ρ Π = p ρ'`** for `postselect` -/
theorem ps_projection (st st' : State) (n : Nat) (P : Pauli) (res : Nat) (t : Dy) (h : TabInv st n)
    (hr : st.r = 0) (hP : P.g.length = n) (hp : P.p % 2 = 0) (hres : res < 2) (hm : postselect st P res = .ok (st', t))
    (g : PStr) :
    coef (polyMatmul (polyMatmul (proj P (res : Int)) (densityPoly st)) (proj P (res : Int))) g
      = (⟨dyVal t, 0⟩ : Cx).mul (coef (densityPoly st') g) := by
  have hout : (res : Int) = 0 ∨ (res : Int) = 1 := by omega
  obtain ⟨h', _, hc⟩ := C14_postselect_spec st st' n P res t h hr hP hp hres hm
  rcases hc with ⟨hin, e, ht⟩ | ⟨hin, e, ht⟩ | ⟨hno, ht, hin, hkeep⟩
  · subst e ht
    rw [dy_one, Cx.one_mul]
    exact det_projection st' n P res g h hP hp hout hin
  · subst e ht
    rw [dy_zero, Cx.zero_mul]
    exact zero_projection st' n P res g h hP hp hres hin
  · have hs := ps_strings st st' n P res t h hr hP hp hm ht
    subst ht
    rw [dy_half]
    exact rnd_projection st st' n P res g h h' hP hp hout hno hin hkeep hs

/-- **the returned probability is `Tr(Π ρ)`** -/
theorem ps_probability (st st' : State) (n : Nat) (P : Pauli) (res : Nat) (t : Dy) (h : TabInv st n)
    (hr : st.r = 0) (hP : P.g.length = n) (hp : P.p % 2 = 0) (hres : res < 2) (hm : postselect st P res = .ok (st', t)) :
    (⟨(2 : Rat) ^ n, 0⟩ : Cx).mul (coef (polyMatmul (proj P (res : Int)) (densityPoly st)) (idStr n))
      = (⟨dyVal t, 0⟩ : Cx) := by
  have hout : (res : Int) = 0 ∨ (res : Int) = 1 := by omega
  obtain ⟨_, _, hc⟩ := C14_postselect_spec st st' n P res t h hr hP hp hres hm
  rcases hc with ⟨hin, _, ht⟩ | ⟨hin, _, ht⟩ | ⟨hno, ht, _, _⟩
  · subst ht
    rw [dy_one]
    exact born_det st n P res h hP hout hin
  · subst ht
    rw [dy_zero]
    exact born_zero st n P res h hP hout (inGroup_congr hin ⟨rfl, by simp only [sO]; omega⟩)
  · subst ht
    rw [dy_half]
    exact born_rnd st n P res h hP hp hout hno

/-! ## §4 the inverse of a monomial -/

theorem unitPow_spec (d : Cx) (k : Nat) (h : unitPow d = some k) : k < 4 ∧ d = Cx.ipow (k : Int) := by
  unfold unitPow at h
  split at h
  · next e => injection h with h; subst h; exact ⟨by omega, e⟩
  split at h
  · next e => injection h with h; subst h; exact ⟨by omega, e⟩
  split at h
  · next e => injection h with h; subst h; exact ⟨by omega, e⟩
  split at h
  · next e => injection h with h; subst h; exact ⟨by omega, e⟩
  · exact absurd h (by simp)

theorem smulI_g (k : Nat) (a : Pauli) : (smulI k a).g = a.g := by
  unfold smulI; split <;> rfl

theorem smulI_p (k : Nat) (g : PStr) : (smulI k ⟨g, 0⟩).p % 4 = (k : Int) % 4 := by
  unfold smulI
  split
  · next e => simp only; omega
  · simp only; omega

theorem norm2_mul (a b : Cx) : (a.mul b).norm2 = a.norm2 * b.norm2 := by
  simp only [Cx.norm2, Cx.mul]; grind

theorem norm2_ipow (p : Int) : (Cx.ipow p).norm2 = 1 := by
  have hp : p % 4 = 0 ∨ p % 4 = 1 ∨ p % 4 = 2 ∨ p % 4 = 3 := by omega
  unfold Cx.ipow
  rcases hp with hp | hp | hp | hp <;> rw [hp] <;> simp only [Cx.norm2] <;> grind

theorem mul_inv (x : Cx) (hx : x.norm2 ≠ 0) : x.mul x.inv = Cx.one := by
  have hx' : x.re * x.re + x.im * x.im ≠ 0 := hx
  apply Cx.ext' <;> simp only [Cx.mul, Cx.inv, Cx.norm2, Cx.one] <;> grind

/-- both shapes of the result are one term `e · i^q σ[g]` with `e · i^q = (c · i^p)⁻¹` -/
theorem inv_shape (P : Pauli) (c : Cx) :
    ∃ Q e, (monoInverse (P, c)).map PObj.asPoly = .ok (some [(Q, e)]) ∧ Q.g = P.g ∧
      e.mul (Cx.ipow Q.p) = (c.mul (Cx.ipow P.p)).inv := by
  unfold monoInverse PObj.div
  simp only [PObj.rmul]
  cases hu : unitPow (c.mul (Cx.ipow P.p)).inv with
  | none => exact ⟨⟨P.g, 0⟩, _, rfl, rfl, by rw [Cx.ipow_zero, Cx.mul_one]⟩
  | some k =>
    obtain ⟨_, hd⟩ := unitPow_spec _ k hu
    refine ⟨smulI k ⟨P.g, 0⟩, Cx.one, rfl, smulI_g k _, ?_⟩
    rw [Cx.one_mul, hd]
    exact Cx.ipow_congr (smulI_p k P.g)

/-- the product of two terms on the same string whose scalars multiply to one is the identity -/
theorem term_mul_identity (A B : Pauli) (a b : Cx) (g : PStr) (hg : B.g = A.g)
    (hab : (a.mul (Cx.ipow A.p)).mul (b.mul (Cx.ipow B.p)) = Cx.one) :
    coef (polyMatmul [(A, a)] [(B, b)]) g = coef (polyIdentity A.g.length) g := by
  rw [C15_matmul_single, polyIdentity, coef_single, coef_single]
  have eg : (mul A B).g = idStr A.g.length := by rw [mul_g, hg, xorS_self]
  by_cases e : idStr A.g.length = g
  · rw [termVal_pos _ _ (eg.trans e), termVal_pos _ _ e]
    show (a.mul b).mul (Cx.ipow ((A.p + B.p + ipow A.g B.g) % 4)) = Cx.one.mul (Cx.ipow 0)
    rw [hg, ipow_self, Cx.ipow_mod, Int.add_zero, Cx.ipow_zero, Cx.mul_one, ← hab, Cx.ipow_add]
    simp only [Cx.mul_assoc]
    congr 1
    simp only [Cx.mul_left_comm]
  · rw [termVal_neg _ _ (fun e' => e (eg.symm.trans e')), termVal_neg _ _ e]

/-- **`inverse()` is a two-sided inverse** -/
theorem mono_inverse (P : Pauli) (c : Cx) (hc : c.norm2 ≠ 0) (g : PStr) :
    ∃ inv : Poly, (monoInverse (P, c)).map PObj.asPoly = .ok (some inv) ∧
      coef (polyMatmul [(P, c)] inv) g = coef (polyIdentity P.g.length) g ∧
      coef (polyMatmul inv [(P, c)]) g = coef (polyIdentity P.g.length) g := by
  obtain ⟨Q, e, h1, h2, h3⟩ := inv_shape P c
  have hx : (c.mul (Cx.ipow P.p)).norm2 ≠ 0 := by
    rw [norm2_mul, norm2_ipow]; grind
  refine ⟨[(Q, e)], h1, ?_, ?_⟩
  · apply term_mul_identity P Q c e g h2
    rw [h3]; exact mul_inv _ hx
  · rw [← h2]
    apply term_mul_identity Q P e c g h2.symm
    rw [h3, Cx.mul_comm]; exact mul_inv _ hx

end Ps
end PC
