import PyCliffordModel.Properties.C11b
import PyCliffordModel.Properties.C15
import PyCliffordModel.Properties.C06
import PyCliffordModel.Properties.C05
import PyCliffordModel.Proofs.ValidB
/-! helper lemmas for `Properties/C12d.lean`

Layout:
* §1 Gaussian-rational arithmetic used below (`Cx.inv` of a real power of two, scalings);
* §2 polynomials with one common coefficient (`cpoly`) and their coefficient function `gcoef`; lists with pairwise
  different strings;
* §3 lists enumerating the stabilizer group exactly once up to phase representation (`Complete`): their `gcoef` is the
  same function, and left translation by a group element keeps completeness;
* §4 the density polynomial: coefficients, trace, idempotence;
* §5 `Tr(ρ P)`;
* §6 the Bell tableau.
-/
namespace PC
namespace Dn
open Ms

/-! ## §1 arithmetic -/

theorem two_pow_ne (n : Nat) : (2 : Rat) ^ n ≠ 0 := by
  have : (0 : Rat) < 2 ^ n := Rat.pow_pos (by decide)
  grind

/-- `1 / 2^n` as a complex number: the value of the code's `1 / 2**N` -/
theorem inv_two_pow (n : Nat) : Cx.inv ⟨(2 : Rat) ^ n, 0⟩ = ⟨1 / (2 : Rat) ^ n, 0⟩ := by
  have h := two_pow_ne n
  apply Cx.ext' <;> simp only [Cx.inv, Cx.norm2] <;> grind

theorem real_mul (x : Rat) (c : Cx) : (⟨x, 0⟩ : Cx).mul c = ⟨x * c.re, x * c.im⟩ := by
  apply Cx.ext' <;> simp only [Cx.mul] <;> grind

theorem scale_cancel (n : Nat) (c : Cx) : (⟨(2 : Rat) ^ n, 0⟩ : Cx).mul ((⟨1 / (2 : Rat) ^ n, 0⟩ : Cx).mul c) = c := by
  have h := two_pow_ne n
  apply Cx.ext' <;> simp only [Cx.mul] <;> grind

theorem two_pow_split (n r : Nat) (hr : r ≤ n) : (2 : Rat) ^ n = 2 ^ (n - r) * 2 ^ r := by
  rw [← Lean.Grind.Semiring.pow_add]; congr 1; omega

/-- the counting identity of `ρ·ρ = 2^{-r} ρ`: `2^{n-r}` pairs, each of weight `2^{-n}·2^{-n}` -/
theorem count_scale (n r : Nat) (hr : r ≤ n) (c : Cx) :
    (⟨(2 : Rat) ^ (n - r), 0⟩ : Cx).mul (((⟨1 / (2 : Rat) ^ n, 0⟩ : Cx).mul ⟨1 / (2 : Rat) ^ n, 0⟩).mul c)
      = (⟨1 / (2 : Rat) ^ r, 0⟩ : Cx).mul ((⟨1 / (2 : Rat) ^ n, 0⟩ : Cx).mul c) := by
  have h1 := two_pow_ne (n - r)
  have h2 := two_pow_ne r
  rw [two_pow_split n r hr]
  apply Cx.ext' <;> simp only [Cx.mul] <;> grind

theorem ipow_even_im (p : Int) (h : p % 2 = 0) : (Cx.ipow p).im = 0 := by
  have hp : p % 4 = 0 ∨ p % 4 = 2 := by omega
  unfold Cx.ipow
  rcases hp with hp | hp <;> rw [hp] <;> rfl

theorem ipow_two : Cx.ipow 2 = ⟨-1, 0⟩ := rfl

/-! ## §2 one common coefficient -/

/-- the polynomial `c · Σ_{R ∈ L} R` -/
def cpoly (c : Cx) (L : List Pauli) : Poly := L.map fun R => (R, c)

/-- the coefficient function of `Σ_{R ∈ L} R` -/
def gcoef (L : List Pauli) (g : PStr) : Cx := coef (cpoly Cx.one L) g

theorem gcoef_nil (g : PStr) : gcoef [] g = Cx.zero := rfl

theorem gcoef_cons (R : Pauli) (L : List Pauli) (g : PStr) :
    gcoef (R :: L) g = (if R.g = g then Cx.ipow R.p else Cx.zero).add (gcoef L g) := by
  show coef ((R, Cx.one) :: cpoly Cx.one L) g = _
  rw [coef_cons]; unfold termVal
  split <;> simp [gcoef, Cx.one_mul]

theorem coef_cpoly (c : Cx) (L : List Pauli) (g : PStr) : coef (cpoly c L) g = c.mul (gcoef L g) := by
  induction L with
  | nil => simp [cpoly, coef_nil, gcoef_nil, Cx.mul_zero]
  | cons R L ih =>
    show coef ((R, c) :: cpoly c L) g = _
    rw [coef_cons, ih, gcoef_cons, Cx.mul_add]; congr 1
    unfold termVal
    split <;> simp [Cx.mul_zero]

theorem gcoef_of_not_mem (L : List Pauli) (g : PStr) (h : ∀ R ∈ L, R.g ≠ g) : gcoef L g = Cx.zero := by
  induction L with
  | nil => rfl
  | cons R L ih =>
    rw [gcoef_cons, if_neg (h R List.mem_cons_self), ih (fun R' hR' => h R' (List.mem_cons_of_mem _ hR')), Cx.zero_add]

theorem gcoef_of_mem (L : List Pauli) (hn : (L.map (·.g)).Nodup) (R : Pauli) (hR : R ∈ L) :
    gcoef L R.g = Cx.ipow R.p := by
  induction L with
  | nil => cases hR
  | cons S L ih =>
    simp only [List.map_cons, List.nodup_cons] at hn
    rw [gcoef_cons]
    rcases List.mem_cons.1 hR with rfl | hR'
    · rw [if_pos rfl, gcoef_of_not_mem L _ (fun R' hR' e => hn.1 (List.mem_map.2 ⟨R', hR', e⟩)), Cx.add_zero]
    · rw [if_neg (fun e => hn.1 (List.mem_map.2 ⟨R, hR', e.symm⟩)), ih hn.2 hR', Cx.zero_add]

theorem pairwise_of_nodup (L : List Pauli) (hn : (L.map (·.g)).Nodup) : L.Pairwise fun a b => a.g ≠ b.g := by
  rw [List.nodup_iff_pairwise_ne, List.pairwise_map] at hn
  exact hn

/-- a map that is injective on the strings of the list keeps the strings pairwise different -/
theorem nodup_map_on (L : List Pauli) (f : Pauli → Pauli) (hn : (L.map (·.g)).Nodup)
    (hf : ∀ a ∈ L, ∀ b ∈ L, (f a).g = (f b).g → a.g = b.g) : ((L.map f).map (·.g)).Nodup := by
  rw [List.map_map, List.nodup_iff_pairwise_ne, List.pairwise_map]
  refine List.Pairwise.imp_of_mem ?_ (pairwise_of_nodup L hn)
  intro a b ha hb hne e
  exact hne (hf a ha b hb e)

/-! ## §3 enumerations of the stabilizer group -/

/-- `L` lists every element of the signed stabilizer group exactly once (up to the representation of phases) -/
def Complete (st : State) (L : List Pauli) : Prop :=
  (L.map (·.g)).Nodup ∧ (∀ R ∈ L, InGroup st R) ∧ (∀ P : Pauli, InGroup st P → ∃ R ∈ L, PEq R P)

theorem complete_rows (st : State) (n : Nat) (h : TabInv st n) : Complete st (densityRows st) :=
  (C19_density_complete st n h).2

theorem gcoef_in (st : State) (L : List Pauli) (hL : Complete st L) (P : Pauli) (hP : InGroup st P) :
    gcoef L P.g = Cx.ipow P.p := by
  obtain ⟨R, hR, e⟩ := hL.2.2 P hP
  rw [← e.1, gcoef_of_mem L hL.1 R hR]
  exact Cx.ipow_congr e.2

theorem gcoef_out (st : State) (L : List Pauli) (hL : Complete st L) (g : PStr)
    (hg : ∀ P : Pauli, InGroup st P → P.g ≠ g) : gcoef L g = Cx.zero :=
  gcoef_of_not_mem L g fun R hR => hg R (hL.2.1 R hR)

/-- two enumerations of the group denote the same operator -/
theorem gcoef_eq (st : State) (L M : List Pauli) (hL : Complete st L) (hM : Complete st M) (g : PStr) :
    gcoef L g = gcoef M g := by
  by_cases hex : ∃ P : Pauli, InGroup st P ∧ P.g = g
  · obtain ⟨P, hP, rfl⟩ := hex
    rw [gcoef_in st L hL P hP, gcoef_in st M hM P hP]
  · have hg : ∀ P : Pauli, InGroup st P → P.g ≠ g := fun P hP e => hex ⟨P, hP, e⟩
    rw [gcoef_out st L hL g hg, gcoef_out st M hM g hg]

/-- a Hermitian operator is its own inverse -/
theorem mul_mul_cancel (R P : Pauli) (hp : R.p % 2 = 0) (hl : R.g.length = P.g.length) : PEq (mul R (mul R P)) P := by
  rw [← mul_assoc R R P rfl hl, mul_self]
  refine ⟨?_, ?_⟩
  · simp only [mul_g]; rw [hl]; exact xorS_idStr_left P.g
  · simp only [mul_p]; rw [ipow_idStr_left]; omega

/-- left translation by a group element permutes the group -/
theorem complete_mul_left (st : State) (n : Nat) (h : TabInv st n) (L : List Pauli) (hL : Complete st L) (R : Pauli)
    (hR : InGroup st R) : Complete st (L.map (mul R)) := by
  have hlR := inGroup_length st n h hR
  refine ⟨?_, ?_, ?_⟩
  · refine nodup_map_on L (mul R) hL.1 ?_
    intro a ha b hb e
    have hla := inGroup_length st n h (hL.2.1 a ha)
    have hlb := inGroup_length st n h (hL.2.1 b hb)
    simp only [mul_g] at e
    rw [← xorS_cancel_left R.g a.g (hlR.trans hla.symm), e, xorS_cancel_left R.g b.g (hlR.trans hlb.symm)]
  · intro Q hQ
    obtain ⟨R', hR', rfl⟩ := List.mem_map.1 hQ
    exact inGroup_mul h hR (hL.2.1 R' hR')
  · intro P hP
    obtain ⟨R', hR', e⟩ := hL.2.2 (mul R P) (inGroup_mul h hR hP)
    refine ⟨mul R R', List.mem_map.2 ⟨R', hR', rfl⟩, ?_⟩
    exact (mul_congr_right R e).trans
      (mul_mul_cancel R P (inGroup_even st n h hR) (hlR.trans (inGroup_length st n h hP).symm))

/-! ## §4 the density polynomial -/

/-- the coefficient `1 / 2^N` of every term of `density_matrix` -/
def dscale (st : State) : Cx := Cx.inv ⟨(2 : Rat) ^ st.N, 0⟩

theorem dscale_eq (st : State) (n : Nat) (h : TabInv st n) : dscale st = ⟨1 / (2 : Rat) ^ n, 0⟩ := by
  unfold dscale; rw [h.N_eq, inv_two_pow]

theorem densityPoly_eq (st : State) : densityPoly st = cpoly (dscale st) (densityRows st) := by
  unfold densityPoly polySmul cpoly dscale
  rw [List.map_map]
  apply List.map_congr_left
  intro R _
  simp only [Function.comp, Cx.mul_one]

theorem coef_density (st : State) (n : Nat) (h : TabInv st n) (g : PStr) :
    coef (densityPoly st) g = (⟨1 / (2 : Rat) ^ n, 0⟩ : Cx).mul (gcoef (densityRows st) g) := by
  rw [densityPoly_eq, coef_cpoly, dscale_eq st n h]

theorem density_coef_in (st : State) (n : Nat) (P : Pauli) (h : TabInv st n) (hP : InGroup st P) :
    coef (densityPoly st) P.g = (Cx.ipow P.p).mul ⟨1 / (2 : Rat) ^ n, 0⟩ := by
  rw [coef_density st n h, gcoef_in st _ (complete_rows st n h) P hP, Cx.mul_comm]

theorem density_coef_out (st : State) (n : Nat) (g : PStr) (h : TabInv st n)
    (hg : ∀ P : Pauli, InGroup st P → P.g ≠ g) : coef (densityPoly st) g = Cx.zero := by
  rw [coef_density st n h, gcoef_out st _ (complete_rows st n h) g hg, Cx.mul_zero]

theorem density_hermitian (st : State) (n : Nat) (g : PStr) (h : TabInv st n) :
    (coef (densityPoly st) g).im = 0 := by
  by_cases hex : ∃ P : Pauli, InGroup st P ∧ P.g = g
  · obtain ⟨P, hP, rfl⟩ := hex
    rw [density_coef_in st n P h hP, Cx.mul_comm, real_mul, ipow_even_im P.p (inGroup_even st n h hP)]
    exact Rat.mul_zero _
  · rw [density_coef_out st n g h (fun P hP e => hex ⟨P, hP, e⟩)]; rfl

theorem density_coef_id (st : State) (n : Nat) (h : TabInv st n) :
    coef (densityPoly st) (idStr n) = ⟨1 / (2 : Rat) ^ n, 0⟩ := by
  have := density_coef_in st n ⟨idStr n, 0⟩ h (inGroup_one st n h)
  rw [this, Cx.ipow_zero, Cx.one_mul]

theorem density_trace (st : State) (n : Nat) (h : TabInv st n) : polyTrace (densityPoly st) = Cx.one := by
  have hc := complete_rows st n h
  rw [trace_partial (densityPoly st) n ?_ ?_, density_coef_id st n h]
  · have := scale_cancel n Cx.one
    rw [Cx.mul_one] at this
    exact this
  · intro t ht
    rw [densityPoly_eq] at ht
    obtain ⟨R, hR, rfl⟩ := List.mem_map.1 ht
    exact inGroup_length st n h (hc.2.1 R hR)
  · intro t ht e
    rw [densityPoly_eq] at ht
    obtain ⟨R, hR, rfl⟩ := List.mem_map.1 ht
    exact inGroup_phase_unique st n h (hc.2.1 R hR) (inGroup_one st n h) e

/-! ### products -/

/-- if every term of the left factor contributes the same amount `v` to the coefficient of `g`, the coefficient of the product
    is `|a| · v` -/
theorem coef_matmul_const (a b : Poly) (g : PStr) (v : Cx)
    (hv : ∀ x ∈ a, coef (b.map fun y => (mul x.1 y.1, x.2.mul y.2)) g = v) :
    coef (polyMatmul a b) g = (⟨(a.length : Rat), 0⟩ : Cx).mul v := by
  induction a with
  | nil =>
    rw [polyMatmul_nil, coef_nil]
    apply Cx.ext' <;> simp [Cx.mul, Cx.zero] <;> grind
  | cons x a ih =>
    rw [polyMatmul_cons, coef_append, hv x List.mem_cons_self, ih (fun y hy => hv y (List.mem_cons_of_mem _ hy))]
    apply Cx.ext' <;> simp only [Cx.mul, Cx.add, List.length_cons, Rat.natCast_add] <;> grind

theorem map_mul_cpoly (R : Pauli) (c d : Cx) (L : List Pauli) :
    ((cpoly d L).map fun y => (mul R y.1, c.mul y.2)) = cpoly (c.mul d) (L.map (mul R)) := by
  unfold cpoly
  rw [List.map_map, List.map_map]
  rfl

theorem density_idempotent (st : State) (n : Nat) (g : PStr) (h : TabInv st n) :
    coef (polyMatmul (densityPoly st) (densityPoly st)) g
      = (⟨1 / (2 : Rat) ^ st.r, 0⟩ : Cx).mul (coef (densityPoly st) g) := by
  have hc := complete_rows st n h
  have hlen := (C19_density_complete st n h).1
  have hv : ∀ x ∈ densityPoly st, coef ((densityPoly st).map fun y => (mul x.1 y.1, x.2.mul y.2)) g
      = ((dscale st).mul (dscale st)).mul (gcoef (densityRows st) g) := by
    intro x hx
    rw [densityPoly_eq] at hx ⊢
    obtain ⟨R, hR, rfl⟩ := List.mem_map.1 hx
    rw [map_mul_cpoly, coef_cpoly,
      gcoef_eq st _ _ (complete_mul_left st n h _ hc R (hc.2.1 R hR)) hc g]
  rw [coef_matmul_const _ _ g _ hv, coef_density st n h, dscale_eq st n h]
  have hl : (((densityPoly st).length : Nat) : Rat) = (2 : Rat) ^ (n - st.r) := by
    rw [densityPoly_eq]; unfold cpoly; rw [List.length_map, hlen]; simp
  rw [hl]
  exact count_scale n st.r h.2.1 _

/-! ## §5 `Tr(ρ P)` -/

theorem matmul_single_right (a : Poly) (y : Term) :
    polyMatmul a [y] = a.map fun x => (mul x.1 y.1, x.2.mul y.2) := by
  induction a with
  | nil => rfl
  | cons x a ih => rw [polyMatmul_cons, ih]; rfl

theorem cpoly_matmul_single (c d : Cx) (L : List Pauli) (P : Pauli) :
    polyMatmul (cpoly c L) [(P, d)] = cpoly (c.mul d) (L.map fun R => mul R P) := by
  rw [matmul_single_right]
  unfold cpoly
  rw [List.map_map, List.map_map]
  rfl

/-- strings of `L·P` are pairwise different -/
theorem nodup_mul_right (L : List Pauli) (n : Nat) (P : Pauli) (hn : (L.map (·.g)).Nodup)
    (hl : ∀ R ∈ L, R.g.length = n) (hP : P.g.length = n) : ((L.map fun R => mul R P).map (·.g)).Nodup := by
  refine nodup_map_on L (fun R => mul R P) hn ?_
  intro a ha b hb e
  simp only [mul_g] at e
  rw [← xorS_cancel_right a.g P.g ((hl a ha).trans hP.symm), e, xorS_cancel_right b.g P.g ((hl b hb).trans hP.symm)]

theorem xorS_eq_id_iff (a b : PStr) (n : Nat) (ha : a.length = n) (hb : b.length = n) :
    xorS a b = idStr n ↔ a = b := by
  constructor
  · intro e
    have := xorS_cancel_right a b (ha.trans hb.symm)
    rw [e, ← hb, xorS_idStr_left] at this
    exact this.symm
  · rintro rfl; rw [xorS_self, ha]

/-- the identity coefficient of `(Σ L)·P` when a row of `L` has the string of `P` -/
theorem gcoef_mul_right_mem (L : List Pauli) (n : Nat) (P R : Pauli) (hn : (L.map (·.g)).Nodup)
    (hl : ∀ R ∈ L, R.g.length = n) (hP : P.g.length = n) (hR : R ∈ L) (e : R.g = P.g) :
    gcoef (L.map fun R => mul R P) (idStr n) = Cx.ipow (R.p + P.p) := by
  have hg : (mul R P).g = idStr n := by
    rw [mul_g]; exact (xorS_eq_id_iff _ _ n (hl R hR) hP).2 e
  rw [← hg, gcoef_of_mem _ (nodup_mul_right L n P hn hl hP) (mul R P) (List.mem_map.2 ⟨R, hR, rfl⟩)]
  apply Cx.ipow_congr
  rw [mul_p, e, ipow_self]; omega

/-- … and when none has -/
theorem gcoef_mul_right_not_mem (L : List Pauli) (n : Nat) (P : Pauli) (hl : ∀ R ∈ L, R.g.length = n)
    (hP : P.g.length = n) (hne : ∀ R ∈ L, R.g ≠ P.g) : gcoef (L.map fun R => mul R P) (idStr n) = Cx.zero := by
  apply gcoef_of_not_mem
  intro Q hQ
  obtain ⟨R, hR, rfl⟩ := List.mem_map.1 hQ
  intro e
  rw [mul_g] at e
  exact hne R hR ((xorS_eq_id_iff _ _ n (hl R hR) hP).1 e)

theorem trace_density_mul (st : State) (n : Nat) (P : Pauli) (h : TabInv st n) (X : Cx)
    (hX : gcoef ((densityRows st).map fun R => mul R P) (idStr n) = X) :
    (⟨(2 : Rat) ^ n, 0⟩ : Cx).mul (coef (polyMatmul (densityPoly st) [(P, Cx.one)]) (idStr n)) = X := by
  rw [densityPoly_eq, cpoly_matmul_single, coef_cpoly, hX, dscale_eq st n h, Cx.mul_one, scale_cancel]

theorem expect_is_trace (st : State) (n : Nat) (P : Pauli) (h : TabInv st n) (hl : P.g.length = n) (hp : P.p % 2 = 0) :
    (⟨(2 : Rat) ^ n, 0⟩ : Cx).mul (coef (polyMatmul (densityPoly st) [(P, Cx.one)]) (idStr n))
      = Cx.ofInt (expect1 st P) := by
  have hc := complete_rows st n h
  have hlen : ∀ R ∈ densityRows st, R.g.length = n := fun R hR => inGroup_length st n h (hc.2.1 R hR)
  obtain ⟨_, s1, s2⟩ := C07_expect_spec st n P h hl hp
  apply trace_density_mul st n P h
  by_cases hex : ∃ R ∈ densityRows st, R.g = P.g
  · obtain ⟨R, hR, e⟩ := hex
    rw [gcoef_mul_right_mem _ n P R hc.1 hlen hl hR e]
    have hRg := hc.2.1 R hR
    have hRe := inGroup_even st n h hRg
    by_cases hph : R.p % 4 = P.p % 4
    · rw [s1.2 (inGroup_congr hRg ⟨e, hph⟩), Cx.ipow_of_mod_zero (by omega)]; rfl
    · rw [s2.2 (inGroup_congr hRg ⟨e, by simp only [neg]; omega⟩),
        Cx.ipow_congr (show (R.p + P.p) % 4 = 2 % 4 by omega)]
      rfl
  · have hne : ∀ R ∈ densityRows st, R.g ≠ P.g := fun R hR e => hex ⟨R, hR, e⟩
    rw [gcoef_mul_right_not_mem _ n P hlen hl hne]
    have h1 : expect1 st P ≠ 1 := fun e1 => by
      obtain ⟨R, hR, eq⟩ := hc.2.2 P (s1.1 e1)
      exact hne R hR eq.1
    have h2 : expect1 st P ≠ -1 := fun e1 => by
      obtain ⟨R, hR, eq⟩ := hc.2.2 (neg P) (s2.1 e1)
      exact hne R hR eq.1
    have h0 : expect1 st P = 0 := by omega
    rw [h0]; rfl

/-! ## §6 the Bell state `⟨XX, ZZ⟩` -/

/-- the Clifford map `X₀ ↦ ZI, Z₀ ↦ XX, X₁ ↦ IX, Z₁ ↦ ZZ` (`CNOT·H` up to relabelling) -/
def bellMap : List Pauli :=
  [⟨[(false, true), (false, false)], 0⟩, ⟨[(true, false), (true, false)], 0⟩,
   ⟨[(false, false), (true, false)], 0⟩, ⟨[(false, true), (false, true)], 0⟩]

/-- rows `XX, ZZ` (stabilizers) and `ZI, IX` (destabilizers), pure -/
def bellState : State := toState bellMap 0

theorem bellState_rows : bellState.active = [⟨[(true, false), (true, false)], 0⟩, ⟨[(false, true), (false, true)], 0⟩] := by
  decide

theorem bellState_inv : TabInv bellState 2 :=
  C05_toState_inv bellMap 2 0 (validMapB_sound _ _ (by decide)) (Nat.zero_le _)

end Dn
end PC
