import PyCliffordModel.Proofs.Transform
import PyCliffordModel.Proofs.Z2Inv
/-! # Proofs/Compose — helper lemmas for C04 (compose / inverse of Clifford maps)

Part 1: `transform` commutes with `pauli_combine`, hence `compose` acts as "first map, then second map";
validity of compositions; faithfulness (a valid map is determined by its action on the generators).
Part 2: the flat bit matrix of a valid map is symplectic, hence invertible over GF(2) (`z2inv` does not raise);
the rows built by `CliffordMap.inverse` are sent to the generators, which gives validity and both composition
orders. Everything lives in `PC.Cp`.
-/
namespace PC
namespace Cp
open Tr Z2

/-! ## row-wise `PEq` of lists -/

theorem forall₂_of_rowAt : ∀ (A B : List Pauli), A.length = B.length →
    (∀ i, i < A.length → PEq (rowAt A i) (rowAt B i)) → List.Forall₂ PEq A B
  | [], [], _, _ => List.Forall₂.nil
  | [], _ :: _, h, _ => by simp at h
  | _ :: _, [], h, _ => by simp at h
  | a :: A, b :: B, hl, h => by
    refine List.Forall₂.cons ?_ (forall₂_of_rowAt A B (by simpa using hl) fun i hi => ?_)
    · simpa [rowAt_cons_zero] using h 0 (by simp)
    · have := h (i + 1) (by simp; omega)
      rwa [rowAt_cons_succ, rowAt_cons_succ] at this

theorem rowAt_of_forall₂ {A B : List Pauli} (h : List.Forall₂ PEq A B) (i : Nat) :
    PEq (rowAt A i) (rowAt B i) := by
  induction h generalizing i with
  | nil => exact PEq.refl _
  | cons hab _ ih =>
    cases i with
    | zero => simpa [rowAt_cons_zero] using hab
    | succ i => rw [rowAt_cons_succ, rowAt_cons_succ]; exact ih i

theorem forall₂_map (A : List Pauli) (f g : Pauli → Pauli) (h : ∀ R ∈ A, PEq (f R) (g R)) :
    List.Forall₂ PEq (A.map f) (A.map g) := by
  induction A with
  | nil => exact List.Forall₂.nil
  | cons a A ih =>
    exact List.Forall₂.cons (h a (by simp)) (ih fun R hR => h R (by simp [hR]))

theorem rowAt_map' {α : Type} (f : α → Pauli) (L : List α) (d : α) (i : Nat) (h : i < L.length) :
    rowAt (L.map f) i = f (L.getD i d) := by
  simp [rowAt, List.getD_eq_getElem?_getD, List.getElem?_map, List.getElem?_eq_getElem h]

/-! ## `transform` commutes with `pauli_combine` -/

/-- a valid map applied to a combination of rows = the combination of the transformed rows -/
theorem combineAux_transform (B : List Pauli) (n : Nat) (hB : ValidMap B n) (c : List Bool) :
    ∀ (rows : List Pauli) (acc : Pauli), (∀ R ∈ rows, R.g.length = n) → acc.g.length = n →
    PEq (transform B (combineAux c rows acc)) (combineAux c (rows.map (transform B)) (transform B acc)) := by
  induction c with
  | nil => intro rows acc _ _; simp only [combineAux_nil_left]; exact PEq.refl _
  | cons c0 cs ih =>
    intro rows acc hl ha
    cases rows with
    | nil => simp only [List.map_nil, combineAux_nil_right]; exact PEq.refl _
    | cons r rs =>
      have hr := hl r (by simp)
      have hrs : ∀ R ∈ rs, R.g.length = n := fun R hR => hl R (by simp [hR])
      rw [List.map_cons, combineAux_cons, combineAux_cons]
      cases c0 with
      | false => exact ih rs acc hrs ha
      | true =>
        simp only [if_true]
        refine (ih rs (mul acc r) hrs ?_).trans (combineAux_congr _ _ (transform_mul B n hB acc r ha hr))
        rw [length_mul _ _ (ha.trans hr.symm)]; exact ha

theorem length_compose (A B : List Pauli) : (compose A B).length = A.length := by
  unfold compose transformRows; rw [List.length_map]

theorem rowAt_compose (A B : List Pauli) (i : Nat) (h : i < A.length) :
    rowAt (compose A B) i = transform B (rowAt A i) := by
  unfold compose transformRows; exact rowAt_map _ _ i h

/-- composition acts as the first map followed by the second -/
theorem compose_acts (A B : List Pauli) (n : Nat) (hA : ValidMap A n) (hB : ValidMap B n) (P : Pauli)
    (_hP : P.g.length = n) : PEq (transform (compose A B) P) (transform B (transform A P)) := by
  have hlA : ∀ R ∈ A, R.g.length = n := fun R hR => (hA.2.1 R hR).1
  have hlen : (compose A B).length = 2 * n := by rw [length_compose]; exact hA.1
  have h1 := combineAux_transform B n hB (flat P.g) A ⟨idStr n, 0⟩ hlA (length_idStr n)
  rw [transform_one B n hB.1] at h1
  have e1 : transform (compose A B) P =
      ⟨(combineAux (flat P.g) (A.map (transform B)) ⟨idStr n, 0⟩).g,
        (P.p + p0 P.g + (combineAux (flat P.g) (A.map (transform B)) ⟨idStr n, 0⟩).p) % 4⟩ := by
    unfold transform combine; rw [mapN_of_length _ n hlen]; rfl
  have e2 : transform A P =
      ⟨(combineAux (flat P.g) A ⟨idStr n, 0⟩).g, (P.p + p0 P.g + (combineAux (flat P.g) A ⟨idStr n, 0⟩).p) % 4⟩ := by
    unfold transform combine; rw [mapN_of_length _ n hA.1]
  have h2 := transform_of_g_eq B (transform A P) (combineAux (flat P.g) A ⟨idStr n, 0⟩) (by rw [e2])
  rw [e1]
  refine ⟨?_, ?_⟩
  · show _ = (transform B (transform A P)).g
    rw [h2.1, h1.1]
  · have a := h2.2; have b := h1.2
    have c : (transform A P).p = (P.p + p0 P.g + (combineAux (flat P.g) A ⟨idStr n, 0⟩).p) % 4 := by rw [e2]
    simp only at a b ⊢
    omega

theorem compose_valid (A B : List Pauli) (n : Nat) (hA : ValidMap A n) (hB : ValidMap B n) :
    ValidMap (compose A B) n := by
  have hlB : ∀ R ∈ B, R.g.length = n := fun R hR => (hB.2.1 R hR).1
  refine ⟨by rw [length_compose]; exact hA.1, ?_, ?_⟩
  · intro R hR
    unfold compose transformRows at hR
    obtain ⟨R0, hR0, rfl⟩ := List.mem_map.1 hR
    obtain ⟨h1, h2⟩ := hA.2.1 R0 hR0
    exact ⟨length_transform B n hB.1 hlB R0, transform_hermitian B n hB R0 h1 h2⟩
  · intro i j hi hj
    have hi' : i < A.length := by rw [hA.1]; exact hi
    have hj' : j < A.length := by rw [hA.1]; exact hj
    rw [rowAt_compose _ _ i hi', rowAt_compose _ _ j hj',
      transform_acq B n hB _ _ (hA.2.1 _ (rowAt_mem A i hi')).1 (hA.2.1 _ (rowAt_mem A j hj')).1]
    exact hA.2.2 i j hi hj

/-! ## the identity map -/

theorem transform_idMap (n : Nat) (P : Pauli) (hP : P.g.length = n) : PEq (transform (idMap n) P) P := by
  have h := combineAux_idMap n P.g 0 hP
  unfold transform combine
  rw [mapN_of_length _ n (length_idMap n)]
  refine ⟨h.1, ?_⟩
  have h2 := h.2
  simp only [p0] at h2 ⊢
  omega

theorem validMap_idMap (n : Nat) : ValidMap (idMap n) n :=
  ⟨length_idMap n, fun R hR => ⟨(idMap_rows n R hR).1, by rw [(idMap_rows n R hR).2]; rfl⟩,
    fun i j hi hj => Sympl_idMap n i j (by rw [length_idMap]; exact hi) (by rw [length_idMap]; exact hj)⟩

/-! ## faithfulness -/

theorem faithful (A B : List Pauli) (n : Nat) (hA : ValidMap A n) (hB : ValidMap B n)
    (h : ∀ P : Pauli, P.g.length = n → PEq (transform A P) (transform B P)) : List.Forall₂ PEq A B := by
  apply forall₂_of_rowAt A B (hA.1.trans hB.1.symm)
  intro i hiA
  have hiB : i < B.length := by rw [hB.1, ← hA.1]; exact hiA
  have hi : i < 2 * n := by rw [← hA.1]; exact hiA
  have lA := (hA.2.1 _ (rowAt_mem A i hiA)).1
  have lB := (hB.2.1 _ (rowAt_mem B i hiB)).1
  rcases Nat.mod_two_eq_zero_or_one i with h0 | h1
  · obtain ⟨k, rfl⟩ : ∃ k, i = 2 * k := ⟨i / 2, by omega⟩
    have hk : k < n := by omega
    exact (transform_unitX A n k hA.1 hk lA).symm.trans
      ((h _ (length_unitX n k)).trans (transform_unitX B n k hB.1 hk lB))
  · obtain ⟨k, rfl⟩ : ∃ k, i = 2 * k + 1 := ⟨i / 2, by omega⟩
    have hk : k < n := by omega
    exact (transform_unitZ A n k hA.1 hk lA).symm.trans
      ((h _ (length_unitZ n k)).trans (transform_unitZ B n k hB.1 hk lB))

theorem id_compose (A : List Pauli) (n : Nat) (hA : ValidMap A n) : List.Forall₂ PEq (compose (idMap n) A) A :=
  faithful _ A n (compose_valid _ _ n (validMap_idMap n) hA) hA fun P hP =>
    (compose_acts _ A n (validMap_idMap n) hA P hP).trans (transform_congr A (transform_idMap n P hP))

theorem compose_id (A : List Pauli) (n : Nat) (hA : ValidMap A n) : List.Forall₂ PEq (compose A (idMap n)) A :=
  faithful _ A n (compose_valid _ _ n hA (validMap_idMap n)) hA fun P hP =>
    (compose_acts A _ n hA (validMap_idMap n) P hP).trans
      (transform_idMap n _ (length_transform A n hA.1 (fun R hR => (hA.2.1 R hR).1) P))

theorem compose_assoc (A B C : List Pauli) (n : Nat) (hA : ValidMap A n) (hB : ValidMap B n) (hC : ValidMap C n) :
    List.Forall₂ PEq (compose (compose A B) C) (compose A (compose B C)) := by
  have : compose (compose A B) C = A.map (fun R => transform C (transform B R)) := by
    unfold compose transformRows; rw [List.map_map]; rfl
  rw [this]
  exact forall₂_map A _ _ fun R hR => (compose_acts B C n hB hC R (hA.2.1 R hR).1).symm

/-! ## `transform` respects row-wise `PEq` of the map -/

theorem mul_congr_right (a : Pauli) {r r' : Pauli} (h : PEq r r') : PEq (mul a r) (mul a r') := by
  obtain ⟨hg, hp⟩ := h
  refine ⟨by simp only [mul_g, hg], ?_⟩
  simp only [mul_p, hg]; omega

theorem combineAux_congr_rows {rows rows' : List Pauli} (h : List.Forall₂ PEq rows rows') :
    ∀ (c : List Bool) (a a' : Pauli), PEq a a' → PEq (combineAux c rows a) (combineAux c rows' a') := by
  induction h with
  | nil => intro c a a' ha; simpa only [combineAux_nil_right] using ha
  | cons hr _ ih =>
    intro c a a' ha
    cases c with
    | nil => simpa only [combineAux_nil_left] using ha
    | cons c0 cs =>
      rw [combineAux_cons, combineAux_cons]
      cases c0 with
      | false => exact ih cs a a' ha
      | true => exact ih cs _ _ ((mul_congr_left ha _).trans (mul_congr_right _ hr))

theorem transform_congr_map {M M' : List Pauli} (h : List.Forall₂ PEq M M') (P : Pauli) :
    PEq (transform M P) (transform M' P) := by
  have hl : mapN M = mapN M' := by unfold mapN; rw [h.length_eq]
  have hc := combineAux_congr_rows h (flat P.g) ⟨idStr (mapN M), 0⟩ ⟨idStr (mapN M), 0⟩ (PEq.refl _)
  unfold transform combine
  rw [← hl]
  refine ⟨hc.1, ?_⟩
  have := hc.2
  simp only at this ⊢
  omega

/-- if `compose A B` is the identity map then `transform B ∘ transform A` is the identity -/
theorem acts_id_of_rows (A B : List Pauli) (n : Nat) (hA : ValidMap A n) (hB : ValidMap B n)
    (h : List.Forall₂ PEq (compose A B) (idMap n)) (P : Pauli) (hP : P.g.length = n) :
    PEq (transform B (transform A P)) P :=
  (compose_acts A B n hA hB P hP).symm.trans ((transform_congr_map h P).trans (transform_idMap n P hP))

/-! ## Part 2 — flat bit matrices -/

theorem length_flat (g : PStr) : (flat g).length = 2 * g.length := by
  induction g with
  | nil => rfl
  | cons q qs ih => rw [flat_cons]; simp [ih]; omega

theorem flat_unflat : ∀ (c : List Bool) (k : Nat), c.length = 2 * k → flat (unflat c) = c
  | [], _, _ => rfl
  | [_], k, h => by simp at h; omega
  | x :: z :: rest, k, h => by
    show x :: z :: flat (unflat rest) = _
    rw [flat_unflat rest (k - 1) (by simp at h; omega)]

theorem length_unflat : ∀ (c : List Bool) (k : Nat), c.length = 2 * k → (unflat c).length = k
  | [], k, h => by simp at h; simp [unflat]; omega
  | [_], k, h => by simp at h; omega
  | x :: z :: rest, k, h => by
    show (unflat rest).length + 1 = k
    rw [length_unflat rest (k - 1) (by simp at h; omega)]; simp at h; omega

theorem getD_flat_zero (q : Q) (qs : PStr) : (flat (q :: qs)).getD 0 false = q.1 := rfl
theorem getD_flat_one (q : Q) (qs : PStr) : (flat (q :: qs)).getD 1 false = q.2 := rfl
theorem getD_flat_add_two (q : Q) (qs : PStr) (j : Nat) :
    (flat (q :: qs)).getD (j + 2) false = (flat qs).getD j false := by
  rw [flat_cons]; simp

theorem getD_flat_nil (j : Nat) : (flat []).getD j false = false := by simp [flat]

theorem eq_of_flat_getD : ∀ (a b : PStr), a.length = b.length →
    (∀ j, j < 2 * a.length → (flat a).getD j false = (flat b).getD j false) → a = b
  | [], [], _, _ => rfl
  | [], _ :: _, hl, _ => by simp at hl
  | _ :: _, [], hl, _ => by simp at hl
  | q :: qs, r :: rs, hl, h => by
    have h0 := h 0 (by simp)
    have h1 := h 1 (by simp; omega)
    rw [getD_flat_zero, getD_flat_zero] at h0
    rw [getD_flat_one, getD_flat_one] at h1
    have ht := eq_of_flat_getD qs rs (by simpa using hl) (fun j hj => by
      have := h (j + 2) (by simp; omega)
      rwa [getD_flat_add_two, getD_flat_add_two] at this)
    subst ht
    have : q = r := Prod.ext h0 h1
    rw [this]

theorem getD_flat_idStr (n j : Nat) : (flat (idStr n)).getD j false = false := by
  induction n generalizing j with
  | zero => exact getD_flat_nil j
  | succ n ih =>
    rw [idStr_succ]
    match j with
    | 0 => rfl
    | 1 => rfl
    | j + 2 => rw [getD_flat_add_two]; exact ih j

theorem getD_flat_xorS : ∀ (a b : PStr) (j : Nat), a.length = b.length →
    (flat (xorS a b)).getD j false = ((flat a).getD j false != (flat b).getD j false)
  | [], [], j, _ => by simp [xorS, flat]
  | [], _ :: _, _, hl => by simp at hl
  | _ :: _, [], _, hl => by simp at hl
  | q :: qs, r :: rs, j, hl => by
    rw [xorS_cons]
    match j with
    | 0 => rfl
    | 1 => rfl
    | j + 2 =>
      rw [getD_flat_add_two, getD_flat_add_two, getD_flat_add_two]
      exact getD_flat_xorS qs rs j (by simpa using hl)

/-- the string of a combination is the GF(2) combination of the strings -/
theorem flat_combineAux (n j : Nat) : ∀ (c : List Bool) (rows : List Pauli) (acc : Pauli),
    c.length = rows.length → (∀ R ∈ rows, R.g.length = n) → acc.g.length = n →
    (flat (combineAux c rows acc).g).getD j false =
      ((flat acc.g).getD j false !=
        xsum (fun k => c.getD k false && (flat (rowAt rows k).g).getD j false) rows.length) := by
  intro c
  induction c with
  | nil =>
    intro rows acc hc _ _
    have : rows = [] := by cases rows with
      | nil => rfl
      | cons _ _ => simp at hc
    subst this
    simp [combineAux_nil_left, xsum]
  | cons c0 cs ih =>
    intro rows acc hc hl ha
    cases rows with
    | nil => simp at hc
    | cons r rs =>
      have hr := hl r (by simp)
      have hrs : ∀ R ∈ rs, R.g.length = n := fun R hR => hl R (by simp [hR])
      have hcs : cs.length = rs.length := by simpa using hc
      rw [combineAux_cons, List.length_cons, xsum_shift]
      simp only [List.getD_cons_zero, List.getD_cons_succ, rowAt_cons_zero, rowAt_cons_succ]
      cases c0 with
      | false =>
        simp only [Bool.false_eq_true, if_false]
        rw [ih rs acc hcs hrs ha]
        simp
      | true =>
        have hm : (mul acc r).g.length = n := by rw [length_mul _ _ (ha.trans hr.symm)]; exact ha
        simp only [if_true]
        rw [ih rs (mul acc r) hcs hrs hm, mul_g, getD_flat_xorS _ _ _ (ha.trans hr.symm)]
        simp only [Bool.true_and]
        generalize (flat acc.g).getD j false = x
        generalize (flat r.g).getD j false = y
        generalize xsum _ _ = z
        cases x <;> cases y <;> cases z <;> rfl

/-- the flat bit matrix of a map (the code's `gs`) -/
def smat (M : List Pauli) : BMat := M.map fun R => flat R.g

theorem get_smat (M : List Pauli) (k j : Nat) : (smat M).get k j = (flat (rowAt M k).g).getD j false := by
  simp only [BMat.get, smat, rowAt, List.getD_eq_getElem?_getD, List.getElem?_map]
  cases M[k]? <;> simp [flat]

theorem isSquare_smat (M : List Pauli) (n : Nat) (hM : M.length = 2 * n) (hl : ∀ R ∈ M, R.g.length = n) :
    IsSquare (smat M) (2 * n) := by
  refine ⟨by simp [smat, hM], fun row hrow => ?_⟩
  obtain ⟨R, hR, rfl⟩ := List.mem_map.1 hrow
  rw [length_flat, hl R hR]

theorem flat_combine (n : Nat) (M : List Pauli) (c : List Bool) (j : Nat) (hM : M.length = 2 * n)
    (hl : ∀ R ∈ M, R.g.length = n) (hc : c.length = 2 * n) :
    (flat (combine n c M).g).getD j false = xsum (fun k => c.getD k false && (smat M).get k j) (2 * n) := by
  unfold combine
  rw [flat_combineAux n j c M ⟨idStr n, 0⟩ (hc.trans hM.symm) hl (length_idStr n), getD_flat_idStr, hM]
  simp only [Bool.false_bne, get_smat]

theorem flat_transform (n : Nat) (M : List Pauli) (P : Pauli) (j : Nat) (hM : M.length = 2 * n)
    (hl : ∀ R ∈ M, R.g.length = n) (hP : P.g.length = n) :
    (flat (transform M P).g).getD j false =
      xsum (fun k => (flat P.g).getD k false && (smat M).get k j) (2 * n) := by
  have : (transform M P).g = (combine n (flat P.g) M).g := by
    unfold transform; rw [mapN_of_length M n hM]
  rw [this, flat_combine n M _ j hM hl (by rw [length_flat, hP])]

/-! ## the commutation form as a GF(2) sum -/

/-- the partner index: `2k ↔ 2k+1` -/
def flip1 (k : Nat) : Nat := if k % 2 = 0 then k + 1 else k - 1

theorem flip1_add_two (k : Nat) : flip1 (k + 2) = flip1 k + 2 := by
  unfold flip1; split <;> split <;> omega

theorem flip1_lt (k n : Nat) (h : k < 2 * n) : flip1 k < 2 * n := by
  unfold flip1; split <;> omega

theorem acqSum_eq_xsum : ∀ (a b : PStr) (n : Nat), a.length = n → b.length = n →
    acqSum a b % 2 = b2i (xsum (fun k => (flat a).getD k false && (flat b).getD (flip1 k) false) (2 * n))
  | [], [], n, h, _ => by
    have : n = 0 := by simpa using h.symm
    subst this; rfl
  | [], _ :: _, n, h1, h2 => by simp at h1 h2; omega
  | _ :: _, [], n, h1, h2 => by simp at h1 h2; omega
  | q :: qs, r :: rs, n, h1, h2 => by
    obtain ⟨m, rfl⟩ : ∃ m, n = m + 1 := ⟨n - 1, by simp at h1; omega⟩
    have ih := acqSum_eq_xsum qs rs m (by simpa using h1) (by simpa using h2)
    have e : 2 * (m + 1) = 2 * m + 1 + 1 := by omega
    rw [e, xsum_shift, xsum_shift]
    have et : xsum (fun k => (flat (q :: qs)).getD (k + 1 + 1) false &&
          (flat (r :: rs)).getD (flip1 (k + 1 + 1)) false) (2 * m) =
        xsum (fun k => (flat qs).getD k false && (flat rs).getD (flip1 k) false) (2 * m) := by
      apply xsum_congr; intro k _
      rw [show k + 1 + 1 = k + 2 from rfl, flip1_add_two, getD_flat_add_two, getD_flat_add_two]
    rw [et]
    have f0 : flip1 0 = 1 := rfl
    have f1 : flip1 (0 + 1) = 0 := rfl
    rw [f0, f1, getD_flat_zero, getD_flat_one, show (0 + 1) = 1 from rfl, getD_flat_zero, getD_flat_one,
      acqSum_cons]
    generalize xsum _ _ = X at ih ⊢
    obtain ⟨x, z⟩ := q; obtain ⟨x', z'⟩ := r
    cases x <;> cases z <;> cases x' <;> cases z' <;> cases X <;> simp [acqQ, b2i] at ih ⊢ <;> omega

theorem acq_eq_xsum (a b : PStr) (n : Nat) (ha : a.length = n) (hb : b.length = n) :
    acq a b = b2i (xsum (fun k => (flat a).getD k false && (flat b).getD (flip1 k) false) (2 * n)) :=
  acqSum_eq_xsum a b n ha hb

/-- **symplecticity**: `S · (Ω Sᵀ Ω) = 1` for the flat matrix `S` of a valid map -/
theorem smat_rinv (A : List Pauli) (n : Nat) (hA : ValidMap A n) : ∀ r, r < 2 * n → ∀ c, c < 2 * n →
    mmul (2 * n) (smat A).get (fun k c => (smat A).get (flip1 c) (flip1 k)) r c = ident r c := by
  intro r hr c hc
  have hfc := flip1_lt c n hc
  have lr := (hA.2.1 _ (rowAt_mem A r (by rw [hA.1]; exact hr))).1
  have lc := (hA.2.1 _ (rowAt_mem A (flip1 c) (by rw [hA.1]; exact hfc))).1
  have h1 := acq_eq_xsum _ _ n lr lc
  rw [hA.2.2 r (flip1 c) hr hfc] at h1
  simp only [mmul, get_smat, ident]
  generalize xsum _ _ = X at h1 ⊢
  have hfl : (r / 2 = flip1 c / 2 ∧ r ≠ flip1 c) ↔ r = c := by
    unfold flip1; split <;> omega
  by_cases e : r = c
  · have : (r == c) = true := by simpa using e
    rw [this]
    rw [if_pos (hfl.2 e)] at h1
    cases X <;> simp [b2i] at h1 ⊢
  · have : (r == c) = false := by simpa using e
    rw [this]
    rw [if_neg (fun h => e (hfl.1 h))] at h1
    cases X <;> simp [b2i] at h1 ⊢

/-! ## right-invertible ⇒ `z2inv` succeeds (via the transpose) -/

def ofFn (m : Nat) (f : Mat) : BMat := (List.range m).map fun r => (List.range m).map fun c => f r c

theorem shape_ofFn (m : Nat) (f : Mat) : Shape (ofFn m f) m m := by
  refine ⟨by simp [ofFn], fun j hj => ?_⟩
  simp [ofFn, List.getD_eq_getElem?_getD, List.getElem?_map, List.getElem?_range hj]

theorem get_ofFn (m : Nat) (f : Mat) (r c : Nat) (hr : r < m) (hc : c < m) : (ofFn m f).get r c = f r c := by
  simp only [BMat.get, ofFn, List.getD_eq_getElem?_getD, List.getElem?_map,
    List.getElem?_range hr, List.getElem?_range hc, Option.map_some, Option.getD_some]

theorem ident_comm (r c : Nat) : ident r c = ident c r := by
  simp only [ident]; exact BEq.comm

theorem z2inv_some_of_rinv (A : BMat) (m : Nat) (hA : IsSquare A m) (R : Mat)
    (hR : ∀ r, r < m → ∀ c, c < m → mmul m A.get R r c = ident r c) : ∃ G, z2inv A = some G := by
  have sAt := shape_ofFn m (fun r c => A.get c r)
  have sRt := shape_ofFn m (fun r c => R c r)
  have sqAt := isSquare_of_shape _ m sAt
  have h1 : bmul (ofFn m (fun r c => R c r)) (ofFn m (fun r c => A.get c r)) m = bident m := by
    refine (bmul_eq_bident_iff _ _ m sRt).mpr fun r hr c hc => ?_
    rw [ident_comm, ← hR c hc r hr]
    simp only [mmul]
    apply xsum_congr; intro k hk
    rw [get_ofFn m _ r k hr hk, get_ofFn m _ k c hk hc, Bool.and_comm]
  cases hz : z2inv (ofFn m (fun r c => A.get c r)) with
  | none => exact absurd ⟨_, isSquare_of_shape _ m sRt, h1⟩ (z2inv_complete _ m sqAt hz)
  | some Bt =>
    have h2 := (bmul_eq_bident_iff _ Bt m sAt).mp (z2inv_right _ Bt m sqAt hz)
    have sL := shape_ofFn m (fun r c => Bt.get c r)
    have h3 : bmul (ofFn m (fun r c => Bt.get c r)) A m = bident m := by
      refine (bmul_eq_bident_iff _ _ m sL).mpr fun r hr c hc => ?_
      rw [ident_comm, ← h2 c hc r hr]
      simp only [mmul]
      apply xsum_congr; intro k hk
      rw [get_ofFn m _ r k hr hk, get_ofFn m _ c k hc hk, Bool.and_comm]
    cases hz2 : z2inv A with
    | none => exact absurd ⟨_, isSquare_of_shape _ m sL, h3⟩ (z2inv_complete A m hA hz2)
    | some G => exact ⟨G, rfl⟩

/-- **`z2inv` does not raise on the flat matrix of a valid map** -/
theorem z2inv_smat_some (A : List Pauli) (n : Nat) (hA : ValidMap A n) : ∃ G, z2inv (smat A) = some G :=
  z2inv_some_of_rinv (smat A) (2 * n) (isSquare_smat A n hA.1 fun R hR => (hA.2.1 R hR).1) _ (smat_rinv A n hA)

/-! ## the rows built by `CliffordMap.inverse` -/

/-- one row of `CliffordMap.inverse()` built from the row `c` of the inverse bit matrix -/
def invRow (A : List Pauli) (c : List Bool) : Pauli :=
  ⟨unflat c, (- (combine (mapN A) c A).p - p0 (unflat c)) % 4⟩

theorem inverse_eq (A : List Pauli) (G : BMat) (hz : z2inv (smat A) = some G) :
    inverse A = some (G.map (invRow A)) := by
  unfold inverse
  rw [show (A.map fun R => flat R.g) = smat A from rfl, hz]
  rfl

theorem inverse_none (A : List Pauli) (hz : z2inv (smat A) = none) : inverse A = none := by
  unfold inverse
  rw [show (A.map fun R => flat R.g) = smat A from rfl, hz]

/-- the phase chosen by `inverse` makes the image of the row phase-free -/
theorem transform_invRow (A : List Pauli) (n : Nat) (hA : A.length = 2 * n) (c : List Bool)
    (hc : c.length = 2 * n) :
    (transform A (invRow A c)).g = (combine n c A).g ∧ (transform A (invRow A c)).p = 0 := by
  unfold transform invRow
  simp only
  rw [flat_unflat c n hc, mapN_of_length A n hA]
  exact ⟨rfl, by omega⟩

/-- the strings of the identity map are the unit vectors -/
theorem flat_idMap (n : Nat) : ∀ (r j : Nat), r < 2 * n →
    (flat (rowAt (idMap n) r).g).getD j false = (r == j) := by
  induction n with
  | zero => intro r j h; omega
  | succ n ih =>
    intro r j hr
    rw [idMap_succ]
    match r with
    | 0 =>
      rw [rowAt_cons_zero]
      match j with
      | 0 => rfl
      | 1 => rfl
      | j + 2 => rw [getD_flat_add_two, getD_flat_idStr]; simp
    | 1 =>
      rw [rowAt_cons_succ, rowAt_cons_zero]
      match j with
      | 0 => rfl
      | 1 => rfl
      | j + 2 => rw [getD_flat_add_two, getD_flat_idStr]; simp
    | r + 2 =>
      have hr' : r < (idMap n).length := by rw [length_idMap]; omega
      rw [rowAt_cons_succ, rowAt_cons_succ, rowAt_map lift _ r hr']
      show (flat ((false, false) :: (rowAt (idMap n) r).g)).getD j false = _
      match j with
      | 0 => rw [getD_flat_zero]; simp
      | 1 => rw [getD_flat_one]; simp
      | j + 2 => rw [getD_flat_add_two, ih r j (by omega)]; simp

theorem rowAt_idMap (n r : Nat) (hr : r < 2 * n) :
    (rowAt (idMap n) r).g.length = n ∧ (rowAt (idMap n) r).p = 0 :=
  idMap_rows n _ (rowAt_mem _ r (by rw [length_idMap]; exact hr))

/-- a string whose flat view is the unit vector `r` is the string of row `r` of the identity map -/
theorem eq_idMap_row (n r : Nat) (hr : r < 2 * n) (g : PStr) (hg : g.length = n)
    (h : ∀ j, j < 2 * n → (flat g).getD j false = ident r j) : g = (rowAt (idMap n) r).g := by
  apply eq_of_flat_getD g _ (hg.trans (rowAt_idMap n r hr).1.symm)
  intro j hj
  rw [hg] at hj
  rw [h j hj, flat_idMap n r j hr]; rfl

/-- (ii) the image under `A` of row `r` of the candidate inverse is generator `r` -/
theorem transform_invRow_eq (A : List Pauli) (n : Nat) (hA : ValidMap A n) (G : BMat)
    (shG : Shape G (2 * n) (2 * n))
    (hGS : ∀ r, r < 2 * n → ∀ c, c < 2 * n → mmul (2 * n) G.get (smat A).get r c = ident r c)
    (r : Nat) (hr : r < 2 * n) :
    PEq (transform A (invRow A (G.getD r []))) (rowAt (idMap n) r) := by
  have hlA : ∀ R ∈ A, R.g.length = n := fun R hR => (hA.2.1 R hR).1
  have hc := shG.2 r hr
  obtain ⟨h1, h2⟩ := transform_invRow A n hA.1 _ hc
  refine ⟨?_, by rw [h2, (rowAt_idMap n r hr).2]⟩
  apply eq_idMap_row n r hr _ (length_transform A n hA.1 hlA _)
  intro j hj
  rw [h1, flat_combine n A _ j hA.1 hlA hc]
  exact hGS r hr j hj

/-- (iii) a list of rows that `A` sends to the generators is a valid map -/
theorem valid_of_transform_eq_id (A B : List Pauli) (n : Nat) (hA : ValidMap A n) (hlen : B.length = 2 * n)
    (hl : ∀ R ∈ B, R.g.length = n)
    (h : ∀ r, r < 2 * n → PEq (transform A (rowAt B r)) (rowAt (idMap n) r)) : ValidMap B n := by
  refine ⟨hlen, fun R hR => ⟨hl R hR, ?_⟩, fun i j hi hj => ?_⟩
  · obtain ⟨r, hr, rfl⟩ := List.getElem_of_mem hR
    have hr2 : r < 2 * n := by rw [← hlen]; exact hr
    have e := h r hr2
    rw [rowAt_of_lt B r hr] at e
    have t := transform_of_g_eq A B[r] ⟨B[r].g, 0⟩ rfl
    have hh := transform_hermitian A n hA ⟨B[r].g, 0⟩ (hl B[r] hR) rfl
    have e2 := e.2
    rw [(rowAt_idMap n r hr2).2] at e2
    have t2 := t.2
    simp only at t2
    omega
  · have hi' : i < B.length := by rw [hlen]; exact hi
    have hj' : j < B.length := by rw [hlen]; exact hj
    rw [← transform_acq A n hA _ _ (hl _ (rowAt_mem B i hi')) (hl _ (rowAt_mem B j hj')),
      (h i hi).1, (h j hj).1]
    exact Sympl_idMap n i j (by rw [length_idMap]; exact hi) (by rw [length_idMap]; exact hj)

/-- (iv) the other order: if `transform A ∘ transform B = id` and `S_A · S_B = 1` then `B` sends the rows of `A`
    to the generators -/
theorem transform_row_eq_id (A B : List Pauli) (n : Nat) (hA : ValidMap A n) (hB : ValidMap B n)
    (hact : ∀ P : Pauli, P.g.length = n → PEq (transform A (transform B P)) P)
    (hSB : ∀ r, r < 2 * n → ∀ c, c < 2 * n → mmul (2 * n) (smat A).get (smat B).get r c = ident r c)
    (r : Nat) (hr : r < 2 * n) : PEq (transform B (rowAt A r)) (rowAt (idMap n) r) := by
  have hlB : ∀ R ∈ B, R.g.length = n := fun R hR => (hB.2.1 R hR).1
  have hrA : r < A.length := by rw [hA.1]; exact hr
  have lr : (rowAt A r).g.length = n := (hA.2.1 _ (rowAt_mem A r hrA)).1
  have hTg : (transform B (rowAt A r)).g = (rowAt (idMap n) r).g := by
    apply eq_idMap_row n r hr _ (length_transform B n hB.1 hlB _)
    intro j hj
    rw [flat_transform n B _ j hB.1 hlB lr, ← hSB r hr j hj]
    simp only [mmul, get_smat]
  -- the image of generator `r` under `A` is row `r` of `A`
  have hE : PEq (transform A (rowAt (idMap n) r)) (rowAt A r) := by
    have := rowAt_of_forall₂ (id_compose A n hA) r
    rwa [rowAt_compose _ _ r (by rw [length_idMap]; exact hr)] at this
  have h1 := hact (rowAt A r) lr
  have h2 := transform_of_g_eq A (transform B (rowAt A r)) (rowAt (idMap n) r) hTg
  refine ⟨hTg, ?_⟩
  have a := hE.2; have b := h1.2; have c := h2.2
  rw [(rowAt_idMap n r hr).2] at c ⊢
  omega

theorem smat_map_invRow (A : List Pauli) (G : BMat) (n : Nat) (hG : IsSquare G (2 * n)) :
    smat (G.map (invRow A)) = G := by
  unfold smat
  rw [List.map_map]
  conv => rhs; rw [← List.map_id G]
  apply List.map_congr_left
  intro c hc
  exact flat_unflat c n (hG.2 c hc)

/-- **`CliffordMap.inverse` of a valid map: exists, is valid, inverts on both sides** -/
theorem inverse_spec (A : List Pauli) (n : Nat) (hA : ValidMap A n) :
    ∃ B, inverse A = some B ∧ ValidMap B n ∧ List.Forall₂ PEq (compose A B) (idMap n) ∧
      List.Forall₂ PEq (compose B A) (idMap n) := by
  have hlA : ∀ R ∈ A, R.g.length = n := fun R hR => (hA.2.1 R hR).1
  have sqS := isSquare_smat A n hA.1 hlA
  obtain ⟨G, hz⟩ := z2inv_smat_some A n hA
  obtain ⟨sqG, hGS⟩ := z2inv_left (smat A) G (2 * n) sqS hz
  have hSG := z2inv_right (smat A) G (2 * n) sqS hz
  have shG := shape_of_isSquare G _ sqG
  have hGS' := (bmul_eq_bident_iff G (smat A) (2 * n) shG).mp hGS
  have hSG' := (bmul_eq_bident_iff (smat A) G (2 * n) (shape_of_isSquare _ _ sqS)).mp hSG
  have hBlen : (G.map (invRow A)).length = 2 * n := by rw [List.length_map]; exact sqG.1
  have hBl : ∀ R ∈ G.map (invRow A), R.g.length = n := by
    intro R hR
    obtain ⟨c, hc, rfl⟩ := List.mem_map.1 hR
    exact length_unflat c n (sqG.2 c hc)
  have hBrow : ∀ r, r < 2 * n → rowAt (G.map (invRow A)) r = invRow A (G.getD r []) :=
    fun r hr => rowAt_map' _ G [] r (by rw [sqG.1]; exact hr)
  have hrow : ∀ r, r < 2 * n → PEq (transform A (rowAt (G.map (invRow A)) r)) (rowAt (idMap n) r) := by
    intro r hr
    rw [hBrow r hr]
    exact transform_invRow_eq A n hA G shG hGS' r hr
  have hB : ValidMap (G.map (invRow A)) n := valid_of_transform_eq_id A _ n hA hBlen hBl hrow
  have hBA : List.Forall₂ PEq (compose (G.map (invRow A)) A) (idMap n) := by
    apply forall₂_of_rowAt _ _ (by rw [length_compose, hBlen, length_idMap])
    intro i hi
    rw [length_compose] at hi
    rw [rowAt_compose _ _ i hi]
    exact hrow i (by rw [← hBlen]; exact hi)
  have hact := acts_id_of_rows _ A n hB hA hBA
  have hAB : List.Forall₂ PEq (compose A (G.map (invRow A))) (idMap n) := by
    apply forall₂_of_rowAt _ _ (by rw [length_compose, hA.1, length_idMap])
    intro i hi
    rw [length_compose] at hi
    rw [rowAt_compose _ _ i hi]
    refine transform_row_eq_id A _ n hA hB hact ?_ i (by rw [← hA.1]; exact hi)
    rw [smat_map_invRow A G n sqG]
    exact hSG'
  exact ⟨_, inverse_eq A G hz, hB, hAB, hBA⟩

/-- inverses are unique, hence the inverse of a composition is the reversed composition of the inverses -/
theorem inverse_compose (A B A' B' X : List Pauli) (n : Nat) (hA : ValidMap A n) (hB : ValidMap B n)
    (h1 : inverse A = some A') (h2 : inverse B = some B') (h3 : inverse (compose A B) = some X) :
    List.Forall₂ PEq X (compose B' A') := by
  have hC := compose_valid A B n hA hB
  obtain ⟨A0, e1, vA', hAA', _⟩ := inverse_spec A n hA
  obtain ⟨B0, e2, vB', hBB', _⟩ := inverse_spec B n hB
  obtain ⟨X0, e3, vX, _, hXC⟩ := inverse_spec (compose A B) n hC
  rw [h1] at e1; rw [h2] at e2; rw [h3] at e3
  cases e1; cases e2; cases e3
  have lA : ∀ R ∈ A, R.g.length = n := fun R hR => (hA.2.1 R hR).1
  have lB : ∀ R ∈ B, R.g.length = n := fun R hR => (hB.2.1 R hR).1
  have lX : ∀ R ∈ X, R.g.length = n := fun R hR => (vX.2.1 R hR).1
  apply faithful X (compose B' A') n vX (compose_valid B' A' n vB' vA')
  intro P hP
  have lQ : (transform X P).g.length = n := length_transform X n vX.1 lX P
  have lAQ : (transform A (transform X P)).g.length = n := length_transform A n hA.1 lA _
  have lBAQ : (transform B (transform A (transform X P))).g.length = n := length_transform B n hB.1 lB _
  have hCX : PEq (transform (compose A B) (transform X P)) P := acts_id_of_rows X _ n vX hC hXC P hP
  have c1 := compose_acts A B n hA hB (transform X P) lQ
  have s1 : PEq (transform (compose B' A') (transform (compose A B) (transform X P))) (transform X P) :=
    (transform_congr _ c1).trans
      ((compose_acts B' A' n vB' vA' _ lBAQ).trans
        ((transform_congr A' (acts_id_of_rows B B' n hB vB' hBB' _ lAQ)).trans
          (acts_id_of_rows A A' n hA vA' hAA' _ lQ)))
  exact s1.symm.trans (transform_congr _ hCX)

end Cp
end PC
