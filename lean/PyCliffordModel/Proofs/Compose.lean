import PyCliffordModel.Proofs.Transform
import PyCliffordModel.Proofs.Z2Inv
/-! # Proofs/Compose — helper lemmas for C04 (compose / inverse of Clifford maps) -/
namespace PC

end PC
