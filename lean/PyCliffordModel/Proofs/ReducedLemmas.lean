import PyCliffordModel.Spec.Reduced
import PyCliffordModel.Properties.C12d
import PyCliffordModel.Properties.C08c
import PyCliffordModel.Properties.C08d
/-! helper lemmas for `Properties/C08e.lean`

Layout:
* §1 restriction of an operator to a region (`rs`), operators supported in the region (`sup`), the partial trace of a
  polynomial with one common coefficient (`ptrace_cpoly`);
* §2 the phase of a product splits over region and complement: restriction is multiplicative on supported operators;
* §3 lists enumerating a set of operators exactly once (`Enum`), the reduced group `InRed` and its group properties,
  left translation;
* §4 counting: the number of supported rows of `density_matrix` is `supportedCount`;
* §5 the entropy: range, and `supportedCount · 2^S = 2^|R|` in both branches;
* §6 the reduced density matrix: coefficients, trace, Hermiticity, flat spectrum, dependence on the group only.
-/
namespace PC
namespace Rd
open Ms Dn PE Ei Rank Tr

/-! ## §1 restriction -/

/-- the operator is the identity outside the region -/
def sup (m : List Bool) (R : Pauli) : Bool := !(anyBit (gather (m.map (!·)) R.g))
/-- restriction to the region -/
def rs (m : List Bool) (R : Pauli) : Pauli := ⟨gather m R.g, R.p⟩
/-- the supported operators of a list, restricted -/
def red (m : List Bool) (L : List Pauli) : List Pauli := (L.filter (sup m)).map (rs m)

theorem ptrace_cpoly (c : Cx) (L : List Pauli) (m : List Bool) :
    ptrace (cpoly c L) m = cpoly ((⟨(2 : Rat) ^ maskCount (m.map (!·)), 0⟩ : Cx).mul c) (red m L) := by
  unfold ptrace cpoly red
  simp only [List.filter_map, List.map_map]
  rfl

theorem sup_iff (m : List Bool) (R : Pauli) (n : Nat) (hm : m.length = n) (hR : R.g.length = n) :
    sup m R = true ↔ gather (m.map (!·)) R.g = idStr (maskCount (m.map (!·))) := by
  have hl : (gather (m.map (!·)) R.g).length = maskCount (m.map (!·)) :=
    length_gather_eq _ n (by rw [List.length_map, hm]) _ hR
  unfold sup
  rw [Bool.not_eq_true', anyBit_eq_false_iff, hl]

theorem sup_congr (m : List Bool) (A B : Pauli) (e : A.g = B.g) : sup m A = sup m B := by
  unfold sup; rw [e]

theorem rs_congr (m : List Bool) {A B : Pauli} (e : PEq A B) : PEq (rs m A) (rs m B) :=
  ⟨by show gather m A.g = gather m B.g; rw [e.1], e.2⟩

theorem length_rs (m : List Bool) (R : Pauli) (n : Nat) (hm : m.length = n) (hR : R.g.length = n) :
    (rs m R).g.length = maskCount m := length_gather_eq m n hm _ hR

/-! ## §2 products -/

theorem ipowSum_split : ∀ (m : List Bool) (a b : PStr), a.length ≤ m.length →
    ipowSum a b = ipowSum (gather m a) (gather m b) + ipowSum (gather (m.map (!·)) a) (gather (m.map (!·)) b)
  | [], a, b, h => by
    have : a = [] := by cases a with
      | nil => rfl
      | cons _ _ => simp at h
    subst this
    simp [ipowSum_nil_left, gather_nil_left]
  | _ :: _, [], b, _ => by simp [ipowSum_nil_left, gather_nil_right]
  | _ :: _, _ :: _, [], _ => by simp [ipowSum_nil_right, gather_nil_right]
  | true :: ms, q :: qs, r :: rs, h => by
    have ih := ipowSum_split ms qs rs (by simpa using h)
    simp only [List.map_cons, Bool.not_true, gather_cons_true, gather_cons_false, ipowSum_cons, ih]
    omega
  | false :: ms, q :: qs, r :: rs, h => by
    have ih := ipowSum_split ms qs rs (by simpa using h)
    simp only [List.map_cons, Bool.not_false, gather_cons_true, gather_cons_false, ipowSum_cons, ih]
    omega

/-- restriction is multiplicative on operators supported in the region, phases included -/
theorem mul_rs (m : List Bool) (A B : Pauli) (n : Nat) (hm : m.length = n) (hA : A.g.length = n)
    (hs : sup m A = true) : mul (rs m A) (rs m B) = rs m (mul A B) := by
  have hid := (sup_iff m A n hm hA).1 hs
  have hp : ipow (gather m A.g) (gather m B.g) = ipow A.g B.g := by
    unfold ipow
    rw [ipowSum_split m A.g B.g (by rw [hA, hm]), hid, ipowSum_idStr_left, Int.add_zero]
  unfold rs mul
  simp only [gather_xorS, hp]

theorem sup_mul (m : List Bool) (A B : Pauli) (n : Nat) (hm : m.length = n) (hA : A.g.length = n) (hB : B.g.length = n)
    (ha : sup m A = true) (hb : sup m B = true) : sup m (mul A B) = true := by
  have h1 := (sup_iff m A n hm hA).1 ha
  have h2 := (sup_iff m B n hm hB).1 hb
  rw [sup_iff m _ n hm (by rw [length_mul _ _ (hA.trans hB.symm)]; exact hA), mul_g, gather_xorS, h1, h2]
  have := xorS_self (idStr (maskCount (m.map (!·))))
  rw [length_idStr] at this
  exact this

/-! ## §3 enumerations -/

/-- `L` lists every operator of the set `S` exactly once (up to the representation of phases) -/
def Enum (S : Pauli → Prop) (L : List Pauli) : Prop :=
  (L.map (·.g)).Nodup ∧ (∀ R ∈ L, S R) ∧ (∀ P : Pauli, S P → ∃ R ∈ L, PEq R P)

theorem enum_of_complete (st : State) (L : List Pauli) (h : Complete st L) : Enum (InGroup st) L := h

theorem enum_gcoef_in (S : Pauli → Prop) (L : List Pauli) (hL : Enum S L) (P : Pauli) (hP : S P) :
    gcoef L P.g = Cx.ipow P.p := by
  obtain ⟨R, hR, e⟩ := hL.2.2 P hP
  rw [← e.1, gcoef_of_mem L hL.1 R hR]
  exact Cx.ipow_congr e.2

theorem enum_gcoef_out (S : Pauli → Prop) (L : List Pauli) (hL : Enum S L) (g : PStr)
    (hg : ∀ P : Pauli, S P → P.g ≠ g) : gcoef L g = Cx.zero :=
  gcoef_of_not_mem L g fun R hR => hg R (hL.2.1 R hR)

/-- two enumerations of the same set denote the same operator -/
theorem enum_gcoef_eq (S : Pauli → Prop) (L M : List Pauli) (hL : Enum S L) (hM : Enum S M) (g : PStr) :
    gcoef L g = gcoef M g := by
  by_cases hex : ∃ P : Pauli, S P ∧ P.g = g
  · obtain ⟨P, hP, rfl⟩ := hex
    rw [enum_gcoef_in S L hL P hP, enum_gcoef_in S M hM P hP]
  · have hg : ∀ P : Pauli, S P → P.g ≠ g := fun P hP e => hex ⟨P, hP, e⟩
    rw [enum_gcoef_out S L hL g hg, enum_gcoef_out S M hM g hg]

theorem enum_congr (S T : Pauli → Prop) (L : List Pauli) (hST : ∀ P, S P ↔ T P) (hL : Enum S L) : Enum T L :=
  ⟨hL.1, fun R hR => (hST R).1 (hL.2.1 R hR), fun P hP => hL.2.2 P ((hST P).2 hP)⟩

/-- the stabilizer-group elements supported in the region, restricted to it -/
def InRed (st : State) (m : List Bool) (P : Pauli) : Prop :=
  ∃ Q : Pauli, InGroup st Q ∧ sup m Q = true ∧ PEq (rs m Q) P

theorem inRed_congr {st : State} {m : List Bool} {P P' : Pauli} (h : InRed st m P) (e : PEq P P') : InRed st m P' := by
  obtain ⟨Q, h1, h2, h3⟩ := h
  exact ⟨Q, h1, h2, h3.trans e⟩

theorem inRed_length (st : State) (n : Nat) (m : List Bool) (h : TabInv st n) (hm : m.length = n) {P : Pauli}
    (hP : InRed st m P) : P.g.length = maskCount m := by
  obtain ⟨Q, h1, _, h3⟩ := hP
  rw [← h3.1]; exact length_rs m Q n hm (inGroup_length st n h h1)

theorem inRed_even (st : State) (n : Nat) (m : List Bool) (h : TabInv st n) {P : Pauli} (hP : InRed st m P) :
    P.p % 2 = 0 := by
  obtain ⟨Q, h1, _, h3⟩ := hP
  have := inGroup_even st n h h1
  have e : Q.p % 4 = P.p % 4 := h3.2
  omega

theorem inRed_one (st : State) (n : Nat) (m : List Bool) (h : TabInv st n) (hm : m.length = n) :
    InRed st m ⟨idStr (maskCount m), 0⟩ := by
  refine ⟨⟨idStr n, 0⟩, inGroup_one st n h, ?_, ?_⟩
  · rw [sup_iff m _ n hm (length_idStr n)]
    exact gather_idStr _ n (by rw [List.length_map, hm])
  · exact ⟨gather_idStr m n (by rw [hm]), rfl⟩

theorem inRed_mul (st : State) (n : Nat) (m : List Bool) (h : TabInv st n) (hm : m.length = n) {A B : Pauli}
    (hA : InRed st m A) (hB : InRed st m B) : InRed st m (mul A B) := by
  obtain ⟨Q, q1, q2, q3⟩ := hA
  obtain ⟨R, r1, r2, r3⟩ := hB
  have hQ := inGroup_length st n h q1
  have hR := inGroup_length st n h r1
  refine ⟨mul Q R, inGroup_mul h q1 r1, sup_mul m Q R n hm hQ hR q2 r2, ?_⟩
  rw [← mul_rs m Q R n hm hQ q2]
  exact (mul_congr_left q3 _).trans (Ms.mul_congr_right A r3)

/-- the restricted supported rows of an enumeration of the group enumerate the reduced group -/
theorem red_enum (st : State) (n : Nat) (m : List Bool) (h : TabInv st n) (hm : m.length = n) (L : List Pauli)
    (hL : Complete st L) : Enum (InRed st m) (red m L) := by
  refine ⟨?_, ?_, ?_⟩
  · unfold red
    refine nodup_map_on (L.filter (sup m)) (rs m) ((List.filter_sublist.map _).nodup hL.1) ?_
    intro a ha b hb e
    obtain ⟨ha1, ha2⟩ := List.mem_filter.1 ha
    obtain ⟨hb1, hb2⟩ := List.mem_filter.1 hb
    have hla := inGroup_length st n h (hL.2.1 a ha1)
    have hlb := inGroup_length st n h (hL.2.1 b hb1)
    apply eq_of_gather_eq m a.g b.g (hla.trans hm.symm) (hlb.trans hm.symm) e
    rw [(sup_iff m a n hm hla).1 ha2, (sup_iff m b n hm hlb).1 hb2]
  · intro R hR
    obtain ⟨Q, hQ, rfl⟩ := List.mem_map.1 hR
    obtain ⟨hQ1, hQ2⟩ := List.mem_filter.1 hQ
    exact ⟨Q, hL.2.1 Q hQ1, hQ2, PEq.refl _⟩
  · intro P ⟨Q, q1, q2, q3⟩
    obtain ⟨R, hR, e⟩ := hL.2.2 Q q1
    refine ⟨rs m R, List.mem_map.2 ⟨R, List.mem_filter.2 ⟨hR, ?_⟩, rfl⟩, (rs_congr m e).trans q3⟩
    rw [sup_congr m R Q e.1]; exact q2

/-- left translation by an element of the reduced group permutes it -/
theorem enum_mul_left (st : State) (n : Nat) (m : List Bool) (h : TabInv st n) (hm : m.length = n) (L : List Pauli)
    (hL : Enum (InRed st m) L) (R : Pauli) (hR : InRed st m R) : Enum (InRed st m) (L.map (mul R)) := by
  have hlR := inRed_length st n m h hm hR
  refine ⟨?_, ?_, ?_⟩
  · refine nodup_map_on L (mul R) hL.1 ?_
    intro a ha b hb e
    have hla := inRed_length st n m h hm (hL.2.1 a ha)
    have hlb := inRed_length st n m h hm (hL.2.1 b hb)
    simp only [mul_g] at e
    rw [← xorS_cancel_left R.g a.g (hlR.trans hla.symm), e, xorS_cancel_left R.g b.g (hlR.trans hlb.symm)]
  · intro Q hQ
    obtain ⟨R', hR', rfl⟩ := List.mem_map.1 hQ
    exact inRed_mul st n m h hm hR (hL.2.1 R' hR')
  · intro P hP
    obtain ⟨R', hR', e⟩ := hL.2.2 (mul R P) (inRed_mul st n m h hm hR hP)
    refine ⟨mul R R', List.mem_map.2 ⟨R', hR', rfl⟩, ?_⟩
    exact (Ms.mul_congr_right R e).trans
      (mul_mul_cancel R P (inRed_even st n m h hR) (hlR.trans (inRed_length st n m h hm hP).symm))

/-! ## §4 counting the supported rows -/

/-- the number of rows of `density_matrix` supported in the region is `supportedCount` of the active strings -/
theorem length_red_rows (st : State) (n : Nat) (m : List Bool) (h : TabInv st n) (hm : m.length = n) :
    (red m (densityRows st)).length = supportedCount (gsOf st) m := by
  have hN := St.tabInv_N st n h
  have hl := St.active_rows_length st n h
  have hlen := length_gsOf st n h
  unfold red densityRows combineRows
  rw [List.length_map, List.filter_map, List.length_map, hN, ← hlen]
  show cnt (gsOf st).length (sup m ∘ fun c => combine n c st.active) = _
  rw [cnt_eq_card, supportedCount_card _ n m hm (gsOf_lengths st n h)]
  apply Nat.card_congr
  apply Equiv.subtypeEquivRight
  intro c
  have e := toVec_combine_ofV n st.active (gsOf st) rfl hl c
  rw [← e, fromVec_toVec n _ (length_combine n _ _ hl)]
  exact sup_iff m _ n hm (length_combine n _ _ hl)

/-! ## §5 the entropy -/

theorem vecMat_cons_false (c row : List Bool) (A : BMat) (nc : Nat) :
    vecMat (false :: c) (row :: A) nc = vecMat c A nc := by
  unfold vecMat
  apply List.map_congr_left
  intro j _
  simp [colB, dotB]

theorem kernelCount_cons_le (row : List Bool) (A : BMat) (nc : Nat) : kernelCount A nc ≤ kernelCount (row :: A) nc := by
  unfold kernelCount
  rw [List.length_cons, allBits, List.filter_append, List.length_append, List.filter_map, List.length_map]
  have e : ((fun c => isZeroVec (vecMat c (row :: A) nc)) ∘ fun x => false :: x)
      = fun c => isZeroVec (vecMat c A nc) := by
    funext c; simp only [Function.comp, vecMat_cons_false]
  rw [e]; exact Nat.le_add_right _ _

theorem kernelCount_drop_le (A : BMat) (k nc : Nat) : kernelCount (A.drop k) nc ≤ kernelCount A nc := by
  induction A generalizing k with
  | nil => simp
  | cons row A ih =>
    cases k with
    | zero => simp
    | succ k => rw [List.drop_succ_cons]; exact Nat.le_trans (ih k) (kernelCount_cons_le row A nc)

theorem supportedCount_drop_le (gs : List PStr) (k : Nat) (m : List Bool) :
    supportedCount (gs.drop k) m ≤ supportedCount gs m := by
  unfold supportedCount
  simp only [List.map_drop]
  exact kernelCount_drop_le _ _ _

/-- the pure tableau whose stabilizers are the first `N` rows (all phases reset) -/
def pureExt (st : State) : State := ⟨st.rows.map fun R => ⟨R.g, 0⟩, 0⟩

theorem tabInv_pureExt (st : State) (n : Nat) (h : TabInv st n) : TabInv (pureExt st) n := by
  obtain ⟨hl, hr, hg, _⟩ := (tabInv_iff st n).1 h
  unfold pureExt
  rw [tabInv_iff]
  refine ⟨by simpa using hl, Nat.zero_le _, GramF.congr hg (fun k hk => ?_), fun i _ hi => ?_⟩
  · unfold gAt; simp only; rw [rowAt_map _ _ k (by omega)]
  · simp only; rw [rowAt_map _ _ i (by omega)]; rfl

theorem gsOf_eq_drop (st : State) : gsOf st = (gsOf (pureExt st)).drop st.r := by
  unfold gsOf pureExt State.active State.N
  simp [List.map_drop, List.map_take]
  rfl

/-- at most `2^|R|` group elements are supported in a region -/
theorem supportedCount_le (st : State) (n : Nat) (m : List Bool) (h : TabInv st n) (hm : m.length = n) :
    supportedCount (gsOf st) m ≤ 2 ^ maskCount m := by
  have hp := tabInv_pureExt st n h
  have hlen : (gsOf (pureExt st)).length = n := by rw [length_gsOf _ n hp]; rfl
  obtain ⟨_, h2⟩ := PE.entropy_pure (gsOf (pureExt st)) n m hlen (gsOf_lengths _ n hp) (gsOf_commute _ n hp)
    (gsOf_indep _ n hp) hm
  rw [gsOf_eq_drop, ← h2]
  exact Nat.le_trans (supportedCount_drop_le _ _ _) (Nat.le_mul_of_pos_right _ (Nat.pow_pos (by decide)))

/-- both branches: the entropy is in `[0, |R|]` and `#supported · 2^S = 2^|R|` -/
theorem entropy_facts (st : State) (n : Nat) (m : List Bool) (h : TabInv st n) (hm : m.length = n) (hne : m ≠ []) :
    0 ≤ entropyMask st m ∧ entropyMask st m ≤ (maskCount m : Int) ∧
    supportedCount (gsOf st) m * 2 ^ (entropyMask st m).toNat = 2 ^ maskCount m := by
  have he : m.isEmpty = false := by cases m with
    | nil => exact absurd rfl hne
    | cons _ _ => rfl
  rw [entropyMask_eq st n h m, he]
  simp only [Bool.false_eq_true, if_false]
  by_cases hr : (gsOf st).length = n
  · obtain ⟨h1, h2⟩ := PE.entropy_pure (gsOf st) n m hr (gsOf_lengths st n h) (gsOf_commute st n h) (gsOf_indep st n h) hm
    refine ⟨h1, ?_, h2⟩
    have hpos : 0 < supportedCount (gsOf st) m := by
      rcases Nat.eq_zero_or_pos (supportedCount (gsOf st) m) with h0 | h0
      · rw [h0, Nat.zero_mul] at h2
        exact absurd h2.symm (Nat.pos_iff_ne_zero.mp (Nat.pow_pos (by decide)))
      · exact h0
    have hle : 2 ^ (entropy (gsOf st) n m).toNat ≤ 2 ^ maskCount m := by
      rw [← h2]; exact Nat.le_mul_of_pos_left _ hpos
    have := (Nat.pow_le_pow_iff_right (by decide : 1 < 2)).1 hle
    omega
  · obtain ⟨h1, h2⟩ := C08_entropy_mixed (gsOf st) n m hr (gsOf_lengths st n h) hm
    have hle := supportedCount_le st n m h hm
    rw [h1] at hle
    have h3 := (Nat.pow_le_pow_iff_right (by decide : 1 < 2)).1 hle
    refine ⟨by omega, h2, ?_⟩
    rw [h1, ← Nat.pow_add]
    congr 1
    omega

/-! ## §6 the reduced density matrix -/

theorem scale_red (j k n : Nat) (hjk : j + k = n) :
    (⟨(2 : Rat) ^ k, 0⟩ : Cx).mul ⟨1 / (2 : Rat) ^ n, 0⟩ = ⟨1 / (2 : Rat) ^ j, 0⟩ := by
  subst hjk
  have h1 := two_pow_ne j
  have h2 := two_pow_ne k
  rw [Lean.Grind.Semiring.pow_add]
  apply Cx.ext' <;> simp only [Cx.mul] <;> grind

/-- `ρ_R = 2^{-|R|} Σ_{g ∈ S_R} g|_R` -/
theorem ptrace_density_eq (st : State) (n : Nat) (m : List Bool) (h : TabInv st n) (hm : m.length = n) :
    ptrace (densityPoly st) m = cpoly ⟨1 / (2 : Rat) ^ maskCount m, 0⟩ (red m (densityRows st)) := by
  rw [densityPoly_eq, ptrace_cpoly, dscale_eq st n h, scale_red _ _ n (by rw [maskCount_add_compl, hm])]

theorem coef_reduced (st : State) (n : Nat) (m : List Bool) (g : PStr) (h : TabInv st n) (hm : m.length = n) :
    coef (ptrace (densityPoly st) m) g
      = (⟨1 / (2 : Rat) ^ maskCount m, 0⟩ : Cx).mul (gcoef (red m (densityRows st)) g) := by
  rw [ptrace_density_eq st n m h hm, coef_cpoly]

theorem rows_enum (st : State) (n : Nat) (m : List Bool) (h : TabInv st n) (hm : m.length = n) :
    Enum (InRed st m) (red m (densityRows st)) :=
  red_enum st n m h hm _ (complete_rows st n h)

theorem reduced_trace_one (st : State) (n : Nat) (m : List Bool) (h : TabInv st n) (hm : m.length = n) :
    coef (ptrace (densityPoly st) m) (idStr (maskCount m)) = ⟨1 / (2 : Rat) ^ maskCount m, 0⟩ := by
  rw [coef_reduced st n m _ h hm]
  have := enum_gcoef_in _ _ (rows_enum st n m h hm) ⟨idStr (maskCount m), 0⟩ (inRed_one st n m h hm)
  simp only at this
  rw [this, Cx.ipow_zero, Cx.mul_one]

theorem reduced_hermitian (st : State) (n : Nat) (m : List Bool) (g : PStr) (h : TabInv st n) (hm : m.length = n) :
    (coef (ptrace (densityPoly st) m) g).im = 0 := by
  rw [coef_reduced st n m g h hm, real_mul]
  by_cases hex : ∃ P : Pauli, InRed st m P ∧ P.g = g
  · obtain ⟨P, hP, rfl⟩ := hex
    rw [enum_gcoef_in _ _ (rows_enum st n m h hm) P hP, ipow_even_im P.p (inRed_even st n m h hP)]
    exact Rat.mul_zero _
  · rw [enum_gcoef_out _ _ (rows_enum st n m h hm) g (fun P hP e => hex ⟨P, hP, e⟩)]
    exact Rat.mul_zero _

/-- the counting identity of `ρ_R·ρ_R = 2^{-S} ρ_R`: `K` pairs of weight `2^{-|R|}·2^{-|R|}` with `K·2^S = 2^|R|` -/
theorem count_scale_red (K S j : Nat) (hK : K * 2 ^ S = 2 ^ j) (v : Cx) :
    (⟨(K : Rat), 0⟩ : Cx).mul (((⟨1 / (2 : Rat) ^ j, 0⟩ : Cx).mul ⟨1 / (2 : Rat) ^ j, 0⟩).mul v)
      = (⟨1 / (2 : Rat) ^ S, 0⟩ : Cx).mul ((⟨1 / (2 : Rat) ^ j, 0⟩ : Cx).mul v) := by
  have h1 := two_pow_ne j
  have h2 := two_pow_ne S
  have hK' : (K : Rat) * 2 ^ S = 2 ^ j := by exact_mod_cast hK
  generalize (2 : Rat) ^ j = a at *
  generalize (2 : Rat) ^ S = b at *
  generalize (K : Rat) = k at *
  apply Cx.ext' <;> simp only [Cx.mul] <;> grind

theorem reduced_flat (st : State) (n : Nat) (m : List Bool) (g : PStr) (h : TabInv st n) (hm : m.length = n)
    (hne : m ≠ []) :
    coef (polyMatmul (ptrace (densityPoly st) m) (ptrace (densityPoly st) m)) g
      = (⟨1 / (2 : Rat) ^ (entropyMask st m).toNat, 0⟩ : Cx).mul (coef (ptrace (densityPoly st) m) g) := by
  have hE := rows_enum st n m h hm
  have hv : ∀ x ∈ ptrace (densityPoly st) m,
      coef ((ptrace (densityPoly st) m).map fun y => (mul x.1 y.1, x.2.mul y.2)) g
      = ((⟨1 / (2 : Rat) ^ maskCount m, 0⟩ : Cx).mul ⟨1 / (2 : Rat) ^ maskCount m, 0⟩).mul
          (gcoef (red m (densityRows st)) g) := by
    intro x hx
    rw [ptrace_density_eq st n m h hm] at hx ⊢
    obtain ⟨R, hR, rfl⟩ := List.mem_map.1 hx
    rw [map_mul_cpoly, coef_cpoly, enum_gcoef_eq _ _ _ (enum_mul_left st n m h hm _ hE R (hE.2.1 R hR)) hE g]
  rw [coef_matmul_const _ _ g _ hv, coef_reduced st n m g h hm]
  have hl : (ptrace (densityPoly st) m).length = supportedCount (gsOf st) m := by
    rw [ptrace_density_eq st n m h hm]; unfold cpoly; rw [List.length_map, length_red_rows st n m h hm]
  rw [hl]
  exact count_scale_red _ _ _ (entropy_facts st n m h hm hne).2.2 _

theorem inRed_group (st1 st2 : State) (m : List Bool) (hG : ∀ P, InGroup st1 P ↔ InGroup st2 P) (P : Pauli) :
    InRed st1 m P ↔ InRed st2 m P :=
  ⟨fun ⟨Q, a, b, c⟩ => ⟨Q, (hG Q).1 a, b, c⟩, fun ⟨Q, a, b, c⟩ => ⟨Q, (hG Q).2 a, b, c⟩⟩

theorem reduced_group_only (st1 st2 : State) (n : Nat) (m : List Bool) (g : PStr) (h1 : TabInv st1 n) (h2 : TabInv st2 n)
    (hm : m.length = n) (hG : ∀ P, InGroup st1 P ↔ InGroup st2 P) :
    coef (ptrace (densityPoly st1) m) g = coef (ptrace (densityPoly st2) m) g := by
  rw [coef_reduced st1 n m g h1 hm, coef_reduced st2 n m g h2 hm,
    enum_gcoef_eq _ _ _ (rows_enum st1 n m h1 hm)
      (enum_congr _ _ _ (fun P => (inRed_group st1 st2 m hG P).symm) (rows_enum st2 n m h2 hm)) g]

end Rd
end PC
