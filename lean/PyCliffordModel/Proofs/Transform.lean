import Mathlib.Algebra.Group.Commute.Defs
import Mathlib.Algebra.Group.Basic
import Mathlib.Algebra.BigOperators.Group.List.Basic
import PyCliffordModel.Proofs.Rotate
/-! # Proofs/Transform — helper lemmas for C03 (combine/transform as a homomorphism)

Part 1 (`PCHom`): ordered block products in an abstract monoid with a central involution (regrouping lemma).
Part 2 (`PC.Tr`): the normalized `n`-qubit Pauli operators form such a monoid; bridge to `combineAux`/`transform`;
masks (`gather`/`scatter`/`embed`); rotation maps. Everything specific to C03 lives in `PC.Tr` to avoid name clashes.
-/

/-! ## abstract part -/
namespace PCHom
open PC (Q PStr xorQ xorS zxSum b2i)
variable {M : Type} [Monoid M]

def blk (ab : M × M) (xz : Q) : M := (if xz.1 then ab.1 else 1) * (if xz.2 then ab.2 else 1)

def prodB : List (M × M) → PStr → M
  | ab :: r, c :: cs => blk ab c * prodB r cs
  | _, _ => 1

/-- number of sign flips: Σ z_m ∧ x'_m -/
def flips : PStr → PStr → Nat
  | c :: cs, d :: ds => (if c.2 && d.1 then 1 else 0) + flips cs ds
  | _, _ => 0

structure Good (e : M) (ab : M × M) : Prop where
  a2 : ab.1 * ab.1 = 1
  b2 : ab.2 * ab.2 = 1
  anti : ab.2 * ab.1 = e * (ab.1 * ab.2)

theorem blk_mul (e : M) (hc : ∀ m : M, Commute e m) (ab : M × M) (g : Good e ab)
    (c d : Q) :
    blk ab c * blk ab d = (if c.2 && d.1 then e else 1) * blk ab (xorQ c d) := by
  obtain ⟨a, b⟩ := ab
  obtain ⟨x, z⟩ := c
  obtain ⟨x', z'⟩ := d
  have a2 : a * a = 1 := g.a2
  have b2 : b * b = 1 := g.b2
  have anti : b * a = e * (a * b) := g.anti
  have hea : e * a = a * e := (hc a).eq
  have hba_b : b * (a * b) = e * a := by
    rw [← mul_assoc, anti, mul_assoc, mul_assoc, b2, mul_one]
  have haab : a * (a * b) = b := by rw [← mul_assoc, a2, one_mul]
  cases x <;> cases z <;> cases x' <;> cases z' <;> simp [blk, xorQ, a2, b2, anti, mul_assoc]
  · exact hba_b
  · exact haab
  · rw [← mul_assoc, ← hea, mul_assoc, haab]
  · rw [hba_b, ← mul_assoc, ← hea, mul_assoc, a2, mul_one]

def CrossComm (ab : M × M) (r : List (M × M)) : Prop :=
  ∀ cd ∈ r, Commute ab.1 cd.1 ∧ Commute ab.1 cd.2 ∧ Commute ab.2 cd.1 ∧ Commute ab.2 cd.2

inductive GoodL (e : M) : List (M × M) → Prop
  | nil : GoodL e []
  | cons {ab r} : Good e ab → CrossComm ab r → GoodL e r → GoodL e (ab :: r)

theorem blk_comm_prodB (ab : M × M) (r : List (M × M)) (h : CrossComm ab r) (c : Q)
    (cs : PStr) : Commute (blk ab c) (prodB r cs) := by
  induction r generalizing cs with
  | nil => cases cs <;> simp [prodB]
  | cons cd r ih =>
    cases cs with
    | nil => simp [prodB]
    | cons d ds =>
      have h1 := h cd (by simp)
      have h' : CrossComm ab r := fun x hx => h x (by simp [hx])
      have hb : Commute (blk ab c) (blk cd d) := by
        obtain ⟨x, z⟩ := c; obtain ⟨x', z'⟩ := d
        cases x <;> cases z <;> cases x' <;> cases z' <;>
          simp [blk, h1.1, h1.2.1, h1.2.2.1, h1.2.2.2, Commute.mul_left, Commute.mul_right]
      exact hb.mul_right (ih h' ds)

theorem prodB_mul (e : M) (hc : ∀ m : M, Commute e m) (r : List (M × M))
    (g : GoodL e r) (cs ds : PStr) (hl : cs.length = r.length) (hl2 : ds.length = r.length) :
    prodB r cs * prodB r ds = e ^ flips cs ds * prodB r (xorS cs ds) := by
  induction g generalizing cs ds with
  | nil =>
    have h1 : cs = [] := by simpa using hl
    have h2 : ds = [] := by simpa using hl2
    subst h1 h2; simp [prodB, flips]
  | @cons ab r hg hx _ ih =>
    cases cs with
    | nil => simp at hl
    | cons c cs =>
      cases ds with
      | nil => simp at hl2
      | cons d ds =>
        have hl' : cs.length = r.length := by simpa using hl
        have hl2' : ds.length = r.length := by simpa using hl2
        have hcomm := blk_comm_prodB ab r hx d cs
        simp only [prodB, flips, xorS]
        calc blk ab c * prodB r cs * (blk ab d * prodB r ds)
            = blk ab c * (prodB r cs * blk ab d) * prodB r ds := by simp [mul_assoc]
          _ = blk ab c * (blk ab d * prodB r cs) * prodB r ds := by rw [hcomm.eq]
          _ = (blk ab c * blk ab d) * (prodB r cs * prodB r ds) := by simp [mul_assoc]
          _ = ((if c.2 && d.1 then e else 1) * blk ab (xorQ c d)) * (e ^ flips cs ds * prodB r (xorS cs ds)) := by
                rw [blk_mul e hc ab hg, ih cs ds hl' hl2']
          _ = e ^ ((if c.2 && d.1 then 1 else 0) + flips cs ds) * (blk ab (xorQ c d) * prodB r (xorS cs ds)) := by
                have hcp := (hc (blk ab (xorQ c d))).pow_left (flips cs ds)
                split <;> simp [pow_add, mul_assoc]
                all_goals
                  rw [← mul_assoc (blk ab (xorQ c d)), ← hcp.eq, mul_assoc]

theorem flips_eq_zxSum (cs ds : PStr) : (flips cs ds : Int) = zxSum cs ds := by
  induction cs generalizing ds with
  | nil => simp [flips, zxSum]
  | cons c cs ih =>
    cases ds with
    | nil => simp [flips, zxSum]
    | cons d ds =>
      obtain ⟨x, z⟩ := c; obtain ⟨x', z'⟩ := d
      simp only [flips, zxSum, Int.natCast_add, ih]
      cases z <;> cases x' <;> simp [b2i]

end PCHom

/-! ## the concrete monoid -/
namespace PC
namespace Tr

/-- normalized `n`-qubit operators: a genuine monoid under `mul` -/
def NP (n : Nat) : Type := {P : Pauli // P.g.length = n ∧ P.p % 4 = P.p}

theorem pauli_ext {a b : Pauli} (hg : a.g = b.g) (hp : a.p = b.p) : a = b := by
  cases a; cases b; simp at hg hp; simp [hg, hp]

theorem NP.ext {n : Nat} {a b : NP n} (h : a.1 = b.1) : a = b := Subtype.ext h

instance (n : Nat) : Monoid (NP n) where
  mul a b := ⟨PC.mul a.1 b.1, by rw [length_mul _ _ (a.2.1.trans b.2.1.symm)]; exact a.2.1, by rw [mul_p]; omega⟩
  one := ⟨⟨idStr n, 0⟩, length_idStr n, rfl⟩
  mul_assoc a b c := Subtype.ext (PC.mul_assoc a.1 b.1 c.1 (a.2.1.trans b.2.1.symm) (b.2.1.trans c.2.1.symm))
  one_mul a := by
    apply Subtype.ext
    show PC.mul ⟨idStr n, 0⟩ a.1 = a.1
    have h := PC.mul_one_left a.1
    rw [a.2.1, a.2.2] at h
    exact h
  mul_one a := by
    apply Subtype.ext
    show PC.mul a.1 ⟨idStr n, 0⟩ = a.1
    have h := PC.mul_one_right a.1
    rw [a.2.1, a.2.2] at h
    exact h

theorem NP.mul_val {n : Nat} (a b : NP n) : (a * b).1 = PC.mul a.1 b.1 := rfl
theorem NP.one_val {n : Nat} : (1 : NP n).1 = ⟨idStr n, 0⟩ := rfl

/-- `-1` -/
def NP.e (n : Nat) : NP n := ⟨⟨idStr n, 2⟩, length_idStr n, rfl⟩

theorem NP.e_comm {n : Nat} (m : NP n) : Commute (NP.e n) m := by
  apply Subtype.ext
  show PC.mul ⟨idStr n, 2⟩ m.1 = PC.mul m.1 ⟨idStr n, 2⟩
  have h := mul_comm_acq ⟨idStr n, 2⟩ m.1
  have h0 : acq (idStr n) m.1.g = 0 := acq_idStr_left _ _
  have hr := mul_p_range m.1 ⟨idStr n, 2⟩
  apply pauli_ext h.1
  rw [h.2, h0]; omega

theorem NP.e_pow_val {n : Nat} (k : Nat) : ((NP.e n) ^ k).1 = ⟨idStr n, (2 * (k : Int)) % 4⟩ := by
  induction k with
  | zero => rfl
  | succ k ih =>
    rw [pow_succ, NP.mul_val, ih]
    have h1 : xorS (idStr n) (idStr n) = idStr n := by
      have := xorS_self (idStr n); rwa [length_idStr] at this
    have h2 : ipow (idStr n) (idStr n) = 0 := ipow_idStr_left _ _
    apply pauli_ext
    · exact h1
    · show ((2 * (k : Int)) % 4 + 2 + ipow (idStr n) (idStr n)) % 4 = _
      rw [h2]; push_cast; omega

/-- project an operator to a normalized one (junk `1` when the length is wrong) -/
def toNP (n : Nat) (R : Pauli) : NP n :=
  if h : R.g.length = n then ⟨⟨R.g, R.p % 4⟩, h, by show R.p % 4 % 4 = R.p % 4; omega⟩ else 1

theorem toNP_val {n : Nat} (R : Pauli) (h : R.g.length = n) : (toNP n R).1 = ⟨R.g, R.p % 4⟩ := by
  simp [toNP, h]

/-! ## bridge: `combineAux` is an ordered block product -/
open PCHom

def toPairs (n : Nat) : List Pauli → List (NP n × NP n)
  | a :: b :: rest => (toNP n a, toNP n b) :: toPairs n rest
  | _ => []

theorem length_toPairs (n : Nat) : ∀ (M : List Pauli) (k : Nat), M.length = 2 * k → (toPairs n M).length = k
  | [], k, h => by simp at h; simp [toPairs]; omega
  | [a], k, h => by simp at h; omega
  | a :: b :: rest, k, h => by
    have := length_toPairs n rest (k - 1) (by simp at h; omega)
    simp [toPairs, this]; simp at h; omega

theorem mul_toNP {n : Nat} (acc : NP n) (a : Pauli) (h : a.g.length = n) : (acc * toNP n a).1 = mul acc.1 a := by
  rw [NP.mul_val, toNP_val a h]
  apply pauli_ext
  · rfl
  show (acc.1.p + a.p % 4 + ipow acc.1.g a.g) % 4 = (acc.1.p + a.p + ipow acc.1.g a.g) % 4
  omega

theorem flat_cons (q : Q) (qs : PStr) : flat (q :: qs) = q.1 :: q.2 :: flat qs := rfl

/-- fold vs. product: the left fold of `pauli_combine` is the accumulator times the ordered block product -/
theorem combineAux_eq_prodB (n : Nat) : ∀ (M : List Pauli) (k : Nat), M.length = 2 * k →
    (∀ R ∈ M, R.g.length = n) → ∀ (g : PStr) (acc : NP n),
    combineAux (flat g) M acc.1 = (acc * prodB (toPairs n M) g).1
  | [], k, _, _, g, acc => by
    cases g <;> simp [flat, combineAux, toPairs, prodB]
  | [a], k, h, _, g, acc => by simp at h; omega
  | a :: b :: rest, k, h, hl, g, acc => by
    cases g with
    | nil => simp [flat, combineAux, toPairs, prodB]
    | cons q gs =>
      obtain ⟨x, z⟩ := q
      have ha : a.g.length = n := hl a (by simp)
      have hb : b.g.length = n := hl b (by simp)
      have ih := combineAux_eq_prodB n rest (k - 1) (by simp at h; omega)
        (fun R hR => hl R (by simp [hR])) gs
      simp only [flat_cons, combineAux, toPairs, prodB]
      rw [← _root_.mul_assoc]
      rw [← ih]
      congr 1
      cases x <;> cases z <;> simp [blk, mul_toNP, ha, hb]
      rw [← _root_.mul_assoc, mul_toNP _ b hb, mul_toNP _ a ha]

/-! ## a valid map gives a good list of blocks -/

/-- the canonical commutation relations of the rows of a map (index form, as in `ValidMap`) -/
def Sympl (M : List Pauli) : Prop := ∀ i j, i < M.length → j < M.length →
    acq (rowAt M i).g (rowAt M j).g = if i / 2 = j / 2 ∧ i ≠ j then 1 else 0

theorem rowAt_cons_succ (a : Pauli) (M : List Pauli) (i : Nat) : rowAt (a :: M) (i + 1) = rowAt M i := by
  simp [rowAt]
theorem rowAt_cons_zero (a : Pauli) (M : List Pauli) : rowAt (a :: M) 0 = a := by
  simp [rowAt]
theorem rowAt_of_lt (M : List Pauli) (i : Nat) (h : i < M.length) : rowAt M i = M[i] := by
  simp [rowAt, h]
theorem rowAt_mem (M : List Pauli) (i : Nat) (h : i < M.length) : rowAt M i ∈ M := by
  rw [rowAt_of_lt M i h]; exact List.getElem_mem h

theorem Sympl_tail (a b : Pauli) (rest : List Pauli) (h : Sympl (a :: b :: rest)) : Sympl rest := by
  intro i j hi hj
  have := h (i + 2) (j + 2) (by simp; omega) (by simp; omega)
  rw [rowAt_cons_succ, rowAt_cons_succ, rowAt_cons_succ, rowAt_cons_succ] at this
  rw [this]
  have e1 : (i + 2) / 2 = i / 2 + 1 := by omega
  have e2 : (j + 2) / 2 = j / 2 + 1 := by omega
  simp [e1, e2]

theorem Sympl_head (a b : Pauli) (rest : List Pauli) (h : Sympl (a :: b :: rest)) :
    acq a.g b.g = 1 ∧ ∀ c ∈ rest, acq a.g c.g = 0 ∧ acq b.g c.g = 0 := by
  refine ⟨?_, ?_⟩
  · have := h 0 1 (by simp) (by simp)
    simpa [rowAt_cons_succ, rowAt_cons_zero] using this
  · intro c hc
    obtain ⟨i, hi, rfl⟩ := List.getElem_of_mem hc
    have h0 := h 0 (i + 2) (by simp) (by simp; omega)
    have h1 := h 1 (i + 2) (by simp) (by simp; omega)
    rw [rowAt_cons_succ, rowAt_cons_succ, rowAt_cons_zero, rowAt_of_lt rest i hi] at h0
    rw [rowAt_cons_succ, rowAt_cons_succ, rowAt_cons_succ, rowAt_cons_zero, rowAt_of_lt rest i hi] at h1
    simp at h0
    simp at h1
    exact ⟨h0, h1⟩

theorem NP.e_mul_val {n : Nat} (X : NP n) : (NP.e n * X).1 = ⟨X.1.g, (X.1.p + 2) % 4⟩ := by
  rw [NP.mul_val]
  apply pauli_ext
  · show xorS (idStr n) X.1.g = X.1.g
    have := xorS_idStr_left X.1.g; rwa [X.2.1] at this
  · show (2 + X.1.p + ipow (idStr n) X.1.g) % 4 = (X.1.p + 2) % 4
    rw [ipow_idStr_left]; omega

theorem toNP_commute {n : Nat} (a c : Pauli) (ha : a.g.length = n) (hc : c.g.length = n)
    (h : acq a.g c.g = 0) : Commute (toNP n a) (toNP n c) := by
  apply Subtype.ext
  show PC.mul (toNP n a).1 (toNP n c).1 = PC.mul (toNP n c).1 (toNP n a).1
  rw [toNP_val a ha, toNP_val c hc]
  have hm := mul_comm_acq ⟨a.g, a.p % 4⟩ ⟨c.g, c.p % 4⟩
  have hr := mul_p_range ⟨c.g, c.p % 4⟩ ⟨a.g, a.p % 4⟩
  apply pauli_ext hm.1
  rw [hm.2]; simp only [h]; omega

theorem toNP_anti {n : Nat} (a b : Pauli) (ha : a.g.length = n) (hb : b.g.length = n)
    (h : acq a.g b.g = 1) : toNP n b * toNP n a = NP.e n * (toNP n a * toNP n b) := by
  apply Subtype.ext
  rw [NP.e_mul_val, NP.mul_val, NP.mul_val, toNP_val a ha, toNP_val b hb]
  have hm := mul_comm_acq ⟨b.g, b.p % 4⟩ ⟨a.g, a.p % 4⟩
  have : acq b.g a.g = 1 := by rw [acq_symm]; exact h
  apply pauli_ext
  · exact hm.1
  · show (PC.mul ⟨b.g, b.p % 4⟩ ⟨a.g, a.p % 4⟩).p = ((PC.mul ⟨a.g, a.p % 4⟩ ⟨b.g, b.p % 4⟩).p + 2) % 4
    rw [hm.2]; simp only [this]; omega

theorem toNP_sq {n : Nat} (a : Pauli) (ha : a.g.length = n) (hp : a.p % 2 = 0) : toNP n a * toNP n a = 1 := by
  apply Subtype.ext
  rw [NP.mul_val, toNP_val a ha, PC.mul_self, NP.one_val]
  apply pauli_ext
  · simp [ha]
  · show 2 * (a.p % 4) % 4 = 0
    omega

theorem mem_toPairs (n : Nat) : ∀ (M : List Pauli) (cd : NP n × NP n), cd ∈ toPairs n M →
    ∃ c d, c ∈ M ∧ d ∈ M ∧ cd = (toNP n c, toNP n d)
  | [], cd, h => by simp [toPairs] at h
  | [a], cd, h => by simp [toPairs] at h
  | a :: b :: rest, cd, h => by
    simp only [toPairs, List.mem_cons] at h
    rcases h with h | h
    · exact ⟨a, b, by simp, by simp, h⟩
    · obtain ⟨c, d, hc, hd, e⟩ := mem_toPairs n rest cd h
      exact ⟨c, d, by simp [hc], by simp [hd], e⟩

theorem goodL_toPairs (n : Nat) : ∀ (M : List Pauli) (k : Nat), M.length = 2 * k →
    (∀ R ∈ M, R.g.length = n ∧ R.p % 2 = 0) → Sympl M → GoodL (NP.e n) (toPairs n M)
  | [], _, _, _, _ => GoodL.nil
  | [a], k, h, _, _ => by simp at h; omega
  | a :: b :: rest, k, h, hl, hs => by
    have ha := hl a (by simp)
    have hb := hl b (by simp)
    have hrest : ∀ R ∈ rest, R.g.length = n ∧ R.p % 2 = 0 := fun R hR => hl R (by simp [hR])
    obtain ⟨hab, hx⟩ := Sympl_head a b rest hs
    refine GoodL.cons ⟨toNP_sq a ha.1 ha.2, toNP_sq b hb.1 hb.2, toNP_anti a b ha.1 hb.1 hab⟩ ?_
      (goodL_toPairs n rest (k - 1) (by simp at h; omega) hrest (Sympl_tail a b rest hs))
    intro cd hcd
    obtain ⟨c, d, hc, hd, rfl⟩ := mem_toPairs n rest cd hcd
    exact ⟨toNP_commute a c ha.1 (hrest c hc).1 (hx c hc).1, toNP_commute a d ha.1 (hrest d hd).1 (hx d hd).1,
      toNP_commute b c hb.1 (hrest c hc).1 (hx c hc).2, toNP_commute b d hb.1 (hrest d hd).1 (hx d hd).2⟩

/-! ## `transform` by a valid map is multiplicative -/

theorem mapN_of_length (M : List Pauli) (n : Nat) (hM : M.length = 2 * n) : mapN M = n := by
  unfold mapN; omega

theorem combine_eq_prodB (n : Nat) (M : List Pauli) (hM : M.length = 2 * n) (hl : ∀ R ∈ M, R.g.length = n)
    (g : PStr) : combine (mapN M) (flat g) M = (prodB (toPairs n M) g).1 := by
  rw [mapN_of_length M n hM]
  have h := combineAux_eq_prodB n M n hM hl g 1
  rw [_root_.one_mul] at h
  exact h

theorem transform_eq_prodB (n : Nat) (M : List Pauli) (hM : M.length = 2 * n) (hl : ∀ R ∈ M, R.g.length = n)
    (P : Pauli) : transform M P =
      ⟨(prodB (toPairs n M) P.g).1.g, (P.p + p0 P.g + (prodB (toPairs n M) P.g).1.p) % 4⟩ := by
  unfold transform
  rw [combine_eq_prodB n M hM hl]

theorem validMap_sympl (M : List Pauli) (n : Nat) (hM : ValidMap M n) : Sympl M := by
  intro i j hi hj
  exact hM.2.2 i j (by rw [← hM.1]; exact hi) (by rw [← hM.1]; exact hj)

/-- the block-product form of the product of two images -/
theorem prodB_mul_val (M : List Pauli) (n : Nat) (hM : ValidMap M n) (a b : PStr)
    (ha : a.length = n) (hb : b.length = n) :
    PC.mul (prodB (toPairs n M) a).1 (prodB (toPairs n M) b).1 =
      ⟨(prodB (toPairs n M) (xorS a b)).1.g, (2 * zxSum a b + (prodB (toPairs n M) (xorS a b)).1.p) % 4⟩ := by
  have hlen := length_toPairs n M n hM.1
  have hg := goodL_toPairs n M n hM.1 hM.2.1 (validMap_sympl M n hM)
  have h := prodB_mul (NP.e n) NP.e_comm (toPairs n M) hg a b (by rw [hlen]; exact ha) (by rw [hlen]; exact hb)
  have hv := congrArg Subtype.val h
  rw [NP.mul_val, NP.mul_val, NP.e_pow_val, flips_eq_zxSum] at hv
  rw [hv]
  have hX := (prodB (toPairs n M) (xorS a b)).2
  apply pauli_ext
  · show xorS (idStr n) _ = _
    have := xorS_idStr_left (prodB (toPairs n M) (xorS a b)).1.g; rwa [hX.1] at this
  · show (2 * zxSum a b % 4 + (prodB (toPairs n M) (xorS a b)).1.p + ipow (idStr n) _) % 4 =
      (2 * zxSum a b + (prodB (toPairs n M) (xorS a b)).1.p) % 4
    rw [ipow_idStr_left]; omega

theorem transform_mul (M : List Pauli) (n : Nat) (hM : ValidMap M n) (P Q : Pauli)
    (hP : P.g.length = n) (hQ : Q.g.length = n) :
    PEq (transform M (mul P Q)) (mul (transform M P) (transform M Q)) := by
  have hl : ∀ R ∈ M, R.g.length = n := fun R hR => (hM.2.1 R hR).1
  rw [transform_eq_prodB n M hM.1 hl, transform_eq_prodB n M hM.1 hl, transform_eq_prodB n M hM.1 hl]
  have h := prodB_mul_val M n hM P.g Q.g hP hQ
  have hg := congrArg Pauli.g h
  have hp := congrArg Pauli.p h
  simp only [mul_g, mul_p] at hg hp
  have h0 := p0_xorS P.g Q.g (hP.trans hQ.symm)
  refine ⟨?_, ?_⟩
  · simp only [mul_g]; exact hg.symm
  · simp only [mul_p, mul_g]
    rw [h0]
    omega


/-! ## unit strings, the identity, generators -/

theorem unitX_succ_zero (n : Nat) : unitX (n + 1) 0 = (true, false) :: idStr n := by
  unfold unitX idStr
  rw [List.range_succ_eq_map]
  simp [List.map_map, Function.comp_def]
theorem unitX_succ_succ (n k : Nat) : unitX (n + 1) (k + 1) = (false, false) :: unitX n k := by
  unfold unitX
  rw [List.range_succ_eq_map]
  simp [List.map_map, Function.comp_def]
theorem unitZ_succ_zero (n : Nat) : unitZ (n + 1) 0 = (false, true) :: idStr n := by
  unfold unitZ idStr
  rw [List.range_succ_eq_map]
  simp [List.map_map, Function.comp_def]
theorem unitZ_succ_succ (n k : Nat) : unitZ (n + 1) (k + 1) = (false, false) :: unitZ n k := by
  unfold unitZ
  rw [List.range_succ_eq_map]
  simp [List.map_map, Function.comp_def]

theorem length_unitX (n k : Nat) : (unitX n k).length = n := by simp [unitX]
theorem length_unitZ (n k : Nat) : (unitZ n k).length = n := by simp [unitZ]

theorem p0Sum_map_x (f : Nat → Bool) (l : List Nat) : p0Sum (l.map fun i => (f i, false)) = 0 := by
  induction l with
  | nil => rfl
  | cons a as ih => simp [p0Sum_cons, ih, b2i]
theorem p0Sum_map_z (f : Nat → Bool) (l : List Nat) : p0Sum (l.map fun i => (false, f i)) = 0 := by
  induction l with
  | nil => rfl
  | cons a as ih => simp [p0Sum_cons, ih, b2i]
theorem p0_unitX (n k : Nat) : p0 (unitX n k) = 0 := by
  unfold p0 unitX; rw [p0Sum_map_x]; rfl
theorem p0_unitZ (n k : Nat) : p0 (unitZ n k) = 0 := by
  unfold p0 unitZ; rw [p0Sum_map_z]; rfl

theorem flat_idStr_succ (k : Nat) : flat (idStr (k + 1)) = false :: false :: flat (idStr k) := rfl

/-- nothing selected: the accumulator is returned -/
theorem combineAux_idStr (k : Nat) (rows : List Pauli) (acc : Pauli) :
    combineAux (flat (idStr k)) rows acc = acc := by
  induction k generalizing rows with
  | zero => cases rows <;> rfl
  | succ k ih =>
    rw [flat_idStr_succ]
    match rows with
    | [] => rfl
    | [r] => rfl
    | r :: r' :: rest => simp only [combineAux]; exact ih rest

theorem combineAux_unitX (k : Nat) : ∀ (n : Nat) (M : List Pauli) (acc : Pauli), k < n → M.length = 2 * n →
    combineAux (flat (unitX n k)) M acc = mul acc (rowAt M (2 * k)) := by
  induction k with
  | zero =>
    intro n M acc hk hM
    match n, M, hk, hM with
    | n + 1, a :: b :: rest, _, _ =>
      rw [unitX_succ_zero, flat_cons]
      simp only [combineAux]
      rw [combineAux_idStr]; rfl
    | n + 1, [], _, h => simp at h
    | n + 1, [a], _, h => simp at h; omega
  | succ k ih =>
    intro n M acc hk hM
    match n, M, hk, hM with
    | n + 1, a :: b :: rest, hk, hM =>
      rw [unitX_succ_succ, flat_cons]
      simp only [combineAux, Bool.false_eq_true, ↓reduceIte]
      rw [ih n rest acc (by omega) (by simp at hM; omega)]
      have : 2 * (k + 1) = 2 * k + 1 + 1 := by omega
      rw [this, rowAt_cons_succ, rowAt_cons_succ]
    | n + 1, [], _, h => simp at h
    | n + 1, [a], _, h => simp at h; omega

theorem combineAux_unitZ (k : Nat) : ∀ (n : Nat) (M : List Pauli) (acc : Pauli), k < n → M.length = 2 * n →
    combineAux (flat (unitZ n k)) M acc = mul acc (rowAt M (2 * k + 1)) := by
  induction k with
  | zero =>
    intro n M acc hk hM
    match n, M, hk, hM with
    | n + 1, a :: b :: rest, _, _ =>
      rw [unitZ_succ_zero, flat_cons]
      simp only [combineAux]
      rw [combineAux_idStr]; rfl
    | n + 1, [], _, h => simp at h
    | n + 1, [a], _, h => simp at h; omega
  | succ k ih =>
    intro n M acc hk hM
    match n, M, hk, hM with
    | n + 1, a :: b :: rest, hk, hM =>
      rw [unitZ_succ_succ, flat_cons]
      simp only [combineAux, Bool.false_eq_true, ↓reduceIte]
      rw [ih n rest acc (by omega) (by simp at hM; omega)]
      have : 2 * (k + 1) + 1 = 2 * k + 1 + 1 + 1 := by omega
      rw [this, rowAt_cons_succ, rowAt_cons_succ]
    | n + 1, [], _, h => simp at h
    | n + 1, [a], _, h => simp at h; omega

theorem transform_one (M : List Pauli) (n : Nat) (hM : M.length = 2 * n) :
    transform M ⟨idStr n, 0⟩ = ⟨idStr n, 0⟩ := by
  unfold transform combine
  rw [mapN_of_length M n hM]
  simp only [combineAux_idStr, p0_idStr]
  rfl

theorem transform_unitX (M : List Pauli) (n k : Nat) (hM : M.length = 2 * n) (hk : k < n)
    (hR : (rowAt M (2 * k)).g.length = n) : PEq (transform M ⟨unitX n k, 0⟩) (rowAt M (2 * k)) := by
  unfold transform combine
  rw [mapN_of_length M n hM]
  simp only [combineAux_unitX k n M _ hk hM, p0_unitX]
  have h := PC.mul_one_left (rowAt M (2 * k))
  rw [hR] at h
  rw [h]
  exact ⟨rfl, by simp only; omega⟩

theorem transform_unitZ (M : List Pauli) (n k : Nat) (hM : M.length = 2 * n) (hk : k < n)
    (hR : (rowAt M (2 * k + 1)).g.length = n) : PEq (transform M ⟨unitZ n k, 0⟩) (rowAt M (2 * k + 1)) := by
  unfold transform combine
  rw [mapN_of_length M n hM]
  simp only [combineAux_unitZ k n M _ hk hM, p0_unitZ]
  have h := PC.mul_one_left (rowAt M (2 * k + 1))
  rw [hR] at h
  rw [h]
  exact ⟨rfl, by simp only; omega⟩

/-- `transform` reads the phase of its argument additively -/
theorem transform_of_g_eq (M : List Pauli) (X Y : Pauli) (h : X.g = Y.g) :
    (transform M X).g = (transform M Y).g ∧ (transform M X).p % 4 = ((transform M Y).p + X.p - Y.p) % 4 := by
  unfold transform
  simp only [h]
  exact ⟨trivial, by omega⟩

theorem transform_congr (M : List Pauli) {X Y : Pauli} (h : PEq X Y) : PEq (transform M X) (transform M Y) := by
  have := transform_of_g_eq M X Y h.1
  have hp := h.2
  exact ⟨this.1, by omega⟩

theorem transform_phase (M : List Pauli) (P : Pauli) (k : Int) :
    PEq (transform M ⟨P.g, P.p + k⟩) ⟨(transform M P).g, (transform M P).p + k⟩ := by
  have := transform_of_g_eq M ⟨P.g, P.p + k⟩ P rfl
  exact ⟨this.1, by have := this.2; simp only at this ⊢; omega⟩

theorem length_transform (M : List Pauli) (n : Nat) (hM : M.length = 2 * n) (hl : ∀ R ∈ M, R.g.length = n)
    (P : Pauli) : (transform M P).g.length = n := by
  rw [transform_eq_prodB n M hM hl]
  exact (prodB (toPairs n M) P.g).2.1

theorem transform_acq (M : List Pauli) (n : Nat) (hM : ValidMap M n) (P Q : Pauli)
    (hP : P.g.length = n) (hQ : Q.g.length = n) :
    acq (transform M P).g (transform M Q).g = acq P.g Q.g := by
  have h1 := transform_mul M n hM P Q hP hQ
  have h2 := transform_mul M n hM Q P hQ hP
  have hc := mul_comm_acq P Q
  have hc' := mul_comm_acq (transform M P) (transform M Q)
  have ht := transform_of_g_eq M (mul P Q) (mul Q P) hc.1
  have b1 := acq_bit P.g Q.g
  have b2 := acq_bit (transform M P).g (transform M Q).g
  have e1 := h1.2; have e2 := h2.2; have e3 := hc.2; have e4 := hc'.2; have e5 := ht.2
  omega

theorem transform_hermitian (M : List Pauli) (n : Nat) (hM : ValidMap M n) (P : Pauli)
    (hP : P.g.length = n) (hp : P.p % 2 = 0) : (transform M P).p % 2 = 0 := by
  have h1 := transform_mul M n hM P P hP hP
  rw [PC.mul_self, PC.mul_self, hP] at h1
  have ht := transform_of_g_eq M ⟨idStr n, 2 * P.p % 4⟩ ⟨idStr n, 0⟩ rfl
  rw [transform_one M n hM.1] at ht
  have e1 := h1.2; have e2 := ht.2
  simp only at e1 e2
  omega

/-! ## congruence and length lemmas for `mul`, `combineAux` -/

theorem mul_congr_left {a a' : Pauli} (h : PEq a a') (r : Pauli) : PEq (mul a r) (mul a' r) := by
  obtain ⟨hg, hp⟩ := h
  refine ⟨by simp only [mul_g, hg], ?_⟩
  simp only [mul_p, hg]; omega

theorem combineAux_congr (c : List Bool) (rows : List Pauli) {a a' : Pauli} (h : PEq a a') :
    PEq (combineAux c rows a) (combineAux c rows a') := by
  induction c generalizing rows a a' with
  | nil => simpa [combineAux] using h
  | cons c0 cs ih =>
    cases rows with
    | nil => simpa [combineAux] using h
    | cons r rs =>
      simp only [combineAux]
      cases c0
      · simpa using ih rs h
      · simpa using ih rs (mul_congr_left h r)

theorem length_combineAux (n : Nat) (c : List Bool) (rows : List Pauli) (acc : Pauli)
    (hl : ∀ R ∈ rows, R.g.length = n) (ha : acc.g.length = n) : (combineAux c rows acc).g.length = n := by
  induction c generalizing rows acc with
  | nil => simpa [combineAux] using ha
  | cons c0 cs ih =>
    cases rows with
    | nil => simpa [combineAux] using ha
    | cons r rs =>
      simp only [combineAux]
      have hr := hl r (by simp)
      have hrs : ∀ R ∈ rs, R.g.length = n := fun R hR => hl R (by simp [hR])
      cases c0
      · simpa using ih rs acc hrs ha
      · simpa using ih rs (mul acc r) hrs (by rw [length_mul _ _ (ha.trans hr.symm)]; exact ha)

/-! ## masks: strings that vanish on / off the mask -/

/-- `r` is the identity on every masked qubit -/
def MaskedZero (m : List Bool) (r : PStr) : Prop := gather m r = idStr (maskCount m)
/-- `r` is the identity on every unmasked qubit -/
def OffZero (m : List Bool) (r : PStr) : Prop := scatter m r (idStr (maskCount m)) = idStr r.length

theorem scatter_scatter (m : List Bool) (g s t : PStr) (ht : t.length = maskCount m) :
    scatter m (scatter m g s) t = scatter m g t := by
  induction m generalizing g s t with
  | nil => simp [scatter_nil_left]
  | cons b ms ih =>
    cases g with
    | nil => simp [scatter_nil_mid]
    | cons q qs =>
      cases b with
      | false =>
        rw [maskCount_cons_false] at ht
        rw [scatter_cons_false, scatter_cons_false, scatter_cons_false, ih qs s t ht]
      | true =>
        rw [maskCount_cons_true] at ht
        cases t with
        | nil => simp at ht
        | cons t0 ts =>
          have ht' : ts.length = maskCount ms := by simpa using ht
          cases s with
          | nil => rw [scatter_cons_true_nil, scatter_cons_true_cons, scatter_cons_true_cons, ih qs [] ts ht']
          | cons s0 ss => rw [scatter_cons_true_cons, scatter_cons_true_cons, scatter_cons_true_cons, ih qs ss ts ht']

theorem scatter_idStr_idStr (m : List Bool) (N k : Nat) : scatter m (idStr N) (idStr k) = idStr N := by
  induction m generalizing N k with
  | nil => rw [scatter_nil_left]
  | cons b ms ih =>
    cases N with
    | zero => rw [idStr_zero, scatter_nil_mid]
    | succ N =>
      rw [idStr_succ]
      cases b with
      | false => rw [scatter_cons_false, ih]
      | true =>
        cases k with
        | zero => rw [idStr_zero, scatter_cons_true_nil, ← idStr_zero, ih]
        | succ k => rw [idStr_succ, scatter_cons_true_cons, ih]

theorem gather_xorS (m : List Bool) (a b : PStr) : gather m (xorS a b) = xorS (gather m a) (gather m b) := by
  induction m generalizing a b with
  | nil => simp [gather_nil_left, xorS_nil_left]
  | cons c ms ih =>
    cases a with
    | nil => simp [gather_nil_right, xorS_nil_left]
    | cons a0 as =>
      cases b with
      | nil => simp [gather_nil_right, xorS_nil_right]
      | cons b0 bs =>
        cases c with
        | false => rw [xorS_cons, gather_cons_false, gather_cons_false, gather_cons_false, ih]
        | true => rw [xorS_cons, gather_cons_true, gather_cons_true, gather_cons_true, xorS_cons, ih]

theorem MaskedZero.xorS {m : List Bool} {a b : PStr} (ha : MaskedZero m a) (hb : MaskedZero m b) :
    MaskedZero m (xorS a b) := by
  unfold MaskedZero at *
  rw [gather_xorS, ha, hb]
  have := xorS_self (idStr (maskCount m)); rwa [length_idStr] at this

theorem xorS_scatter_maskedZero (m : List Bool) (b s r : PStr) (hr : MaskedZero m r) :
    xorS (scatter m b s) r = scatter m (xorS b r) s := by
  induction m generalizing b s r with
  | nil => simp [scatter_nil_left]
  | cons c ms ih =>
    cases b with
    | nil => simp [scatter_nil_mid, xorS_nil_left]
    | cons q qs =>
      cases r with
      | nil => simp [xorS_nil_right, scatter_nil_mid]
      | cons r0 rs =>
        cases c with
        | false =>
          have hr' : MaskedZero ms rs := by
            unfold MaskedZero at *; rwa [gather_cons_false, maskCount_cons_false] at hr
          rw [scatter_cons_false, xorS_cons, xorS_cons, scatter_cons_false, ih qs s rs hr']
        | true =>
          unfold MaskedZero at hr
          rw [gather_cons_true, maskCount_cons_true, idStr_succ] at hr
          have h0 : r0 = (false, false) := (List.cons.inj hr).1
          have hr' : MaskedZero ms rs := (List.cons.inj hr).2
          subst h0
          cases s with
          | nil => rw [scatter_cons_true_nil, xorS_cons, xorS_cons, scatter_cons_true_nil, ih qs [] rs hr']
          | cons s0 ss =>
            rw [scatter_cons_true_cons, xorS_cons, xorS_cons, scatter_cons_true_cons, ih qs ss rs hr',
              xorQ_id_right]

theorem ipowSum_scatter_maskedZero (m : List Bool) (b s r : PStr) (hr : MaskedZero m r) :
    ipowSum (scatter m b s) r = ipowSum b r := by
  induction m generalizing b s r with
  | nil => simp [scatter_nil_left]
  | cons c ms ih =>
    cases b with
    | nil => simp [scatter_nil_mid]
    | cons q qs =>
      cases r with
      | nil => simp [ipowSum_nil_right]
      | cons r0 rs =>
        cases c with
        | false =>
          have hr' : MaskedZero ms rs := by
            unfold MaskedZero at *; rwa [gather_cons_false, maskCount_cons_false] at hr
          rw [scatter_cons_false, ipowSum_cons, ipowSum_cons, ih qs s rs hr']
        | true =>
          unfold MaskedZero at hr
          rw [gather_cons_true, maskCount_cons_true, idStr_succ] at hr
          have h0 : r0 = (false, false) := (List.cons.inj hr).1
          have hr' : MaskedZero ms rs := (List.cons.inj hr).2
          subst h0
          cases s with
          | nil => rw [scatter_cons_true_nil, ipowSum_cons, ipowSum_cons, ih qs [] rs hr']
          | cons s0 ss =>
            rw [scatter_cons_true_cons, ipowSum_cons, ipowSum_cons, ih qs ss rs hr', ipowQ_id_right, ipowQ_id_right]

theorem scatter_offZero (m : List Bool) (r s : PStr) (hr : OffZero m r) (hs : s.length = maskCount m) :
    scatter m r s = scatter m (idStr r.length) s := by
  induction m generalizing r s with
  | nil =>
    unfold OffZero at hr; rw [scatter_nil_left] at hr
    rw [scatter_nil_left, scatter_nil_left]; exact hr
  | cons c ms ih =>
    cases r with
    | nil => rfl
    | cons r0 rs =>
      unfold OffZero at hr
      rw [List.length_cons, idStr_succ]
      cases c with
      | false =>
        rw [maskCount_cons_false] at hs
        rw [maskCount_cons_false, scatter_cons_false, List.length_cons, idStr_succ] at hr
        have h0 : r0 = (false, false) := (List.cons.inj hr).1
        have hr' : OffZero ms rs := (List.cons.inj hr).2
        rw [scatter_cons_false, scatter_cons_false, ih rs s hr' hs, h0]
      | true =>
        rw [maskCount_cons_true] at hs
        rw [maskCount_cons_true, idStr_succ, scatter_cons_true_cons, List.length_cons, idStr_succ] at hr
        have hr' : OffZero ms rs := (List.cons.inj hr).2
        cases s with
        | nil => simp at hs
        | cons s0 ss =>
          rw [scatter_cons_true_cons, scatter_cons_true_cons, ih rs ss hr' (by simpa using hs)]

theorem p0Sum_gather_add (m : List Bool) (g : PStr) :
    p0Sum g = p0Sum (gather m g) + p0Sum (scatter m g (idStr (maskCount m))) := by
  induction m generalizing g with
  | nil => simp [gather_nil_left, scatter_nil_left, p0Sum_nil]
  | cons c ms ih =>
    cases g with
    | nil => simp [gather_nil_right, scatter_nil_mid, p0Sum_nil]
    | cons q qs =>
      cases c with
      | false =>
        rw [gather_cons_false, maskCount_cons_false, scatter_cons_false, p0Sum_cons, p0Sum_cons, ih qs]; omega
      | true =>
        rw [gather_cons_true, maskCount_cons_true, idStr_succ, scatter_cons_true_cons, p0Sum_cons, p0Sum_cons,
          p0Sum_cons, ih qs]
        simp [b2i]; omega

/-! ## the embedded map: two independent accumulators -/

/-- an `N`-qubit operator assembled from a masked part `A` (on `maskCount m` qubits) and a background `B` -/
def J (m : List Bool) (A B : Pauli) : Pauli := ⟨scatter m B.g A.g, A.p + B.p⟩

/-- multiplying by an embedded small row only touches the masked accumulator -/
theorem J_mul_masked (m : List Bool) (A B s : Pauli) (R : PStr) (hR : R.length = m.length) (hRz : OffZero m R)
    (hs : s.g.length = maskCount m) (hA : A.g.length = maskCount m) (hB : B.g.length = m.length) :
    PEq (mul (J m A B) ⟨scatter m R s.g, s.p⟩) (J m (mul A s) B) := by
  have hlen : (scatter m B.g A.g).length ≤ m.length := by rw [length_scatter, hB]; exact Nat.le_refl _
  have hgs : gather m (scatter m B.g A.g) = A.g := gather_scatter m B.g A.g (by rw [hB]; exact Nat.le_refl _) hA
  have hx : (xorS A.g s.g).length = maskCount m := by rw [length_xorS_eq _ _ (hA.trans hs.symm)]; exact hA
  rw [scatter_offZero m R s.g hRz hs, hR]
  refine ⟨?_, ?_⟩
  · show xorS (scatter m B.g A.g) (scatter m (idStr m.length) s.g) = scatter m B.g (xorS A.g s.g)
    rw [xorS_scatter_idStr_right m m.length s.g _ hlen, hgs, scatter_scatter m B.g A.g _ hx]
  · show (A.p + B.p + s.p + ipow (scatter m B.g A.g) (scatter m (idStr m.length) s.g)) % 4 % 4 =
      ((A.p + s.p + ipow A.g s.g) % 4 + B.p) % 4
    rw [ipow_scatter_idStr_right m m.length s.g _ hlen, hgs]; omega

/-- multiplying by a row that vanishes on the mask only touches the background accumulator -/
theorem J_mul_unmasked (m : List Bool) (A B R : Pauli) (hRz : MaskedZero m R.g) :
    PEq (mul (J m A B) R) (J m A (mul B R)) := by
  refine ⟨?_, ?_⟩
  · show xorS (scatter m B.g A.g) R.g = scatter m (xorS B.g R.g) A.g
    exact xorS_scatter_maskedZero m B.g A.g R.g hRz
  · show (A.p + B.p + R.p + ipow (scatter m B.g A.g) R.g) % 4 % 4 = (A.p + (B.p + R.p + ipow B.g R.g) % 4) % 4
    unfold ipow
    rw [ipowSum_scatter_maskedZero m B.g A.g R.g hRz]; omega

/-- rows of the big map paired with `mask2`: right length, and vanishing off the mask (selected rows, to be
    overwritten) or on the mask (kept rows) -/
def RowsOK (m : List Bool) : List Bool → List Pauli → Prop
  | b :: bs, R :: Rs => (R.g.length = m.length ∧ (if b then OffZero m R.g else MaskedZero m R.g)) ∧ RowsOK m bs Rs
  | [], [] => True
  | _, _ => False

/-- coefficients at the selected / unselected positions, rows at the unselected positions -/
def selT : List Bool → List Bool → List Bool
  | b :: bs, c :: cs => if b then c :: selT bs cs else selT bs cs
  | _, _ => []
def selF : List Bool → List Bool → List Bool
  | b :: bs, c :: cs => if b then selF bs cs else c :: selF bs cs
  | _, _ => []
def filterF : List Bool → List Pauli → List Pauli
  | b :: bs, R :: Rs => if b then filterF bs Rs else R :: filterF bs Rs
  | _, _ => []

theorem combineAux_nil_left (rows : List Pauli) (acc : Pauli) : combineAux [] rows acc = acc := by
  simp [combineAux]
theorem combineAux_nil_right (c : List Bool) (acc : Pauli) : combineAux c [] acc = acc := by
  cases c <;> simp [combineAux]
theorem combineAux_cons (c : Bool) (cs : List Bool) (r : Pauli) (rs : List Pauli) (acc : Pauli) :
    combineAux (c :: cs) (r :: rs) acc = combineAux cs rs (if c then mul acc r else acc) := rfl

/-- combining through the embedded map = combining the small map on the masked accumulator and the kept rows
    on the background accumulator -/
theorem combineAux_embedRows (m : List Bool) (bs : List Bool) : ∀ (Rs small : List Pauli) (c : List Bool)
    (acc A B : Pauli), RowsOK m bs Rs → (∀ s ∈ small, s.g.length = maskCount m) →
    (bs.filter id).length ≤ small.length → A.g.length = maskCount m → B.g.length = m.length →
    PEq acc (J m A B) →
    PEq (combineAux c (embedRows m bs Rs small) acc)
      (J m (combineAux (selT bs c) small A) (combineAux (selF bs c) (filterF bs Rs) B)) := by
  induction bs with
  | nil =>
    intro Rs small c acc A B hok _ _ _ _ hacc
    cases Rs with
    | cons R Rs => simp [RowsOK] at hok
    | nil =>
      have h1 : selT [] c = [] := by simp [selT]
      have h2 : selF [] c = [] := by simp [selF]
      simp only [embedRows, h1, h2, combineAux_nil_left, combineAux_nil_right]
      exact hacc
  | cons b bs ih =>
    intro Rs small c acc A B hok hsm hcnt hA hB hacc
    cases Rs with
    | nil => simp [RowsOK] at hok
    | cons R Rs =>
      obtain ⟨⟨hRl, hRz⟩, hok'⟩ := hok
      cases c with
      | nil =>
        have h1 : selT (b :: bs) [] = [] := by simp [selT]
        have h2 : selF (b :: bs) [] = [] := by simp [selF]
        simp only [h1, h2, combineAux_nil_left]
        exact hacc
      | cons c0 cs =>
        cases b with
        | false =>
          have hRz' : MaskedZero m R.g := by simpa using hRz
          have e1 : embedRows m (false :: bs) (R :: Rs) small = R :: embedRows m bs Rs small := by
            simp [embedRows]
          have e2 : selT (false :: bs) (c0 :: cs) = selT bs cs := by simp [selT]
          have e3 : selF (false :: bs) (c0 :: cs) = c0 :: selF bs cs := by simp [selF]
          have e4 : filterF (false :: bs) (R :: Rs) = R :: filterF bs Rs := by simp [filterF]
          rw [e1, e2, e3, e4, combineAux_cons, combineAux_cons]
          have hcnt' : (bs.filter id).length ≤ small.length := by simpa using hcnt
          cases c0 with
          | false => exact ih Rs small cs acc A B hok' hsm hcnt' hA hB hacc
          | true =>
            refine ih Rs small cs (mul acc R) A (mul B R) hok' hsm hcnt' hA ?_ ?_
            · rw [length_mul _ _ (hB.trans hRl.symm)]; exact hB
            · exact (mul_congr_left hacc R).trans (J_mul_unmasked m A B R hRz')
        | true =>
          have hRz' : OffZero m R.g := by simpa using hRz
          cases small with
          | nil => simp at hcnt
          | cons s ss =>
            have hs := hsm s (by simp)
            have hss : ∀ t ∈ ss, t.g.length = maskCount m := fun t ht => hsm t (by simp [ht])
            have hcnt' : (bs.filter id).length ≤ ss.length := by simpa using hcnt
            have e1 : embedRows m (true :: bs) (R :: Rs) (s :: ss) =
                ⟨scatter m R.g s.g, s.p⟩ :: embedRows m bs Rs ss := by simp [embedRows]
            have e2 : selT (true :: bs) (c0 :: cs) = c0 :: selT bs cs := by simp [selT]
            have e3 : selF (true :: bs) (c0 :: cs) = selF bs cs := by simp [selF]
            have e4 : filterF (true :: bs) (R :: Rs) = filterF bs Rs := by simp [filterF]
            rw [e1, e2, e3, e4, combineAux_cons, combineAux_cons]
            cases c0 with
            | false => exact ih Rs ss cs acc A B hok' hss hcnt' hA hB hacc
            | true =>
              refine ih Rs ss cs _ (mul A s) B hok' hss hcnt' ?_ hB ?_
              · rw [length_mul _ _ (hA.trans hs.symm)]; exact hA
              · exact (mul_congr_left hacc _).trans (J_mul_masked m A B s R.g hRl hRz' hs hA hB)

/-! ## the identity map, left-recursive form -/

/-- prepend an identity wire -/
def lift (R : Pauli) : Pauli := ⟨(false, false) :: R.g, R.p⟩

theorem idRows_succ_succ (n k : Nat) :
    idRows (n + 1) (k + 1) = ⟨unitX (n + 1) 0, 0⟩ :: ⟨unitZ (n + 1) 0, 0⟩ :: (idRows n k).map lift := by
  induction k with
  | zero => simp [idRows]
  | succ k ih =>
    show idRows (n + 1) (k + 1) ++ [(⟨unitX (n + 1) (k + 1), 0⟩ : Pauli), ⟨unitZ (n + 1) (k + 1), 0⟩] = _
    rw [ih]
    show _ = _ :: _ :: (idRows n k ++ [(⟨unitX n k, 0⟩ : Pauli), ⟨unitZ n k, 0⟩]).map lift
    simp [lift, unitX_succ_succ, unitZ_succ_succ]

theorem idMap_succ (n : Nat) :
    idMap (n + 1) = ⟨(true, false) :: idStr n, 0⟩ :: ⟨(false, true) :: idStr n, 0⟩ :: (idMap n).map lift := by
  unfold idMap; rw [idRows_succ_succ, unitX_succ_zero, unitZ_succ_zero]

theorem idMap_zero : idMap 0 = [] := rfl

theorem length_idMap (n : Nat) : (idMap n).length = 2 * n := by
  induction n with
  | zero => rfl
  | succ n ih => rw [idMap_succ]; simp [ih]; omega

theorem idMap_rows (n : Nat) : ∀ R ∈ idMap n, R.g.length = n ∧ R.p = 0 := by
  induction n with
  | zero => intro R hR; simp [idMap_zero] at hR
  | succ n ih =>
    intro R hR
    rw [idMap_succ] at hR
    simp only [List.mem_cons, List.mem_map] at hR
    rcases hR with rfl | rfl | ⟨R', hR', rfl⟩
    · simp [length_idStr]
    · simp [length_idStr]
    · have := ih R' hR'
      simp [lift, this.1, this.2]

theorem ipow_cons (a b : Q) (as bs : PStr) : ipow (a :: as) (b :: bs) = (ipowQ a b + ipowSum as bs) % 4 := rfl

/-- lifted rows do not see the first wire -/
theorem combineAux_lift (c : List Bool) (rows : List Pauli) (a : Q) (g : PStr) (p : Int) :
    combineAux c (rows.map lift) ⟨a :: g, p⟩ =
      ⟨a :: (combineAux c rows ⟨g, p⟩).g, (combineAux c rows ⟨g, p⟩).p⟩ := by
  induction c generalizing rows g p with
  | nil => simp [combineAux_nil_left]
  | cons c0 cs ih =>
    cases rows with
    | nil => simp [combineAux_nil_right]
    | cons r rs =>
      rw [List.map_cons, combineAux_cons, combineAux_cons]
      cases c0 with
      | false => exact ih rs g p
      | true =>
        have : mul ⟨a :: g, p⟩ (lift r) = ⟨a :: (mul ⟨g, p⟩ r).g, (mul ⟨g, p⟩ r).p⟩ := by
          apply pauli_ext
          · show xorS (a :: g) ((false, false) :: r.g) = a :: xorS g r.g
            rw [xorS_cons, xorQ_id_right]
          · show (p + r.p + ipow (a :: g) ((false, false) :: r.g)) % 4 = (p + r.p + ipow g r.g) % 4
            rw [ipow_cons, ipowQ_id_right]; unfold ipow; omega
        simp only [if_true]
        rw [this]
        exact ih rs _ _

/-- the identity map reproduces the string; the phase collects `-x·z` per qubit (the `p0` correction) -/
theorem combineAux_idMap (n : Nat) : ∀ (g : PStr) (p : Int), g.length = n →
    PEq (combineAux (flat g) (idMap n) ⟨idStr n, p⟩) ⟨g, p - p0Sum g⟩ := by
  induction n with
  | zero =>
    intro g p hg
    have : g = [] := by simpa using hg
    subst this
    exact ⟨rfl, by simp [flat, combineAux_nil_left, p0Sum_nil]⟩
  | succ n ih =>
    intro g p hg
    cases g with
    | nil => simp at hg
    | cons q gs =>
      obtain ⟨x, z⟩ := q
      have hgs : gs.length = n := by simpa using hg
      have hxx : xorS (idStr n) (idStr n) = idStr n := by
        have := xorS_self (idStr n); rwa [length_idStr] at this
      have hii : ipowSum (idStr n) (idStr n) = 0 := ipowSum_idStr_left _ _
      have key : ∀ (a b : Q) (p q : Int), mul ⟨a :: idStr n, p⟩ ⟨b :: idStr n, q⟩ =
          ⟨xorQ a b :: idStr n, (p + q + ipowQ a b) % 4⟩ := by
        intro a b p q
        apply pauli_ext
        · show xorS (a :: idStr n) (b :: idStr n) = _
          rw [xorS_cons, hxx]
        · show (p + q + ipow (a :: idStr n) (b :: idStr n)) % 4 = (p + q + ipowQ a b) % 4
          rw [ipow_cons, hii]; omega
      rw [idMap_succ, flat_cons, idStr_succ, combineAux_cons, combineAux_cons]
      obtain ⟨p1, hp1, hacc⟩ : ∃ p1 : Int, p1 % 4 = (p - b2i x * b2i z) % 4 ∧
          (if (x, z).2 = true then
            mul (if (x, z).1 = true then mul ⟨(false, false) :: idStr n, p⟩ ⟨(true, false) :: idStr n, 0⟩
              else ⟨(false, false) :: idStr n, p⟩) ⟨(false, true) :: idStr n, 0⟩
          else if (x, z).1 = true then mul ⟨(false, false) :: idStr n, p⟩ ⟨(true, false) :: idStr n, 0⟩
            else ⟨(false, false) :: idStr n, p⟩) = ⟨(x, z) :: idStr n, p1⟩ := by
        cases x <;> cases z <;> simp only [if_true, if_false, Bool.false_eq_true, key] <;>
          (refine ⟨_, ?_, rfl⟩; simp [b2i, ipowQ, xorQ] <;> omega)
      rw [hacc, combineAux_lift]
      have h := ih gs p1 hgs
      refine ⟨?_, ?_⟩
      · simp only [h.1]
      · have h2 := h.2
        simp only [p0Sum_cons] at h2 ⊢
        omega

/-! ## the identity map against a mask; `transformMasked` -/

theorem OffZero_lift (b : Bool) (ms : List Bool) (r : PStr) (h : OffZero ms r) :
    OffZero (b :: ms) ((false, false) :: r) := by
  unfold OffZero at *
  cases b with
  | false => rw [maskCount_cons_false, scatter_cons_false, h]; rfl
  | true => rw [maskCount_cons_true, idStr_succ, scatter_cons_true_cons, h]; rfl

theorem MaskedZero_lift (b : Bool) (ms : List Bool) (r : PStr) (h : MaskedZero ms r) :
    MaskedZero (b :: ms) ((false, false) :: r) := by
  unfold MaskedZero at *
  cases b with
  | false => rw [maskCount_cons_false, gather_cons_false, h]
  | true => rw [maskCount_cons_true, gather_cons_true, h]; rfl

theorem RowsOK_lift (b : Bool) (ms : List Bool) : ∀ (bs : List Bool) (Rs : List Pauli),
    RowsOK ms bs Rs → RowsOK (b :: ms) bs (Rs.map lift)
  | [], [], _ => trivial
  | [], _ :: _, h => by simp [RowsOK] at h
  | _ :: _, [], h => by simp [RowsOK] at h
  | c :: bs, R :: Rs, h => by
    obtain ⟨⟨hl, hz⟩, hrest⟩ := h
    refine ⟨⟨by simp [lift, hl], ?_⟩, RowsOK_lift b ms bs Rs hrest⟩
    cases c with
    | false => simpa [lift] using MaskedZero_lift b ms R.g (by simpa using hz)
    | true => simpa [lift] using OffZero_lift b ms R.g (by simpa using hz)

theorem mask2_cons (b : Bool) (ms : List Bool) : mask2 (b :: ms) = b :: b :: mask2 ms := rfl

theorem OffZero_unit (q : Q) (ms : List Bool) (N : Nat) : OffZero (true :: ms) (q :: idStr N) := by
  unfold OffZero
  rw [maskCount_cons_true, idStr_succ, scatter_cons_true_cons, scatter_idStr_idStr, List.length_cons,
    length_idStr, idStr_succ]

theorem MaskedZero_unit (q : Q) (ms : List Bool) (N : Nat) (h : ms.length ≤ N) :
    MaskedZero (false :: ms) (q :: idStr N) := by
  unfold MaskedZero
  rw [maskCount_cons_false, gather_cons_false, gather_idStr ms N h]

theorem RowsOK_idMap (m : List Bool) : RowsOK m (mask2 m) (idMap m.length) := by
  induction m with
  | nil => trivial
  | cons b ms ih =>
    rw [mask2_cons, List.length_cons, idMap_succ]
    refine ⟨⟨by simp [length_idStr], ?_⟩, ⟨by simp [length_idStr], ?_⟩, RowsOK_lift b ms _ _ ih⟩
    · cases b with
      | false => simpa using MaskedZero_unit (true, false) ms ms.length (Nat.le_refl _)
      | true => simpa using OffZero_unit (true, false) ms ms.length
    · cases b with
      | false => simpa using MaskedZero_unit (false, true) ms ms.length (Nat.le_refl _)
      | true => simpa using OffZero_unit (false, true) ms ms.length

theorem selT_mask2 (m : List Bool) (g : PStr) : selT (mask2 m) (flat g) = flat (gather m g) := by
  induction m generalizing g with
  | nil => simp [mask2, selT, gather_nil_left, flat]
  | cons b ms ih =>
    cases g with
    | nil => simp [flat, selT, gather_nil_right]
    | cons q qs =>
      cases b with
      | false => rw [mask2_cons, flat_cons, gather_cons_false]; simp [selT, ih]
      | true => rw [mask2_cons, flat_cons, gather_cons_true, flat_cons]; simp [selT, ih]

theorem count_mask2 (m : List Bool) : ((mask2 m).filter id).length = 2 * maskCount m := by
  induction m with
  | nil => rfl
  | cons b ms ih =>
    cases b with
    | false => rw [mask2_cons, maskCount_cons_false]; simpa using ih
    | true => rw [mask2_cons, maskCount_cons_true]; simp [ih]; omega

/-- the kept rows with the unmasked coefficients = all rows with the masked coefficients cleared -/
theorem combineAux_selF (m : List Bool) : ∀ (g : PStr) (rows : List Pauli) (acc : Pauli), g.length = m.length →
    combineAux (selF (mask2 m) (flat g)) (filterF (mask2 m) rows) acc =
      combineAux (flat (scatter m g (idStr (maskCount m)))) rows acc := by
  induction m with
  | nil =>
    intro g rows acc hg
    have : g = [] := by simpa using hg
    subst this
    simp [mask2, selF, scatter_nil_left, combineAux_nil_left, flat]
  | cons b ms ih =>
    intro g rows acc hg
    cases g with
    | nil => simp at hg
    | cons q qs =>
      have hqs : qs.length = ms.length := by simpa using hg
      rw [mask2_cons, flat_cons]
      cases b with
      | false =>
        rw [maskCount_cons_false, scatter_cons_false, flat_cons]
        match rows with
        | [] => simp [filterF, combineAux_nil_right]
        | [a] => simp [selF, filterF, combineAux_cons, combineAux_nil_right]
        | a :: a' :: rest => simp [selF, filterF, combineAux_cons, ih qs _ _ hqs]
      | true =>
        rw [maskCount_cons_true, idStr_succ, scatter_cons_true_cons, flat_cons]
        match rows with
        | [] => simp [filterF, combineAux_nil_right]
        | [a] => simp [selF, filterF, combineAux_cons, combineAux_nil_right]
        | a :: a' :: rest => simp [selF, filterF, combineAux_cons, ih qs _ _ hqs]

theorem length_embedRows (m : List Bool) (bs : List Bool) : ∀ (Rs small : List Pauli),
    (embedRows m bs Rs small).length = Rs.length := by
  induction bs with
  | nil => intro Rs small; simp [embedRows]
  | cons b bs ih =>
    intro Rs small
    cases Rs with
    | nil => simp [embedRows]
    | cons R Rs =>
      cases b with
      | false => simp [embedRows, ih]
      | true =>
        cases small with
        | nil => simp [embedRows, ih]
        | cons s ss => simp [embedRows, ih]

theorem transformMasked_eq_embed (M : List Pauli) (m : List Bool) (P : Pauli) (n : Nat)
    (hM : M.length = 2 * n) (hMr : ∀ R ∈ M, R.g.length = n) (hm : maskCount m = n) (hl : m.length = P.g.length) :
    PEq (transformMasked M m P) (transform (embed (idMap P.g.length) M m) P) := by
  subst hm
  rw [← hl]
  have hE : mapN (embed (idMap m.length) M m) = m.length := by
    apply mapN_of_length
    unfold embed; rw [length_embedRows, length_idMap]
  have hJ0 : PEq ⟨idStr m.length, 0⟩ (J m ⟨idStr (maskCount m), 0⟩ ⟨idStr m.length, 0⟩) := by
    refine ⟨?_, rfl⟩
    show idStr m.length = scatter m (idStr m.length) (idStr (maskCount m))
    rw [scatter_idStr_idStr]
  have key := combineAux_embedRows m (mask2 m) (idMap m.length) M (flat P.g) _ _ _ (RowsOK_idMap m) hMr
    (by rw [count_mask2, hM]; exact Nat.le_refl _) (length_idStr _) (length_idStr _) hJ0
  rw [selT_mask2, combineAux_selF m P.g _ _ hl.symm] at key
  have hg' : (scatter m P.g (idStr (maskCount m))).length = m.length := by rw [length_scatter, hl]
  have hB := combineAux_idMap m.length _ 0 hg'
  have hcS : (combineAux (flat (gather m P.g)) M ⟨idStr (maskCount m), 0⟩).g.length = maskCount m :=
    length_combineAux _ _ _ _ hMr (length_idStr _)
  have hp0 := p0Sum_gather_add m P.g
  unfold transformMasked transform combine embed
  unfold embed at hE
  rw [hE, mapN_of_length M _ hM]
  refine ⟨?_, ?_⟩
  · show scatter m P.g (combineAux (flat (gather m P.g)) M ⟨idStr (maskCount m), 0⟩).g = _
    rw [key.1]
    show _ = scatter m _ _
    rw [hB.1, scatter_scatter _ _ _ _ hcS]
  · have k2 := key.2
    have b2 := hB.2
    simp only [J] at k2
    simp only [p0] at k2 b2 ⊢
    omega

/-! ## rotation maps -/

theorem Sympl_cons (a b : Pauli) (rest : List Pauli) (hab : acq a.g b.g = 1)
    (hx : ∀ c ∈ rest, acq a.g c.g = 0 ∧ acq b.g c.g = 0) (hr : Sympl rest) : Sympl (a :: b :: rest) := by
  have hba : acq b.g a.g = 1 := by rw [acq_symm]; exact hab
  intro i j hi hj
  match i, j, hi, hj with
  | 0, 0, _, _ => simp [rowAt_cons_zero, acq_self]
  | 0, 1, _, _ => simp [rowAt_cons_zero, rowAt_cons_succ, hab]
  | 1, 0, _, _ => simp [rowAt_cons_zero, rowAt_cons_succ, hba]
  | 1, 1, _, _ => simp [rowAt_cons_zero, rowAt_cons_succ, acq_self]
  | 0, j + 2, _, hj =>
    have hj' : j < rest.length := by simp at hj; omega
    rw [rowAt_cons_zero, rowAt_cons_succ, rowAt_cons_succ, (hx _ (rowAt_mem rest j hj')).1]
    simp
  | 1, j + 2, _, hj =>
    have hj' : j < rest.length := by simp at hj; omega
    rw [rowAt_cons_succ, rowAt_cons_zero, rowAt_cons_succ, rowAt_cons_succ, (hx _ (rowAt_mem rest j hj')).2]
    simp
  | i + 2, 0, hi, _ =>
    have hi' : i < rest.length := by simp at hi; omega
    rw [rowAt_cons_zero, rowAt_cons_succ, rowAt_cons_succ, acq_symm, (hx _ (rowAt_mem rest i hi')).1]
    simp
  | i + 2, 1, hi, _ =>
    have hi' : i < rest.length := by simp at hi; omega
    rw [rowAt_cons_succ, rowAt_cons_succ, rowAt_cons_succ, rowAt_cons_zero, acq_symm,
      (hx _ (rowAt_mem rest i hi')).2]
    simp
  | i + 2, j + 2, hi, hj =>
    have hi' : i < rest.length := by simp at hi; omega
    have hj' : j < rest.length := by simp at hj; omega
    rw [rowAt_cons_succ, rowAt_cons_succ, rowAt_cons_succ, rowAt_cons_succ, hr i j hi' hj']
    have e1 : (i + 2) / 2 = i / 2 + 1 := by omega
    have e2 : (j + 2) / 2 = j / 2 + 1 := by omega
    simp [e1, e2]

theorem rowAt_map (f : Pauli → Pauli) (L : List Pauli) (i : Nat) (h : i < L.length) :
    rowAt (L.map f) i = f (rowAt L i) := by
  rw [rowAt_of_lt _ _ (by simpa using h), rowAt_of_lt _ _ h]; simp

theorem acq_cons (a b : Q) (as bs : PStr) : acq (a :: as) (b :: bs) = (acqQ a b + acqSum as bs) % 2 := rfl

theorem Sympl_map_lift (Rs : List Pauli) (h : Sympl Rs) : Sympl (Rs.map lift) := by
  intro i j hi hj
  have hi' : i < Rs.length := by simpa using hi
  have hj' : j < Rs.length := by simpa using hj
  rw [rowAt_map lift Rs i hi', rowAt_map lift Rs j hj', ← h i j hi' hj']
  show acq ((false, false) :: _) ((false, false) :: _) = _
  rw [acq_cons, acqQ_id_left]; unfold acq; omega

theorem Sympl_idMap (n : Nat) : Sympl (idMap n) := by
  induction n with
  | zero => intro i j hi; simp [idMap_zero] at hi
  | succ n ih =>
    rw [idMap_succ]
    apply Sympl_cons _ _ _ _ _ (Sympl_map_lift _ ih)
    · show acq ((true, false) :: idStr n) ((false, true) :: idStr n) = 1
      rw [acq_cons, acqSum_idStr_left]; decide
    · intro c hc
      obtain ⟨c', _, rfl⟩ := List.mem_map.1 hc
      refine ⟨?_, ?_⟩
      · show acq ((true, false) :: idStr n) ((false, false) :: c'.g) = 0
        rw [acq_cons, acqSum_idStr_left, acqQ_id_right]; rfl
      · show acq ((false, true) :: idStr n) ((false, false) :: c'.g) = 0
        rw [acq_cons, acqSum_idStr_left, acqQ_id_right]; rfl

theorem rotationMap_valid (G : Pauli) (hG : G.p % 2 = 0) : ValidMap (rotationMap G) G.g.length := by
  unfold rotationMap rotateRows
  refine ⟨by rw [List.length_map, length_idMap], ?_, ?_⟩
  · intro R hR
    obtain ⟨R0, hR0, rfl⟩ := List.mem_map.1 hR
    obtain ⟨hl0, hp0⟩ := idMap_rows _ R0 hR0
    refine ⟨by rw [length_rotate G R0 hl0.symm]; exact hl0, ?_⟩
    rcases acq_bit G.g R0.g with h | h
    · rw [rotate_of_acq_zero G R0 h, hp0]; rfl
    · rw [rotate_of_acq_one G R0 h]
      have hpar := ipow_parity R0.g G.g
      rw [acq_symm, h] at hpar
      simp only [hp0]; omega
  · intro i j hi hj
    have hi' : i < (idMap G.g.length).length := by rw [length_idMap]; exact hi
    have hj' : j < (idMap G.g.length).length := by rw [length_idMap]; exact hj
    rw [rowAt_map _ _ i hi', rowAt_map _ _ j hj',
      rotate_acq G _ _ (idMap_rows _ _ (rowAt_mem _ i hi')).1.symm (idMap_rows _ _ (rowAt_mem _ j hj')).1.symm]
    exact Sympl_idMap _ i j hi' hj'

/-- a Hermitian rotation commutes with `pauli_combine` -/
theorem combineAux_rotate (G : Pauli) (hG : G.p % 2 = 0) (c : List Bool) : ∀ (rows : List Pauli) (acc : Pauli),
    (∀ R ∈ rows, R.g.length = G.g.length) → acc.g.length = G.g.length →
    PEq (rotate G (combineAux c rows acc)) (combineAux c (rotateRows G rows) (rotate G acc)) := by
  induction c with
  | nil => intro rows acc _ _; simp only [combineAux_nil_left]; exact PEq.refl _
  | cons c0 cs ih =>
    intro rows acc hl ha
    cases rows with
    | nil => simp only [rotateRows, List.map_nil, combineAux_nil_right]; exact PEq.refl _
    | cons r rs =>
      have hr := hl r (by simp)
      have hrs : ∀ R ∈ rs, R.g.length = G.g.length := fun R hR => hl R (by simp [hR])
      show PEq (rotate G (combineAux (c0 :: cs) (r :: rs) acc))
        (combineAux (c0 :: cs) (rotate G r :: rotateRows G rs) (rotate G acc))
      rw [combineAux_cons, combineAux_cons]
      cases c0 with
      | false => exact ih rs acc hrs ha
      | true =>
        simp only [if_true]
        refine (ih rs (mul acc r) hrs ?_).trans (combineAux_congr _ _ (rotate_mul G acc r hG ha.symm hr.symm))
        rw [length_mul _ _ (ha.trans hr.symm)]; exact ha

theorem rotate_of_g_eq (G X Y : Pauli) (h : X.g = Y.g) :
    (rotate G X).g = (rotate G Y).g ∧ (rotate G X).p % 4 = ((rotate G Y).p + X.p - Y.p) % 4 := by
  rcases acq_bit G.g Y.g with h1 | h1
  · rw [rotate_of_acq_zero G Y h1, rotate_of_acq_zero G X (by rw [h]; exact h1)]
    exact ⟨h, by omega⟩
  · rw [rotate_of_acq_one G Y h1, rotate_of_acq_one G X (by rw [h]; exact h1)]
    simp only [h]
    exact ⟨trivial, by omega⟩

theorem rotationMap_acts_as_rotate (G P : Pauli) (hG : G.p % 2 = 0) (hl : G.g.length = P.g.length) :
    PEq (transform (rotationMap G) P) (rotate G P) := by
  have hN : mapN (rotationMap G) = G.g.length := by
    apply mapN_of_length; unfold rotationMap rotateRows; rw [List.length_map, length_idMap]
  have hid : rotate G ⟨idStr G.g.length, 0⟩ = ⟨idStr G.g.length, 0⟩ :=
    rotate_of_acq_zero G _ (acq_idStr_right _ _)
  have h1 := combineAux_rotate G hG (flat P.g) (idMap G.g.length) ⟨idStr G.g.length, 0⟩
    (fun R hR => (idMap_rows _ R hR).1) (length_idStr _)
  rw [hid] at h1
  have h2 := combineAux_idMap G.g.length P.g 0 hl.symm
  have h3 := rotate_congr_PEq G h2
  have h4 := rotate_of_g_eq G ⟨P.g, 0 - p0Sum P.g⟩ P rfl
  unfold transform combine
  rw [hN]
  unfold rotationMap
  refine ⟨?_, ?_⟩
  · show (combineAux (flat P.g) (rotateRows G (idMap G.g.length)) ⟨idStr G.g.length, 0⟩).g = _
    rw [← h1.1, h3.1, h4.1]
  · have e1 := h1.2; have e3 := h3.2; have e4 := h4.2
    simp only [p0] at e4 ⊢
    omega

end Tr
end PC
