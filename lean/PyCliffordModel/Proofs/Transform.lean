import PyCliffordModel.Proofs.Rotate
/-! # Proofs/Transform — helper lemmas for C03 (combine/transform as a homomorphism) -/
namespace PC

end PC
