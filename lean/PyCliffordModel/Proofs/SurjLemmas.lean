import PyCliffordModel.Proofs.UniformLemmas
/-! helper lemmas for `Properties/C16d.lean`: the random-Clifford sampler reaches every symplectic list of rows -/
namespace PC
namespace Sj
open Rn Un

/-! ## the commutation pattern under maps that preserve `acq`, and of a tail -/

theorem getD_map (f : PStr → PStr) (rows : List PStr) (k : Nat) (hk : k < rows.length) :
    (rows.map f).getD k [] = f (rows.getD k []) := by
  simp [List.getD_eq_getElem?_getD, List.getElem?_map, List.getElem?_eq_getElem hk]

theorem getD_mem (rows : List PStr) (k : Nat) (hk : k < rows.length) : rows.getD k [] ∈ rows := by
  simp [List.getD_eq_getElem?_getD, List.getElem?_eq_getElem hk]

/-- a map that preserves the commutation of the rows preserves and reflects the canonical pattern -/
theorem SymS_map_iff (f : PStr → PStr) (rows : List PStr)
    (h : ∀ a ∈ rows, ∀ b ∈ rows, acq (f a) (f b) = acq a b) : SymS (rows.map f) ↔ SymS rows := by
  constructor
  · intro hs i j hi hj
    have := hs i j (by simpa using hi) (by simpa using hj)
    rwa [getD_map f rows i hi, getD_map f rows j hj, h _ (getD_mem rows i hi) _ (getD_mem rows j hj)] at this
  · intro hs i j hi hj
    have hi' : i < rows.length := by simpa using hi
    have hj' : j < rows.length := by simpa using hj
    rw [getD_map f rows i hi', getD_map f rows j hj', h _ (getD_mem rows i hi') _ (getD_mem rows j hj')]
    exact hs i j hi' hj'

/-- the pieces of the canonical pattern of `a :: b :: rest` (converse of `Rn.SymS_cons`) -/
theorem SymS_uncons (a b : PStr) (rest : List PStr) (hs : SymS (a :: b :: rest)) :
    acq a b = 1 ∧ (∀ c ∈ rest, acq a c = 0 ∧ acq b c = 0) ∧ SymS rest := by
  refine ⟨?_, ?_, ?_⟩
  · have := hs 0 1 (by simp) (by simp)
    simpa using this
  · intro c hc
    obtain ⟨k, hk, rfl⟩ := List.getElem_of_mem hc
    have h0 := hs 0 (k + 2) (by simp) (by simp; omega)
    have h1 := hs 1 (k + 2) (by simp) (by simp; omega)
    have e : (a :: b :: rest).getD (k + 2) [] = rest[k] := by
      simp [List.getD_eq_getElem?_getD, List.getElem?_eq_getElem hk]
    rw [e] at h0 h1
    have n0 : ¬ (0 / 2 = (k + 2) / 2 ∧ 0 ≠ k + 2) := by omega
    have n1 : ¬ (1 / 2 = (k + 2) / 2 ∧ 1 ≠ k + 2) := by omega
    rw [if_neg n0] at h0
    rw [if_neg n1] at h1
    exact ⟨by simpa using h0, by simpa using h1⟩
  · intro i j hi hj
    have := hs (i + 2) (j + 2) (by simp; omega) (by simp; omega)
    have e : ∀ k, (a :: b :: rest).getD (k + 2) [] = rest.getD k [] := by
      intro k; simp [List.getD_eq_getElem?_getD]
    rw [e, e] at this
    rw [this]
    by_cases hc : i / 2 = j / 2 ∧ i ≠ j
    · rw [if_pos hc, if_pos (by omega)]
    · rw [if_neg hc, if_neg (by omega)]

theorem acq_lift (a b : PStr) : acq ((false, false) :: a) ((false, false) :: b) = acq a b := by
  rw [Tr.acq_cons, acqQ_id_left]; unfold acq; omega

/-! ## rows commuting with `Z_0` and with an on-site `X`/`Y` at qubit 0 start with the identity -/

theorem q_of_comm (p q : Q) (hp : p.1 = true) (h1 : acqQ (false, true) q % 2 = 0) (h2 : acqQ p q % 2 = 0) :
    q = (false, false) := by
  obtain ⟨p1, p2⟩ := p; obtain ⟨q1, q2⟩ := q
  simp only at hp; subst hp
  revert h1 h2
  cases p2 <;> cases q1 <;> cases q2 <;> decide

theorem head_id_of_comm (n : Nat) (g2 r : PStr) (hr : r.length = n + 1)
    (ho : ∀ j, j ≠ 0 → getQ g2 j = (false, false)) (hx : (getQ g2 0).1 = true)
    (h1 : acq (unitZ (n + 1) 0) r = 0) (h2 : acq g2 r = 0) : r = (false, false) :: r.tail := by
  cases r with
  | nil => simp at hr
  | cons q qs =>
    unfold acq at h1 h2
    rw [acqSum_onsite_left _ _ 0 (unitZ_onsite _ _), getQ_unitZ _ _ _ (by omega), getQ_cons_zero] at h1
    rw [acqSum_onsite_left _ _ 0 ho, getQ_cons_zero] at h2
    simp only [beq_self_eq_true] at h1
    rw [q_of_comm _ q hx h1 h2]
    rfl

/-! ## one level of the recursion, inverted -/

/-- the remaining rows, rotated by the generators of `pauli_diagonalize2`, are lifted rows of the right shape -/
theorem reduce (n : Nat) (r1 r2 : PStr) (rest : List PStr)
    (l1 : r1.length = n + 1) (l2 : r2.length = n + 1) (lrest : rest.length = 2 * n)
    (hr : ∀ r ∈ rest, r.length = n + 1) (hs : SymS (r1 :: r2 :: rest)) :
    ∃ sub : List PStr, sub.length = 2 * n ∧ (∀ r ∈ sub, r.length = n) ∧ SymS sub ∧
      cliffStep r1 r2 sub = r1 :: r2 :: rest := by
  obtain ⟨ha, hx, hsr⟩ := SymS_uncons r1 r2 rest hs
  have hl12 : r1.length = r2.length := l1.trans l2.symm
  obtain ⟨d1, d2, d3, d4, d5, d6, d7⟩ := diag2_spec r1 r2 0 hl12 (by omega) ha
  obtain ⟨gens, hgens⟩ : ∃ gens, gens = (diagonalize2 r1 r2 0).1 := ⟨_, rfl⟩
  rw [← hgens] at d5 d6 d7
  have hgl : ∀ r ∈ rest, ∀ g ∈ gens, g.length = r.length := by
    intro r hr' g hg; rw [d7 g hg, l1, hr r hr']
  -- the rotated rows
  have hrot_len : ∀ r ∈ rest, (rotS gens r).length = n + 1 := by
    intro r hr'
    rw [length_rotS gens r (hgl r hr'), hr r hr']
  have hhead : ∀ r ∈ rest, rotS gens r = (false, false) :: (rotS gens r).tail := by
    intro r hr'
    apply head_id_of_comm n (diagonalize2 r1 r2 0).2.2 _ (hrot_len r hr') ((isOnsite_iff _ 0).1 d2) d3
    · have : unitZ (n + 1) 0 = rotS gens r1 := by rw [← d5, d1, l1]
      rw [this, acq_rotS gens r1 r d7 (by rw [l1, hr r hr'])]
      exact (hx r hr').1
    · rw [d6, acq_rotS gens r2 r (fun g hg => by rw [d7 g hg, hl12]) (by rw [l2, hr r hr'])]
      exact (hx r hr').2
  have hlift : ((rest.map (rotS gens)).map List.tail).map (fun r => ((false, false) : Q) :: r) =
      rest.map (rotS gens) := by
    rw [List.map_map, List.map_map]
    apply List.map_congr_left
    intro r hr'
    exact (hhead r hr').symm
  have hsrot : SymS (rest.map (rotS gens)) :=
    (SymS_map_iff (rotS gens) rest (fun a ha' b hb' =>
      acq_rotS gens a b (hgl a ha') (by rw [hr a ha', hr b hb']))).2 hsr
  refine ⟨(rest.map (rotS gens)).map List.tail, by simp [lrest], ?_, ?_, ?_⟩
  · intro r hr'
    simp only [List.mem_map] at hr'
    obtain ⟨_, ⟨r0, hr0, rfl⟩, rfl⟩ := hr'
    rw [List.length_tail, hrot_len r0 hr0]; rfl
  · rw [← hlift] at hsrot
    exact (SymS_map_iff _ _ (fun a _ b _ => acq_lift a b)).1 hsrot
  · rw [cliffStep_eq r1 r2 _ hl12 (by omega) ha, ← hgens, hlift, List.map_map]
    congr 2
    conv => rhs; rw [← List.map_id rest]
    apply List.map_congr_left
    intro r hr'
    exact rotS_reverse_cancel gens r (hgl r hr')

theorem fixP_of_anti (g1 g2 : PStr) (ha : acq g1 g2 = 1) : fixP g1 g2 = g2 := by
  unfold fixP; rw [if_neg (by rw [ha]; decide)]

/-- **surjectivity**, stated with `Un.tlen` -/
theorem surj : ∀ (n : Nat) (rows : List PStr), rows.length = 2 * n → (∀ r ∈ rows, r.length = n) → SymS rows →
    ∃ t, t.length = tlen n ∧ randomClifford n t = some (rows, [])
  | 0, rows, hl, _, _ => by
    rw [List.eq_nil_of_length_eq_zero hl]
    exact ⟨[], rfl, rfl⟩
  | n + 1, rows, hl, hr, hs => by
    match rows, hl, hr, hs with
    | r1 :: r2 :: rest, hl, hr, hs =>
      have l1 : r1.length = n + 1 := hr r1 (by simp)
      have l2 : r2.length = n + 1 := hr r2 (by simp)
      have lrest : rest.length = 2 * n := by simp only [List.length_cons] at hl; omega
      have hrr : ∀ r ∈ rest, r.length = n + 1 := fun r h => hr r (by simp [h])
      obtain ⟨ha, _, _⟩ := SymS_uncons r1 r2 rest hs
      have hany := anyBit_of_acq r1 r2 ha
      have key : ∃ sub : List PStr, sub.length = 2 * n ∧ (∀ r ∈ sub, r.length = n) ∧ SymS sub ∧
          stepRows n r1 r2 sub = r1 :: r2 :: rest := by
        by_cases hn : n = 0
        · subst hn
          rw [List.eq_nil_of_length_eq_zero lrest]
          exact ⟨[], rfl, by simp, fun i j hi => by simp at hi, by simp [stepRows]⟩
        · obtain ⟨sub, a, b, c, d⟩ := reduce n r1 r2 rest l1 l2 lrest hrr hs
          exact ⟨sub, a, b, c, by rw [stepRows, if_neg hn]; exact d⟩
      obtain ⟨sub, sl, sr, ss, hstep⟩ := key
      obtain ⟨u, hu, hcu⟩ := surj n sub sl sr ss
      refine ⟨flat r1 ++ (flat r2 ++ u), ?_, ?_⟩
      · simp only [List.length_append, Cp.length_flat, l1, l2, hu, tlen]; omega
      · rw [step_char n (flat r1) (flat r2) u _ (by rw [Cp.length_flat, l1]) (by rw [Cp.length_flat, l2]) hu]
        rw [unflat_flat, unflat_flat, fixP_of_anti r1 r2 ha]
        exact ⟨hany, sub, hcu, hstep.symm⟩

theorem tapeLen_eq (tl : Nat → Nat) (h0 : tl 0 = 0) (hs : ∀ n, tl (n + 1) = 4 * (n + 1) + tl n) :
    ∀ m, tl m = tlen m := by
  intro m
  induction m with
  | zero => exact h0
  | succ m ih => rw [hs, ih]; rfl

/-- **uniformity**, stated with `Un.tlen` and `Un.cnt` -/
theorem uniform (n : Nat) (rows : List PStr) (hl : rows.length = 2 * n) (hr : ∀ r ∈ rows, r.length = n)
    (hs : SymS rows) : cnt (tlen n) (fun t => randomClifford n t == some (rows, [])) = 2 ^ n := by
  obtain ⟨t, ht, hc⟩ := surj n rows hl hr hs
  rcases mult n rows with h0 | h0
  · exact absurd h0 (cnt_ne_zero _ _ t ht (by simp [hc]))
  · exact h0

end Sj
end PC
