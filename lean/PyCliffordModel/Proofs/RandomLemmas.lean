import PyCliffordModel.Proofs.Compose
import PyCliffordModel.Proofs.StateLemmas
import PyCliffordModel.Model.Diag
/-! # Proofs/RandomLemmas — helper lemmas for C16/C18 (diagonalisation generators, random pairs, random Cliffords) -/
namespace PC

end PC
