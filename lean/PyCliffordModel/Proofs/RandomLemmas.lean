import PyCliffordModel.Proofs.Compose
import PyCliffordModel.Proofs.StateLemmas
import PyCliffordModel.Model.Diag
/-! # Proofs/RandomLemmas — helper lemmas for C16/C18 (diagonalisation generators, random pairs, random Cliffords) -/
namespace PC
namespace Rn

/-! ## pointwise access: `getQ`, `setQ`, extensionality -/

theorem getQ_nil (i : Nat) : getQ [] i = (false, false) := by simp [getQ]
theorem getQ_cons_zero (q : Q) (qs : PStr) : getQ (q :: qs) 0 = q := by simp [getQ]
theorem getQ_cons_succ (q : Q) (qs : PStr) (i : Nat) : getQ (q :: qs) (i + 1) = getQ qs i := by simp [getQ]

theorem getQ_of_le (g : PStr) (i : Nat) (h : g.length ≤ i) : getQ g i = (false, false) := by
  simp [getQ, List.getD_eq_getElem?_getD, List.getElem?_eq_none h]

theorem getQ_of_lt (g : PStr) (i : Nat) (h : i < g.length) : getQ g i = g[i] := by
  simp [getQ, List.getD_eq_getElem?_getD, h]

theorem ext_getQ (a b : PStr) (hl : a.length = b.length) (h : ∀ j, j < a.length → getQ a j = getQ b j) : a = b := by
  apply List.ext_getElem hl
  intro i h1 h2
  have := h i h1
  rwa [getQ_of_lt a i h1, getQ_of_lt b i h2] at this

theorem length_setQ (g : PStr) (i : Nat) (q : Q) : (setQ g i q).length = g.length := by simp [setQ]

theorem getQ_setQ (g : PStr) (i : Nat) (q : Q) (j : Nat) (hi : i < g.length) :
    getQ (setQ g i q) j = if j = i then q else getQ g j := by
  unfold getQ setQ
  rw [List.getD_eq_getElem?_getD, List.getElem?_set, List.getD_eq_getElem?_getD]
  by_cases hji : j = i
  · subst hji; simp [hi]
  · have : ¬ i = j := fun h => hji h.symm
    simp [hji, this]

theorem getQ_setQ_self (g : PStr) (i : Nat) (q : Q) (hi : i < g.length) : getQ (setQ g i q) i = q := by
  rw [getQ_setQ g i q i hi]; simp

theorem getQ_setQ_ne (g : PStr) (i : Nat) (q : Q) (j : Nat) (hji : j ≠ i) : getQ (setQ g i q) j = getQ g j := by
  unfold getQ setQ
  rw [List.getD_eq_getElem?_getD, List.getElem?_set, List.getD_eq_getElem?_getD]
  have : ¬ i = j := fun h => hji h.symm
  simp [this]

theorem setQ_setQ (g : PStr) (i : Nat) (q r : Q) : setQ (setQ g i q) i r = setQ g i r := by
  simp [setQ]

theorem setQ_getQ (g : PStr) (i : Nat) : setQ g i (getQ g i) = g := by
  by_cases hi : i < g.length
  · apply ext_getQ _ _ (length_setQ _ _ _)
    intro j _
    rw [getQ_setQ g i _ j hi]
    by_cases hji : j = i
    · subst hji; simp
    · simp [hji]
  · simp [setQ, List.set_eq_of_length_le (Nat.le_of_not_lt hi)]

theorem getQ_xorS : ∀ (a b : PStr) (j : Nat), a.length = b.length →
    getQ (xorS a b) j = xorQ (getQ a j) (getQ b j)
  | [], [], j, _ => by simp [xorS, getQ_nil, xorQ]
  | [], _ :: _, _, h => by simp at h
  | _ :: _, [], _, h => by simp at h
  | x :: xs, y :: ys, 0, _ => by simp [xorS_cons, getQ_cons_zero]
  | x :: xs, y :: ys, j + 1, h => by
    simp only [xorS_cons, getQ_cons_succ]
    exact getQ_xorS xs ys j (by simpa using h)

theorem getQ_idStr (n j : Nat) : getQ (idStr n) j = (false, false) := by
  unfold getQ idStr
  rw [List.getD_eq_getElem?_getD, List.getElem?_replicate]
  split <;> rfl

theorem getQ_unitZ (n k j : Nat) (hj : j < n) : getQ (unitZ n k) j = (false, j == k) := by
  unfold getQ unitZ
  rw [List.getD_eq_getElem?_getD]
  simp [hj]

theorem getQ_placeQ (n k j : Nat) (q : Q) (hj : j < n) : getQ (placeQ n k q) j = if j = k then q else (false, false) := by
  unfold getQ placeQ
  rw [List.getD_eq_getElem?_getD]
  simp [hj]

theorem length_placeQ (n k : Nat) (q : Q) : (placeQ n k q).length = n := by simp [placeQ]

/-! ## `acqSum` when one qubit is replaced -/

theorem acqSum_setQ_right : ∀ (g h : PStr) (i : Nat) (q : Q), i < h.length →
    acqSum g (setQ h i q) = acqSum g h - acqQ (getQ g i) (getQ h i) + acqQ (getQ g i) q
  | [], h, i, q, _ => by simp [acqSum_nil_left, getQ_nil, acqQ_id_left]
  | _ :: _, [], _, _, hi => by simp at hi
  | x :: xs, y :: ys, 0, q, _ => by
    simp only [setQ, List.set_cons_zero, acqSum_cons, getQ_cons_zero]; omega
  | x :: xs, y :: ys, i + 1, q, hi => by
    have ih := acqSum_setQ_right xs ys i q (by simpa using hi)
    simp only [setQ, List.set_cons_succ, acqSum_cons, getQ_cons_succ] at ih ⊢
    omega

theorem acqSum_setQ_left (g h : PStr) (i : Nat) (q : Q) (hi : i < g.length) :
    acqSum (setQ g i q) h = acqSum g h - acqQ (getQ g i) (getQ h i) + acqQ q (getQ h i) := by
  rw [acqSum_antisymm, acqSum_setQ_right h g i q hi, acqSum_antisymm h g, acqQ_antisymm (getQ h i) (getQ g i),
    acqQ_antisymm (getQ h i) q]
  omega

/-- a string that vanishes outside qubit `i` only sees qubit `i` of the partner -/
theorem acqSum_onsite_right : ∀ (g h : PStr) (i : Nat), (∀ j, j ≠ i → getQ h j = (false, false)) →
    acqSum g h = acqQ (getQ g i) (getQ h i)
  | [], h, i, _ => by simp [acqSum_nil_left, getQ_nil, acqQ_id_left]
  | g, [], i, _ => by simp [acqSum_nil_right, getQ_nil, acqQ_id_right]
  | x :: xs, y :: ys, 0, hz => by
    have : acqSum xs ys = 0 := by
      cases xs with
      | nil => exact acqSum_nil_left _
      | cons x' xs' =>
        rw [acqSum_onsite_right (x' :: xs') ys (ys.length) (fun j hj => by
          have := hz (j + 1) (by omega); rwa [getQ_cons_succ] at this)]
        rw [getQ_of_le ys _ (Nat.le_refl _), acqQ_id_right]
    simp [acqSum_cons, getQ_cons_zero, this]
  | x :: xs, y :: ys, i + 1, hz => by
    have hy : y = (false, false) := by have := hz 0 (by omega); rwa [getQ_cons_zero] at this
    rw [acqSum_cons, getQ_cons_succ, getQ_cons_succ, hy, acqQ_id_right,
      acqSum_onsite_right xs ys i (fun j hj => by
        have := hz (j + 1) (by omega); rwa [getQ_cons_succ] at this)]
    omega

theorem acqSum_onsite_left (g h : PStr) (i : Nat) (hz : ∀ j, j ≠ i → getQ g j = (false, false)) :
    acqSum g h = acqQ (getQ g i) (getQ h i) := by
  rw [acqSum_antisymm, acqSum_onsite_right h g i hz, ← acqQ_antisymm]

/-! ## `isOnsite`, `anyBit`, `front` -/

theorem nontrivQ_eq_false (q : Q) : nontrivQ q = false ↔ q = (false, false) := by
  obtain ⟨a, b⟩ := q; cases a <;> cases b <;> simp [nontrivQ]

theorem isOnsite_iff (g : PStr) (i0 : Nat) :
    isOnsite g i0 = true ↔ ∀ j, j ≠ i0 → getQ g j = (false, false) := by
  unfold isOnsite
  rw [List.all_eq_true]
  constructor
  · intro h j hj
    by_cases hl : j < g.length
    · have := h j (List.mem_range.2 hl)
      simp only [Bool.or_eq_true, beq_iff_eq, Bool.not_eq_true', nontrivQ_eq_false] at this
      rcases this with h1 | h1
      · exact absurd h1 hj
      · exact h1
    · exact getQ_of_le g j (Nat.le_of_not_lt hl)
  · intro h j _
    by_cases hj : j = i0
    · simp [hj]
    · have := h j hj
      simp only [Bool.or_eq_true, beq_iff_eq, Bool.not_eq_true', nontrivQ_eq_false]
      exact Or.inr this

theorem anyBit_iff (g : PStr) : anyBit g = true ↔ ∃ j, j < g.length ∧ nontrivQ (getQ g j) = true := by
  unfold anyBit
  rw [List.any_eq_true]
  constructor
  · rintro ⟨q, hq, hn⟩
    obtain ⟨j, hj, rfl⟩ := List.getElem_of_mem hq
    exact ⟨j, hj, by rw [getQ_of_lt g j hj]; exact hn⟩
  · rintro ⟨j, hj, hn⟩
    rw [getQ_of_lt g j hj] at hn
    exact ⟨g[j], List.getElem_mem hj, hn⟩

theorem anyBit_eq_false (g : PStr) (h : anyBit g = false) : g = idStr g.length := by
  apply ext_getQ _ _ (length_idStr _).symm
  intro j hj
  rw [getQ_idStr, ← nontrivQ_eq_false]
  cases hn : nontrivQ (getQ g j) with
  | false => rfl
  | true => rw [(anyBit_iff g).2 ⟨j, hj, hn⟩] at h; cases h

theorem front_spec (g : PStr) (h : anyBit g = true) :
    front g < g.length ∧ nontrivQ (getQ g (front g)) = true := by
  unfold front
  cases hf : g.findIdx? nontrivQ with
  | none =>
    exfalso
    rw [List.findIdx?_eq_none_iff] at hf
    obtain ⟨j, hj, hn⟩ := (anyBit_iff g).1 h
    rw [getQ_of_lt g j hj, hf _ (List.getElem_mem hj)] at hn
    cases hn
  | some i =>
    obtain ⟨hi, hp, _⟩ := List.findIdx?_eq_some_iff_getElem.1 hf
    exact ⟨hi, by rw [getQ_of_lt g i hi]; exact hp⟩

/-! ## the two generators of `pauli_diagonalize1/2` -/

theorem cyc_anti (q : Q) (h : nontrivQ q = true) : acqQ (q.1 != q.2, q.2 != (q.1 != q.2)) q % 2 = 1 := by
  obtain ⟨a, b⟩ := q; revert h; cases a <;> cases b <;> decide

theorem length_diagGenB (g : PStr) (i0 : Nat) : (diagGenB g i0).length = g.length := length_setQ _ _ _

theorem length_diagGenA (g : PStr) (i0 : Nat) : (diagGenA g i0).length = g.length := by
  unfold diagGenA
  simp only
  split <;> simp [length_setQ]

/-- second stage: `g ⊕ Z_{i0}` anticommutes with `g` when the `x` bit at `i0` is set; the rotation gives `Z_{i0}` -/
theorem diagGenB_spec (g : PStr) (i0 : Nat) (hi : i0 < g.length) (hx : (getQ g i0).1 = true) :
    acq (diagGenB g i0) g = 1 ∧ xorS g (diagGenB g i0) = unitZ g.length i0 := by
  refine ⟨?_, ?_⟩
  · unfold acq diagGenB
    rw [acqSum_setQ_left g g i0 _ hi, acqSum_self, acqQ_self]
    generalize getQ g i0 = q at hx
    obtain ⟨a, b⟩ := q
    simp only at hx; subst hx
    cases b <;> decide
  · apply ext_getQ
    · rw [length_xorS_eq _ _ (length_diagGenB g i0).symm, Tr.length_unitZ]
    · intro j hj
      rw [length_xorS_eq _ _ (length_diagGenB g i0).symm] at hj
      rw [getQ_xorS _ _ _ (length_diagGenB g i0).symm, getQ_unitZ _ _ _ hj]
      unfold diagGenB
      rw [getQ_setQ g i0 _ j hi]
      by_cases hji : j = i0
      · subst hji
        generalize getQ g j = q at hx
        obtain ⟨a, b⟩ := q
        simp only at hx; subst hx
        cases b <;> simp [xorQ]
      · simp [hji, xorQ_self]

/-- first stage: the generator anticommutes with `g`, and `g ⊕ gen` has its `x` bit set at `i0` -/
theorem diagGenA_spec (g : PStr) (i0 : Nat) (hi : i0 < g.length) (hany : anyBit g = true)
    (hx : (getQ g i0).1 = false) :
    acq (diagGenA g i0) g = 1 ∧ (getQ (xorS g (diagGenA g i0)) i0).1 = true := by
  have hlen := length_diagGenA g i0
  rw [getQ_xorS _ _ _ hlen.symm]
  unfold diagGenA
  simp only
  cases hz : (getQ g i0).2 with
  | true =>
    simp only [Bool.not_true, Bool.false_eq_true, if_false, hz]
    refine ⟨?_, ?_⟩
    · unfold acq
      rw [acqSum_setQ_left g g i0 _ hi, acqSum_self, acqQ_self]
      generalize getQ g i0 = q at hx hz
      obtain ⟨a, b⟩ := q
      simp only at hx hz; subst hx; subst hz
      decide
    · rw [getQ_setQ_self g i0 _ hi]
      generalize getQ g i0 = q at hx hz
      obtain ⟨a, b⟩ := q
      simp only at hx hz; subst hx; subst hz
      rfl
  | false =>
    simp only [Bool.not_false, if_true]
    obtain ⟨hf, hn⟩ := front_spec g hany
    have hq0 : getQ g i0 = (false, false) := by
      generalize getQ g i0 = q at hx hz
      obtain ⟨a, b⟩ := q
      simp only at hx hz; subst hx; subst hz; rfl
    have hne : i0 ≠ front g := by
      intro h; rw [← h, hq0] at hn; cases hn
    have hi' : i0 < (setQ g (front g) ((getQ g (front g)).1 != (getQ g (front g)).2,
        (getQ g (front g)).2 != ((getQ g (front g)).1 != (getQ g (front g)).2))).length := by
      rw [length_setQ]; exact hi
    refine ⟨?_, ?_⟩
    · unfold acq
      rw [acqSum_setQ_left _ g i0 _ hi', hq0, acqQ_id_right, acqQ_id_right,
        acqSum_setQ_left g g (front g) _ hf, acqSum_self, acqQ_self]
      have := cyc_anti (getQ g (front g)) hn
      omega
    · rw [getQ_setQ_self _ i0 _ hi', hq0]; rfl

/-! ## signless rotations -/

/-- apply a list of signless rotations in order (`rotSeqS` of `Properties/C16`) -/
def rotS (gens : List PStr) (h : PStr) : PStr := gens.foldl (fun x g => rotateSignless g x) h

theorem rotS_nil (h : PStr) : rotS [] h = h := rfl
theorem rotS_cons (g : PStr) (gs : List PStr) (h : PStr) : rotS (g :: gs) h = rotS gs (rotateSignless g h) := rfl
theorem rotS_append (gs hs : List PStr) (h : PStr) : rotS (gs ++ hs) h = rotS hs (rotS gs h) := by
  simp [rotS, List.foldl_append]

theorem rotateSignless_anti (g h : PStr) (ha : acq g h = 1) : rotateSignless g h = xorS h g := by
  simp [rotateSignless, (anti_iff _ _).2 ha]
theorem rotateSignless_comm (g h : PStr) (ha : acq g h = 0) : rotateSignless g h = h := by
  simp [rotateSignless, (anti_eq_false_iff _ _).2 ha]

theorem length_rotateSignless (g h : PStr) (hl : g.length = h.length) : (rotateSignless g h).length = h.length := by
  have := length_rotate ⟨g, 0⟩ ⟨h, 0⟩ hl
  rwa [rotate_g] at this

theorem acq_rotateSignless (g a b : PStr) (ha : g.length = a.length) (hb : g.length = b.length) :
    acq (rotateSignless g a) (rotateSignless g b) = acq a b := by
  have := rotate_acq ⟨g, 0⟩ ⟨a, 0⟩ ⟨b, 0⟩ ha hb
  rwa [rotate_g, rotate_g] at this

theorem length_rotS : ∀ (gs : List PStr) (h : PStr), (∀ g ∈ gs, g.length = h.length) → (rotS gs h).length = h.length
  | [], _, _ => rfl
  | g :: gs, h, hl => by
    have h1 := length_rotateSignless g h (hl g (by simp))
    rw [rotS_cons, length_rotS gs _ (fun g' hg' => by rw [h1]; exact hl g' (by simp [hg'])), h1]

theorem acq_rotS : ∀ (gs : List PStr) (a b : PStr), (∀ g ∈ gs, g.length = a.length) → a.length = b.length →
    acq (rotS gs a) (rotS gs b) = acq a b
  | [], _, _, _, _ => rfl
  | g :: gs, a, b, hl, hab => by
    have h1 := length_rotateSignless g a (hl g (by simp))
    have h2 := length_rotateSignless g b ((hl g (by simp)).trans hab)
    rw [rotS_cons, rotS_cons, acq_rotS gs _ _ (fun g' hg' => by rw [h1]; exact hl g' (by simp [hg']))
      (by rw [h1, h2]; exact hab), acq_rotateSignless g a b (hl g (by simp)) ((hl g (by simp)).trans hab)]

/-! ## `pauli_diagonalize1` on strings -/

theorem onsite_unitZ (g : PStr) (i0 : Nat) (hi : i0 < g.length) (hany : anyBit g = true)
    (ho : isOnsite g i0 = true) (hx : (getQ g i0).1 = false) : g = unitZ g.length i0 := by
  rw [isOnsite_iff] at ho
  obtain ⟨j, hj, hn⟩ := (anyBit_iff g).1 hany
  have hji : j = i0 := by
    by_cases h : j = i0
    · exact h
    · rw [ho j h] at hn; cases hn
  subst hji
  apply ext_getQ _ _ (Tr.length_unitZ _ _).symm
  intro k hk
  rw [getQ_unitZ _ _ _ hk]
  by_cases hkj : k = j
  · subst hkj
    generalize getQ g k = q at hx hn
    obtain ⟨a, b⟩ := q
    simp only at hx; subst hx
    cases b
    · cases hn
    · simp
  · rw [ho k hkj]; simp [hkj]

theorem diag1_strings (g : PStr) (i0 : Nat) (hi : i0 < g.length) (hany : anyBit g = true) :
    rotS (diagonalize1 g i0) g = unitZ g.length i0 ∧ (∀ h ∈ diagonalize1 g i0, h.length = g.length) := by
  unfold diagonalize1
  by_cases hA : (isOnsite g i0 && !(getQ g i0).1) = true
  · simp only [hA, Bool.not_true, Bool.false_eq_true, if_false]
    simp only [Bool.and_eq_true, Bool.not_eq_true'] at hA
    exact ⟨onsite_unitZ g i0 hi hany hA.1 hA.2, by simp⟩
  · have hA' : (isOnsite g i0 && !(getQ g i0).1) = false := by simpa using hA
    simp only [hA', Bool.not_false, if_true]
    cases hx : (getQ g i0).1 with
    | false =>
      simp only [Bool.not_false, if_true]
      obtain ⟨ha, hx'⟩ := diagGenA_spec g i0 hi hany hx
      have hlA := length_diagGenA g i0
      have hl1 : (xorS g (diagGenA g i0)).length = g.length := length_xorS_eq _ _ hlA.symm
      obtain ⟨hb, hz⟩ := diagGenB_spec (xorS g (diagGenA g i0)) i0 (by rw [hl1]; exact hi) hx'
      refine ⟨?_, ?_⟩
      · rw [rotS_cons, rotS_cons, rotS_nil, rotateSignless_anti _ _ ha, rotateSignless_anti _ _ hb, hz, hl1]
      · intro h hh
        simp only [List.mem_cons, List.not_mem_nil, or_false] at hh
        rcases hh with rfl | rfl
        · exact hlA
        · rw [length_diagGenB, hl1]
    | true =>
      simp only [Bool.not_true, Bool.false_eq_true, if_false]
      obtain ⟨hb, hz⟩ := diagGenB_spec g i0 hi hx
      refine ⟨?_, ?_⟩
      · rw [rotS_cons, rotS_nil, rotateSignless_anti _ _ hb, hz]
      · intro h hh
        simp only [List.mem_cons, List.not_mem_nil, or_false] at hh
        subst hh
        exact length_diagGenB g i0

/-! ## signed rotations: strings follow `rotS`, the phase keeps its parity -/

theorem rotate_p_parity (G P : Pauli) (hG : G.p % 2 = 0) : (rotate G P).p % 2 = P.p % 2 := by
  rcases acq_bit G.g P.g with h | h
  · rw [rotate_of_acq_zero G P h]
  · rw [rotate_of_acq_one G P h]
    have hpar := ipow_parity P.g G.g
    rw [acq_symm, h] at hpar
    simp only
    omega

/-- apply a list of rotations with phase-0 generators in order (`rotSeq` of `Properties/C16`) -/
def rotP (gens : List PStr) (P : Pauli) : Pauli := gens.foldl (fun Q g => rotate ⟨g, 0⟩ Q) P

theorem rotP_spec : ∀ (gens : List PStr) (P : Pauli),
    (rotP gens P).g = rotS gens P.g ∧ (rotP gens P).p % 2 = P.p % 2
  | [], _ => ⟨rfl, rfl⟩
  | g :: gs, P => by
    obtain ⟨h1, h2⟩ := rotP_spec gs (rotate ⟨g, 0⟩ P)
    refine ⟨?_, ?_⟩
    · show (rotP gs (rotate ⟨g, 0⟩ P)).g = _
      rw [h1, rotate_g, rotS_cons]
    · show (rotP gs (rotate ⟨g, 0⟩ P)).p % 2 = _
      rw [h2, rotate_p_parity _ _ (by rfl)]

/-! ## `pauli_diagonalize2` -/

/-- the first stage of `pauli_diagonalize2` is `pauli_diagonalize1` applied to both strings -/
theorem diagonalize2_eq (g1 g2 : PStr) (i0 : Nat) (hi : i0 < g1.length) (hany : anyBit g1 = true) :
    diagonalize2 g1 g2 i0 =
      (if !isOnsite (rotS (diagonalize1 g1 i0) g2) i0 then
        (diagonalize1 g1 i0 ++ [setQ (rotS (diagonalize1 g1 i0) g2) i0 (false, true)], rotS (diagonalize1 g1 i0) g1,
          xorS (rotS (diagonalize1 g1 i0) g2) (setQ (rotS (diagonalize1 g1 i0) g2) i0 (false, true)))
      else (diagonalize1 g1 i0, rotS (diagonalize1 g1 i0) g1, rotS (diagonalize1 g1 i0) g2)) := by
  unfold diagonalize2 diagonalize1
  by_cases hA : (isOnsite g1 i0 && !(getQ g1 i0).1) = true
  · simp only [hA, Bool.not_true, Bool.false_eq_true, if_false, rotS_nil, List.nil_append]
  · have hA' : (isOnsite g1 i0 && !(getQ g1 i0).1) = false := by simpa using hA
    simp only [hA', Bool.not_false, if_true]
    cases hx : (getQ g1 i0).1 with
    | false =>
      simp only [Bool.not_false, if_true]
      obtain ⟨ha, hx'⟩ := diagGenA_spec g1 i0 hi hany hx
      have hlA := length_diagGenA g1 i0
      have hl1 : (xorS g1 (diagGenA g1 i0)).length = g1.length := length_xorS_eq _ _ hlA.symm
      obtain ⟨hb, hz⟩ := diagGenB_spec (xorS g1 (diagGenA g1 i0)) i0 (by rw [hl1]; exact hi) hx'
      simp only [rotS_cons, rotS_nil, rotateSignless_anti _ _ ha, rotateSignless_anti _ _ hb, List.cons_append,
        List.nil_append]
    | true =>
      simp only [Bool.not_true, Bool.false_eq_true, if_false]
      obtain ⟨hb, hz⟩ := diagGenB_spec g1 i0 hi hx
      simp only [rotS_cons, rotS_nil, rotateSignless_anti _ _ hb, List.nil_append]

theorem anyBit_of_acq (g1 g2 : PStr) (ha : acq g1 g2 = 1) : anyBit g1 = true := by
  cases h : anyBit g1 with
  | true => rfl
  | false =>
    rw [anyBit_eq_false g1 h, acq_idStr_left] at ha
    cases ha

theorem unitZ_onsite (n i0 : Nat) : ∀ j, j ≠ i0 → getQ (unitZ n i0) j = (false, false) := by
  intro j hj
  by_cases hjn : j < n
  · rw [getQ_unitZ _ _ _ hjn]; simp [hj]
  · exact getQ_of_le _ _ (by rw [Tr.length_unitZ]; omega)

theorem acqZ_x (q : Q) : acqQ (false, true) q % 2 = 1 ↔ q.1 = true := by
  obtain ⟨a, b⟩ := q; cases a <;> cases b <;> decide

theorem diag2_spec (g1 g2 : PStr) (i0 : Nat) (hl : g1.length = g2.length) (hi : i0 < g1.length)
    (ha : acq g1 g2 = 1) :
    (diagonalize2 g1 g2 i0).2.1 = unitZ g1.length i0 ∧ isOnsite (diagonalize2 g1 g2 i0).2.2 i0 = true ∧
    (getQ (diagonalize2 g1 g2 i0).2.2 i0).1 = true ∧ (diagonalize2 g1 g2 i0).2.2.length = g1.length ∧
    (diagonalize2 g1 g2 i0).2.1 = rotS (diagonalize2 g1 g2 i0).1 g1 ∧
    (diagonalize2 g1 g2 i0).2.2 = rotS (diagonalize2 g1 g2 i0).1 g2 ∧
    (∀ h ∈ (diagonalize2 g1 g2 i0).1, h.length = g1.length) := by
  have hany := anyBit_of_acq g1 g2 ha
  obtain ⟨hz, hlen⟩ := diag1_strings g1 i0 hi hany
  rw [diagonalize2_eq g1 g2 i0 hi hany]
  generalize diagonalize1 g1 i0 = gs at hz hlen
  have hb : (rotS gs g2).length = g1.length := by
    rw [length_rotS gs g2 (fun g hg => by rw [hlen g hg, hl]), hl]
  have hab : acq (rotS gs g1) (rotS gs g2) = 1 := by rw [acq_rotS gs g1 g2 hlen hl, ha]
  obtain ⟨b, hbdef⟩ : ∃ b, b = rotS gs g2 := ⟨_, rfl⟩
  rw [← hbdef] at hb hab ⊢
  rw [hz] at hab ⊢
  have hbx : (getQ b i0).1 = true := by
    unfold acq at hab
    rw [acqSum_onsite_left _ b i0 (unitZ_onsite _ _), getQ_unitZ _ _ _ hi] at hab
    simp only [beq_self_eq_true] at hab
    exact (acqZ_x _).1 hab
  have hi' : i0 < b.length := by rw [hb]; exact hi
  cases ho : isOnsite b i0 with
  | true =>
    simp only [Bool.not_true, Bool.false_eq_true, if_false]
    exact ⟨by trivial, ho, hbx, hb, hz.symm, hbdef, hlen⟩
  | false =>
    simp only [Bool.not_false, if_true]
    have hlg : (setQ b i0 (false, true)).length = b.length := length_setQ _ _ _
    refine ⟨by trivial, ?_, ?_, ?_, ?_, ?_, ?_⟩
    · rw [isOnsite_iff]
      intro j hj
      rw [getQ_xorS _ _ _ hlg.symm, getQ_setQ_ne _ _ _ _ hj, xorQ_self]
    · rw [getQ_xorS _ _ _ hlg.symm, getQ_setQ_self _ _ _ hi']
      simp [xorQ, hbx]
    · rw [length_xorS_eq _ _ hlg.symm, hb]
    · rw [rotS_append, hz, rotS_cons, rotS_nil, rotateSignless_comm]
      unfold acq
      rw [acqSum_onsite_right _ _ i0 (unitZ_onsite _ _), getQ_setQ_self _ _ _ hi', getQ_unitZ _ _ _ hi]
      simp only [beq_self_eq_true]
      decide
    · rw [rotS_append, rotS_cons, rotS_nil, ← hbdef, rotateSignless_anti]
      unfold acq
      rw [acqSum_setQ_left b b i0 _ hi', acqSum_self, acqQ_self]
      have := (acqZ_x (getQ b i0)).2 hbx
      omega
    · intro h hh
      rw [List.mem_append] at hh
      rcases hh with hh | hh
      · exact hlen h hh
      · simp only [List.mem_cons, List.not_mem_nil, or_false] at hh
        rw [hh, hlg, hb]

/-! ## `random_pair` -/

theorem takeBits_some (k : Nat) (tape b t : List Bool) (h : takeBits k tape = some (b, t)) :
    b.length = k ∧ tape = b ++ t := by
  unfold takeBits at h
  split at h
  · cases h
  · rename_i hk
    simp only [Option.some.injEq, Prod.mk.injEq] at h
    obtain ⟨rfl, rfl⟩ := h
    exact ⟨by rw [List.length_take]; omega, (List.take_append_drop k tape).symm⟩

theorem takeBits_append (k : Nat) (b t : List Bool) (h : b.length = k) : takeBits k (b ++ t) = some (b, t) := by
  unfold takeBits
  rw [if_neg (by simp; omega)]
  subst h
  simp

theorem resample_spec (n : Nat) : ∀ (fuel : Nat) (g : PStr) (tape : List Bool) (g' : PStr) (t' : List Bool),
    resample n fuel g tape = some (g', t') → g.length = n → anyBit g' = true ∧ g'.length = n
  | 0, g, tape, g', t', h, hl => by
    unfold resample at h
    split at h
    · rename_i ha
      simp only [Option.some.injEq, Prod.mk.injEq] at h
      obtain ⟨rfl, rfl⟩ := h
      exact ⟨ha, hl⟩
    · cases h
  | fuel + 1, g, tape, g', t', h, hl => by
    unfold resample at h
    split at h
    · rename_i ha
      simp only [Option.some.injEq, Prod.mk.injEq] at h
      obtain ⟨rfl, rfl⟩ := h
      exact ⟨ha, hl⟩
    · split at h
      · cases h
      · rename_i b tape' hb
        exact resample_spec n fuel _ _ _ _ h (Cp.length_unflat b n (takeBits_some _ _ _ _ hb).1)

theorem resample_of_anyBit (n fuel : Nat) (g : PStr) (tape : List Bool) (h : anyBit g = true) :
    resample n fuel g tape = some (g, tape) := by
  cases fuel <;> simp [resample, h]

/-- the one-qubit correction of `random_pair` -/
def flipQ (a b : Q) : Q := (b.1 != a.2, (b.2 != a.1) != a.2)
/-- the second string of `random_pair` as a function of the first string and the raw draw -/
def fixP (g1 x : PStr) : PStr :=
  if acq g1 x = 0 then setQ x (front g1) (flipQ (getQ g1 (front g1)) (getQ x (front g1))) else x

theorem randomPair_eq (n : Nat) (tape : List Bool) : randomPair n tape =
    match takeBits (2 * n) tape with
    | none => none
    | some (b1, t1) =>
      match takeBits (2 * n) t1 with
      | none => none
      | some (b2, t2) =>
        match resample n t2.length (unflat b1) t2 with
        | none => none
        | some (g1, t3) => some ((g1, fixP g1 (unflat b2)), t3) := by
  unfold randomPair
  cases takeBits (2 * n) tape with
  | none => rfl
  | some p1 =>
    obtain ⟨b1, t1⟩ := p1
    simp only
    cases takeBits (2 * n) t1 with
    | none => rfl
    | some p2 =>
      obtain ⟨b2, t2⟩ := p2
      simp only
      cases resample n t2.length (unflat b1) t2 with
      | none => rfl
      | some p3 =>
        obtain ⟨g1, t3⟩ := p3
        simp only [fixP, flipQ]
        split <;> rfl

theorem flipQ_anti (a b : Q) (ha : nontrivQ a = true) : (acqQ a (flipQ a b) - acqQ a b) % 2 = 1 := by
  obtain ⟨a1, a2⟩ := a; obtain ⟨b1, b2⟩ := b
  revert ha; cases a1 <;> cases a2 <;> cases b1 <;> cases b2 <;> decide

theorem flipQ_flipQ (a b : Q) : flipQ a (flipQ a b) = b := by
  obtain ⟨a1, a2⟩ := a; obtain ⟨b1, b2⟩ := b
  cases a1 <;> cases a2 <;> cases b1 <;> cases b2 <;> rfl

theorem length_fixP (g1 x : PStr) : (fixP g1 x).length = x.length := by
  unfold fixP; split
  · exact length_setQ _ _ _
  · rfl

/-- flipping the partner at the first non-trivial qubit of `g1` toggles the commutation with `g1` -/
theorem acq_flip (g1 x : PStr) (hl : g1.length = x.length) (hany : anyBit g1 = true) :
    acq g1 (setQ x (front g1) (flipQ (getQ g1 (front g1)) (getQ x (front g1)))) = (acq g1 x + 1) % 2 := by
  obtain ⟨hf, hn⟩ := front_spec g1 hany
  unfold acq
  rw [acqSum_setQ_right g1 x _ _ (by rw [← hl]; exact hf)]
  have := flipQ_anti (getQ g1 (front g1)) (getQ x (front g1)) hn
  omega

theorem acq_fixP (g1 x : PStr) (hl : g1.length = x.length) (hany : anyBit g1 = true) : acq g1 (fixP g1 x) = 1 := by
  unfold fixP
  split
  · rename_i h0
    rw [acq_flip g1 x hl hany, h0]; rfl
  · rename_i h0
    rcases acq_bit g1 x with h | h
    · exact absurd h h0
    · exact h

theorem randomPair_spec (n : Nat) (tape rest : List Bool) (g1 g2 : PStr)
    (h : randomPair n tape = some ((g1, g2), rest)) :
    acq g1 g2 = 1 ∧ g1.length = n ∧ g2.length = n ∧ anyBit g1 = true := by
  rw [randomPair_eq] at h
  split at h
  · cases h
  · rename_i b1 t1 hb1
    split at h
    · cases h
    · rename_i b2 t2 hb2
      split at h
      · cases h
      · rename_i g1' t3 hr
        simp only [Option.some.injEq, Prod.mk.injEq] at h
        obtain ⟨⟨rfl, rfl⟩, rfl⟩ := h
        obtain ⟨hany, hl1⟩ := resample_spec n _ _ _ _ _ hr (Cp.length_unflat b1 n (takeBits_some _ _ _ _ hb1).1)
        have hl2 : (unflat b2).length = n := Cp.length_unflat b2 n (takeBits_some _ _ _ _ hb2).1
        exact ⟨acq_fixP _ _ (hl1.trans hl2.symm) hany, hl1, by rw [length_fixP, hl2], hany⟩

/-! ## commutation pattern of a list of strings, `signedMap` -/

/-- a string as an operator with phase 0 -/
def toP (g : PStr) : Pauli := ⟨g, 0⟩

/-- canonical commutation relations of a list of strings (index form) -/
def SymS (rows : List PStr) : Prop := ∀ i j, i < rows.length → j < rows.length →
    acq (rows.getD i []) (rows.getD j []) = if i / 2 = j / 2 ∧ i ≠ j then 1 else 0

theorem symS_iff (rows : List PStr) : SymS rows ↔ Tr.Sympl (rows.map toP) := by
  constructor
  · intro h i j hi hj
    have hi' : i < rows.length := by simpa using hi
    have hj' : j < rows.length := by simpa using hj
    rw [Cp.rowAt_map' toP rows [] i hi', Cp.rowAt_map' toP rows [] j hj']
    exact h i j hi' hj'
  · intro h i j hi hj
    have := h i j (by simpa using hi) (by simpa using hj)
    rwa [Cp.rowAt_map' toP rows [] i hi, Cp.rowAt_map' toP rows [] j hj] at this

theorem SymS_cons (a b : PStr) (rest : List PStr) (hab : acq a b = 1)
    (hx : ∀ c ∈ rest, acq a c = 0 ∧ acq b c = 0) (hr : SymS rest) : SymS (a :: b :: rest) := by
  rw [symS_iff] at hr ⊢
  simp only [List.map_cons]
  apply Tr.Sympl_cons _ _ _ hab _ hr
  intro c hc
  obtain ⟨c', hc', rfl⟩ := List.mem_map.1 hc
  exact hx c' hc'

theorem SymS_map_lift (rest : List PStr) (hr : SymS rest) : SymS (rest.map fun r => (false, false) :: r) := by
  rw [symS_iff] at hr ⊢
  have := Tr.Sympl_map_lift _ hr
  rw [List.map_map] at this ⊢
  exact this

theorem SymS_map_rot (g : PStr) (rows : List PStr) (hl : ∀ r ∈ rows, g.length = r.length) (hr : SymS rows) :
    SymS (rows.map (rotateSignless g)) := by
  intro i j hi hj
  have hi' : i < rows.length := by simpa using hi
  have hj' : j < rows.length := by simpa using hj
  have e : ∀ k, k < rows.length → (rows.map (rotateSignless g)).getD k [] = rotateSignless g (rows.getD k []) := by
    intro k hk
    simp [List.getD_eq_getElem?_getD, List.getElem?_map, List.getElem?_eq_getElem hk]
  have m : ∀ k, k < rows.length → rows.getD k [] ∈ rows := by
    intro k hk
    simp [List.getD_eq_getElem?_getD, List.getElem?_eq_getElem hk]
  rw [e i hi', e j hj', acq_rotateSignless g _ _ (hl _ (m i hi')) (hl _ (m j hj'))]
  exact hr i j hi' hj'

theorem signedMap_valid (rows : List PStr) (signs : List Bool) (n : Nat) (hlen : rows.length = 2 * n)
    (hl : ∀ r ∈ rows, r.length = n) (hs : SymS rows) : ValidMap (signedMap rows signs) n := by
  have hrow : ∀ i, i < rows.length →
      rowAt (signedMap rows signs) i = ⟨rows.getD i [], if signs.getD i false then 2 else 0⟩ := by
    intro i hi
    simp [rowAt, signedMap, List.getD_eq_getElem?_getD, List.getElem?_mapIdx, List.getElem?_eq_getElem hi]
  refine ⟨by simp [signedMap, hlen], ?_, ?_⟩
  · intro R hR
    unfold signedMap at hR
    obtain ⟨i, hi, rfl⟩ := List.mem_mapIdx.1 hR
    refine ⟨hl _ (List.getElem_mem hi), ?_⟩
    simp only
    split <;> rfl
  · intro i j hi hj
    rw [hrow i (by omega), hrow j (by omega)]
    exact hs i j (by omega) (by omega)

/-! ## `random_pauli` -/

theorem placeQ_onsite (n k : Nat) (q : Q) : ∀ j, j ≠ k → getQ (placeQ n k q) j = (false, false) := by
  intro j hj
  by_cases hjn : j < n
  · rw [getQ_placeQ _ _ _ _ hjn]; simp [hj]
  · exact getQ_of_le _ _ (by rw [length_placeQ]; omega)

theorem acq_placeQ (n j j' : Nat) (a b : Q) (hj : j < n) :
    acq (placeQ n j a) (placeQ n j' b) = if j = j' then acqQ a b % 2 else 0 := by
  unfold acq
  rw [acqSum_onsite_left _ _ j (placeQ_onsite n j a), getQ_placeQ _ _ _ _ hj, getQ_placeQ _ _ _ _ hj]
  by_cases h : j = j'
  · simp [h]
  · simp [h, acqQ_id_right]

theorem randomPauli_spec (n : Nat) : ∀ (k : Nat) (tape : List Bool) (rows : List PStr) (rest : List Bool),
    randomPauli n k tape = some (rows, rest) → k ≤ n →
    rows.length = 2 * k ∧ (∀ i, i < 2 * k → ∃ q, rows.getD i [] = placeQ n (i / 2) q) ∧
    (∀ j, j < k → acq (rows.getD (2 * j) []) (rows.getD (2 * j + 1) []) = 1)
  | 0, tape, rows, rest, h, _ => by
    simp only [randomPauli, Option.some.injEq, Prod.mk.injEq] at h
    obtain ⟨rfl, rfl⟩ := h
    exact ⟨rfl, fun i hi => by omega, fun j hj => by omega⟩
  | k + 1, tape, rows, rest, h, hk => by
    unfold randomPauli at h
    split at h
    · cases h
    · rename_i rows0 t hrec
      obtain ⟨hlen, hq, hp⟩ := randomPauli_spec n k tape rows0 t hrec (by omega)
      split at h
      · cases h
      · rename_i g1 g2 t' hpair
        simp only [Option.some.injEq, Prod.mk.injEq] at h
        obtain ⟨rfl, rfl⟩ := h
        obtain ⟨ha, hl1, hl2, _⟩ := randomPair_spec 1 t t' g1 g2 hpair
        have hA : acq (placeQ n k (getQ g1 0)) (placeQ n k (getQ g2 0)) = 1 := by
          rw [acq_placeQ n k k _ _ (by omega), if_pos rfl]
          match g1, g2, hl1, hl2, ha with
          | [x], [y], _, _, ha =>
            simp only [getQ_cons_zero]
            simpa [acq, acqSum] using ha
        have hlo : ∀ i, i < 2 * k →
            (rows0 ++ [placeQ n k (getQ g1 0), placeQ n k (getQ g2 0)]).getD i [] = rows0.getD i [] := by
          intro i hi
          rw [List.getD_eq_getElem?_getD, List.getD_eq_getElem?_getD, List.getElem?_append_left (by omega)]
        have h0 : (rows0 ++ [placeQ n k (getQ g1 0), placeQ n k (getQ g2 0)]).getD (2 * k) [] =
            placeQ n k (getQ g1 0) := by
          rw [List.getD_eq_getElem?_getD, List.getElem?_append_right (by omega), hlen]; simp
        have h1 : (rows0 ++ [placeQ n k (getQ g1 0), placeQ n k (getQ g2 0)]).getD (2 * k + 1) [] =
            placeQ n k (getQ g2 0) := by
          rw [List.getD_eq_getElem?_getD, List.getElem?_append_right (by omega), hlen]
          have : 2 * k + 1 - 2 * k = 1 := by omega
          simp [this]
        refine ⟨by simp [hlen]; omega, ?_, ?_⟩
        · intro i hi
          by_cases hi' : i < 2 * k
          · rw [hlo i hi']; exact hq i hi'
          · by_cases hi2 : i = 2 * k
            · subst hi2; rw [h0]; exact ⟨_, by congr 1; omega⟩
            · have : i = 2 * k + 1 := by omega
              subst this; rw [h1]; exact ⟨_, by congr 1; omega⟩
        · intro j hj
          by_cases hj' : j < k
          · rw [hlo _ (by omega), hlo _ (by omega)]; exact hp j hj'
          · have : j = k := by omega
            subst this; rw [h0, h1]; exact hA

theorem randomPauli_symS (n : Nat) (tape : List Bool) (rows : List PStr) (rest : List Bool)
    (h : randomPauli n n tape = some (rows, rest)) :
    rows.length = 2 * n ∧ (∀ r ∈ rows, r.length = n) ∧ SymS rows := by
  obtain ⟨hlen, hq, hp⟩ := randomPauli_spec n n tape rows rest h (Nat.le_refl _)
  refine ⟨hlen, ?_, ?_⟩
  · intro r hr
    obtain ⟨i, hi, rfl⟩ := List.getElem_of_mem hr
    obtain ⟨q, hq'⟩ := hq i (by omega)
    rw [List.getD_eq_getElem?_getD, List.getElem?_eq_getElem hi, Option.getD_some] at hq'
    rw [hq', length_placeQ]
  · intro i j hi hj
    rw [hlen] at hi hj
    obtain ⟨qi, hqi⟩ := hq i hi
    obtain ⟨qj, hqj⟩ := hq j hj
    by_cases hij : i / 2 = j / 2
    · by_cases he : i = j
      · subst he; rw [acq_self, if_neg (by simp)]
      · rw [if_pos ⟨hij, he⟩]
        by_cases hlt : i < j
        · have e1 : i = 2 * (i / 2) := by omega
          have e2 : j = 2 * (i / 2) + 1 := by omega
          rw [e1, e2]; exact hp (i / 2) (by omega)
        · have e1 : j = 2 * (j / 2) := by omega
          have e2 : i = 2 * (j / 2) + 1 := by omega
          rw [e1, e2, acq_symm]; exact hp (j / 2) (by omega)
    · rw [if_neg (fun h => hij h.1), hqi, hqj, acq_placeQ n _ _ _ _ (by omega), if_neg hij]

/-! ## `random_clifford` -/

theorem foldl_rot_spec (n m : Nat) : ∀ (gs : List PStr) (rows : List PStr), (∀ g ∈ gs, g.length = n) →
    rows.length = m → (∀ r ∈ rows, r.length = n) → SymS rows →
    (gs.foldl (fun rs g => rs.map (rotateSignless g)) rows).length = m ∧
    (∀ r ∈ gs.foldl (fun rs g => rs.map (rotateSignless g)) rows, r.length = n) ∧
    SymS (gs.foldl (fun rs g => rs.map (rotateSignless g)) rows)
  | [], rows, _, hm, hl, hs => ⟨hm, hl, hs⟩
  | g :: gs, rows, hg, hm, hl, hs => by
    rw [List.foldl_cons]
    have hgl := hg g (by simp)
    apply foldl_rot_spec n m gs _ (fun g' hg' => hg g' (by simp [hg'])) (by simpa using hm)
    · intro r hr
      obtain ⟨r', hr', rfl⟩ := List.mem_map.1 hr
      rw [length_rotateSignless g r' (by rw [hgl, hl r' hr']), hl r' hr']
    · exact SymS_map_rot g rows (fun r hr => by rw [hgl, hl r hr]) hs

theorem acq_onsite_zero_lift (a r : PStr) (ho : ∀ j, j ≠ 0 → getQ a j = (false, false)) :
    acq a ((false, false) :: r) = 0 := by
  unfold acq
  rw [acqSum_onsite_left a _ 0 ho, getQ_cons_zero, acqQ_id_right]; rfl

theorem randomClifford_symS : ∀ (n : Nat) (tape : List Bool) (rows : List PStr) (rest : List Bool),
    randomClifford n tape = some (rows, rest) →
    rows.length = 2 * n ∧ (∀ r ∈ rows, r.length = n) ∧ SymS rows
  | 0, tape, rows, rest, h => by
    simp only [randomClifford, Option.some.injEq, Prod.mk.injEq] at h
    obtain ⟨rfl, rfl⟩ := h
    exact ⟨rfl, by simp, fun i j hi => by simp at hi⟩
  | n + 1, tape, rows, rest, h => by
    unfold randomClifford at h
    split at h
    · cases h
    · rename_i g1 g2 t hpair
      obtain ⟨ha, hl1, hl2, _⟩ := randomPair_spec (n + 1) tape t g1 g2 hpair
      split at h
      · rename_i hn0
        simp only [Option.some.injEq, Prod.mk.injEq] at h
        obtain ⟨rfl, rfl⟩ := h
        refine ⟨by simp [hn0], ?_, ?_⟩
        · intro r hr
          simp only [List.mem_cons, List.not_mem_nil, or_false] at hr
          rcases hr with rfl | rfl
          · exact hl1
          · exact hl2
        · exact SymS_cons g1 g2 [] ha (by simp) (fun i j hi => by simp at hi)
      · obtain ⟨d1, d2, d3, d4, d5, d6, d7⟩ := diag2_spec g1 g2 0 (hl1.trans hl2.symm) (by omega) ha
        generalize diagonalize2 g1 g2 0 = D at h d1 d2 d3 d4 d5 d6 d7
        obtain ⟨gens, g1', g2'⟩ := D
        simp only at h d1 d2 d3 d4 d5 d6 d7
        split at h
        · cases h
        · rename_i sub t' hsub
          simp only [Option.some.injEq, Prod.mk.injEq] at h
          obtain ⟨rfl, rfl⟩ := h
          obtain ⟨sl, sr, ss⟩ := randomClifford_symS n t sub t' hsub
          have ho1 : ∀ j, j ≠ 0 → getQ g1' j = (false, false) := by rw [d1]; exact unitZ_onsite _ _
          have ho2 : ∀ j, j ≠ 0 → getQ g2' j = (false, false) := (isOnsite_iff g2' 0).1 d2
          have hl1' : g1'.length = n + 1 := by rw [d1, Tr.length_unitZ, hl1]
          have hab : acq g1' g2' = 1 := by
            rw [d5, d6, acq_rotS gens g1 g2 d7 (hl1.trans hl2.symm), ha]
          apply foldl_rot_spec (n + 1) (2 * (n + 1)) gens.reverse _
            (fun g hg => by rw [d7 g (List.mem_reverse.1 hg), hl1])
          · simp [sl]; omega
          · intro r hr
            simp only [List.mem_cons, List.mem_map] at hr
            rcases hr with rfl | rfl | ⟨r', hr', rfl⟩
            · exact hl1'
            · rw [d4, hl1]
            · simp [sr r' hr']
          · apply SymS_cons g1' g2' _ hab _ (SymS_map_lift sub ss)
            intro c hc
            obtain ⟨r', _, rfl⟩ := List.mem_map.1 hc
            exact ⟨acq_onsite_zero_lift g1' r' ho1, acq_onsite_zero_lift g2' r' ho2⟩

/-! ## `random_pair`: the second string is uniform among the partners of the first -/

theorem unflat_flat : ∀ g : PStr, unflat (flat g) = g
  | [] => rfl
  | q :: qs => by
    show (q.1, q.2) :: unflat (flat qs) = q :: qs
    rw [unflat_flat qs]

theorem randomPair_flat (n : Nat) (g1 : PStr) (b2 : List Bool) (hg : g1.length = n) (hne : anyBit g1 = true)
    (hb : b2.length = 2 * n) :
    randomPair n (flat g1 ++ b2) = some ((g1, fixP g1 (unflat b2)), []) := by
  have h2 : takeBits (2 * n) b2 = some (b2, []) := by
    simpa using takeBits_append (2 * n) b2 [] hb
  rw [randomPair_eq, takeBits_append (2 * n) (flat g1) b2 (by rw [Cp.length_flat, hg])]
  simp only [h2, unflat_flat, resample_of_anyBit n _ g1 [] hne]

/-- the other preimage of `h`: `h` with the correction applied at the first non-trivial qubit of `g1` -/
def partner (g1 h : PStr) : PStr := setQ h (front g1) (flipQ (getQ g1 (front g1)) (getQ h (front g1)))

theorem partner_partner (g1 h : PStr) : partner g1 (partner g1 h) = h := by
  unfold partner
  by_cases hi : front g1 < h.length
  · rw [setQ_setQ, getQ_setQ_self _ _ _ hi, flipQ_flipQ, setQ_getQ]
  · simp [setQ, List.set_eq_of_length_le (Nat.le_of_not_lt hi)]

theorem fixP_eq_iff (g1 x h : PStr) (hl : g1.length = h.length) (hx : x.length = h.length) (hany : anyBit g1 = true)
    (ha : acq g1 h = 1) : fixP g1 x = h ↔ x = h ∨ x = partner g1 h := by
  constructor
  · intro hf
    unfold fixP at hf
    split at hf
    · right
      rw [← hf]; exact (partner_partner g1 x).symm
    · left; exact hf
  · rintro (rfl | rfl)
    · unfold fixP; rw [if_neg (by rw [ha]; decide)]
    · have h0 : acq g1 (partner g1 h) = 0 := by
        unfold partner; rw [acq_flip g1 h hl hany, ha]; rfl
      unfold fixP
      rw [if_pos h0]
      exact partner_partner g1 h

theorem flat_injective (a b : PStr) (h : flat a = flat b) : a = b := by
  rw [← unflat_flat a, ← unflat_flat b, h]

theorem randomPair_count (n : Nat) (g1 h : PStr) (hg : g1.length = n) (hh : h.length = n)
    (hne : anyBit g1 = true) (ha : acq g1 h = 1) :
    ((allBits (2 * n)).filter fun b2 => randomPair n (flat g1 ++ b2) == some ((g1, h), [])).length = 2 := by
  have hlp : (partner g1 h).length = n := by unfold partner; rw [length_setQ, hh]
  have hne' : h ≠ partner g1 h := by
    intro he
    have h0 : acq g1 (partner g1 h) = 0 := by
      unfold partner; rw [acq_flip g1 h (hg.trans hh.symm) hne, ha]; rfl
    rw [← he, ha] at h0; cases h0
  have hnd : ([flat h, flat (partner g1 h)] : List (List Bool)).Nodup := by
    simp only [List.nodup_cons, List.mem_cons, List.not_mem_nil, or_false, not_false_eq_true, List.nodup_nil,
      and_true]
    exact fun he => hne' (flat_injective _ _ he)
  have hperm : ((allBits (2 * n)).filter fun b2 => randomPair n (flat g1 ++ b2) == some ((g1, h), [])).Perm
      [flat h, flat (partner g1 h)] := (List.perm_ext_iff_of_nodup
    (List.Nodup.sublist List.filter_sublist (St.nodup_allBits (2 * n))) hnd).2 (by
    intro b
    rw [List.mem_filter, ← St.mem_allBits]
    simp only [List.mem_cons, List.not_mem_nil, or_false]
    constructor
    · rintro ⟨hb, hp⟩
      rw [randomPair_flat n g1 b hg hne hb] at hp
      simp only [beq_iff_eq, Option.some.injEq, Prod.mk.injEq, and_true, true_and] at hp
      have hxl : (unflat b).length = h.length := by rw [Cp.length_unflat b n hb, hh]
      rcases (fixP_eq_iff g1 (unflat b) h (hg.trans hh.symm) hxl hne ha).1 hp with hx | hx
      · left; rw [← hx, Cp.flat_unflat b n hb]
      · right; rw [← hx, Cp.flat_unflat b n hb]
    · intro hb
      have hbl : b.length = 2 * n := by
        rcases hb with rfl | rfl
        · rw [Cp.length_flat, hh]
        · rw [Cp.length_flat, hlp]
      refine ⟨hbl, ?_⟩
      rw [randomPair_flat n g1 b hg hne hbl]
      simp only [beq_iff_eq, Option.some.injEq, Prod.mk.injEq, and_true, true_and]
      have hxl : (unflat b).length = h.length := by rw [Cp.length_unflat b n hbl, hh]
      apply (fixP_eq_iff g1 (unflat b) h (hg.trans hh.symm) hxl hne ha).2
      rcases hb with rfl | rfl
      · left; exact unflat_flat _
      · right; exact unflat_flat _)
  rw [hperm.length_eq]
  rfl

end Rn

end PC
