import PyCliffordModel.Properties.C05b
import PyCliffordModel.Properties.C12b
/-! helper lemmas for `Properties/C05c.lean`: every phase indicator written by the model lies in `{0,1,2,3}`

Layout:
* §1 single operators: `emod4_range`, `mul_range`, `rotate_range`, `transform_range`, masked versions, `gateAct_range`,
  row-wise maps (`map_range`);
* §2 constructors: `idRows_p`, `rowAt_p_zero`, `mapToState_p_zero`, `toState_range`, `oneState_range`, `idMap_range`;
* §3 the scan: `updRow_range`, `pivotState_range`, `measure1_range`, `measure_range`, `postselect_range`;
* §4 one step and histories: `step_range`, `reachable_range`;
* §5 maps: `compose_range`, `inverse_range`.
-/
namespace PC
namespace Ph
open Ms

/-! ## §1 single operators -/

theorem emod4_range (x : Int) : 0 ≤ x % 4 ∧ x % 4 < 4 := by omega

theorem mul_range (P Q : Pauli) : 0 ≤ (mul P Q).p ∧ (mul P Q).p < 4 := by
  unfold mul; exact emod4_range _

/-- rotation: the generator's indicator need not be in range (the rotated row is reduced, the others are untouched) -/
theorem rotate_range (G P : Pauli) (hP : 0 ≤ P.p ∧ P.p < 4) : 0 ≤ (rotate G P).p ∧ (rotate G P).p < 4 := by
  unfold rotate; split
  · exact emod4_range _
  · exact hP

/-- transformation: always reduced -/
theorem transform_range (M : List Pauli) (P : Pauli) : 0 ≤ (transform M P).p ∧ (transform M P).p < 4 := by
  unfold transform; exact emod4_range _

theorem rotateMasked_range (G : Pauli) (m : List Bool) (P : Pauli) (hP : 0 ≤ P.p ∧ P.p < 4) :
    0 ≤ (rotateMasked G m P).p ∧ (rotateMasked G m P).p < 4 := by
  unfold rotateMasked
  exact rotate_range G ⟨gather m P.g, P.p⟩ hP

theorem transformMasked_range (M : List Pauli) (m : List Bool) (P : Pauli) :
    0 ≤ (transformMasked M m P).p ∧ (transformMasked M m P).p < 4 := by
  unfold transformMasked
  exact transform_range M ⟨gather m P.g, P.p⟩

/-- a gate (well-formed or not) -/
theorem gateAct_range (g : Gate) (n : Nat) (P : Pauli) (hP : 0 ≤ P.p ∧ P.p < 4) :
    0 ≤ (gateAct g n P).p ∧ (gateAct g n P).p < 4 := by
  unfold gateAct
  split
  · exact rotateMasked_range _ _ P hP
  · split
    · exact transformMasked_range _ _ P
    · exact hP

theorem map_range (T : List Pauli) (f : Pauli → Pauli) (hh : ∀ R ∈ T, 0 ≤ R.p ∧ R.p < 4)
    (hf : ∀ P ∈ T, (0 ≤ P.p ∧ P.p < 4) → 0 ≤ (f P).p ∧ (f P).p < 4) : ∀ R ∈ T.map f, 0 ≤ R.p ∧ R.p < 4 := by
  intro R hR
  obtain ⟨P, hP, rfl⟩ := List.mem_map.1 hR
  exact hf P hP (hh P hP)

/-! ## §2 constructors -/

theorem idRows_p (n : Nat) : ∀ k, ∀ R ∈ idRows n k, R.p = 0 := by
  intro k
  induction k with
  | zero => intro R hR; simp [idRows] at hR
  | succ k ih =>
    intro R hR
    simp only [idRows, List.mem_append, List.mem_cons, List.not_mem_nil, or_false] at hR
    rcases hR with hR | rfl | rfl
    · exact ih R hR
    · rfl
    · rfl

theorem rowAt_p_zero (M : List Pauli) (hM : ∀ R ∈ M, R.p = 0) (i : Nat) : (rowAt M i).p = 0 := by
  by_cases hi : i < M.length
  · exact hM _ (PC.rowAt_mem M i hi)
  · rw [rowAt_of_le M i (by omega)]

theorem mapToState_p_zero (M : List Pauli) (hM : ∀ R ∈ M, R.p = 0) : ∀ R ∈ mapToState M, R.p = 0 := by
  intro R hR
  unfold mapToState at hR
  simp only [List.mem_append, List.mem_map] at hR
  rcases hR with ⟨i, _, rfl⟩ | ⟨i, _, rfl⟩
  · exact rowAt_p_zero M hM _
  · exact rowAt_p_zero M hM _

theorem toState_idMap_range (n r : Nat) : ∀ R ∈ (toState (idMap n) r).rows, 0 ≤ R.p ∧ R.p < 4 := by
  intro R hR
  have := mapToState_p_zero (idMap n) (idRows_p n n) R hR
  omega

theorem oneState_range (n : Nat) : ∀ R ∈ (oneState n).rows, 0 ≤ R.p ∧ R.p < 4 := by
  intro R hR
  unfold oneState at hR
  obtain ⟨P, _, rfl⟩ := List.mem_map.1 hR
  exact ⟨by simp, by simp⟩

theorem idMap_range (n : Nat) : ∀ R ∈ idMap n, 0 ≤ R.p ∧ R.p < 4 := by
  intro R hR
  have := idRows_p n n R hR
  omega

/-! ## §3 the scan -/

/-- the row written by the scan: untouched, or reduced -/
theorem updRow_range (obs : PStr) (N : Nat) (ph : Bool) (p : Nat) (rp : Pauli) (j : Nat) (row : Pauli)
    (h : 0 ≤ row.p ∧ row.p < 4) :
    0 ≤ (updRow obs N ph p rp j row).p ∧ (updRow obs N ph p rp j row).p < 4 := by
  unfold updRow pivRow; split
  · simp only; split
    · exact emod4_range _
    · exact h
  · exact h

/-- the state after a random outcome: the pivot slot gets `c`, every other slot is untouched or reduced -/
theorem pivotState_range (st : State) (n : Nat) (obs : PStr) (p : Nat) (c : Int) (h : TabInv st n)
    (hh : ∀ R ∈ st.rows, 0 ≤ R.p ∧ R.p < 4) (hp : p < n + st.r) (hc : 0 ≤ c ∧ c < 4) :
    ∀ R ∈ (pivotState st obs true p c).rows, 0 ≤ R.p ∧ R.p < 4 := by
  obtain ⟨_, s2, _, s4⟩ := pivotState_spec st n obs p c h hp
  intro R hR
  obtain ⟨k, hk, rfl⟩ := exists_rowAt_of_mem _ R hR
  rw [s2] at hk
  rw [s4 k hk]
  split
  · exact hc
  · exact updRow_range _ _ _ _ _ _ _ (hh _ (PC.rowAt_mem _ k (by rw [h.1]; exact hk)))

/-- one measurement, either coin: the observable's indicator is not used for the state -/
theorem measure1_range (st st' : State) (n : Nat) (obs : Pauli) (coin : Bool) (out : Int) (rnd : Bool)
    (h : TabInv st n) (hh : ∀ R ∈ st.rows, 0 ≤ R.p ∧ R.p < 4) (ho : obs.g.length = n)
    (hm : measure1 st obs coin = .ok (st', out, rnd)) : ∀ R ∈ st'.rows, 0 ≤ R.p ∧ R.p < 4 := by
  rcases measure1_cases_inv st n obs coin h ho with ⟨p, _, hpl, he⟩ | ⟨_, he⟩
  · rw [he] at hm
    injection hm with hm
    injection hm with h1 _
    subst h1
    exact pivotState_range st n obs.g p _ h hh hpl (by cases coin <;> decide)
  · rw [he] at hm
    injection hm with hm
    injection hm with h1 _
    subst h1
    exact hh

/-- lists of observables, every coin sequence -/
theorem measure_range (n : Nat) (obs : List Pauli) : ∀ (st st' : State) (coins rest : List Bool) (outs : List Int)
    (k : Nat), TabInv st n → (∀ R ∈ st.rows, 0 ≤ R.p ∧ R.p < 4) → (∀ o ∈ obs, o.g.length = n ∧ o.p % 2 = 0) →
    measure st obs coins = .ok (st', outs, k, rest) → ∀ R ∈ st'.rows, 0 ≤ R.p ∧ R.p < 4 := by
  induction obs with
  | nil =>
    intro st st' coins rest outs k _ hh _ hm
    simp only [measure] at hm
    injection hm with hm
    injection hm with h1 _
    subst h1
    exact hh
  | cons o os ih =>
    intro st st' coins rest outs k h hh ho hm
    have ho1 := ho o (by simp)
    have hos : ∀ o' ∈ os, o'.g.length = n ∧ o'.p % 2 = 0 := fun o' ho' => ho o' (by simp [ho'])
    simp only [measure] at hm
    cases h1 : measure1 st o (coins.headD false) with
    | error e => rw [h1] at hm; exact absurd hm (by simp)
    | ok res =>
      obtain ⟨st1, out, rnd⟩ := res
      rw [h1] at hm
      simp only at hm
      have i1 := measure1_inv st st1 n o _ out rnd h ho1.1 h1
      have i2 := measure1_range st st1 n o _ out rnd h hh ho1.1 h1
      split at hm
      · exact absurd hm (by simp)
      · cases h2 : measure st1 os (if rnd then coins.tail else coins) with
        | error e => rw [h2] at hm; exact absurd hm (by simp)
        | ok res2 =>
          obtain ⟨st2, outs2, k2, cs⟩ := res2
          rw [h2] at hm
          simp only at hm
          injection hm with hm
          injection hm with e1 _
          subst e1
          exact ih st1 st2 _ cs outs2 k2 i1 i2 hos h2

/-- post-selection: the indicator installed is `(P.p + 2 res) % 4`, in range whatever `P.p` -/
theorem postselect_range (st st' : State) (n : Nat) (P : Pauli) (res : Nat) (t : Dy) (h : TabInv st n)
    (hh : ∀ R ∈ st.rows, 0 ≤ R.p ∧ R.p < 4) (hm : postselect st P res = .ok (st', t)) :
    ∀ R ∈ st'.rows, 0 ≤ R.p ∧ R.p < 4 := by
  have hN := h.N_eq
  have hr : st.r = 0 := by
    by_cases e : st.r = 0
    · exact e
    · unfold postselect at hm
      have : (st.r != 0) = true := by simp [e]
      simp only [this] at hm
      exact absurd hm (by simp)
  rcases postselect_cases st P res hr with ⟨p, hp1, _, _, he⟩ | ⟨_, he⟩
  · rw [he] at hm
    injection hm with hm
    injection hm with h1 _
    subst h1
    rw [hN] at hp1
    exact pivotState_range st n P.g p _ h hh (by omega) (emod4_range _)
  · rw [he] at hm
    split at hm
    · injection hm with hm
      injection hm with h1 _
      subst h1
      exact hh
    · exact absurd hm (by simp)

/-! ## §4 one step, histories -/

/-- one admissible operation keeps the tableau in range (nothing is required of the indicators of its arguments) -/
theorem step_range (st st' : State) (n : Nat) (op : StOp) (h : TabInv st n) (hp : ∀ R ∈ st.rows, 0 ≤ R.p ∧ R.p < 4)
    (hop : op.Ok n) (hs : applyOp n st op = some st') : ∀ R ∈ st'.rows, 0 ≤ R.p ∧ R.p < 4 := by
  cases op with
  | rotate G =>
    simp only [applyOp, Option.some.injEq] at hs
    subst hs
    exact map_range _ _ hp (fun P _ hP => rotate_range G P hP)
  | rotateMasked G m =>
    simp only [applyOp, Option.some.injEq] at hs
    subst hs
    exact map_range _ _ hp (fun P _ hP => rotateMasked_range G m P hP)
  | transform M =>
    simp only [applyOp, Option.some.injEq] at hs
    subst hs
    exact map_range _ _ hp (fun P _ _ => transform_range M P)
  | transformMasked M m =>
    simp only [applyOp, Option.some.injEq] at hs
    subst hs
    exact map_range _ _ hp (fun P _ _ => transformMasked_range M m P)
  | gate g =>
    simp only [applyOp, Option.some.injEq] at hs
    subst hs
    exact map_range _ _ hp (fun P _ hP => gateAct_range g n P hP)
  | measure obs coins =>
    simp only [applyOp] at hs
    cases hm : measure st obs coins with
    | error e => rw [hm] at hs; exact absurd hs (by simp)
    | ok res =>
      obtain ⟨st1, outs, k, rest⟩ := res
      rw [hm] at hs
      simp only [Option.some.injEq] at hs
      subst hs
      exact measure_range n obs st st1 coins rest outs k h hp hop hm
  | postselect P res =>
    simp only [applyOp] at hs
    cases hm : postselect st P res with
    | error e => rw [hm] at hs; exact absurd hs (by simp)
    | ok r =>
      obtain ⟨st1, t⟩ := r
      rw [hm] at hs
      simp only [Option.some.injEq] at hs
      subst hs
      exact postselect_range st st1 n P res t h hp hm
  | copy =>
    simp only [applyOp, Option.some.injEq] at hs
    subst hs
    exact hp

/-- every finite history of admissible operations -/
theorem reachable_range (n : Nat) (ops : List StOp) : ∀ (st st' : State), TabInv st n →
    (∀ R ∈ st.rows, 0 ≤ R.p ∧ R.p < 4) → (∀ op ∈ ops, op.Ok n) → applyOps n st ops = some st' →
    ∀ R ∈ st'.rows, 0 ≤ R.p ∧ R.p < 4 := by
  induction ops with
  | nil =>
    intro st st' _ hp _ hs
    simp only [applyOps, Option.some.injEq] at hs
    subst hs
    exact hp
  | cons op ops ih =>
    intro st st' h hp hops hs
    simp only [applyOps] at hs
    cases h1 : applyOp n st op with
    | none => rw [h1] at hs; exact absurd hs (by simp)
    | some st1 =>
      rw [h1] at hs
      exact ih st1 st' (C05_step_inv st st1 n op h (hops op (by simp)) h1)
        (step_range st st1 n op h hp (hops op (by simp)) h1)
        (fun op' ho' => hops op' (by simp [ho'])) hs

/-! ## §5 maps -/

theorem compose_range (A B : List Pauli) : ∀ R ∈ compose A B, 0 ≤ R.p ∧ R.p < 4 := by
  intro R hR
  unfold compose transformRows at hR
  obtain ⟨P, _, rfl⟩ := List.mem_map.1 hR
  exact transform_range B P

theorem inverse_range (A I : List Pauli) (h : inverse A = some I) : ∀ R ∈ I, 0 ≤ R.p ∧ R.p < 4 := by
  unfold inverse at h
  split at h
  · exact absurd h (by simp)
  · simp only [Option.some.injEq] at h
    subst h
    intro R hR
    obtain ⟨c, _, rfl⟩ := List.mem_map.1 hR
    exact emod4_range _

end Ph
end PC
