import PyCliffordModel.Proofs.TrajLemmas
import PyCliffordModel.Proofs.RandomLemmas
import PyCliffordModel.Proofs.TorchLemmas
import PyCliffordModel.Properties.C11
import PyCliffordModel.Properties.C06
/-! # Proofs/PlaceLemmas — helper lemmas for gate placement, circuit-level diagonalisation, density expansion -/
namespace PC
namespace Pl

/-! ## `List.range` cut at one or two positions -/

theorem map_range_split {α : Type} (f : Nat → α) (q k : Nat) :
    (List.range (q + 1 + k)).map f = (List.range q).map f ++ f q :: (List.range k).map (fun i => f (q + 1 + i)) := by
  rw [List.range_add, List.range_succ, List.map_append, List.map_append, List.map_map, List.append_assoc]
  rfl

theorem map_range_const {α : Type} (g : Nat → α) (c : α) (k : Nat) (h : ∀ i, i < k → g i = c) :
    (List.range k).map g = List.replicate k c := by
  rw [List.eq_replicate_iff]
  refine ⟨by simp, ?_⟩
  intro b hb
  obtain ⟨i, hi, rfl⟩ := List.mem_map.1 hb
  exact h i (List.mem_range.1 hi)

theorem map_range_split1 {α : Type} (f : Nat → α) (c : α) (q N : Nat) (hq : q < N) (h : ∀ i, i < N → i ≠ q → f i = c) :
    (List.range N).map f = List.replicate q c ++ f q :: List.replicate (N - q - 1) c := by
  have e : N = q + 1 + (N - q - 1) := by omega
  rw [e, map_range_split, map_range_const _ c q (fun i hi => h i (by omega) (by omega)),
    map_range_const _ c _ (fun i hi => h _ (by omega) (by omega))]
  congr 3; omega

theorem map_range_split2 {α : Type} (f : Nat → α) (c : α) (a b N : Nat) (hab : a < b) (hb : b < N)
    (h : ∀ i, i < N → i ≠ a → i ≠ b → f i = c) :
    (List.range N).map f = List.replicate a c ++ f a :: (List.replicate (b - a - 1) c ++ f b :: List.replicate (N - b - 1) c) := by
  have e : N = a + 1 + (N - a - 1) := by omega
  rw [e, map_range_split, map_range_const _ c a (fun i hi => h i (by omega) (by omega) (by omega))]
  rw [map_range_split1 (fun i => f (a + 1 + i)) c (b - a - 1) (N - a - 1) (by omega)
    (fun i hi hne => h _ (by omega) (by omega) (by omega))]
  have e2 : a + 1 + (b - a - 1) = b := by omega
  have e3 : N - a - 1 - (b - a - 1) - 1 = N - b - 1 := by omega
  simp only [e2, e3]
  congr 5; omega


/-! ## gather / scatter through masks with `false` runs -/

theorem gather_false_prefix (k : Nat) : ∀ (a : PStr) (m : List Bool) (g : PStr), a.length = k →
    gather (List.replicate k false ++ m) (a ++ g) = gather m g := by
  induction k with
  | zero =>
    intro a m g h
    have : a = [] := List.length_eq_zero_iff.1 h
    subst this; rfl
  | succ k ih =>
    intro a m g h
    cases a with
    | nil => cases h
    | cons x xs =>
      rw [List.replicate_succ, List.cons_append, List.cons_append, gather_cons_false]
      exact ih xs m g (by simpa using h)

theorem gather_replicate_false (k : Nat) : ∀ g : PStr, gather (List.replicate k false) g = [] := by
  induction k with
  | zero => intro g; exact gather_nil_left g
  | succ k ih =>
    intro g
    cases g with
    | nil => exact gather_nil_right _
    | cons x xs => rw [List.replicate_succ, gather_cons_false]; exact ih xs

theorem scatter_false_prefix (k : Nat) : ∀ (a : PStr) (m : List Bool) (g s : PStr), a.length = k →
    scatter (List.replicate k false ++ m) (a ++ g) s = a ++ scatter m g s := by
  induction k with
  | zero =>
    intro a m g s h
    have : a = [] := List.length_eq_zero_iff.1 h
    subst this; rfl
  | succ k ih =>
    intro a m g s h
    cases a with
    | nil => cases h
    | cons x xs =>
      rw [List.replicate_succ, List.cons_append, List.cons_append, scatter_cons_false, List.cons_append]
      rw [ih xs m g s (by simpa using h)]

theorem scatter_replicate_false (k : Nat) : ∀ g s : PStr, scatter (List.replicate k false) g s = g := by
  induction k with
  | zero => intro g s; exact scatter_nil_left g s
  | succ k ih =>
    intro g s
    cases g with
    | nil => exact scatter_nil_mid _ _
    | cons x xs => rw [List.replicate_succ, scatter_cons_false, ih xs s]

/-! ## one-qubit placement -/

theorem maskOf_single (q N : Nat) (hq : q < N) :
    maskOf [q] N = List.replicate q false ++ true :: List.replicate (N - q - 1) false := by
  unfold maskOf
  rw [map_range_split1 _ false q N hq]
  · simp
  · intro i _ hne; simp [hne]

theorem at1_eq (N q : Nat) (s : Q) (hq : q < N) :
    placeQ N q s = idStr q ++ s :: idStr (N - q - 1) := by
  unfold placeQ idStr
  rw [map_range_split1 _ (false, false) q N hq]
  · simp
  · intro i _ hne; simp [hne]


theorem gather_single (N q : Nat) (s : Q) (hq : q < N) : gather (maskOf [q] N) (placeQ N q s) = [s] := by
  rw [maskOf_single q N hq, at1_eq N q s hq, gather_false_prefix q _ _ _ (by simp [idStr]), gather_cons_true,
    gather_replicate_false]

theorem scatter_single (N q : Nat) (s s' : Q) (ss : PStr) (hq : q < N) :
    scatter (maskOf [q] N) (placeQ N q s) (s' :: ss) = placeQ N q s' := by
  rw [maskOf_single q N hq, at1_eq N q s hq, at1_eq N q s' hq, scatter_false_prefix q _ _ _ _ (by simp [idStr]),
    scatter_cons_true_cons, scatter_replicate_false]

/-- a valid one-qubit table applied through the mask of `[q]` to a one-qubit operator placed at `q` -/
theorem transformMasked_single (table : List Pauli) (hv : ValidMap table 1) (N q : Nat) (hq : q < N) (s : Q) (p : Int) :
    PEq (transformMasked table (maskOf [q] N) ⟨placeQ N q s, p⟩)
        ⟨placeQ N q ((transform table ⟨[s], 0⟩).g.getD 0 (false, false)), p + (transform table ⟨[s], 0⟩).p⟩ := by
  have hlen : (transform table ⟨[s], 0⟩).g.length = 1 :=
    Tr.length_transform table 1 hv.1 (fun R hR => (hv.2.1 R hR).1) _
  obtain ⟨hg, hp⟩ := Tr.transform_of_g_eq table ⟨[s], p⟩ ⟨[s], 0⟩ rfl
  unfold transformMasked
  simp only [gather_single N q s hq]
  rw [hg]
  generalize (transform table ⟨[s], 0⟩).g = w at hlen ⊢
  match w, hlen with
  | [s'], _ =>
    rw [scatter_single N q s s' [] hq]
    refine ⟨rfl, ?_⟩
    simp only at hp ⊢
    omega


/-! ## two-qubit placement -/

/-- two one-qubit operators placed at `a` and `b` among identities (`at2` of `Properties/C11b`) -/
def place2 (N a b : Nat) (s t : Q) : PStr :=
  (List.range N).map fun i => if i == a then s else if i == b then t else (false, false)

theorem placeQ_eq_place2_left (N a b : Nat) (s : Q) : placeQ N a s = place2 N a b s (false, false) := by
  unfold placeQ place2
  apply List.map_congr_left
  intro i _
  by_cases h : i = a <;> simp [h]

theorem placeQ_eq_place2_right (N a b : Nat) (t : Q) (hab : a ≠ b) : placeQ N b t = place2 N a b (false, false) t := by
  unfold placeQ place2
  apply List.map_congr_left
  intro i _
  by_cases h : i = a
  · subst h; simp [hab]
  · simp [h]

theorem place2_swap (N a b : Nat) (s t : Q) (hab : a ≠ b) : place2 N a b s t = place2 N b a t s := by
  unfold place2
  apply List.map_congr_left
  intro i _
  by_cases h : i = a
  · subst h; simp [hab]
  · simp [h]

theorem maskOf_pair (a b N : Nat) (hab : a < b) (hb : b < N) :
    maskOf [a, b] N = List.replicate a false ++ true :: (List.replicate (b - a - 1) false ++ true ::
      List.replicate (N - b - 1) false) := by
  unfold maskOf
  rw [map_range_split2 _ false a b N hab hb]
  · simp
  · intro i _ h1 h2; simp [h1, h2]

theorem place2_eq (N a b : Nat) (s t : Q) (hab : a < b) (hb : b < N) :
    place2 N a b s t = idStr a ++ s :: (idStr (b - a - 1) ++ t :: idStr (N - b - 1)) := by
  unfold place2 idStr
  rw [map_range_split2 _ (false, false) a b N hab hb]
  · have : b ≠ a := by omega
    simp [this]
  · intro i _ h1 h2; simp [h1, h2]

theorem gather_pair (N a b : Nat) (s t : Q) (hab : a < b) (hb : b < N) :
    gather (maskOf [a, b] N) (place2 N a b s t) = [s, t] := by
  rw [maskOf_pair a b N hab hb, place2_eq N a b s t hab hb, gather_false_prefix a _ _ _ (by simp [idStr]),
    gather_cons_true, gather_false_prefix _ _ _ _ (by simp [idStr]), gather_cons_true, gather_replicate_false]

theorem scatter_pair (N a b : Nat) (s t s' t' : Q) (ss : PStr) (hab : a < b) (hb : b < N) :
    scatter (maskOf [a, b] N) (place2 N a b s t) (s' :: t' :: ss) = place2 N a b s' t' := by
  rw [maskOf_pair a b N hab hb, place2_eq N a b s t hab hb, place2_eq N a b s' t' hab hb,
    scatter_false_prefix a _ _ _ _ (by simp [idStr]), scatter_cons_true_cons,
    scatter_false_prefix _ _ _ _ _ (by simp [idStr]), scatter_cons_true_cons, scatter_replicate_false]

/-- a two-qubit table applied through the mask of `[a, b]` (`a < b`) to a two-qubit operator placed there -/
theorem transformMasked_pair (table : List Pauli) (N a b : Nat) (hab : a < b) (hb : b < N) (s t s' t' : Q) (p p' : Int)
    (h : transform table ⟨[s, t], p⟩ = ⟨[s', t'], p'⟩) :
    transformMasked table (maskOf [a, b] N) ⟨place2 N a b s t, p⟩ = ⟨place2 N a b s' t', p'⟩ := by
  unfold transformMasked
  simp only [gather_pair N a b s t hab hb, h, scatter_pair N a b s t s' t' [] hab hb]

/-! ## `clifford_rotation_gate`: the condensed generator through the mask of its support -/

theorem maskOf_support (g : PStr) : maskOf (condense g).2 g.length = g.map nontrivQ := by
  unfold maskOf condense
  apply List.ext_getElem (by simp)
  intro i h1 h2
  have hi : i < g.length := by simpa using h1
  simp only [List.getElem_map, List.getElem_range]
  cases hn : nontrivQ g[i] with
  | true =>
    rw [List.contains_iff_mem, List.mem_filter]
    refine ⟨List.mem_range.2 hi, ?_⟩
    rw [List.getD_eq_getElem?_getD, List.getElem?_eq_getElem hi]; exact hn
  | false =>
    cases hc : ((List.range g.length).filter fun i => nontrivQ (g.getD i (false, false))).contains i with
    | false => rfl
    | true =>
      rw [List.contains_iff_mem, List.mem_filter] at hc
      have := hc.2
      rw [List.getD_eq_getElem?_getD, List.getElem?_eq_getElem hi] at this
      simp only [Option.getD_some] at this
      rw [hn] at this; cases this

theorem scatter_condensed (g : PStr) : scatter (g.map nontrivQ) (idStr g.length) (g.filter nontrivQ) = g := by
  induction g with
  | nil => rfl
  | cons q qs ih =>
    cases hn : nontrivQ q with
    | true =>
      rw [List.map_cons, hn, List.filter_cons_of_pos hn]
      show scatter (true :: _) ((false, false) :: idStr qs.length) _ = _
      rw [scatter_cons_true_cons, ih]
    | false =>
      have hq : q = (false, false) := (Rn.nontrivQ_eq_false q).1 hn
      rw [List.map_cons, hn, List.filter_cons_of_neg (by rw [hn]; simp)]
      show scatter (false :: _) ((false, false) :: idStr qs.length) _ = _
      rw [scatter_cons_false, ih, hq]

/-- the condensed generator embedded through the mask of its support is the generator -/
theorem embedGen_condense (G : Pauli) :
    embedGen (maskOf (condense G.g).2 G.g.length) G.g.length ⟨(condense G.g).1, G.p⟩ = G := by
  rw [maskOf_support]
  show (⟨scatter (G.g.map nontrivQ) (idStr G.g.length) (G.g.filter nontrivQ), G.p⟩ : Pauli) = G
  rw [scatter_condensed]

theorem rotationGate_acts (G P : Pauli) (hl : G.g.length = P.g.length) :
    gateAct (rotationGate G none) P.g.length P = rotate G P := by
  show rotateMasked ⟨(condense G.g).1, G.p⟩ (maskOf (condense G.g).2 P.g.length) P = _
  rw [rotateMasked_eq_rotate_embedGen, ← hl, embedGen_condense]


/-! ## `diagonalize(P, i0)`: the circuit of rotation gates run forward -/

theorem diag1_anyBit (g : PStr) (i0 : Nat) (hi : i0 < g.length) (hany : anyBit g = true) :
    ∀ h ∈ diagonalize1 g i0, anyBit h = true := by
  unfold diagonalize1
  by_cases hA : (isOnsite g i0 && !(getQ g i0).1) = true
  · simp only [hA, Bool.not_true, Bool.false_eq_true, if_false]
    intro h hh; cases hh
  · have hA' : (isOnsite g i0 && !(getQ g i0).1) = false := by simpa using hA
    simp only [hA', Bool.not_false, if_true]
    cases hx : (getQ g i0).1 with
    | false =>
      simp only [Bool.not_false, if_true]
      obtain ⟨ha, hx'⟩ := Rn.diagGenA_spec g i0 hi hany hx
      have hlA := Rn.length_diagGenA g i0
      have hl1 : (xorS g (diagGenA g i0)).length = g.length := length_xorS_eq _ _ hlA.symm
      obtain ⟨hb, _⟩ := Rn.diagGenB_spec (xorS g (diagGenA g i0)) i0 (by rw [hl1]; exact hi) hx'
      intro h hh
      simp only [List.mem_cons, List.not_mem_nil, or_false] at hh
      rcases hh with rfl | rfl
      · exact Rn.anyBit_of_acq _ _ ha
      · exact Rn.anyBit_of_acq _ _ hb
    | true =>
      simp only [Bool.not_true, Bool.false_eq_true, if_false]
      obtain ⟨hb, _⟩ := Rn.diagGenB_spec g i0 hi hx
      intro h hh
      simp only [List.mem_cons, List.not_mem_nil, or_false] at hh
      subst hh
      exact Rn.anyBit_of_acq _ _ hb

theorem length_condense (g : PStr) : (condense g).1.length = (condense g).2.length := by
  have hn : (condense g).2.Nodup := List.nodup_range.sublist List.filter_sublist
  have hb : ∀ q ∈ (condense g).2, q < g.length := by
    intro q hq; exact List.mem_range.1 (List.mem_filter.1 hq).1
  rw [← Ci.maskCount_maskOf _ g.length hn hb, maskOf_support]
  unfold maskCount condense
  rw [List.filter_map, List.length_map]
  rfl

/-- the rotation gate of a non-identity Hermitian generator on the full register is a well-formed gate -/
theorem rotationGate_WF (h : PStr) (N : Nat) (hl : h.length = N) (hany : anyBit h = true) :
    (rotationGate ⟨h, 0⟩ none).WF N := by
  refine ⟨?_, ?_, ?_, Or.inl ⟨⟨(condense h).1, 0⟩, rfl, length_condense h, rfl⟩⟩
  · obtain ⟨j, hj, hn⟩ := (Rn.anyBit_iff h).1 hany
    intro he
    have : j ∈ (condense h).2 := List.mem_filter.2 ⟨List.mem_range.2 hj, hn⟩
    rw [show (condense h).2 = [] from he] at this
    cases this
  · intro q hq
    rw [← hl]; exact List.mem_range.1 (List.mem_filter.1 hq).1
  · exact List.nodup_range.sublist List.filter_sublist

theorem seqAct_rotationGates (N : Nat) : ∀ (gens : List PStr) (P : Pauli), P.g.length = N → (∀ h ∈ gens, h.length = N) →
    seqAct (gens.map fun h => rotationGate ⟨h, 0⟩ none) N P = Rn.rotP gens P := by
  intro gens
  induction gens with
  | nil => intro P _ _; rfl
  | cons h hs ih =>
    intro P hP hl
    have hh : h.length = N := hl h (by simp)
    rw [List.map_cons, Ci.seqAct_cons]
    have e : gateAct (rotationGate ⟨h, 0⟩ none) N P = rotate ⟨h, 0⟩ P := by
      rw [← hP]; exact rotationGate_acts ⟨h, 0⟩ P (by rw [hP]; exact hh)
    rw [e]
    exact ih (rotate ⟨h, 0⟩ P) (by rw [length_rotate _ _ (by rw [hP]; exact hh), hP])
      (fun x hx => hl x (by simp [hx]))

theorem diagonalizePauli_sound (g : PStr) (p : Int) (i0 : Nat) (c : Circ) (hi : i0 < g.length) (hg : anyBit g = true)
    (hc : diagonalizePauli g i0 false = .ok c) :
    ∃ c' R, c.forward ⟨⟨[⟨g, p⟩], 0, false⟩, [], []⟩ = .ok (c', ⟨⟨[R], 0, false⟩, [], []⟩) ∧
      PEq R (Rn.rotP (diagonalize1 g i0) ⟨g, p⟩) := by
  obtain ⟨_, hlen⟩ := Rn.diag1_strings g i0 hi hg
  have hany := diag1_anyBit g i0 hi hg
  have hw : ∀ gt ∈ (diagonalize1 g i0).map (fun h => rotationGate ⟨h, 0⟩ none), gt.WF g.length := by
    intro gt hgt
    obtain ⟨h, hh, rfl⟩ := List.mem_map.1 hgt
    exact rotationGate_WF h g.length (hlen h hh) (hany h hh)
  have hI := Ci.fold_inv g.length _ { N := g.length } c [] (Ci.inv_init g.length) hw hc
  rw [List.nil_append] at hI
  obtain ⟨c', rows', hf, hl, hr⟩ := Ci.forward_of_inv g.length c _ [⟨g, p⟩] 0 false [] [] hI
    (by intro R hR; rw [List.mem_singleton] at hR; rw [hR])
  match rows', hl, hr with
  | [R], _, hr =>
    refine ⟨c', R, hf, ?_⟩
    have := hr 0 (by simp)
    rw [← seqAct_rotationGates g.length (diagonalize1 g i0) ⟨g, p⟩ rfl hlen]
    exact this


/-! ## the overlap chain `projTrace` -/
section Chain
open Ms

theorem projTrace_nil (st : State) (t : Dy) : projTrace st [] t = .ok (st, t) := rfl
theorem projTrace_cons_ok (st st1 : State) (o : Pauli) (os : List Pauli) (t t1 : Dy)
    (h : projTrace1 st o t = .ok (st1, t1)) : projTrace st (o :: os) t = projTrace st1 os t1 := by
  simp only [projTrace, h]
theorem projTrace_cons_err (st : State) (o : Pauli) (os : List Pauli) (t : Dy) (e : Err)
    (h : projTrace1 st o t = .error e) : projTrace st (o :: os) t = .error e := by
  simp only [projTrace, h]

/-- one step of the chain keeps every stabilizer that commutes with the observable -/
theorem projTrace1_keeps (st st' : State) (n : Nat) (O : Pauli) (t t' : Dy) (h : TabInv st n) (hr : st.r = 0)
    (ho : O.g.length = n) (hev : O.p % 2 = 0) (hm : projTrace1 st O t = .ok (st', t'))
    (P : Pauli) (hP : InGroup st P) (hc : acq P.g O.g = 0) : InGroup st' P := by
  have hN := h.N_eq
  rcases projTrace1_cases st O t with ⟨p, hp1, hp2, _, he⟩ | ⟨hc', he⟩
  · rw [hN, hr] at hp1
    rw [he] at hm
    injection hm with hm
    injection hm with h1 h2
    subst h1
    have hk : PivotOK st n O.g p := ⟨by omega, hp2, fun _ _ _ _ => ⟨by omega, by omega⟩⟩
    exact pivotState_keeps st n O.g p O.p h ho hk hev P hP hc
  · rw [hN] at hc' he
    obtain ⟨d1, _, _, _⟩ := det_spec st n O.g h ho hc'
    rw [if_pos d1] at he
    rw [he] at hm
    injection hm with hm
    injection hm with h1 _
    subst h1
    exact hP


/-- along the whole chain every stabilizer that commutes with all the observables is kept -/
theorem projTrace_keeps (n : Nat) : ∀ (obs : List Pauli) (st st' : State) (t t' : Dy), TabInv st n → st.r = 0 →
    (∀ O ∈ obs, O.g.length = n ∧ (O.p = 0 ∨ O.p = 2)) → projTrace st obs t = .ok (st', t') →
    ∀ P : Pauli, InGroup st P → (∀ O ∈ obs, acq P.g O.g = 0) → InGroup st' P := by
  intro obs
  induction obs with
  | nil =>
    intro st st' t t' _ _ _ hm P hP _
    rw [projTrace_nil] at hm
    injection hm with hm; injection hm with h1 _
    subst h1; exact hP
  | cons o os ih =>
    intro st st' t t' h hr ho hm P hP hc
    obtain ⟨hol, hop⟩ := ho o (by simp)
    cases h1 : projTrace1 st o t with
    | error e => rw [projTrace_cons_err _ _ _ _ _ h1] at hm; cases hm
    | ok x =>
      obtain ⟨st1, t1⟩ := x
      rw [projTrace_cons_ok _ _ _ _ _ _ h1] at hm
      obtain ⟨hi1, hr1, _⟩ := C07_projTrace1_spec st st1 n o t t1 h hr hol (by omega) (by omega) h1
      have hP1 := projTrace1_keeps st st1 n o t t1 h hr hol (by omega) h1 P hP (hc o (by simp))
      exact ih st1 st' t1 t' hi1 hr1 (fun O hO => ho O (by simp [hO])) hm P hP1 (fun O hO => hc O (by simp [hO]))

/-- the chain: invariant, purity, the exponent counts the ½-steps, `zero` is sticky, and the last observable
    stabilizes the final state when the trace is non-zero -/
theorem projTrace_chain_core (n : Nat) : ∀ (obs : List Pauli) (st st' : State) (t t' : Dy), TabInv st n → st.r = 0 →
    (∀ O ∈ obs, O.g.length = n ∧ (O.p = 0 ∨ O.p = 2)) → projTrace st obs t = .ok (st', t') →
    TabInv st' n ∧ st'.r = 0 ∧ t.k ≤ t'.k ∧ t'.k ≤ t.k + obs.length ∧ (t.zero = true → t'.zero = true) ∧
    (t'.zero = false → ∀ O, obs.getLast? = some O → InGroup st' O) ∧
    (t'.zero = false → (∀ A ∈ obs, ∀ B ∈ obs, acq A.g B.g = 0) → ∀ O ∈ obs, InGroup st' O) := by
  intro obs
  induction obs with
  | nil =>
    intro st st' t t' h hr _ hm
    rw [projTrace_nil] at hm
    injection hm with hm; injection hm with h1 h2
    subst h1; subst h2
    refine ⟨h, hr, Nat.le_refl _, Nat.le_refl _, id, ?_, ?_⟩
    · intro _ O hO; cases hO
    · intro _ _ O hO; cases hO
  | cons o os ih =>
    intro st st' t t' h hr ho hm
    obtain ⟨hol, hop⟩ := ho o (by simp)
    have ho' : ∀ O ∈ os, O.g.length = n ∧ (O.p = 0 ∨ O.p = 2) := fun O hO => ho O (by simp [hO])
    cases h1 : projTrace1 st o t with
    | error e => rw [projTrace_cons_err _ _ _ _ _ h1] at hm; cases hm
    | ok x =>
      obtain ⟨st1, t1⟩ := x
      rw [projTrace_cons_ok _ _ _ _ _ _ h1] at hm
      obtain ⟨hi1, hr1, hcase⟩ := C07_projTrace1_spec st st1 n o t t1 h hr hol (by omega) (by omega) h1
      obtain ⟨a1, a2, a3, a4, a5, a6, a7⟩ := ih st1 st' t1 t' hi1 hr1 ho' hm
      -- facts about the first step
      have hk : t.k ≤ t1.k ∧ t1.k ≤ t.k + 1 ∧ (t.zero = true → t1.zero = true) ∧ (t1.zero = false → InGroup st1 o) := by
        rcases hcase with ⟨hin, e1, e2⟩ | ⟨_, _, e2⟩ | ⟨_, hin, e2⟩
        · subst e1; subst e2; exact ⟨Nat.le_refl _, Nat.le_succ _, id, fun _ => hin⟩
        · subst e2; exact ⟨Nat.le_refl _, Nat.le_succ _, fun _ => rfl, fun hz => by cases hz⟩
        · subst e2; exact ⟨Nat.le_succ _, Nat.le_refl _, id, fun _ => hin⟩
      obtain ⟨k1, k2, k3, k4⟩ := hk
      have hz1 : t'.zero = false → t1.zero = false := by
        intro hz
        cases hz1 : t1.zero with
        | false => rfl
        | true => rw [a5 hz1] at hz; cases hz
      refine ⟨a1, a2, by omega, by simp only [List.length_cons]; omega, fun hz => a5 (k3 hz), ?_, ?_⟩
      · intro hz O hO
        cases os with
        | nil =>
          rw [projTrace_nil] at hm
          injection hm with hm; injection hm with e1 e2
          subst e1; subst e2
          simp only [List.getLast?_singleton, Option.some.injEq] at hO
          subst hO
          exact k4 hz
        | cons o2 os2 =>
          rw [List.getLast?_cons_cons] at hO
          exact a6 hz O hO
      · intro hz hcomm O hO
        rcases List.mem_cons.1 hO with rfl | hO
        · exact projTrace_keeps n os st1 st' t1 t' hi1 hr1 ho' hm O (k4 (hz1 hz))
            (fun B hB => hcomm O (by simp) B (by simp [hB]))
        · exact a7 hz (fun A hA B hB => hcomm A (by simp [hA]) B (by simp [hB])) O hO


end Chain

/-! ## the counterexample to "every observable of the chain stabilizes the final state": `[X, Z]` on `|0⟩` -/

theorem projTrace_XZ : projTrace (zeroState 1) [⟨[(true, false)], 0⟩, ⟨[(false, true)], 0⟩] ⟨false, 0⟩ =
    .ok (⟨[⟨[(false, true)], 0⟩, ⟨[(true, false)], 0⟩], 0⟩, ⟨false, 2⟩) := by decide

theorem not_inGroup_X : ¬ InGroup ⟨[⟨[(false, true)], 0⟩, ⟨[(true, false)], 0⟩], 0⟩ ⟨[(true, false)], 0⟩ := by
  rintro ⟨c, hc, hp⟩
  have hc' : c.length = 1 := hc
  match c, hc' with
  | [b], _ =>
    have := hp.1
    cases b <;> revert this <;> decide

theorem tabInv_zero1 : TabInv (zeroState 1) 1 :=
  C05_toState_inv (idMap 1) 1 0 (validMapB_sound _ _ (by decide)) (Nat.zero_le _)

end Pl
end PC
