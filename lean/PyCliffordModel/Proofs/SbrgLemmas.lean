import PyCliffordModel.Model.SBRG
import PyCliffordModel.Proofs.DiagLemmas
import PyCliffordModel.Proofs.PolyLemmas
import PyCliffordModel.Proofs.CircuitLemmas
/-! # Proofs/SbrgLemmas — helper lemmas for C18c (SBRG: diagonal effective Hamiltonian, commuting case, totality) -/
namespace PC
namespace Sb

/-! ## strings: `getQ` through `take`/`drop`/`++`, absence of `X` components -/

theorem getQ_take (g : PStr) (k j : Nat) (h : j < k) : getQ (g.take k) j = getQ g j := by
  simp [getQ, List.getD_eq_getElem?_getD, h]

theorem getQ_drop (g : PStr) (k j : Nat) : getQ (g.drop k) j = getQ g (k + j) := by
  simp [getQ, List.getD_eq_getElem?_getD, List.getElem?_drop]

theorem getQ_append_left (a b : PStr) (j : Nat) (h : j < a.length) : getQ (a ++ b) j = getQ a j := by
  simp [getQ, List.getD_eq_getElem?_getD, List.getElem?_append_left h]

theorem getQ_append_right (a b : PStr) (j : Nat) : getQ (a ++ b) (a.length + j) = getQ b j := by
  simp [getQ, List.getD_eq_getElem?_getD, List.getElem?_append_right]

/-- a string made of `I` and `Z` only (`noX` of `Properties/C18c`) -/
def noX (g : PStr) : Bool := g.all fun q => !q.1

/-- no `X` component on the qubits `< k` -/
def XFree (k : Nat) (g : PStr) : Prop := ∀ j, j < k → (getQ g j).1 = false

theorem noX_iff (g : PStr) : noX g = true ↔ ∀ j, (getQ g j).1 = false := by
  unfold noX
  rw [List.all_eq_true]
  constructor
  · intro h j
    by_cases hj : j < g.length
    · rw [Rn.getQ_of_lt g j hj]
      have := h _ (List.getElem_mem hj)
      simpa using this
    · rw [Rn.getQ_of_le g j (by omega)]
  · intro h q hq
    obtain ⟨j, hj, rfl⟩ := List.getElem_of_mem hq
    have := h j
    rw [Rn.getQ_of_lt g j hj] at this
    simp [this]

theorem XFree_zero (g : PStr) : XFree 0 g := fun j hj => by omega

theorem XFree_succ (k : Nat) (g : PStr) (h : XFree k g) (hk : (getQ g k).1 = false) : XFree (k + 1) g := by
  intro j hj
  by_cases e : j = k
  · subst e; exact hk
  · exact h j (by omega)

theorem XFree_mono (k k' : Nat) (g : PStr) (hk : k' ≤ k) (h : XFree k g) : XFree k' g :=
  fun j hj => h j (by omega)

theorem XFree_of_take (k : Nat) (g g' : PStr) (e : g'.take k = g.take k) (h : XFree k g) : XFree k g' := by
  intro j hj
  rw [← getQ_take g' k j hj, e, getQ_take g k j hj]
  exact h j hj

theorem getQ_xorS_x : ∀ (a b : PStr) (j : Nat), (getQ a j).1 = false → (getQ b j).1 = false →
    (getQ (xorS a b) j).1 = false
  | [], _, j, _, _ => by simp [xorS, Rn.getQ_nil]
  | _ :: _, [], j, _, _ => by simp [xorS, Rn.getQ_nil]
  | x :: xs, y :: ys, 0, ha, hb => by
    rw [xorS_cons, Rn.getQ_cons_zero]
    rw [Rn.getQ_cons_zero] at ha hb
    simp [xorQ, ha, hb]
  | x :: xs, y :: ys, j + 1, ha, hb => by
    rw [xorS_cons, Rn.getQ_cons_succ]
    rw [Rn.getQ_cons_succ] at ha hb
    exact getQ_xorS_x xs ys j ha hb

theorem XFree_xorS (k : Nat) (a b : PStr) (ha : XFree k a) (hb : XFree k b) : XFree k (xorS a b) :=
  fun j hj => getQ_xorS_x a b j (ha j hj) (hb j hj)

/-- `X` at qubit `j` of a product is the xor of the `X` components (equal lengths) -/
theorem getQ_xorS_x_both (a b : PStr) (j : Nat) (hl : a.length = b.length) (ha : (getQ a j).1 = true)
    (hb : (getQ b j).1 = true) : (getQ (xorS a b) j).1 = false := by
  rw [Rn.getQ_xorS a b j hl]
  simp [xorQ, ha, hb]

theorem noX_of_XFree (g : PStr) (i0 : Nat) (h : XFree (i0 + 1) g) (ht : anyBit (g.drop (i0 + 1)) = false) :
    noX g = true := by
  rw [noX_iff]
  intro j
  by_cases hj : j < i0 + 1
  · exact h j hj
  · have e := Rn.anyBit_eq_false _ ht
    have : getQ g j = getQ (g.drop (i0 + 1)) (j - (i0 + 1)) := by
      rw [getQ_drop]; congr 1; omega
    rw [this, e, Rn.getQ_idStr]

/-! ## polynomials: strings of `reduce`, `polyMatmul`; term lists equal up to phase representatives -/

theorem mem_keys_merge (a : Poly) : ∀ (acc : List (PStr × Cx)) (k : PStr), k ∈ (merge a acc).map Prod.fst →
    k ∈ acc.map Prod.fst ∨ ∃ s ∈ a, s.1.g = k := by
  induction a with
  | nil => intro acc k h; exact Or.inl h
  | cons t a ih =>
    intro acc k h
    rcases ih _ k h with h1 | ⟨s, hs, e⟩
    · rcases (mem_keys_insertTerm _ _ _ _).1 h1 with h2 | h2
      · exact Or.inr ⟨t, by simp, h2.symm⟩
      · exact Or.inl h2
    · exact Or.inr ⟨s, by simp [hs], e⟩

/-- the strings of `reduce a` are strings of `a` -/
theorem mem_reduce_string (a : Poly) (tn td : Nat) (t : Term) (ht : t ∈ reduce a tn td) :
    ∃ s ∈ a, s.1.g = t.1.g := by
  rw [reduce_eq] at ht
  obtain ⟨x, hx, rfl⟩ := List.mem_map.1 ht
  have hx' := (List.mem_filter.1 hx).1
  rcases mem_keys_merge a [] x.1 (List.mem_map.2 ⟨x, hx', rfl⟩) with h | h
  · simp at h
  · exact h

theorem mem_polyMatmul (a b : Poly) (t : Term) (ht : t ∈ polyMatmul a b) :
    ∃ x ∈ a, ∃ y ∈ b, t.1.g = xorS x.1.g y.1.g := by
  unfold polyMatmul batchDot at ht
  obtain ⟨x, hx, h1⟩ := List.mem_flatMap.1 ht
  obtain ⟨y, hy, rfl⟩ := List.mem_map.1 h1
  exact ⟨x, hx, y, hy, rfl⟩

theorem coef_of_not_mem (a : Poly) (g : PStr) (h : ∀ t ∈ a, t.1.g ≠ g) : coef a g = Cx.zero := by
  induction a with
  | nil => rfl
  | cons t a ih =>
    rw [coef_cons, ih (fun s hs => h s (by simp [hs]))]
    unfold termVal
    rw [if_neg (h t (by simp)), Cx.add_zero]

theorem coef_perm {a b : Poly} (h : a.Perm b) (g : PStr) : coef a g = coef b g := by
  induction h with
  | nil => rfl
  | cons x _ ih => rw [coef_cons, coef_cons, ih]
  | swap x y l => simp only [coef_cons]; exact Cx.add_left_comm _ _ _
  | trans _ _ ih1 ih2 => exact ih1.trans ih2

/-- term lists that agree up to the representation of the phases mod 4 -/
def TEq (a b : Poly) : Prop := List.Forall₂ (fun s t : Term => PEq s.1 t.1 ∧ s.2 = t.2) a b

theorem TEq.refl (a : Poly) : TEq a a := by
  induction a with
  | nil => exact List.Forall₂.nil
  | cons t a ih => exact List.Forall₂.cons ⟨PEq.refl _, rfl⟩ ih

theorem TEq.symm {a b : Poly} (h : TEq a b) : TEq b a := by
  induction h with
  | nil => exact List.Forall₂.nil
  | cons h1 _ ih => exact List.Forall₂.cons ⟨h1.1.symm, h1.2.symm⟩ ih

theorem TEq.trans {a b c : Poly} (h1 : TEq a b) (h2 : TEq b c) : TEq a c := by
  induction h1 generalizing c with
  | nil => cases h2; exact List.Forall₂.nil
  | cons hab _ ih =>
    cases h2 with
    | cons hbc h2' => exact List.Forall₂.cons ⟨hab.1.trans hbc.1, hab.2.trans hbc.2⟩ (ih h2')

theorem TEq.length {a b : Poly} (h : TEq a b) : a.length = b.length := List.Forall₂.length_eq h

theorem TEq.coef {a b : Poly} (h : TEq a b) (g : PStr) : coef a g = coef b g := by
  induction h with
  | nil => rfl
  | cons hst _ ih =>
    rw [coef_cons, coef_cons, ih]
    congr 1
    unfold termVal
    rw [hst.1.1, hst.2, Cx.ipow_congr hst.1.2]

theorem TEq.mem_left {a b : Poly} (h : TEq a b) (s : Term) (hs : s ∈ a) : ∃ t ∈ b, PEq s.1 t.1 ∧ s.2 = t.2 := by
  induction h with
  | nil => cases hs
  | cons hst _ ih =>
    rcases List.mem_cons.1 hs with rfl | hs
    · exact ⟨_, by simp, hst⟩
    · obtain ⟨t, ht, h⟩ := ih hs
      exact ⟨t, by simp [ht], h⟩

theorem TEq.getElem? {a b : Poly} (h : TEq a b) (i : Nat) (s : Term) (hs : a[i]? = some s) :
    ∃ t, b[i]? = some t ∧ PEq s.1 t.1 ∧ s.2 = t.2 := by
  induction h generalizing i with
  | nil => simp at hs
  | cons hst _ ih =>
    cases i with
    | zero => simp at hs; subst hs; exact ⟨_, by simp, hst⟩
    | succ i => simp at hs; simpa using ih i hs

theorem TEq.filter {a b : Poly} (h : TEq a b) (p q : Term → Bool)
    (hpq : ∀ s t : Term, s.1.g = t.1.g → p s = q t) : TEq (a.filter p) (b.filter q) := by
  induction h with
  | nil => exact List.Forall₂.nil
  | @cons s t l1 l2 hst _ ih =>
    have e := hpq s t hst.1.1
    simp only [List.filter_cons]
    rw [e]
    cases q t with
    | true => exact List.Forall₂.cons hst ih
    | false => exact ih

theorem TEq.append {a b c d : Poly} (h1 : TEq a b) (h2 : TEq c d) : TEq (a ++ c) (b ++ d) := by
  induction h1 with
  | nil => exact h2
  | cons hst _ ih => exact List.Forall₂.cons hst ih

theorem TEq.map {a b : Poly} (h : TEq a b) (f : Pauli → Pauli) (hf : ∀ x y, PEq x y → PEq (f x) (f y)) :
    TEq (a.map fun t => (f t.1, t.2)) (b.map fun t => (f t.1, t.2)) := by
  induction h with
  | nil => exact List.Forall₂.nil
  | cons hst _ ih => exact List.Forall₂.cons ⟨hf _ _ hst.1, hst.2⟩ ih

/-- rows equal up to phases, zipped with the coefficients -/
theorem TEq_zip (f : Pauli → Pauli) : ∀ (ts : Poly) (rows : List Pauli),
    List.Forall₂ PEq rows ((ts.map (·.1)).map f) → TEq (rows.zip (ts.map (·.2))) (ts.map fun t => (f t.1, t.2))
  | [], rows, h => by cases h; exact List.Forall₂.nil
  | t :: ts, rows, h => by
    cases h with
    | cons h1 h2 => exact List.Forall₂.cons ⟨h1, rfl⟩ (TEq_zip f ts _ h2)

/-! ## causal rotations on strings -/

/-- the string of `Dg.liftAct i0 (Rn.rotP gens) P`: first `i0` qubits kept, signless rotations on the rest -/
def cstr (i0 : Nat) (gens : List PStr) (g : PStr) : PStr := g.take i0 ++ Rn.rotS gens (g.drop i0)

theorem liftAct_g (i0 : Nat) (gens : List PStr) (P : Pauli) :
    (Dg.liftAct i0 (Rn.rotP gens) P).g = cstr i0 gens P.g := by
  simp only [Dg.liftAct, cstr, (Rn.rotP_spec gens _).1]

theorem acqSum_append : ∀ (a c b d : PStr), a.length = c.length →
    acqSum (a ++ b) (c ++ d) = acqSum a c + acqSum b d
  | [], [], b, d, _ => by simp [acqSum_nil_left]
  | [], _ :: _, _, _, h => by simp at h
  | _ :: _, [], _, _, h => by simp at h
  | x :: xs, y :: ys, b, d, h => by
    simp only [List.cons_append, acqSum_cons]
    rw [acqSum_append xs ys b d (by simpa using h)]
    omega

theorem anyBit_rotS (gens : List PStr) (h : PStr) (hl : ∀ g ∈ gens, g.length = h.length) (hh : anyBit h = true) :
    anyBit (Rn.rotS gens h) = true := by
  have := Rn.acq_rotS gens h (Rn.fixP h h) hl (Rn.length_fixP h h).symm
  rw [Rn.acq_fixP h h rfl hh] at this
  exact Rn.anyBit_of_acq _ _ this

theorem rotP_id : ∀ (gens : List PStr) (P : Pauli), anyBit P.g = false → Rn.rotP gens P = P
  | [], _, _ => rfl
  | g :: gs, P, h => by
    show Rn.rotP gs (rotate ⟨g, 0⟩ P) = P
    have e : rotate ⟨g, 0⟩ P = P := by
      apply rotate_of_acq_zero
      show acq g P.g = 0
      rw [Rn.anyBit_eq_false _ h]
      exact acq_idStr_right _ _
    rw [e]
    exact rotP_id gs P h

section cstr
variable (i0 N : Nat) (gens : List PStr) (hg : ∀ h ∈ gens, i0 + h.length = N)
include hg

theorem cstr_drop (g : PStr) (hl : g.length = N) : (cstr i0 gens g).drop i0 = Rn.rotS gens (g.drop i0) := by
  have _ := hg
  by_cases hi : i0 ≤ N
  · exact List.drop_left' (by rw [List.length_take]; omega)
  · unfold cstr
    rw [List.take_of_length_le (by omega), List.drop_of_length_le (by omega : g.length ≤ i0)]
    cases gens with
    | nil => simp [Rn.rotS]; omega
    | cons h hs => have := hg h (by simp); omega

theorem cstr_take (g : PStr) (hl : g.length = N) : (cstr i0 gens g).take i0 = g.take i0 := by
  have _ := hg
  by_cases hi : i0 ≤ N
  · exact List.take_left' (by rw [List.length_take]; omega)
  · cases gens with
    | nil => simp [cstr, Rn.rotS]
    | cons h hs => have := hg h (by simp); omega

theorem length_rotS_drop (g : PStr) (hl : g.length = N) : (Rn.rotS gens (g.drop i0)).length = N - i0 := by
  rw [Rn.length_rotS, List.length_drop, hl]
  intro h hh
  have := hg h hh
  rw [List.length_drop]; omega

theorem length_cstr (g : PStr) (hl : g.length = N) : (cstr i0 gens g).length = N := by
  unfold cstr
  rw [List.length_append, length_rotS_drop i0 N gens hg g hl, List.length_take]
  omega

theorem acq_cstr (a b : PStr) (ha : a.length = N) (hb : b.length = N) :
    acq (cstr i0 gens a) (cstr i0 gens b) = acq a b := by
  have h1 : acqSum (cstr i0 gens a) (cstr i0 gens b) =
      acqSum (a.take i0) (b.take i0) + acqSum (Rn.rotS gens (a.drop i0)) (Rn.rotS gens (b.drop i0)) := by
    unfold cstr
    exact acqSum_append _ _ _ _ (by simp [ha, hb])
  have h2 : acqSum a b = acqSum (a.take i0) (b.take i0) + acqSum (a.drop i0) (b.drop i0) := by
    conv => lhs; rw [← List.take_append_drop i0 a, ← List.take_append_drop i0 b]
    exact acqSum_append _ _ _ _ (by simp [ha, hb])
  have h3 := Rn.acq_rotS gens (a.drop i0) (b.drop i0)
    (fun h hh => by have := hg h hh; rw [List.length_drop]; omega) (by simp [ha, hb])
  unfold acq at h3 ⊢
  rw [h1, h2]
  omega

theorem anyBit_cstr (g : PStr) (hl : g.length = N) (h : anyBit (g.drop i0) = true) :
    anyBit ((cstr i0 gens g).drop i0) = true := by
  rw [cstr_drop i0 N gens hg g hl]
  exact anyBit_rotS gens _ (fun x hx => by have := hg x hx; rw [List.length_drop]; omega) h

end cstr

theorem liftAct_id (i0 : Nat) (gens : List PStr) (P : Pauli) (h : anyBit (P.g.drop i0) = false) :
    Dg.liftAct i0 (Rn.rotP gens) P = P := by
  unfold Dg.liftAct
  rw [rotP_id gens ⟨P.g.drop i0, P.p⟩ h]
  simp

/-! ## the causal circuit as a program -/

/-- the generators used by `diagonalize(L, i0, causal=True)` -/
def cgens (Lg : PStr) (i0 : Nat) : List PStr := diagonalize1 (Lg.drop i0) 0

theorem cgens_len (Lg : PStr) (i0 : Nat) (hi : i0 < Lg.length) : ∀ h ∈ cgens Lg i0, i0 + h.length = Lg.length :=
  fun h hh => (Dg.causal_gens Lg i0 hi h hh).2

theorem seqAct_causalGates (Lg : PStr) (i0 : Nat) (hi : i0 < Lg.length) (P : Pauli) (hP : P.g.length = Lg.length) :
    seqAct (Dg.causalGates Lg i0) Lg.length P = Dg.liftAct i0 (Rn.rotP (cgens Lg i0)) P :=
  Dg.seqAct_causal Lg.length i0 (cgens Lg i0) P hP (cgens_len Lg i0 hi)

/-- the image of a term list under a gate program (coefficients kept) -/
def img (prog : List Gate) (N : Nat) (ts : Poly) : Poly := ts.map fun t => (seqAct prog N t.1, t.2)

theorem img_nil (N : Nat) (ts : Poly) : img [] N ts = ts := by
  unfold img
  conv => rhs; rw [← List.map_id ts]
  rfl

theorem img_append (p1 p2 : List Gate) (N : Nat) (ts : Poly) : img (p1 ++ p2) N ts = img p2 N (img p1 N ts) := by
  unfold img
  rw [List.map_map]
  apply List.map_congr_left
  intro t _
  simp [Ci.seqAct_append]

theorem img_filter (prog : List Gate) (N : Nat) (ts : Poly) (p : Term → Bool) :
    (img prog N ts).filter p = img prog N (ts.filter fun t => p (seqAct prog N t.1, t.2)) := by
  unfold img
  rw [List.filter_map]
  rfl

theorem img_TEq (prog : List Gate) (N : Nat) {a b : Poly} (h : TEq a b) : TEq (img prog N a) (img prog N b) :=
  TEq.map h _ (fun _ _ hxy => Ci.seqAct_congr prog N hxy)

theorem img_length (prog : List Gate) (N : Nat) (ts : Poly) : (img prog N ts).length = ts.length := by
  simp [img]

/-- running a circuit with invariant `Ci.Inv N c pre` on the operators of a term list -/
theorem forward_terms (N : Nat) (c : Circ) (pre : List Gate) (ts : Poly) (hI : Ci.Inv N c pre)
    (hl : ∀ t ∈ ts, t.1.g.length = N) :
    ∃ c' rows', c.forward ⟨⟨ts.map (·.1), 0, false⟩, [], []⟩ = .ok (c', ⟨⟨rows', 0, false⟩, [], []⟩) ∧
      rows'.length = ts.length ∧ TEq (rows'.zip (ts.map (·.2))) (img pre N ts) := by
  obtain ⟨c', rows', hf, hR⟩ := Ci.forward_of_inv N c pre (ts.map (·.1)) 0 false [] [] hI
    (by intro R hR; obtain ⟨t, ht, rfl⟩ := List.mem_map.1 hR; exact hl t ht)
  refine ⟨c', rows', hf, by have := hR.1; simpa using this, ?_⟩
  exact TEq_zip (seqAct pre N) ts rows' (Cp.forall₂_of_rowAt _ _ hR.1 hR.2)

theorem circApply_of_inv (N : Nat) (c : Circ) (pre : List Gate) (ts : Poly) (hI : Ci.Inv N c pre)
    (hl : ∀ t ∈ ts, t.1.g.length = N) :
    ∃ ht, circApply c ts = .ok ht ∧ TEq ht (img pre N ts) := by
  obtain ⟨c', rows', hf, _, hT⟩ := forward_terms N c pre ts hI hl
  refine ⟨rows'.zip (ts.map (·.2)), ?_, hT⟩
  unfold circApply
  rw [hf]

/-- `diagonalize(L, i0, causal=True)` succeeds and is the program `Dg.causalGates` -/
theorem causal_circ (Lg : PStr) (i0 : Nat) (hi : i0 < Lg.length) :
    ∃ ci, diagonalizePauli Lg i0 true = .ok ci ∧ Ci.Inv Lg.length ci (Dg.causalGates Lg i0) := by
  have hw : ∀ gt ∈ Dg.causalGates Lg i0, gt.WF Lg.length := fun gt hgt => (Dg.causalGates_spec Lg i0 hi gt hgt).1
  rw [Dg.diagonalizePauli_causal_eq]
  obtain ⟨ci, hc⟩ := Dg.fold_take_ok Lg.length _ { N := Lg.length } rfl (by simp) hw
  refine ⟨ci, hc, ?_⟩
  have hI := Ci.fold_inv Lg.length _ { N := Lg.length } ci [] (Ci.inv_init Lg.length) hw hc
  rwa [List.nil_append] at hI

/-! ## one SBRG iteration -/

/-- `htmp[leading].inverse() @ prod`, halved, added to the diagonal part -/
def invChain (L' : Term) (prod diag : Poly) : Except Err Poly :=
  match monoInverse L' with
  | .error e => .error e
  | .ok inv =>
    match inv.matmul (.poly prod) with
    | .error e => .error e
    | .ok m =>
      match m.rmul ⟨1 / 2, 0⟩ with
      | .error e => .error e
      | .ok hm =>
        match (PObj.poly diag).add hm with
        | .ok (.poly r) => .ok r
        | .ok (.zero _) => .ok []
        | .ok _ => .error .type
        | .error e => .error e

/-- the new working Hamiltonian of one iteration, from the rotated terms `ht` (the `if len(anti) != 0` block) -/
def nextOf (cfg : SbrgCfg) (i0 lead : Nat) (ht : Poly) : Except Err Poly :=
  let anti := ht.filter (xAt i0)
  if anti.length ≠ 0 then
    let diag := ht.filter fun t => !(xAt i0 t)
    let lenMax := roundHalfEven (cfg.rateNum * anti.length) cfg.rateDen
    let prod := (reduce (polyMatmul anti anti) cfg.tolNum cfg.tolDen).take lenMax
    if prod.length ≠ 0 then
      match ht[lead]? with
      | none => .error .index
      | some L' => invChain L' prod diag
    else .ok diag
  else .ok ht

/-- the single term of `htmp[leading].inverse()` -/
def invTerm (t : Term) : Term :=
  match unitPow (t.2.mul (Cx.ipow t.1.p)).inv with
  | some k => (smulI k ⟨t.1.g, 0⟩, Cx.one)
  | none => (⟨t.1.g, 0⟩, (t.2.mul (Cx.ipow t.1.p)).inv)

theorem invTerm_g (t : Term) : (invTerm t).1.g = t.1.g := by
  unfold invTerm
  split
  · simp only [smulI]; split <;> rfl
  · rfl

/-- the last step of the chain: a sum with a polynomial operand yields its term list, also when everything cancels
    (then the library returns the polynomial without terms, `.zero _`, and the term list is `[]`) -/
theorem addOut_poly (diag Y : Poly) :
    (match (PObj.poly diag).add (.poly Y) with
      | .ok (.poly r) => .ok r
      | .ok (.zero _) => .ok []
      | .ok _ => .error .type
      | .error e => .error e : Except Err Poly) = .ok (polyAdd diag Y) := by
  show (match (Except.ok (normP (PObj.poly diag).N (polyAdd diag Y)) : Except Err PObj) with
      | .ok (.poly r) => .ok r
      | .ok (.zero _) => .ok []
      | .ok _ => .error .type
      | .error e => .error e : Except Err Poly) = .ok (polyAdd diag Y)
  generalize polyAdd diag Y = X
  cases X with
  | nil => rfl
  | cons t X => rfl

/-- the closed form of the chain; `prod ≠ []` is needed since the library returns the polynomial without terms (not a term
    list) for an empty product — `sbrgStep` runs the chain only under `prod.length ≠ 0` -/
theorem invChain_eq (L' : Term) (prod diag : Poly) (hp : prod ≠ []) :
    invChain L' prod diag = .ok (polyAdd diag (polySmul ⟨1 / 2, 0⟩ (polyMatmul [invTerm L'] prod))) := by
  cases prod with
  | nil => exact absurd rfl hp
  | cons y ys =>
    unfold invChain monoInverse PObj.div PObj.rmul invTerm
    cases unitPow (L'.2.mul (Cx.ipow L'.1.p)).inv with
    | some k => exact addOut_poly diag _
    | none => exact addOut_poly diag _

/-- the triple returned by an iteration -/
def stepOut (i0 : Nat) (heff : Poly) (circ' : Circ) (h2 : Poly) : Poly × Poly × Circ :=
  (h2.filter fun t => !(trivialAfter i0 t), polyAdd heff (h2.filter (trivialAfter i0)), circ')

theorem sbrgStep_eq (cfg : SbrgCfg) (i0 lead : Nat) (htmp heff : Poly) (circ : Circ) (L : Term) (ci : Circ) (ht : Poly)
    (h1 : htmp[lead]? = some L) (h2 : diagonalizePauli L.1.g i0 true = .ok ci) (h4 : circApply ci htmp = .ok ht) :
    sbrgStep cfg i0 lead htmp heff circ =
      match circ.compose ci with
      | .error e => .error e
      | .ok circ' =>
        match nextOf cfg i0 lead ht with
        | .error e => .error e
        | .ok h2 => .ok (stepOut i0 heff circ' h2) := by
  unfold sbrgStep
  rw [h1]
  dsimp only
  rw [h2]
  dsimp only
  cases circ.compose ci with
  | error e => rfl
  | ok circ' =>
    dsimp only
    rw [h4]
    rfl

theorem sbrgStep_none (cfg : SbrgCfg) (i0 lead : Nat) (htmp heff : Poly) (circ : Circ) (h1 : htmp[lead]? = none) :
    sbrgStep cfg i0 lead htmp heff circ = .error .index := by
  unfold sbrgStep
  rw [h1]

theorem nextOf_ok (cfg : SbrgCfg) (i0 lead : Nat) (ht : Poly) (hl : lead < ht.length) :
    ∃ h2, nextOf cfg i0 lead ht = .ok h2 := by
  unfold nextOf
  dsimp only
  split
  · split
    · rw [List.getElem?_eq_getElem hl]
      exact ⟨_, invChain_eq _ _ _ (List.ne_nil_of_length_pos (Nat.pos_of_ne_zero ‹_›))⟩
    · exact ⟨_, rfl⟩
  · exact ⟨_, rfl⟩

theorem nextOf_comm (cfg : SbrgCfg) (i0 lead : Nat) (ht : Poly) (h : ht.filter (xAt i0) = []) :
    nextOf cfg i0 lead ht = .ok ht := by
  unfold nextOf
  dsimp only
  rw [h]
  rfl

theorem xAt_false_iff (i0 : Nat) (t : Term) : xAt i0 t = false ↔ (getQ t.1.g i0).1 = false := Iff.rfl

/-- every term of the new working Hamiltonian has no `X` component on qubits `≤ i0` -/
theorem nextOf_spec (cfg : SbrgCfg) (N i0 lead : Nat) (ht h2 : Poly)
    (hH : ∀ t ∈ ht, t.1.g.length = N ∧ XFree i0 t.1.g)
    (hL : ∀ L', ht[lead]? = some L' → XFree (i0 + 1) L'.1.g)
    (hn : nextOf cfg i0 lead ht = .ok h2) :
    ∀ t ∈ h2, t.1.g.length = N ∧ XFree (i0 + 1) t.1.g := by
  have hdiag : ∀ t ∈ ht.filter (fun t => !(xAt i0 t)), t.1.g.length = N ∧ XFree (i0 + 1) t.1.g := by
    intro t ht'
    obtain ⟨h1, h2'⟩ := List.mem_filter.1 ht'
    refine ⟨(hH t h1).1, XFree_succ _ _ (hH t h1).2 ?_⟩
    simpa [xAt] using h2'
  unfold nextOf at hn
  dsimp only at hn
  split at hn
  · split at hn
    · cases hLe : ht[lead]? with
      | none => rw [hLe] at hn; cases hn
      | some L' =>
        rw [hLe] at hn
        dsimp only at hn
        rw [invChain_eq _ _ _ (List.ne_nil_of_length_pos (Nat.pos_of_ne_zero ‹_›))] at hn
        cases hn
        have hL' := hL L' hLe
        have hL'l : L'.1.g.length = N := (hH L' (List.mem_of_getElem? hLe)).1
        intro t htm
        obtain ⟨s, hs, e⟩ := mem_reduce_string _ _ _ t htm
        rw [← e]
        rcases List.mem_append.1 hs with hs | hs
        · exact hdiag s hs
        · unfold polySmul at hs
          obtain ⟨s', hs', rfl⟩ := List.mem_map.1 hs
          obtain ⟨x, hx, y, hy, e1⟩ := mem_polyMatmul _ _ _ hs'
          simp only [List.mem_singleton] at hx
          subst hx
          show s'.1.g.length = N ∧ XFree (i0 + 1) s'.1.g
          rw [e1, invTerm_g]
          obtain ⟨y', hy', e2⟩ := mem_reduce_string _ _ _ y (List.mem_of_mem_take hy)
          obtain ⟨a, ha, b, hb, e3⟩ := mem_polyMatmul _ _ _ hy'
          obtain ⟨ha1, ha2⟩ := List.mem_filter.1 ha
          obtain ⟨hb1, hb2⟩ := List.mem_filter.1 hb
          have hyl : y.1.g.length = N := by
            rw [← e2, e3, length_xorS_eq _ _ ((hH a ha1).1.trans (hH b hb1).1.symm)]
            exact (hH a ha1).1
          have hyx : XFree (i0 + 1) y.1.g := by
            rw [← e2, e3]
            refine XFree_succ _ _ (XFree_xorS _ _ _ (hH a ha1).2 (hH b hb1).2) ?_
            exact getQ_xorS_x_both _ _ _ ((hH a ha1).1.trans (hH b hb1).1.symm) ha2 hb2
          exact ⟨by rw [length_xorS_eq _ _ (hL'l.trans hyl.symm)]; exact hL'l, XFree_xorS _ _ _ hL' hyx⟩
    · cases hn
      exact hdiag
  · cases hn
    rename_i hlen
    have hnil : ht.filter (xAt i0) = [] := by
      cases hf : ht.filter (xAt i0) with
      | nil => rfl
      | cons x xs => rw [hf] at hlen; simp at hlen
    intro t htm
    refine ⟨(hH t htm).1, XFree_succ _ _ (hH t htm).2 ?_⟩
    have := List.filter_eq_nil_iff.1 hnil t htm
    simpa [xAt] using this

/-! ## the invariants of the working Hamiltonian -/

/-- working Hamiltonian at pivot `i0`: `N` qubits, `I/Z` below `i0`, non-trivial on the qubits `≥ i0` -/
def HT (N i0 : Nat) (ts : Poly) : Prop :=
  ∀ t ∈ ts, t.1.g.length = N ∧ XFree i0 t.1.g ∧ anyBit (t.1.g.drop i0) = true

/-- pairwise commuting terms -/
def Comm (ts : Poly) : Prop := ∀ s ∈ ts, ∀ t ∈ ts, acq s.1.g t.1.g = 0

theorem acqSum_noX : ∀ (a b : PStr), (∀ j, (getQ a j).1 = false) → (∀ j, (getQ b j).1 = false) → acqSum a b = 0
  | [], _, _, _ => acqSum_nil_left _
  | _ :: _, [], _, _ => acqSum_nil_right _
  | x :: xs, y :: ys, ha, hb => by
    rw [acqSum_cons, acqSum_noX xs ys (fun j => by have := ha (j + 1); rwa [Rn.getQ_cons_succ] at this)
      (fun j => by have := hb (j + 1); rwa [Rn.getQ_cons_succ] at this)]
    have h1 := ha 0
    have h2 := hb 0
    rw [Rn.getQ_cons_zero] at h1 h2
    simp [acqQ, h1, h2, b2i]

theorem take_noX (i0 : Nat) (g : PStr) (h : XFree i0 g) : ∀ j, (getQ (g.take i0) j).1 = false := by
  intro j
  by_cases hj : j < i0
  · rw [getQ_take g i0 j hj]; exact h j hj
  · rw [Rn.getQ_of_le _ _ (by rw [List.length_take]; omega)]

/-- a string `I/Z` below `i0` that commutes with `(I/Z part) Z_{i0}` has no `X` at `i0` -/
theorem comm_noX (E T : PStr) (n i0 : Nat) (hn : 0 < n) (hE : E.length = i0) (hEx : ∀ j, (getQ E j).1 = false)
    (hT : XFree i0 T) (hTl : i0 ≤ T.length) (hc : acq (E ++ unitZ n 0) T = 0) : (getQ T i0).1 = false := by
  have hTs : T = T.take i0 ++ T.drop i0 := (List.take_append_drop i0 T).symm
  have h1 : acqSum (E ++ unitZ n 0) T = acqSum E (T.take i0) + acqSum (unitZ n 0) (T.drop i0) := by
    conv => lhs; rw [hTs]
    exact acqSum_append _ _ _ _ (by rw [List.length_take]; omega)
  have h2 : acqSum E (T.take i0) = 0 := acqSum_noX _ _ hEx (take_noX i0 T hT)
  have h3 : acqSum (unitZ n 0) (T.drop i0) = acqQ (getQ (unitZ n 0) 0) (getQ (T.drop i0) 0) := by
    apply Rn.acqSum_onsite_left
    intro j hj
    by_cases hjn : j < n
    · rw [Rn.getQ_unitZ n 0 j hjn]
      have : (j == 0) = false := by simpa using hj
      rw [this]
    · exact Rn.getQ_of_le _ _ (by rw [Tr.length_unitZ]; omega)
  rw [Rn.getQ_unitZ n 0 0 hn, getQ_drop, Nat.add_zero] at h3
  unfold acq at hc
  rw [h1, h2, h3] at hc
  generalize getQ T i0 = q at hc ⊢
  cases hx : q.1 with
  | false => rfl
  | true =>
    have := (Rn.acqZ_x q).2 hx
    simp at hc
    omega

/-- what the causal diagonalising circuit does to the working Hamiltonian -/
theorem step_apply (N i0 lead : Nat) (htmp : Poly) (L : Term) (hH : HT N i0 htmp) (hi : i0 < N)
    (hL : htmp[lead]? = some L) :
    ∃ ci ht, diagonalizePauli L.1.g i0 true = .ok ci ∧ Ci.Inv N ci (Dg.causalGates L.1.g i0) ∧
      circApply ci htmp = .ok ht ∧ TEq ht (img (Dg.causalGates L.1.g i0) N htmp) ∧
      HT N i0 ht ∧ (∀ L', ht[lead]? = some L' → XFree (i0 + 1) L'.1.g) ∧
      (Comm htmp → Comm ht ∧ ht.filter (xAt i0) = []) := by
  have hLm : L ∈ htmp := List.mem_of_getElem? hL
  obtain ⟨hLl, hLx, hLa⟩ := hH L hLm
  have hi' : i0 < L.1.g.length := by omega
  obtain ⟨ci, hci, hI⟩ := causal_circ L.1.g i0 hi'
  rw [hLl] at hI
  obtain ⟨ht, hht, hT⟩ := circApply_of_inv N ci _ htmp hI (fun t h => (hH t h).1)
  have hg := cgens_len L.1.g i0 hi'
  rw [hLl] at hg
  -- every term of `ht` is the `cstr` image of a term of `htmp`
  have key : ∀ t' ∈ ht, ∃ t ∈ htmp, t'.1.g = cstr i0 (cgens L.1.g i0) t.1.g := by
    intro t' ht'
    obtain ⟨u, hu, hpe, _⟩ := TEq.mem_left hT t' ht'
    obtain ⟨t, htm, rfl⟩ := List.mem_map.1 hu
    refine ⟨t, htm, ?_⟩
    rw [hpe.1]
    show (seqAct (Dg.causalGates L.1.g i0) N t.1).g = _
    rw [← hLl, seqAct_causalGates L.1.g i0 hi' t.1 (by rw [hLl]; exact (hH t htm).1), liftAct_g]
  have hHT : HT N i0 ht := by
    intro t' ht'
    obtain ⟨t, htm, e⟩ := key t' ht'
    obtain ⟨h1, h2, h3⟩ := hH t htm
    rw [e]
    exact ⟨length_cstr i0 N _ hg _ h1, XFree_of_take i0 _ _ (cstr_take i0 N _ hg _ h1) h2,
      anyBit_cstr i0 N _ hg _ h1 h3⟩
  -- the leading term
  have hlead : ∀ L', ht[lead]? = some L' → L'.1.g = L.1.g.take i0 ++ unitZ (N - i0) 0 := by
    intro L' hL'
    obtain ⟨u, hu, hpe, _⟩ := TEq.getElem? hT lead L' hL'
    have hu' : u = (seqAct (Dg.causalGates L.1.g i0) N L.1, L.2) := by
      unfold img at hu
      rw [List.getElem?_map, hL] at hu
      simpa using hu.symm
    rw [hpe.1, hu']
    show (seqAct (Dg.causalGates L.1.g i0) N L.1).g = _
    rw [← hLl, seqAct_causalGates L.1.g i0 hi' L.1 rfl, liftAct_g]
    unfold cstr cgens
    have hdl : (L.1.g.drop i0).length = L.1.g.length - i0 := List.length_drop
    rw [(Rn.diag1_strings (L.1.g.drop i0) 0 (by rw [hdl]; omega) hLa).1, hdl]
  have hleadX : ∀ L', ht[lead]? = some L' → XFree (i0 + 1) L'.1.g := by
    intro L' hL'
    have e := hlead L' hL'
    have hlt : (L.1.g.take i0).length = i0 := by rw [List.length_take]; omega
    apply XFree_succ
    · apply XFree_of_take i0 L.1.g _ ?_ hLx
      rw [e, List.take_left' hlt]
    · have := getQ_append_right (L.1.g.take i0) (unitZ (N - i0) 0) 0
      rw [hlt, Nat.add_zero] at this
      rw [e, this, Rn.getQ_unitZ _ _ _ (by omega)]
  refine ⟨ci, ht, hci, hI, hht, hT, hHT, hleadX, ?_⟩
  intro hC
  have hCt : Comm ht := by
    intro s' hs' t' ht'
    obtain ⟨s, hs, e1⟩ := key s' hs'
    obtain ⟨t, htm, e2⟩ := key t' ht'
    rw [e1, e2, acq_cstr i0 N _ hg _ _ (hH s hs).1 (hH t htm).1]
    exact hC s hs t htm
  refine ⟨hCt, ?_⟩
  rw [List.filter_eq_nil_iff]
  intro t' ht'
  have hlen : lead < ht.length := by
    rw [TEq.length hT, img_length]
    exact (List.getElem?_eq_some_iff.1 hL).1
  have hL' : ht[lead]? = some ht[lead] := List.getElem?_eq_getElem hlen
  have e := hlead _ hL'
  have hc := hCt _ (List.mem_of_getElem? hL') t' ht'
  rw [e] at hc
  have := comm_noX (L.1.g.take i0) t'.1.g (N - i0) i0 (by omega) (by rw [List.length_take]; omega)
    (take_noX i0 _ hLx) (hHT t' ht').2.1 (by rw [(hHT t' ht').1]; omega) hc
  simp [xAt, this]

/-! ## the effective Hamiltonian -/

/-- the diagonal form of the effective Hamiltonian -/
def HE (N : Nat) (heff : Poly) : Prop :=
  (∀ t ∈ heff, noX t.1.g = true ∧ t.1.g.length = N ∧ t.1.p = 0) ∧ (heff.map fun t => t.1.g).Nodup

theorem HE_polyAdd (N : Nat) (a b : Poly) (ha : ∀ t ∈ a, noX t.1.g = true ∧ t.1.g.length = N)
    (hb : ∀ t ∈ b, noX t.1.g = true ∧ t.1.g.length = N) : HE N (polyAdd a b) := by
  obtain ⟨h1, h2, _⟩ := reduce_spec (a ++ b) 1 10000000000 []
  refine ⟨?_, h1⟩
  intro t ht
  obtain ⟨s, hs, e⟩ := mem_reduce_string _ _ _ t ht
  rw [← e]
  rcases List.mem_append.1 hs with hs | hs
  · exact ⟨(ha s hs).1, (ha s hs).2, h2 t ht⟩
  · exact ⟨(hb s hs).1, (hb s hs).2, h2 t ht⟩

theorem noX_of_id (g : PStr) (h : anyBit g = false) : noX g = true := by
  rw [noX_iff, Rn.anyBit_eq_false g h]
  intro j
  rw [Rn.getQ_idStr]

theorem HE_init (N : Nat) (h : Poly) (hl : ∀ t ∈ h, t.1.g.length = N) :
    HE N (polyAdd (polySmul Cx.zero (polyIdentity N)) (h.filter fun t => !(anyBit t.1.g))) := by
  apply HE_polyAdd
  · intro t ht
    simp only [polySmul, polyIdentity, List.map_cons, List.map_nil, List.mem_singleton] at ht
    subst ht
    refine ⟨noX_of_id _ ?_, length_idStr N⟩
    have := (anyBit_eq_false_iff (idStr N)).2 (by rw [length_idStr])
    exact this
  · intro t ht
    obtain ⟨h1, h2⟩ := List.mem_filter.1 ht
    exact ⟨noX_of_id _ (by simpa using h2), hl t h1⟩

theorem HT_init (N : Nat) (h : Poly) (hl : ∀ t ∈ h, t.1.g.length = N) :
    HT N 0 (h.filter fun t => anyBit t.1.g) := by
  intro t ht
  obtain ⟨h1, h2⟩ := List.mem_filter.1 ht
  exact ⟨hl t h1, XFree_zero _, by simpa using h2⟩

theorem stepOut_spec (N i0 : Nat) (heff : Poly) (circ' : Circ) (h2 : Poly)
    (hh : ∀ t ∈ h2, t.1.g.length = N ∧ XFree (i0 + 1) t.1.g) :
    HT N (i0 + 1) (stepOut i0 heff circ' h2).1 ∧
    ∀ t ∈ h2.filter (trivialAfter i0), noX t.1.g = true ∧ t.1.g.length = N := by
  constructor
  · intro t ht
    obtain ⟨h1, h3⟩ := List.mem_filter.1 ht
    refine ⟨(hh t h1).1, (hh t h1).2, ?_⟩
    simpa [trivialAfter] using h3
  · intro t ht
    obtain ⟨h1, h3⟩ := List.mem_filter.1 ht
    refine ⟨noX_of_XFree _ i0 (hh t h1).2 ?_, (hh t h1).1⟩
    simpa [trivialAfter] using h3

/-- inversion of a successful iteration -/
theorem step_inv (cfg : SbrgCfg) (N i0 lead : Nat) (htmp heff : Poly) (circ : Circ) (out : Poly × Poly × Circ)
    (hH : HT N i0 htmp) (hi : i0 < N) (hs : sbrgStep cfg i0 lead htmp heff circ = .ok out) :
    ∃ circ' h2, out = stepOut i0 heff circ' h2 ∧ ∀ t ∈ h2, t.1.g.length = N ∧ XFree (i0 + 1) t.1.g := by
  cases hL : htmp[lead]? with
  | none => rw [sbrgStep_none _ _ _ _ _ _ hL] at hs; cases hs
  | some L =>
    obtain ⟨ci, ht, hci, _, hht, _, hHT, hLX, _⟩ := step_apply N i0 lead htmp L hH hi hL
    rw [sbrgStep_eq cfg i0 lead htmp heff circ L ci ht hL hci hht] at hs
    cases hc : circ.compose ci with
    | error e => rw [hc] at hs; cases hs
    | ok circ' =>
      rw [hc] at hs
      dsimp only at hs
      cases hn : nextOf cfg i0 lead ht with
      | error e => rw [hn] at hs; cases hs
      | ok h2 =>
        rw [hn] at hs
        cases hs
        exact ⟨circ', h2, rfl, nextOf_spec cfg N i0 lead ht h2 (fun t h => ⟨(hHT t h).1, (hHT t h).2.1⟩) hLX hn⟩

/-- **the effective Hamiltonian stays diagonal through the loop** -/
theorem loop_diag (cfg : SbrgCfg) (N : Nat) : ∀ (k i0 : Nat) (leads : List Nat) (htmp heff : Poly) (circ : Circ)
    (res : Poly × Circ), i0 + k = N → HT N i0 htmp → HE N heff →
    sbrgLoop cfg k i0 leads htmp heff circ = .ok res → HE N res.1 := by
  intro k
  induction k with
  | zero =>
    intro i0 leads htmp heff circ res _ _ hE hs
    unfold sbrgLoop at hs
    cases hs; exact hE
  | succ k ih =>
    intro i0 leads htmp heff circ res hk hH hE hs
    unfold sbrgLoop at hs
    split at hs
    · cases hs; exact hE
    · cases leads with
      | nil => cases hs
      | cons lead rest =>
        dsimp only at hs
        cases hst : sbrgStep cfg i0 lead htmp heff circ with
        | error e => rw [hst] at hs; cases hs
        | ok out =>
          rw [hst] at hs
          obtain ⟨circ', h2, rfl, hh⟩ := step_inv cfg N i0 lead htmp heff circ out hH (by omega) hst
          obtain ⟨h1, h3⟩ := stepOut_spec N i0 heff circ' h2 hh
          refine ih (i0 + 1) rest _ _ _ res (by omega) h1 ?_ hs
          exact HE_polyAdd N heff _ (fun t ht => ⟨(hE.1 t ht).1, (hE.1 t ht).2.1⟩) h3

/-! ## totality -/

theorem fold_take_ok' (N : Nat) : ∀ (gsl : List Gate) (c0 : Circ), c0.N = N → c0.layers ≠ [] → (∀ g ∈ gsl, g.WF N) →
    ∃ c, gsl.foldlM (fun c g => c.take g) c0 = .ok c ∧ c.N = N ∧ c.layers ≠ [] := by
  intro gsl
  induction gsl with
  | nil => intro c0 hN hl _; exact ⟨c0, rfl, hN, hl⟩
  | cons g gs ih =>
    intro c0 hN hl hw
    obtain ⟨c1, h1, hN1, hl1⟩ := Dg.take_ok c0 g N hN (hw g (by simp)) hl
    obtain ⟨c, hc, h2, h3⟩ := ih c1 hN1 hl1 (fun x hx => hw x (by simp [hx]))
    refine ⟨c, ?_, h2, h3⟩
    rw [List.foldlM_cons, h1]
    exact hc

theorem compose_ok (N : Nat) (circ ci : Circ) (pre : List Gate) (hN : circ.N = N) (hl : circ.layers ≠ [])
    (hI : Ci.Inv N ci pre) : ∃ c', circ.compose ci = .ok c' ∧ c'.N = N ∧ c'.layers ≠ [] := by
  obtain ⟨hN2, -, -, -, hw, -⟩ := hI
  obtain ⟨c, hc, h2, h3⟩ := fold_take_ok' N (Ci.flatGates ci.layers) circ hN hl hw
  refine ⟨c, ?_, h2, h3⟩
  unfold Circ.compose
  rw [hN, hN2]
  simp only [bne_self_eq_false, Bool.false_eq_true, if_false]
  exact hc

theorem compose_inv (N : Nat) (circ ci c' : Circ) (p1 p2 : List Gate) (hI1 : Ci.Inv N circ p1) (hI2 : Ci.Inv N ci p2)
    (hc : circ.compose ci = .ok c') : Ci.Inv N c' (p1 ++ p2) := by
  obtain ⟨-, -, -, -, hwf2, hs2⟩ := hI2
  unfold Circ.compose at hc
  split at hc
  · cases hc
  · dsimp only at hc
    have hc : List.foldlM (fun acc g => acc.take g) circ (Ci.flatGates ci.layers) = .ok c' := hc
    obtain ⟨h1, h2, h3, h4, h5, h6⟩ := Ci.fold_inv N (Ci.flatGates ci.layers) circ c' p1 hI1 hwf2 hc
    refine ⟨h1, h2, h3, h4, h5, ?_⟩
    intro P hP
    refine (h6 P hP).trans ?_
    rw [Ci.seqAct_append, Ci.seqAct_append]
    apply hs2
    rw [Ci.length_seqAct]
    exact hP

theorem step_ok (cfg : SbrgCfg) (N i0 lead : Nat) (htmp heff : Poly) (circ : Circ)
    (hH : HT N i0 htmp) (hi : i0 < N) (hl : lead < htmp.length) (hN : circ.N = N) (hly : circ.layers ≠ []) :
    ∃ circ' h2, sbrgStep cfg i0 lead htmp heff circ = .ok (stepOut i0 heff circ' h2) ∧ circ'.N = N ∧ circ'.layers ≠ [] ∧
      ∀ t ∈ h2, t.1.g.length = N ∧ XFree (i0 + 1) t.1.g := by
  have hL : htmp[lead]? = some htmp[lead] := List.getElem?_eq_getElem hl
  obtain ⟨ci, ht, hci, hI, hht, hT, hHT, hLX, _⟩ := step_apply N i0 lead htmp _ hH hi hL
  obtain ⟨circ', hc, h1, h2⟩ := compose_ok N circ ci _ hN hly hI
  obtain ⟨h2', hn⟩ := nextOf_ok cfg i0 lead ht (by rw [TEq.length hT, img_length]; exact hl)
  refine ⟨circ', h2', ?_, h1, h2,
    nextOf_spec cfg N i0 lead ht h2' (fun t h => ⟨(hHT t h).1, (hHT t h).2.1⟩) hLX hn⟩
  rw [sbrgStep_eq cfg i0 lead htmp heff circ _ ci ht hL hci hht, hc]
  dsimp only
  rw [hn]

theorem loop_ok (cfg : SbrgCfg) (N : Nat) : ∀ (k i0 : Nat) (htmp heff : Poly) (circ : Circ),
    i0 + k = N → HT N i0 htmp → circ.N = N → circ.layers ≠ [] →
    ∃ res, sbrgLoop cfg k i0 (List.replicate k 0) htmp heff circ = .ok res := by
  intro k
  induction k with
  | zero => intro i0 htmp heff circ _ _ _ _; exact ⟨_, rfl⟩
  | succ k ih =>
    intro i0 htmp heff circ hk hH hN hly
    unfold sbrgLoop
    split
    · exact ⟨_, rfl⟩
    · rename_i hne
      rw [List.replicate_succ]
      dsimp only
      obtain ⟨circ', h2, hs, h3, h4, hh⟩ := step_ok cfg N i0 0 htmp heff circ hH (by omega) (by omega) hN hly
      rw [hs]
      exact ih (i0 + 1) _ _ _ (by omega) (stepOut_spec N i0 heff circ' h2 hh).1 h3 h4

/-! ## commuting terms: the perturbative block is never entered -/

theorem Comm_filter (ts : Poly) (p : Term → Bool) (h : Comm ts) : Comm (ts.filter p) :=
  fun s hs t ht => h s (List.mem_filter.1 hs).1 t (List.mem_filter.1 ht).1

/-- one iteration on commuting terms, for every configuration -/
theorem step_comm (N i0 lead : Nat) (htmp : Poly) (L : Term) (hH : HT N i0 htmp) (hi : i0 < N) (hC : Comm htmp)
    (hL : htmp[lead]? = some L) :
    ∃ ci ht, Ci.Inv N ci (Dg.causalGates L.1.g i0) ∧ TEq ht (img (Dg.causalGates L.1.g i0) N htmp) ∧
      HT N i0 ht ∧ Comm ht ∧ (∀ t ∈ ht, t.1.g.length = N ∧ XFree (i0 + 1) t.1.g) ∧
      ∀ (cfg : SbrgCfg) (heff : Poly) (circ : Circ), sbrgStep cfg i0 lead htmp heff circ =
        match circ.compose ci with
        | .error e => .error e
        | .ok circ' => .ok (stepOut i0 heff circ' ht) := by
  obtain ⟨ci, ht, hci, hI, hht, hT, hHT, hLX, hcm⟩ := step_apply N i0 lead htmp L hH hi hL
  obtain ⟨hCt, hnil⟩ := hcm hC
  refine ⟨ci, ht, hI, hT, hHT, hCt, ?_, ?_⟩
  · exact nextOf_spec {} N i0 lead ht ht (fun t h => ⟨(hHT t h).1, (hHT t h).2.1⟩) hLX (nextOf_comm _ _ _ _ hnil)
  · intro cfg heff circ
    rw [sbrgStep_eq cfg i0 lead htmp heff circ L ci ht hL hci hht, nextOf_comm cfg i0 lead ht hnil]

theorem loop_cfg (cfg cfg' : SbrgCfg) (N : Nat) : ∀ (k i0 : Nat) (leads : List Nat) (htmp heff : Poly) (circ : Circ),
    i0 + k = N → HT N i0 htmp → Comm htmp →
    sbrgLoop cfg k i0 leads htmp heff circ = sbrgLoop cfg' k i0 leads htmp heff circ := by
  intro k
  induction k with
  | zero => intro i0 leads htmp heff circ _ _ _; rfl
  | succ k ih =>
    intro i0 leads htmp heff circ hk hH hC
    unfold sbrgLoop
    split
    · rfl
    · cases leads with
      | nil => rfl
      | cons lead rest =>
        dsimp only
        cases hL : htmp[lead]? with
        | none => rw [sbrgStep_none _ _ _ _ _ _ hL, sbrgStep_none _ _ _ _ _ _ hL]
        | some L =>
          obtain ⟨ci, ht, _, _, _, hCt, hh, hs⟩ := step_comm N i0 lead htmp L hH (by omega) hC hL
          rw [hs cfg, hs cfg']
          cases circ.compose ci with
          | error e => rfl
          | ok circ' =>
            dsimp only
            exact ih (i0 + 1) rest _ _ _ (by omega) (stepOut_spec N i0 heff circ' ht hh).1 (Comm_filter _ _ hCt)

theorem Comm_init (h : Poly) (hc : ∀ s ∈ h, ∀ t ∈ h, acq s.1.g t.1.g = 0) (p : Term → Bool) : Comm (h.filter p) :=
  Comm_filter h p hc

/-! ## commuting terms: the circuit maps the input exactly onto the effective Hamiltonian -/

theorem keep_zero (tn td : Nat) : keep Cx.zero tn td = Cx.zero := by
  unfold keep; split <;> rfl

theorem keep_keep (c : Cx) (tn td : Nat) : keep (keep c tn td) tn td = keep c tn td := by
  by_cases h : c.norm2 > tolSq tn td
  · simp [keep, h]
  · simp [keep, h]

theorem keep_merge (A B : Cx) (tn td : Nat) (h : A = Cx.zero ∨ B = Cx.zero) :
    keep ((keep A tn td).add B) tn td = keep (A.add B) tn td := by
  rcases h with rfl | rfl
  · rw [keep_zero]
  · rw [Cx.add_zero, Cx.add_zero, keep_keep]

theorem coef_polyAdd (a b : Poly) (g : PStr) :
    coef (polyAdd a b) g = keep ((coef a g).add (coef b g)) 1 10000000000 := by
  show coef (reduce (a ++ b) 1 10000000000) g = _
  rw [(reduce_spec (a ++ b) 1 10000000000 g).2.2, coef_append]

theorem img_app (prog : List Gate) (N : Nat) (a b : Poly) : img prog N (a ++ b) = img prog N a ++ img prog N b := by
  simp [img]

/-- terms that are trivial on the qubits `≥ i0` are not changed by a causal circuit at `i0` -/
theorem img_fixed (Lg : PStr) (i0 N : Nat) (hN : Lg.length = N) (hi : i0 < N) (X : Poly)
    (hX : ∀ t ∈ X, t.1.g.length = N ∧ anyBit (t.1.g.drop i0) = false) : img (Dg.causalGates Lg i0) N X = X := by
  unfold img
  conv => rhs; rw [← List.map_id X]
  apply List.map_congr_left
  intro t ht
  obtain ⟨h1, h2⟩ := hX t ht
  subst hN
  rw [seqAct_causalGates Lg i0 hi t.1 h1, liftAct_id _ _ _ h2]
  rfl

theorem anyBit_drop_succ (g : PStr) (i0 : Nat) (h : anyBit (g.drop i0) = false) : anyBit (g.drop (i0 + 1)) = false := by
  unfold anyBit at *
  rw [List.any_eq_false] at *
  intro q hq
  apply h q
  have e : g.drop (i0 + 1) = (g.drop i0).drop 1 := by rw [List.drop_drop]
  rw [e] at hq
  exact List.mem_of_mem_drop hq

/-- the ghost state of the loop on commuting terms: `rem` = original terms still in the working Hamiltonian,
    `col` = original terms already collected, `prog` = gate program of the circuit so far -/
structure J (N i0 : Nat) (h htmp heff : Poly) (circ : Circ) (prog : List Gate) (rem col : Poly) : Prop where
  inv : Ci.Inv N circ prog
  tmp : TEq htmp (img prog N rem)
  perm : h.Perm (col ++ rem)
  eff : ∀ g, coef heff g = keep (coef (img prog N col) g) 1 10000000000
  done : ∀ t ∈ img prog N col, t.1.g.length = N ∧ anyBit (t.1.g.drop i0) = false

theorem J_final (N i0 : Nat) (h htmp heff : Poly) (circ : Circ) (prog : List Gate) (rem col : Poly)
    (hJ : J N i0 h htmp heff circ prog rem col) (he : htmp = []) :
    ∀ g, coef heff g = keep (coef (img prog N h) g) 1 10000000000 := by
  intro g
  have hr : rem = [] := by
    have := TEq.length hJ.tmp
    rw [he, img_length] at this
    exact List.eq_nil_of_length_eq_zero this.symm
  have hp := hJ.perm
  rw [hr, List.append_nil] at hp
  rw [hJ.eff g]
  congr 1
  exact (coef_perm (hp.map _) g).symm

theorem J_init (N : Nat) (h : Poly) (hl : ∀ t ∈ h, t.1.g.length = N) :
    J N 0 h (h.filter fun t => anyBit t.1.g)
      (polyAdd (polySmul Cx.zero (polyIdentity N)) (h.filter fun t => !(anyBit t.1.g))) { N := N } []
      (h.filter fun t => anyBit t.1.g) (h.filter fun t => !(anyBit t.1.g)) where
  inv := Ci.inv_init N
  tmp := by rw [img_nil]; exact TEq.refl _
  perm := ((List.filter_append_perm (fun t : Term => anyBit t.1.g) h).symm).trans List.perm_append_comm
  eff := by
    intro g
    rw [coef_polyAdd, coef_smul, Cx.zero_mul, Cx.zero_add, img_nil]
  done := by
    intro t ht
    rw [img_nil] at ht
    obtain ⟨h1, h2⟩ := List.mem_filter.1 ht
    exact ⟨hl t h1, by simpa using h2⟩

theorem J_step (N i0 : Nat) (h htmp heff : Poly) (circ circ' ci : Circ) (prog : List Gate) (rem col : Poly)
    (L : Term) (ht : Poly) (hl : ∀ t ∈ h, t.1.g.length = N) (hi : i0 < N) (hLl : L.1.g.length = N)
    (hJ : J N i0 h htmp heff circ prog rem col)
    (hI : Ci.Inv N ci (Dg.causalGates L.1.g i0)) (hT : TEq ht (img (Dg.causalGates L.1.g i0) N htmp))
    (hHT : HT N i0 ht) (hc : circ.compose ci = .ok circ') :
    ∃ prog' rem' col', J N (i0 + 1) h (ht.filter fun t => !(trivialAfter i0 t))
      (polyAdd heff (ht.filter (trivialAfter i0))) circ' prog' rem' col' := by
  let P := Dg.causalGates L.1.g i0
  let q : Term → Bool := fun t => trivialAfter i0 (seqAct (prog ++ P) N t.1, t.2)
  have e1 : TEq ht (img (prog ++ P) N rem) := by
    rw [img_append]
    exact hT.trans (img_TEq P N hJ.tmp)
  have hcong : ∀ s t : Term, s.1.g = t.1.g → trivialAfter i0 s = trivialAfter i0 t := by
    intro s t hg; simp [trivialAfter, hg]
  have e2 : TEq (ht.filter (trivialAfter i0)) (img (prog ++ P) N (rem.filter q)) := by
    have := TEq.filter e1 (trivialAfter i0) (trivialAfter i0) hcong
    rwa [img_filter] at this
  have e3 : TEq (ht.filter fun t => !(trivialAfter i0 t)) (img (prog ++ P) N (rem.filter fun t => !(q t))) := by
    have := TEq.filter e1 (fun t => !(trivialAfter i0 t)) (fun t => !(trivialAfter i0 t))
      (fun s t hg => by rw [hcong s t hg])
    rwa [img_filter] at this
  have hfix : img (prog ++ P) N col = img prog N col := by
    rw [img_append]
    exact img_fixed L.1.g i0 N hLl hi _ hJ.done
  have hremN : ∀ t ∈ rem, t.1.g.length = N := by
    intro t ht'
    exact hl t (hJ.perm.mem_iff.2 (List.mem_append_right _ ht'))
  refine ⟨prog ++ P, rem.filter (fun t => !(q t)), col ++ rem.filter q, ?_⟩
  refine ⟨compose_inv N circ ci circ' prog P hJ.inv hI hc, e3, ?_, ?_, ?_⟩
  · refine hJ.perm.trans ?_
    rw [List.append_assoc]
    exact (List.Perm.refl col).append (List.filter_append_perm q rem).symm
  · intro g
    rw [coef_polyAdd, hJ.eff g, img_app, coef_append, hfix, ← TEq.coef e2 g]
    apply keep_merge
    cases hg : anyBit (g.drop i0) with
    | true =>
      left
      apply coef_of_not_mem
      intro t ht' e
      have := (hJ.done t ht').2
      rw [e, hg] at this
      cases this
    | false =>
      right
      apply coef_of_not_mem
      intro t ht' e
      have := (hHT t (List.mem_filter.1 ht').1).2.2
      rw [e, hg] at this
      cases this
  · intro t ht'
    rw [img_app] at ht'
    rcases List.mem_append.1 ht' with h1 | h1
    · rw [hfix] at h1
      exact ⟨(hJ.done t h1).1, anyBit_drop_succ _ _ (hJ.done t h1).2⟩
    · obtain ⟨u, hu, rfl⟩ := List.mem_map.1 h1
      obtain ⟨hu1, hu2⟩ := List.mem_filter.1 hu
      refine ⟨by show (seqAct (prog ++ P) N u.1).g.length = N; rw [Ci.length_seqAct]; exact hremN u hu1, ?_⟩
      have : trivialAfter i0 (seqAct (prog ++ P) N u.1, u.2) = true := hu2
      simpa [trivialAfter] using this

theorem HT_top (N : Nat) (htmp : Poly) (hH : HT N N htmp) : htmp = [] := by
  cases htmp with
  | nil => rfl
  | cons t ts =>
    obtain ⟨h1, _, h3⟩ := hH t (by simp)
    rw [List.drop_of_length_le (by omega)] at h3
    cases h3

theorem loop_exact (cfg : SbrgCfg) (N : Nat) (h : Poly) (hl : ∀ t ∈ h, t.1.g.length = N) :
    ∀ (k i0 : Nat) (leads : List Nat) (htmp heff : Poly) (circ : Circ) (prog : List Gate) (rem col : Poly)
      (res : Poly × Circ), i0 + k = N → HT N i0 htmp → Comm htmp → J N i0 h htmp heff circ prog rem col →
      sbrgLoop cfg k i0 leads htmp heff circ = .ok res →
      ∃ prog', Ci.Inv N res.2 prog' ∧ ∀ g, coef res.1 g = keep (coef (img prog' N h) g) 1 10000000000 := by
  intro k
  induction k with
  | zero =>
    intro i0 leads htmp heff circ prog rem col res hk hH _ hJ hs
    unfold sbrgLoop at hs
    cases hs
    have : i0 = N := by omega
    subst this
    exact ⟨prog, hJ.inv, J_final _ _ _ _ _ _ _ _ _ hJ (HT_top _ _ hH)⟩
  | succ k ih =>
    intro i0 leads htmp heff circ prog rem col res hk hH hC hJ hs
    unfold sbrgLoop at hs
    split at hs
    · rename_i he
      cases hs
      exact ⟨prog, hJ.inv, J_final _ _ _ _ _ _ _ _ _ hJ (List.eq_nil_of_length_eq_zero he)⟩
    · cases leads with
      | nil => cases hs
      | cons lead rest =>
        dsimp only at hs
        cases hL : htmp[lead]? with
        | none => rw [sbrgStep_none _ _ _ _ _ _ hL] at hs; cases hs
        | some L =>
          obtain ⟨ci, ht, hI, hT, hHT, hCt, hh, hst⟩ := step_comm N i0 lead htmp L hH (by omega) hC hL
          rw [hst cfg] at hs
          cases hc : circ.compose ci with
          | error e => rw [hc] at hs; cases hs
          | ok circ' =>
            rw [hc] at hs
            dsimp only at hs
            obtain ⟨prog', rem', col', hJ'⟩ := J_step N i0 h htmp heff circ circ' ci prog rem col L ht hl (by omega)
              (hH L (List.mem_of_getElem? hL)).1 hJ hI hT hHT hc
            exact ih (i0 + 1) rest _ _ _ prog' rem' col' res (by omega) (stepOut_spec N i0 heff circ' ht hh).1
              (Comm_filter _ _ hCt) hJ' hs

end Sb
end PC
