import PyCliffordModel.Model.Index
/-! # Proofs/IndexLemmas — helper lemmas for C20b (`range`, `slice.indices`, row selection) -/
namespace PC.Ix
open PC

/-! ## `sliceBound` stays inside `[lower, upper]` -/

theorem sliceBound_pos (L : Nat) (step : Int) (h : 0 < step) (v : Option Int) (b : Bool) :
    0 ≤ sliceBound L step v b ∧ sliceBound L step v b ≤ (L : Int) := by
  have hn : ¬ step < 0 := by omega
  unfold sliceBound
  cases v with
  | none => simp only [hn, if_false]; cases b <;> simp
  | some x => simp only [hn, if_false]; split <;> split <;> omega

theorem sliceBound_neg (L : Nat) (step : Int) (h : step < 0) (v : Option Int) (b : Bool) :
    -1 ≤ sliceBound L step v b ∧ sliceBound L step v b ≤ (L : Int) - 1 := by
  unfold sliceBound
  cases v with
  | none => simp only [h, if_true]; cases b <;> simp <;> omega
  | some x => simp only [h, if_true]; split <;> split <;> omega

/-! ## `rangeFrom` -/

theorem rangeFrom_pos_mem (stop step : Int) (h : 0 < step) :
    ∀ (fuel : Nat) (cur x : Int), x ∈ rangeFrom stop step fuel cur → cur ≤ x ∧ x < stop := by
  intro fuel
  induction fuel with
  | zero => intro cur x hx; simp [rangeFrom] at hx
  | succ f ih =>
    intro cur x hx
    unfold rangeFrom at hx
    split at hx
    · rename_i hc
      have hc' : cur < stop := by omega
      rcases List.mem_cons.mp hx with rfl | hx
      · omega
      · have := ih _ _ hx; omega
    · simp at hx

theorem rangeFrom_neg_mem (stop step : Int) (h : step < 0) :
    ∀ (fuel : Nat) (cur x : Int), x ∈ rangeFrom stop step fuel cur → stop < x ∧ x ≤ cur := by
  intro fuel
  induction fuel with
  | zero => intro cur x hx; simp [rangeFrom] at hx
  | succ f ih =>
    intro cur x hx
    unfold rangeFrom at hx
    split at hx
    · rename_i hc
      have hc' : stop < cur := by omega
      rcases List.mem_cons.mp hx with rfl | hx
      · omega
      · have := ih _ _ hx; omega
    · simp at hx

theorem rangeFrom_pos_pairwise (stop step : Int) (h : 0 < step) :
    ∀ (fuel : Nat) (cur : Int), 0 ≤ cur →
      ((rangeFrom stop step fuel cur).map Int.toNat).Pairwise (· < ·) := by
  intro fuel
  induction fuel with
  | zero => intro cur _; simp [rangeFrom]
  | succ f ih =>
    intro cur h0
    unfold rangeFrom
    split
    · rw [List.map_cons, List.pairwise_cons]
      refine ⟨?_, ih _ (by omega)⟩
      intro y hy
      obtain ⟨x, hx, rfl⟩ := List.mem_map.mp hy
      have := rangeFrom_pos_mem stop step h _ _ _ hx
      omega
    · simp

theorem rangeFrom_neg_pairwise (stop step : Int) (h : step < 0) (hs : -1 ≤ stop) :
    ∀ (fuel : Nat) (cur : Int),
      ((rangeFrom stop step fuel cur).map Int.toNat).Pairwise (· > ·) := by
  intro fuel
  induction fuel with
  | zero => intro cur; simp [rangeFrom]
  | succ f ih =>
    intro cur
    unfold rangeFrom
    split
    · rw [List.map_cons, List.pairwise_cons]
      refine ⟨?_, ih _⟩
      intro y hy
      obtain ⟨x, hx, rfl⟩ := List.mem_map.mp hy
      have := rangeFrom_neg_mem stop step h _ _ _ hx
      omega
    · simp

/-- `range(s, e)` with enough fuel is `s, s+1, …, e-1` -/
theorem rangeFrom_one (e : Int) :
    ∀ (fuel : Nat) (s : Int), 0 ≤ s → (e - s).toNat ≤ fuel →
      (rangeFrom e 1 fuel s).map Int.toNat = List.range' s.toNat (e - s).toNat := by
  intro fuel
  induction fuel with
  | zero =>
    intro s _ hf
    have : (e - s).toNat = 0 := by omega
    simp [rangeFrom, this]
  | succ f ih =>
    intro s h0 hf
    unfold rangeFrom
    by_cases hc : s < e
    · have hcond : ((1 : Int) > 0 ∧ s < e) ∨ ((1 : Int) < 0 ∧ s > e) := Or.inl ⟨by omega, hc⟩
      rw [if_pos hcond, List.map_cons, ih (s + 1) (by omega) (by omega)]
      have h1 : (e - s).toNat = (e - (s + 1)).toNat + 1 := by omega
      have h2 : (s + 1).toNat = s.toNat + 1 := by omega
      rw [h1, h2, List.range'_succ]
    · have hcond : ¬ (((1 : Int) > 0 ∧ s < e) ∨ ((1 : Int) < 0 ∧ s > e)) := by omega
      have : (e - s).toNat = 0 := by omega
      rw [if_neg hcond, this]; rfl

/-- `range(k-1, -1, -1)` with enough fuel is `k-1, …, 0` -/
theorem rangeFrom_down :
    ∀ (fuel k : Nat), k ≤ fuel →
      (rangeFrom (-1) (-1) fuel ((k : Int) - 1)).map Int.toNat = (List.range k).reverse := by
  intro fuel
  induction fuel with
  | zero => intro k hk; have : k = 0 := by omega
            subst this; simp [rangeFrom]
  | succ f ih =>
    intro k hk
    unfold rangeFrom
    cases k with
    | zero => simp
    | succ k =>
      have hcond : ((-1 : Int) > 0 ∧ ((k + 1 : Nat) : Int) - 1 < -1) ∨
          ((-1 : Int) < 0 ∧ ((k + 1 : Nat) : Int) - 1 > -1) := Or.inr ⟨by omega, by omega⟩
      rw [if_pos hcond, List.map_cons]
      have h1 : ((k + 1 : Nat) : Int) - 1 + -1 = (k : Int) - 1 := by omega
      have h2 : (((k + 1 : Nat) : Int) - 1).toNat = k := by omega
      rw [h1, h2, ih k (by omega), List.range_succ, List.reverse_append]
      rfl

/-! ## rows -/

theorem map_rowAt_range' (rows : List Pauli) :
    ∀ (n a : Nat), a + n ≤ rows.length →
      (List.range' a n).map (rowAt rows) = (rows.drop a).take n := by
  intro n
  induction n with
  | zero => intro a _; simp
  | succ n ih =>
    intro a h
    have ha : a < rows.length := by omega
    rw [List.range'_succ, List.map_cons, ih (a + 1) (by omega), List.drop_eq_getElem_cons ha,
      List.take_succ_cons]
    congr 1
    simp [rowAt, List.getD_eq_getElem?_getD, List.getElem?_eq_getElem ha]

theorem map_rowAt_range (rows : List Pauli) :
    (List.range rows.length).map (rowAt rows) = rows := by
  rw [List.range_eq_range', map_rowAt_range' rows rows.length 0 (by omega)]
  simp

end PC.Ix
